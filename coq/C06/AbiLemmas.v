(* C06: basic lemmas about the ABI spec (Abi.v): induction principle, words, lengths,
   enc length = static_size (static types), enc length <= size_bound. *)
From Coq Require Import ZArith List Bool Lia ZifyBool.
From Verif Require Import C06.Abi.
Import ListNotations.
Open Scope Z_scope.
Ltac Zify.zify_post_hook ::= Z.to_euclidean_division_equations.

(* ---------- induction principle for the nested type ---------- *)
Section TyInd.
  Variable P : ty -> Prop. (*section*)
  Hypothesis HU : forall b, P (TUInt b). (*section*)
  Hypothesis HI : forall b, P (TInt b). (*section*)
  Hypothesis HB : P TBool. (*section*)
  Hypothesis HA : P TAddress. (*section*)
  Hypothesis HM : forall m, P (TBytesM m). (*section*)
  Hypothesis HD : P TDecimal. (*section*)
  Hypothesis HF : forall m, P (TFlag m). (*section*)
  Hypothesis HBy : forall b, P (TBytes b). (*section*)
  Hypothesis HS : forall b, P (TString b). (*section*)
  Hypothesis HSA : forall t n, P t -> P (TSArr t n). (*section*)
  Hypothesis HDA : forall t b, P t -> P (TDArr t b). (*section*)
  Hypothesis HT : forall ts, Forall P ts -> P (TTuple ts). (*section*)
  Fixpoint ty_ind' (t : ty) : P t :=
    match t with
    | TUInt b => HU b | TInt b => HI b | TBool => HB | TAddress => HA | TBytesM m => HM m
    | TDecimal => HD | TFlag m => HF m | TBytes b => HBy b | TString b => HS b
    | TSArr t' n => HSA t' n (ty_ind' t')
    | TDArr t' b => HDA t' b (ty_ind' t')
    | TTuple ts => HT ts ((fix go (l : list ty) : Forall P l :=
                             match l with [] => Forall_nil P | x :: r => Forall_cons x (ty_ind' x) (go r) end) ts)
    end.
End TyInd.

(* ---------- zlen ---------- *)
Lemma zlen_nil {A} : zlen (@nil A) = 0. Proof. reflexivity. Qed.
Lemma zlen_cons {A} (x : A) l : zlen (x :: l) = 1 + zlen l.
Proof. unfold zlen. cbn [length]. lia. Qed.
Lemma zlen_app {A} (a b : list A) : zlen (a ++ b) = zlen a + zlen b.
Proof. unfold zlen. rewrite app_length. lia. Qed.
Lemma zlen_nonneg {A} (l : list A) : 0 <= zlen l.
Proof. unfold zlen. lia. Qed.
Lemma zlen_map {A B} (f : A -> B) l : zlen (map f l) = zlen l.
Proof. unfold zlen. now rewrite map_length. Qed.
Lemma zlen_repeat {A} (x : A) n : zlen (repeat x n) = Z.of_nat n.
Proof. unfold zlen. now rewrite repeat_length. Qed.
Lemma zlen_zeros n : zlen (zeros n) = Z.max 0 n.
Proof. unfold zeros. rewrite zlen_repeat. lia. Qed.
Lemma to_nat_zlen {A} (l : list A) : Z.to_nat (zlen l) = length l.
Proof. unfold zlen. lia. Qed.

(* ---------- words ---------- *)
Lemma zlen_be n z : zlen (be n z) = Z.of_nat n.
Proof. revert z. induction n; intro z; cbn [be]. reflexivity. rewrite zlen_app, IHn, zlen_cons, zlen_nil. lia. Qed.
Lemma zlen_word z : zlen (word z) = 32.
Proof. unfold word. now rewrite zlen_be. Qed.

Lemma unbe_app l x : unbe (l ++ [x]) = unbe l * 256 + x.
Proof. unfold unbe. rewrite fold_left_app. reflexivity. Qed.
Lemma unbe_be n z : unbe (be n z) = z mod 256 ^ Z.of_nat n.
Proof.
  revert z. induction n; intro z.
  - cbn. now rewrite Z.mod_1_r.
  - cbn [be]. rewrite unbe_app, IHn.
    replace (Z.of_nat (S n)) with (Z.of_nat n + 1) by lia.
    rewrite Z.pow_add_r, Z.pow_1_r by lia.
    assert (0 < 256 ^ Z.of_nat n) by (apply Z.pow_pos_nonneg; lia).
    rewrite (Z.mul_comm (256 ^ Z.of_nat n) 256).
    rewrite Z.rem_mul_r by lia. lia.
Qed.
Lemma W256_val : W256 = 256 ^ 32. Proof. reflexivity. Qed.
Lemma W256_pos : 0 < W256. Proof. reflexivity. Qed.
Lemma unbe_word z : unbe (word z) = z mod W256.
Proof.
  unfold word. rewrite unbe_be. change (256 ^ Z.of_nat 32) with W256.
  apply Z.mod_mod. pose proof W256_pos. lia.
Qed.

(* ---------- padding arithmetic ---------- *)
Lemma pad32_spec len : pad32 len = ceil32 len - len.
Proof. unfold pad32, ceil32. lia. Qed.
Lemma pad32_range len : 0 <= pad32 len < 32.
Proof. unfold pad32. lia. Qed.
Lemma ceil32_mono a b : a <= b -> ceil32 a <= ceil32 b.
Proof. unfold ceil32. lia. Qed.
Lemma ceil32_ge a : a <= ceil32 a.
Proof. unfold ceil32. lia. Qed.

(* ---------- zsum ---------- *)
Lemma zsum_app a b : zsum (a ++ b) = zsum a + zsum b.
Proof. unfold zsum. induction a; cbn [app fold_right]; lia. Qed.
Lemma zsum_cons x l : zsum (x :: l) = x + zsum l. Proof. reflexivity. Qed.
Lemma zsum_nonneg l : Forall (fun x => 0 <= x) l -> 0 <= zsum l.
Proof. induction 1; [cbn; lia | rewrite zsum_cons; lia]. Qed.

(* ---------- sequences ---------- *)
Definition comp_len (p : bool * list Z) : Z := if fst p then 32 + zlen (snd p) else zlen (snd p).

Lemma zlen_heads parts off : zlen (heads parts off) = head_len parts.
Proof.
  revert off. induction parts as [|[[|] e] r IH]; intro off; cbn [heads head_len].
  - reflexivity.
  - rewrite zlen_app, zlen_word, IH. lia.
  - rewrite zlen_app, IH. lia.
Qed.
Lemma zlen_enc_seq parts : zlen (enc_seq parts) = zsum (map comp_len parts).
Proof.
  unfold enc_seq. rewrite zlen_app, zlen_heads.
  induction parts as [|[[|] e] r IH]; cbn [head_len tails map]; [reflexivity| |];
    rewrite zsum_cons; unfold comp_len at 1; cbn [fst snd]; try rewrite zlen_app; lia.
Qed.
Lemma head_len_nonneg parts : 0 <= head_len parts.
Proof. induction parts as [|[[|] e] r IH]; cbn [head_len]; try lia. pose proof (zlen_nonneg e). lia. Qed.

(* ---------- sizes ---------- *)
Lemma emb_static_unfold t : emb_static t = if is_dynamic t then 32 else static_size t.
Proof. reflexivity. Qed.

Lemma sizes_nonneg t : wf_ty t = true -> 0 <= static_size t /\ 0 <= dynamic_size_bound t.
Proof.
  induction t using ty_ind'; cbn [wf_ty static_size dynamic_size_bound]; intro Hwf;
    try (split; lia); try (unfold ceil32; split; lia).
  - (* sarr *) apply andb_prop in Hwf as [Hn Hw]. specialize (IHt Hw). destruct (is_dynamic t); split; nia.
  - (* darr *) apply andb_prop in Hwf as [Hn Hw]. specialize (IHt Hw). destruct (is_dynamic t); split; nia.
  - (* tuple *)
    induction H as [|x l Hx Hl IH]; cbn [forallb map] in *.
    + cbn. lia.
    + apply andb_prop in Hwf as [Hwx Hwl]. specialize (Hx Hwx). specialize (IH Hwl).
      rewrite !zsum_cons. destruct (is_dynamic x); lia.
Qed.

Lemma static_dyn_bound_zero t : is_dynamic t = false -> dynamic_size_bound t = 0.
Proof.
  induction t using ty_ind'; cbn [is_dynamic dynamic_size_bound]; intro Hd; try reflexivity; try discriminate.
  - rewrite Hd. lia.
  - induction H as [|x l Hx Hl IH]; cbn [existsb map] in *. reflexivity.
    apply orb_false_elim in Hd as [Hdx Hdl]. rewrite zsum_cons, Hdx, (IH Hdl). reflexivity.
Qed.

(* ---------- length of encodings ---------- *)
Lemma in_type_bytesM m bs : in_type (TBytesM m) (VBytes bs) = true -> zlen bs = m.
Proof. cbn. intro H. apply andb_prop in H as [H _]. lia. Qed.

Lemma zlen_enc_static_parts (dynf : bool) (f : val -> list Z) (S : Z) vs :
  dynf = false -> Forall (fun v => zlen (f v) = S) vs ->
  zsum (map comp_len (map (fun x => (dynf, f x)) vs)) = zlen vs * S.
Proof.
  intros -> H. induction H as [|v l Hv Hl IH]; cbn [map]. cbn. lia.
  rewrite zsum_cons, IH, zlen_cons. unfold comp_len. cbn [fst snd]. lia.
Qed.

Theorem enc_len_static : forall t v,
  wf_ty t = true -> in_type t v = true -> is_dynamic t = false -> zlen (enc t v) = static_size t.
Proof.
  induction t using ty_ind'; intros v Hwf Hin Hdyn; cbn [is_dynamic] in Hdyn; try discriminate;
    try (destruct v; cbn in Hin; try discriminate; cbn [enc static_size]; apply zlen_word).
  - (* bytesM *)
    destruct v as [|bs|]; try (cbn in Hin; discriminate).
    pose proof (in_type_bytesM _ _ Hin) as Hl. cbn [enc static_size wf_ty] in *.
    rewrite zlen_app, zlen_zeros. lia.
  - (* sarr *)
    destruct v as [| |vs]; try (cbn in Hin; discriminate).
    cbn [in_type wf_ty] in *. apply andb_prop in Hin as [Hn Hall]. apply andb_prop in Hwf as [_ Hwf].
    cbn [enc static_size]. rewrite zlen_enc_seq.
    rewrite (zlen_enc_static_parts (is_dynamic t) (enc t) (static_size t)); auto.
    { rewrite Hdyn. lia. }
    rewrite forallb_forall in Hall. apply Forall_forall. intros x Hx. apply IHt; auto.
  - (* tuple *)
    destruct v as [| |vs]; try (cbn in Hin; discriminate).
    cbn [in_type wf_ty enc static_size] in *. rewrite zlen_enc_seq.
    revert vs Hin. induction H as [|x l Hx Hl IH]; intros vs Hin; destruct vs as [|v vs]; cbn [map zip_all zip_apply] in *;
      try discriminate; try reflexivity.
    apply andb_prop in Hin as [Hinx Hinl]. apply andb_prop in Hwf as [Hwx Hwl].
    cbn [existsb] in Hdyn. apply orb_false_elim in Hdyn as [Hdx Hdl].
    rewrite !zsum_cons, (IH Hwl Hdl vs Hinl). unfold comp_len at 1. cbn [fst snd]. rewrite Hdx.
    rewrite (Hx v Hwx Hinx Hdx). reflexivity.
Qed.

Lemma bytes_len_bound n b : 0 <= n <= b -> 32 + n + pad32 n <= 32 + ceil32 b.
Proof. intros. rewrite pad32_spec. pose proof (ceil32_mono n b). lia. Qed.

Theorem enc_len_le_size_bound : forall t v,
  wf_ty t = true -> in_type t v = true -> zlen (enc t v) <= size_bound t.
Proof.
  unfold size_bound.
  induction t using ty_ind'; intros v Hwf Hin;
    try (destruct v; cbn in Hin; try discriminate; cbn [enc static_size dynamic_size_bound]; rewrite zlen_word; lia).
  - (* bytesM *)
    rewrite (enc_len_static _ _ Hwf Hin eq_refl). cbn. lia.
  - (* bytes *)
    destruct v as [|bs|]; try (cbn in Hin; discriminate). cbn [in_type enc static_size dynamic_size_bound wf_ty] in *.
    apply andb_prop in Hin as [Hl _]. rewrite !zlen_app, zlen_word, zlen_zeros.
    pose proof (zlen_nonneg bs). pose proof (pad32_range (zlen bs)).
    pose proof (bytes_len_bound (zlen bs) b). lia.
  - (* string *)
    destruct v as [|bs|]; try (cbn in Hin; discriminate). cbn [in_type enc static_size dynamic_size_bound wf_ty] in *.
    apply andb_prop in Hin as [Hl _]. rewrite !zlen_app, zlen_word, zlen_zeros.
    pose proof (zlen_nonneg bs). pose proof (pad32_range (zlen bs)).
    pose proof (bytes_len_bound (zlen bs) b). lia.
  - (* sarr *)
    destruct v as [| |vs]; try (cbn in Hin; discriminate).
    cbn [in_type wf_ty] in *. apply andb_prop in Hin as [Hn Hall]. apply andb_prop in Hwf as [Hn1 Hwf].
    cbn [enc static_size dynamic_size_bound]. rewrite zlen_enc_seq.
    assert (Hn' : zlen vs = n) by lia. rewrite <- Hn'. clear Hn Hn1 Hn'.
    pose proof (sizes_nonneg t Hwf) as [Hs0 Hd0].
    rewrite forallb_forall in Hall.
    induction vs as [|x vs IHvs]; cbn [map]. cbn. lia.
    rewrite zsum_cons, zlen_cons. unfold comp_len at 1. cbn [fst snd].
    assert (Hx : in_type t x = true) by (apply Hall; left; reflexivity).
    specialize (IHt x Hwf Hx).
    assert (IHvs' : forall y, In y vs -> in_type t y = true) by (intros; apply Hall; right; assumption).
    specialize (IHvs IHvs').
    destruct (is_dynamic t) eqn:Hd.
    + lia.
    + rewrite (static_dyn_bound_zero t Hd) in IHt. lia.
  - (* darr *)
    destruct v as [| |vs]; try (cbn in Hin; discriminate).
    cbn [in_type wf_ty] in *. apply andb_prop in Hin as [Hn Hall]. apply andb_prop in Hwf as [Hn1 Hwf].
    cbn [enc static_size dynamic_size_bound]. rewrite zlen_app, zlen_word, zlen_enc_seq.
    pose proof (sizes_nonneg t Hwf) as [Hs0 Hd0].
    set (B := (if is_dynamic t then 32 else static_size t) +
              (if is_dynamic t then static_size t + dynamic_size_bound t else 0)).
    assert (HB0 : 0 <= B) by (unfold B; destruct (is_dynamic t); lia).
    enough (zsum (map comp_len (map (fun x => (is_dynamic t, enc t x)) vs)) <= zlen vs * B) by nia.
    rewrite forallb_forall in Hall. clear Hn.
    induction vs as [|x vs IHvs]; cbn [map]. cbn. lia.
    rewrite zsum_cons, zlen_cons. unfold comp_len at 1. cbn [fst snd].
    assert (Hx : in_type t x = true) by (apply Hall; left; reflexivity).
    specialize (IHt x Hwf Hx).
    assert (IHvs' : forall y, In y vs -> in_type t y = true) by (intros; apply Hall; right; assumption).
    specialize (IHvs IHvs'). unfold B in *.
    destruct (is_dynamic t) eqn:Hd.
    + lia.
    + rewrite (static_dyn_bound_zero t Hd) in IHt. lia.
  - (* tuple *)
    destruct v as [| |vs]; try (cbn in Hin; discriminate).
    cbn [in_type wf_ty enc static_size dynamic_size_bound] in *. rewrite zlen_enc_seq.
    revert vs Hin. induction H as [|x l Hx Hl IH]; intros vs Hin; destruct vs as [|v vs]; cbn [map zip_all zip_apply] in *;
      try discriminate; try (cbn; lia).
    apply andb_prop in Hin as [Hinx Hinl]. apply andb_prop in Hwf as [Hwx Hwl].
    specialize (IH Hwl vs Hinl). specialize (Hx v Hwx Hinx).
    rewrite !zsum_cons. unfold comp_len at 1. cbn [fst snd].
    destruct (is_dynamic x) eqn:Hd.
    + lia.
    + rewrite (static_dyn_bound_zero x Hd) in Hx. lia.
Qed.

(* every encoding is a whole number of words *)
Theorem enc_len_mod32 : forall t v, wf_ty t = true -> in_type t v = true -> (zlen (enc t v)) mod 32 = 0.
Proof.
  induction t using ty_ind'; intros v Hwf Hin;
    try (destruct v; cbn in Hin; try discriminate; cbn [enc]; rewrite zlen_word; reflexivity).
  - rewrite (enc_len_static _ _ Hwf Hin eq_refl). reflexivity.
  - destruct v as [|bs|]; try (cbn in Hin; discriminate). cbn [enc].
    rewrite !zlen_app, zlen_word, zlen_zeros. pose proof (pad32_range (zlen bs)). unfold pad32 in *. lia.
  - destruct v as [|bs|]; try (cbn in Hin; discriminate). cbn [enc].
    rewrite !zlen_app, zlen_word, zlen_zeros. pose proof (pad32_range (zlen bs)). unfold pad32 in *. lia.
  - destruct v as [| |vs]; try (cbn in Hin; discriminate).
    cbn [in_type wf_ty] in *. apply andb_prop in Hin as [Hn Hall]. apply andb_prop in Hwf as [Hn1 Hwf].
    cbn [enc]. rewrite zlen_enc_seq. rewrite forallb_forall in Hall. clear Hn.
    induction vs as [|x vs IHvs]; cbn [map]. reflexivity.
    rewrite zsum_cons. unfold comp_len at 1. cbn [fst snd].
    assert (Hx : in_type t x = true) by (apply Hall; left; reflexivity). specialize (IHt x Hwf Hx).
    assert (IHvs' : forall y, In y vs -> in_type t y = true) by (intros; apply Hall; right; assumption).
    specialize (IHvs IHvs'). destruct (is_dynamic t); lia.
  - destruct v as [| |vs]; try (cbn in Hin; discriminate).
    cbn [in_type wf_ty] in *. apply andb_prop in Hin as [Hn Hall]. apply andb_prop in Hwf as [Hn1 Hwf].
    cbn [enc]. rewrite zlen_app, zlen_word, zlen_enc_seq. rewrite forallb_forall in Hall. clear Hn.
    enough (zsum (map comp_len (map (fun x => (is_dynamic t, enc t x)) vs)) mod 32 = 0) by lia.
    induction vs as [|x vs IHvs]; cbn [map]. reflexivity.
    rewrite zsum_cons. unfold comp_len at 1. cbn [fst snd].
    assert (Hx : in_type t x = true) by (apply Hall; left; reflexivity). specialize (IHt x Hwf Hx).
    assert (IHvs' : forall y, In y vs -> in_type t y = true) by (intros; apply Hall; right; assumption).
    specialize (IHvs IHvs'). destruct (is_dynamic t); lia.
  - destruct v as [| |vs]; try (cbn in Hin; discriminate).
    cbn [in_type wf_ty enc] in *. rewrite zlen_enc_seq.
    revert vs Hin. induction H as [|x l Hx Hl IH]; intros vs Hin; destruct vs as [|v vs]; cbn [map zip_all zip_apply] in *;
      try discriminate; try reflexivity.
    apply andb_prop in Hin as [Hinx Hinl]. apply andb_prop in Hwf as [Hwx Hwl].
    specialize (IH Hwl vs Hinl). specialize (Hx v Hwx Hinx).
    rewrite !zsum_cons. unfold comp_len at 1. cbn [fst snd]. destruct (is_dynamic x); lia.
Qed.
