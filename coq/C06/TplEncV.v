(* C06: parametric model of the VENOM ABI encoder as a TEMPLATE GENERATOR: the Venom function body that
   vyper/codegen_venom/abi/abi_encoder.py:abi_encode_to_buf emits (src = %1, dst = %2, EVM >= cancun), as a function
   of the type shape.  A small builder monad mirrors VenomBuilder (fresh %n variables, n_suffix labels, blocks in
   append order).  Tied syntactically to the real generator in TieEncV.v. *)
From Coq Require Import ZArith List Bool String Ascii.
From Verif Require Import C06.Abi C06.Sexp C06.TplEncL.
Import ListNotations.
Open Scope string_scope.
Open Scope list_scope.
Open Scope Z_scope.

Record bst := mkB { nv : Z; nl : Z; blocks : list (string * list sx); cur : string }.
Definition M (A : Type) := bst -> A * bst.
Definition ret {A} (a : A) : M A := fun s => (a, s).
Definition bind {A B} (m : M A) (k : A -> M B) : M B := fun s => let '(a, s1) := m s in k a s1.
Notation "x <- m ;; k" := (bind m (fun x => k)) (at level 61, m at next level, right associativity).
Notation "m ;;; k" := (bind m (fun _ => k)) (at level 61, right associativity).

Definition push (i : sx) : M unit := fun s =>
  (tt, mkB (nv s) (nl s) (map (fun b => if String.eqb (fst b) (cur s) then (fst b, snd b ++ [i]) else b) (blocks s)) (cur s)).
Definition fresh : M sx := fun s => (SS (zname "%" (nv s + 1)), mkB (nv s + 1) (nl s) (blocks s) (cur s)).
(* instruction with an output *)
Definition emit (opc : string) (args : list sx) : M sx :=
  v <- fresh ;; push (SL (v :: SS opc :: args)) ;;; ret v.
Definition emit0 (opc : string) (args : list sx) : M unit := push (SL (SS "_" :: SS opc :: args)).
Definition create_block (suffix : string) : M string := fun s =>
  ((dec_str 20 (nl s + 1) ++ "_" ++ suffix)%string, mkB (nv s) (nl s + 1) (blocks s) (cur s)).
Definition append_block (l : string) : M unit := fun s => (tt, mkB (nv s) (nl s) (blocks s ++ [(l, [])]) (cur s)).
Definition set_block (l : string) : M unit := fun s => (tt, mkB (nv s) (nl s) (blocks s) l).
Definition lbl (l : string) : sx := SS ("@" ++ l)%string.

Definition MASK31 : Z := 2 ^ 256 - 32.

Definition b_add (a b : sx) := emit "add" [a; b].
Definition b_mul (a b : sx) := emit "mul" [a; b].
Definition b_mload (a : sx) := emit "mload" [a].
Definition b_mstore (a v : sx) := emit0 "mstore" [a; v].
Definition b_mcopy (d s n : sx) := emit0 "mcopy" [d; s; n].
Definition b_alloca (n : Z) := emit "alloca" [SI n].

(* _abi_encode_to_buf(ctx, dst, src, typ) -> returned length operand *)
Fixpoint venc_tpl (t : ty) (dst src : sx) : M sx :=
  if negb (is_dynamic t) then
    b_mcopy dst src (SI (vmem_size t)) ;;; ret (SI (emb_static t))
  else
    (* children of a complex value: _encode_child *)
    let child (t' : ty) (elem_ptr : sx) (so : Z) (dyn : sx) : M unit :=
      static_loc <- b_add dst (SI so) ;;
      if is_dynamic t' then
        d <- b_mload dyn ;; child_dst <- b_add dst d ;; len <- venc_tpl t' child_dst elem_ptr ;;
        b_mstore static_loc d ;;; nd <- b_add d len ;; b_mstore dyn nd
      else
        venc_tpl t' static_loc elem_ptr ;;; ret tt in
    match t with
    | TBytes _ | TString _ =>
        length <- b_mload src ;;
        x <- b_add length (SI 31) ;; y <- emit "and" [x; SI MASK31] ;; p <- b_add dst y ;; b_mstore p (SI 0) ;;;
        cl <- b_add (SI 32) length ;; b_mcopy dst src cl ;;;
        a <- b_add length (SI 31) ;; c <- emit "and" [a; SI MASK31] ;; b_add (SI 32) c
    | TDArr t' _ =>
        dyn <- b_alloca 32 ;; b_mstore dyn (SI 0) ;;;
        let es := emb_static t' in
        length <- b_mload src ;; b_mstore dst length ;;;
        hdr <- create_block "dyn_encode_hdr" ;; append_block hdr ;;;
        body <- create_block "dyn_encode_body" ;; append_block body ;;;
        exit <- create_block "dyn_encode_exit" ;; append_block exit ;;;
        i_val <- b_alloca 32 ;; b_mstore i_val (SI 0) ;;;
        cdo <- (if is_dynamic t' then
                  c <- b_alloca 32 ;; init <- b_mul length (SI es) ;; b_mstore c init ;;; ret c
                else ret (SI 0)) ;;
        emit0 "jmp" [lbl hdr] ;;;
        set_block hdr ;;;
        i <- b_mload i_val ;; c <- emit "lt" [i; length] ;; done <- emit "iszero" [c] ;;
        emit0 "jnz" [done; lbl exit; lbl body] ;;;
        set_block body ;;;
        i <- b_mload i_val ;;
        src_data <- b_add src (SI 32) ;; src_off <- b_mul i (SI (vmem_size t')) ;; child_src <- b_add src_data src_off ;;
        dst_data <- b_add dst (SI 32) ;; static_ofst <- b_mul i (SI es) ;;
        (if is_dynamic t' then
           static_loc <- b_add dst_data static_ofst ;; d <- b_mload cdo ;; child_dst <- b_add dst_data d ;;
           len <- venc_tpl t' child_dst child_src ;;
           b_mstore static_loc d ;;; nd <- b_add d len ;; b_mstore cdo nd
         else
           child_dst <- b_add dst_data static_ofst ;; venc_tpl t' child_dst child_src ;;; ret tt) ;;;
        ni <- b_add i (SI 1) ;; b_mstore i_val ni ;;; emit0 "jmp" [lbl hdr] ;;;
        set_block exit ;;;
        length_exit <- b_mload src ;;
        total <- (if is_dynamic t' then f <- b_mload cdo ;; b_add (SI 32) f
                  else m <- b_mul length_exit (SI es) ;; b_add (SI 32) m) ;;
        pd <- b_mload dyn ;; np <- b_add pd total ;; b_mstore dyn np ;;;
        b_mload dyn
    | TSArr t' cnt =>
        dyn <- b_alloca 32 ;; b_mstore dyn (SI (static_size t)) ;;;
        (fix go (k : nat) (i so : Z) : M unit :=
           match k with
           | O => ret tt
           | S k' => elem_ptr <- b_add src (SI (i * vmem_size t')) ;; child t' elem_ptr so dyn ;;;
                     go k' (i + 1) (so + emb_static t')
           end) (Z.to_nat cnt) 0 0 ;;;
        b_mload dyn
    | TTuple ts =>
        dyn <- b_alloca 32 ;; b_mstore dyn (SI (static_size t)) ;;;
        (fix go (ts : list ty) (mo so : Z) : M unit :=
           match ts with
           | [] => ret tt
           | t' :: r => elem_ptr <- b_add src (SI mo) ;; child t' elem_ptr so dyn ;;;
                        go r (mo + vmem_size t') (so + emb_static t')
           end) ts 0 0 ;;;
        b_mload dyn
    | _ => ret (SI 0)
    end.

Definition render (s : bst) : sx := SL (map (fun b => SL [SS (fst b); SL (snd b)]) (blocks s)).

Definition tpl_enc_v (t : ty) : sx :=
  let prog := (src <- emit "param" [] ;; dst <- emit "param" [] ;; r <- venc_tpl t dst src ;;
               emit0 "return" [dst; r]) in
  render (snd (prog (mkB 0 0 [("probe", [])] "probe"))).
