(* C06 extension (session 3): the word-by-word encoder reading from storage / calldata (SrcEnc.wenc) writes exactly
   the canonical encoding of the value the location holds, for ALL prior memory, all destinations and all slack
   contents of the source, and touches nothing outside [dst, dst + size_bound).  Reuses VencProofs.venc_seq_ok. *)
From Coq Require Import ZArith List Bool Lia ZifyBool.
From Verif Require Import C06.Abi C06.AbiLemmas C06.Roundtrip C06.ZeroPad C06.Venc C06.VencProofs C06.SxEval C06.SrcEnc.
Import ListNotations.
Open Scope Z_scope.
Ltac Zify.zify_post_hook ::= Z.to_euclidean_division_equations.

(* ---------- source bytes ---------- *)
Lemma zlen_srcbytes S p k : zlen (srcbytes S p k) = 32 * Z.of_nat k.
Proof. revert p. induction k; intro p; cbn [srcbytes]. reflexivity. rewrite zlen_app, zlen_word, IHk. lia. Qed.

Lemma srcbytes_split S a b : forall p, srcbytes S p (a + b) = srcbytes S p a ++ srcbytes S (p + Z.of_nat a * ws S) b.
Proof.
  induction a; intro p; cbn [srcbytes plus].
  - cbn. f_equal. lia.
  - rewrite IHa, <- app_assoc. do 3 f_equal. lia.
Qed.

Lemma srcbytes_prefix S p k K : (k <= K)%nat -> srcbytes S p k = firstn (32 * k) (srcbytes S p K).
Proof.
  intro H. replace K with (k + (K - k))%nat by lia. rewrite srcbytes_split.
  rewrite firstn_app. pose proof (zlen_srcbytes S p k) as L. unfold zlen in L.
  replace (32 * k - length (srcbytes S p k))%nat with 0%nat by lia. cbn [firstn]. rewrite app_nil_r.
  symmetry. apply firstn_all2. lia.
Qed.

(* ---------- memory ---------- *)
Lemma mwrite_app_pt m d l1 l2 a : mwrite m d (l1 ++ l2) a = mwrite (mwrite m d l1) (d + zlen l1) l2 a.
Proof.
  unfold mwrite. rewrite zlen_app. pose proof (zlen_nonneg l1). pose proof (zlen_nonneg l2).
  destruct ((d <=? a) && (a <? d + (zlen l1 + zlen l2))) eqn:E1.
  - destruct ((d + zlen l1 <=? a) && (a <? d + zlen l1 + zlen l2)) eqn:E2.
    + rewrite app_nth2 by (unfold zlen in *; lia). f_equal. unfold zlen in *. lia.
    + replace ((d <=? a) && (a <? d + zlen l1)) with true by lia.
      apply app_nth1. unfold zlen in *. lia.
  - replace ((d + zlen l1 <=? a) && (a <? d + zlen l1 + zlen l2)) with false by lia.
    replace ((d <=? a) && (a <? d + zlen l1)) with false by lia. reflexivity.
Qed.

Lemma mwrite_ext_pt m1 m2 d l a : (forall x, m1 x = m2 x) -> mwrite m1 d l a = mwrite m2 d l a.
Proof. intro H. unfold mwrite. destruct ((d <=? a) && (a <? d + zlen l)); auto. Qed.

(* the word copy loop is one write of the concatenated source words *)
Theorem copy_words_spec S : forall k p m dst a, copy_words S k p m dst a = mwrite m dst (srcbytes S p k) a.
Proof.
  induction k; intros p m dst a; cbn [copy_words srcbytes].
  - unfold mwrite. cbn. replace ((dst <=? a) && (a <? dst + 0)) with false by lia. reflexivity.
  - rewrite IHk, mwrite_app_pt, zlen_word. reflexivity.
Qed.

(* ---------- byte strings: length word, data, arbitrary junk after the data, then zero_pad ---------- *)
Lemma wbytes_junk_ok (m : mem) dst data junk :
  let len := zlen data in
  let m' := mzero (mwrite m dst (word len ++ data ++ junk)) (dst + 32 + len) (pad32 len) in
  mreadz m' dst (32 + ceil32 len) = enc_bytes data /\
  forall a, a < dst \/ dst + 32 + Z.max (ceil32 len) (len + zlen junk) <= a -> m' a = m a.
Proof.
  intros len m'. subst m'.
  set (m1 := mwrite m dst (word len ++ data ++ junk)).
  pose proof (zlen_nonneg data) as Hl0. fold len in Hl0.
  destruct (ceil32_facts len ltac:(lia)) as (H1 & H2 & H3).
  pose proof (zlen_nonneg junk) as Hj0.
  assert (Hall : mreadz m1 dst (zlen (word len ++ data ++ junk)) = word len ++ data ++ junk) by apply mreadz_mwrite.
  rewrite !zlen_app, zlen_word in Hall. fold len in Hall.
  rewrite (mreadz_app m1 dst 32 (len + zlen junk)) in Hall by lia.
  rewrite (mreadz_app m1 (dst + 32) len (zlen junk)) in Hall by lia.
  assert (Hw : mreadz m1 dst 32 = word len /\ mreadz m1 (dst + 32) len = data).
  { pose proof (zlen_mreadz m1 dst 32 ltac:(lia)) as L1. pose proof (zlen_word len) as L1'.
    apply app_inv_len in Hall; [|unfold zlen in *; lia]. destruct Hall as [A B]. split; auto.
    pose proof (zlen_mreadz m1 (dst + 32) len ltac:(lia)) as L2.
    apply app_inv_len in B; [|unfold len, zlen in *; lia]. tauto. }
  destruct Hw as [Hw Hd].
  destruct (zero_pad_spec_legacy m1 dst data) as [Hr Hf]; auto.
  { unfold mreadz in Hd. fold len. rewrite <- Hd at 2. f_equal. unfold len, zlen. lia. }
  cbn zeta in Hr, Hf. fold len in Hr, Hf.
  split.
  - unfold mreadz. rewrite <- Hr. f_equal. unfold len, zlen in *. lia.
  - intros a Ha. rewrite mzero_frame by lia. unfold m1. apply mwrite_frame.
    rewrite !zlen_app, zlen_word. fold len. lia.
Qed.

Lemma firstn_data_junk (data junk : list Z) n : (length data <= n)%nat ->
  firstn n (data ++ junk) = data ++ firstn (n - length data) junk.
Proof. intro H. rewrite firstn_app. f_equal. apply firstn_all2. exact H. Qed.

Lemma wenc_bytes_ok S p b data (m : mem) d :
  0 <= zlen data <= b -> ld S p = zlen data ->
  (exists junk, srcbytes S (p + ws S) (Z.to_nat (ceil32 b / 32)) = data ++ junk) ->
  let len := ld S p in
  let m' := mzero (mwrite m d (srcbytes S p (Z.to_nat (bs_words b len)))) (d + 32 + len) (pad32 len) in
  mreadz m' d (32 + ceil32 (zlen data)) = enc_bytes data /\
  forall a, a < d \/ d + 32 + ceil32 b <= a -> m' a = m a.
Proof.
  intros Hb Hlen [junk Hj] len m'. subst len m'. rewrite Hlen. set (len := zlen data) in *.
  assert (F : 1 <= bs_words b len /\ bs_words b len - 1 <= ceil32 b / 32 /\ len <= 32 * (bs_words b len - 1) /\
              32 * (bs_words b len - 1) <= ceil32 b /\ ceil32 len <= ceil32 b).
  { unfold bs_words, ceil32. destruct (b =? 0) eqn:E0; [|destruct (b <=? 32) eqn:E1]; lia. }
  destruct F as (F1 & F2 & F3 & F4 & F5).
  set (n := bs_words b len) in *.
  replace (Z.to_nat n) with (Datatypes.S (Z.to_nat (n - 1))) by lia.
  cbn [srcbytes]. rewrite Hlen. fold len.
  rewrite (srcbytes_prefix S (p + ws S) (Z.to_nat (n - 1)) (Z.to_nat (ceil32 b / 32))) by lia.
  rewrite Hj, firstn_data_junk by (unfold len, zlen in *; lia).
  set (junk' := firstn (32 * Z.to_nat (n - 1) - length data) junk).
  destruct (wbytes_junk_ok m d data junk') as [Hr Hf]. cbn zeta in Hr, Hf. fold len in Hr, Hf.
  split; [exact Hr|].
  intros a Ha. apply Hf.
  assert (zlen junk' <= 32 * (n - 1) - len).
  { unfold junk'. pose proof (firstn_zlen_le (32 * Z.to_nat (n - 1) - length data) junk). unfold len, zlen in *. lia. }
  lia.
Qed.

(* ---------- the encoder ---------- *)
Section Src.
Variable S : wsrc. (*section*)

Definition wok (t : ty) : Prop :=
  forall v p, wf_ty t = true -> in_type t v = true -> holds S t v p -> spec_of (wenc S t p) (enc t v) (size_bound t).

Lemma wenc_static t v p : is_dynamic t = false -> wf_ty t = true -> in_type t v = true -> holds S t v p ->
  spec_of (wenc S t p) (enc t v) (size_bound t).
Proof.
  intros Hd Hwf Hin Hh m d.
  assert (E : wenc S t p m d = (mwrite m d (srcbytes S p (Z.to_nat (static_size t / 32))), static_size t))
    by (destruct t; cbn [wenc]; rewrite Hd; reflexivity).
  assert (Hb : srcbytes S p (Z.to_nat (static_size t / 32)) = enc t v)
    by (destruct t; cbn [holds] in Hh; rewrite Hd in Hh; exact Hh).
  rewrite E, Hb. cbn [fst snd]. pose proof (enc_len_static t v Hwf Hin Hd) as L.
  split; [lia|]. split. apply mreadz_mwrite.
  intros a Ha. apply mwrite_frame. rewrite size_bound_static in Ha by auto. lia.
Qed.

Lemma child_ok_w t v p : wf_ty t = true -> in_type t v = true -> wok t -> holds S t v p ->
  child_ok (is_dynamic t, emb_static t, wenc S t p) (is_dynamic t, enc t v) (size_bound t).
Proof.
  intros Hwf Hin IH Hh.
  destruct (child_ok_intro venom t v Hwf Hin (venc_spec venom venom_wbytes_ok t)) as (A & B & C & D & _).
  unfold child_ok in *. cbn [fst snd] in *. split; [exact A|]. split; [exact B|]. split; [exact C|]. split; [exact D|]. now apply IH.
Qed.

Lemma arr_cs_ok t : wf_ty t = true -> wok t -> forall vs p stride,
  Forall (fun v => in_type t v = true) vs -> holds_list (holds S t) vs p stride ->
  Forall3 child_ok (arr_cs (wenc S t) (is_dynamic t) (emb_static t) (length vs) p stride)
          (map (fun x => (is_dynamic t, enc t x)) vs) (map (fun _ => size_bound t) vs).
Proof.
  intros Hwf IH vs. induction vs as [|v vs IHvs]; intros p stride HF Hh; cbn [arr_cs length map].
  - constructor.
  - inversion HF as [|? ? Hv HF']; subst. destruct Hh as [Hh1 Hh2]. constructor; auto. now apply child_ok_w.
Qed.

Definition tup_cs := fix go (ts : list ty) (p : Z) : list (bool * Z * enc_t) :=
  match ts with [] => [] | t' :: r => (is_dynamic t', emb_static t', wenc S t' p) :: go r (p + sz S t') end.
Definition tup_holds := fix go (ts : list ty) (vs : list val) (p : Z) : Prop :=
  match ts, vs with
  | [], [] => True
  | t' :: r, x :: xs => holds S t' x p /\ go r xs (p + sz S t')
  | _, _ => False
  end.

Lemma tup_cs_ok ts : Forall wok ts -> forall vs p,
  forallb wf_ty ts = true -> zip_all (map in_type ts) vs = true -> tup_holds ts vs p ->
  Forall3 child_ok (tup_cs ts p) (zip_apply (map (fun t' => (is_dynamic t', enc t')) ts) vs) (map size_bound ts).
Proof.
  induction 1 as [|t ts Ht HF IH]; intros vs p Hwf Hin Hh; destruct vs as [|v vs];
    cbn [map zip_all zip_apply forallb tup_cs tup_holds] in *; try discriminate; try contradiction.
  - constructor.
  - apply andb_prop in Hwf as [Hwt Hwl]. apply andb_prop in Hin as [Hit Hil]. destruct Hh as [Hh1 Hh2].
    constructor; auto. now apply child_ok_w.
Qed.

Lemma venom_all ts : Forall (venc_ok venom) ts.
Proof. apply Forall_forall. intros t _. apply (venc_spec venom venom_wbytes_ok). Qed.

Theorem wenc_spec : forall t, wok t.
Proof.
  induction t using ty_ind'; intros v p Hwf Hin Hh;
    try (apply wenc_static; auto; reflexivity).
  - (* bytes *)
    destruct v as [|data|]; try (cbn in Hin; discriminate). cbn [in_type wf_ty] in *.
    apply andb_prop in Hin as [Hl _]. intros m d. cbn [holds is_dynamic negb] in Hh. destruct Hh as [Hlen Hj].
    cbn [wenc is_dynamic negb fst snd].
    pose proof (zlen_nonneg data).
    destruct (wenc_bytes_ok S p b data m d ltac:(lia) Hlen Hj) as [Hr Hf]. cbn zeta in Hr, Hf.
    change (enc (TBytes b) (VBytes data)) with (enc_bytes data).
    assert (L : zlen (enc_bytes data) = 32 + ceil32 (zlen data)).
    { unfold enc_bytes. rewrite !zlen_app, zlen_word, zlen_zeros. pose proof (pad32_range (zlen data)).
      rewrite pad32_spec in *. lia. }
    rewrite L. split; [now rewrite Hlen|]. split; [exact Hr|].
    intros a Ha. apply Hf. unfold size_bound in Ha. cbn [static_size dynamic_size_bound] in Ha. lia.
  - (* string *)
    destruct v as [|data|]; try (cbn in Hin; discriminate). cbn [in_type wf_ty] in *.
    apply andb_prop in Hin as [Hl _]. intros m d. cbn [holds is_dynamic negb] in Hh. destruct Hh as [Hlen Hj].
    cbn [wenc is_dynamic negb fst snd].
    pose proof (zlen_nonneg data).
    destruct (wenc_bytes_ok S p b data m d ltac:(lia) Hlen Hj) as [Hr Hf]. cbn zeta in Hr, Hf.
    change (enc (TString b) (VBytes data)) with (enc_bytes data).
    assert (L : zlen (enc_bytes data) = 32 + ceil32 (zlen data)).
    { unfold enc_bytes. rewrite !zlen_app, zlen_word, zlen_zeros. pose proof (pad32_range (zlen data)).
      rewrite pad32_spec in *. lia. }
    rewrite L. split; [now rewrite Hlen|]. split; [exact Hr|].
    intros a Ha. apply Hf. unfold size_bound in Ha. cbn [static_size dynamic_size_bound] in Ha. lia.
  - (* sarr *)
    destruct (is_dynamic (TSArr t n)) eqn:Hd; [|apply wenc_static; auto].
    destruct v as [| |vs]; try (cbn in Hin; discriminate).
    cbn [holds] in Hh. rewrite Hd in Hh. cbn [negb] in Hh.
    cbn [in_type wf_ty] in *.
    apply andb_prop in Hin as [Hn Hall]. apply andb_prop in Hwf as [Hn1 Hw].
    assert (HF : Forall (fun v => in_type t v = true) vs) by (apply Forall_forall; rewrite forallb_forall in Hall; auto).
    destruct (arr_children venom t vs Hw (venc_spec venom venom_wbytes_ok t) HF) as (_ & HL & DS).
    pose proof (arr_cs_ok t Hw IHt vs p (sz S t) HF Hh) as F3.
    intros m d. cbn [is_dynamic] in Hd.
    assert (E : wenc S (TSArr t n) p m d =
                venc_seq true (arr_cs (wenc S t) (is_dynamic t) (emb_static t) (length vs) p (sz S t)) m d 0
                         (static_size (TSArr t n))).
    { cbn [wenc is_dynamic]. rewrite Hd. cbn [negb]. replace (Z.to_nat n) with (length vs) by (unfold zlen in Hn; lia). reflexivity. }
    rewrite E. clear E. cbn [enc].
    set (all := map (fun x => (is_dynamic t, enc t x)) vs) in *.
    assert (Hss : static_size (TSArr t n) = head_len all) by (rewrite HL; cbn [static_size]; unfold emb_static; nia).
    rewrite Hss.
    pose proof (venc_seq_ok true all d (size_bound (TSArr t n)) m _ _ _ F3 [] m eq_refl) as Q.
    cbn [head_len tails app] in Q. rewrite Z.add_0_r in Q.
    destruct Q as (Q1 & Q2 & Q3 & Q4); auto.
    { rewrite DS, HL. unfold size_bound. cbn [static_size dynamic_size_bound]. unfold emb_static, embdyn, size_bound. rewrite Hd. nia. }
    pose proof (head_len_nonneg all). pose proof (zlen_nonneg (tails all)).
    assert (L : zlen (enc_seq all) = head_len all + zlen (tails all)) by (unfold enc_seq; rewrite zlen_app, zlen_heads; lia).
    rewrite L. split; [exact Q1|]. split; [|exact Q4].
    rewrite mreadz_app by lia. unfold enc_seq. now rewrite Q2, Q3.
  - (* darr *)
    destruct v as [| |vs]; try (cbn in Hin; discriminate).
    cbn [holds is_dynamic negb] in Hh. destruct Hh as [Hcnt Hh].
    cbn [in_type wf_ty] in *.
    apply andb_prop in Hin as [Hn Hall]. apply andb_prop in Hwf as [Hn1 Hw].
    assert (HF : Forall (fun v => in_type t v = true) vs) by (apply Forall_forall; rewrite forallb_forall in Hall; auto).
    destruct (arr_children venom t vs Hw (venc_spec venom venom_wbytes_ok t) HF) as (_ & HL & DS).
    pose proof (arr_cs_ok t Hw IHt vs (p + ws S) (sz S t) HF Hh) as F3.
    intros m d. cbn [wenc is_dynamic negb enc fst snd]. rewrite Hcnt, to_nat_zlen.
    set (all := map (fun x => (is_dynamic t, enc t x)) vs) in *.
    set (m1 := mstore m d (zlen vs)).
    pose proof (sb_nonneg t Hw) as Hsb. pose proof (zlen_nonneg vs) as Hv0.
    set (BOUND := (emb_static t + embdyn t) * b).
    assert (Hsz : size_bound (TDArr t b) = 32 + BOUND).
    { unfold BOUND, size_bound, emb_static, embdyn, size_bound. cbn [static_size dynamic_size_bound]. destruct (is_dynamic t); lia. }
    rewrite <- HL.
    pose proof (venc_seq_ok true all (d + 32) BOUND m1 _ _ _ F3 [] m1 eq_refl) as Q.
    cbn [head_len tails app] in Q. rewrite Z.add_0_r in Q.
    destruct Q as (Q1 & Q2 & Q3 & Q4); auto.
    { rewrite DS, HL. unfold BOUND. nia. }
    assert (HB0 : 0 <= BOUND) by (unfold BOUND; nia).
    clearbody BOUND. clear Hn1.
    pose proof (head_len_nonneg all). pose proof (zlen_nonneg (tails all)).
    assert (L : zlen (word (zlen vs) ++ enc_seq all) = 32 + (head_len all + zlen (tails all)))
      by (unfold enc_seq; rewrite !zlen_app, zlen_word, zlen_heads; lia).
    rewrite L, Q1. split; [reflexivity|]. split.
    + rewrite mreadz_app by lia. f_equal.
      * transitivity (mreadz m1 d 32). { apply mreadz_ext. intros a Ha. apply Q4. lia. }
        pose proof (mreadz_mwrite m d (word (zlen vs))) as X. rewrite zlen_word in X. exact X.
      * rewrite mreadz_app by lia. unfold enc_seq. now rewrite Q2, Q3.
    + intros a Ha. rewrite Hsz in Ha. cbn [fst]. rewrite Q4 by lia. unfold m1, mstore. apply mwrite_frame. rewrite zlen_word. lia.
  - (* tuple *)
    destruct (is_dynamic (TTuple ts)) eqn:Hd; [|apply wenc_static; auto].
    destruct v as [| |vs]; try (cbn in Hin; discriminate).
    cbn [holds] in Hh. rewrite Hd in Hh. cbn [negb] in Hh. change (tup_holds ts vs p) in Hh.
    cbn [in_type wf_ty] in *.
    destruct (tuple_children venom ts (venom_all ts) vs Hwf Hin) as (_ & HL & DS).
    pose proof (tup_cs_ok ts H vs p Hwf Hin Hh) as F3.
    intros m d.
    assert (E : wenc S (TTuple ts) p m d = venc_seq true (tup_cs ts p) m d 0 (static_size (TTuple ts)))
      by (cbn [wenc]; rewrite Hd; reflexivity).
    rewrite E. clear E. cbn [enc].
    set (all := zip_apply (map (fun t' => (is_dynamic t', enc t')) ts) vs) in *.
    assert (Hss : static_size (TTuple ts) = head_len all)
      by (rewrite HL; cbn [static_size]; reflexivity).
    rewrite Hss.
    pose proof (venc_seq_ok true all d (size_bound (TTuple ts)) m _ _ _ F3 [] m eq_refl) as Q.
    cbn [head_len tails app] in Q. rewrite Z.add_0_r in Q.
    destruct Q as (Q1 & Q2 & Q3 & Q4); auto.
    { rewrite DS, HL. unfold size_bound. cbn [static_size dynamic_size_bound].
      change (fun t' => if is_dynamic t' then 32 else static_size t') with emb_static.
      change (fun t' => if is_dynamic t' then static_size t' + dynamic_size_bound t' else 0) with embdyn. lia. }
    pose proof (head_len_nonneg all). pose proof (zlen_nonneg (tails all)).
    assert (L : zlen (enc_seq all) = head_len all + zlen (tails all)) by (unfold enc_seq; rewrite zlen_app, zlen_heads; lia).
    rewrite L. split; [exact Q1|]. split; [|exact Q4].
    rewrite mreadz_app by lia. unfold enc_seq. now rewrite Q2, Q3.
Qed.
End Src.

(* ---------- packaged statements ---------- *)
Theorem wenc_correct : forall S t v p (m : mem) dst, wf_ty t = true -> in_type t v = true -> holds S t v p ->
  let r := wenc S t p m dst in
  snd r = zlen (enc t v) /\ mreadz (fst r) dst (snd r) = enc t v /\
  (forall a, a < dst \/ dst + size_bound t <= a -> fst r a = m a).
Proof.
  intros S t v p m dst Hw Hi Hh. destruct (wenc_spec S t v p Hw Hi Hh m dst) as (Hn & Hr & Hf).
  cbn zeta. rewrite Hn. auto.
Qed.

Theorem copy_words_readback : forall S k p (m : mem) dst,
  mreadz (copy_words S k p m dst) dst (32 * Z.of_nat k) = srcbytes S p k /\
  (forall a, a < dst \/ dst + 32 * Z.of_nat k <= a -> copy_words S k p m dst a = m a).
Proof.
  intros S k p m dst. split.
  - rewrite <- (zlen_srcbytes S p k).
    transitivity (mreadz (mwrite m dst (srcbytes S p k)) dst (zlen (srcbytes S p k))).
    + apply mreadz_ext. intros a _. apply copy_words_spec.
    + apply mreadz_mwrite.
  - intros a Ha. rewrite copy_words_spec. apply mwrite_frame. rewrite zlen_srcbytes. exact Ha.
Qed.
