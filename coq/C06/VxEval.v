(* Executable semantics of the Venom subset used by the ABI encoder / decoder templates (functions as rendered by
   tools/vlib/c06_tpl.py: blocks of [out; opcode; operands in display order]).  alloca hands out fresh scratch
   addresses; memory accesses reaching MEMLIM run out of gas.  Harness only; no proofs. *)
From Coq Require Import ZArith List Bool String.
From Verif Require Import Base.Word256 C06.Abi C06.ZeroPad C06.Sexp C06.SxEval.
Import ListNotations.
Open Scope string_scope.
Open Scope list_scope.
Open Scope Z_scope.

Record vst := mkV { v_env : env; v_mem : mem; v_brk : Z; v_params : list Z }.

Definition opval (e : env) (o : sx) : option Z :=
  match o with SI n => Some (n mod W) | SS x => lookup e x | _ => None end.
Fixpoint opvals (e : env) (l : list sx) : option (list Z) :=
  match l with
  | [] => Some []
  | o :: r => match opval e o, opvals e r with Some v, Some vs => Some (v :: vs) | _, _ => None end
  end.

Inductive step := Next (s : vst) | Jump (l : string) (s : vst) | Halt (ret : Z) (s : vst) | Rev | Stuck (w : string).

Definition bind_out (out : sx) (v : Z) (s : vst) : vst :=
  match out with SS x => mkV ((x, v) :: v_env s) (v_mem s) (v_brk s) (v_params s) | _ => s end.

Definition exec1 (i : sx) (s : vst) : step :=
  match i with
  | SL (out :: SS opc :: args) =>
      if String.eqb opc "jmp" then match args with [SS l] => Jump l s | _ => Stuck "jmp" end
      else if String.eqb opc "jnz" then
        match args with
        | [c; SS l1; SS l2] => match opval (v_env s) c with
                               | Some v => Jump (if v =? 0 then l2 else l1) s | None => Stuck "jnz" end
        | _ => Stuck "jnz" end
      else if String.eqb opc "param" then
        match v_params s with
        | p :: r => Next (bind_out out p (mkV (v_env s) (v_mem s) (v_brk s) r))
        | [] => Stuck "param" end
      else
      match opvals (v_env s) args with
      | None => Stuck ("operand " ++ opc)
      | Some vs =>
          let m := v_mem s in
          let setm (m' : mem) := Next (mkV (v_env s) m' (v_brk s) (v_params s)) in
          match vs with
          | [] => if String.eqb opc "stop" then Halt 0 s else Stuck opc
          | [a] =>
              if String.eqb opc "mload" then (if a + 32 <=? MEMLIM then Next (bind_out out (mloadw m a) s) else Rev)
              else if String.eqb opc "iszero" then Next (bind_out out (w_iszero a) s)
              else if String.eqb opc "assert" then (if a =? 0 then Rev else Next s)
              else if String.eqb opc "assign" then Next (bind_out out a s)
              else if String.eqb opc "alloca" then
                Next (bind_out out (v_brk s) (mkV (v_env s) m (v_brk s + (a + 31) / 32 * 32) (v_params s)))
              else Stuck opc
          | [a; b] =>
              if String.eqb opc "mstore" then (if a + 32 <=? MEMLIM then setm (mwrite m a (word b)) else Rev)
              else if String.eqb opc "return" then Halt b s
              else match binop opc a b with Some v => Next (bind_out out v s) | None => Stuck opc end
          | [a; b; c] =>
              if String.eqb opc "mcopy" then
                (if (a + c <=? MEMLIM) && (b + c <=? MEMLIM) then setm (SxEval.mcopy m a b c) else Rev)
              else Stuck opc
          | _ => Stuck opc
          end
      end
  | _ => Stuck "instr"
  end.

Definition find_block (fn : sx) (l : string) : option (list sx) :=
  match fn with
  | SL bs => (fix go (bs : list sx) : option (list sx) :=
                match bs with
                | SL [SS l'; SL ins] :: r => if String.eqb (if String.eqb (String.substring 0 1 l) "@" then String.substring 1 (String.length l - 1) l else l) l' then Some ins else go r
                | _ => None
                end) bs
  | _ => None
  end.

Fixpoint vrun (fuel : nat) (fn : sx) (ins : list sx) (s : vst) : res (Z * vst) :=
  match fuel with
  | O => RFuel
  | S fu =>
      match ins with
      | [] => RStuck "fell off block"
      | i :: r =>
          match exec1 i s with
          | Next s1 => vrun fu fn r s1
          | Jump l s1 => match find_block fn l with Some b => vrun fu fn b s1 | None => RStuck ("label " ++ l) end
          | Halt v s1 => RVal (v, s1)
          | Rev => RRevert
          | Stuck w => RStuck w
          end
      end
  end.

Definition vstart (fn : sx) (params : list Z) (m : mem) : res (Z * vst) :=
  match fn with
  | SL (SL [SS _; SL ins] :: _) => vrun (Z.to_nat 20000) fn ins (mkV [] m 2097152 params)
  | _ => RStuck "function"
  end.

(* encoder template (params: src, dst): same acceptance criterion as SxEval.run_enc_tpl *)
Definition run_enc_tpl_v (tpl : sx) (t : ty) (v : val) : Z :=
  let m0 := mwrite (fun _ => 171) SRC (vylayout 238 t v) in
  match vstart tpl [SRC; DST] m0 with
  | RVal (len, s) =>
      let m := v_mem s in
      if (len =? zlen (enc t v)) && list_eqb (mread m DST (Z.to_nat len)) (enc t v) &&
         list_eqb (mread m (DST - 64) 64) (mread m0 (DST - 64) 64) &&
         list_eqb (mread m (DST + size_bound t) 64) (mread m0 (DST + size_bound t) 64)
      then 1 else 0
  | RRevert => -1 | RFuel => -2 | RStuck _ => -3
  end.

(* normalisation template (params: src, dst) vs the model Widen.store_memory: both must leave, at dst, a value that
   reads back (with the WIDE type) as v; nothing past the destination may change *)
From Verif Require Import C06.Widen.
Definition DSTN : Z := 262144.
Definition run_norm_tpl (tpl : sx) (ts td : ty) (v : val) : Z :=
  let m0 := mwrite (fun _ => 171) SRC (vylayout 238 ts v) in
  match vstart tpl [SRC; DSTN] m0, store_memory ts td m0 SRC DSTN with
  | RVal (_, s), Some mm =>
      let m := v_mem s in
      (* compare raw memory first (a wrong template may leave garbage lengths: never decode ITS memory) *)
      if list_eqb (mread m DSTN (Z.to_nat (vmem_size td))) (mread mm DSTN (Z.to_nat (vmem_size td))) then
        if list_eqb (mread m (DSTN + vmem_size td) 64) (mread m0 (DSTN + vmem_size td) 64) then
          if val_eqb (vyread td mm DSTN) v then 1 else 0
        else 0
      else 0
  | RRevert, None => 1
  | RFuel, _ => -2
  | RStuck _, _ => -3
  | _, _ => 0
  end.
