(* C06 extension (session 3): the pre-cancun copy paths have the memory effect of MCOPY.
     identity precompile   staticcall(gas, 4, src, n, dst, n)          (XEval.identity_call; assumed EVM semantics)
     unrolled word copy    for i < k: mstore (dst + 32 i) (mload (src + 32 i))   reading the CURRENT memory
   For non-overlapping source and destination the unrolled copy of k words is mcopy(dst, src, 32 k), so the
   theorems stated for the cancun copy carry over to the pre-cancun code paths of both generators
   (legacy copy_bytes / _complex_make_setter unrolled / two-word byte-string copier; Venom copy_memory). *)
From Coq Require Import ZArith List Bool Lia ZifyBool.
From Verif Require Import C06.Abi C06.AbiLemmas C06.ZeroPad C06.Venc C06.SxEval C06.Widen C06.WidenProofs C06.XEval.
Import ListNotations.
Open Scope Z_scope.

Fixpoint mcopy_words (k : nat) (src : Z) (m : mem) (dst : Z) : mem :=
  match k with
  | O => m
  | S k' => mcopy_words k' (src + 32) (mstorew m dst (mloadw m src)) (dst + 32)
  end.

Lemma identity_is_mcopy (m : mem) src dst n a : identity_call m src n dst n a = mcopy m dst src n a.
Proof. unfold identity_call, mcopy. rewrite Z.min_id. reflexivity. Qed.

Lemma unrolled_is_mcopy : forall k src (m : mem) dst a, mem_ok m ->
  src + 32 * Z.of_nat k <= dst \/ dst + 32 * Z.of_nat k <= src ->
  mcopy_words k src m dst a = mcopy m dst src (32 * Z.of_nat k) a.
Proof.
  induction k; intros src m dst a Hm Hsep; cbn [mcopy_words].
  - rewrite mcopy_out by lia. reflexivity.
  - set (m1 := mstorew m dst (mloadw m src)).
    rewrite IHk by (try apply mstorew_ok; auto; lia).
    destruct (Z_lt_dec a dst) as [L|L].
    { rewrite !mcopy_out by lia. unfold m1. apply mstorew_out. lia. }
    destruct (Z_lt_dec a (dst + 32)) as [L1|L1].
    { rewrite mcopy_out by lia. rewrite mcopy_at by lia. unfold m1. apply mstorew_mloadw_at; auto. lia. }
    destruct (Z_lt_dec a (dst + 32 * Z.of_nat (S k))) as [L2|L2].
    { rewrite !mcopy_at by lia. unfold m1. rewrite mstorew_out by lia. f_equal. lia. }
    rewrite !mcopy_out by lia. unfold m1. apply mstorew_out. lia.
Qed.
