(* C06: both structural encoder models write exactly the canonical encoding, for all prior memory,
   and touch nothing outside [dst, dst + size_bound). *)
From Coq Require Import ZArith List Bool Lia ZifyBool.
From Verif Require Import C06.Abi C06.AbiLemmas C06.Roundtrip C06.ZeroPad C06.Venc.
Import ListNotations.
Open Scope Z_scope.
Ltac Zify.zify_post_hook ::= Z.to_euclidean_division_equations.

(* ---------- memory lemmas ---------- *)
Lemma mwrite_frame m dst l a : a < dst \/ dst + zlen l <= a -> mwrite m dst l a = m a.
Proof. intro H. unfold mwrite. replace ((dst <=? a) && (a <? dst + zlen l)) with false by lia. reflexivity. Qed.
Lemma mzero_frame m dst n a : a < dst \/ dst + n <= a -> mzero m dst n a = m a.
Proof. intro H. unfold mzero. replace ((dst <=? a) && (a <? dst + n)) with false by lia. reflexivity. Qed.
Lemma mreadz_mwrite m p l : mreadz (mwrite m p l) p (zlen l) = l.
Proof. unfold mreadz. rewrite to_nat_zlen. apply mread_mwrite. Qed.
Lemma mreadz_ext m1 m2 p n : (forall a, p <= a < p + n -> m1 a = m2 a) -> mreadz m1 p n = mreadz m2 p n.
Proof. intro H. unfold mreadz. apply mread_ext. intros a Ha. apply H. lia. Qed.
Lemma mreadz_app m p n k : 0 <= n -> 0 <= k -> mreadz m p (n + k) = mreadz m p n ++ mreadz m (p + n) k.
Proof.
  intros. unfold mreadz. rewrite Z2Nat.inj_add by lia. rewrite mread_app. do 2 f_equal. lia.
Qed.
Lemma length_mread m p k : length (mread m p k) = k.
Proof. revert p. induction k; intro p; cbn; auto. Qed.
Lemma zlen_mreadz m p n : 0 <= n -> zlen (mreadz m p n) = n.
Proof. intro. unfold mreadz, zlen. rewrite length_mread. lia. Qed.
Lemma app_inv_len {A} (a c b d : list A) : length a = length c -> a ++ b = c ++ d -> a = c /\ b = d.
Proof.
  revert c. induction a; destruct c; cbn; intros L E; try discriminate; auto.
  injection E as -> E. injection L as L. destruct (IHa _ L E) as [-> ->]. auto.
Qed.
Lemma mreadz_0 m p : mreadz m p 0 = [].
Proof. reflexivity. Qed.

(* ---------- what a strategy must guarantee for byte strings ---------- *)
Definition wbytes_ok (S : strat) : Prop :=
  forall m dst data b, 0 <= zlen data <= b ->
    mreadz (wbytes S m dst data b) dst (32 + ceil32 (zlen data)) = enc_bytes data /\
    forall a, a < dst \/ dst + 32 + ceil32 b <= a -> wbytes S m dst data b a = m a.

Lemma ceil32_facts n : 0 <= n -> n <= ceil32 n /\ ceil32 n = n + pad32 n /\ 0 <= pad32 n < 32.
Proof. intro. unfold ceil32, pad32. lia. Qed.

Lemma venom_wbytes_ok : wbytes_ok venom.
Proof.
  intros m dst data b Hl. cbn [wbytes venom]. unfold wbytes_venom.
  destruct (zero_pad_spec_venom m dst data) as [Hr Hf]. cbn zeta in Hr, Hf.
  destruct (ceil32_facts (zlen data) ltac:(lia)) as (H1 & H2 & H3).
  split.
  - unfold mreadz. rewrite <- Hr. f_equal. unfold zlen in *. lia.
  - intros a Ha. apply Hf. pose proof (ceil32_mono (zlen data) b). lia.
Qed.

Lemma firstn_zlen_le {A} n (l : list A) : zlen (firstn n l) <= Z.of_nat n.
Proof. unfold zlen. pose proof (firstn_le_length n l). lia. Qed.

Lemma legacy_wbytes_ok J : wbytes_ok (legacy J).
Proof.
  intros m dst data b Hl. cbn [wbytes legacy]. unfold wbytes_legacy.
  set (len := zlen data) in *.
  set (junk := firstn (Z.to_nat (ceil32 b - len)) (J dst)).
  set (m1 := mwrite m dst (word len ++ data ++ junk)).
  destruct (ceil32_facts len ltac:(lia)) as (H1 & H2 & H3).
  pose proof (ceil32_mono len b ltac:(lia)) as Hmono.
  assert (Hj : zlen junk <= ceil32 b - len).
  { unfold junk. pose proof (firstn_zlen_le (Z.to_nat (ceil32 b - len)) (J dst)). lia. }
  pose proof (zlen_nonneg junk) as Hj0.
  assert (Hall : mreadz m1 dst (zlen (word len ++ data ++ junk)) = word len ++ data ++ junk) by apply mreadz_mwrite.
  rewrite !zlen_app, zlen_word in Hall. fold len in Hall.
  rewrite (mreadz_app m1 dst 32 (len + zlen junk)) in Hall by lia.
  rewrite (mreadz_app m1 (dst + 32) len (zlen junk)) in Hall by lia.
  assert (Hw : mreadz m1 dst 32 = word len /\ mreadz m1 (dst + 32) len = data).
  { pose proof (zlen_mreadz m1 dst 32 ltac:(lia)) as L1. pose proof (zlen_word len) as L1'.
    apply app_inv_len in Hall; [|unfold zlen in *; lia]. destruct Hall as [A B]. split; auto.
    pose proof (zlen_mreadz m1 (dst + 32) len ltac:(lia)) as L2.
    apply app_inv_len in B; [|unfold len, zlen in *; lia]. tauto. }
  destruct Hw as [Hw Hd].
  destruct (zero_pad_spec_legacy m1 dst data) as [Hr Hf]; auto.
  { unfold mreadz in Hd. fold len. rewrite <- Hd at 2. f_equal. unfold len, zlen. lia. }
  cbn zeta in Hr, Hf. fold len in Hr, Hf.
  split.
  - unfold mreadz. rewrite <- Hr. f_equal. unfold len, zlen in *. lia.
  - intros a Ha. rewrite mzero_frame by lia. unfold m1. apply mwrite_frame.
    rewrite !zlen_app, zlen_word. fold len. lia.
Qed.

(* ---------- sequences ---------- *)
Definition spec_of (f : enc_t) (e : list Z) (B : Z) : Prop :=
  forall m d, snd (f m d) = zlen e /\ mreadz (fst (f m d)) d (zlen e) = e /\
              forall a, a < d \/ d + B <= a -> fst (f m d) a = m a.

Definition child_ok (c : bool * Z * enc_t) (p : bool * list Z) (B : Z) : Prop :=
  fst (fst c) = fst p /\ snd (fst c) = (if fst p then 32 else zlen (snd p)) /\
  zlen (snd p) <= B /\ (fst p = false -> B = zlen (snd p)) /\ spec_of (snd c) (snd p) B.

Fixpoint dynsum (parts : list (bool * list Z)) (Bs : list Z) : Z :=
  match parts, Bs with
  | (true, _) :: r, B :: bs => B + dynsum r bs
  | (false, _) :: r, _ :: bs => dynsum r bs
  | _, _ => 0
  end.

Lemma dynsum_nonneg cs parts Bs : Forall3 child_ok cs parts Bs -> 0 <= dynsum parts Bs.
Proof.
  induction 1 as [|c p B cs parts Bs Hok HF IH]; cbn [dynsum]. lia.
  destruct p as [[|] e]; destruct Hok as (_ & _ & Hle & _); cbn [snd] in Hle; pose proof (zlen_nonneg e); lia.
Qed.

Lemma venc_seq_ok hf all dst BOUND (m0 : mem) :
  forall cs parts Bs, Forall3 child_ok cs parts Bs ->
  forall p1 m, all = p1 ++ parts ->
    mreadz m dst (head_len p1) = heads p1 (head_len all) ->
    mreadz m (dst + head_len all) (zlen (tails p1)) = tails p1 ->
    (forall a, a < dst \/ dst + BOUND <= a -> m a = m0 a) ->
    head_len all + zlen (tails p1) + dynsum parts Bs <= BOUND ->
    let r := venc_seq hf cs m dst (head_len p1) (head_len all + zlen (tails p1)) in
    snd r = head_len all + zlen (tails all) /\
    mreadz (fst r) dst (head_len all) = heads all (head_len all) /\
    mreadz (fst r) (dst + head_len all) (zlen (tails all)) = tails all /\
    (forall a, a < dst \/ dst + BOUND <= a -> fst r a = m0 a).
Proof.
  intros cs parts Bs HF. induction HF as [|c p B cs parts Bs Hok HF IH]; intros p1 m Hall I1 I2 I3 I4.
  - rewrite app_nil_r in Hall. subst p1. cbn [venc_seq fst snd]. auto.
  - destruct c as [[dyn hs] f]. destruct p as [d' e].
    destruct Hok as (Hd & Hhs & Hle & HB & Hspec). cbn [fst snd] in *. subst dyn.
    pose proof (dynsum_nonneg _ _ _ HF) as Hds.
    pose proof (head_len_nonneg p1) as Hso0. pose proof (zlen_nonneg (tails p1)) as HT0.
    pose proof (zlen_nonneg e) as He0. pose proof (head_len_nonneg parts) as Hr0.
    set (H := head_len all) in *. set (so := head_len p1) in *. set (T := zlen (tails p1)) in *.
    assert (Hhead : H = so + (if d' then 32 else zlen e) + head_len parts).
    { unfold H, so. rewrite Hall, head_len_app. destruct d'; cbn [head_len]; lia. }
    assert (Hall' : all = (p1 ++ [(d', e)]) ++ parts) by (rewrite Hall, <- app_assoc; reflexivity).
    cbn [venc_seq]. unfold venc_child. cbn [dynsum] in I4.
    destruct d'.
    + (* dynamic child *)
      subst hs.
      assert (Hhl : head_len (p1 ++ [(true, e)]) = so + 32) by (rewrite head_len_app; cbn [head_len]; lia).
      assert (Htl : tails (p1 ++ [(true, e)]) = tails p1 ++ e) by (rewrite tails_app; cbn [tails]; now rewrite app_nil_r).
      assert (Hhd : heads (p1 ++ [(true, e)]) H = heads p1 H ++ word (H + T))
        by (rewrite heads_app; cbn [heads]; now rewrite app_nil_r).
      destruct hf; cbn [fst snd].
      * (* head first *)
        set (m1 := mstore m (dst + so) (H + T)).
        destruct (Hspec m1 (dst + (H + T))) as (Hn & Hr & Hf). rewrite Hn.
        set (m2 := fst (f m1 (dst + (H + T)))) in *.
        specialize (IH (p1 ++ [(true, e)]) m2 Hall').
        rewrite Hhl, Htl, Hhd, zlen_app in IH. fold T in IH.
        replace (H + (T + zlen e)) with (H + T + zlen e) in IH by lia.
        apply IH; clear IH.
        -- rewrite mreadz_app by lia. f_equal.
           ++ rewrite <- I1. apply mreadz_ext. intros a Ha. rewrite Hf by lia. unfold m1, mstore.
              apply mwrite_frame. lia.
           ++ transitivity (mreadz m1 (dst + so) 32).
              { apply mreadz_ext. intros a Ha. apply Hf. lia. }
              pose proof (mreadz_mwrite m (dst + so) (word (H + T))) as X. rewrite zlen_word in X. exact X.
        -- rewrite mreadz_app by lia. f_equal.
           ++ rewrite <- I2. apply mreadz_ext. intros a Ha. rewrite Hf by lia. unfold m1, mstore.
              apply mwrite_frame. rewrite zlen_word. lia.
           ++ replace (dst + H + T) with (dst + (H + T)) by lia. exact Hr.
        -- intros a Ha. rewrite Hf by lia. unfold m1, mstore. rewrite mwrite_frame by (rewrite zlen_word; lia).
           apply I3. lia.
        -- lia.
      * (* tail first *)
        destruct (Hspec m (dst + (H + T))) as (Hn & Hr & Hf). rewrite Hn.
        set (m1 := fst (f m (dst + (H + T)))) in *.
        set (m2 := mstore m1 (dst + so) (H + T)).
        specialize (IH (p1 ++ [(true, e)]) m2 Hall').
        rewrite Hhl, Htl, Hhd, zlen_app in IH. fold T in IH.
        replace (H + (T + zlen e)) with (H + T + zlen e) in IH by lia.
        apply IH; clear IH.
        -- rewrite mreadz_app by lia. f_equal.
           ++ rewrite <- I1. apply mreadz_ext. intros a Ha. unfold m2, mstore. rewrite mwrite_frame by lia.
              apply Hf. lia.
           ++ pose proof (mreadz_mwrite m1 (dst + so) (word (H + T))) as X. rewrite zlen_word in X. exact X.
        -- rewrite mreadz_app by lia. f_equal.
           ++ rewrite <- I2. apply mreadz_ext. intros a Ha. unfold m2, mstore.
              rewrite mwrite_frame by (rewrite zlen_word; lia). apply Hf. lia.
           ++ replace (dst + H + T) with (dst + (H + T)) by lia. rewrite <- Hr at 2.
              apply mreadz_ext. intros a Ha. unfold m2, mstore. apply mwrite_frame. rewrite zlen_word. lia.
        -- intros a Ha. unfold m2, mstore. rewrite mwrite_frame by (rewrite zlen_word; lia).
           rewrite Hf by lia. apply I3. lia.
        -- lia.
    + (* static child *)
      subst hs. specialize (HB eq_refl). subst B.
      assert (Hhl : head_len (p1 ++ [(false, e)]) = so + zlen e) by (rewrite head_len_app; cbn [head_len]; lia).
      assert (Htl : tails (p1 ++ [(false, e)]) = tails p1) by (rewrite tails_app; cbn [tails]; now rewrite app_nil_r).
      assert (Hhd : heads (p1 ++ [(false, e)]) H = heads p1 H ++ e)
        by (rewrite heads_app; cbn [heads]; now rewrite app_nil_r).
      cbn [fst snd].
      destruct (Hspec m (dst + so)) as (Hn & Hr & Hf).
      set (m1 := fst (f m (dst + so))) in *.
      specialize (IH (p1 ++ [(false, e)]) m1 Hall').
      rewrite Hhl, Htl, Hhd in IH. fold T in IH.
      apply IH; clear IH.
      -- rewrite mreadz_app by lia. f_equal.
         ++ rewrite <- I1. apply mreadz_ext. intros a Ha. apply Hf. lia.
         ++ exact Hr.
      -- rewrite <- I2. apply mreadz_ext. intros a Ha. apply Hf. lia.
      -- intros a Ha. rewrite Hf by lia. apply I3. lia.
      -- lia.
Qed.

(* ---------- the encoders ---------- *)
Section Enc.
Variable S : strat. (*section*)
Hypothesis HS : wbytes_ok S. (*section*)

Definition venc_ok (t : ty) : Prop :=
  forall v, wf_ty t = true -> in_type t v = true -> spec_of (venc S t v) (enc t v) (size_bound t).

Lemma size_bound_static t : is_dynamic t = false -> size_bound t = static_size t.
Proof. intro H. unfold size_bound. rewrite (static_dyn_bound_zero t H). lia. Qed.

Lemma venc_static t v : is_dynamic t = false -> wf_ty t = true -> in_type t v = true ->
  spec_of (venc S t v) (enc t v) (size_bound t).
Proof.
  intros Hd Hwf Hin m d.
  assert (E : venc S t v m d = (mwrite m d (enc t v), static_size t)) by (destruct t; cbn [venc]; rewrite Hd; reflexivity).
  rewrite E. cbn [fst snd]. pose proof (enc_len_static t v Hwf Hin Hd) as L.
  split; [lia|]. split. apply mreadz_mwrite.
  intros a Ha. apply mwrite_frame. rewrite size_bound_static in Ha by auto. lia.
Qed.

Lemma child_ok_intro t v : wf_ty t = true -> in_type t v = true -> venc_ok t ->
  child_ok (is_dynamic t, emb_static t, venc S t v) (is_dynamic t, enc t v) (size_bound t).
Proof.
  intros Hwf Hin IH. unfold child_ok. cbn [fst snd]. split; [reflexivity|]. split.
  { unfold emb_static. destruct (is_dynamic t) eqn:Hd; [reflexivity|]. symmetry. now apply enc_len_static. }
  split. now apply enc_len_le_size_bound. split.
  { intro Hd. rewrite size_bound_static by auto. symmetry. now apply enc_len_static. }
  now apply IH.
Qed.

Definition embdyn (t : ty) : Z := if is_dynamic t then size_bound t else 0.

Lemma arr_children t vs : wf_ty t = true -> venc_ok t -> Forall (fun v => in_type t v = true) vs ->
  Forall3 child_ok (map (fun x => (is_dynamic t, emb_static t, venc S t x)) vs)
          (map (fun x => (is_dynamic t, enc t x)) vs) (map (fun _ => size_bound t) vs) /\
  head_len (map (fun x => (is_dynamic t, enc t x)) vs) = zlen vs * emb_static t /\
  dynsum (map (fun x => (is_dynamic t, enc t x)) vs) (map (fun _ => size_bound t) vs) = zlen vs * embdyn t.
Proof.
  intros Hwf IH HF. induction HF as [|v vs Hv HF IHF]; cbn [map head_len dynsum].
  - split. constructor. split; cbn; lia.
  - destruct IHF as (F3 & HL & DS). split. constructor; auto. now apply child_ok_intro.
    rewrite zlen_cons. unfold emb_static, embdyn in *. destruct (is_dynamic t) eqn:Hd.
    + split; lia.
    + rewrite (enc_len_static t v Hwf Hv Hd). split; lia.
Qed.

Lemma tuple_children ts : Forall venc_ok ts -> forall vs,
  forallb wf_ty ts = true -> zip_all (map in_type ts) vs = true ->
  Forall3 child_ok (zip_enc (map (fun t' => (is_dynamic t', emb_static t', venc S t')) ts) vs)
          (zip_apply (map (fun t' => (is_dynamic t', enc t')) ts) vs) (map size_bound ts) /\
  head_len (zip_apply (map (fun t' => (is_dynamic t', enc t')) ts) vs) = zsum (map emb_static ts) /\
  dynsum (zip_apply (map (fun t' => (is_dynamic t', enc t')) ts) vs) (map size_bound ts) = zsum (map embdyn ts).
Proof.
  induction 1 as [|t ts Ht HF IH]; intros vs Hwf Hin; destruct vs as [|v vs];
    cbn [map zip_all zip_apply zip_enc forallb head_len dynsum] in *; try discriminate.
  - split. constructor. split; reflexivity.
  - apply andb_prop in Hwf as [Hwt Hwl]. apply andb_prop in Hin as [Hit Hil].
    destruct (IH vs Hwl Hil) as (F3 & HL & DS). split. constructor; auto. now apply child_ok_intro.
    rewrite !zsum_cons. unfold emb_static, embdyn in *. destruct (is_dynamic t) eqn:Hd.
    + split; lia.
    + rewrite (enc_len_static t v Hwt Hit Hd). split; lia.
Qed.

Lemma sb_nonneg t : wf_ty t = true -> 0 <= emb_static t + embdyn t.
Proof.
  intro H. destruct (sizes_nonneg t H). unfold emb_static, embdyn, size_bound. destruct (is_dynamic t); lia.
Qed.

Theorem venc_spec : forall t, venc_ok t.
Proof.
  induction t using ty_ind'; intros v Hwf Hin;
    try (apply venc_static; auto; reflexivity).
  - (* bytes *)
    destruct v as [|data|]; try (cbn in Hin; discriminate). cbn [in_type wf_ty] in *.
    apply andb_prop in Hin as [Hl _]. intros m d. cbn [venc is_dynamic negb fst snd].
    pose proof (zlen_nonneg data). destruct (HS m d data b ltac:(lia)) as [Hr Hf].
    change (enc (TBytes b) (VBytes data)) with (enc_bytes data).
    assert (L : zlen (enc_bytes data) = 32 + ceil32 (zlen data)).
    { unfold enc_bytes. rewrite !zlen_app, zlen_word, zlen_zeros. pose proof (pad32_range (zlen data)).
      rewrite pad32_spec in *. lia. }
    rewrite L. split; [reflexivity|]. split; [exact Hr|].
    intros a Ha. apply Hf. unfold size_bound in Ha. cbn [static_size dynamic_size_bound] in Ha. lia.
  - (* string *)
    destruct v as [|data|]; try (cbn in Hin; discriminate). cbn [in_type wf_ty] in *.
    apply andb_prop in Hin as [Hl _]. intros m d. cbn [venc is_dynamic negb fst snd].
    pose proof (zlen_nonneg data). destruct (HS m d data b ltac:(lia)) as [Hr Hf].
    change (enc (TString b) (VBytes data)) with (enc_bytes data).
    assert (L : zlen (enc_bytes data) = 32 + ceil32 (zlen data)).
    { unfold enc_bytes. rewrite !zlen_app, zlen_word, zlen_zeros. pose proof (pad32_range (zlen data)).
      rewrite pad32_spec in *. lia. }
    rewrite L. split; [reflexivity|]. split; [exact Hr|].
    intros a Ha. apply Hf. unfold size_bound in Ha. cbn [static_size dynamic_size_bound] in Ha. lia.
  - (* sarr *)
    destruct (is_dynamic (TSArr t n)) eqn:Hd; [|apply venc_static; auto].
    destruct v as [| |vs]; try (cbn in Hin; discriminate). cbn [in_type wf_ty] in *.
    apply andb_prop in Hin as [Hn Hall]. apply andb_prop in Hwf as [Hn1 Hw].
    assert (HF : Forall (fun v => in_type t v = true) vs) by (apply Forall_forall; rewrite forallb_forall in Hall; auto).
    destruct (arr_children t vs Hw IHt HF) as (F3 & HL & DS).
    intros m d. cbn [is_dynamic] in Hd.
    assert (E : venc S (TSArr t n) (VList vs) m d =
                venc_seq (head_first S) (map (fun x => (is_dynamic t, emb_static t, venc S t x)) vs) m d 0
                         (static_size (TSArr t n))) by (cbn [venc is_dynamic]; rewrite Hd; reflexivity).
    rewrite E. clear E. cbn [enc].
    set (all := map (fun x => (is_dynamic t, enc t x)) vs) in *.
    assert (Hss : static_size (TSArr t n) = head_len all) by (rewrite HL; cbn [static_size]; unfold emb_static; nia).
    rewrite Hss.
    pose proof (venc_seq_ok (head_first S) all d (size_bound (TSArr t n)) m _ _ _ F3 [] m eq_refl) as Q.
    cbn [head_len tails app] in Q. rewrite Z.add_0_r in Q.
    destruct Q as (Q1 & Q2 & Q3 & Q4); auto.
    { rewrite DS, HL. unfold size_bound. cbn [static_size dynamic_size_bound]. unfold emb_static, embdyn, size_bound. rewrite Hd. nia. }
    pose proof (head_len_nonneg all). pose proof (zlen_nonneg (tails all)).
    assert (L : zlen (enc_seq all) = head_len all + zlen (tails all)) by (unfold enc_seq; rewrite zlen_app, zlen_heads; lia).
    rewrite L. split; [exact Q1|]. split; [|exact Q4].
    rewrite mreadz_app by lia. unfold enc_seq. now rewrite Q2, Q3.
  - (* darr *)
    destruct v as [| |vs]; try (cbn in Hin; discriminate). cbn [in_type wf_ty] in *.
    apply andb_prop in Hin as [Hn Hall]. apply andb_prop in Hwf as [Hn1 Hw].
    assert (HF : Forall (fun v => in_type t v = true) vs) by (apply Forall_forall; rewrite forallb_forall in Hall; auto).
    destruct (arr_children t vs Hw IHt HF) as (F3 & HL & DS).
    intros m d. cbn [venc is_dynamic negb enc fst snd].
    set (all := map (fun x => (is_dynamic t, enc t x)) vs) in *.
    set (m1 := mstore m d (zlen vs)).
    pose proof (sb_nonneg t Hw) as Hsb. pose proof (zlen_nonneg vs) as Hv0.
    set (BOUND := (emb_static t + embdyn t) * b).
    assert (Hsz : size_bound (TDArr t b) = 32 + BOUND).
    { unfold BOUND, size_bound, emb_static, embdyn, size_bound. cbn [static_size dynamic_size_bound]. destruct (is_dynamic t); lia. }
    rewrite <- HL.
    pose proof (venc_seq_ok (head_first S) all (d + 32) BOUND m1 _ _ _ F3 [] m1 eq_refl) as Q.
    cbn [head_len tails app] in Q. rewrite Z.add_0_r in Q.
    destruct Q as (Q1 & Q2 & Q3 & Q4); auto.
    { rewrite DS, HL. unfold BOUND. nia. }
    assert (HB0 : 0 <= BOUND) by (unfold BOUND; nia).
    clearbody BOUND. clear Hn1.
    pose proof (head_len_nonneg all). pose proof (zlen_nonneg (tails all)).
    assert (L : zlen (word (zlen vs) ++ enc_seq all) = 32 + (head_len all + zlen (tails all)))
      by (unfold enc_seq; rewrite !zlen_app, zlen_word, zlen_heads; lia).
    rewrite L, Q1. split; [reflexivity|]. split.
    + rewrite mreadz_app by lia. f_equal.
      * transitivity (mreadz m1 d 32). { apply mreadz_ext. intros a Ha. apply Q4. lia. }
        pose proof (mreadz_mwrite m d (word (zlen vs))) as X. rewrite zlen_word in X. exact X.
      * rewrite mreadz_app by lia. unfold enc_seq. now rewrite Q2, Q3.
    + intros a Ha. rewrite Hsz in Ha. cbn [fst]. rewrite Q4 by lia. unfold m1, mstore. apply mwrite_frame. rewrite zlen_word. lia.
  - (* tuple *)
    destruct (is_dynamic (TTuple ts)) eqn:Hd; [|apply venc_static; auto].
    destruct v as [| |vs]; try (cbn in Hin; discriminate). cbn [in_type wf_ty] in *.
    destruct (tuple_children ts H vs Hwf Hin) as (F3 & HL & DS).
    intros m d. cbn [venc]. rewrite Hd. cbn [negb enc].
    set (all := zip_apply (map (fun t' => (is_dynamic t', enc t')) ts) vs) in *.
    assert (Hss : static_size (TTuple ts) = head_len all)
      by (rewrite HL; cbn [static_size]; reflexivity).
    rewrite Hss.
    pose proof (venc_seq_ok (head_first S) all d (size_bound (TTuple ts)) m _ _ _ F3 [] m eq_refl) as Q.
    cbn [head_len tails app] in Q. rewrite Z.add_0_r in Q.
    destruct Q as (Q1 & Q2 & Q3 & Q4); auto.
    { rewrite DS, HL. unfold size_bound. cbn [static_size dynamic_size_bound].
      change (fun t' => if is_dynamic t' then 32 else static_size t') with emb_static.
      change (fun t' => if is_dynamic t' then static_size t' + dynamic_size_bound t' else 0) with embdyn. lia. }
    pose proof (head_len_nonneg all). pose proof (zlen_nonneg (tails all)).
    assert (L : zlen (enc_seq all) = head_len all + zlen (tails all)) by (unfold enc_seq; rewrite zlen_app, zlen_heads; lia).
    rewrite L. split; [exact Q1|]. split; [|exact Q4].
    rewrite mreadz_app by lia. unfold enc_seq. now rewrite Q2, Q3.
Qed.
End Enc.

(* ---------- instances ---------- *)
Theorem venc_l_spec : forall J t v, wf_ty t = true -> in_type t v = true ->
  spec_of (venc_l J t v) (enc t v) (size_bound t).
Proof. intros J t v. apply (venc_spec (legacy J) (legacy_wbytes_ok J)). Qed.
Theorem venc_v_spec : forall t v, wf_ty t = true -> in_type t v = true ->
  spec_of (venc_v t v) (enc t v) (size_bound t).
Proof. intros t v. apply (venc_spec venom venom_wbytes_ok). Qed.
