(* C06: both structural encoder models write exactly the canonical encoding, for all prior memory,
   and touch nothing outside [dst, dst + size_bound). *)
From Coq Require Import ZArith List Bool Lia ZifyBool.
From Verif Require Import C06.Abi C06.AbiLemmas C06.Roundtrip C06.ZeroPad C06.Venc.
Import ListNotations.
Open Scope Z_scope.
Ltac Zify.zify_post_hook ::= Z.to_euclidean_division_equations.

(* ---------- memory lemmas ---------- *)
Lemma mwrite_frame m dst l a : a < dst \/ dst + zlen l <= a -> mwrite m dst l a = m a.
Proof. intro H. unfold mwrite. replace ((dst <=? a) && (a <? dst + zlen l)) with false by lia. reflexivity. Qed.
Lemma mzero_frame m dst n a : a < dst \/ dst + n <= a -> mzero m dst n a = m a.
Proof. intro H. unfold mzero. replace ((dst <=? a) && (a <? dst + n)) with false by lia. reflexivity. Qed.
Lemma mreadz_mwrite m p l : mreadz (mwrite m p l) p (zlen l) = l.
Proof. unfold mreadz. rewrite to_nat_zlen. apply mread_mwrite. Qed.
Lemma mreadz_ext m1 m2 p n : (forall a, p <= a < p + n -> m1 a = m2 a) -> mreadz m1 p n = mreadz m2 p n.
Proof. intro H. unfold mreadz. apply mread_ext. intros a Ha. apply H. lia. Qed.
Lemma mreadz_app m p n k : 0 <= n -> 0 <= k -> mreadz m p (n + k) = mreadz m p n ++ mreadz m (p + n) k.
Proof.
  intros. unfold mreadz. rewrite Z2Nat.inj_add by lia. rewrite mread_app. do 2 f_equal. lia.
Qed.
Lemma mreadz_0 m p : mreadz m p 0 = [].
Proof. reflexivity. Qed.

(* ---------- what a strategy must guarantee for byte strings ---------- *)
Definition wbytes_ok (S : strat) : Prop :=
  forall m dst data b, 0 <= zlen data <= b ->
    mreadz (wbytes S m dst data b) dst (32 + ceil32 (zlen data)) = enc_bytes data /\
    forall a, a < dst \/ dst + 32 + ceil32 b <= a -> wbytes S m dst data b a = m a.

Lemma ceil32_facts n : 0 <= n -> n <= ceil32 n /\ ceil32 n = n + pad32 n /\ 0 <= pad32 n < 32.
Proof. intro. unfold ceil32, pad32. lia. Qed.

Lemma venom_wbytes_ok : wbytes_ok venom.
Proof.
  intros m dst data b Hl. cbn [wbytes venom]. unfold wbytes_venom.
  destruct (zero_pad_spec_venom m dst data) as [Hr Hf]. cbn zeta in Hr, Hf.
  destruct (ceil32_facts (zlen data) ltac:(lia)) as (H1 & H2 & H3).
  split.
  - unfold mreadz. rewrite <- Hr. f_equal. unfold zlen in *. lia.
  - intros a Ha. apply Hf. pose proof (ceil32_mono (zlen data) b). lia.
Qed.

Lemma firstn_zlen_le {A} n (l : list A) : zlen (firstn n l) <= Z.of_nat n.
Proof. unfold zlen. pose proof (firstn_le_length n l). lia. Qed.

Lemma legacy_wbytes_ok J : wbytes_ok (legacy J).
Proof.
  intros m dst data b Hl. cbn [wbytes legacy]. unfold wbytes_legacy.
  set (len := zlen data) in *.
  set (junk := firstn (Z.to_nat (ceil32 b - len)) (J dst)).
  set (m1 := mwrite m dst (word len ++ data ++ junk)).
  destruct (ceil32_facts len ltac:(lia)) as (H1 & H2 & H3).
  pose proof (ceil32_mono len b ltac:(lia)) as Hmono.
  assert (Hj : zlen junk <= ceil32 b - len).
  { unfold junk. pose proof (firstn_zlen_le (Z.to_nat (ceil32 b - len)) (J dst)). lia. }
  pose proof (zlen_nonneg junk) as Hj0.
  assert (Hall : mreadz m1 dst (zlen (word len ++ data ++ junk)) = word len ++ data ++ junk) by apply mreadz_mwrite.
  rewrite !zlen_app, zlen_word in Hall. fold len in Hall.
  rewrite (mreadz_app m1 dst 32 (len + zlen junk)) in Hall by lia.
  rewrite (mreadz_app m1 (dst + 32) len (zlen junk)) in Hall by lia.
  assert (Hw : mreadz m1 dst 32 = word len /\ mreadz m1 (dst + 32) len = data).
  { assert (L1 : zlen (mreadz m1 dst 32) = zlen (word len)).
    { rewrite zlen_word. unfold mreadz, zlen. clear. induction (Z.to_nat 32) in dst |- *; cbn; auto. }
    apply app_inv_length in Hall; [|unfold zlen in L1; lia]. destruct Hall as [A B]. split; auto.
    assert (L2 : zlen (mreadz m1 (dst + 32) len) = zlen data).
    { fold len. unfold mreadz, zlen. rewrite Nat2Z.id || idtac.
      clear - Hl. unfold len. unfold zlen. rewrite Nat2Z.id.
      generalize (dst + 32). induction (length data); intro p; cbn; auto. }
    apply app_inv_length in B; [|unfold zlen in L2; lia]. tauto. }
  destruct Hw as [Hw Hd].
  destruct (zero_pad_spec_legacy m1 dst data) as [Hr Hf]; auto.
  { unfold mreadz in Hd. fold len. rewrite <- Hd at 2. f_equal. unfold len, zlen. lia. }
  cbn zeta in Hr, Hf. fold len in Hr, Hf.
  split.
  - unfold mreadz. rewrite <- Hr. f_equal. unfold len, zlen in *. lia.
  - intros a Ha. rewrite mzero_frame by lia. unfold m1. apply mwrite_frame.
    rewrite !zlen_app, zlen_word. fold len. lia.
Qed.
