(* Executable semantics of the legacy-IR subset that the ABI encoder / decoder templates use (s-expressions of
   Sexp.v): word arithmetic (Base/Word256), byte-addressed memory, with / set / seq / repeat / assert.
   Memory accesses reaching MEMLIM = 2^32 run out of gas.  Used to run the OBSERVED templates inside Coq and compare
   their behaviour with the structural models (venc_l spec, ldec); no proofs here. *)
From Coq Require Import ZArith List Bool String.
From Verif Require Import Base.Word256 C06.Abi C06.ZeroPad C06.Sexp.
Import ListNotations.
Open Scope string_scope.
Open Scope list_scope.
Open Scope Z_scope.

Definition MEMLIM : Z := 2 ^ 32.
Inductive res (A : Type) := RVal (a : A) | RRevert | RFuel | RStuck (why : string).
Arguments RVal {A}. Arguments RRevert {A}. Arguments RFuel {A}. Arguments RStuck {A}.

Definition env := list (string * Z).
Fixpoint lookup (e : env) (x : string) : option Z :=
  match e with [] => None | (y, v) :: r => if String.eqb x y then Some v else lookup r x end.
Fixpoint update (e : env) (x : string) (v : Z) : option env :=
  match e with
  | [] => None
  | (y, w) :: r => if String.eqb x y then Some ((y, v) :: r)
                   else match update r x v with Some r' => Some ((y, w) :: r') | None => None end
  end.

Definition mloadw (m : mem) (p : Z) : Z := unbe (mread m p 32).
Definition mcopy (m : mem) (d s n : Z) : mem := mwrite m d (mread m s (Z.to_nat n)).

Record st := mkSt { s_env : env; s_mem : mem }.

Definition binop (f : string) (a b : Z) : option Z :=
  if String.eqb f "add" then Some (w_add a b) else if String.eqb f "sub" then Some (w_sub a b)
  else if String.eqb f "mul" then Some (w_mul a b) else if String.eqb f "mod" then Some (w_mod a b)
  else if String.eqb f "div" then Some (w_div a b)
  else if String.eqb f "le" then Some (b2z (a <=? b)) else if String.eqb f "ge" then Some (b2z (a >=? b))
  else if String.eqb f "lt" then Some (w_lt a b) else if String.eqb f "gt" then Some (w_gt a b)
  else if String.eqb f "eq" then Some (w_eq a b)
  else if String.eqb f "shr" then Some (w_shr a b) else if String.eqb f "shl" then Some (w_shl a b)
  else if String.eqb f "signextend" then Some (w_signextend a b)
  else if String.eqb f "and" then Some (w_and a b) else if String.eqb f "or" then Some (w_or a b)
  else None.

Fixpoint ev (fuel : nat) (e : sx) (s : st) : res (Z * st) :=
  match fuel with
  | O => RFuel
  | S fu =>
      let evl := (fix evl (l : list sx) (s : st) : res (list Z * st) :=
                    match l with
                    | [] => RVal ([], s)
                    | x :: r => match ev fu x s with
                                | RVal (v, s1) => match evl r s1 with
                                                  | RVal (vs, s2) => RVal (v :: vs, s2)
                                                  | RRevert => RRevert | RFuel => RFuel | RStuck w => RStuck w end
                                | RRevert => RRevert | RFuel => RFuel | RStuck w => RStuck w
                                end
                    end) in
      match e with
      | SI n => RVal (n mod W, s)
      | SS x =>
          if String.eqb x "seq" then RVal (0, s)
          else if String.eqb x "calldatasize" then RVal (MEMLIM, s)     (* any offset past the call data *)
          else match lookup (s_env s) x with Some v => RVal (v, s) | None => RStuck ("unbound " ++ x) end
      | SL (SS f :: args) =>
          if String.eqb f "seq" then
            match evl args s with
            | RVal (vs, s1) => RVal (last vs 0, s1)
            | RRevert => RRevert | RFuel => RFuel | RStuck w => RStuck w end
          else if String.eqb f "with" then
            match args with
            | [SS x; e1; body] =>
                match ev fu e1 s with
                | RVal (v, s1) =>
                    match ev fu body (mkSt ((x, v) :: s_env s1) (s_mem s1)) with
                    | RVal (r, s2) => RVal (r, mkSt (tl (s_env s2)) (s_mem s2))
                    | o => o end
                | o => o end
            | _ => RStuck "with" end
          else if String.eqb f "set" then
            match args with
            | [SS x; e1] =>
                match ev fu e1 s with
                | RVal (v, s1) => match update (s_env s1) x v with
                                  | Some e' => RVal (0, mkSt e' (s_mem s1)) | None => RStuck ("set " ++ x) end
                | o => o end
            | _ => RStuck "set" end
          else if String.eqb f "assert" then
            match args with
            | [c] => match ev fu c s with RVal (v, s1) => if v =? 0 then RRevert else RVal (0, s1) | o => o end
            | _ => RStuck "assert" end
          else if String.eqb f "repeat" then
            match args with
            | [SS i; SI start; cnt; SI bound; body] =>
                match ev fu cnt s with
                | RVal (c, s1) =>
                    if bound <? c then RRevert else
                    (fix loop (k : nat) (j : Z) (s : st) : res (Z * st) :=
                       match k with
                       | O => RVal (0, s)
                       | S k' => match ev fu body (mkSt ((i, j) :: s_env s) (s_mem s)) with
                                 | RVal (_, s2) => loop k' (j + 1) (mkSt (tl (s_env s2)) (s_mem s2))
                                 | o => o end
                       end) (Z.to_nat c) start s1
                | o => o end
            | _ => RStuck "repeat" end
          else
            match evl args s with
            | RVal (vs, s1) =>
                let m := s_mem s1 in
                match vs with
                | [a] =>
                    if String.eqb f "mload" then (if a + 32 <=? MEMLIM then RVal (mloadw m a, s1) else RRevert)
                    else if String.eqb f "iszero" then RVal (w_iszero a, s1)
                    else if String.eqb f "ceil32" then RVal (((a + 31) / 32 * 32) mod W, s1)
                    else RStuck ("op1 " ++ f)
                | [a; b] =>
                    if String.eqb f "mstore" then
                      (if a + 32 <=? MEMLIM then RVal (0, mkSt (s_env s1) (mwrite m a (word b))) else RRevert)
                    else match binop f a b with Some v => RVal (v, s1) | None => RStuck ("op2 " ++ f) end
                | [a; b; c] =>
                    if String.eqb f "mcopy" then
                      (if (a + c <=? MEMLIM) && (b + c <=? MEMLIM) then RVal (0, mkSt (s_env s1) (mcopy m a b c)) else RRevert)
                    else if String.eqb f "calldatacopy" then
                      (if a + c <=? MEMLIM then RVal (0, mkSt (s_env s1) (mzero m a c)) else RRevert)
                    else RStuck ("op3 " ++ f)
                | _ => RStuck ("arity " ++ f)
                end
            | RRevert => RRevert | RFuel => RFuel | RStuck w => RStuck w end
      | SL _ => RStuck "head"
      end
  end.

(* ---------- vyper memory layout of a value ---------- *)
Fixpoint vmem_size (t : ty) : Z :=
  match t with
  | TBytes b | TString b => 32 + ceil32 b
  | TSArr t' n => n * vmem_size t'
  | TDArr t' b => 32 + b * vmem_size t'
  | TTuple ts => fold_right (fun t' acc => vmem_size t' + acc) 0 ts
  | _ => 32
  end.

Definition fillto (n : Z) (fill : Z) (l : list Z) : list Z := l ++ repeat fill (Z.to_nat (n - zlen l)).

(* layout with [fill] in the slack (bytes past a byte string's data, elements past a dynamic array's length) *)
Fixpoint vylayout (fill : Z) (t : ty) (v : val) : list Z :=
  match t with
  | TBytes b | TString b =>
      match v with VBytes d => fillto (32 + ceil32 b) fill (word (zlen d) ++ d) | _ => [] end
  | TBytesM _ => match v with VBytes d => d ++ zeros (32 - zlen d) | _ => [] end
  | TSArr t' _ => match v with VList vs => flat_map (vylayout fill t') vs | _ => [] end
  | TDArr t' b =>
      match v with VList vs => fillto (32 + b * vmem_size t') fill (word (zlen vs) ++ flat_map (vylayout fill t') vs) | _ => [] end
  | TTuple ts =>
      match v with
      | VList vs => (fix go (ts : list ty) (vs : list val) : list Z :=
                       match ts, vs with t' :: r, x :: xs => vylayout fill t' x ++ go r xs | _, _ => [] end) ts vs
      | _ => [] end
  | _ => match v with VInt z => word z | _ => [] end
  end.

(* read a value of type t back from vyper layout at address a (signed words are sign-decoded) *)
Fixpoint vyread (t : ty) (m : mem) (a : Z) : val :=
  match t with
  | TBytes _ | TString _ => VBytes (mread m (a + 32) (Z.to_nat (mloadw m a)))
  | TBytesM k => VBytes (mread m a (Z.to_nat k))
  | TSArr t' n => VList (map (fun i => vyread t' m (a + Z.of_nat i * vmem_size t')) (seq 0 (Z.to_nat n)))
  | TDArr t' _ => VList (map (fun i => vyread t' m (a + 32 + Z.of_nat i * vmem_size t')) (seq 0 (Z.to_nat (mloadw m a))))
  | TTuple ts =>
      VList ((fix go (ts : list ty) (a : Z) : list val :=
                match ts with [] => [] | t' :: r => vyread t' m a :: go r (a + vmem_size t') end) ts a)
  | TInt _ | TDecimal => VInt (to_signed256 (mloadw m a))
  | _ => VInt (mloadw m a)
  end.

Fixpoint val_eqb (a b : val) : bool :=
  match a, b with
  | VInt x, VInt y => x =? y
  | VBytes x, VBytes y => list_eqb x y
  | VList x, VList y =>
      (fix go (x y : list val) : bool :=
         match x, y with [], [] => true | p :: x', q :: y' => val_eqb p q && go x' y' | _, _ => false end) x y
  | _, _ => false
  end.

(* ---------- running an encoder template ---------- *)
Definition SRC : Z := 65536.
Definition DST : Z := 4096.
(* 1 = the template, run on dirty memory holding the vyper layout of v at SRC (junk 0xEE in the slack), returns
   |enc t v|, leaves enc t v at [DST, DST+len) and changes nothing outside [DST, DST + size_bound t) *)
Definition run_enc_tpl (tpl : sx) (t : ty) (v : val) : Z :=
  let m0 := mwrite (fun _ => 171) SRC (vylayout 238 t v) in
  match ev (Z.to_nat 4000) tpl (mkSt [("src", SRC); ("dst", DST)] m0) with
  | RVal (len, s) =>
      let m := s_mem s in
      if (len =? zlen (enc t v)) && list_eqb (mread m DST (Z.to_nat len)) (enc t v) &&
         list_eqb (mread m (DST - 64) 64) (mread m0 (DST - 64) 64) &&
         list_eqb (mread m (DST + size_bound t) 64) (mread m0 (DST + size_bound t) 64)
      then 1 else 0
  | RRevert => -1 | RFuel => -2 | RStuck _ => -3
  end.
