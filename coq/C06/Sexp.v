(* Generic s-expressions for observed IR templates (legacy IRnode trees; venom instruction lists), with a
   boolean equality usable under vm_compute.  Atoms: integers and symbols. *)
From Coq Require Import ZArith List Bool String Ascii.
Import ListNotations.
Open Scope Z_scope.

Inductive sx : Type := SI (z : Z) | SS (s : string) | SL (l : list sx).

Fixpoint sx_eqb (a b : sx) : bool :=
  match a, b with
  | SI x, SI y => x =? y
  | SS x, SS y => String.eqb x y
  | SL x, SL y =>
      (fix go (x y : list sx) : bool :=
         match x, y with
         | [], [] => true
         | p :: x', q :: y' => sx_eqb p q && go x' y'
         | _, _ => false
         end) x y
  | _, _ => false
  end.

(* first differing position (path of child indices), for reports *)
Fixpoint sx_size (a : sx) : Z :=
  match a with SL l => 1 + fold_right (fun x acc => sx_size x + acc) 0 l | _ => 1 end.

Definition sym (s : string) := SS s.
Definition app1 (f : string) (a : sx) := SL [SS f; a].
Definition app2 (f : string) (a b : sx) := SL [SS f; a; b].
Definition app3 (f : string) (a b c : sx) := SL [SS f; a; b; c].
Definition sseq (l : list sx) := SL (SS "seq" :: l).
Definition swith (v : string) (e body : sx) := SL [SS "with"; SS v; e; body].
