(* Shared ABI model (owner: C06; imported by C05, C12, C19).
   SPECIFICATION written from the Solidity ABI document ("Formal Specification of the
   Encoding"), independent of vyper:  types, values, sizes, the canonical encoder [enc],
   an offset-following decoder [dec_at] (zero-extended reads, unbounded positions) and the
   strict decoder [dec].  No proofs in this file; everything is executable (vm_compute).

   Bytes are [list Z] with elements in 0..255.  Values:
     VInt z    integers, bool (0/1), address, decimal (scaled by 10^10), flag (bit set)
     VBytes bs bytesM, Bytes[n], String[n]
     VList vs  static arrays, dynamic arrays, tuples/structs
   [enc] is total; it is only meaningful for [in_type v t = true] (every theorem states
   that guard; on ill-typed input it returns whatever the clauses below say). *)
From Coq Require Import ZArith List Bool Lia String Ascii.
Import ListNotations.
Open Scope Z_scope.

Inductive ty : Type :=
| TUInt (bits : Z)            (* uint<bits> *)
| TInt (bits : Z)             (* int<bits> *)
| TBool
| TAddress
| TBytesM (m : Z)             (* bytes<m>, 1 <= m <= 32 *)
| TDecimal                    (* fixed168x10 : int168 scaled by 10^10 *)
| TFlag (members : Z)         (* vyper flag: ABI uint256, value < 2^members *)
| TBytes (bound : Z)          (* bytes  with vyper bound *)
| TString (bound : Z)         (* string with vyper bound *)
| TSArr (t : ty) (n : Z)      (* t[n] *)
| TDArr (t : ty) (bound : Z)  (* t[] with vyper bound *)
| TTuple (ts : list ty).

Inductive val : Type :=
| VInt (z : Z)
| VBytes (bs : list Z)
| VList (vs : list val).

Definition zlen {A} (l : list A) : Z := Z.of_nat (List.length l).

(* ---------- words ---------- *)
Fixpoint be (n : nat) (z : Z) : list Z :=      (* n-byte big endian of z mod 256^n *)
  match n with O => [] | S k => be k (z / 256) ++ [z mod 256] end.
Definition unbe (l : list Z) : Z := fold_left (fun a b => a * 256 + b) l 0.
Definition W256 : Z := 2 ^ 256.
Definition word (z : Z) : list Z := be 32 (z mod W256).
Definition zeros (n : Z) : list Z := repeat 0 (Z.to_nat n).
Definition ceil32 (x : Z) : Z := (x + 31) / 32 * 32.
Definition pad32 (len : Z) : Z := (- len) mod 32.      (* number of padding bytes after len bytes *)

(* ---------- sizes (spec; the compiler's copy in abi_types.py is tied in SizesTie.v) ---------- *)
Fixpoint is_dynamic (t : ty) : bool :=
  match t with
  | TBytes _ | TString _ | TDArr _ _ => true
  | TSArr t' _ => is_dynamic t'
  | TTuple ts => existsb is_dynamic ts
  | _ => false
  end.

Definition zsum (l : list Z) : Z := fold_right Z.add 0 l.

(* size of the head ("static section") of the type's own encoding *)
Fixpoint static_size (t : ty) : Z :=
  match t with
  | TBytes _ | TString _ | TDArr _ _ => 0
  | TSArr t' n => n * (if is_dynamic t' then 32 else static_size t')
  | TTuple ts => zsum (map (fun t' => if is_dynamic t' then 32 else static_size t') ts)
  | _ => 32
  end.
Definition emb_static (t : ty) : Z := if is_dynamic t then 32 else static_size t.

(* bound on the size of the tail ("dynamic section") *)
Fixpoint dynamic_size_bound (t : ty) : Z :=
  match t with
  | TBytes b | TString b => 32 + ceil32 b
  | TDArr t' b =>
      32 + ((if is_dynamic t' then 32 else static_size t')
            + (if is_dynamic t' then static_size t' + dynamic_size_bound t' else 0)) * b
  | TSArr t' n => n * (if is_dynamic t' then static_size t' + dynamic_size_bound t' else 0)
  | TTuple ts => zsum (map (fun t' => if is_dynamic t' then static_size t' + dynamic_size_bound t' else 0) ts)
  | _ => 0
  end.
Definition size_bound (t : ty) : Z := static_size t + dynamic_size_bound t.
Definition emb_dynamic_bound (t : ty) : Z := if is_dynamic t then size_bound t else 0.

(* ---------- well-formed types, well-typed values ---------- *)
Fixpoint wf_ty (t : ty) : bool :=
  match t with
  | TUInt b | TInt b => (8 <=? b) && (b <=? 256) && (b mod 8 =? 0)
  | TBytesM m => (1 <=? m) && (m <=? 32)
  | TFlag m => (1 <=? m) && (m <=? 256)
  | TBytes b | TString b => 0 <=? b
  | TSArr t' n => (1 <=? n) && wf_ty t'
  | TDArr t' b => (0 <=? b) && (b <? W256) && wf_ty t'   (* vyper bounds are < 2^256 *)
  | TTuple ts => forallb wf_ty ts
  | _ => true
  end.

Definition byteb (b : Z) : bool := (0 <=? b) && (b <? 256).

Fixpoint zip_all {A} (fs : list (A -> bool)) (vs : list A) : bool :=
  match fs, vs with
  | [], [] => true
  | f :: fs', v :: vs' => f v && zip_all fs' vs'
  | _, _ => false
  end.

Definition int_lo (t : ty) : Z :=
  match t with TInt b => - 2 ^ (b - 1) | TDecimal => - 2 ^ 167 | _ => 0 end.
Definition int_hi (t : ty) : Z :=     (* exclusive *)
  match t with
  | TUInt b => 2 ^ b | TInt b => 2 ^ (b - 1) | TBool => 2 | TAddress => 2 ^ 160
  | TDecimal => 2 ^ 167 | TFlag m => 2 ^ m | _ => 0
  end.

Fixpoint in_type (t : ty) : val -> bool := fun v =>
  match t with
  | TUInt _ | TInt _ | TBool | TAddress | TDecimal | TFlag _ =>
      match v with VInt z => (int_lo t <=? z) && (z <? int_hi t) | _ => false end
  | TBytesM m => match v with VBytes bs => (zlen bs =? m) && forallb byteb bs | _ => false end
  | TBytes b | TString b => match v with VBytes bs => (zlen bs <=? b) && forallb byteb bs | _ => false end
  | TSArr t' n => match v with VList vs => (zlen vs =? n) && forallb (in_type t') vs | _ => false end
  | TDArr t' b => match v with VList vs => (zlen vs <=? b) && forallb (in_type t') vs | _ => false end
  | TTuple ts => match v with VList vs => zip_all (map in_type ts) vs | _ => false end
  end.

(* ---------- canonical encoder ---------- *)
(* a sequence of components (is_dynamic, encoding): heads then tails.
   [off] = offset (relative to the start of the sequence) where the next tail goes. *)
Fixpoint heads (parts : list (bool * list Z)) (off : Z) : list Z :=
  match parts with
  | [] => []
  | (true, e) :: r => word off ++ heads r (off + zlen e)
  | (false, e) :: r => e ++ heads r off
  end.
Fixpoint tails (parts : list (bool * list Z)) : list Z :=
  match parts with
  | [] => []
  | (true, e) :: r => e ++ tails r
  | (false, _) :: r => tails r
  end.
Fixpoint head_len (parts : list (bool * list Z)) : Z :=
  match parts with
  | [] => 0
  | (true, _) :: r => 32 + head_len r
  | (false, e) :: r => zlen e + head_len r
  end.
Definition enc_seq (parts : list (bool * list Z)) : list Z :=
  heads parts (head_len parts) ++ tails parts.

Fixpoint zip_apply {A B} (fs : list (bool * (A -> B))) (vs : list A) : list (bool * B) :=
  match fs, vs with
  | (d, f) :: fs', v :: vs' => (d, f v) :: zip_apply fs' vs'
  | _, _ => []
  end.

Fixpoint enc (t : ty) : val -> list Z := fun v =>
  match t with
  | TUInt _ | TInt _ | TBool | TAddress | TDecimal | TFlag _ =>
      match v with VInt z => word z | _ => [] end     (* two's complement = sign extension *)
  | TBytesM _ => match v with VBytes bs => bs ++ zeros (32 - zlen bs) | _ => [] end
  | TBytes _ | TString _ =>
      match v with VBytes bs => word (zlen bs) ++ bs ++ zeros (pad32 (zlen bs)) | _ => [] end
  | TSArr t' _ =>
      match v with VList vs => enc_seq (map (fun x => (is_dynamic t', enc t' x)) vs) | _ => [] end
  | TDArr t' _ =>
      match v with
      | VList vs => word (zlen vs) ++ enc_seq (map (fun x => (is_dynamic t', enc t' x)) vs)
      | _ => [] end
  | TTuple ts =>
      match v with VList vs => enc_seq (zip_apply (map (fun t' => (is_dynamic t', enc t')) ts) vs) | _ => [] end
  end.

(* ---------- offset-following decoder ---------- *)
(* [slice bs p n]: n bytes starting at p, zero beyond the end (calldata semantics) *)
Definition slice (bs : list Z) (p n : Z) : list Z :=
  if zlen bs <=? p then zeros n      (* entirely past the end (also keeps huge positions computable) *)
  else let s := firstn (Z.to_nat n) (skipn (Z.to_nat p) bs) in
       s ++ zeros (n - zlen s).
Definition rd (bs : list Z) (p : Z) : Z := unbe (slice bs p 32).
Definition to_signed256 (w : Z) : Z := if w <? 2 ^ 255 then w else w - W256.

Definition dec_t := list Z -> Z -> option val.

(* The decoders are parametric in the pointer addition [padd]:
     Z.add                 unbounded positions (specification decoder [dec_at])
     wadd = + mod 2^256    EVM pointer arithmetic ([dec_follow], what compiled code computes on calldata) *)
Definition wadd (a b : Z) : Z := (a + b) mod W256.

(* children of a complex value whose body starts at [loc]; [ho] = head offset of next child *)
Fixpoint run_seq_g (padd : Z -> Z -> Z) (ds : list (bool * Z * dec_t)) (bs : list Z) (loc ho : Z)
  : option (list val) :=
  match ds with
  | [] => Some []
  | (dyn, hs, d) :: r =>
      match (if dyn : bool then d bs (padd loc (rd bs (padd loc ho))) else d bs (padd loc ho)) with
      | Some v => match run_seq_g padd r bs loc (ho + hs) with Some vs => Some (v :: vs) | None => None end
      | None => None
      end
  end.

Definition opt_list (o : option (list val)) : option val :=
  match o with Some vs => Some (VList vs) | None => None end.

(* [dec_at_g padd t bs loc]: decode type t whose encoding starts at loc *)
Fixpoint dec_at_g (padd : Z -> Z -> Z) (t : ty) : dec_t := fun bs loc =>
  match t with
  | TUInt _ | TBool | TAddress | TFlag _ =>
      let w := rd bs loc in if w <? int_hi t then Some (VInt w) else None
  | TInt _ | TDecimal =>
      let s := to_signed256 (rd bs loc) in
      if (int_lo t <=? s) && (s <? int_hi t) then Some (VInt s) else None
  | TBytesM m =>
      let raw := slice bs loc 32 in
      if forallb (Z.eqb 0) (skipn (Z.to_nat m) raw) then Some (VBytes (firstn (Z.to_nat m) raw)) else None
  | TBytes b | TString b =>
      let n := rd bs loc in
      if n <=? b then Some (VBytes (slice bs (padd loc 32) n)) else None
  | TSArr t' n =>
      opt_list (run_seq_g padd (repeat (is_dynamic t', emb_static t', dec_at_g padd t') (Z.to_nat n)) bs loc 0)
  | TDArr t' b =>
      let n := rd bs loc in
      if n <=? b then
        opt_list (run_seq_g padd (repeat (is_dynamic t', emb_static t', dec_at_g padd t') (Z.to_nat n)) bs (padd loc 32) 0)
      else None
  | TTuple ts =>
      opt_list (run_seq_g padd (map (fun t' => (is_dynamic t', emb_static t', dec_at_g padd t')) ts) bs loc 0)
  end.

Definition dec_at : ty -> dec_t := dec_at_g Z.add.
(* decoding "following the offsets as given" with EVM arithmetic and zero-extended reads *)
Definition dec_follow : ty -> dec_t := dec_at_g wadd.

(* ---------- strict decoder: follow offsets, accept only the canonical encoding ---------- *)
Fixpoint list_eqb (a b : list Z) : bool :=
  match a, b with
  | [], [] => true
  | x :: a', y :: b' => (x =? y) && list_eqb a' b'
  | _, _ => false
  end.

Definition dec (t : ty) (bs : list Z) : option val :=
  match dec_at t bs 0 with
  | Some v => if in_type t v && list_eqb (enc t v) bs then Some v else None
  | None => None
  end.

(* ---------- printing (harness only) ---------- *)
Definition hexdigit (n : Z) : ascii :=
  match n with
  | 0 => "0" | 1 => "1" | 2 => "2" | 3 => "3" | 4 => "4" | 5 => "5" | 6 => "6" | 7 => "7"
  | 8 => "8" | 9 => "9" | 10 => "a" | 11 => "b" | 12 => "c" | 13 => "d" | 14 => "e" | _ => "f"
  end%char.
Fixpoint hex_of_bytes (l : list Z) : string :=
  match l with
  | [] => EmptyString
  | b :: r => String (hexdigit (b / 16)) (String (hexdigit (b mod 16)) (hex_of_bytes r))
  end.
Definition b2s (b : bool) : string := if b then "T"%string else "F"%string.
