(* C06 extension (session 3) property theorems: encoders whose SOURCE is storage or calldata (read word by word),
   and the word copy loops (legacy copy_bytes loop / unrolled setters, Venom _word_copy_loop, copy_to_memory).
   Size statements are about g_size_bound = the function regenerated from vyper/abi_types.py in this run. *)
From Coq Require Import ZArith List Bool Lia.
From Verif Require Import C06.Abi C06.AbiLemmas C06.ZeroPad C06.Venc C06.VencProofs C06.GenAbiSizes C06.SizesTie.
From Verif Require Import C06.Sexp C06.SxEval C06.XEval C06.SrcEnc C06.SrcEncProofs.
Import ListNotations.
Open Scope Z_scope.

(* The legacy encoder reading a word-addressed, read-only source S (ld = sload with 1 address unit per word, or
   calldataload with 32): for EVERY prior memory m, every destination dst, every type and every in-type value v of
   which the location holds a layout at p (lengths and data as stored; ALL slack positions -- the bytes after a byte
   string's data in its last word and beyond, array elements past the length -- arbitrary): the returned length is
   |enc t v|, the bytes at dst are enc t v byte for byte (zero right-padding included), and nothing outside
   [dst, dst + size_bound t) changes. *)
Theorem enc_from_word_source_canonical : forall S t v p (m : mem) dst,
  wf_ty t = true -> in_type t v = true -> holds S t v p ->
  let r := wenc S t p m dst in
  snd r = zlen (enc t v) /\ mreadz (fst r) dst (snd r) = enc t v /\
  (forall a, a < dst \/ dst + g_size_bound t <= a -> fst r a = m a).
Proof. intros S t v p m dst Hw Hi Hh. rewrite g_size_bound_eq. exact (wenc_correct S t v p m dst Hw Hi Hh). Qed.
Print Assumptions enc_from_word_source_canonical.

(* the two locations *)
Theorem enc_from_storage_canonical : forall (sto : Z -> Z) t v slot (m : mem) dst,
  wf_ty t = true -> in_type t v = true -> holds (src_sto sto) t v slot ->
  mreadz (fst (wenc (src_sto sto) t slot m dst)) dst (snd (wenc (src_sto sto) t slot m dst)) = enc t v.
Proof. intros sto t v slot m dst Hw Hi Hh. exact (proj1 (proj2 (wenc_correct (src_sto sto) t v slot m dst Hw Hi Hh))). Qed.
Theorem enc_from_calldata_canonical : forall (cd : mem) t v ofs (m : mem) dst,
  wf_ty t = true -> in_type t v = true -> holds (src_cd cd) t v ofs ->
  mreadz (fst (wenc (src_cd cd) t ofs m dst)) dst (snd (wenc (src_cd cd) t ofs m dst)) = enc t v.
Proof. intros cd t v ofs m dst Hw Hi Hh. exact (proj1 (proj2 (wenc_correct (src_cd cd) t v ofs m dst Hw Hi Hh))). Qed.
Print Assumptions enc_from_storage_canonical.
Print Assumptions enc_from_calldata_canonical.

(* word copy loops: k iterations of  mstore (dst + 32 i) (LOAD (p + ws i))  are ONE write of the k source words;
   reading the destination back gives exactly those words, nothing else changes (Venom load_storage_to_memory /
   copy_to_memory, legacy copy_bytes loop and unrolled static setters) *)
Theorem word_copy_loop_spec : forall S k p (m : mem) dst a,
  copy_words S k p m dst a = mwrite m dst (srcbytes S p k) a.
Proof. exact copy_words_spec. Qed.
Theorem word_copy_loop_readback : forall S k p (m : mem) dst,
  mreadz (copy_words S k p m dst) dst (32 * Z.of_nat k) = srcbytes S p k /\
  (forall a, a < dst \/ dst + 32 * Z.of_nat k <= a -> copy_words S k p m dst a = m a).
Proof. exact copy_words_readback. Qed.
Print Assumptions word_copy_loop_spec.
Print Assumptions word_copy_loop_readback.

(* non-vacuity: a storage holding (int8 -1, Bytes[40] of 3 bytes with DIRTY slack, String[5], uint256[] of 1 of 2) *)
Definition T_x := TTuple [TInt 8; TBytes 40; TString 5; TDArr (TUInt 256) 2; TSArr (TUInt 8) 2].
Definition V_x := VList [VInt (-1); VBytes [1; 2; 3]; VBytes [104; 105]; VList [VInt 7]; VList [VInt 1; VInt 2]].
Definition sto_x : Z -> Z := sto_of (vylayout 238 T_x V_x) SLOT0.
Example holds_nonvacuous :
  wf_ty T_x = true /\ in_type T_x V_x = true /\ holds (src_sto sto_x) T_x V_x SLOT0 /\
  sto_x (SLOT0 + 2) mod 256 = 238 /\        (* the slack of the stored byte string is dirty *)
  list_eqb (mreadz (fst (wenc (src_sto sto_x) T_x SLOT0 (fun _ => 171) 4096)) 4096 (zlen (enc T_x V_x))) (enc T_x V_x) = true.
Proof.
  split; [reflexivity|]. split; [reflexivity|]. split.
  - vm_compute. repeat split; try reflexivity; eexists; reflexivity.
  - split; vm_compute; reflexivity.
Qed.
