(* C06 extension (session 3) property theorems: encoders whose SOURCE is storage or calldata (read word by word),
   and the word copy loops (legacy copy_bytes loop / unrolled setters, Venom _word_copy_loop, copy_to_memory).
   Size statements are about g_size_bound = the function regenerated from vyper/abi_types.py in this run. *)
From Coq Require Import ZArith List Bool Lia.
From Verif Require Import C06.Abi C06.AbiLemmas C06.ZeroPad C06.Venc C06.VencProofs C06.GenAbiSizes C06.SizesTie.
From Verif Require Import C06.Sexp C06.SxEval C06.XEval C06.SrcEnc C06.SrcEncProofs C06.SrcHolds C06.Widen C06.WidenProofs C06.PreCopy C06.TplEncL C06.TplEncX C06.LeafSem.
From Coq Require Import String.
From Verif Require Import Base.Word256.
Import ListNotations.
Open Scope Z_scope.

(* The legacy encoder reading a word-addressed, read-only source S (ld = sload with 1 address unit per word, or
   calldataload with 32): for EVERY prior memory m, every destination dst, every type and every in-type value v of
   which the location holds a layout at p (lengths and data as stored; ALL slack positions -- the bytes after a byte
   string's data in its last word and beyond, array elements past the length -- arbitrary): the returned length is
   |enc t v|, the bytes at dst are enc t v byte for byte (zero right-padding included), and nothing outside
   [dst, dst + size_bound t) changes. *)
Theorem enc_from_word_source_canonical : forall S t v p (m : mem) dst,
  wf_ty t = true -> in_type t v = true -> holds S t v p ->
  let r := wenc S t p m dst in
  snd r = zlen (enc t v) /\ mreadz (fst r) dst (snd r) = enc t v /\
  (forall a, a < dst \/ dst + g_size_bound t <= a -> fst r a = m a).
Proof. intros S t v p m dst Hw Hi Hh. rewrite g_size_bound_eq. exact (wenc_correct S t v p m dst Hw Hi Hh). Qed.
Print Assumptions enc_from_word_source_canonical.

(* the two locations *)
Theorem enc_from_storage_canonical : forall (sto : Z -> Z) t v slot (m : mem) dst,
  wf_ty t = true -> in_type t v = true -> holds (src_sto sto) t v slot ->
  mreadz (fst (wenc (src_sto sto) t slot m dst)) dst (snd (wenc (src_sto sto) t slot m dst)) = enc t v.
Proof. intros sto t v slot m dst Hw Hi Hh. exact (proj1 (proj2 (wenc_correct (src_sto sto) t v slot m dst Hw Hi Hh))). Qed.
Theorem enc_from_calldata_canonical : forall (cd : mem) t v ofs (m : mem) dst,
  wf_ty t = true -> in_type t v = true -> holds (src_cd cd) t v ofs ->
  mreadz (fst (wenc (src_cd cd) t ofs m dst)) dst (snd (wenc (src_cd cd) t ofs m dst)) = enc t v.
Proof. intros cd t v ofs m dst Hw Hi Hh. exact (proj1 (proj2 (wenc_correct (src_cd cd) t v ofs m dst Hw Hi Hh))). Qed.
Print Assumptions enc_from_storage_canonical.
Print Assumptions enc_from_calldata_canonical.

(* the premise [holds] is decidable: the check evaluates holdsb on every sampled storage / calldata image *)
Theorem holds_decidable_sound : forall S t v p, holdsb S t v p = true -> holds S t v p.
Proof. exact holdsb_sound. Qed.
Print Assumptions holds_decidable_sound.

(* word copy loops: k iterations of  mstore (dst + 32 i) (LOAD (p + ws i))  are ONE write of the k source words;
   reading the destination back gives exactly those words, nothing else changes (Venom load_storage_to_memory /
   copy_to_memory, legacy copy_bytes loop and unrolled static setters) *)
Theorem word_copy_loop_spec : forall S k p (m : mem) dst a,
  copy_words S k p m dst a = mwrite m dst (srcbytes S p k) a.
Proof. exact copy_words_spec. Qed.
Theorem word_copy_loop_readback : forall S k p (m : mem) dst,
  mreadz (copy_words S k p m dst) dst (32 * Z.of_nat k) = srcbytes S p k /\
  (forall a, a < dst \/ dst + 32 * Z.of_nat k <= a -> copy_words S k p m dst a = m a).
Proof. exact copy_words_readback. Qed.
Print Assumptions word_copy_loop_spec.
Print Assumptions word_copy_loop_readback.

(* pre-cancun copy paths = MCOPY: the identity precompile call the generators emit (same length in and out), and the
   unrolled  mstore (dst + 32 i) (mload (src + 32 i))  sequence reading the CURRENT memory, for non-overlapping regions *)
Theorem precancun_identity_is_mcopy : forall (m : mem) src dst n a, identity_call m src n dst n a = mcopy m dst src n a.
Proof. exact identity_is_mcopy. Qed.
Theorem precancun_unrolled_is_mcopy : forall k src (m : mem) dst a, mem_ok m ->
  src + 32 * Z.of_nat k <= dst \/ dst + 32 * Z.of_nat k <= src ->
  mcopy_words k src m dst a = mcopy m dst src (32 * Z.of_nat k) a.
Proof. exact unrolled_is_mcopy. Qed.
Print Assumptions precancun_identity_is_mcopy.
Print Assumptions precancun_unrolled_is_mcopy.
Example precopy_nonvacuous :
  let m : mem := fun a => a mod 256 in
  mem_ok m /\ list_eqb (mread (mcopy_words 3 64 m 1000) 1000 96) (mread m 64 96) = true.
Proof. split. intro a. cbn beta. lia. vm_compute. reflexivity. Qed.

(* non-vacuity: a storage holding (int8 -1, Bytes[40] of 3 bytes with DIRTY slack, String[5], uint256[] of 1 of 2) *)
Definition T_x := TTuple [TInt 8; TBytes 40; TString 5; TDArr (TUInt 256) 2; TSArr (TUInt 8) 2].
Definition V_x := VList [VInt (-1); VBytes [1; 2; 3]; VBytes [104; 105]; VList [VInt 7]; VList [VInt 1; VInt 2]].
Definition sto_x : Z -> Z := sto_of (vylayout 238 T_x V_x) SLOT0.
Example holds_nonvacuous :
  wf_ty T_x = true /\ in_type T_x V_x = true /\ holds (src_sto sto_x) T_x V_x SLOT0 /\
  premise_sto T_x V_x = 1 /\ sto_x (SLOT0 + 2) mod 256 = 238 /\        (* the slack of the stored byte string is dirty *)
  list_eqb (mreadz (fst (wenc (src_sto sto_x) T_x SLOT0 (fun _ => 171) 4096)) 4096 (zlen (enc T_x V_x))) (enc T_x V_x) = true.
Proof.
  split; [reflexivity|]. split; [reflexivity|]. split.
  - vm_compute. repeat split; try reflexivity; eexists; reflexivity.
  - split; [|split]; vm_compute; reflexivity.
Qed.

(* ---- template generator = structural model, PROVED (not only executed) for the padding-critical leaf: a byte
   string read from storage.  For every bound b >= 1 the IR that the Coq template generator tpl_enc_l_sto produces
   for Bytes[b] / String[b] (tied syntactically to the real abi_encode output by TieEncX.tie_enc_l_sto), run by the
   evaluator XEval.evx with any fuel >= 12, returns the model's length and leaves the model's memory ... ---- *)
Theorem sto_bytestring_template_is_model_small : forall b (sto : Z -> Z) (cd : mem) p d (m : mem),
  1 <= b <= 32 -> 0 <= d -> d + 160 <= MEMLIM -> 0 <= p -> p + 1 < W -> 0 <= sto p <= b ->
  (forall a, MEMLIM <= a -> cd a = 0) ->
  forall t, t = TBytes b \/ t = TString b ->
  exists v m', (forall fu, (12 <= fu)%nat ->
                  evx (mkX sto cd) fu (tpl_enc_l_sto t) (mkSt (E0 p d) m) = RVal (v, mkSt (E0 p d) m')) /\
     v = snd (wenc (src_sto sto) t p m d) /\ forall a, m' a = fst (wenc (src_sto sto) t p m d) a.
Proof. exact sto_bytes_small_template_is_model. Qed.
Theorem sto_bytestring_template_is_model_big : forall b (sto : Z -> Z) (cd : mem) p d (m : mem),
  32 < b -> 0 <= sto p <= b -> 0 <= d -> d + ceil32 b + 160 <= MEMLIM -> 0 <= p -> p + b < W ->
  (forall a, MEMLIM <= a -> cd a = 0) ->
  forall t, t = TBytes b \/ t = TString b ->
  exists v m', (forall fu, (12 <= fu)%nat ->
                  evx (mkX sto cd) fu (tpl_enc_l_sto t) (mkSt (E0 p d) m) = RVal (v, mkSt (E0 p d) m')) /\
     v = snd (wenc (src_sto sto) t p m d) /\ forall a, m' a = fst (wenc (src_sto sto) t p m d) a.
Proof. exact sto_bytes_big_template_is_model. Qed.
(* ... hence, end to end: the evaluated template returns |enc| and leaves enc at dst, touching nothing outside
   [dst, dst + size_bound), for every stored byte string, every prior memory, every slack content of the storage *)
Theorem sto_bytestring_template_canonical : forall b (sto : Z -> Z) (cd : mem) p d (m : mem) data t,
  1 <= b -> t = TBytes b \/ t = TString b ->
  in_type t (VBytes data) = true -> holds (src_sto sto) t (VBytes data) p -> 0 <= sto p < W256 ->
  0 <= d -> d + ceil32 b + 160 <= MEMLIM -> 0 <= p -> p + b < W ->
  (forall a, MEMLIM <= a -> cd a = 0) ->
  exists m', (forall fu, (12 <= fu)%nat ->
                evx (mkX sto cd) fu (tpl_enc_l_sto t) (mkSt (E0 p d) m) =
                RVal (zlen (enc t (VBytes data)), mkSt (E0 p d) m')) /\
             mreadz m' d (zlen (enc t (VBytes data))) = enc t (VBytes data) /\
             (forall a, a < d \/ d + size_bound t <= a -> m' a = m a).
Proof. exact sto_bytes_template_canonical. Qed.
Print Assumptions sto_bytestring_template_is_model_small.
Print Assumptions sto_bytestring_template_is_model_big.
Print Assumptions sto_bytestring_template_canonical.

Definition sto_b : Z -> Z := sto_of (vylayout 238 (TBytes 40) (VBytes [1; 2; 3])) SLOT0.
Example leaf_nonvacuous :
  in_type (TBytes 40) (VBytes [1; 2; 3]) = true /\ holds (src_sto sto_b) (TBytes 40) (VBytes [1; 2; 3]) SLOT0 /\
  sto_b SLOT0 = 3 /\ 4096 + ceil32 40 + 160 <= MEMLIM /\ SLOT0 + 40 < W /\
  match evx (mkX sto_b (fun _ => 0)) 50 (tpl_enc_l_sto (TBytes 40)) (mkSt (E0 SLOT0 4096) (fun _ => 171)) with
  | RVal (v, s) => (v =? 64) && list_eqb (mread (s_mem s) 4096 64) (enc (TBytes 40) (VBytes [1; 2; 3]))
  | _ => false end = true.
Proof.
  split; [reflexivity|]. split.
  - vm_compute. split; [reflexivity|]. eexists; reflexivity.
  - split; [vm_compute; reflexivity|]. split; [vm_compute; discriminate|]. split; [vm_compute; reflexivity|].
    vm_compute. reflexivity.
Qed.
