(* C06 structural models of the two ABI encoders, writing into ARBITRARY prior memory.
     legacy  vyper/codegen/abi_encoder.py       abi_encode / _encode_child_helper / _encode_dyn_array_helper
     venom   vyper/codegen_venom/abi/abi_encoder.py  _abi_encode_to_buf / _encode_child / _encode_dyn_array
   Both share the shape below and differ in the strategy record:
     head_first   legacy writes the offset word of a dynamic child BEFORE encoding its tail, venom AFTER;
     wbytes       legacy: copy (length word ++ data ++ possibly MORE source bytes, up to the type bound), then
                  zero_pad;  venom: zero the last word first, then copy exactly 32+len bytes.
   The source value is abstract (a [val]); static types are written wholesale (both generators copy the
   in-memory representation, which is the ABI encoding for static types: make_setter / copy_memory).
   No proofs in this file. *)
From Coq Require Import ZArith List Bool.
From Verif Require Import C06.Abi C06.ZeroPad.
Import ListNotations.
Open Scope Z_scope.

Definition mstore (m : mem) (a w : Z) : mem := mwrite m a (word w).
Definition mreadz (m : mem) (p n : Z) : list Z := mread m p (Z.to_nat n).

Definition enc_t := mem -> Z -> mem * Z.       (* memory, destination -> memory', encoded length *)

Record strat := mkStrat {
  head_first : bool;
  wbytes : mem -> Z -> list Z -> Z -> mem      (* memory, dst, data, type bound -> memory' *)
}.

(* one child of a complex value whose body starts at [dst]: [so] static offset, [dofs] current dynamic offset *)
Definition venc_child (hf dyn : bool) (f : enc_t) (m : mem) (dst so dofs : Z) : mem * Z :=
  if dyn then
    if hf then let m1 := mstore m (dst + so) dofs in
               let r := f m1 (dst + dofs) in (fst r, dofs + snd r)
    else let r := f m (dst + dofs) in (mstore (fst r) (dst + so) dofs, dofs + snd r)
  else (fst (f m (dst + so)), dofs).

Fixpoint venc_seq (hf : bool) (cs : list (bool * Z * enc_t)) (m : mem) (dst so dofs : Z) : mem * Z :=
  match cs with
  | [] => (m, dofs)
  | (dyn, hs, f) :: r =>
      let s := venc_child hf dyn f m dst so dofs in
      venc_seq hf r (fst s) dst (so + hs) (snd s)
  end.

Fixpoint zip_enc (fs : list (bool * Z * (val -> enc_t))) (vs : list val) : list (bool * Z * enc_t) :=
  match fs, vs with
  | (d, h, f) :: fs', v :: vs' => (d, h, f v) :: zip_enc fs' vs'
  | _, _ => []
  end.

Fixpoint venc (S : strat) (t : ty) : val -> enc_t := fun v m dst =>
  if negb (is_dynamic t) then (mwrite m dst (enc t v), static_size t)     (* fast path *)
  else
    match t with
    | TBytes b | TString b =>
        match v with
        | VBytes data => (wbytes S m dst data b, 32 + ceil32 (zlen data))
        | _ => (m, 0) end
    | TDArr t' _ =>
        match v with
        | VList vs =>
            let n := zlen vs in
            let m1 := mstore m dst n in
            let r := venc_seq (head_first S) (map (fun x => (is_dynamic t', emb_static t', venc S t' x)) vs)
                              m1 (dst + 32) 0 (n * emb_static t') in
            (fst r, 32 + snd r)
        | _ => (m, 0) end
    | TSArr t' _ =>
        match v with
        | VList vs =>
            venc_seq (head_first S) (map (fun x => (is_dynamic t', emb_static t', venc S t' x)) vs)
                     m dst 0 (static_size t)
        | _ => (m, 0) end
    | TTuple ts =>
        match v with
        | VList vs =>
            venc_seq (head_first S)
                     (zip_enc (map (fun t' => (is_dynamic t', emb_static t', venc S t')) ts) vs)
                     m dst 0 (static_size t)
        | _ => (m, 0) end
    | _ => (m, 0)
    end.

(* ---------- the two strategies ---------- *)
(* legacy: [J dst] = whatever source bytes follow the data when the copier rounds up / copies the maximum;
   at most up to the type bound.  Quantified universally in the theorems. *)
Definition wbytes_legacy (J : Z -> list Z) (m : mem) (dst : Z) (data : list Z) (b : Z) : mem :=
  let len := zlen data in
  let junk := firstn (Z.to_nat (ceil32 b - len)) (J dst) in
  mzero (mwrite m dst (word len ++ data ++ junk)) (dst + 32 + len) (pad32 len).
Definition legacy (J : Z -> list Z) : strat := mkStrat true (wbytes_legacy J).

Definition wbytes_venom (m : mem) (dst : Z) (data : list Z) (b : Z) : mem :=
  let len := zlen data in
  mwrite (mzero m (dst + ceil32 len) 32) dst (word len ++ data).
Definition venom : strat := mkStrat false wbytes_venom.

Definition venc_l (J : Z -> list Z) := venc (legacy J).
Definition venc_v := venc venom.

(* harness: memory filled with a pattern, read back *)
Definition dirty (pat : Z) : mem := fun _ => pat.
Definition run_enc (f : enc_t) (pat dst : Z) : list Z := let r := f (dirty pat) dst in mreadz (fst r) dst (snd r).
