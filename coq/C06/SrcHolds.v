(* C06 extension (session 3): a DECIDABLE form of SrcEnc.holds, proved sound.  The check evaluates [holdsb] on every
   sampled (storage / calldata image, type, value), so the premise of PropsC06X.enc_from_word_source_canonical is
   established by computation for each executed case; no separate trust in the harness' layout builder is needed. *)
From Coq Require Import ZArith List Bool Lia ZifyBool.
From Verif Require Import C06.Abi C06.AbiLemmas C06.Roundtrip C06.ZeroPad C06.Venc C06.SxEval C06.SrcEnc.
Import ListNotations.
Open Scope Z_scope.

Fixpoint holdsb_list (h : val -> Z -> bool) (vs : list val) (p stride : Z) : bool :=
  match vs with [] => true | x :: r => h x p && holdsb_list h r (p + stride) stride end.

Fixpoint holdsb (S : wsrc) (t : ty) (v : val) (p : Z) : bool :=
  if negb (is_dynamic t) then list_eqb (srcbytes S p (Z.to_nat (static_size t / 32))) (enc t v)
  else
    match t, v with
    | TBytes b, VBytes data | TString b, VBytes data =>
        (ld S p =? zlen data) &&
        list_eqb (firstn (length data) (srcbytes S (p + ws S) (Z.to_nat (ceil32 b / 32)))) data
    | TDArr t' _, VList vs => (ld S p =? zlen vs) && holdsb_list (holdsb S t') vs (p + ws S) (sz S t')
    | TSArr t' _, VList vs => holdsb_list (holdsb S t') vs p (sz S t')
    | TTuple ts, VList vs =>
        (fix go (ts : list ty) (vs : list val) (p : Z) : bool :=
           match ts, vs with
           | [], [] => true
           | t' :: r, x :: xs => holdsb S t' x p && go r xs (p + sz S t')
           | _, _ => false
           end) ts vs p
    | _, _ => false
    end.

Section Sound.
Variable S : wsrc. (*section*)

Definition HB (t : ty) : Prop := forall v p, holdsb S t v p = true -> holds S t v p.

Lemma hb_static t : is_dynamic t = false -> HB t.
Proof.
  intros Hd v p H.
  assert (E : holdsb S t v p = list_eqb (srcbytes S p (Z.to_nat (static_size t / 32))) (enc t v))
    by (destruct t; cbn [holdsb]; rewrite Hd; reflexivity).
  rewrite E in H. apply list_eqb_eq in H.
  destruct t; cbn [holds]; rewrite Hd; exact H.
Qed.

Lemma hb_list t : HB t -> forall vs p stride,
  holdsb_list (holdsb S t) vs p stride = true -> holds_list (holds S t) vs p stride.
Proof.
  intros IH vs. induction vs as [|v vs IHvs]; intros p stride H; cbn [holdsb_list holds_list] in *. exact I.
  apply andb_prop in H as [H1 H2]. split; [apply IH; exact H1 | apply IHvs; exact H2].
Qed.

Lemma hb_bytes (b : Z) data p :
  (ld S p =? zlen data) && list_eqb (firstn (length data) (srcbytes S (p + ws S) (Z.to_nat (ceil32 b / 32)))) data = true ->
  ld S p = zlen data /\ exists junk, srcbytes S (p + ws S) (Z.to_nat (ceil32 b / 32)) = data ++ junk.
Proof.
  intro H. apply andb_prop in H as [H1 H2]. apply list_eqb_eq in H2. split; [lia|].
  remember (srcbytes S (p + ws S) (Z.to_nat (ceil32 b / 32))) as src.
  exists (skipn (length data) src).
  rewrite <- (firstn_skipn (length data) src) at 1. now rewrite H2.
Qed.

Theorem holdsb_sound : forall t, HB t.
Proof.
  induction t using ty_ind'; try (apply hb_static; reflexivity).
  - intros v p H. destruct v as [|data|]; cbn [holdsb holds is_dynamic negb] in *; try discriminate. now apply hb_bytes.
  - intros v p H. destruct v as [|data|]; cbn [holdsb holds is_dynamic negb] in *; try discriminate. now apply hb_bytes.
  - destruct (is_dynamic (TSArr t n)) eqn:Hd; [|now apply hb_static].
    intros v p H. destruct v as [| |vs]; cbn [holdsb holds] in *; rewrite Hd in *; cbn [negb] in *; try discriminate.
    now apply hb_list.
  - intros v p H. destruct v as [| |vs]; cbn [holdsb holds is_dynamic negb] in *; try discriminate.
    apply andb_prop in H as [H1 H2]. split; [lia|]. now apply hb_list.
  - destruct (is_dynamic (TTuple ts)) eqn:Hd; [|now apply hb_static].
    intros v p Hb. destruct v as [| |vs]; cbn [holdsb holds] in *; rewrite Hd in *; cbn [negb] in *; try discriminate.
    clear Hd. revert vs p Hb. induction H as [|t ts Ht HF IH]; intros vs p Hb; destruct vs as [|v vs]; try discriminate; auto.
    apply andb_prop in Hb as [H1 H2]. split; [apply Ht; exact H1 | apply IH; exact H2].
Qed.
End Sound.

(* harness: 1 = the sampled storage / calldata image satisfies the premises of enc_from_word_source_canonical *)
From Verif Require Import C06.XEval.
Definition premise_sto (t : ty) (v : val) : Z :=
  if holdsb (src_sto (sto_of (vylayout 238 t v) SLOT0)) t v SLOT0 && wf_ty t && in_type t v then 1 else 0.
Definition premise_cd (t : ty) (v : val) : Z :=
  if holdsb (src_cd (cd_of (vylayout 238 t v))) t v 4 && wf_ty t && in_type t v then 1 else 0.
