(* C06: parametric model of the VENOM layout normalisation as a TEMPLATE GENERATOR: the Venom body that
   codegen_venom/context.py:store_memory(val=%1, ptr=%2, typ=td, src_typ=ts) emits for a narrower source type ts and a
   wider declared type td (EVM >= cancun).  Tied syntactically to the real generator in TieNorm.v; its semantics is
   the model Widen.norm / store_memory (theorem widen_normalises). *)
From Coq Require Import ZArith List Bool String Ascii.
From Verif Require Import C06.Abi C06.Sexp C06.TplEncL C06.TplEncV C06.SxEval C06.Widen.
Import ListNotations.
Open Scope string_scope.
Open Scope list_scope.
Open Scope Z_scope.

Definition push_to (l : string) (i : sx) : M unit := fun s =>
  (tt, mkB (nv s) (nl s) (map (fun b => if String.eqb (fst b) l then (fst b, snd b ++ [i]) else b) (blocks s)) (cur s)).
Definition with_ofs (base : sx) (o : Z) : M sx := if o =? 0 then ret base else b_add base (SI o).
Definition vsz := SxEval.vmem_size.

(* store_memory for a byte string: copy length word + ceil32(length) bytes *)
Definition store_bytes (dst src : sx) : M unit :=
  len <- b_mload src ;; x <- b_add len (SI 31) ;; y <- emit "and" [x; SI MASK31] ;; cl <- b_add y (SI 32) ;;
  b_mcopy dst src cl.

(* loop skeleton shared by the typed SArray / DynArray copies *)
Definition typed_loop (name : string) (length : sx) (ss sd : Z) (src_data dst_data : sx)
           (body : sx -> sx -> M unit) : M unit :=
  cond <- create_block (name ++ "_cond")%string ;; bodyl <- create_block (name ++ "_body")%string ;;
  exit <- create_block (name ++ "_exit")%string ;;
  counter <- emit "assign" [SI 0] ;;
  emit0 "jmp" [lbl cond] ;;;
  append_block cond ;;; set_block cond ;;;
  c <- emit "lt" [counter; length] ;; done <- emit "iszero" [c] ;;
  append_block bodyl ;;; set_block bodyl ;;;
  so <- b_mul counter (SI ss) ;; d_o <- b_mul counter (SI sd) ;;
  sp <- b_add src_data so ;; dp <- b_add dst_data d_o ;;
  body dp sp ;;;
  nc <- b_add counter (SI 1) ;; push (SL [counter; SS "assign"; nc]) ;;; emit0 "jmp" [lbl cond] ;;;
  push_to cond (SL [SS "_"; SS "jnz"; done; lbl exit; lbl bodyl]) ;;;
  append_block exit ;;; set_block exit.

(* _store_memory_typed(dst, dst_typ, src, src_typ) *)
Fixpoint vnorm_tpl (ts td : ty) (dst src : sx) : M unit :=
  match ts, td with
  | TBytes _, _ | TString _, _ => store_bytes dst src
  | TDArr s _, TDArr d bd =>
      length <- b_mload src ;;
      g <- emit "gt" [length; SI bd] ;; z <- emit "iszero" [g] ;; emit0 "assert" [z] ;;;
      b_mstore dst length ;;;
      src_data <- with_ofs src 32 ;; dst_data <- with_ofs dst 32 ;;
      if ty_eqb s d && (vsz s =? vsz d) then
        sz <- b_mul length (SI (vsz d)) ;; b_mcopy dst_data src_data sz
      else
        typed_loop "typed_dyn_copy" length (vsz s) (vsz d) src_data dst_data (fun dp sp => vnorm_tpl s d dp sp)
  | TSArr s n, TSArr d _ =>
      if (vsz s =? vsz d) && negb (is_dynamic td) then b_mcopy dst src (SI (vsz td))
      else typed_loop "typed_sa_copy" (SI n) (vsz s) (vsz d) src dst (fun dp sp => vnorm_tpl s d dp sp)
  | TTuple ss, TTuple ds =>
      (fix go (ss ds : list ty) (so d_o : Z) : M unit :=
         match ss, ds with
         | s :: r, d :: q =>
             dp <- with_ofs dst d_o ;; sp <- with_ofs src so ;;
             vnorm_tpl s d dp sp ;;; go r q (so + vsz s) (d_o + vsz d)
         | _, _ => ret tt
         end) ss ds 0 0
  | _, _ => v <- b_mload src ;; b_mstore dst v
  end.

(* ctx.store_memory(val, ptr, typ, src_typ) for non-word destination types *)
Definition store_memory_tpl (ts td : ty) (dst src : sx) : M unit :=
  match td with
  | TBytes _ | TString _ => store_bytes dst src
  | _ => if ty_eqb ts td then b_mcopy dst src (SI (vsz td)) else vnorm_tpl ts td dst src
  end.

Definition tpl_norm (ts td : ty) : sx :=
  let prog := (src <- emit "param" [] ;; dst <- emit "param" [] ;; store_memory_tpl ts td dst src ;;; emit0 "stop" []) in
  render (snd (prog (mkB 0 0 [("probe", [])] "probe"))).
