(* C06: zero padding of byte strings is canonical whatever the buffer held before.
   Memory = total function from byte address to byte.  Two implementations are modelled:
   legacy  core.zero_pad:  calldatacopy(dst+32+len, calldatasize, (-len) mod 32)      (after the copy)
   venom   _pre_zero_pad:  mstore(dst + ceil32(len), 0) BEFORE copying 32+len bytes. *)
From Coq Require Import ZArith List Bool Lia ZifyBool.
From Verif Require Import C06.Abi C06.AbiLemmas.
Import ListNotations.
Open Scope Z_scope.
Ltac Zify.zify_post_hook ::= Z.to_euclidean_division_equations.

Definition mem := Z -> Z.
Fixpoint mread (m : mem) (p : Z) (n : nat) : list Z :=
  match n with O => [] | S k => m p :: mread m (p + 1) k end.
(* calldatacopy(dst, calldatasize, n): n zero bytes *)
Definition mzero (m : mem) (dst n : Z) : mem := fun a => if (dst <=? a) && (a <? dst + n) then 0 else m a.
Definition mwrite (m : mem) (dst : Z) (l : list Z) : mem :=
  fun a => if (dst <=? a) && (a <? dst + zlen l) then nth (Z.to_nat (a - dst)) l 0 else m a.

Lemma mread_app m p n k : mread m p (n + k) = mread m p n ++ mread m (p + Z.of_nat n) k.
Proof.
  revert p. induction n; intro p; cbn [mread Nat.add app].
  - f_equal. lia.
  - rewrite IHn. do 3 f_equal. lia.
Qed.
Lemma mread_ext m1 m2 p n :
  (forall a, p <= a < p + Z.of_nat n -> m1 a = m2 a) -> mread m1 p n = mread m2 p n.
Proof.
  revert p. induction n; intros p H; cbn [mread]. reflexivity.
  f_equal. apply H; lia. apply IHn. intros a Ha. apply H. lia.
Qed.
Lemma mread_zero m p n : (forall a, p <= a < p + Z.of_nat n -> m a = 0) -> mread m p n = repeat 0 n.
Proof.
  revert p. induction n; intros p H; cbn [mread repeat]. reflexivity.
  f_equal. apply H; lia. apply IHn. intros a Ha. apply H. lia.
Qed.
Lemma mread_mwrite m p l : mread (mwrite m p l) p (length l) = l.
Proof.
  revert m p. induction l as [|x l IH]; intros m p; cbn [mread length]. reflexivity.
  f_equal.
  - unfold mwrite. rewrite zlen_cons. pose proof (zlen_nonneg l).
    replace ((p <=? p) && (p <? p + (1 + zlen l))) with true by lia. now rewrite Z.sub_diag.
  - transitivity (mread (mwrite m (p + 1) l) (p + 1) (length l)); [|apply IH].
    apply mread_ext. intros a Ha. unfold mwrite. rewrite zlen_cons.
    unfold zlen in *.
    replace ((p <=? a) && (a <? p + (1 + Z.of_nat (length l)))) with true by lia.
    replace ((p + 1 <=? a) && (a <? p + 1 + Z.of_nat (length l))) with true by lia.
    replace (Z.to_nat (a - p)) with (S (Z.to_nat (a - (p + 1)))) by lia. reflexivity.
Qed.

(* arithmetic part of the property *)
Theorem zero_pad_arith : forall len, (- len) mod 32 = ceil32 len - len /\ 0 <= (- len) mod 32 < 32 /\
                                     (len + (- len) mod 32) mod 32 = 0.
Proof. intro len. unfold ceil32. lia. Qed.

(* canonical encoding of a byte string of any bounded-bytes type *)
Definition enc_bytes (data : list Z) : list Z := word (zlen data) ++ data ++ zeros (pad32 (zlen data)).
Lemma enc_bytes_is_enc b data : enc (TBytes b) (VBytes data) = enc_bytes data /\ enc (TString b) (VBytes data) = enc_bytes data.
Proof. split; reflexivity. Qed.

(* legacy: after the length word and the data are in place (whatever else the buffer holds),
   zero_pad makes the buffer equal to the canonical encoding, and touches nothing else *)
Theorem zero_pad_spec_legacy : forall (m : mem) dst data,
  let len := zlen data in
  mread m dst 32 = word len ->
  mread m (dst + 32) (length data) = data ->
  let m' := mzero m (dst + 32 + len) (pad32 len) in
  mread m' dst (32 + length data + Z.to_nat (pad32 len)) = enc_bytes data /\
  (forall a, ~ (dst + 32 + len <= a < dst + 32 + ceil32 len) -> m' a = m a).
Proof.
  intros m dst data len Hw Hd m'. subst m' len. unfold enc_bytes. remember (zlen data) as len eqn:Elen.
  pose proof (pad32_range len) as Hp. pose proof (pad32_spec len) as Hs.
  assert (Hlen : len = Z.of_nat (length data)) by (subst; reflexivity).
  split.
  - rewrite <- Nat.add_assoc, mread_app, mread_app. unfold enc_bytes. f_equal; [|f_equal].
    + etransitivity; [|exact Hw]. apply mread_ext. intros a Ha. unfold mzero.
      replace ((dst + 32 + len <=? a) && (a <? dst + 32 + len + pad32 len)) with false by lia. reflexivity.
    + etransitivity; [|exact Hd]. apply mread_ext. intros a Ha. unfold mzero.
      replace ((dst + 32 + len <=? a) && (a <? dst + 32 + len + pad32 len)) with false by lia. reflexivity.
    + unfold zeros. apply mread_zero. intros a Ha. unfold mzero.
      replace ((dst + 32 + len <=? a) && (a <? dst + 32 + len + pad32 len)) with true by lia. reflexivity.
  - intros a Ha. unfold mzero.
    replace ((dst + 32 + len <=? a) && (a <? dst + 32 + len + pad32 len)) with false by lia. reflexivity.
Qed.

(* venom: zero the word at dst + ceil32(len) first, then copy 32+len bytes (length word ++ data) *)
Theorem zero_pad_spec_venom : forall (m : mem) dst data,
  let len := zlen data in
  let m1 := mzero m (dst + ceil32 len) 32 in                  (* mstore(dst + ceil32 len, 0) *)
  let m2 := mwrite m1 dst (word len ++ data) in               (* copy of 32+len bytes *)
  mread m2 dst (32 + length data + Z.to_nat (pad32 len)) = enc_bytes data /\
  (forall a, ~ (dst <= a < dst + 32 + ceil32 len) -> m2 a = m a).
Proof.
  intros m dst data len m1 m2. subst m2 m1 len. unfold enc_bytes. remember (zlen data) as len eqn:Elen.
  pose proof (pad32_range len) as Hp. pose proof (pad32_spec len) as Hs.
  assert (Hlen : len = Z.of_nat (length data)) by (subst; reflexivity).
  assert (Hwl : length (word len ++ data) = (32 + length data)%nat).
  { rewrite app_length. pose proof (zlen_word len) as H. unfold zlen in H. lia. }
  assert (Hzl : zlen (word len ++ data) = 32 + len) by (rewrite zlen_app, zlen_word; lia).
  split.
  - rewrite mread_app. unfold enc_bytes. rewrite app_assoc. f_equal.
    + rewrite <- Hwl. apply mread_mwrite.
    + unfold zeros. apply mread_zero. intros a Ha. unfold mwrite. rewrite Hzl.
      replace ((dst <=? a) && (a <? dst + (32 + len))) with false by lia.
      unfold mzero. replace ((dst + ceil32 len <=? a) && (a <? dst + ceil32 len + 32)) with true by lia.
      reflexivity.
  - intros a Ha. unfold mwrite. rewrite Hzl. pose proof (ceil32_ge len).
    replace ((dst <=? a) && (a <? dst + (32 + len))) with false by lia.
    unfold mzero. replace ((dst + ceil32 len <=? a) && (a <? dst + ceil32 len + 32)) with false by lia.
    reflexivity.
Qed.

(* the offset computed by the venom encoder: (len + 31) & ~31 on 256-bit words is ceil32 len *)
Lemma land_mask_floor32 x : 0 <= x < 2 ^ 256 -> Z.land x (2 ^ 256 - 32) = x / 32 * 32.
Proof.
  intro Hx.
  replace (2 ^ 256 - 32) with (Z.shiftl (Z.ones 251) 5) by (rewrite Z.shiftl_mul_pow2, Z.ones_equiv by lia; reflexivity).
  replace (x / 32 * 32) with (Z.shiftl (Z.shiftr x 5) 5)
    by (rewrite Z.shiftl_mul_pow2, Z.shiftr_div_pow2 by lia; reflexivity).
  apply Z.bits_inj'. intros n Hn.
  rewrite Z.land_spec, !Z.shiftl_spec by lia.
  destruct (Z.ltb_spec n 5).
  - rewrite (Z.testbit_neg_r _ (n - 5)) by lia. rewrite (Z.testbit_neg_r (Z.shiftr x 5)) by lia. apply andb_false_r.
  - rewrite Z.shiftr_spec by lia. replace (n - 5 + 5) with n by lia.
    destruct (Z.ltb_spec (n - 5) 251).
    + rewrite Z.ones_spec_low by lia. apply andb_true_r.
    + rewrite Z.ones_spec_high by lia. rewrite andb_false_r.
      symmetry. apply Z.testbit_false. lia.
      rewrite Z.div_small. reflexivity. split. lia.
      apply Z.lt_le_trans with (2 ^ 256). lia. apply Z.pow_le_mono_r; lia.
Qed.

Theorem venom_last_word_offset : forall len, 0 <= len -> len + 31 < 2 ^ 256 ->
  Z.land (len + 31) (2 ^ 256 - 32) = ceil32 len.
Proof. intros len H0 H1. rewrite land_mask_floor32 by lia. reflexivity. Qed.
