(* C06: model of the Venom layout normalisation for assigning / returning a value of a NARROWER compatible type where
   a WIDER type is declared (codegen_venom/context.py: store_memory, _same_memory_layout, _store_memory_typed,
   _copy_dynarray_memory_typed, _copy_sarray_memory_typed).  Values live in vyper memory layout (SxEval.vylayout /
   vyread): element strides depend on the bounds, so a copy must re-stride.  No proofs here. *)
From Coq Require Import ZArith List Bool String.
From Verif Require Import C06.Abi C06.ZeroPad C06.Sexp C06.SxEval.
Import ListNotations.
Open Scope Z_scope.

Fixpoint ty_eqb (a b : ty) : bool :=
  match a, b with
  | TUInt x, TUInt y | TInt x, TInt y | TBytesM x, TBytesM y | TFlag x, TFlag y
  | TBytes x, TBytes y | TString x, TString y => x =? y
  | TBool, TBool | TAddress, TAddress | TDecimal, TDecimal => true
  | TSArr s n, TSArr d k | TDArr s n, TDArr d k => (n =? k) && ty_eqb s d
  | TTuple ss, TTuple ds =>
      (fix go (ss ds : list ty) : bool :=
         match ss, ds with [], [] => true | s :: r, d :: q => ty_eqb s d && go r q | _, _ => false end) ss ds
  | _, _ => false
  end.

(* td is a widening of ts: same shape, Bytes/String/DynArray bounds at least as large *)
Fixpoint compat (ts td : ty) : bool :=
  match ts, td with
  | TBytes a, TBytes b | TString a, TString b => a <=? b
  | TDArr s a, TDArr d b => (a <=? b) && compat s d
  | TSArr s n, TSArr d k => (n =? k) && compat s d
  | TTuple ss, TTuple ds =>
      (fix go (ss ds : list ty) : bool :=
         match ss, ds with [], [] => true | s :: r, d :: q => compat s d && go r q | _, _ => false end) ss ds
  | TBytes _, _ | TString _, _ | TDArr _ _, _ | TSArr _ _, _ | TTuple _, _ => false
  | _, _ => ty_eqb ts td
  end.

Definition mstorew (m : mem) (a w : Z) : mem := mwrite m a (word w).

(* element-wise loop: k elements still to copy, element i *)
Fixpoint norm_loop (f : mem -> Z -> Z -> option mem) (k : nat) (i ss sd : Z) (m : mem) (src dst : Z) : option mem :=
  match k with
  | O => Some m
  | S k' => match f m (src + i * ss) (dst + i * sd) with
            | Some m1 => norm_loop f k' (i + 1) ss sd m1 src dst
            | None => None end
  end.

(* _store_memory_typed(dst, dst_typ, src, src_typ) *)
Fixpoint norm (ts td : ty) (m : mem) (src dst : Z) : option mem :=
  match ts, td with
  | TBytes _, _ | TString _, _ =>
      let len := mloadw m src in Some (mcopy m dst src (32 + ceil32 len))
  | TDArr s _, TDArr d bd =>
      let len := mloadw m src in
      if bd <? len then None else
      let m1 := mstorew m dst len in
      if ty_eqb s d && (vmem_size s =? vmem_size d) then Some (mcopy m1 (dst + 32) (src + 32) (len * vmem_size d))
      else norm_loop (norm s d) (Z.to_nat len) 0 (vmem_size s) (vmem_size d) m1 (src + 32) (dst + 32)
  | TSArr s n, TSArr d _ =>
      if (vmem_size s =? vmem_size d) && negb (is_dynamic td) then Some (mcopy m dst src (vmem_size td))
      else norm_loop (norm s d) (Z.to_nat n) 0 (vmem_size s) (vmem_size d) m src dst
  | TTuple ss, TTuple ds =>
      (fix go (ss ds : list ty) (m : mem) (so d_o : Z) : option mem :=
         match ss, ds with
         | s :: r, d :: q => match norm s d m (src + so) (dst + d_o) with
                             | Some m1 => go r q m1 (so + vmem_size s) (d_o + vmem_size d)
                             | None => None end
         | _, _ => Some m
         end) ss ds m 0 0
  | _, _ => Some (mstorew m dst (mloadw m src))
  end.

(* ctx.store_memory(val, ptr, typ, src_typ) for non-word types: plain copy when the layouts are the same *)
Definition store_memory (ts td : ty) (m : mem) (src dst : Z) : option mem :=
  match td with
  | TBytes _ | TString _ => let len := mloadw m src in Some (mcopy m dst src (32 + ceil32 len))
  | _ => if ty_eqb ts td then Some (mcopy m dst src (vmem_size td)) else norm ts td m src dst
  end.
