(* C14I: soundness of the inlining validator (ISyn.inline_check). *)
From Coq Require Import ZArith NArith Bool List String Lia.
From Verif Require Import C14I.ISyn.
Import ListNotations.
Open Scope string_scope.
Open Scope list_scope.
(* simpl / injection / inversion must not compute with the label offset 2^32 *)
Opaque FB.

Section Proofs.
  Variable Wd : Type.
  Variable ext : string -> list Z -> Wd -> option (list Z * Wd).
  Variable lv : N -> Z.
  Notation exec := (exec Wd ext lv).
  Notation oval := (oval lv).
  Notation ovals := (ovals lv).
  Notation enter := (enter lv).
  Notation phi_vals := (phi_vals lv).

  (* ---------- environments ---------- *)
  Definition ext_env (e e' : env) : Prop := forall x v, e x = Some v -> e' x = Some v.
  Infix "<<=" := ext_env (at level 70).

  Lemma ext_refl : forall e, e <<= e. Proof. intros e x v H. exact H. Qed.
  Lemma ext_upd : forall e e' x v, e <<= e' -> upd e x v <<= upd e' x v.
  Proof. intros e e' x v H y w. unfold upd. destruct (N.eqb y x); auto. Qed.

  Lemma oval_ext : forall e e' o v, e <<= e' -> oval e o = Some v -> oval e' o = Some v.
  Proof. intros e e' [z|x|l] v H E; cbn in *; auto. Qed.
  Lemma ovals_ext : forall e e' l vs, e <<= e' -> ovals e l = Some vs -> ovals e' l = Some vs.
  Proof.
    induction l as [|o l IH]; intros vs H E; cbn in *; [exact E|].
    destruct (oval e o) as [v|] eqn:Ov; [|discriminate]. destruct (ovals e l) as [vs'|] eqn:Ovs; [|discriminate].
    rewrite (oval_ext _ _ _ _ H Ov), (IH _ H eq_refl). exact E.
  Qed.
  Lemma upd_many_ext : forall xs vs e e' e1, e <<= e' -> upd_many e xs vs = Some e1 ->
    exists e1', upd_many e' xs vs = Some e1' /\ e1 <<= e1'.
  Proof.
    induction xs as [|x xs IH]; intros vs e e' e1 H U; destruct vs as [|v vs]; cbn in *; try discriminate.
    - inversion U; subst. eauto.
    - eapply IH; [|exact U]. apply ext_upd. exact H.
  Qed.

  Definition dom_in (e : env) (V : list N) : Prop := forall x v, e x = Some v -> In x V.
  Lemma dom_upd : forall e V x v, dom_in e V -> In x V -> dom_in (upd e x v) V.
  Proof. intros e V x v D I y w. unfold upd. destruct (N.eqb_spec y x); [subst; auto|apply D]. Qed.
  Lemma dom_upd_many : forall xs vs e e1 V, dom_in e V -> (forall x, In x xs -> In x V) -> upd_many e xs vs = Some e1 -> dom_in e1 V.
  Proof.
    induction xs as [|x xs IH]; intros vs e e1 V D I U; destruct vs as [|v vs]; cbn in *; try discriminate.
    - inversion U; subst. exact D.
    - eapply IH; [| |exact U]; [apply dom_upd; auto|auto].
  Qed.
  Lemma dom_empty : forall V, dom_in empty_env V. Proof. intros V x v H. discriminate. Qed.

  (* ---------- entering a block ---------- *)
  Lemma phi_vals_ext : forall phis p e e' vs, e <<= e' -> phi_vals phis p e = Some vs -> phi_vals phis p e' = Some vs.
  Proof.
    induction phis as [|i phis IH]; intros p e e' vs H E; cbn in *; [exact E|].
    destruct (i_outs i) as [|o [|]]; try discriminate. destruct (phi_src (i_args i) p) as [src|]; [|discriminate].
    destruct (oval e src) as [v|] eqn:Ov; [|discriminate]. destruct (phi_vals phis p e) as [vs'|] eqn:Pv; [|discriminate].
    rewrite (oval_ext _ _ _ _ H Ov), (IH _ _ _ _ H Pv). exact E.
  Qed.
  Lemma fold_upd_ext : forall (vs : list (N * Z)) e e', e <<= e' ->
    fold_left (fun a ov => upd a (fst ov) (snd ov)) vs e <<= fold_left (fun a ov => upd a (fst ov) (snd ov)) vs e'.
  Proof. induction vs as [|[x v] vs IH]; intros e e' H; cbn; [exact H|]. apply IH. apply ext_upd. exact H. Qed.
  Lemma enter_ext : forall blk p e e' e1 pc1, e <<= e' -> enter blk p e = Some (e1, pc1) ->
    exists e1', enter blk p e' = Some (e1', pc1) /\ e1 <<= e1'.
  Proof.
    intros blk p e e' e1 pc1 H E. unfold ISyn.enter in *. destruct (phi_vals (lead_phis blk) (N.of_nat p) e) as [vs|] eqn:Pv; [|discriminate].
    rewrite (phi_vals_ext _ _ _ _ _ H Pv). inversion E; subst. eexists. split; [reflexivity|]. apply fold_upd_ext. exact H.
  Qed.

  (* ---------- list facts missing from the 8.16 library ---------- *)
  Lemma nth_error_skipn' : forall (A : Type) (l : list A) k j, nth_error (skipn k l) j = nth_error l (k + j).
  Proof. induction l as [|a l IH]; intros k j; destruct k; cbn; auto. destruct j; reflexivity. Qed.
  Lemma nth_error_firstn' : forall (A : Type) (l : list A) k j, j < k -> nth_error (firstn k l) j = nth_error l j.
  Proof.
    induction l as [|a l IH]; intros k j H; destruct k; cbn; try lia; [destruct j; reflexivity|].
    destruct j; cbn; [reflexivity|]. apply IH. lia.
  Qed.
  Lemma nth_error_lt : forall (A : Type) (l : list A) k x, nth_error l k = Some x -> k < List.length l.
  Proof. intros A l k x E. apply nth_error_Some. congruence. Qed.

  (* ---------- structure of the specified result ---------- *)
  Section Inline.
    Variables (F G : func) (cf g sb idx : nat) (r : rho) (args : list operand) (outs : list N).
    Let n := List.length F.
    Let nG := List.length G.
    Let B := nth_block F sb.
    Let pre := firstn idx B.
    Let post := skipn (S idx) B.
    Let succs := block_targets post.
    Let nN := N.of_nat n.
    Let base := (nN + 1)%N.
    Let bind := args ++ [OLab (FB + N.of_nat g)%N].
    Let fixb (k : nat) (blk : block) : block :=
      if existsb (N.eqb (N.of_nat k)) succs then map (fix_phi_inst (N.of_nat sb) nN) blk else blk.
    Let blk1 (k : nat) : block := fixb k (if Nat.eqb k sb then pre ++ [mkI "jmp" [OLab base] []] else nth_block F k).
    Let cloneb (b : block) : block := clone_insts r base (N.of_nat nG) bind outs nN 0 b.
    Let F' : func := map (fun kb : nat * block => fixb (fst kb) (if Nat.eqb (fst kb) sb then pre ++ [mkI "jmp" [OLab base] []] else snd kb))
                         (combine (seq 0 n) F) ++ [post] ++ map cloneb G.

    Hypothesis Hinv : nth_error B idx = Some (mkI "invoke" (OLab (FB + N.of_nat g)%N :: args) outs).

    Lemma spec_is : inline_spec F G sb idx r = Some F'.
    Proof. unfold inline_spec. fold B. rewrite Hinv. cbn [i_args i_outs]. reflexivity. Qed.

    Lemma combine_seq_nth : forall (l : list block) s k, k < List.length l ->
      nth_error (combine (seq s (List.length l)) l) k = Some (s + k, nth k l []).
    Proof.
      induction l as [|a l IH]; intros s k Hk; cbn in Hk; [lia|]. cbn [List.length seq combine].
      destruct k; cbn [nth_error nth]; [f_equal; f_equal; lia|]. rewrite IH by lia. f_equal. f_equal. lia.
    Qed.

    Lemma F'_low : forall k, k < n -> nth_block F' k = blk1 k.
    Proof.
      intros k Hk. unfold nth_block, F'. rewrite app_nth1 by (rewrite map_length, combine_length, seq_length; fold n; lia).
      apply nth_error_nth. rewrite nth_error_map. unfold n in *. rewrite combine_seq_nth by lia. cbn [option_map fst snd].
      reflexivity.
    Qed.
    Lemma F'_ret : nth_block F' n = post.
    Proof.
      unfold nth_block, F'. rewrite app_nth2 by (rewrite map_length, combine_length, seq_length; fold n; lia).
      rewrite map_length, combine_length, seq_length. fold n. replace (n - Nat.min n n) with 0 by lia. reflexivity.
    Qed.
    Lemma F'_clone : forall j, j < nG -> nth_block F' (n + 1 + j) = cloneb (nth_block G j).
    Proof.
      intros j Hj. unfold nth_block, F'. rewrite app_nth2 by (rewrite map_length, combine_length, seq_length; fold n; lia).
      rewrite map_length, combine_length, seq_length. fold n. replace (n + 1 + j - Nat.min n n) with (S j) by lia.
      cbn [app nth]. apply nth_error_nth. rewrite nth_error_map. unfold nG in Hj.
      destruct (nth_error G j) eqn:E; [|apply nth_error_None in E; lia]. cbn. f_equal. f_equal. symmetry. apply nth_error_nth. exact E.
    Qed.

    (* ---------- the two programs ---------- *)
    Fixpoint set_nth (P : prog) (k : nat) (X : func) : prog :=
      match P, k with
      | [], _ => []
      | _ :: t, O => X :: t
      | a :: t, S k' => a :: set_nth t k' X
      end.
    Lemma set_nth_same : forall P k X, k < List.length P -> nth_func (set_nth P k X) k = X.
    Proof. induction P as [|a P IH]; intros k X Hk; cbn in Hk; [lia|]. destruct k; cbn; [reflexivity|]. apply IH. lia. Qed.
    Lemma set_nth_other : forall P k X j, j <> k -> nth_func (set_nth P k X) j = nth_func P j.
    Proof.
      induction P as [|a P IH]; intros k X j N; cbn; [reflexivity|]. destruct k; destruct j; cbn; try reflexivity; try lia.
      apply IH. lia.
    Qed.

    Variable P : prog.
    (* wrapped so that a bare `subst` never eliminates the section variables F, G *)
    Definition is_fn (Q : prog) (k : nat) (H : func) : Prop := nth_func Q k = H.
    Hypothesis HF0 : is_fn P cf F.
    Hypothesis HG0 : is_fn P g G.
    Hypothesis Hne : cf <> g.
    Let P' := set_nth P cf F'.

    Lemma cf_lt : cf < List.length P.
    Proof.
      pose proof (HF0 : nth_func P cf = F) as HF. destruct (Nat.lt_ge_cases cf (List.length P)); [auto|]. exfalso. unfold nth_func in HF. rewrite nth_overflow in HF by lia.
      unfold B, nth_block in Hinv. rewrite <- HF in Hinv. destruct sb; destruct idx; discriminate.
    Qed.
    Lemma P'_cf : nth_func P' cf = F'. Proof. apply set_nth_same. apply cf_lt. Qed.
    Lemma P'_other : forall f, f <> cf -> nth_func P' f = nth_func P f. Proof. intros. apply set_nth_other. auto. Qed.
    Lemma P'_g : nth_func P' g = G. Proof. rewrite P'_other by auto. exact HG0. Qed.

    (* position map of the caller *)
    Definition in_post (b pc : nat) : bool := Nat.eqb b sb && Nat.ltb idx pc.
    Definition pmb (b pc : nat) : nat := if in_post b pc then n else b.
    Definition pmp (b pc : nat) : nat := if in_post b pc then pc - idx - 1 else pc.

    Lemma fix_nonphi : forall a c i, is_phi i = false -> fix_phi_inst a c i = i.
    Proof. intros a c i H. unfold fix_phi_inst. rewrite H. reflexivity. Qed.
    Lemma fixb_nth : forall k blk pc i, nth_error blk pc = Some i -> is_phi i = false -> nth_error (fixb k blk) pc = Some i.
    Proof.
      intros k blk pc i E Hp. unfold fixb. destruct (existsb _ succs); [|exact E].
      rewrite nth_error_map, E. cbn. rewrite fix_nonphi by auto. reflexivity.
    Qed.

    Lemma block_lt : forall b pc i, nth_error (nth_block F b) pc = Some i -> b < n.
    Proof.
      intros b pc i E. destruct (Nat.lt_ge_cases b n); [auto|]. unfold nth_block in E. rewrite nth_overflow in E by (fold n; lia).
      destruct pc; discriminate.
    Qed.

    Lemma instr_pm : forall b pc i, instr_at P cf b pc = Some i -> is_phi i = false -> (b = sb /\ pc = idx -> False) ->
      instr_at P' cf (pmb b pc) (pmp b pc) = Some i.
    Proof.
      intros b pc i E Hp Ns. pose proof (HF0 : nth_func P cf = F) as HF. unfold instr_at in *. rewrite HF in E. rewrite P'_cf. pose proof (block_lt _ _ _ E) as Hb.
      unfold pmb, pmp, in_post. destruct (Nat.eqb_spec b sb) as [->|Nb]; cbn [andb].
      - destruct (Nat.ltb_spec idx pc) as [L|L].
        + rewrite F'_ret. unfold post. rewrite nth_error_skipn'. replace (S idx + (pc - idx - 1)) with pc by lia. exact E.
        + assert (pc < idx) by (destruct (Nat.eq_dec pc idx); [exfalso; apply Ns; auto|lia]).
          rewrite F'_low by auto. unfold blk1. rewrite Nat.eqb_refl. apply fixb_nth; [|auto].
          rewrite nth_error_app1 by (unfold pre; rewrite firstn_length; apply nth_error_lt in E; fold B in E; lia).
          unfold pre. rewrite nth_error_firstn' by lia. exact E.
      - rewrite F'_low by auto. unfold blk1. destruct (Nat.eqb_spec b sb); [contradiction|]. apply fixb_nth; auto.
    Qed.

    (* ---------- entering a caller block after the transformation ---------- *)
    Hypothesis HokF : func_ok F = true.
    Let sbN := N.of_nat sb.
    Definition fixo (o : operand) : operand := match o with OLab l => if N.eqb l sbN then OLab nN else o | _ => o end.

    Lemma block_ok_F : forall b, b < n -> block_ok nN (nth_block F b) = true.
    Proof.
      intros b Hb. unfold func_ok in HokF. apply andb_prop in HokF. destruct HokF as [A _]. rewrite forallb_forall in A.
      apply A. unfold nth_block. apply nth_In. exact Hb.
    Qed.
    Lemma n_lt_FB : (nN + nN + 2 < FB)%N.
    Proof. unfold func_ok in HokF. apply andb_prop in HokF. destruct HokF as [_ A]. apply N.ltb_lt in A. exact A. Qed.

    Lemma sb_lt : sb < n. Proof. eapply block_lt. exact Hinv. Qed.

    Lemma phi_src_fix_same : forall a, phi_args_ok nN a = true -> phi_src (map fixo a) nN = phi_src a sbN.
    Proof.
      fix IH 1. intros [|[z|x|l] [|v a]] H; cbn [phi_args_ok phi_src map fixo] in H |- *; try discriminate; try reflexivity.
      apply andb_prop in H. destruct H as [H Hr]. apply andb_prop in H. destruct H as [Hl Hv]. apply N.ltb_lt in Hl.
      destruct (N.eqb l sbN) eqn:E.
      - cbn [phi_src]. rewrite N.eqb_refl. destruct v; try discriminate; reflexivity.
      - cbn [phi_src]. replace (N.eqb l nN) with false by (symmetry; apply N.eqb_neq; lia). apply IH. exact Hr.
    Qed.
    Lemma phi_src_fix_other : forall a p, phi_args_ok nN a = true -> p <> sbN -> p <> nN -> phi_src (map fixo a) p = phi_src a p.
    Proof.
      fix IH 1. intros [|[z|x|l] [|v a]] p H N1 N2; cbn [phi_args_ok phi_src map fixo] in H |- *; try discriminate; try reflexivity.
      apply andb_prop in H. destruct H as [H Hr]. apply andb_prop in H. destruct H as [Hl Hv].
      destruct (N.eqb l sbN) eqn:E.
      - apply N.eqb_eq in E. subst l. cbn [phi_src]. replace (N.eqb nN p) with false by (symmetry; apply N.eqb_neq; congruence).
        replace (N.eqb sbN p) with false by (symmetry; apply N.eqb_neq; congruence). apply IH; auto.
      - cbn [phi_src]. destruct (N.eqb l p); [destruct v; try discriminate; reflexivity|]. apply IH; auto.
    Qed.

    Lemma fix_is_map : forall i, is_phi i = true -> fix_phi_inst sbN nN i = mkI (i_op i) (map fixo (i_args i)) (i_outs i).
    Proof. intros i H. unfold fix_phi_inst. rewrite H. reflexivity. Qed.
    Lemma lead_phis_all : forall blk i, In i (lead_phis blk) -> is_phi i = true.
    Proof. induction blk as [|a blk IH]; intros i I; cbn in I; [contradiction|]. destruct (is_phi a) eqn:E; [|contradiction]. destruct I as [<-|I]; auto. Qed.
    Lemma lead_phis_map_fix : forall blk, lead_phis (map (fix_phi_inst sbN nN) blk) = map (fix_phi_inst sbN nN) (lead_phis blk).
    Proof.
      induction blk as [|a blk IH]; cbn; [reflexivity|].
      assert (E : is_phi (fix_phi_inst sbN nN a) = is_phi a) by (unfold fix_phi_inst; destruct (is_phi a) eqn:Q; [unfold is_phi in *; cbn; exact Q|exact Q]).
      rewrite E. destruct (is_phi a); cbn; [rewrite IH|]; reflexivity.
    Qed.

    Lemma phi_vals_fix : forall phis p p' e,
      (forall i, In i phis -> is_phi i = true /\ exists o, i_outs i = [o] /\ phi_args_ok nN (i_args i) = true) ->
      ((p = sbN /\ p' = nN) \/ (p' = p /\ p <> sbN /\ p <> nN)) ->
      phi_vals (map (fix_phi_inst sbN nN) phis) p' e = phi_vals phis p e.
    Proof.
      induction phis as [|i phis IH]; intros p p' e Hall Hp; cbn [map ISyn.phi_vals]; [reflexivity|].
      destruct (Hall i (or_introl eq_refl)) as [Ph [o [Ho Ha]]]. rewrite (fix_is_map i Ph). cbn [i_outs i_args]. rewrite Ho.
      assert (Es : phi_src (map fixo (i_args i)) p' = phi_src (i_args i) p).
      { destruct Hp as [[-> ->]|[-> [N1 N2]]]; [apply phi_src_fix_same|apply phi_src_fix_other]; auto. }
      rewrite Es, (IH p p' e); auto. intros j Hj. apply Hall. right. exact Hj.
    Qed.

    Lemma lead_phis_ok : forall b i, b < n -> In i (lead_phis (nth_block F b)) ->
      is_phi i = true /\ exists o, i_outs i = [o] /\ phi_args_ok nN (i_args i) = true.
    Proof.
      intros b i Hb I. split; [eapply lead_phis_all; eauto|]. pose proof (block_ok_F b Hb) as K. unfold block_ok in K.
      apply andb_prop in K. destruct K as [K _]. apply andb_prop in K. destruct K as [K _]. apply andb_prop in K. destruct K as [_ K].
      rewrite forallb_forall in K. specialize (K i I). destruct (i_outs i) as [|o [|]]; try discriminate. eauto.
    Qed.

    (* leading phis of the call-site block lie before the invoke *)
    Lemma lead_pre : forall (blk : block) k x y, nth_error blk k = Some x -> is_phi x = false -> is_phi y = false ->
      lead_phis (firstn k blk ++ [y]) = lead_phis blk /\ List.length (lead_phis blk) <= k.
    Proof.
      induction blk as [|a blk IH]; intros k x y E Hx Hy; destruct k; cbn in E; try discriminate.
      - inversion E; subst. cbn [firstn app lead_phis]. rewrite Hx, Hy. split; [reflexivity|cbn [List.length]; lia].
      - cbn [firstn app lead_phis]. destruct (is_phi a) eqn:Q.
        + destruct (IH k x y E Hx Hy) as [A Bd]. rewrite A. split; [reflexivity|]. cbn [List.length]. lia.
        + split; [reflexivity|]. cbn [List.length]. lia.
    Qed.

    Lemma in_removelast : forall (blk : block) pc i, nth_error blk pc = Some i -> S pc < List.length blk -> In i (removelast blk).
    Proof.
      induction blk as [|a blk IH]; intros pc i E L; cbn in L; [lia|]. destruct blk as [|a2 blk]; [cbn in L; lia|].
      destruct pc; cbn in E.
      - inversion E; subst. left. reflexivity.
      - right. apply (IH pc i E). cbn [List.length] in L |- *. lia.
    Qed.
    Lemma rev_head_last : forall (l : block) k x, nth_error l k = Some x -> S k = List.length l -> exists t, rev l = x :: t.
    Proof.
      induction l as [|a l IH]; intros k x E L; cbn in L; [lia|]. destruct k; cbn in E.
      - inversion E; subst. destruct l; [|cbn in L; lia]. exists []. reflexivity.
      - destruct (IH k x E ltac:(lia)) as [t Ht]. cbn [rev]. rewrite Ht. exists (t ++ [a]). reflexivity.
    Qed.

    Definition is_jump (i : inst) : bool := is_op "jmp" i || is_op "jnz" i || is_op "djmp" i.

    Lemma ctl_last : forall b pc i, nth_error (nth_block F b) pc = Some i -> is_ctl i = true -> S pc = List.length (nth_block F b).
    Proof.
      intros b pc i E C. pose proof (nth_error_lt _ _ _ _ E) as L. destruct (Nat.eq_dec (S pc) (List.length (nth_block F b))); [auto|].
      exfalso. pose proof (block_ok_F b (block_lt _ _ _ E)) as K. unfold block_ok in K.
      apply andb_prop in K. destruct K as [K _]. apply andb_prop in K. destruct K as [_ K]. rewrite forallb_forall in K.
      specialize (K i (in_removelast _ _ _ E ltac:(lia))). rewrite C in K. discriminate.
    Qed.

    Lemma enter_pm : forall b pc i l e e' e1 pc1,
      instr_at P cf b pc = Some i -> is_jump i = true -> In (OLab l) (i_args i) -> N.to_nat l < n ->
      e <<= e' -> enter (nth_block F (N.to_nat l)) b e = Some (e1, pc1) ->
      exists e1', enter (nth_block F' (N.to_nat l)) (pmb b pc) e' = Some (e1', pc1) /\ e1 <<= e1' /\ in_post (N.to_nat l) pc1 = false.
    Proof.
      intros b pc i l e e' e1 pc1 E J Il Ll Hext En. pose proof (HF0 : nth_func P cf = F) as HF. unfold instr_at in E. rewrite HF in E. clear HF.
      assert (C : is_ctl i = true) by (unfold is_ctl; unfold is_jump in J; destruct (is_op "jmp" i); destruct (is_op "jnz" i); destruct (is_op "djmp" i); auto; discriminate).
      pose proof (ctl_last _ _ _ E C) as Last. pose proof (block_lt _ _ _ E) as Hb.
      set (L := N.to_nat l) in *.
      (* leading phis of the target in F' *)
      let b1 := eval unfold blk1, fixb in (blk1 L) in
      match b1 with (if _ then map _ ?t else _) => pose (X := t) end.
      assert (LX : lead_phis X = lead_phis (nth_block F L) /\ (L = sb -> List.length (lead_phis (nth_block F L)) <= idx)).
      { unfold X. destruct (Nat.eqb_spec L sb) as [->|Nl].
        - destruct (lead_pre B idx _ (mkI "jmp" [OLab base] []) Hinv eq_refl eq_refl) as [A Bd]. split; [exact A|intros _; exact Bd].
        - split; [reflexivity|intros; contradiction]. }
      destruct LX as [LX Lidx].
      unfold ISyn.enter in En. destruct (phi_vals (lead_phis (nth_block F L)) (N.of_nat b) e) as [vs|] eqn:Pv; [|discriminate].
      inversion En; subst e1 pc1. clear En.
      pose proof (phi_vals_ext _ _ _ _ _ Hext Pv) as Pv'.
      assert (Post : in_post L (List.length (lead_phis (nth_block F L))) = false).
      { unfold in_post. destruct (Nat.eqb_spec L sb) as [Es|]; [|reflexivity]. cbn. apply Nat.ltb_ge. auto. }
      assert (Goal : phi_vals (lead_phis (nth_block F' L)) (N.of_nat (pmb b pc)) e' = Some vs /\
                     List.length (lead_phis (nth_block F' L)) = List.length (lead_phis (nth_block F L))).
      { rewrite F'_low by auto. unfold blk1, fixb, pmb.
        fold X. fold sbN.
        destruct (in_post b pc) eqn:IP.
        - (* the jump is in the moved tail: the target is a successor, its phis were fixed *)
          unfold in_post in IP. apply andb_prop in IP. destruct IP as [Eb Lt]. apply Nat.eqb_eq in Eb. subst b. apply Nat.ltb_lt in Lt.
          assert (Sx : existsb (N.eqb (N.of_nat L)) succs = true).
          { unfold succs, block_targets. fold B in E, Last.
            assert (Ep : nth_error post (pc - idx - 1) = Some i) by (unfold post; rewrite nth_error_skipn'; replace (S idx + (pc - idx - 1)) with pc by lia; exact E).
            destruct (rev_head_last post (pc - idx - 1) i Ep) as [t Ht].
            { unfold post. rewrite skipn_length. lia. }
            rewrite Ht. apply existsb_exists. exists l. split; [|unfold L; rewrite N2Nat.id; apply N.eqb_refl].
            apply in_flat_map. exists (OLab l). split; [exact Il|left; reflexivity]. }
          rewrite Sx, lead_phis_map_fix, LX, map_length. split; [|reflexivity].
          rewrite (phi_vals_fix _ sbN nN e'); [exact Pv'| |left; split; [unfold sbN; reflexivity|reflexivity]].
          intros j Hj. apply (lead_phis_ok L); auto.
        - assert (Nb : b <> sb).
          { intros ->. unfold in_post in IP. rewrite Nat.eqb_refl in IP. cbn in IP. apply Nat.ltb_ge in IP.
            fold B in E, Last. pose proof (nth_error_lt _ _ _ _ Hinv). destruct (Nat.eq_dec pc idx) as [->|]; [|lia].
            rewrite Hinv in E. apply (f_equal (fun o => match o with Some x => is_jump x | None => true end)) in E. rewrite J in E. exact (Bool.diff_false_true E). }
          destruct (existsb (N.eqb (N.of_nat L)) succs).
          + rewrite lead_phis_map_fix, LX, map_length. split; [|reflexivity].
            rewrite (phi_vals_fix _ (N.of_nat b) (N.of_nat b) e'); [exact Pv'| |right; split; [reflexivity|split; unfold sbN, nN; lia]].
            intros j Hj. apply (lead_phis_ok L); auto.
          + rewrite LX. split; [exact Pv'|reflexivity]. }
      destruct Goal as [G1 G2]. unfold ISyn.enter. rewrite G1, G2. eexists. split; [reflexivity|]. split; [apply fold_upd_ext; exact Hext|exact Post].
    Qed.

    (* ---------- the cloned callee ---------- *)
    Hypothesis HokG : func_ok G = true.
    Hypothesis HcalleeG : callee_ok G (List.length outs) = true.
    Hypothesis HnolabG : no_block_label_values G = true.
    Hypothesis Hbig : (nN + N.of_nat nG + 2 < FB)%N.
    Hypothesis Hrtot : forall x, In x (func_vars G) -> exists y, rget r x = Some y.
    Hypothesis Hrinj : nodupN (map snd r) = true.
    Hypothesis Hrfresh : forall y, In y (map snd r) -> ~ In y (func_vars F).
    Let VG := func_vars G.
    Let VF := func_vars F.
    Let nGN := N.of_nat nG.
    Notation rn := (ren r).

    Lemma memN_In : forall x l, memN x l = true <-> In x l.
    Proof.
      intros x l. unfold memN. rewrite existsb_exists. split.
      - intros [y [I E]]. apply N.eqb_eq in E. subst. exact I.
      - intros I. exists x. split; [exact I|apply N.eqb_refl].
    Qed.
    Lemma rget_in : forall (q : rho) x y, rget q x = Some y -> In y (map snd q).
    Proof.
      induction q as [|[a b] q IH]; intros x y E; cbn in E; [discriminate|]. destruct (N.eqb a x); [inversion E; subst; left; reflexivity|].
      right. eapply IH; eauto.
    Qed.
    Lemma rget_inj : forall (q : rho) x x' y, nodupN (map snd q) = true -> rget q x = Some y -> rget q x' = Some y -> x = x'.
    Proof.
      induction q as [|[a b] q IH]; intros x x' y ND E E'; cbn [rget map snd nodupN] in ND, E, E'; [discriminate|].
      apply andb_prop in ND. destruct ND as [Nm ND]. apply negb_true_iff in Nm.
      destruct (N.eqb_spec a x); destruct (N.eqb_spec a x').
      - congruence.
      - inversion E; subst. exfalso. apply rget_in in E'. apply memN_In in E'. congruence.
      - inversion E'; subst. exfalso. apply rget_in in E. apply memN_In in E. congruence.
      - eapply IH; eauto.
    Qed.
    Lemma rn_inj : forall x x', In x VG -> In x' VG -> rn x = rn x' -> x = x'.
    Proof.
      intros x x' I I' E. destruct (Hrtot x I) as [y Hy]. destruct (Hrtot x' I') as [y' Hy'].
      unfold ren in E. rewrite Hy, Hy' in E. subst y'. eapply rget_inj; eauto.
    Qed.
    Lemma rn_fresh : forall x, In x VG -> ~ In (rn x) VF.
    Proof. intros x I. destruct (Hrtot x I) as [y Hy]. unfold ren. rewrite Hy. apply Hrfresh. eapply rget_in; eauto. Qed.

    (* relation between the callee frame (eg), the suspended caller frame (ec) and the merged frame (e2) *)
    Definition Rel (eg ec e2 : env) : Prop := (forall x v, eg x = Some v -> e2 (rn x) = Some v) /\ ec <<= e2.

    Definition olab_ok (o : operand) : Prop := match o with OLab l => (FB <= l)%N | _ => True end.
    Lemma ren_op_nolab : forall o, olab_ok o -> match o with OLab l => ren_op r base nGN o = OLab l | _ => True end.
    Proof. intros [z|x|l] H; cbn [olab_ok ren_op] in *; auto. replace (N.ltb l nGN) with false; [reflexivity|]. symmetry. apply N.ltb_ge. unfold nGN. lia. Qed.

    Lemma oval_ren : forall eg ec e2 o v, Rel eg ec e2 -> olab_ok o -> oval eg o = Some v -> oval e2 (ren_op r base nGN o) = Some v.
    Proof.
      intros eg ec e2 [z|x|l] v [R1 R2] Ho E; cbn [ISyn.oval ren_op] in *; auto.
      pose proof (ren_op_nolab (OLab l) Ho) as K. cbn in K. cbn [ren_op] in K. rewrite K. exact E.
    Qed.
    Lemma ovals_ren : forall eg ec e2 l vs, Rel eg ec e2 -> Forall olab_ok l -> ovals eg l = Some vs ->
      ovals e2 (map (ren_op r base nGN) l) = Some vs.
    Proof.
      induction l as [|o l IH]; intros vs HR Fo E; cbn [ISyn.ovals map] in *; [exact E|]. inversion Fo; subst.
      destruct (oval eg o) as [v|] eqn:Ov; [|discriminate]. destruct (ovals eg l) as [vs'|] eqn:Ovs; [|discriminate].
      rewrite (oval_ren _ _ _ _ _ HR H1 Ov), (IH _ HR H2 eq_refl). exact E.
    Qed.

    Lemma Rel_upd : forall eg ec e2 o v, Rel eg ec e2 -> dom_in eg VG -> dom_in ec VF -> In o VG ->
      Rel (upd eg o v) ec (upd e2 (rn o) v).
    Proof.
      intros eg ec e2 o v [R1 R2] Dg Dc Io. split.
      - intros x w. unfold upd. destruct (N.eqb_spec x o) as [->|Nx].
        + rewrite N.eqb_refl. auto.
        + intros E. destruct (N.eqb_spec (rn x) (rn o)) as [Er|_]; [exfalso; apply Nx; apply rn_inj; eauto|]. apply R1. exact E.
      - intros y w E. unfold upd. destruct (N.eqb_spec y (rn o)) as [->|_]; [exfalso; apply (rn_fresh o Io); eapply Dc; eauto|]. apply R2. exact E.
    Qed.
    Lemma Rel_upd_many : forall os vs eg ec e2 eg1, Rel eg ec e2 -> dom_in eg VG -> dom_in ec VF -> (forall o, In o os -> In o VG) ->
      upd_many eg os vs = Some eg1 -> exists e21, upd_many e2 (map rn os) vs = Some e21 /\ Rel eg1 ec e21 /\ dom_in eg1 VG.
    Proof.
      induction os as [|o os IH]; intros vs eg ec e2 eg1 HR Dg Dc Io U; destruct vs as [|v vs]; cbn [ISyn.upd_many map] in *; try discriminate.
      - inversion U; subst. eauto.
      - assert (Io1 : In o VG) by (apply Io; left; reflexivity).
        eapply IH; [| | | |exact U]; [apply Rel_upd; auto|apply dom_upd; auto|auto|intros o0 I0; apply Io; right; exact I0].
    Qed.
    (* an update of a caller variable in the merged frame *)
    Lemma Rel_upd_caller : forall eg ec e2 x v, Rel eg ec e2 -> dom_in eg VG -> In x VF -> Rel eg (upd ec x v) (upd e2 x v).
    Proof.
      intros eg ec e2 x v [R1 R2] Dg Ix. split.
      - intros y w E. unfold upd. destruct (N.eqb_spec (rn y) x) as [Ey|_]; [exfalso; apply (rn_fresh y); [eapply Dg; eauto|rewrite Ey; exact Ix]|]. apply R1. exact E.
      - apply ext_upd. exact R2.
    Qed.

    (* ---------- facts about callee instructions (reflection of the checker's conditions) ---------- *)
    Lemma blockG_lt : forall j pc i, nth_error (nth_block G j) pc = Some i -> j < nG.
    Proof.
      intros j pc i E. destruct (Nat.lt_ge_cases j nG) as [|Ge]; [auto|]. unfold nth_block in E. rewrite nth_overflow in E by exact Ge.
      destruct pc; discriminate.
    Qed.
    Lemma in_insts : forall (H : func) j pc i, nth_error (nth_block H j) pc = Some i -> j < List.length H -> In i (func_insts H).
    Proof.
      intros H j pc i E L. unfold func_insts. apply in_concat. exists (nth_block H j). split; [apply nth_In; exact L|eapply nth_error_In; eauto].
    Qed.
    Lemma in_vars : forall (H : func) j pc i x, nth_error (nth_block H j) pc = Some i -> j < List.length H -> In x (inst_vars i) -> In x (func_vars H).
    Proof.
      intros H j pc i x E L I. unfold func_vars. apply in_flat_map. exists (nth_block H j). split; [apply nth_In; exact L|].
      apply in_flat_map. exists i. split; [eapply nth_error_In; eauto|exact I].
    Qed.
    Lemma out_in_vars : forall i x, In x (i_outs i) -> In x (inst_vars i).
    Proof. intros. unfold inst_vars. apply in_or_app. right. auto. Qed.
    Lemma arg_in_vars : forall i x, In (OVar x) (i_args i) -> In x (inst_vars i).
    Proof. intros. unfold inst_vars. apply in_or_app. left. apply in_flat_map. exists (OVar x). split; [auto|left; reflexivity]. Qed.

    Lemma block_ok_G : forall j, j < nG -> block_ok nGN (nth_block G j) = true.
    Proof.
      intros j Hj. unfold func_ok in HokG. apply andb_prop in HokG. destruct HokG as [A _]. rewrite forallb_forall in A.
      apply A. unfold nth_block. apply nth_In. exact Hj.
    Qed.
    Lemma ctl_last_gen : forall m (blk : block) pc i, block_ok m blk = true -> nth_error blk pc = Some i -> is_ctl i = true -> S pc = List.length blk.
    Proof.
      intros m blk pc i K E C. pose proof (nth_error_lt _ _ _ _ E) as L. destruct (Nat.eq_dec (S pc) (List.length blk)); [auto|].
      exfalso. unfold block_ok in K.
      apply andb_prop in K. destruct K as [K _]. apply andb_prop in K. destruct K as [_ K]. rewrite forallb_forall in K.
      specialize (K i (in_removelast _ _ _ E ltac:(lia))). rewrite C in K. discriminate.
    Qed.

    (* the conjuncts of callee_ok *)
    Lemma callee_inv : forall (G0 : func) (k : nat), callee_ok G0 k = true -> exists b0 rest, G0 = b0 :: rest /\
      forallb (fun b => forallb (fun i => negb (is_param i)) b) rest = true /\
      forallb (fun i => if is_param i then match i_outs i with [_] => match i_args i with [] => true | _ => false end | _ => false end else true) b0 = true /\
      forallb (fun i => negb (is_op "djmp" i)) (func_insts G0) = true /\
      lead_phis b0 = [] /\
      forallb (fun i => if is_op "jmp" i || is_op "jnz" i
                        then forallb (fun o => match o with OLab l => negb (N.eqb l 0) | _ => true end) (i_args i) else true) (func_insts G0) = true /\
      forallb (fun i => if is_op "ret" i
                        then Nat.eqb (List.length (removelast (i_args i))) k &&
                             forallb (fun o => match o with OLab _ => false | _ => true end) (removelast (i_args i)) &&
                             negb (match i_args i with [] => true | _ => false end) &&
                             match i_outs i with [] => true | _ => false end
                        else true) (func_insts G0) = true.
    Proof.
      intros G0 k H. unfold callee_ok in H. destruct G0 as [|b0 rest]; [discriminate|]. exists b0, rest. split; [reflexivity|].
      repeat (apply andb_prop in H; destruct H as [H ?]).
      repeat split; auto. destruct (lead_phis b0); [reflexivity|discriminate].
    Qed.
    Definition calleeG := callee_inv G (List.length outs) HcalleeG.

    Lemma G_param : forall j pc i, nth_error (nth_block G j) pc = Some i -> is_param i = true -> j = 0 /\ exists o, i_outs i = [o] /\ i_args i = [].
    Proof.
      intros j pc i E Pm. destruct calleeG as [b0 [rest [EG [A [Bq _]]]]]. destruct j as [|j].
      - split; [reflexivity|]. rewrite EG in E. cbn [nth_block nth] in E. rewrite forallb_forall in Bq. specialize (Bq i (nth_error_In _ _ E)). rewrite Pm in Bq.
        destruct (i_outs i) as [|o [|]]; try discriminate. destruct (i_args i); try discriminate. eauto.
      - exfalso. pose proof (blockG_lt _ _ _ E) as Lt. unfold nG in Lt. rewrite EG in E, Lt. cbn [nth_block nth List.length] in E, Lt.
        rewrite forallb_forall in A. assert (I : In (nth j rest []) rest) by (apply nth_In; lia).
        specialize (A _ I). rewrite forallb_forall in A. specialize (A i (nth_error_In _ _ E)). rewrite Pm in A. discriminate.
    Qed.
    Lemma G_nodjmp : forall j pc i, nth_error (nth_block G j) pc = Some i -> is_op "djmp" i = false.
    Proof.
      intros j pc i E. destruct calleeG as [b0 [rest [EG [_ [_ [A _]]]]]]. rewrite forallb_forall in A.
      specialize (A i (in_insts G _ _ _ E (blockG_lt _ _ _ E))). apply negb_true_iff in A. exact A.
    Qed.
    Lemma G_nozero : forall j pc i l, nth_error (nth_block G j) pc = Some i -> is_op "jmp" i || is_op "jnz" i = true ->
      In (OLab l) (i_args i) -> l <> 0%N.
    Proof.
      intros j pc i l E Op I. destruct calleeG as [b0 [rest [EG [_ [_ [_ [_ [A _]]]]]]]]. rewrite forallb_forall in A.
      specialize (A i (in_insts G _ _ _ E (blockG_lt _ _ _ E))). rewrite Op in A. rewrite forallb_forall in A. specialize (A _ I).
      apply negb_true_iff in A. apply N.eqb_neq in A. exact A.
    Qed.
    Lemma G_ret : forall j pc i, nth_error (nth_block G j) pc = Some i -> is_op "ret" i = true ->
      List.length (removelast (i_args i)) = List.length outs /\ Forall (fun o => match o with OLab _ => False | _ => True end) (removelast (i_args i)) /\
      i_args i <> [] /\ i_outs i = [].
    Proof.
      intros j pc i E Op. destruct calleeG as [b0 [rest [EG [_ [_ [_ [_ [_ A]]]]]]]]. rewrite forallb_forall in A.
      specialize (A i (in_insts G _ _ _ E (blockG_lt _ _ _ E))). rewrite Op in A.
      apply andb_prop in A. destruct A as [A A4]. apply andb_prop in A. destruct A as [A A3]. apply andb_prop in A. destruct A as [A1 A2].
      split; [apply Nat.eqb_eq; exact A1|]. split.
      - apply Forall_forall. intros o Io. rewrite forallb_forall in A2. specialize (A2 o Io). destruct o; auto; discriminate.
      - split; [destruct (i_args i); [discriminate|congruence]|destruct (i_outs i); [reflexivity|discriminate]].
    Qed.
    Lemma G_nolab : forall j pc i, nth_error (nth_block G j) pc = Some i -> is_phi i || is_op "jmp" i || is_op "jnz" i = false ->
      Forall olab_ok (i_args i).
    Proof.
      intros j pc i E Op. unfold no_block_label_values in HnolabG. rewrite forallb_forall in HnolabG.
      specialize (HnolabG i (in_insts G _ _ _ E (blockG_lt _ _ _ E))). rewrite Op in HnolabG. apply Forall_forall. intros o Io.
      rewrite forallb_forall in HnolabG. specialize (HnolabG o Io). destruct o; cbn; auto. apply N.leb_le. exact HnolabG.
    Qed.
    Lemma G_ctl_last : forall j pc i, nth_error (nth_block G j) pc = Some i -> is_ctl i = true -> S pc = List.length (nth_block G j).
    Proof. intros j pc i E C. eapply ctl_last_gen; eauto. apply block_ok_G. eapply blockG_lt; eauto. Qed.
    Lemma G_outs : forall j pc i x, nth_error (nth_block G j) pc = Some i -> In x (i_outs i) -> In x VG.
    Proof. intros. eapply in_vars; eauto. eapply blockG_lt; eauto. apply out_in_vars. auto. Qed.

    (* ---------- structure of a cloned block ---------- *)
    Notation CL := (clone_insts r base nGN bind outs nN).
    Definition pcount (l : list inst) : nat := List.length (filter is_param l).
    Definition noret (l : list inst) : Prop := forall i, In i l -> is_op "ret" i = false.

    Lemma clone_app : forall l1 l2 k, CL k (l1 ++ l2) = CL k l1 ++ CL (k + pcount l1) l2.
    Proof.
      induction l1 as [|a l1 IH]; intros l2 k; cbn [app clone_insts]; [unfold pcount; cbn; rewrite Nat.add_0_r; reflexivity|].
      unfold pcount. cbn [filter]. unfold is_param at 1. destruct (is_param_op (i_op a)) eqn:Pm.
      - cbn [List.length]. rewrite IH. unfold pcount. rewrite Nat.add_succ_r. reflexivity.
      - destruct (String.eqb (i_op a) "ret"); rewrite IH; unfold pcount; [rewrite <- !app_assoc|]; reflexivity.
    Qed.
    Lemma clone_len_noret : forall l k, noret l -> List.length (CL k l) = List.length l.
    Proof.
      induction l as [|a l IH]; intros k NR; cbn [clone_insts List.length]; [reflexivity|].
      assert (Ra : String.eqb (i_op a) "ret" = false) by (apply (NR a); left; reflexivity).
      assert (NR' : noret l) by (intros i I; apply NR; right; exact I).
      destruct (is_param_op (i_op a)); [|rewrite Ra]; cbn [List.length]; rewrite IH; auto.
    Qed.
    Lemma firstn_noret : forall j pc i, nth_error (nth_block G j) pc = Some i -> noret (firstn pc (nth_block G j)).
    Proof.
      intros j pc i E a Ia. destruct (is_op "ret" a) eqn:Ra; [|reflexivity]. exfalso.
      apply In_nth_error in Ia. destruct Ia as [q Eq].
      assert (Lq : q < pc). { pose proof (nth_error_lt _ _ _ _ Eq) as L. rewrite firstn_length in L. lia. }
      rewrite nth_error_firstn' in Eq by exact Lq.
      assert (C : is_ctl a = true) by (unfold is_ctl; rewrite Ra; repeat rewrite orb_true_r; reflexivity).
      pose proof (G_ctl_last _ _ _ Eq C). pose proof (nth_error_lt _ _ _ _ E). lia.
    Qed.
    Lemma split_at : forall (A : Type) (l : list A) k x, nth_error l k = Some x -> l = firstn k l ++ x :: skipn (S k) l.
    Proof.
      induction l as [|a l IH]; intros k x E; destruct k; cbn in E; try discriminate.
      - inversion E; subst. reflexivity.
      - cbn [firstn skipn app]. f_equal. apply IH. exact E.
    Qed.
    (* instruction q of the clone of (i :: rest) is found at position pc + q of the cloned block *)
    Lemma clone_at : forall j pc i q, nth_error (nth_block G j) pc = Some i -> j < nG ->
      nth_error (nth_block F' (n + 1 + j)) (pc + q) =
      nth_error (CL (pcount (firstn pc (nth_block G j))) (i :: skipn (S pc) (nth_block G j))) q.
    Proof.
      intros j pc i q E Lj. rewrite F'_clone by exact Lj. unfold cloneb. fold nGN.
      rewrite (split_at _ _ _ _ E) at 1. rewrite clone_app. cbn [Nat.add].
      pose proof (clone_len_noret _ 0 (firstn_noret _ _ _ E)) as Ln. rewrite firstn_length in Ln.
      pose proof (nth_error_lt _ _ _ _ E) as Lt. rewrite Nat.min_l in Ln by lia.
      rewrite nth_error_app2 by lia. rewrite Ln. replace (pc + q - pc) with q by lia. reflexivity.
    Qed.
    Lemma pcount_S : forall (blk : block) pc i, nth_error blk pc = Some i ->
      pcount (firstn (S pc) blk) = pcount (firstn pc blk) + (if is_param i then 1 else 0).
    Proof.
      induction blk as [|a blk IH]; intros pc i E; destruct pc; cbn in E; try discriminate.
      - inversion E; subst. unfold pcount. cbn [firstn filter]. destruct (is_param i); reflexivity.
      - specialize (IH pc i E). unfold pcount in *. cbn [firstn filter] in *. destruct (is_param a); cbn [List.length]; rewrite IH; lia.
    Qed.

    (* ---------- phis of cloned blocks ---------- *)
    Notation RI := (ren_inst r base nGN).
    Notation RO := (ren_op r base nGN).
    Lemma is_phi_op : forall i, is_phi i = true -> i_op i = "phi".
    Proof. intros i H. unfold is_phi in H. apply String.eqb_eq in H. exact H. Qed.
    Lemma lead_phis_clone : forall blk k, lead_phis (CL k blk) = map RI (lead_phis blk).
    Proof.
      induction blk as [|a blk IH]; intros k; cbn [clone_insts lead_phis map]; [reflexivity|].
      destruct (is_phi a) eqn:Ph.
      - pose proof (is_phi_op a Ph) as Op. rewrite Op. cbn [is_param_op String.eqb Ascii.eqb Bool.eqb existsb orb andb].
        cbn [lead_phis]. replace (is_phi (RI a)) with true by (unfold is_phi, ren_inst; cbn [i_op]; rewrite Op; reflexivity).
        cbn [map]. rewrite IH. reflexivity.
      - destruct (is_param_op (i_op a)); [reflexivity|]. destruct (String.eqb (i_op a) "ret").
        + match goal with |- lead_phis ((if ?c then _ else _) ++ _) = _ => destruct c end; [reflexivity|].
          match goal with |- lead_phis (map _ ?l ++ _) = _ => destruct l end; reflexivity.
        + cbn [lead_phis]. replace (is_phi (RI a)) with false by (unfold is_phi, ren_inst in *; cbn [i_op]; rewrite Ph; reflexivity). reflexivity.
    Qed.

    Lemma lead_phis_ok_gen : forall m (blk : block) i, block_ok m blk = true -> In i (lead_phis blk) ->
      is_phi i = true /\ exists o, i_outs i = [o] /\ phi_args_ok m (i_args i) = true.
    Proof.
      intros m blk i K I. split; [eapply lead_phis_all; eauto|]. unfold block_ok in K.
      apply andb_prop in K. destruct K as [K _]. apply andb_prop in K. destruct K as [K _]. apply andb_prop in K. destruct K as [_ K].
      rewrite forallb_forall in K. specialize (K i I). destruct (i_outs i) as [|o [|]]; try discriminate. eauto.
    Qed.

    Lemma phi_src_ren : forall a j v, phi_args_ok nGN a = true -> phi_src a (N.of_nat j) = Some v ->
      phi_src (map RO a) (N.of_nat (n + 1 + j)) = Some (RO v) /\ olab_ok v.
    Proof.
      fix IH 1. intros a j v Ok E. destruct a as [|[z|x|l] a]; cbn [phi_args_ok phi_src] in *; try discriminate.
      destruct a as [|w a]; [discriminate|].
      apply andb_prop in Ok. destruct Ok as [Ok Ok3]. apply andb_prop in Ok. destruct Ok as [Ok1 Ok2]. apply N.ltb_lt in Ok1.
      cbn [map ren_op]. replace (N.ltb l nGN) with true by (symmetry; apply N.ltb_lt; exact Ok1). cbn [phi_src].
      replace (N.eqb (base + l) (N.of_nat (n + 1 + j))) with (N.eqb l (N.of_nat j)).
      2:{ unfold base, nN. destruct (N.eqb_spec l (N.of_nat j)); symmetry; [apply N.eqb_eq|apply N.eqb_neq]; lia. }
      destruct (N.eqb l (N.of_nat j)).
      - inversion E; subst v. split; [reflexivity|]. destruct w; cbn; auto. discriminate.
      - apply IH; auto.
    Qed.

    Lemma phi_vals_ren : forall phis j eg ec e2 vs,
      (forall i, In i phis -> exists o, i_outs i = [o] /\ phi_args_ok nGN (i_args i) = true) ->
      Rel eg ec e2 -> phi_vals phis (N.of_nat j) eg = Some vs ->
      phi_vals (map RI phis) (N.of_nat (n + 1 + j)) e2 = Some (map (fun ov => (rn (fst ov), snd ov)) vs).
    Proof.
      induction phis as [|i phis IH]; intros j eg ec e2 vs Hall HR E; cbn [map ISyn.phi_vals] in *.
      - inversion E; subst. reflexivity.
      - destruct (Hall i (or_introl eq_refl)) as [o [Ho Ha]]. unfold ren_inst at 1. cbn [i_outs i_args]. rewrite Ho in *. cbn [map].
        destruct (phi_src (i_args i) (N.of_nat j)) as [src|] eqn:Ps; [|discriminate].
        destruct (phi_src_ren _ _ _ Ha Ps) as [Ps' Ol]. change (i_args (RI i)) with (map RO (i_args i)). rewrite Ps'.
        destruct (oval eg src) as [v|] eqn:Ov; [|discriminate]. destruct (phi_vals phis (N.of_nat j) eg) as [vs'|] eqn:Pv; [|discriminate].
        inversion E; subst vs. rewrite (oval_ren _ _ _ _ _ HR Ol Ov). rewrite (IH j eg ec e2 vs'); auto.
        intros i' I'. apply Hall. right. exact I'.
    Qed.

    Lemma phi_vals_outs : forall phis p e vs, phi_vals phis p e = Some vs -> forall ov, In ov vs -> exists i, In i phis /\ In (fst ov) (i_outs i).
    Proof.
      induction phis as [|i phis IH]; intros p e vs E ov I; cbn [ISyn.phi_vals] in E.
      - inversion E; subst. contradiction.
      - destruct (i_outs i) as [|o [|]] eqn:Ho; try discriminate. destruct (phi_src (i_args i) p); [|discriminate].
        destruct (oval e o0); [|discriminate]. destruct (phi_vals phis p e) as [vs'|] eqn:Pv; [|discriminate]. inversion E; subst vs.
        destruct I as [<-|I].
        + exists i. split; [left; reflexivity|]. rewrite Ho. left. reflexivity.
        + destruct (IH _ _ _ Pv ov I) as [i' [A Bq]]. exists i'. split; [right; exact A|exact Bq].
    Qed.

    Lemma Rel_fold : forall (vs : list (N * Z)) eg ec e2, Rel eg ec e2 -> dom_in eg VG -> dom_in ec VF -> (forall ov, In ov vs -> In (fst ov) VG) ->
      Rel (fold_left (fun e' ov => upd e' (fst ov) (snd ov)) vs eg) ec
          (fold_left (fun e' ov => upd e' (fst ov) (snd ov)) (map (fun ov => (rn (fst ov), snd ov)) vs) e2) /\
      dom_in (fold_left (fun e' ov => upd e' (fst ov) (snd ov)) vs eg) VG.
    Proof.
      induction vs as [|[o v] vs IH]; intros eg ec e2 HR Dg Dc Hin; cbn [fold_left map fst snd]; [auto|].
      apply IH; [apply Rel_upd; auto; apply (Hin (o, v)); left; reflexivity|apply dom_upd; auto; apply (Hin (o, v)); left; reflexivity|auto|].
      intros ov I. apply Hin. right. exact I.
    Qed.

    Lemma lead_phis_in : forall (blk : block) i, In i (lead_phis blk) -> In i blk.
    Proof. induction blk as [|a blk IH]; intros i I; cbn in I; [contradiction|]. destruct (is_phi a); [|contradiction]. destruct I as [<-|I]; [left; reflexivity|right; auto]. Qed.

    Lemma enter_clone : forall j j' eg ec e2 eg1 pc1, j' < nG -> Rel eg ec e2 -> dom_in eg VG -> dom_in ec VF ->
      enter (nth_block G j') j eg = Some (eg1, pc1) ->
      exists e21, enter (nth_block F' (n + 1 + j')) (n + 1 + j) e2 = Some (e21, pc1) /\ Rel eg1 ec e21 /\ dom_in eg1 VG.
    Proof.
      intros j j' eg ec e2 eg1 pc1 Lj HR Dg Dc En. unfold ISyn.enter in *.
      destruct (phi_vals (lead_phis (nth_block G j')) (N.of_nat j) eg) as [vs|] eqn:Pv; [|discriminate]. inversion En; subst eg1 pc1. clear En.
      rewrite F'_clone by exact Lj. unfold cloneb. fold nGN. rewrite lead_phis_clone.
      rewrite (phi_vals_ren _ _ _ _ _ _ (fun i I => proj2 (lead_phis_ok_gen _ _ i (block_ok_G j' Lj) I)) HR Pv). rewrite map_length.
      eexists. split; [reflexivity|]. apply Rel_fold; auto.
      intros ov I. destruct (phi_vals_outs _ _ _ _ Pv ov I) as [i [Ii Io]].
      apply lead_phis_in in Ii. apply In_nth_error in Ii. destruct Ii as [q Eq]. eapply G_outs; eauto.
    Qed.

    (* ---------- the assignments replacing a ret ---------- *)
    Lemma ovals_upd_other : forall l e x v, (forall y, In (OVar y) l -> y <> x) -> ovals (upd e x v) l = ovals e l.
    Proof.
      induction l as [|o l IH]; intros e x v H; cbn [ISyn.ovals]; [reflexivity|].
      rewrite IH by (intros y I; apply H; right; exact I).
      replace (oval (upd e x v) o) with (oval e o); [reflexivity|].
      destruct o as [z|y|l0]; cbn [ISyn.oval]; auto. unfold upd. destruct (N.eqb_spec y x) as [->|]; [exfalso; apply (H x); [left; reflexivity|reflexivity]|reflexivity].
    Qed.
    Lemma run_assigns : forall rv os vals bb q e2 efin pend w R,
      List.length rv = List.length os ->
      (forall t a, nth_error (map (fun vo : operand * N => mkI "assign" [fst vo] [snd vo]) (combine rv os)) t = Some a -> instr_at P' cf bb (q + t) = Some a) ->
      ovals e2 rv = Some vals -> (forall y, In (OVar y) rv -> ~ In y os) ->
      upd_many e2 os vals = Some efin ->
      exec P' cf bb (q + List.length rv) efin pend w R -> exec P' cf bb q e2 pend w R.
    Proof.
      induction rv as [|o rv IH]; intros os vals bb q e2 efin pend w R Ln Hat Ov Hfr Um Ex; destruct os as [|x os]; cbn [List.length] in Ln; try discriminate.
      - cbn [ISyn.ovals] in Ov. inversion Ov; subst vals. cbn in Um. inversion Um; subst efin. rewrite Nat.add_0_r in Ex. exact Ex.
      - cbn [ISyn.ovals] in Ov. destruct (oval e2 o) as [v|] eqn:Oo; [|discriminate]. destruct (ovals e2 rv) as [vs|] eqn:Os; [|discriminate].
        inversion Ov; subst vals. cbn [ISyn.upd_many] in Um.
        eapply e_assign; [|exact Oo|].
        + specialize (Hat 0 _ eq_refl). rewrite Nat.add_0_r in Hat. exact Hat.
        + apply (IH os vs bb (S q) (upd e2 x v) efin pend w R); [lia| | | |exact Um|].
          * intros t a E. replace (S q + t) with (q + S t) by lia. apply Hat. cbn [combine map nth_error]. exact E.
          * rewrite ovals_upd_other; [exact Os|]. intros y I ->. apply (Hfr x); [right; exact I|left; reflexivity].
          * intros y I J. apply (Hfr y); [right; exact I|right; exact J].
          * replace (S q + List.length rv) with (q + S (List.length rv)) by lia. exact Ex.
    Qed.

    (* ---------- instructions of the clone ---------- *)
    Lemma instr_G : forall j pc i, instr_at P' g j pc = Some i -> nth_error (nth_block G j) pc = Some i.
    Proof. intros j pc i E. unfold instr_at in E. rewrite P'_g in E. exact E. Qed.
    Lemma instr_F' : forall b pc, instr_at P' cf b pc = nth_error (nth_block F' b) pc.
    Proof. intros. unfold instr_at. rewrite P'_cf. reflexivity. Qed.

    Lemma head_clone : forall j pc i, nth_error (nth_block G j) pc = Some i -> is_param i = false -> is_op "ret" i = false ->
      instr_at P' cf (n + 1 + j) pc = Some (RI i).
    Proof.
      intros j pc i E Pm Rt. rewrite instr_F'. pose proof (clone_at j pc i 0 E (blockG_lt _ _ _ E)) as C. rewrite Nat.add_0_r in C. rewrite C.
      cbn [clone_insts]. unfold is_param in Pm. unfold is_op in Rt. rewrite Pm, Rt. reflexivity.
    Qed.
    Lemma head_param : forall j pc i, nth_error (nth_block G j) pc = Some i -> is_param i = true ->
      instr_at P' cf (n + 1 + j) pc = Some (mkI "assign" [nth (pcount (firstn pc (nth_block G j))) bind (OLit 0)] (map rn (i_outs i))).
    Proof.
      intros j pc i E Pm. rewrite instr_F'. pose proof (clone_at j pc i 0 E (blockG_lt _ _ _ E)) as C. rewrite Nat.add_0_r in C. rewrite C.
      cbn [clone_insts]. unfold is_param in Pm. rewrite Pm. reflexivity.
    Qed.
    Lemma ret_clone : forall j pc i q, nth_error (nth_block G j) pc = Some i -> is_op "ret" i = true ->
      instr_at P' cf (n + 1 + j) (pc + q) =
      nth_error (map (fun vo : operand * N => mkI "assign" [fst vo] [snd vo]) (combine (map RO (removelast (i_args i))) outs) ++ [mkI "jmp" [OLab nN] []]) q
      \/ List.length (map (fun vo : operand * N => mkI "assign" [fst vo] [snd vo]) (combine (map RO (removelast (i_args i))) outs)) < q.
    Proof.
      intros j pc i q E Rt.
      set (asg := map (fun vo : operand * N => mkI "assign" [fst vo] [snd vo]) (combine (map RO (removelast (i_args i))) outs)).
      destruct (Nat.lt_ge_cases (List.length asg) q) as [Lq|Lq]; [right; exact Lq|left].
      rewrite instr_F'. rewrite (clone_at j pc i q E (blockG_lt _ _ _ E)).
      cbn [clone_insts]. assert (Pm : is_param_op (i_op i) = false).
      { unfold is_op in Rt. apply String.eqb_eq in Rt. rewrite Rt. reflexivity. }
      unfold is_op in Rt. rewrite Pm, Rt.
      destruct (G_ret _ _ _ E Rt) as [Ln [Nl [Ne Eo]]].
      assert (Frv : filter (fun o => match o with OLab _ => false | _ => true end) (removelast (map RO (i_args i))) = map RO (removelast (i_args i))).
      { assert (Rm : forall l : list operand, removelast (map RO l) = map RO (removelast l)).
        { induction l as [|a [|a2 l] IHl]; cbn [map removelast]; auto. cbn [map removelast] in IHl. rewrite IHl. reflexivity. }
        rewrite Rm. clear -Nl. induction (removelast (i_args i)) as [|a l IH]; cbn [map filter]; [reflexivity|]. inversion Nl; subst.
        destruct a; cbn [ren_op]; try contradiction; rewrite IH; auto. }
      rewrite Frv.
      assert (Easg : (if match map RO (removelast (i_args i)) with [] => true | _ => false end then []
                      else map (fun vo : operand * N => mkI "assign" [fst vo] [snd vo]) (combine (map RO (removelast (i_args i))) outs)) = asg).
      { unfold asg. destruct (map RO (removelast (i_args i))); reflexivity. }
      rewrite Easg. rewrite app_assoc. rewrite nth_error_app1; [reflexivity|]. rewrite app_length. cbn [List.length]. lia.
    Qed.

    Lemma modelled_false : forall op, modelled op = false ->
      is_param_op op = false /\ String.eqb op "ret" = false /\ String.eqb op "phi" = false /\ String.eqb op "jmp" = false /\ String.eqb op "jnz" = false.
    Proof.
      intros op H. unfold modelled in H. cbn [existsb] in H. repeat (apply orb_false_iff in H; destruct H as [? H]).
      unfold is_param_op. cbn [existsb]. repeat split; auto. repeat (apply orb_false_iff; split); auto.
    Qed.
    Lemma ovals_app : forall e l1 l2 v1 v2, ovals e l1 = Some v1 -> ovals e l2 = Some v2 -> ovals e (l1 ++ l2) = Some (v1 ++ v2).
    Proof.
      induction l1 as [|o l1 IH]; intros l2 v1 v2 E1 E2; cbn [ISyn.ovals app] in *.
      - inversion E1; subst. exact E2.
      - destruct (oval e o); [|discriminate]. destruct (ovals e l1) as [vs|] eqn:Q; [|discriminate]. inversion E1; subst.
        rewrite (IH l2 vs v2 eq_refl E2). reflexivity.
    Qed.
    Lemma ovals_nth : forall e l vs k v rest, ovals e l = Some vs -> skipn k vs = v :: rest -> oval e (nth k l (OLit 0)) = Some v.
    Proof.
      induction l as [|o l IH]; intros vs k v rest E Sk; cbn [ISyn.ovals] in E.
      - inversion E; subst. destruct k; discriminate.
      - destruct (oval e o) as [vo|] eqn:Oo; [|discriminate]. destruct (ovals e l) as [vs'|] eqn:Q; [|discriminate]. inversion E; subst vs.
        destruct k; cbn [skipn nth] in *; [inversion Sk; subst; exact Oo|]. eapply IH; eauto.
    Qed.
    Lemma skipn_S : forall (A : Type) (l : list A) k v rest, skipn k l = v :: rest -> skipn (S k) l = rest.
    Proof. induction l as [|a l IH]; intros k v rest E; destruct k; cbn [skipn] in *; try discriminate; [inversion E; reflexivity|]. eapply IH; eauto. Qed.

    (* ---------- the clone simulates the callee ---------- *)
    Lemma post_nophi : lead_phis post = [].
    Proof.
      unfold post. destruct (skipn (S idx) B) as [|a t] eqn:Sk; [reflexivity|]. cbn [lead_phis].
      destruct (is_phi a) eqn:Ph; [|reflexivity]. exfalso.
      assert (Ea : nth_error B (S idx) = Some a) by (rewrite <- (Nat.add_0_r (S idx)), <- nth_error_skipn', Sk; reflexivity).
      pose proof (block_ok_F sb sb_lt) as K. fold B in K. unfold block_ok in K.
      apply andb_prop in K. destruct K as [K _]. apply andb_prop in K. destruct K as [K _]. apply andb_prop in K. destruct K as [K _].
      rewrite forallb_forall in K. unfold body_of in K.
      destruct (lead_pre B idx _ (mkI "jmp" [OLab base] []) Hinv eq_refl eq_refl) as [_ Bd].
      assert (I : In a (skipn (List.length (lead_phis B)) B)).
      { apply (nth_error_In _ (S idx - List.length (lead_phis B))). rewrite nth_error_skipn'. replace (List.length (lead_phis B) + (S idx - List.length (lead_phis B))) with (S idx) by lia. exact Ea. }
      specialize (K a I). rewrite Ph in K. discriminate.
    Qed.

    Lemma clone_sim : forall ec pend_c R bindvals,
      dom_in ec VF -> ovals ec bind = Some bindvals ->
      forall f j pc eg pendg w res, exec P' f j pc eg pendg w res -> f = g ->
      forall e2, Rel eg ec e2 -> dom_in eg VG ->
      (j = 0 -> pendg = skipn (pcount (firstn pc (nth_block G 0))) bindvals) ->
      match res with
      | RRet vals w' => forall ecv efin, upd_many ec outs vals = Some ecv -> ecv <<= efin -> exec P' cf n 0 efin pend_c w' R
      | RHalt op vs w' => R = RHalt op vs w'
      end ->
      exec P' cf (n + 1 + j) pc e2 pend_c w R.
    Proof.
      intros ec pend_c R bindvals Dc Hbind f j pc eg pendg w res Hex.
      induction Hex; intros Hf e2 HR Dg Hp HK; subst f.
      - (* assign *)
        pose proof (instr_G _ _ _ H) as E.
        pose proof (head_clone _ _ _ E eq_refl eq_refl) as Hc. unfold ren_inst in Hc. cbn [i_op i_args i_outs map] in Hc.
        pose proof (G_nolab _ _ _ E eq_refl) as Nl. cbn [i_args] in Nl. inversion Nl as [|? ? Nl1 Nl2].
        eapply e_assign; [exact Hc|eapply oval_ren; eauto|].
        apply IHHex; auto.
        + apply Rel_upd; auto. eapply G_outs; eauto. left. reflexivity.
        + apply dom_upd; auto. eapply G_outs; eauto. left. reflexivity.
        + intros ->. rewrite (pcount_S _ _ _ E). cbn. rewrite Nat.add_0_r. auto.
      - (* param *)
        pose proof (instr_G _ _ _ H) as E.
        assert (Pm : is_param (mkI op [] [o]) = true) by exact H0.
        destruct (G_param _ _ _ E Pm) as [-> _].
        pose proof (head_param _ _ _ E Pm) as Hc. cbn [i_outs map] in Hc.
        specialize (Hp eq_refl). symmetry in Hp.
        eapply e_assign; [exact Hc| |].
        + eapply oval_ext; [destruct HR as [_ HR2]; exact HR2|]. eapply ovals_nth; eauto.
        + apply IHHex; auto.
          * apply Rel_upd; auto. eapply G_outs; eauto. left. reflexivity.
          * apply dom_upd; auto. eapply G_outs; eauto. left. reflexivity.
          * intros _. rewrite (pcount_S _ _ _ E). rewrite Pm. rewrite Nat.add_1_r. symmetry. eapply skipn_S; eauto.
      - (* ext *)
        pose proof (instr_G _ _ _ H) as E.
        destruct (modelled_false _ H0) as [M1 [M2 [M3 [M4 M5]]]].
        pose proof (head_clone _ _ _ E M1 M2) as Hc.
        assert (Nl : Forall olab_ok (i_args i)) by (apply (G_nolab _ _ _ E); unfold is_phi, is_op; rewrite M3, M4, M5; reflexivity).
        destruct (Rel_upd_many _ _ _ _ _ _ HR Dg Dc (fun o0 I => G_outs _ _ _ o0 E I) H3) as [e21 [U2 [HR2 Dg2]]].
        eapply e_ext; [exact Hc|exact H0|cbn [ren_inst i_args]; eapply ovals_ren; eauto|exact H2|exact U2|].
        apply IHHex; auto.
        intros ->. rewrite (pcount_S _ _ _ E). unfold is_param. rewrite M1, Nat.add_0_r. auto.
      - (* halt *)
        pose proof (instr_G _ _ _ H) as E.
        destruct (modelled_false _ H0) as [M1 [M2 [M3 [M4 M5]]]].
        pose proof (head_clone _ _ _ E M1 M2) as Hc.
        assert (Nl : Forall olab_ok (i_args i)) by (apply (G_nolab _ _ _ E); unfold is_phi, is_op; rewrite M3, M4, M5; reflexivity).
        cbn in HK. rewrite HK.
        change (i_op i) with (i_op (RI i)). eapply e_halt; [exact Hc|exact H0|cbn [ren_inst i_args]; eapply ovals_ren; eauto|exact H2].
      - (* jmp *)
        pose proof (instr_G _ _ _ H) as E.
        pose proof (head_clone _ _ _ E eq_refl eq_refl) as Hc. unfold ren_inst in Hc. cbn [i_op i_args i_outs map ren_op] in Hc.
        pose proof (block_ok_G _ (blockG_lt _ _ _ E)) as K. unfold block_ok in K. apply andb_prop in K. destruct K as [_ K].
        rewrite forallb_forall in K. specialize (K _ (nth_error_In _ _ E)). cbn in K. apply N.ltb_lt in K.
        replace (N.ltb l nGN) with true in Hc by (symmetry; apply N.ltb_lt; exact K).
        rewrite P'_g in H0.
        assert (Ll : N.to_nat l < nG) by (unfold nGN in K; lia).
        destruct (enter_clone b (N.to_nat l) _ _ _ _ _ Ll HR Dg Dc H0) as [e21 [En [HR2 Dg2]]].
        assert (Lz : N.to_nat l <> 0). { pose proof (G_nozero _ _ _ l E eq_refl (or_introl eq_refl)). lia. }
        eapply e_jmp; [exact Hc| |].
        + rewrite P'_cf. replace (N.to_nat (base + l)) with (n + 1 + N.to_nat l) by (unfold base, nN; lia). exact En.
        + replace (N.to_nat (base + l)) with (n + 1 + N.to_nat l) by (unfold base, nN; lia).
          apply IHHex; auto. intros Z0. contradiction.
      - (* jnz *)
        pose proof (instr_G _ _ _ H) as E.
        pose proof (head_clone _ _ _ E eq_refl eq_refl) as Hc. unfold ren_inst in Hc. cbn [i_op i_args i_outs map ren_op] in Hc.
        pose proof (block_ok_G _ (blockG_lt _ _ _ E)) as K. unfold block_ok in K. apply andb_prop in K. destruct K as [_ K].
        rewrite forallb_forall in K. specialize (K _ (nth_error_In _ _ E)). cbn in K.
        apply andb_prop in K. destruct K as [K K3]. apply andb_prop in K. destruct K as [K1 K2]. apply N.ltb_lt in K1. apply N.ltb_lt in K2.
        replace (N.ltb t nGN) with true in Hc by (symmetry; apply N.ltb_lt; exact K1).
        replace (N.ltb fl nGN) with true in Hc by (symmetry; apply N.ltb_lt; exact K2).
        rewrite P'_g in H1.
        assert (Kl : (l < nGN)%N) by (unfold l; destruct (Z.eqb v 0); auto).
        assert (Ll : N.to_nat l < nG) by (unfold nGN in Kl; lia).
        destruct (enter_clone b (N.to_nat l) _ _ _ _ _ Ll HR Dg Dc H1) as [e21 [En [HR2 Dg2]]].
        assert (Lz : N.to_nat l <> 0).
        { assert (l <> 0%N); [|lia]. apply (G_nozero _ _ _ l E eq_refl). unfold l. cbn [i_args]. destruct (Z.eqb v 0); [right; right; left|right; left]; reflexivity. }
        assert (Oc : olab_ok c) by (destruct c; cbn; auto; discriminate).
        eapply e_jnz; [exact Hc|eapply oval_ren; eauto| |].
        + rewrite P'_cf. cbv zeta.
          replace (N.to_nat (if Z.eqb v 0 then (base + fl)%N else (base + t)%N)) with (n + 1 + N.to_nat l) by (unfold l, base, nN; destruct (Z.eqb v 0); lia).
          exact En.
        + cbv zeta.
          replace (N.to_nat (if Z.eqb v 0 then (base + fl)%N else (base + t)%N)) with (n + 1 + N.to_nat l) by (unfold l, base, nN; destruct (Z.eqb v 0); lia).
          apply IHHex; auto. intros Z0. contradiction.
      - (* djmp: excluded *)
        pose proof (instr_G _ _ _ H) as E. pose proof (G_nodjmp _ _ _ E) as Q. discriminate.
      - (* invoke of another function inside the callee *)
        pose proof (instr_G _ _ _ H) as E.
        pose proof (head_clone _ _ _ E eq_refl eq_refl) as Hc. unfold ren_inst in Hc. cbn [i_op i_args i_outs map ren_op] in Hc.
        replace (N.ltb (FB + N.of_nat g0) nGN) with false in Hc by (symmetry; apply N.ltb_ge; unfold nGN; lia).
        pose proof (G_nolab _ _ _ E eq_refl) as Nl. cbn [i_args] in Nl. inversion Nl as [|? ? Nl1 Nl2].
        destruct (Rel_upd_many _ _ _ _ _ _ HR Dg Dc (fun o0 I => G_outs _ _ _ o0 E I) H1) as [e21 [U2 [HR2 Dg2]]].
        eapply e_invoke; [exact Hc|eapply ovals_ren; eauto|exact Hex1|exact U2|].
        apply IHHex2; auto.
        intros ->. rewrite (pcount_S _ _ _ E). cbn. rewrite Nat.add_0_r. auto.
      - (* invoke that halts *)
        pose proof (instr_G _ _ _ H) as E.
        pose proof (head_clone _ _ _ E eq_refl eq_refl) as Hc. unfold ren_inst in Hc. cbn [i_op i_args i_outs map ren_op] in Hc.
        replace (N.ltb (FB + N.of_nat g0) nGN) with false in Hc by (symmetry; apply N.ltb_ge; unfold nGN; lia).
        pose proof (G_nolab _ _ _ E eq_refl) as Nl. cbn [i_args] in Nl. inversion Nl as [|? ? Nl1 Nl2].
        cbn in HK. rewrite HK.
        eapply e_invoke_halt; [exact Hc|eapply ovals_ren; eauto|exact Hex].
      - (* ret: assignments to the call-site outputs, then jump to the continuation *)
        pose proof (instr_G _ _ _ H) as E.
        destruct (G_ret _ _ _ E eq_refl) as [Ln [Nl [Ne _]]]. cbn [i_args] in *.
        cbn in HK.
        assert (Ov2 : ovals e2 (map RO (removelast args0)) = Some vals).
        { eapply ovals_ren; eauto. eapply Forall_impl; [|exact Nl]. intros a Ha. destruct a; cbn; auto. contradiction. }
        destruct HR as [HR1 HR2].
        assert (Lv : List.length vals = List.length outs).
        { rewrite <- Ln. clear -H0. revert vals H0. induction (removelast args0) as [|a l IH]; intros vals H0; cbn [ISyn.ovals] in H0.
          - inversion H0; reflexivity.
          - destruct (oval e a); [|discriminate]. destruct (ovals e l) as [vs|] eqn:Q; [|discriminate]. inversion H0; subst. cbn. f_equal. apply IH. reflexivity. }
        assert (Um : exists ecv, upd_many ec outs vals = Some ecv).
        { clear -Lv. revert vals ec Lv. induction outs as [|x os IH]; intros vals ec Lv; destruct vals as [|v vals]; cbn in Lv; try discriminate; cbn [ISyn.upd_many]; eauto. }
        destruct Um as [ecv Um].
        destruct (upd_many_ext _ _ _ _ _ HR2 Um) as [efin [Um2 Hext]].
        set (rv := map RO (removelast args0)) in *.
        eapply (run_assigns rv outs vals (n + 1 + b) pc e2 efin); [unfold rv; rewrite map_length; exact Ln| |exact Ov2| |exact Um2|].
        + intros t a Et. destruct (ret_clone _ _ _ t E eq_refl) as [Q|Q].
          * rewrite Q. cbn [i_args]. fold rv. rewrite nth_error_app1; [exact Et|]. eapply nth_error_lt; eauto.
          * exfalso. cbn [i_args] in Q. fold rv in Q. pose proof (nth_error_lt _ _ _ _ Et). lia.
        + intros y Iy Jy. unfold rv in Iy. apply in_map_iff in Iy. destruct Iy as [a [Ea Ia]].
          destruct a as [z|x|l0]; cbn [ren_op] in Ea; try discriminate.
          * inversion Ea; subst y. apply (rn_fresh x).
            -- eapply in_vars; [exact E|eapply blockG_lt; eauto|]. apply arg_in_vars. cbn [i_args].
               clear -Ia. induction args0 as [|a0 [|a1 l] IH]; cbn [removelast] in Ia; try contradiction. destruct Ia as [<-|Ia]; [left; reflexivity|right; apply IH; exact Ia].
            -- eapply in_vars; [exact Hinv|exact sb_lt|]. apply out_in_vars. exact Jy.
          * destruct (N.ltb l0 nGN); discriminate.
        + (* the jump to the continuation *)
          assert (Lrv : List.length rv = List.length outs) by (unfold rv; rewrite map_length; exact Ln).
          assert (Lasg : List.length (map (fun vo : operand * N => mkI "assign" [fst vo] [snd vo]) (combine rv outs)) = List.length rv)
            by (rewrite map_length, combine_length; lia).
          destruct (ret_clone _ _ _ (List.length rv) E eq_refl) as [Q|Q]; cbn [i_args] in Q; fold rv in Q; [|lia].
          rewrite nth_error_app2 in Q by lia. rewrite Lasg, Nat.sub_diag in Q. cbn [nth_error] in Q.
          eapply e_jmp; [exact Q| |].
          * rewrite P'_cf. unfold nN. rewrite Nat2N.id. rewrite F'_ret. unfold ISyn.enter. rewrite post_nophi. cbn. reflexivity.
          * unfold nN. rewrite Nat2N.id. apply (HK ecv efin Um Hext).
    Qed.

    (* ---------- the caller ---------- *)
    Lemma pm_next : forall b pc, ~ (b = sb /\ pc = idx) -> pmb b (S pc) = pmb b pc /\ pmp b (S pc) = S (pmp b pc).
    Proof.
      intros b pc Ns. unfold pmb, pmp, in_post. destruct (Nat.eqb_spec b sb) as [->|Nb]; cbn [andb]; [|auto].
      destruct (Nat.ltb_spec idx pc); destruct (Nat.ltb_spec idx (S pc)); try lia; auto.
    Qed.
    Lemma pm_site : pmb sb idx = sb /\ pmp sb idx = idx.
    Proof. unfold pmb, pmp, in_post. rewrite Nat.eqb_refl, Nat.ltb_irrefl. auto. Qed.
    Lemma pm_after : pmb sb (S idx) = n /\ pmp sb (S idx) = 0.
    Proof. unfold pmb, pmp, in_post. rewrite Nat.eqb_refl. replace (Nat.ltb idx (S idx)) with true by (symmetry; apply Nat.ltb_lt; lia). cbn [andb]. split; [reflexivity|lia]. Qed.
    Lemma pm_entry : pmb 0 0 = 0 /\ pmp 0 0 = 0.
    Proof. unfold pmb, pmp, in_post. replace (Nat.ltb idx 0) with false by (symmetry; apply Nat.ltb_ge; lia). rewrite andb_false_r. auto. Qed.

    Lemma instr_F : forall b pc, instr_at P cf b pc = nth_error (nth_block F b) pc.
    Proof. intros. unfold instr_at. rewrite (HF0 : nth_func P cf = F). reflexivity. Qed.
    Lemma not_site : forall b pc i, instr_at P cf b pc = Some i -> i_op i <> "invoke" -> ~ (b = sb /\ pc = idx).
    Proof.
      intros b pc i E Op [-> ->]. rewrite instr_F in E. fold B in E. rewrite Hinv in E.
      apply (f_equal (fun o => match o with Some x => i_op x | None => "" end)) in E. cbn [i_op] in E. congruence.
    Qed.
    Lemma F_outs : forall b pc i x, instr_at P cf b pc = Some i -> In x (i_outs i) -> In x VF.
    Proof. intros b pc i x E I. rewrite instr_F in E. eapply in_vars; [exact E|eapply block_lt; eauto|apply out_in_vars; exact I]. Qed.
    Lemma dom_fold : forall (vs : list (N * Z)) e V, dom_in e V -> (forall ov, In ov vs -> In (fst ov) V) ->
      dom_in (fold_left (fun e' ov => upd e' (fst ov) (snd ov)) vs e) V.
    Proof.
      induction vs as [|[o v] vs IH]; intros e V D Hin; cbn [fold_left fst snd]; [exact D|].
      apply IH; [apply dom_upd; auto; apply (Hin (o, v)); left; reflexivity|intros ov I; apply Hin; right; exact I].
    Qed.
    Lemma enter_dom : forall b0 b e e1 pc1, b0 < n -> dom_in e VF -> enter (nth_block F b0) b e = Some (e1, pc1) -> dom_in e1 VF.
    Proof.
      intros b0 b e e1 pc1 Lb D En. unfold ISyn.enter in En.
      destruct (phi_vals (lead_phis (nth_block F b0)) (N.of_nat b) e) as [vs|] eqn:Pv; [|discriminate]. inversion En; subst e1 pc1.
      apply dom_fold; [exact D|]. intros ov I. destruct (phi_vals_outs _ _ _ _ Pv ov I) as [i [Ii Io]].
      apply lead_phis_in in Ii. apply In_nth_error in Ii. destruct Ii as [q Eq]. eapply in_vars; [exact Eq|exact Lb|apply out_in_vars; exact Io].
    Qed.

    Lemma instr_other : forall f b pc, f <> cf -> instr_at P' f b pc = instr_at P f b pc.
    Proof. intros f b pc Nf. unfold instr_at. rewrite P'_other by exact Nf. reflexivity. Qed.

    Lemma instr_site : instr_at P' cf sb idx = Some (mkI "jmp" [OLab base] []).
    Proof.
      rewrite instr_F'. rewrite (F'_low sb sb_lt). unfold blk1. rewrite Nat.eqb_refl. apply fixb_nth; [|reflexivity].
      pose proof (nth_error_lt _ _ _ _ Hinv) as Lt.
      assert (Lp : List.length pre = idx) by (unfold pre; rewrite firstn_length; lia).
      rewrite nth_error_app2 by lia. rewrite Lp, Nat.sub_diag. reflexivity.
    Qed.
    Lemma nG_pos : 0 < nG.
    Proof. destruct calleeG as [b0 [rest [EG _]]]. unfold nG. rewrite EG. cbn. lia. Qed.
    Lemma enter_clone0 : forall e', enter (nth_block F' (N.to_nat base)) sb e' = Some (e', 0).
    Proof.
      intros e'. replace (N.to_nat base) with (n + 1 + 0) by (unfold base, nN; lia). rewrite (F'_clone 0 nG_pos).
      unfold cloneb. fold nGN. unfold ISyn.enter. rewrite lead_phis_clone.
      destruct calleeG as [b0 [rest [EG [_ [_ [_ [Lp _]]]]]]]. unfold nth_block. rewrite EG. cbn [nth]. rewrite Lp. reflexivity.
    Qed.

    Definition sim_stmt (f b pc : nat) (e : env) (pend : list Z) (w : Wd) (res : result Wd) : Prop :=
      (f <> cf -> exec P' f b pc e pend w res) /\
      (f = cf -> forall e', dom_in e VF -> e <<= e' -> exec P' cf (pmb b pc) (pmp b pc) e' pend w res).

    Lemma callee_run : forall h pend w res, sim_stmt h 0 0 empty_env pend w res -> exec P' h 0 0 empty_env pend w res.
    Proof.
      intros h pend w res [S1 S2]. destruct (Nat.eq_dec h cf) as [->|Nh]; [|auto].
      destruct pm_entry as [A Bq]. specialize (S2 eq_refl empty_env (dom_empty _) (ext_refl _)). rewrite A, Bq in S2. exact S2.
    Qed.

    Lemma label_lt : forall b pc i l, instr_at P cf b pc = Some i -> is_op "jmp" i || is_op "jnz" i = true -> In (OLab l) (i_args i) -> N.to_nat l < n.
    Proof.
      intros b pc i l E J I. rewrite instr_F in E. pose proof (block_ok_F b (block_lt _ _ _ E)) as K. unfold block_ok in K.
      apply andb_prop in K. destruct K as [_ K]. rewrite forallb_forall in K. specialize (K i (nth_error_In _ _ E)).
      assert (Ln : (l < nN)%N); [|unfold nN in Ln; lia].
      destruct (is_op "jmp" i) eqn:J1.
      - destruct (i_args i) as [|[z|x|l1] [|]]; try discriminate. destruct I as [I|[]]. inversion I; subst l1. apply N.ltb_lt. exact K.
      - cbn [orb] in J. rewrite J in K.
        destruct (i_args i) as [|c [|[z|x|t] [|[z2|x2|fl] [|]]]]; try discriminate.
        apply andb_prop in K. destruct K as [K K3]. apply andb_prop in K. destruct K as [K1 K2]. apply N.ltb_lt in K1. apply N.ltb_lt in K2.
        destruct I as [I|[I|[I|[]]]].
        + subst c. discriminate.
        + inversion I; subst. exact K1.
        + inversion I; subst. exact K2.
    Qed.
    Lemma label_lt_djmp : forall b pc tgt labs l, instr_at P cf b pc = Some (mkI "djmp" (tgt :: labs) []) -> In (OLab l) labs -> N.to_nat l < n.
    Proof.
      intros b pc tgt labs l E I. rewrite instr_F in E. pose proof (block_ok_F b (block_lt _ _ _ E)) as K. unfold block_ok in K.
      apply andb_prop in K. destruct K as [_ K]. rewrite forallb_forall in K. specialize (K _ (nth_error_In _ _ E)).
      cbn in K. rewrite forallb_forall in K. specialize (K _ I). cbn in K. apply N.ltb_lt in K. unfold nN in K. lia.
    Qed.

    Lemma param_facts : forall op, is_param_op op = true -> op <> "invoke" /\ String.eqb op "phi" = false.
    Proof.
      intros op H. unfold is_param_op in H. cbn [existsb] in H.
      apply orb_prop in H. destruct H as [H|H]; [apply String.eqb_eq in H; rewrite H; split; [discriminate|reflexivity]|].
      apply orb_prop in H. destruct H as [H|H]; [apply String.eqb_eq in H; rewrite H; split; [discriminate|reflexivity]|].
      apply orb_prop in H. destruct H as [H|H]; [apply String.eqb_eq in H; rewrite H; split; [discriminate|reflexivity]|discriminate H].
    Qed.
    Lemma modelled_false2 : forall op, modelled op = false -> op <> "invoke".
    Proof. intros op H E. rewrite E in H. discriminate H. Qed.

    Lemma main_sim : forall f b pc e pend w res, ISyn.exec Wd ext lv P f b pc e pend w res -> sim_stmt f b pc e pend w res.
    Proof.
      intros f b pc e pend w res Hex. induction Hex; split.
      - (* assign *) intros Nf. eapply e_assign; [rewrite instr_other by auto; exact H|exact H0|apply (proj1 IHHex Nf)].
      - intros -> e2 D X. assert (Ns : ~ (b = sb /\ pc = idx)) by (eapply not_site; [exact H|cbn [i_op]; discriminate]).
        pose proof (instr_pm _ _ _ H eq_refl Ns) as Hi. destruct (pm_next _ _ Ns) as [A1 A2].
        eapply e_assign; [exact Hi|eapply oval_ext; eauto|]. rewrite <- A1, <- A2.
        apply (proj2 IHHex eq_refl); [apply dom_upd; auto; eapply F_outs; [exact H|left; reflexivity]|apply ext_upd; auto].
      - (* param *) intros Nf. eapply e_param; [rewrite instr_other by auto; exact H|exact H0|apply (proj1 IHHex Nf)].
      - intros -> e2 D X. destruct (param_facts _ H0) as [Q1 Q2].
        assert (Ns : ~ (b = sb /\ pc = idx)) by (eapply not_site; [exact H|exact Q1]).
        pose proof (instr_pm _ _ _ H Q2 Ns) as Hi. destruct (pm_next _ _ Ns) as [A1 A2].
        eapply e_param; [exact Hi|exact H0|]. rewrite <- A1, <- A2.
        apply (proj2 IHHex eq_refl); [apply dom_upd; auto; eapply F_outs; [exact H|left; reflexivity]|apply ext_upd; auto].
      - (* ext *) intros Nf. eapply e_ext; [rewrite instr_other by auto; exact H|exact H0|exact H1|exact H2|exact H3|apply (proj1 IHHex Nf)].
      - intros -> e2 D X. destruct (modelled_false _ H0) as [_ [_ [M3 _]]].
        assert (Ns : ~ (b = sb /\ pc = idx)) by (eapply not_site; [exact H|apply modelled_false2; exact H0]).
        pose proof (instr_pm _ _ _ H M3 Ns) as Hi. destruct (pm_next _ _ Ns) as [A1 A2].
        destruct (upd_many_ext _ _ _ _ _ X H3) as [e21 [U2 X2]].
        eapply e_ext; [exact Hi|exact H0|eapply ovals_ext; eauto|exact H2|exact U2|]. rewrite <- A1, <- A2.
        apply (proj2 IHHex eq_refl); [|exact X2]. eapply dom_upd_many; [exact D| |exact H3]. intros x I. eapply F_outs; eauto.
      - (* halt *) intros Nf. eapply e_halt; [rewrite instr_other by auto; exact H|exact H0|exact H1|exact H2].
      - intros -> e2 D X. destruct (modelled_false _ H0) as [_ [_ [M3 _]]].
        assert (Ns : ~ (b = sb /\ pc = idx)) by (eapply not_site; [exact H|apply modelled_false2; exact H0]).
        pose proof (instr_pm _ _ _ H M3 Ns) as Hi.
        eapply e_halt; [exact Hi|exact H0|eapply ovals_ext; eauto|exact H2].
      - (* jmp *) intros Nf. eapply e_jmp; [rewrite instr_other by auto; exact H|rewrite P'_other by auto; exact H0|apply (proj1 IHHex Nf)].
      - intros -> e2 D X. assert (Ns : ~ (b = sb /\ pc = idx)) by (eapply not_site; [exact H|cbn [i_op]; discriminate]).
        pose proof (instr_pm _ _ _ H eq_refl Ns) as Hi.
        rewrite (HF0 : nth_func P cf = F) in H0.
        pose proof (label_lt _ _ _ l H eq_refl (or_introl eq_refl)) as Ll.
        destruct (enter_pm b pc _ l e e2 _ _ H eq_refl (or_introl eq_refl) Ll X H0) as [e21 [En [X1 Post]]].
        eapply e_jmp; [exact Hi|rewrite P'_cf; exact En|].
        pose proof (proj2 IHHex eq_refl e21 (enter_dom _ _ _ _ _ Ll D H0) X1) as Q. unfold pmb, pmp in Q. rewrite Post in Q. exact Q.
      - (* jnz *) intros Nf. eapply e_jnz; [rewrite instr_other by auto; exact H|exact H0|rewrite P'_other by auto; exact H1|apply (proj1 IHHex Nf)].
      - intros -> e2 D X. assert (Ns : ~ (b = sb /\ pc = idx)) by (eapply not_site; [exact H|cbn [i_op]; discriminate]).
        pose proof (instr_pm _ _ _ H eq_refl Ns) as Hi.
        rewrite (HF0 : nth_func P cf = F) in H1.
        assert (Il : In (OLab l) [c; OLab t; OLab fl]) by (unfold l; destruct (Z.eqb v 0); [right; right; left|right; left]; reflexivity).
        pose proof (label_lt _ _ _ l H eq_refl Il) as Ll.
        destruct (enter_pm b pc _ l e e2 _ _ H eq_refl Il Ll X H1) as [e21 [En [X1 Post]]].
        eapply e_jnz; [exact Hi|eapply oval_ext; eauto|rewrite P'_cf; exact En|].
        pose proof (proj2 IHHex eq_refl e21 (enter_dom _ _ _ _ _ Ll D H1) X1) as Q. unfold pmb, pmp in Q. rewrite Post in Q. exact Q.
      - (* djmp *) intros Nf. eapply e_djmp; [rewrite instr_other by auto; exact H|exact H0|exact H1|exact H2|rewrite P'_other by auto; exact H3|apply (proj1 IHHex Nf)].
      - intros -> e2 D X. assert (Ns : ~ (b = sb /\ pc = idx)) by (eapply not_site; [exact H|cbn [i_op]; discriminate]).
        pose proof (instr_pm _ _ _ H eq_refl Ns) as Hi.
        rewrite (HF0 : nth_func P cf = F) in H3.
        pose proof (label_lt_djmp _ _ _ _ l H H1) as Ll.
        destruct (enter_pm b pc _ l e e2 _ _ H eq_refl (or_intror H1) Ll X H3) as [e21 [En [X1 Post]]].
        eapply e_djmp; [exact Hi|eapply oval_ext; eauto|exact H1|exact H2|rewrite P'_cf; exact En|].
        pose proof (proj2 IHHex eq_refl e21 (enter_dom _ _ _ _ _ Ll D H3) X1) as Q. unfold pmb, pmp in Q. rewrite Post in Q. exact Q.
      - (* invoke *) intros Nf.
        eapply e_invoke; [rewrite instr_other by auto; exact H|exact H0|apply callee_run; exact IHHex1|exact H1|apply (proj1 IHHex2 Nf)].
      - intros -> e2 D X.
        assert (De : dom_in e' VF) by (eapply dom_upd_many; [exact D| |exact H1]; intros x I; eapply F_outs; eauto).
        destruct (upd_many_ext _ _ _ _ _ X H1) as [e21 [U2 X2]].
        destruct (Nat.eq_dec b sb) as [Eb|Nb]; [destruct (Nat.eq_dec pc idx) as [Ep|Np]|].
        + (* the inlined call site *)
          subst b pc. pose proof H as H'. rewrite instr_F in H'. fold B in H'. rewrite Hinv in H'. inversion H' as [[Eg Ea Eo]].
          assert (g0 = g) by lia. subst g0 args0 outs0. clear H' Eg.
          destruct pm_site as [A1 A2]. rewrite A1, A2.
          eapply e_jmp; [exact instr_site|rewrite P'_cf; apply enter_clone0|].
          replace (N.to_nat base) with (n + 1 + 0) by (unfold base, nN; lia).
          assert (Hb : ovals e bind = Some (avs ++ [lv (FB + N.of_nat g)%N])) by (unfold bind; apply ovals_app; [exact H0|reflexivity]).
          eapply (clone_sim e pend r0 _ D Hb g 0 0 empty_env _ w _ (callee_run _ _ _ _ IHHex1) eq_refl e2);
            [split; [intros x v0 Q; discriminate Q|exact X]|apply dom_empty|intros _; reflexivity|].
          intros ecv efin Um Hx. rewrite H1 in Um. inversion Um; subst ecv.
          destruct pm_after as [B1 B2]. pose proof (proj2 IHHex2 eq_refl efin De Hx) as Q. rewrite B1, B2 in Q. exact Q.
        + assert (Ns : ~ (b = sb /\ pc = idx)) by (intros [_ Q]; contradiction).
          pose proof (instr_pm _ _ _ H eq_refl Ns) as Hi. destruct (pm_next _ _ Ns) as [A1 A2].
          eapply e_invoke; [exact Hi|eapply ovals_ext; eauto|apply callee_run; exact IHHex1|exact U2|]. rewrite <- A1, <- A2.
          apply (proj2 IHHex2 eq_refl); auto.
        + assert (Ns : ~ (b = sb /\ pc = idx)) by (intros [Q _]; contradiction).
          pose proof (instr_pm _ _ _ H eq_refl Ns) as Hi. destruct (pm_next _ _ Ns) as [A1 A2].
          eapply e_invoke; [exact Hi|eapply ovals_ext; eauto|apply callee_run; exact IHHex1|exact U2|]. rewrite <- A1, <- A2.
          apply (proj2 IHHex2 eq_refl); auto.
      - (* invoke that halts *) intros Nf.
        eapply e_invoke_halt; [rewrite instr_other by auto; exact H|exact H0|apply callee_run; exact IHHex].
      - intros -> e2 D X.
        destruct (Nat.eq_dec b sb) as [Eb|Nb]; [destruct (Nat.eq_dec pc idx) as [Ep|Np]|].
        + subst b pc. pose proof H as H'. rewrite instr_F in H'. fold B in H'. rewrite Hinv in H'. inversion H' as [[Eg Ea Eo]].
          assert (g0 = g) by lia. subst g0 args0 outs0. clear H' Eg.
          destruct pm_site as [A1 A2]. rewrite A1, A2.
          eapply e_jmp; [exact instr_site|rewrite P'_cf; apply enter_clone0|].
          replace (N.to_nat base) with (n + 1 + 0) by (unfold base, nN; lia).
          assert (Hb : ovals e bind = Some (avs ++ [lv (FB + N.of_nat g)%N])) by (unfold bind; apply ovals_app; [exact H0|reflexivity]).
          eapply (clone_sim e pend _ _ D Hb g 0 0 empty_env _ w _ (callee_run _ _ _ _ IHHex) eq_refl e2);
            [split; [intros x v0 Q; discriminate Q|exact X]|apply dom_empty|intros _; reflexivity|].
          reflexivity.
        + assert (Ns : ~ (b = sb /\ pc = idx)) by (intros [_ Q]; contradiction).
          pose proof (instr_pm _ _ _ H eq_refl Ns) as Hi.
          eapply e_invoke_halt; [exact Hi|eapply ovals_ext; eauto|apply callee_run; exact IHHex].
        + assert (Ns : ~ (b = sb /\ pc = idx)) by (intros [Q _]; contradiction).
          pose proof (instr_pm _ _ _ H eq_refl Ns) as Hi.
          eapply e_invoke_halt; [exact Hi|eapply ovals_ext; eauto|apply callee_run; exact IHHex].
      - (* ret *) intros Nf. eapply e_ret; [rewrite instr_other by auto; exact H|exact H0].
      - intros -> e2 D X. assert (Ns : ~ (b = sb /\ pc = idx)) by (eapply not_site; [exact H|cbn [i_op]; discriminate]).
        pose proof (instr_pm _ _ _ H eq_refl Ns) as Hi.
        eapply e_ret; [exact Hi|eapply ovals_ext; eauto].
    Qed.

    Lemma inline_forward : forall F2 h pend w res, inline_spec F G sb idx r = Some F2 ->
      ISyn.exec Wd ext lv P h 0 0 empty_env pend w res -> exec (set_nth P cf F2) h 0 0 empty_env pend w res.
    Proof.
      intros F2 h pend w res E Hex. rewrite spec_is in E. injection E as <-. apply callee_run. apply main_sim. exact Hex.
    Qed.
  End Inline.

  (* ---------- reflection of the checker ---------- *)
  Lemma list_eqb_eq : forall (A : Type) (eqb : A -> A -> bool), (forall a b, eqb a b = true -> a = b) ->
    forall l m, list_eqb eqb l m = true -> l = m.
  Proof.
    intros A eqb H. induction l as [|a l IH]; intros [|b m] E; cbn [list_eqb] in E; try discriminate; [reflexivity|].
    apply andb_prop in E. destruct E as [E1 E2]. f_equal; auto.
  Qed.
  Lemma operand_eqb_eq : forall a b, operand_eqb a b = true -> a = b.
  Proof.
    intros [x|x|x] [y|y|y] E; cbn [operand_eqb] in E; try discriminate; f_equal; [apply Z.eqb_eq|apply N.eqb_eq|apply N.eqb_eq]; exact E.
  Qed.
  Lemma inst_eqb_eq : forall a b, inst_eqb a b = true -> a = b.
  Proof.
    intros [o1 a1 u1] [o2 a2 u2] E. unfold inst_eqb in E. cbn [i_op i_args i_outs] in E.
    apply andb_prop in E. destruct E as [E E3]. apply andb_prop in E. destruct E as [E1 E2].
    apply String.eqb_eq in E1. apply (list_eqb_eq _ _ operand_eqb_eq) in E2.
    apply (list_eqb_eq _ _ (fun a b H => proj1 (N.eqb_eq a b) H)) in E3. subst. reflexivity.
  Qed.
  Lemma func_eqb_eq : forall a b, func_eqb a b = true -> a = b.
  Proof. apply list_eqb_eq. apply list_eqb_eq. exact inst_eqb_eq. Qed.

  (* Soundness of the inlining validator.  P: any program whose function cf is F and whose function g is G.  If the
     checker accepts (F, G, call site (sb, idx), renaming certificate r, transformed caller F2) then every complete run
     of any function h of P -- for every interpretation ext of the non-control instructions, every world and all
     pending arguments -- is also a run of the program in which F is replaced by F2, with the same result (returned
     values / halting instruction with its operands, and final world). *)
  Theorem inline_check_sound_main : forall (P : prog) (F G F2 : func) (cf g sb idx : nat) (r : rho),
    nth_func P cf = F -> nth_func P g = G -> inline_check F G cf g sb idx r F2 = true ->
    forall h pend w res, exec P h 0 0 empty_env pend w res -> exec (set_nth P cf F2) h 0 0 empty_env pend w res.
  Proof.
    intros P F G F2 cf g sb idx r HF HG H h pend w res Hex. unfold inline_check in H.
    destruct (nth_error (nth_block F sb) idx) as [[op iargs iouts]|] eqn:Hinv; [|discriminate].
    cbn [i_op i_args i_outs] in H. apply andb_prop in H. destruct H as [Hop H]. apply String.eqb_eq in Hop. subst op.
    destruct iargs as [|[z|x|gl] args]; try discriminate.
    apply andb_prop in H. destruct H as [H Hspec]. apply andb_prop in H. destruct H as [H Hfresh].
    apply andb_prop in H. destruct H as [H Hinj2]. apply andb_prop in H. destruct H as [H Hinj1].
    apply andb_prop in H. destruct H as [H Htot]. apply andb_prop in H. destruct H as [H Hbig].
    apply andb_prop in H. destruct H as [H Hnolab]. apply andb_prop in H. destruct H as [H HokG].
    apply andb_prop in H. destruct H as [H HokF]. apply andb_prop in H. destruct H as [H HlabG].
    apply andb_prop in H. destruct H as [H HlabF]. apply andb_prop in H. destruct H as [H Hcallee].
    apply andb_prop in H. destruct H as [Hgl Hne]. apply N.eqb_eq in Hgl. subst gl.
    apply negb_true_iff in Hne. apply Nat.eqb_neq in Hne. apply N.ltb_lt in Hbig.
    destruct (inline_spec F G sb idx r) as [Fs|] eqn:Es; [|discriminate]. apply func_eqb_eq in Hspec. subst F2.
    assert (Htot' : forall x, In x (func_vars G) -> exists y, rget r x = Some y).
    { intros x Ix. rewrite forallb_forall in Htot. specialize (Htot x Ix). destruct (rget r x) as [y|]; [eauto|discriminate]. }
    assert (Hfresh' : forall y, In y (map snd r) -> ~ In y (func_vars F)).
    { intros y Iy J. rewrite forallb_forall in Hfresh. specialize (Hfresh y Iy). apply negb_true_iff in Hfresh.
      apply memN_In in J. congruence. }
    eapply inline_forward with (F := F) (G := G) (g := g) (sb := sb) (idx := idx) (r := r) (args := args) (outs := iouts);
      try eassumption; try exact HF; try exact HG.
  Qed.
End Proofs.
