(* C14I: soundness of the inlining validator (ISyn.inline_check). *)
From Coq Require Import ZArith NArith Bool List String Lia.
From Verif Require Import C14I.ISyn.
Import ListNotations.
Open Scope string_scope.
Open Scope list_scope.

Section Proofs.
  Variable Wd : Type.
  Variable ext : string -> list Z -> Wd -> option (list Z * Wd).
  Variable lv : N -> Z.
  Notation exec := (exec Wd ext lv).
  Notation oval := (oval lv).
  Notation ovals := (ovals lv).
  Notation enter := (enter lv).
  Notation phi_vals := (phi_vals lv).

  (* ---------- environments ---------- *)
  Definition ext_env (e e' : env) : Prop := forall x v, e x = Some v -> e' x = Some v.
  Infix "<<=" := ext_env (at level 70).

  Lemma ext_refl : forall e, e <<= e. Proof. intros e x v H. exact H. Qed.
  Lemma ext_upd : forall e e' x v, e <<= e' -> upd e x v <<= upd e' x v.
  Proof. intros e e' x v H y w. unfold upd. destruct (N.eqb y x); auto. Qed.

  Lemma oval_ext : forall e e' o v, e <<= e' -> oval e o = Some v -> oval e' o = Some v.
  Proof. intros e e' [z|x|l] v H E; cbn in *; auto. Qed.
  Lemma ovals_ext : forall e e' l vs, e <<= e' -> ovals e l = Some vs -> ovals e' l = Some vs.
  Proof.
    induction l as [|o l IH]; intros vs H E; cbn in *; [exact E|].
    destruct (oval e o) as [v|] eqn:Ov; [|discriminate]. destruct (ovals e l) as [vs'|] eqn:Ovs; [|discriminate].
    rewrite (oval_ext _ _ _ _ H Ov), (IH _ H eq_refl). exact E.
  Qed.
  Lemma upd_many_ext : forall xs vs e e' e1, e <<= e' -> upd_many e xs vs = Some e1 ->
    exists e1', upd_many e' xs vs = Some e1' /\ e1 <<= e1'.
  Proof.
    induction xs as [|x xs IH]; intros vs e e' e1 H U; destruct vs as [|v vs]; cbn in *; try discriminate.
    - inversion U; subst. eauto.
    - eapply IH; [|exact U]. apply ext_upd. exact H.
  Qed.

  Definition dom_in (e : env) (V : list N) : Prop := forall x v, e x = Some v -> In x V.
  Lemma dom_upd : forall e V x v, dom_in e V -> In x V -> dom_in (upd e x v) V.
  Proof. intros e V x v D I y w. unfold upd. destruct (N.eqb_spec y x); [subst; auto|apply D]. Qed.
  Lemma dom_upd_many : forall xs vs e e1 V, dom_in e V -> (forall x, In x xs -> In x V) -> upd_many e xs vs = Some e1 -> dom_in e1 V.
  Proof.
    induction xs as [|x xs IH]; intros vs e e1 V D I U; destruct vs as [|v vs]; cbn in *; try discriminate.
    - inversion U; subst. exact D.
    - eapply IH; [| |exact U]; [apply dom_upd; auto|auto].
  Qed.
  Lemma dom_empty : forall V, dom_in empty_env V. Proof. intros V x v H. discriminate. Qed.

  (* ---------- entering a block ---------- *)
  Lemma phi_vals_ext : forall phis p e e' vs, e <<= e' -> phi_vals phis p e = Some vs -> phi_vals phis p e' = Some vs.
  Proof.
    induction phis as [|i phis IH]; intros p e e' vs H E; cbn in *; [exact E|].
    destruct (i_outs i) as [|o [|]]; try discriminate. destruct (phi_src (i_args i) p) as [src|]; [|discriminate].
    destruct (oval e src) as [v|] eqn:Ov; [|discriminate]. destruct (phi_vals phis p e) as [vs'|] eqn:Pv; [|discriminate].
    rewrite (oval_ext _ _ _ _ H Ov), (IH _ _ _ _ H Pv). exact E.
  Qed.
  Lemma fold_upd_ext : forall (vs : list (N * Z)) e e', e <<= e' ->
    fold_left (fun a ov => upd a (fst ov) (snd ov)) vs e <<= fold_left (fun a ov => upd a (fst ov) (snd ov)) vs e'.
  Proof. induction vs as [|[x v] vs IH]; intros e e' H; cbn; [exact H|]. apply IH. apply ext_upd. exact H. Qed.
  Lemma enter_ext : forall blk p e e' e1 pc1, e <<= e' -> enter blk p e = Some (e1, pc1) ->
    exists e1', enter blk p e' = Some (e1', pc1) /\ e1 <<= e1'.
  Proof.
    intros blk p e e' e1 pc1 H E. unfold ISyn.enter in *. destruct (phi_vals (lead_phis blk) (N.of_nat p) e) as [vs|] eqn:Pv; [|discriminate].
    rewrite (phi_vals_ext _ _ _ _ _ H Pv). inversion E; subst. eexists. split; [reflexivity|]. apply fold_upd_ext. exact H.
  Qed.

  (* ---------- list facts missing from the 8.16 library ---------- *)
  Lemma nth_error_skipn' : forall (A : Type) (l : list A) k j, nth_error (skipn k l) j = nth_error l (k + j).
  Proof. induction l as [|a l IH]; intros k j; destruct k; cbn; auto. destruct j; reflexivity. Qed.
  Lemma nth_error_firstn' : forall (A : Type) (l : list A) k j, j < k -> nth_error (firstn k l) j = nth_error l j.
  Proof.
    induction l as [|a l IH]; intros k j H; destruct k; cbn; try lia; [destruct j; reflexivity|].
    destruct j; cbn; [reflexivity|]. apply IH. lia.
  Qed.
  Lemma nth_error_lt : forall (A : Type) (l : list A) k x, nth_error l k = Some x -> k < List.length l.
  Proof. intros A l k x E. apply nth_error_Some. congruence. Qed.

  (* ---------- structure of the specified result ---------- *)
  Section Inline.
    Variables (F G : func) (cf g sb idx : nat) (r : rho) (args : list operand) (outs : list N).
    Let n := List.length F.
    Let nG := List.length G.
    Let B := nth_block F sb.
    Let pre := firstn idx B.
    Let post := skipn (S idx) B.
    Let succs := block_targets post.
    Let nN := N.of_nat n.
    Let base := (nN + 1)%N.
    Let bind := args ++ [OLab (FB + N.of_nat g)%N].
    Let fixb (k : nat) (blk : block) : block :=
      if existsb (N.eqb (N.of_nat k)) succs then map (fix_phi_inst (N.of_nat sb) nN) blk else blk.
    Let blk1 (k : nat) : block := fixb k (if Nat.eqb k sb then pre ++ [mkI "jmp" [OLab base] []] else nth_block F k).
    Let cloneb (b : block) : block := clone_insts r base (N.of_nat nG) bind outs nN 0 b.
    Let F' : func := map (fun kb : nat * block => fixb (fst kb) (if Nat.eqb (fst kb) sb then pre ++ [mkI "jmp" [OLab base] []] else snd kb))
                         (combine (seq 0 n) F) ++ [post] ++ map cloneb G.

    Hypothesis Hinv : nth_error B idx = Some (mkI "invoke" (OLab (FB + N.of_nat g)%N :: args) outs).

    Lemma spec_is : inline_spec F G sb idx r = Some F'.
    Proof. unfold inline_spec. fold B. rewrite Hinv. cbn [i_args i_outs]. reflexivity. Qed.

    Lemma combine_seq_nth : forall (l : list block) s k, k < List.length l ->
      nth_error (combine (seq s (List.length l)) l) k = Some (s + k, nth k l []).
    Proof.
      induction l as [|a l IH]; intros s k Hk; cbn in Hk; [lia|]. cbn [List.length seq combine].
      destruct k; cbn [nth_error nth]; [f_equal; f_equal; lia|]. rewrite IH by lia. f_equal. f_equal. lia.
    Qed.

    Lemma F'_low : forall k, k < n -> nth_block F' k = blk1 k.
    Proof.
      intros k Hk. unfold nth_block, F'. rewrite app_nth1 by (rewrite map_length, combine_length, seq_length; fold n; lia).
      apply nth_error_nth. rewrite nth_error_map. unfold n in *. rewrite combine_seq_nth by lia. cbn [option_map fst snd].
      reflexivity.
    Qed.
    Lemma F'_ret : nth_block F' n = post.
    Proof.
      unfold nth_block, F'. rewrite app_nth2 by (rewrite map_length, combine_length, seq_length; fold n; lia).
      rewrite map_length, combine_length, seq_length. fold n. replace (n - Nat.min n n) with 0 by lia. reflexivity.
    Qed.
    Lemma F'_clone : forall j, j < nG -> nth_block F' (n + 1 + j) = cloneb (nth_block G j).
    Proof.
      intros j Hj. unfold nth_block, F'. rewrite app_nth2 by (rewrite map_length, combine_length, seq_length; fold n; lia).
      rewrite map_length, combine_length, seq_length. fold n. replace (n + 1 + j - Nat.min n n) with (S j) by lia.
      cbn [app nth]. apply nth_error_nth. rewrite nth_error_map. unfold nG in Hj.
      destruct (nth_error G j) eqn:E; [|apply nth_error_None in E; lia]. cbn. f_equal. f_equal. symmetry. apply nth_error_nth. exact E.
    Qed.

    (* ---------- the two programs ---------- *)
    Fixpoint set_nth (P : prog) (k : nat) (X : func) : prog :=
      match P, k with
      | [], _ => []
      | _ :: t, O => X :: t
      | a :: t, S k' => a :: set_nth t k' X
      end.
    Lemma set_nth_same : forall P k X, k < List.length P -> nth_func (set_nth P k X) k = X.
    Proof. induction P as [|a P IH]; intros k X Hk; cbn in Hk; [lia|]. destruct k; cbn; [reflexivity|]. apply IH. lia. Qed.
    Lemma set_nth_other : forall P k X j, j <> k -> nth_func (set_nth P k X) j = nth_func P j.
    Proof.
      induction P as [|a P IH]; intros k X j N; cbn; [reflexivity|]. destruct k; destruct j; cbn; try reflexivity; try lia.
      apply IH. lia.
    Qed.

    Variable P : prog.
    Hypothesis HF : nth_func P cf = F.
    Hypothesis HG : nth_func P g = G.
    Hypothesis Hne : cf <> g.
    Let P' := set_nth P cf F'.

    Lemma cf_lt : cf < List.length P.
    Proof.
      destruct (Nat.lt_ge_cases cf (List.length P)); [auto|]. exfalso. unfold nth_func in HF. rewrite nth_overflow in HF by lia.
      unfold B, nth_block in Hinv. rewrite <- HF in Hinv. destruct sb; destruct idx; discriminate.
    Qed.
    Lemma P'_cf : nth_func P' cf = F'. Proof. apply set_nth_same. apply cf_lt. Qed.
    Lemma P'_other : forall f, f <> cf -> nth_func P' f = nth_func P f. Proof. intros. apply set_nth_other. auto. Qed.
    Lemma P'_g : nth_func P' g = G. Proof. rewrite P'_other by auto. exact HG. Qed.

    (* position map of the caller *)
    Definition in_post (b pc : nat) : bool := Nat.eqb b sb && Nat.ltb idx pc.
    Definition pmb (b pc : nat) : nat := if in_post b pc then n else b.
    Definition pmp (b pc : nat) : nat := if in_post b pc then pc - idx - 1 else pc.

    Lemma fix_nonphi : forall a c i, is_phi i = false -> fix_phi_inst a c i = i.
    Proof. intros a c i H. unfold fix_phi_inst. rewrite H. reflexivity. Qed.
    Lemma fixb_nth : forall k blk pc i, nth_error blk pc = Some i -> is_phi i = false -> nth_error (fixb k blk) pc = Some i.
    Proof.
      intros k blk pc i E Hp. unfold fixb. destruct (existsb _ succs); [|exact E].
      rewrite nth_error_map, E. cbn. rewrite fix_nonphi by auto. reflexivity.
    Qed.

    Lemma block_lt : forall b pc i, nth_error (nth_block F b) pc = Some i -> b < n.
    Proof.
      intros b pc i E. destruct (Nat.lt_ge_cases b n); [auto|]. unfold nth_block in E. rewrite nth_overflow in E by (fold n; lia).
      destruct pc; discriminate.
    Qed.

    Lemma instr_pm : forall b pc i, instr_at P cf b pc = Some i -> is_phi i = false -> (b = sb /\ pc = idx -> False) ->
      instr_at P' cf (pmb b pc) (pmp b pc) = Some i.
    Proof.
      intros b pc i E Hp Ns. unfold instr_at in *. rewrite HF in E. rewrite P'_cf. pose proof (block_lt _ _ _ E) as Hb.
      unfold pmb, pmp, in_post. destruct (Nat.eqb_spec b sb) as [->|Nb]; cbn [andb].
      - destruct (Nat.ltb_spec idx pc) as [L|L].
        + rewrite F'_ret. unfold post. rewrite nth_error_skipn'. replace (S idx + (pc - idx - 1)) with pc by lia. exact E.
        + assert (pc < idx) by (destruct (Nat.eq_dec pc idx); [exfalso; apply Ns; auto|lia]).
          rewrite F'_low by auto. unfold blk1. rewrite Nat.eqb_refl. apply fixb_nth; [|auto].
          rewrite nth_error_app1 by (unfold pre; rewrite firstn_length; apply nth_error_lt in E; fold B in E; lia).
          unfold pre. rewrite nth_error_firstn' by lia. exact E.
      - rewrite F'_low by auto. unfold blk1. destruct (Nat.eqb_spec b sb); [contradiction|]. apply fixb_nth; auto.
    Qed.

    (* ---------- entering a caller block after the transformation ---------- *)
    Hypothesis HokF : func_ok F = true.
    Let sbN := N.of_nat sb.
    Definition fixo (o : operand) : operand := match o with OLab l => if N.eqb l sbN then OLab nN else o | _ => o end.

    Lemma block_ok_F : forall b, b < n -> block_ok nN (nth_block F b) = true.
    Proof.
      intros b Hb. unfold func_ok in HokF. apply andb_prop in HokF. destruct HokF as [A _]. rewrite forallb_forall in A.
      apply A. unfold nth_block. apply nth_In. exact Hb.
    Qed.
    Lemma n_lt_FB : (nN + nN + 2 < FB)%N.
    Proof. unfold func_ok in HokF. apply andb_prop in HokF. destruct HokF as [_ A]. apply N.ltb_lt in A. exact A. Qed.

    Lemma sb_lt : sb < n. Proof. eapply block_lt. exact Hinv. Qed.

    Lemma phi_src_fix_same : forall a, phi_args_ok nN a = true -> phi_src (map fixo a) nN = phi_src a sbN.
    Proof.
      fix IH 1. intros [|[z|x|l] [|v a]] H; cbn [phi_args_ok phi_src map fixo] in H |- *; try discriminate; try reflexivity.
      apply andb_prop in H. destruct H as [H Hr]. apply andb_prop in H. destruct H as [Hl Hv]. apply N.ltb_lt in Hl.
      destruct (N.eqb l sbN) eqn:E.
      - cbn [phi_src]. rewrite N.eqb_refl. destruct v; try discriminate; reflexivity.
      - cbn [phi_src]. replace (N.eqb l nN) with false by (symmetry; apply N.eqb_neq; lia). apply IH. exact Hr.
    Qed.
    Lemma phi_src_fix_other : forall a p, phi_args_ok nN a = true -> p <> sbN -> p <> nN -> phi_src (map fixo a) p = phi_src a p.
    Proof.
      fix IH 1. intros [|[z|x|l] [|v a]] p H N1 N2; cbn [phi_args_ok phi_src map fixo] in H |- *; try discriminate; try reflexivity.
      apply andb_prop in H. destruct H as [H Hr]. apply andb_prop in H. destruct H as [Hl Hv].
      destruct (N.eqb l sbN) eqn:E.
      - apply N.eqb_eq in E. subst l. cbn [phi_src]. replace (N.eqb nN p) with false by (symmetry; apply N.eqb_neq; congruence).
        replace (N.eqb sbN p) with false by (symmetry; apply N.eqb_neq; congruence). apply IH; auto.
      - cbn [phi_src]. destruct (N.eqb l p); [destruct v; try discriminate; reflexivity|]. apply IH; auto.
    Qed.

    Lemma fix_is_map : forall i, is_phi i = true -> fix_phi_inst sbN nN i = mkI (i_op i) (map fixo (i_args i)) (i_outs i).
    Proof. intros i H. unfold fix_phi_inst. rewrite H. reflexivity. Qed.
    Lemma lead_phis_all : forall blk i, In i (lead_phis blk) -> is_phi i = true.
    Proof. induction blk as [|a blk IH]; intros i I; cbn in I; [contradiction|]. destruct (is_phi a) eqn:E; [|contradiction]. destruct I as [<-|I]; auto. Qed.
    Lemma lead_phis_map_fix : forall blk, lead_phis (map (fix_phi_inst sbN nN) blk) = map (fix_phi_inst sbN nN) (lead_phis blk).
    Proof.
      induction blk as [|a blk IH]; cbn; [reflexivity|].
      assert (E : is_phi (fix_phi_inst sbN nN a) = is_phi a) by (unfold fix_phi_inst; destruct (is_phi a) eqn:Q; [unfold is_phi in *; cbn; exact Q|exact Q]).
      rewrite E. destruct (is_phi a); cbn; [rewrite IH|]; reflexivity.
    Qed.

    Lemma phi_vals_fix : forall phis p p' e,
      (forall i, In i phis -> is_phi i = true /\ exists o, i_outs i = [o] /\ phi_args_ok nN (i_args i) = true) ->
      ((p = sbN /\ p' = nN) \/ (p' = p /\ p <> sbN /\ p <> nN)) ->
      phi_vals (map (fix_phi_inst sbN nN) phis) p' e = phi_vals phis p e.
    Proof.
      induction phis as [|i phis IH]; intros p p' e Hall Hp; cbn [map ISyn.phi_vals]; [reflexivity|].
      destruct (Hall i (or_introl eq_refl)) as [Ph [o [Ho Ha]]]. rewrite (fix_is_map i Ph). cbn [i_outs i_args]. rewrite Ho.
      assert (Es : phi_src (map fixo (i_args i)) p' = phi_src (i_args i) p).
      { destruct Hp as [[-> ->]|[-> [N1 N2]]]; [apply phi_src_fix_same|apply phi_src_fix_other]; auto. }
      rewrite Es, (IH p p' e); auto. intros j Hj. apply Hall. right. exact Hj.
    Qed.

    Lemma lead_phis_ok : forall b i, b < n -> In i (lead_phis (nth_block F b)) ->
      is_phi i = true /\ exists o, i_outs i = [o] /\ phi_args_ok nN (i_args i) = true.
    Proof.
      intros b i Hb I. split; [eapply lead_phis_all; eauto|]. pose proof (block_ok_F b Hb) as K. unfold block_ok in K.
      apply andb_prop in K. destruct K as [K _]. apply andb_prop in K. destruct K as [K _]. apply andb_prop in K. destruct K as [_ K].
      rewrite forallb_forall in K. specialize (K i I). destruct (i_outs i) as [|o [|]]; try discriminate. eauto.
    Qed.

    (* leading phis of the call-site block lie before the invoke *)
    Lemma lead_pre : forall (blk : block) k x y, nth_error blk k = Some x -> is_phi x = false -> is_phi y = false ->
      lead_phis (firstn k blk ++ [y]) = lead_phis blk /\ List.length (lead_phis blk) <= k.
    Proof.
      induction blk as [|a blk IH]; intros k x y E Hx Hy; destruct k; cbn in E; try discriminate.
      - inversion E; subst. cbn [firstn app lead_phis]. rewrite Hx, Hy. split; [reflexivity|cbn [List.length]; lia].
      - cbn [firstn app lead_phis]. destruct (is_phi a) eqn:Q.
        + destruct (IH k x y E Hx Hy) as [A Bd]. rewrite A. split; [reflexivity|]. cbn [List.length]. lia.
        + split; [reflexivity|]. cbn [List.length]. lia.
    Qed.

    Lemma in_removelast : forall (blk : block) pc i, nth_error blk pc = Some i -> S pc < List.length blk -> In i (removelast blk).
    Proof.
      induction blk as [|a blk IH]; intros pc i E L; cbn in L; [lia|]. destruct blk as [|a2 blk]; [cbn in L; lia|].
      destruct pc; cbn in E.
      - inversion E; subst. left. reflexivity.
      - right. apply (IH pc i E). cbn in *. lia.
    Qed.
    Lemma rev_head_last : forall (l : block) k x, nth_error l k = Some x -> S k = List.length l -> exists t, rev l = x :: t.
    Proof.
      induction l as [|a l IH]; intros k x E L; cbn in L; [lia|]. destruct k; cbn in E.
      - inversion E; subst. destruct l; [|cbn in L; lia]. exists []. reflexivity.
      - destruct (IH k x E ltac:(lia)) as [t Ht]. cbn [rev]. rewrite Ht. exists (t ++ [a]). reflexivity.
    Qed.

    Definition is_jump (i : inst) : bool := is_op "jmp" i || is_op "jnz" i || is_op "djmp" i.

    Lemma ctl_last : forall b pc i, nth_error (nth_block F b) pc = Some i -> is_ctl i = true -> S pc = List.length (nth_block F b).
    Proof.
      intros b pc i E C. pose proof (nth_error_lt _ _ _ _ E) as L. destruct (Nat.eq_dec (S pc) (List.length (nth_block F b))); [auto|].
      exfalso. pose proof (block_ok_F b (block_lt _ _ _ E)) as K. unfold block_ok in K.
      apply andb_prop in K. destruct K as [K _]. apply andb_prop in K. destruct K as [_ K]. rewrite forallb_forall in K.
      specialize (K i (in_removelast _ _ _ E ltac:(lia))). rewrite C in K. discriminate.
    Qed.

    Lemma enter_pm : forall b pc i l e e' e1 pc1,
      instr_at P cf b pc = Some i -> is_jump i = true -> In (OLab l) (i_args i) -> N.to_nat l < n ->
      e <<= e' -> enter (nth_block F (N.to_nat l)) b e = Some (e1, pc1) ->
      exists e1', enter (nth_block F' (N.to_nat l)) (pmb b pc) e' = Some (e1', pc1) /\ e1 <<= e1' /\ in_post (N.to_nat l) pc1 = false.
    Proof.
      intros b pc i l e e' e1 pc1 E J Il Ll Hext En. unfold instr_at in E. rewrite HF in E.
      assert (C : is_ctl i = true) by (unfold is_ctl; unfold is_jump in J; destruct (is_op "jmp" i); destruct (is_op "jnz" i); destruct (is_op "djmp" i); auto; discriminate).
      pose proof (ctl_last _ _ _ E C) as Last. pose proof (block_lt _ _ _ E) as Hb.
      set (L := N.to_nat l) in *.
      (* leading phis of the target in F' *)
      set (X := if Nat.eqb L sb then pre ++ [mkI "jmp" [OLab base] []] else nth_block F L).
      assert (LX : lead_phis X = lead_phis (nth_block F L) /\ (L = sb -> List.length (lead_phis (nth_block F L)) <= idx)).
      { unfold X. destruct (Nat.eqb_spec L sb) as [->|Nl].
        - destruct (lead_pre B idx _ (mkI "jmp" [OLab base] []) Hinv eq_refl eq_refl) as [A Bd]. split; [exact A|intros _; exact Bd].
        - split; [reflexivity|intros; contradiction]. }
      destruct LX as [LX Lidx].
      unfold ISyn.enter in En. destruct (phi_vals (lead_phis (nth_block F L)) (N.of_nat b) e) as [vs|] eqn:Pv; [|discriminate].
      inversion En; subst e1 pc1. clear En.
      pose proof (phi_vals_ext _ _ _ _ _ _ _ Hext Pv) as Pv'.
      assert (Post : in_post L (List.length (lead_phis (nth_block F L))) = false).
      { unfold in_post. destruct (Nat.eqb_spec L sb) as [Es|]; [|reflexivity]. cbn. apply Nat.ltb_ge. auto. }
      assert (Goal : phi_vals (lead_phis (nth_block F' L)) (N.of_nat (pmb b pc)) e' = Some vs /\
                     List.length (lead_phis (nth_block F' L)) = List.length (lead_phis (nth_block F L))).
      { rewrite F'_low by auto. unfold blk1. fold X. unfold fixb, pmb.
        destruct (in_post b pc) eqn:IP.
        - (* the jump is in the moved tail: the target is a successor, its phis were fixed *)
          unfold in_post in IP. apply andb_prop in IP. destruct IP as [Eb Lt]. apply Nat.eqb_eq in Eb. subst b. apply Nat.ltb_lt in Lt.
          assert (Sx : existsb (N.eqb (N.of_nat L)) succs = true).
          { unfold succs, block_targets. fold B in E, Last.
            assert (Ep : nth_error post (pc - idx - 1) = Some i) by (unfold post; rewrite nth_error_skipn'; replace (S idx + (pc - idx - 1)) with pc by lia; exact E).
            destruct (rev_head_last post (pc - idx - 1) i Ep) as [t Ht].
            { unfold post. rewrite skipn_length. lia. }
            rewrite Ht. apply existsb_exists. exists l. split; [|unfold L; rewrite N2Nat.id; apply N.eqb_refl].
            apply in_flat_map. exists (OLab l). split; [exact Il|left; reflexivity]. }
          rewrite Sx, lead_phis_map_fix, LX, map_length. split; [|reflexivity].
          rewrite (phi_vals_fix _ sbN nN e'); [exact Pv'| |left; split; [unfold sbN; reflexivity|reflexivity]].
          intros j Hj. apply (lead_phis_ok L); auto.
        - assert (Nb : b <> sb).
          { intros ->. unfold in_post in IP. rewrite Nat.eqb_refl in IP. cbn in IP. apply Nat.ltb_ge in IP.
            fold B in E, Last. pose proof (nth_error_lt _ _ _ _ Hinv). destruct (Nat.eq_dec pc idx) as [->|]; [|lia].
            rewrite Hinv in E. inversion E; subst i. discriminate. }
          destruct (existsb (N.eqb (N.of_nat L)) succs).
          + rewrite lead_phis_map_fix, LX, map_length. split; [|reflexivity].
            rewrite (phi_vals_fix _ (N.of_nat b) (N.of_nat b) e'); [exact Pv'| |right; split; [reflexivity|split; unfold sbN, nN; lia]].
            intros j Hj. apply (lead_phis_ok L); auto.
          + rewrite LX. split; [exact Pv'|reflexivity]. }
      destruct Goal as [G1 G2]. unfold ISyn.enter. rewrite G1, G2. eexists. split; [reflexivity|]. split; [apply fold_upd_ext; exact Hext|exact Post].
    Qed.

    (* ---------- the cloned callee ---------- *)
    Hypothesis HokG : func_ok G = true.
    Hypothesis HcalleeG : callee_ok G (List.length outs) = true.
    Hypothesis HnolabG : no_block_label_values G = true.
    Hypothesis Hbig : (nN + N.of_nat nG + 2 < FB)%N.
    Hypothesis Hrtot : forall x, In x (func_vars G) -> exists y, rget r x = Some y.
    Hypothesis Hrinj : nodupN (map snd r) = true.
    Hypothesis Hrfresh : forall y, In y (map snd r) -> ~ In y (func_vars F).
    Let VG := func_vars G.
    Let VF := func_vars F.
    Let nGN := N.of_nat nG.
    Notation rn := (ren r).

    Lemma memN_In : forall x l, memN x l = true <-> In x l.
    Proof.
      intros x l. unfold memN. rewrite existsb_exists. split.
      - intros [y [I E]]. apply N.eqb_eq in E. subst. exact I.
      - intros I. exists x. split; [exact I|apply N.eqb_refl].
    Qed.
    Lemma rget_in : forall (q : rho) x y, rget q x = Some y -> In y (map snd q).
    Proof.
      induction q as [|[a b] q IH]; intros x y E; cbn in E; [discriminate|]. destruct (N.eqb a x); [inversion E; subst; left; reflexivity|].
      right. eapply IH; eauto.
    Qed.
    Lemma rget_inj : forall (q : rho) x x' y, nodupN (map snd q) = true -> rget q x = Some y -> rget q x' = Some y -> x = x'.
    Proof.
      induction q as [|[a b] q IH]; intros x x' y ND E E'; cbn in *; [discriminate|].
      apply andb_prop in ND. destruct ND as [Nm ND]. apply negb_true_iff in Nm.
      destruct (N.eqb_spec a x); destruct (N.eqb_spec a x').
      - congruence.
      - inversion E; subst. exfalso. apply rget_in in E'. apply memN_In in E'. congruence.
      - inversion E'; subst. exfalso. apply rget_in in E. apply memN_In in E. congruence.
      - eapply IH; eauto.
    Qed.
    Lemma rn_inj : forall x x', In x VG -> In x' VG -> rn x = rn x' -> x = x'.
    Proof.
      intros x x' I I' E. destruct (Hrtot x I) as [y Hy]. destruct (Hrtot x' I') as [y' Hy'].
      unfold ren in E. rewrite Hy, Hy' in E. subst y'. eapply rget_inj; eauto.
    Qed.
    Lemma rn_fresh : forall x, In x VG -> ~ In (rn x) VF.
    Proof. intros x I. destruct (Hrtot x I) as [y Hy]. unfold ren. rewrite Hy. apply Hrfresh. eapply rget_in; eauto. Qed.

    (* relation between the callee frame (eg), the suspended caller frame (ec) and the merged frame (e2) *)
    Definition Rel (eg ec e2 : env) : Prop := (forall x v, eg x = Some v -> e2 (rn x) = Some v) /\ ec <<= e2.

    Definition olab_ok (o : operand) : Prop := match o with OLab l => (FB <= l)%N | _ => True end.
    Lemma ren_op_nolab : forall o, olab_ok o -> match o with OLab l => ren_op r base nGN o = OLab l | _ => True end.
    Proof. intros [z|x|l] H; cbn in *; auto. replace (N.ltb l nGN) with false; [reflexivity|]. symmetry. apply N.ltb_ge. unfold nGN. lia. Qed.

    Lemma oval_ren : forall eg ec e2 o v, Rel eg ec e2 -> olab_ok o -> oval eg o = Some v -> oval e2 (ren_op r base nGN o) = Some v.
    Proof.
      intros eg ec e2 [z|x|l] v [R1 R2] Ho E; cbn [ISyn.oval ren_op] in *; auto.
      pose proof (ren_op_nolab (OLab l) Ho) as K. cbn in K. cbn [ren_op] in K. rewrite K. exact E.
    Qed.
    Lemma ovals_ren : forall eg ec e2 l vs, Rel eg ec e2 -> Forall olab_ok l -> ovals eg l = Some vs ->
      ovals e2 (map (ren_op r base nGN) l) = Some vs.
    Proof.
      induction l as [|o l IH]; intros vs HR Fo E; cbn [ISyn.ovals map] in *; [exact E|]. inversion Fo; subst.
      destruct (oval eg o) as [v|] eqn:Ov; [|discriminate]. destruct (ovals eg l) as [vs'|] eqn:Ovs; [|discriminate].
      rewrite (oval_ren _ _ _ _ _ HR H1 Ov), (IH _ HR H2 eq_refl). exact E.
    Qed.

    Lemma Rel_upd : forall eg ec e2 o v, Rel eg ec e2 -> dom_in eg VG -> dom_in ec VF -> In o VG ->
      Rel (upd eg o v) ec (upd e2 (rn o) v).
    Proof.
      intros eg ec e2 o v [R1 R2] Dg Dc Io. split.
      - intros x w. unfold upd. destruct (N.eqb_spec x o) as [->|Nx].
        + rewrite N.eqb_refl. auto.
        + intros E. destruct (N.eqb_spec (rn x) (rn o)) as [Er|_]; [exfalso; apply Nx; apply rn_inj; eauto|]. apply R1. exact E.
      - intros y w E. unfold upd. destruct (N.eqb_spec y (rn o)) as [->|_]; [exfalso; apply (rn_fresh o Io); eapply Dc; eauto|]. apply R2. exact E.
    Qed.
    Lemma Rel_upd_many : forall os vs eg ec e2 eg1, Rel eg ec e2 -> dom_in eg VG -> dom_in ec VF -> (forall o, In o os -> In o VG) ->
      upd_many eg os vs = Some eg1 -> exists e21, upd_many e2 (map rn os) vs = Some e21 /\ Rel eg1 ec e21 /\ dom_in eg1 VG.
    Proof.
      induction os as [|o os IH]; intros vs eg ec e2 eg1 HR Dg Dc Io U; destruct vs as [|v vs]; cbn [ISyn.upd_many map] in *; try discriminate.
      - inversion U; subst. eauto.
      - eapply IH; [| | | |exact U]; [apply Rel_upd; auto|apply dom_upd; auto|auto|auto].
    Qed.
    (* an update of a caller variable in the merged frame *)
    Lemma Rel_upd_caller : forall eg ec e2 x v, Rel eg ec e2 -> dom_in eg VG -> In x VF -> Rel eg (upd ec x v) (upd e2 x v).
    Proof.
      intros eg ec e2 x v [R1 R2] Dg Ix. split.
      - intros y w E. unfold upd. destruct (N.eqb_spec (rn y) x) as [Ey|_]; [exfalso; apply (rn_fresh y); [eapply Dg; eauto|rewrite Ey; exact Ix]|]. apply R1. exact E.
      - apply ext_upd. exact R2.
    Qed.

    (* ---------- facts about callee instructions (reflection of the checker's conditions) ---------- *)
    Lemma blockG_lt : forall j pc i, nth_error (nth_block G j) pc = Some i -> j < nG.
    Proof.
      intros j pc i E. destruct (Nat.lt_ge_cases j nG) as [|Ge]; [auto|]. unfold nth_block in E. rewrite nth_overflow in E by exact Ge.
      destruct pc; discriminate.
    Qed.
    Lemma in_insts : forall (H : func) j pc i, nth_error (nth_block H j) pc = Some i -> j < List.length H -> In i (func_insts H).
    Proof.
      intros H j pc i E L. unfold func_insts. apply in_concat. exists (nth_block H j). split; [apply nth_In; exact L|eapply nth_error_In; eauto].
    Qed.
    Lemma in_vars : forall (H : func) j pc i x, nth_error (nth_block H j) pc = Some i -> j < List.length H -> In x (inst_vars i) -> In x (func_vars H).
    Proof.
      intros H j pc i x E L I. unfold func_vars. apply in_flat_map. exists (nth_block H j). split; [apply nth_In; exact L|].
      apply in_flat_map. exists i. split; [eapply nth_error_In; eauto|exact I].
    Qed.
    Lemma out_in_vars : forall i x, In x (i_outs i) -> In x (inst_vars i).
    Proof. intros. unfold inst_vars. apply in_or_app. right. auto. Qed.
    Lemma arg_in_vars : forall i x, In (OVar x) (i_args i) -> In x (inst_vars i).
    Proof. intros. unfold inst_vars. apply in_or_app. left. apply in_flat_map. exists (OVar x). split; [auto|left; reflexivity]. Qed.

    Lemma block_ok_G : forall j, j < nG -> block_ok nGN (nth_block G j) = true.
    Proof.
      intros j Hj. unfold func_ok in HokG. apply andb_prop in HokG. destruct HokG as [A _]. rewrite forallb_forall in A.
      apply A. unfold nth_block. apply nth_In. exact Hj.
    Qed.
    Lemma ctl_last_gen : forall m (blk : block) pc i, block_ok m blk = true -> nth_error blk pc = Some i -> is_ctl i = true -> S pc = List.length blk.
    Proof.
      intros m blk pc i K E C. pose proof (nth_error_lt _ _ _ _ E) as L. destruct (Nat.eq_dec (S pc) (List.length blk)); [auto|].
      exfalso. unfold block_ok in K.
      apply andb_prop in K. destruct K as [K _]. apply andb_prop in K. destruct K as [_ K]. rewrite forallb_forall in K.
      specialize (K i (in_removelast _ _ _ E ltac:(lia))). rewrite C in K. discriminate.
    Qed.

    (* the conjuncts of callee_ok *)
    Lemma calleeG : exists b0 rest, G = b0 :: rest /\
      forallb (fun b => forallb (fun i => negb (is_param i)) b) rest = true /\
      forallb (fun i => if is_param i then match i_outs i with [_] => match i_args i with [] => true | _ => false end | _ => false end else true) b0 = true /\
      forallb (fun i => negb (is_op "djmp" i)) (func_insts G) = true /\
      lead_phis b0 = [] /\
      forallb (fun i => if is_op "jmp" i || is_op "jnz" i || is_phi i
                        then forallb (fun o => match o with OLab l => negb (N.eqb l 0) | _ => true end) (i_args i) else true) (func_insts G) = true /\
      forallb (fun i => if is_op "ret" i
                        then Nat.eqb (List.length (removelast (i_args i))) (List.length outs) &&
                             forallb (fun o => match o with OLab _ => false | _ => true end) (removelast (i_args i)) &&
                             negb (match i_args i with [] => true | _ => false end) &&
                             match i_outs i with [] => true | _ => false end
                        else true) (func_insts G) = true.
    Proof.
      unfold callee_ok in HcalleeG. destruct G as [|b0 rest]; [discriminate|]. exists b0, rest. split; [reflexivity|].
      repeat (apply andb_prop in HcalleeG; destruct HcalleeG as [HcalleeG ?]).
      repeat split; auto. destruct (lead_phis b0); [reflexivity|discriminate].
    Qed.

    Lemma G_param : forall j pc i, nth_error (nth_block G j) pc = Some i -> is_param i = true -> j = 0 /\ exists o, i_outs i = [o] /\ i_args i = [].
    Proof.
      intros j pc i E Pm. destruct calleeG as [b0 [rest [EG [A [Bq _]]]]]. destruct j as [|j].
      - split; [reflexivity|]. rewrite EG in E. cbn in E. rewrite forallb_forall in Bq. specialize (Bq i (nth_error_In _ _ E)). rewrite Pm in Bq.
        destruct (i_outs i) as [|o [|]]; try discriminate. destruct (i_args i); try discriminate. eauto.
      - exfalso. pose proof (blockG_lt _ _ _ E) as Lt. rewrite EG in E, Lt. unfold nG in Lt. cbn in E, Lt.
        rewrite forallb_forall in A. assert (I : In (nth j rest []) rest) by (apply nth_In; unfold nG in Lt; cbn in Lt; lia).
        specialize (A _ I). rewrite forallb_forall in A. specialize (A i (nth_error_In _ _ E)). rewrite Pm in A. discriminate.
    Qed.
    Lemma G_nodjmp : forall j pc i, nth_error (nth_block G j) pc = Some i -> is_op "djmp" i = false.
    Proof.
      intros j pc i E. destruct calleeG as [b0 [rest [EG [_ [_ [A _]]]]]]. rewrite forallb_forall in A.
      specialize (A i (in_insts G _ _ _ E (blockG_lt _ _ _ E))). apply negb_true_iff in A. exact A.
    Qed.
    Lemma G_nozero : forall j pc i l, nth_error (nth_block G j) pc = Some i -> is_op "jmp" i || is_op "jnz" i || is_phi i = true ->
      In (OLab l) (i_args i) -> l <> 0%N.
    Proof.
      intros j pc i l E Op I. destruct calleeG as [b0 [rest [EG [_ [_ [_ [_ [A _]]]]]]]]. rewrite forallb_forall in A.
      specialize (A i (in_insts G _ _ _ E (blockG_lt _ _ _ E))). rewrite Op in A. rewrite forallb_forall in A. specialize (A _ I).
      apply negb_true_iff in A. apply N.eqb_neq in A. exact A.
    Qed.
    Lemma G_ret : forall j pc i, nth_error (nth_block G j) pc = Some i -> is_op "ret" i = true ->
      List.length (removelast (i_args i)) = List.length outs /\ Forall (fun o => match o with OLab _ => False | _ => True end) (removelast (i_args i)) /\
      i_args i <> [] /\ i_outs i = [].
    Proof.
      intros j pc i E Op. destruct calleeG as [b0 [rest [EG [_ [_ [_ [_ [_ A]]]]]]]]. rewrite forallb_forall in A.
      specialize (A i (in_insts G _ _ _ E (blockG_lt _ _ _ E))). rewrite Op in A.
      apply andb_prop in A. destruct A as [A A4]. apply andb_prop in A. destruct A as [A A3]. apply andb_prop in A. destruct A as [A1 A2].
      split; [apply Nat.eqb_eq; exact A1|]. split.
      - apply Forall_forall. intros o Io. rewrite forallb_forall in A2. specialize (A2 o Io). destruct o; auto; discriminate.
      - split; [destruct (i_args i); [discriminate|congruence]|destruct (i_outs i); [reflexivity|discriminate]].
    Qed.
    Lemma G_nolab : forall j pc i, nth_error (nth_block G j) pc = Some i -> is_phi i || is_op "jmp" i || is_op "jnz" i = false ->
      Forall olab_ok (i_args i).
    Proof.
      intros j pc i E Op. unfold no_block_label_values in HnolabG. rewrite forallb_forall in HnolabG.
      specialize (HnolabG i (in_insts G _ _ _ E (blockG_lt _ _ _ E))). rewrite Op in HnolabG. apply Forall_forall. intros o Io.
      rewrite forallb_forall in HnolabG. specialize (HnolabG o Io). destruct o; cbn; auto. apply N.leb_le. exact HnolabG.
    Qed.
    Lemma G_ctl_last : forall j pc i, nth_error (nth_block G j) pc = Some i -> is_ctl i = true -> S pc = List.length (nth_block G j).
    Proof. intros j pc i E C. eapply ctl_last_gen; eauto. apply block_ok_G. eapply blockG_lt; eauto. Qed.
    Lemma G_outs : forall j pc i x, nth_error (nth_block G j) pc = Some i -> In x (i_outs i) -> In x VG.
    Proof. intros. eapply in_vars; eauto. eapply blockG_lt; eauto. apply out_in_vars. auto. Qed.

    (* ---------- structure of a cloned block ---------- *)
    Notation CL := (clone_insts r base nGN bind outs nN).
    Definition pcount (l : list inst) : nat := List.length (filter is_param l).
    Definition noret (l : list inst) : Prop := forall i, In i l -> is_op "ret" i = false.

    Lemma clone_app : forall l1 l2 k, CL k (l1 ++ l2) = CL k l1 ++ CL (k + pcount l1) l2.
    Proof.
      induction l1 as [|a l1 IH]; intros l2 k; cbn [app clone_insts]; [unfold pcount; cbn; rewrite Nat.add_0_r; reflexivity|].
      unfold pcount. cbn [filter]. unfold is_param at 1. destruct (is_param_op (i_op a)) eqn:Pm.
      - cbn [List.length]. rewrite IH. unfold pcount. rewrite Nat.add_succ_r. reflexivity.
      - destruct (String.eqb (i_op a) "ret"); rewrite IH; unfold pcount; [rewrite <- !app_assoc|]; reflexivity.
    Qed.
    Lemma clone_len_noret : forall l k, noret l -> List.length (CL k l) = List.length l.
    Proof.
      induction l as [|a l IH]; intros k NR; cbn [clone_insts List.length]; [reflexivity|].
      assert (Ra : String.eqb (i_op a) "ret" = false) by (apply (NR a); left; reflexivity).
      assert (NR' : noret l) by (intros i I; apply NR; right; exact I).
      destruct (is_param_op (i_op a)); [|rewrite Ra]; cbn [List.length]; rewrite IH; auto.
    Qed.
    Lemma firstn_noret : forall j pc i, nth_error (nth_block G j) pc = Some i -> noret (firstn pc (nth_block G j)).
    Proof.
      intros j pc i E a Ia. destruct (is_op "ret" a) eqn:Ra; [|reflexivity]. exfalso.
      apply In_nth_error in Ia. destruct Ia as [q Eq].
      assert (Lq : q < pc). { pose proof (nth_error_lt _ _ _ _ Eq) as L. rewrite firstn_length in L. lia. }
      rewrite nth_error_firstn' in Eq by exact Lq.
      assert (C : is_ctl a = true) by (unfold is_ctl; rewrite Ra; repeat rewrite orb_true_r; reflexivity).
      pose proof (G_ctl_last _ _ _ Eq C). pose proof (nth_error_lt _ _ _ _ E). lia.
    Qed.
    Lemma split_at : forall (A : Type) (l : list A) k x, nth_error l k = Some x -> l = firstn k l ++ x :: skipn (S k) l.
    Proof.
      induction l as [|a l IH]; intros k x E; destruct k; cbn in E; try discriminate.
      - inversion E; subst. reflexivity.
      - cbn [firstn skipn app]. f_equal. apply IH. exact E.
    Qed.
    (* instruction q of the clone of (i :: rest) is found at position pc + q of the cloned block *)
    Lemma clone_at : forall j pc i q, nth_error (nth_block G j) pc = Some i -> j < nG ->
      nth_error (nth_block F' (n + 1 + j)) (pc + q) =
      nth_error (CL (pcount (firstn pc (nth_block G j))) (i :: skipn (S pc) (nth_block G j))) q.
    Proof.
      intros j pc i q E Lj. rewrite F'_clone by exact Lj. unfold cloneb. fold nGN.
      rewrite (split_at _ _ _ _ E) at 1. rewrite clone_app. cbn [Nat.add].
      pose proof (clone_len_noret _ 0 (firstn_noret _ _ _ E)) as Ln. rewrite firstn_length in Ln.
      pose proof (nth_error_lt _ _ _ _ E) as Lt. rewrite Nat.min_l in Ln by lia.
      rewrite nth_error_app2 by lia. rewrite Ln. replace (pc + q - pc) with q by lia. reflexivity.
    Qed.
    Lemma pcount_S : forall (blk : block) pc i, nth_error blk pc = Some i ->
      pcount (firstn (S pc) blk) = pcount (firstn pc blk) + (if is_param i then 1 else 0).
    Proof.
      induction blk as [|a blk IH]; intros pc i E; destruct pc; cbn in E; try discriminate.
      - inversion E; subst. unfold pcount. cbn. destruct (is_param i); reflexivity.
      - specialize (IH pc i E). unfold pcount in *. cbn [firstn filter] in *. destruct (is_param a); cbn [List.length]; rewrite IH; lia.
    Qed.
  End Inline.
End Proofs.
