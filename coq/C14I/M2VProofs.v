(* C14I: soundness of the Mem2Var validator (M2V.mem2var_check), and the link to concretised allocas. *)
From Coq Require Import ZArith NArith Bool List String Lia.
From Verif Require Import C14I.ISyn C14I.IProofs C14I.M2V C04.Concretize.
Import ListNotations.
Open Scope string_scope.
Open Scope list_scope.
Open Scope nat_scope.

Lemma seq_combine_nth : forall (l : func) s b, b < List.length l -> nth_error (combine (seq s (List.length l)) l) b = Some (s + b, nth b l []).
Proof.
  induction l as [|a l IH]; intros s b Hb; cbn [List.length] in Hb; [lia|]. cbn [List.length seq combine]. destruct b; cbn [nth_error nth].
  - rewrite Nat.add_0_r. reflexivity.
  - rewrite (IH (Datatypes.S s) b ltac:(lia)). f_equal. f_equal. lia.
Qed.
Lemma seq_combine_in : forall (l : func) b, b < List.length l -> In (b, nth b l []) (combine (seq 0 (List.length l)) l).
Proof. intros l b Hb. apply (nth_error_In _ b). rewrite (seq_combine_nth l 0 b Hb). reflexivity. Qed.

Section M2VProofs.
  Variable Wd : Type.
  Variable ext : string -> list Z -> Wd -> option (list Z * Wd).
  Variable lv : N -> Z.
  Variable cget : Wd -> Z.
  Variable cset : Z -> Wd -> Wd.
  (* the cell is a component of the world ... *)
  Hypothesis cget_cset : forall v w, cget (cset v w) = v.
  Hypothesis cset_cset : forall u v w, cset u (cset v w) = cset u w.
  Hypothesis cset_cget : forall w, cset (cget w) w = w.
  (* ... that the oracle (every instruction that is not an mstore / mload through the promoted pointer) neither reads nor
     writes: the abstract-alloca semantics.  See concretized_frame below for its concrete counterpart. *)
  Hypothesis ext_frame : forall op args w c,
    ext op args (cset c w) = match ext op args w with Some (outs, w1) => Some (outs, cset c w1) | None => None end.

  Variables (F : func) (p x : N) (S : list nat).
  Let F' := m2v_spec F p x.
  Let VF := func_vars F.
  Let nN := N.of_nat (List.length F).
  Hypothesis HokF : func_ok F = true.
  Hypothesis Hx : ~ In x VF.
  Hypothesis Hxp : x <> p.
  Hypothesis Huse : forall i, In i (func_insts F) -> p_use_ok p i = true.
  Hypothesis Hcert : cert_ok F p S = true.
  Hypothesis Hreads : forall b, b < List.length F -> reads_ok F p S b 0 (nth_block F b) = true.

  Notation mexec := (M2V.mexec Wd ext lv cget cset p).
  Notation oval := (ISyn.oval lv).
  Notation ovals := (ISyn.ovals lv).
  Notation enter := (ISyn.enter lv).
  Infix "<<=" := ext_env (at level 70).

  (* ---------- small facts ---------- *)
  Lemma cget_ext : forall op args w outs w1, ext op args w = Some (outs, w1) -> cget w1 = cget w.
  Proof.
    intros op args w outs w1 E. pose proof (ext_frame op args w (cget w)) as Fr. rewrite cset_cget, E in Fr.
    inversion Fr as [Q]. rewrite Q at 1. apply cget_cset.
  Qed.
  Lemma blk_lt : forall b pc i, iat F b pc = Some i -> b < List.length F.
  Proof.
    intros b pc i E. destruct (Nat.lt_ge_cases b (List.length F)) as [|Ge]; [auto|]. unfold iat, nth_block in E. rewrite nth_overflow in E by exact Ge.
    destruct pc; discriminate.
  Qed.
  Lemma iat_in : forall b pc i, iat F b pc = Some i -> In i (func_insts F).
  Proof. intros b pc i E. eapply in_insts; [exact E|eapply blk_lt; eauto]. Qed.
  Lemma out_VF : forall b pc i y, iat F b pc = Some i -> In y (i_outs i) -> In y VF.
  Proof. intros b pc i y E I. eapply in_vars; [exact E|eapply blk_lt; eauto|apply out_in_vars; exact I]. Qed.
  Lemma out_ne_x : forall b pc i y, iat F b pc = Some i -> In y (i_outs i) -> y <> x.
  Proof. intros b pc i y E I ->. apply Hx. eapply out_VF; eauto. Qed.
  Lemma block_ok_b : forall b, b < List.length F -> block_ok nN (nth_block F b) = true.
  Proof.
    intros b Hb. pose proof HokF as K0. unfold func_ok in K0. apply andb_prop in K0. destruct K0 as [A _]. rewrite forallb_forall in A.
    apply A. unfold nth_block. apply nth_In. exact Hb.
  Qed.
  Lemma in_removelast' : forall (blk : block) pc i, nth_error blk pc = Some i -> Datatypes.S pc < List.length blk -> In i (removelast blk).
  Proof.
    induction blk as [|a blk IH]; intros pc i E L; cbn [List.length] in L; [lia|]. destruct blk as [|a2 blk]; [cbn [List.length] in L; lia|].
    destruct pc; cbn [nth_error] in E.
    - inversion E; subst. left. reflexivity.
    - right. apply (IH pc i E). cbn [List.length] in L |- *. lia.
  Qed.
  Lemma ctl_last' : forall b pc i, iat F b pc = Some i -> is_ctl i = true -> Datatypes.S pc = List.length (nth_block F b).
  Proof.
    intros b pc i E C. unfold iat in E. pose proof (nth_error_lt _ _ _ _ E) as L.
    destruct (Nat.eq_dec (Datatypes.S pc) (List.length (nth_block F b))); [auto|]. exfalso.
    pose proof (block_ok_b b (blk_lt _ _ _ E)) as K. unfold block_ok in K.
    apply andb_prop in K. destruct K as [K _]. apply andb_prop in K. destruct K as [_ K]. rewrite forallb_forall in K.
    specialize (K i (in_removelast' _ _ _ E ltac:(lia))). rewrite C in K. discriminate.
  Qed.

  (* ---------- the rewritten function ---------- *)
  Lemma reads_ok_at : forall l b k pc i, reads_ok F p S b k l = true -> nth_error l pc = Some i ->
    (is_cload p i || is_creturn p i = true -> stored_at F p S b (k + pc) = true) /\
    (is_creturn p i = true -> Datatypes.S pc = List.length l).
  Proof.
    induction l as [|a l IH]; intros b k pc i R E; [destruct pc; discriminate|].
    cbn [reads_ok] in R. apply andb_prop in R. destruct R as [R R3]. apply andb_prop in R. destruct R as [R1 R2].
    destruct pc; cbn [nth_error] in E.
    - inversion E; subst a. rewrite Nat.add_0_r. split.
      + intros Q. rewrite Q in R1. exact R1.
      + intros Q. rewrite Q in R2. destruct l; [reflexivity|discriminate].
    - destruct (IH b (Datatypes.S k) pc i R3 E) as [A Bq]. split.
      + intros Q. replace (k + Datatypes.S pc) with (Datatypes.S k + pc) by lia. auto.
      + intros Q. cbn [List.length]. rewrite (Bq Q). reflexivity.
  Qed.
  Lemma reads_at : forall b pc i, iat F b pc = Some i ->
    (is_cload p i || is_creturn p i = true -> stored_at F p S b pc = true) /\
    (is_creturn p i = true -> Datatypes.S pc = List.length (nth_block F b)).
  Proof. intros b pc i E. apply (reads_ok_at _ b 0 pc i (Hreads b (blk_lt _ _ _ E)) E). Qed.

  Lemma len1 : forall i, is_creturn p i = false -> List.length (m2v_inst p x i) = 1.
  Proof. intros i Q. unfold m2v_inst. destruct (is_cstore p i); [reflexivity|]. destruct (is_cload p i); [reflexivity|]. rewrite Q. reflexivity. Qed.
  Lemma flat_map_nth : forall (l : list inst) pc i, nth_error l pc = Some i ->
    (forall q a, q < pc -> nth_error l q = Some a -> is_creturn p a = false) ->
    forall k, nth_error (flat_map (m2v_inst p x) l) (pc + k) = nth_error (m2v_inst p x i ++ flat_map (m2v_inst p x) (skipn (Datatypes.S pc) l)) k.
  Proof.
    induction l as [|a l IH]; intros pc i E Hq k; destruct pc; cbn [nth_error] in E; try discriminate.
    - inversion E; subst a. reflexivity.
    - cbn [flat_map skipn]. pose proof (len1 a (Hq 0 a ltac:(lia) eq_refl)) as L1.
      destruct (m2v_inst p x a) as [|a1 [|]] eqn:Ea; try discriminate. cbn [app Nat.add nth_error].
      apply IH; [exact E|]. intros q b Lq Eb. apply (Hq (Datatypes.S q) b); [lia|exact Eb].
  Qed.
  Lemma F'_block : forall b, nth_block F' b = flat_map (m2v_inst p x) (nth_block F b).
  Proof. intros b. unfold F', m2v_spec, nth_block. change (@nil inst) with (flat_map (m2v_inst p x) []) at 1. apply map_nth. Qed.
  Lemma spec_at : forall b pc i k, iat F b pc = Some i ->
    iat F' b (pc + k) = nth_error (m2v_inst p x i ++ flat_map (m2v_inst p x) (skipn (Datatypes.S pc) (nth_block F b))) k.
  Proof.
    intros b pc i k E. unfold iat. rewrite F'_block. apply flat_map_nth; [exact E|].
    intros q a Lq Ea. destruct (is_creturn p a) eqn:Q; [|reflexivity]. exfalso.
    destruct (reads_at b q a Ea) as [_ Last]. specialize (Last Q). pose proof (nth_error_lt _ _ _ _ E). lia.
  Qed.
  Lemma spec_same : forall b pc i, iat F b pc = Some i -> is_cstore p i = false -> is_cload p i = false -> is_creturn p i = false ->
    iat F' b pc = Some i.
  Proof.
    intros b pc i E A Bq C. pose proof (spec_at b pc i 0 E) as Q. rewrite Nat.add_0_r in Q. rewrite Q. unfold m2v_inst. rewrite A, Bq, C. reflexivity.
  Qed.

  Lemma phi_inst : forall a, is_phi a = true -> m2v_inst p x a = [a].
  Proof.
    intros a Ph. assert (Op : i_op a = "phi") by (unfold is_phi in Ph; apply String.eqb_eq in Ph; exact Ph).
    unfold m2v_inst, is_cstore, is_cload, is_creturn. rewrite Op. reflexivity.
  Qed.
  Lemma lead_phis_spec : forall blk, lead_phis (flat_map (m2v_inst p x) blk) = lead_phis blk.
  Proof.
    induction blk as [|a blk IH]; cbn [flat_map lead_phis]; [reflexivity|].
    destruct (is_phi a) eqn:Ph.
    - rewrite (phi_inst a Ph). cbn [app lead_phis]. rewrite Ph, IH. reflexivity.
    - unfold m2v_inst. destruct (is_cstore p a); [reflexivity|]. destruct (is_cload p a); [reflexivity|].
      destruct (is_creturn p a); [reflexivity|]. cbn [app lead_phis]. rewrite Ph. reflexivity.
  Qed.

  (* ---------- "stored" ---------- *)
  Lemma firstn_S_existsb : forall (f : inst -> bool) (l : list inst) pc i, nth_error l pc = Some i ->
    existsb f (firstn (Datatypes.S pc) l) = existsb f (firstn pc l) || f i.
  Proof.
    induction l as [|a l IH]; intros pc i E; destruct pc; cbn [nth_error] in E; try discriminate.
    - inversion E; subst. cbn [firstn existsb]. rewrite orb_false_r. reflexivity.
    - change (firstn (Datatypes.S (Datatypes.S pc)) (a :: l)) with (a :: firstn (Datatypes.S pc) l).
      change (firstn (Datatypes.S pc) (a :: l)) with (a :: firstn pc l). cbn [existsb]. rewrite (IH pc i E). rewrite orb_assoc. reflexivity.
  Qed.
  Lemma stored_S : forall b pc i, iat F b pc = Some i -> stored_at F p S b (Datatypes.S pc) = stored_at F p S b pc || is_cstore p i.
  Proof. intros b pc i E. unfold stored_at. rewrite (firstn_S_existsb _ _ _ _ E). rewrite orb_assoc. reflexivity. Qed.
  Lemma stored_end : forall b pc i, iat F b pc = Some i -> Datatypes.S pc = List.length (nth_block F b) -> is_cstore p i = false ->
    stored_at F p S b (List.length (nth_block F b)) = stored_at F p S b pc.
  Proof. intros b pc i E L Q. rewrite <- L. rewrite (stored_S _ _ _ E), Q, orb_false_r. reflexivity. Qed.
  Lemma phis_no_store : forall (blk : block), existsb (is_cstore p) (firstn (List.length (lead_phis blk)) blk) = false.
  Proof.
    induction blk as [|a blk IH]; cbn [lead_phis]; [reflexivity|]. destruct (is_phi a) eqn:Ph; [|reflexivity].
    cbn [List.length firstn existsb]. rewrite IH, orb_false_r. unfold is_cstore. unfold is_phi in Ph. apply String.eqb_eq in Ph. rewrite Ph. reflexivity.
  Qed.
  (* a jump from (b, pc) into a block of S happens only when the cell is stored *)
  Lemma jump_stored : forall b pc i l, iat F b pc = Some i -> is_ctl i = true -> In (OLab l) (i_args i) ->
    stored_at F p S (N.to_nat l) (List.length (lead_phis (nth_block F (N.to_nat l)))) = true -> stored_at F p S b pc = true.
  Proof.
    intros b pc i l E C Il St. pose proof (ctl_last' _ _ _ E C) as Last. pose proof (blk_lt _ _ _ E) as Hb.
    unfold stored_at in St. rewrite phis_no_store, orb_false_r in St.
    pose proof Hcert as Hc0. unfold cert_ok in Hc0. apply andb_prop in Hc0. destruct Hc0 as [_ Hc]. rewrite forallb_forall in Hc.
    specialize (Hc _ (seq_combine_in F b Hb)). cbn [fst snd] in Hc. rewrite forallb_forall in Hc.
    assert (Il' : In l (jump_targets (nth b F []))).
    { unfold jump_targets, block_targets. unfold iat in E. fold (nth_block F b).
      assert (R : exists t, rev (nth_block F b) = i :: t).
      { clear - E Last. revert pc E Last. generalize (nth_block F b) as blk. induction blk as [|a blk IH]; intros pc E L; cbn [List.length] in L; [lia|]. destruct pc; cbn [nth_error] in E.
        - inversion E; subst. destruct blk; [|cbn [List.length] in L; lia]. exists []. reflexivity.
        - destruct (IH pc E ltac:(lia)) as [t Ht]. cbn [rev]. rewrite Ht. exists (t ++ [a]). reflexivity. }
      destruct R as [t Rt]. rewrite Rt. apply in_flat_map. exists (OLab l). split; [exact Il|left; reflexivity]. }
    specialize (Hc l Il'). rewrite St in Hc. cbn [negb orb] in Hc. fold (nth_block F b) in Hc.
    assert (Ns : is_cstore p i = false).
    { unfold is_ctl, is_op in C. unfold is_cstore. destruct (String.eqb_spec (i_op i) "mstore") as [Q|]; [|reflexivity]. rewrite Q in C. discriminate C. }
    rewrite (stored_end _ _ _ E Last Ns) in Hc. exact Hc.
  Qed.

  (* ---------- the simulation ---------- *)
  Definition Sim (b pc : nat) (e e' : env) (w w' : Wd) : Prop :=
    e <<= e' /\ dom_in e VF /\ (exists c, w' = cset c w) /\ (stored_at F p S b pc = true -> e' x = Some (cget w)).
  Definition res_sim (r r' : result Wd) : Prop :=
    match r, r' with
    | RRet vs w, RRet vs' w' => vs = vs' /\ exists c, w' = cset c w
    | RHalt op vs w, RHalt op' vs' w' => op = op' /\ vs = vs' /\ exists c, w' = cset c w
    | _, _ => False
    end.

  Lemma upd_many_other : forall xs vs (e e1 : env) y, ~ In y xs -> upd_many e xs vs = Some e1 -> e1 y = e y.
  Proof.
    induction xs as [|a xs IH]; intros vs e e1 y Ny U; destruct vs as [|v vs]; cbn [upd_many] in U; try discriminate.
    - inversion U; reflexivity.
    - rewrite (IH vs _ e1 y (fun I => Ny (or_intror I)) U). unfold upd. destruct (N.eqb_spec y a) as [->|]; [exfalso; apply Ny; left; reflexivity|reflexivity].
  Qed.
  Lemma mexec_has_instr : forall G b pc e w r, M2V.mexec Wd ext lv cget cset p G b pc e w r -> iat G b pc <> None.
  Proof. intros G b pc e w r H. inversion H; congruence. Qed.
  Lemma not_access_ops : forall i, mmodelled (i_op i) = true -> is_cstore p i = false /\ is_cload p i = false /\ is_creturn p i = false.
  Proof.
    intros i M. unfold mmodelled in M. cbn [existsb] in M. unfold is_cstore, is_cload, is_creturn.
    repeat (apply orb_prop in M; destruct M as [M|M]; [apply String.eqb_eq in M; rewrite M; auto|]). discriminate.
  Qed.
  Lemma fold_other : forall (vs : list (N * Z)) (e : env) y, (forall ov, In ov vs -> fst ov <> y) ->
    fold_left (fun e' ov => upd e' (fst ov) (snd ov)) vs e y = e y.
  Proof.
    induction vs as [|[o v] vs IH]; intros e y H; cbn [fold_left fst snd]; [reflexivity|].
    rewrite IH by (intros ov I; apply H; right; exact I). unfold upd.
    destruct (N.eqb_spec y o) as [Q|]; [exfalso; apply (H (o, v)); [left; reflexivity|symmetry; exact Q]|reflexivity].
  Qed.
  Lemma enter_sim : forall b t e e' e1 pc1, N.to_nat t < List.length F -> e <<= e' -> dom_in e VF ->
    enter (nth_block F (N.to_nat t)) b e = Some (e1, pc1) ->
    exists e1', enter (nth_block F' (N.to_nat t)) b e' = Some (e1', pc1) /\ e1 <<= e1' /\ dom_in e1 VF /\ e1' x = e' x /\
                pc1 = List.length (lead_phis (nth_block F (N.to_nat t))).
  Proof.
    intros b t e e' e1 pc1 Lt X D En. set (T := N.to_nat t) in *.
    unfold ISyn.enter in *. rewrite F'_block, lead_phis_spec.
    destruct (phi_vals lv (lead_phis (nth_block F T)) (N.of_nat b) e) as [vs|] eqn:Pv; [|discriminate]. inversion En; subst e1 pc1. clear En.
    rewrite (phi_vals_ext _ _ _ _ _ _ X Pv). eexists. split; [reflexivity|].
    assert (Ho : forall ov, In ov vs -> In (fst ov) VF).
    { intros ov I. destruct (phi_vals_outs _ _ _ _ _ Pv ov I) as [i [Ii Io]]. apply lead_phis_in in Ii. apply In_nth_error in Ii. destruct Ii as [q Eq].
      eapply in_vars; [exact Eq|exact Lt|apply out_in_vars; exact Io]. }
    split; [apply fold_upd_ext; exact X|]. split; [apply dom_fold; auto|]. split; [|reflexivity].
    apply fold_other. intros ov I Q. apply Hx. rewrite <- Q. apply Ho. exact I.
  Qed.

  Lemma target_lt : forall b pc i l, iat F b pc = Some i -> is_op "jmp" i || is_op "jnz" i = true -> In (OLab l) (i_args i) -> N.to_nat l < List.length F.
  Proof.
    intros b pc i l E J I. pose proof (block_ok_b b (blk_lt _ _ _ E)) as K. unfold block_ok in K.
    apply andb_prop in K. destruct K as [_ K]. rewrite forallb_forall in K. unfold iat in E. specialize (K i (nth_error_In _ _ E)).
    assert (Ln : (l < nN)%N); [|unfold nN in Ln; lia].
    destruct (is_op "jmp" i) eqn:J1.
    - destruct (i_args i) as [|[z|y|l1] [|]]; try discriminate. destruct I as [I|[]]. inversion I; subst l1. apply N.ltb_lt. exact K.
    - cbn [orb] in J. rewrite J in K.
      destruct (i_args i) as [|c0 [|[z|y|t] [|[z2|y2|fl] [|]]]]; try discriminate.
      apply andb_prop in K. destruct K as [K K3]. apply andb_prop in K. destruct K as [K1 K2]. apply N.ltb_lt in K1. apply N.ltb_lt in K2.
      destruct I as [I|[I|[I|[]]]].
      + subst c0. discriminate.
      + inversion I; subst. exact K1.
      + inversion I; subst. exact K2.
  Qed.
  Lemma target_lt_djmp : forall b pc tgt labs l, iat F b pc = Some (mkI "djmp" (tgt :: labs) []) -> In (OLab l) labs -> N.to_nat l < List.length F.
  Proof.
    intros b pc tgt labs l E I. pose proof (block_ok_b b (blk_lt _ _ _ E)) as K. unfold block_ok in K.
    apply andb_prop in K. destruct K as [_ K]. rewrite forallb_forall in K. unfold iat in E. specialize (K _ (nth_error_In _ _ E)).
    cbn in K. rewrite forallb_forall in K. specialize (K _ I). cbn in K. apply N.ltb_lt in K. unfold nN in K. lia.
  Qed.

  Lemma sim_jump : forall b pc i l e e1 pc1 e2 w w2, iat F b pc = Some i -> is_ctl i = true -> In (OLab l) (i_args i) -> N.to_nat l < List.length F ->
    Sim b pc e e2 w w2 -> enter (nth_block F (N.to_nat l)) b e = Some (e1, pc1) ->
    exists e21, enter (nth_block F' (N.to_nat l)) b e2 = Some (e21, pc1) /\ Sim (N.to_nat l) pc1 e1 e21 w w2.
  Proof.
    intros b pc i l e e1 pc1 e2 w w2 E C Il Lt [X [D [Hc St]]] En.
    destruct (enter_sim b l e e2 e1 pc1 Lt X D En) as [e21 [En' [X1 [D1 [Ex Epc]]]]].
    exists e21. split; [exact En'|]. split; [exact X1|]. split; [exact D1|]. split; [exact Hc|].
    intros St1. rewrite Ex. apply St. subst pc1. eapply jump_stored; eauto.
  Qed.

  Lemma m2v_sim : forall b pc e w res, mexec F b pc e w res ->
    forall e2 w2, Sim b pc e e2 w w2 -> exists res', mexec F' b pc e2 w2 res' /\ res_sim res res'.
  Proof.
    intros b pc e w res H. induction H; intros e2 w2 HS.
    - (* assign *)
      destruct HS as [X [D [[c Hw] St]]].
      pose proof (spec_same _ _ _ H eq_refl eq_refl eq_refl) as Hi.
      assert (Io : In o VF) by (eapply out_VF; [exact H|left; reflexivity]).
      destruct (IHmexec (upd e2 o v) w2) as [res' [M R]].
      { split; [apply ext_upd; exact X|]. split; [apply dom_upd; auto|]. split; [eauto|].
        intros St1. rewrite (stored_S _ _ _ H) in St1. cbn [orb] in St1. rewrite orb_false_r in St1.
        unfold upd. destruct (N.eqb_spec x o) as [Q|_]; [exfalso; apply Hx; rewrite Q; exact Io|]. apply St. exact St1. }
      exists res'. split; [|exact R]. eapply x_assign; [exact Hi|eapply oval_ext; eauto|exact M].
    - (* store to the cell *)
      destruct HS as [X [D [[c Hw] St]]].
      assert (Cs : is_cstore p (mkI "mstore" [v; OVar p] []) = true).
      { unfold is_cstore. cbn [i_op i_args i_outs String.eqb Ascii.eqb Bool.eqb andb is_opvar]. rewrite N.eqb_refl, H0. reflexivity. }
      pose proof (spec_at _ _ _ 0 H) as Hi. rewrite Nat.add_0_r in Hi. unfold m2v_inst in Hi. rewrite Cs in Hi. cbn [app nth_error i_args nth] in Hi.
      destruct (IHmexec (upd e2 x z) w2) as [res' [M R]].
      { split.
        - intros y val Ey. unfold upd. destruct (N.eqb_spec y x) as [Q|_]; [exfalso; apply Hx; rewrite <- Q; eapply D; eauto|]. apply X. exact Ey.
        - split; [exact D|]. split; [exists c; rewrite cset_cset; exact Hw|].
          intros _. unfold upd. rewrite N.eqb_refl. rewrite cget_cset. reflexivity. }
      exists res'. split; [|exact R]. eapply x_assign; [exact Hi|eapply oval_ext; eauto|exact M].
    - (* load from the cell *)
      destruct HS as [X [D [[c Hw] St]]].
      assert (Cl : is_cload p (mkI "mload" [OVar p] [o]) = true).
      { unfold is_cload. cbn [i_op i_args i_outs String.eqb Ascii.eqb Bool.eqb andb is_opvar]. rewrite N.eqb_refl, H0. reflexivity. }
      pose proof (spec_at _ _ _ 0 H) as Hi. rewrite Nat.add_0_r in Hi. unfold m2v_inst in Hi. rewrite Cl in Hi.
      replace (is_cstore p (mkI "mload" [OVar p] [o])) with false in Hi by reflexivity. cbn [app nth_error i_outs] in Hi.
      destruct (reads_at _ _ _ H) as [Rd _]. rewrite Cl in Rd. specialize (Rd eq_refl). pose proof (St Rd) as Ex.
      assert (Io : In o VF) by (eapply out_VF; [exact H|left; reflexivity]).
      destruct (IHmexec (upd e2 o (cget w)) w2) as [res' [M R]].
      { split; [apply ext_upd; exact X|]. split; [apply dom_upd; auto|]. split; [eauto|].
        intros _. unfold upd. destruct (N.eqb_spec x o) as [Q|_]; [exfalso; apply Hx; rewrite Q; exact Io|]. exact Ex. }
      exists res'. split; [|exact R]. eapply x_assign; [exact Hi|exact Ex|exact M].
    - (* any other instruction that continues *)
      destruct HS as [X [D [[c Hw] St]]].
      unfold cell_access in H1. apply orb_false_iff in H1. destruct H1 as [A1 A2].
      destruct (is_creturn p i) eqn:A3.
      { exfalso. destruct (reads_at _ _ _ H) as [_ Last]. specialize (Last A3). apply (mexec_has_instr _ _ _ _ _ _ H5).
        unfold iat. apply nth_error_None. lia. }
      pose proof (spec_same _ _ _ H A1 A2 A3) as Hi.
      destruct (upd_many_ext _ _ _ _ _ X H4) as [e21 [U2 X2]].
      assert (Ex2 : ext (i_op i) vs w2 = Some (outs, cset c w')) by (rewrite Hw, ext_frame, H3; reflexivity).
      destruct (IHmexec e21 (cset c w')) as [res' [M R]].
      { split; [exact X2|]. split; [eapply dom_upd_many; [exact D| |exact H4]; intros y I; eapply out_VF; eauto|]. split; [eauto|].
        intros St1. rewrite (stored_S _ _ _ H), A1, orb_false_r in St1.
        rewrite (upd_many_other _ _ _ _ x (fun I => out_ne_x _ _ _ _ H I eq_refl) U2). rewrite (cget_ext _ _ _ _ _ H3). apply St. exact St1. }
      exists res'. split; [|exact R]. eapply x_ext; [exact Hi|exact H0| |eapply ovals_ext; eauto|exact Ex2|exact U2|exact M].
      unfold cell_access. rewrite A1, A2. reflexivity.
    - (* halting instruction *)
      destruct HS as [X [D [[c Hw] St]]].
      unfold cell_access in H1. apply orb_false_iff in H1. destruct H1 as [A1 A2].
      destruct (is_creturn p i) eqn:A3.
      + (* return through the promoted pointer: the cell is written back first *)
        destruct (reads_at _ _ _ H) as [Rd _]. rewrite A3, orb_true_r in Rd. specialize (Rd eq_refl). pose proof (St Rd) as Ex.
        pose proof (spec_at _ _ _ 0 H) as Hi0. pose proof (spec_at _ _ _ 1 H) as Hi1. rewrite Nat.add_0_r in Hi0. rewrite Nat.add_1_r in Hi1.
        unfold m2v_inst in Hi0, Hi1. rewrite A1, A2, A3 in Hi0, Hi1. cbn [app nth_error] in Hi0, Hi1.
        assert (Ep : e2 p <> None).
        { unfold is_creturn in A3. apply andb_prop in A3. destruct A3 as [_ A3]. destruct (i_args i) as [|sz [|a [|]]]; try discriminate.
          destruct (i_outs i); [|discriminate]. apply andb_prop in A3. destruct A3 as [A3 _]. destruct a as [z|y|l0]; try discriminate.
          cbn [is_opvar] in A3. apply N.eqb_eq in A3. subst y. cbn [ISyn.ovals ISyn.oval] in H2.
          destruct (oval e sz); [|discriminate]. destruct (e p) as [vp|] eqn:Q; [|discriminate]. rewrite (X _ _ Q). discriminate. }
        exists (RHalt (i_op i) vs w). split.
        * eapply x_cstore; [exact Hi0| |exact Ex|exact Ep|].
          { cbn [is_opvar]. apply N.eqb_neq. exact Hxp. }
          assert (Ew : cset (cget w) w2 = w) by (rewrite Hw, cset_cset; apply cset_cget). rewrite Ew.
          eapply x_halt; [exact Hi1|exact H0| |eapply ovals_ext; eauto|exact H3].
          unfold cell_access. rewrite A1, A2. reflexivity.
        * cbn. split; [reflexivity|]. split; [reflexivity|]. exists (cget w). symmetry. apply cset_cget.
      + pose proof (spec_same _ _ _ H A1 A2 A3) as Hi.
        exists (RHalt (i_op i) vs w2). split.
        * eapply x_halt; [exact Hi|exact H0| |eapply ovals_ext; eauto|rewrite Hw, ext_frame, H3; reflexivity].
          unfold cell_access. rewrite A1, A2. reflexivity.
        * cbn. split; [reflexivity|]. split; [reflexivity|]. eauto.
    - (* jmp *)
      pose proof (spec_same _ _ _ H eq_refl eq_refl eq_refl) as Hi.
      pose proof (target_lt _ _ _ l H eq_refl (or_introl eq_refl)) as Lt.
      destruct (sim_jump _ _ _ l _ _ _ _ _ _ H eq_refl (or_introl eq_refl) Lt HS H0) as [e21 [En' HS1]].
      destruct (IHmexec _ _ HS1) as [res' [M R]].
      exists res'. split; [|exact R]. eapply x_jmp; [exact Hi|exact En'|exact M].
    - (* jnz *)
      pose proof (spec_same _ _ _ H eq_refl eq_refl eq_refl) as Hi.
      assert (Il : In (OLab l) [c; OLab t; OLab fl]) by (unfold l; destruct (Z.eqb v 0); [right; right; left|right; left]; reflexivity).
      pose proof (target_lt _ _ _ l H eq_refl Il) as Lt.
      destruct (sim_jump _ _ _ l _ _ _ _ _ _ H eq_refl Il Lt HS H1) as [e21 [En' HS1]].
      destruct (IHmexec _ _ HS1) as [res' [M R]].
      exists res'. split; [|exact R]. destruct HS as [X _]. eapply x_jnz; [exact Hi|eapply oval_ext; eauto|exact En'|exact M].
    - (* djmp *)
      pose proof (spec_same _ _ _ H eq_refl eq_refl eq_refl) as Hi.
      pose proof (target_lt_djmp _ _ _ _ l H H1) as Lt.
      destruct (sim_jump _ _ _ l _ _ _ _ _ _ H eq_refl (or_intror H1) Lt HS H3) as [e21 [En' HS1]].
      destruct (IHmexec _ _ HS1) as [res' [M R]].
      exists res'. split; [|exact R]. destruct HS as [X _]. eapply x_djmp; [exact Hi|eapply oval_ext; eauto|exact H1|exact H2|exact En'|exact M].
    - (* ret *)
      destruct HS as [X [D [[c Hw] St]]].
      pose proof (spec_same _ _ _ H eq_refl eq_refl eq_refl) as Hi.
      exists (RRet vals w2). split; [eapply x_ret; [exact Hi|eapply ovals_ext; eauto]|]. cbn. split; [reflexivity|eauto].
  Qed.

  (* from the entry of the function, with no variable assigned *)
  Lemma m2v_entry : forall w res, mexec F 0 0 empty_env w res -> exists res', mexec F' 0 0 empty_env w res' /\ res_sim res res'.
  Proof.
    intros w res H. apply (m2v_sim _ _ _ _ _ H). split; [apply ext_refl|]. split; [apply dom_empty|]. split; [exists (cget w); symmetry; apply cset_cget|].
    intros St. exfalso. unfold stored_at in St. cbn [firstn existsb] in St. rewrite orb_false_r in St.
    pose proof Hcert as Hc0. unfold cert_ok in Hc0. apply andb_prop in Hc0. destruct Hc0 as [Hc _]. rewrite St in Hc. discriminate.
  Qed.
End M2VProofs.

(* ---------- the validator ---------- *)
(* If mem2var_check accepts (function F before, promoted pointer p, new variable x, "definitely stored" certificate S,
   function F2 after) then -- in the abstract-alloca semantics mexec, for every oracle that leaves the cell alone and
   every world -- each complete run of F from its entry is matched by a run of F2 that returns the same values / halts
   with the same instruction and operands, in a world that differs at most in the (dead) cell; when the run ends in a
   `return` through p the worlds are equal (the cell is written back, first case of x_halt in m2v_sim). *)
Theorem mem2var_check_sound_main : forall (Wd : Type) (ext : string -> list Z -> Wd -> option (list Z * Wd)) (lv : N -> Z)
    (cget : Wd -> Z) (cset : Z -> Wd -> Wd),
  (forall v w, cget (cset v w) = v) -> (forall u v w, cset u (cset v w) = cset u w) -> (forall w, cset (cget w) w = w) ->
  (forall op args w c, ext op args (cset c w) = match ext op args w with Some (outs, w1) => Some (outs, cset c w1) | None => None end) ->
  forall (F : func) (p x : N) (S : list nat) (F2 : func), mem2var_check F p x S F2 = true ->
  forall w res, mexec Wd ext lv cget cset p F 0 0 empty_env w res ->
  exists res', mexec Wd ext lv cget cset p F2 0 0 empty_env w res' /\ res_sim Wd cset res res'.
Proof.
  intros Wd ext lv cget cset L1 L2 L3 Fr F p x S F2 C w res H. unfold mem2var_check in C.
  apply andb_prop in C. destruct C as [C Hspec]. apply andb_prop in C. destruct C as [C Hreads]. apply andb_prop in C. destruct C as [C Hcert].
  apply andb_prop in C. destruct C as [C Huse]. apply andb_prop in C. destruct C as [C Hxp]. apply andb_prop in C. destruct C as [HokF Hx].
  apply func_eqb_eq in Hspec. subst F2.
  assert (A1 : ~ In x (func_vars F)) by (intros I; apply negb_true_iff in Hx; apply memN_In in I; congruence).
  assert (A2 : x <> p) by (apply negb_true_iff in Hxp; apply N.eqb_neq; exact Hxp).
  assert (A3 : forall i, In i (func_insts F) -> p_use_ok p i = true) by (intros i I; rewrite forallb_forall in Huse; apply Huse; exact I).
  assert (A4 : forall b, (b < List.length F)%nat -> reads_ok F p S b 0 (nth_block F b) = true).
  { intros b Hb. rewrite forallb_forall in Hreads. apply (Hreads (b, nth_block F b)). eapply seq_combine_in. exact Hb. }
  eapply (m2v_entry Wd ext lv cget cset) with (S := S); eassumption.
Qed.

(* ---------- concretised allocas (C04/Concretize.v) ---------- *)
(* Concrete byte memory.  When ConcretizeMemLocPass's output is accepted by the verified checker no_overlap_if_interfere
   (C04: concretize_interfering_disjoint / no_overlap_checker_sound), two allocas that are live at the same time occupy
   disjoint address ranges; hence a write that stays inside one of them leaves every byte of the other unchanged.  This is
   the concrete counterpart of the hypothesis ext_frame for memory instructions through other (live) allocas: the cell of a
   promoted alloca -- its 32 bytes -- is not changed by them. *)
Open Scope Z_scope.
Definition bmem := Z -> Z.
Definition bstore (m : bmem) (q len : Z) (bs : Z -> Z) : bmem := fun k => if (q <=? k) && (k <? q + len) then bs (k - q) else m k.
Lemma bstore_outside : forall m q len bs k, ~ (q <= k < q + len) -> bstore m q len bs k = m k.
Proof.
  intros m q len bs k H. unfold bstore. destruct (Z.leb_spec q k); destruct (Z.ltb_spec k (q + len)); cbn [andb]; try reflexivity. exfalso. apply H. lia.
Qed.
Theorem concretized_frame : forall globals l, no_overlap_if_interfere globals l = true ->
  forall i j ra rb, (i < j)%nat -> nth_error l i = Some ra -> nth_error l j = Some rb ->
  (a_new ra || a_new rb) = true -> live_meet ra rb = true ->
  forall m q len bs,
    (* a write inside rb leaves ra unchanged, and a write inside ra leaves rb unchanged *)
    (a_off rb <= q -> q + len <= a_off rb + a_size rb -> forall k, a_off ra <= k < a_off ra + a_size ra -> bstore m q len bs k = m k) /\
    (a_off ra <= q -> q + len <= a_off ra + a_size ra -> forall k, a_off rb <= k < a_off rb + a_size rb -> bstore m q len bs k = m k).
Proof.
  intros globals l C i j ra rb Lt Ha Hb Nw Lm m q len bs. destruct (no_overlap_checker_sound globals l C) as [D _].
  pose proof (D i j ra rb Lt Ha Hb Nw Lm) as Dj. split.
  - intros Q1 Q2 k Hk. apply bstore_outside. intros Hq. apply (Dj k Hk). lia.
  - intros Q1 Q2 k Hk. apply bstore_outside. intros Hq. apply (Dj k); lia.
Qed.
