(* C14I: syntax of exported Venom programs, a big-step semantics with function calls, the specification of
   FunctionInlinerPass._inline_call_site as a Gallina function, and the checker.  Definitions only.

   Semantics (the modelling assumption).  Variables hold words once defined; reading an undefined variable is
   stuck (no execution).  `assign`, `param`, `phi`, `jmp`, `jnz`, `djmp`, `invoke`, `ret` are modelled exactly;
   EVERY other instruction (arithmetic, memory, storage, alloca, calls, logs, assert, stop/return/revert ...) is
   interpreted by an arbitrary oracle  ext op argvalues world = Some (outvalues, world') | None (execution halts:
   the result RHalt op args world).  The theorems hold for every oracle, every abstract world type and every
   label-value function, so memory is opaque: in particular `alloca` is just an oracle instruction.
   `invoke @g a1..an` runs function g from its entry block with an empty variable environment and the pending
   parameter values [a1..an; value of @g] (InvokeLayout.bound_params: user arguments, then the target as return pc);
   the k-th executed `param` takes the k-th pending value; `ret v1..vm pc` returns [v1..vm] to the invoke's outputs. *)
From Coq Require Import ZArith NArith Bool List String Lia.
Import ListNotations.
Open Scope string_scope.
Open Scope list_scope.

Inductive operand := OLit (v : Z) | OVar (x : N) | OLab (l : N).
(* i_args in the order of IRInstruction.operands *)
Record inst := mkI { i_op : string; i_args : list operand; i_outs : list N }.
Definition block := list inst.
Definition func := list block.       (* entry = block 0; a block label = its index; *)
Definition prog := list func.
(* label encoding chosen by the exporter: l < FB: basic block of the function at hand; FB + g: function g;
   anything else: foreign (data) label *)
Definition FB : N := 4294967296%N.

Definition operand_eqb (a b : operand) : bool :=
  match a, b with
  | OLit x, OLit y => Z.eqb x y | OVar x, OVar y => N.eqb x y | OLab x, OLab y => N.eqb x y | _, _ => false
  end.
Fixpoint list_eqb {A} (eqb : A -> A -> bool) (l m : list A) : bool :=
  match l, m with [], [] => true | a :: l', b :: m' => eqb a b && list_eqb eqb l' m' | _, _ => false end.
Definition inst_eqb (i j : inst) : bool :=
  String.eqb (i_op i) (i_op j) && list_eqb operand_eqb (i_args i) (i_args j) && list_eqb N.eqb (i_outs i) (i_outs j).
Definition block_eqb := list_eqb inst_eqb.
Definition func_eqb := list_eqb block_eqb.

Definition nth_func (P : prog) (f : nat) : func := nth f P [].
Definition nth_block (F : func) (b : nat) : block := nth b F [].
Definition instr_at (P : prog) (f b pc : nat) : option inst := nth_error (nth_block (nth_func P f) b) pc.

Definition is_phi (i : inst) : bool := String.eqb (i_op i) "phi".
Fixpoint lead_phis (b : block) : list inst :=
  match b with i :: r => if is_phi i then i :: lead_phis r else [] | [] => [] end.
(* PARAM_INSTRUCTIONS of vyper/venom/basicblock.py *)
Definition is_param_op (op : string) : bool := existsb (String.eqb op) ["param"; "fmp_param"; "retpc_param"].
Definition modelled (op : string) : bool :=
  existsb (String.eqb op) ["assign"; "param"; "fmp_param"; "retpc_param"; "phi"; "jmp"; "jnz"; "djmp"; "invoke"; "ret"].

(* ------------------------------------------------------------------ semantics *)
Section Sem.
  Variable Wd : Type.
  Variable ext : string -> list Z -> Wd -> option (list Z * Wd).
  Variable lv : N -> Z.

  Definition env := N -> option Z.
  Definition empty_env : env := fun _ => None.
  Definition upd (e : env) (x : N) (v : Z) : env := fun y => if N.eqb y x then Some v else e y.
  Definition oval (e : env) (o : operand) : option Z :=
    match o with OLit v => Some v | OVar x => e x | OLab l => Some (lv l) end.
  Fixpoint ovals (e : env) (l : list operand) : option (list Z) :=
    match l with
    | [] => Some []
    | o :: r => match oval e o, ovals e r with Some v, Some vs => Some (v :: vs) | _, _ => None end
    end.
  Fixpoint upd_many (e : env) (xs : list N) (vs : list Z) : option env :=
    match xs, vs with
    | [], [] => Some e
    | x :: xs', v :: vs' => upd_many (upd e x v) xs' vs'
    | _, _ => None
    end.

  (* head phis execute in parallel when a block is entered from predecessor p *)
  Fixpoint phi_src (args : list operand) (p : N) : option operand :=
    match args with
    | OLab l :: v :: r => if N.eqb l p then Some v else phi_src r p
    | _ => None
    end.
  Fixpoint phi_vals (phis : list inst) (p : N) (e : env) : option (list (N * Z)) :=
    match phis with
    | [] => Some []
    | i :: r =>
        match i_outs i, phi_src (i_args i) p with
        | [o], Some src =>
            match oval e src, phi_vals r p e with Some v, Some vs => Some ((o, v) :: vs) | _, _ => None end
        | _, _ => None
        end
    end.
  Definition enter (blk : block) (p : nat) (e : env) : option (env * nat) :=
    match phi_vals (lead_phis blk) (N.of_nat p) e with
    | Some vs => Some (fold_left (fun e' ov => upd e' (fst ov) (snd ov)) vs e, List.length (lead_phis blk))
    | None => None
    end.

  Inductive result := RRet (vals : list Z) (w : Wd) | RHalt (op : string) (vals : list Z) (w : Wd).

  Definition lab_blk (o : operand) : option nat := match o with OLab l => Some (N.to_nat l) | _ => None end.

  (* exec P f b pc e pend w r: function f, about to execute instruction pc of block b, finishes with r *)
  Inductive exec (P : prog) : nat -> nat -> nat -> env -> list Z -> Wd -> result -> Prop :=
  | e_assign : forall f b pc e pend w r a o v,
      instr_at P f b pc = Some (mkI "assign" [a] [o]) -> oval e a = Some v ->
      exec P f b (S pc) (upd e o v) pend w r -> exec P f b pc e pend w r
  | e_param : forall f b pc e pend w r op o v,
      instr_at P f b pc = Some (mkI op [] [o]) -> is_param_op op = true ->
      exec P f b (S pc) (upd e o v) pend w r -> exec P f b pc e (v :: pend) w r
  | e_ext : forall f b pc e pend w r i vs outs w' e',
      instr_at P f b pc = Some i -> modelled (i_op i) = false ->
      ovals e (i_args i) = Some vs -> ext (i_op i) vs w = Some (outs, w') -> upd_many e (i_outs i) outs = Some e' ->
      exec P f b (S pc) e' pend w' r -> exec P f b pc e pend w r
  | e_halt : forall f b pc e pend w i vs,
      instr_at P f b pc = Some i -> modelled (i_op i) = false ->
      ovals e (i_args i) = Some vs -> ext (i_op i) vs w = None ->
      exec P f b pc e pend w (RHalt (i_op i) vs w)
  | e_jmp : forall f b pc e pend w r l e' pc',
      instr_at P f b pc = Some (mkI "jmp" [OLab l] []) ->
      enter (nth_block (nth_func P f) (N.to_nat l)) b e = Some (e', pc') ->
      exec P f (N.to_nat l) pc' e' pend w r -> exec P f b pc e pend w r
  | e_jnz : forall f b pc e pend w r c t fl v e' pc',
      instr_at P f b pc = Some (mkI "jnz" [c; OLab t; OLab fl] []) -> oval e c = Some v ->
      let l := if Z.eqb v 0 then fl else t in
      enter (nth_block (nth_func P f) (N.to_nat l)) b e = Some (e', pc') ->
      exec P f (N.to_nat l) pc' e' pend w r -> exec P f b pc e pend w r
  | e_djmp : forall f b pc e pend w r tgt labs v l e' pc',
      instr_at P f b pc = Some (mkI "djmp" (tgt :: labs) []) -> oval e tgt = Some v ->
      In (OLab l) labs -> lv l = v ->
      enter (nth_block (nth_func P f) (N.to_nat l)) b e = Some (e', pc') ->
      exec P f (N.to_nat l) pc' e' pend w r -> exec P f b pc e pend w r
  | e_invoke : forall f b pc e pend w r g args outs avs vals w' e',
      instr_at P f b pc = Some (mkI "invoke" (OLab (FB + N.of_nat g) :: args) outs) ->
      ovals e args = Some avs ->
      exec P g 0 0 empty_env (avs ++ [lv (FB + N.of_nat g)]) w (RRet vals w') ->
      upd_many e outs vals = Some e' ->
      exec P f b (S pc) e' pend w' r -> exec P f b pc e pend w r
  | e_invoke_halt : forall f b pc e pend w g args outs avs op vals w',
      instr_at P f b pc = Some (mkI "invoke" (OLab (FB + N.of_nat g) :: args) outs) ->
      ovals e args = Some avs ->
      exec P g 0 0 empty_env (avs ++ [lv (FB + N.of_nat g)]) w (RHalt op vals w') ->
      exec P f b pc e pend w (RHalt op vals w')
  | e_ret : forall f b pc e pend w args vals,
      instr_at P f b pc = Some (mkI "ret" args []) -> ovals e (removelast args) = Some vals ->
      exec P f b pc e pend w (RRet vals w).
End Sem.
Arguments RRet {Wd}. Arguments RHalt {Wd}.

(* ------------------------------------------------------------------ the specification of _inline_call_site *)
Definition rho := list (N * N).
Fixpoint rget (r : rho) (x : N) : option N :=
  match r with [] => None | (a, b) :: t => if N.eqb a x then Some b else rget t x end.
Definition ren (r : rho) (x : N) : N := match rget r x with Some y => y | None => x end.

(* _clone_instruction: variables get the prefix, labels of the callee's own blocks are shifted to the position of
   the cloned blocks, every other label is kept *)
Definition ren_op (r : rho) (base nG : N) (o : operand) : operand :=
  match o with
  | OLit v => OLit v
  | OVar x => OVar (ren r x)
  | OLab l => if N.ltb l nG then OLab (base + l) else OLab l
  end.
Definition ren_inst (r : rho) (base nG : N) (i : inst) : inst :=
  mkI (i_op i) (map (ren_op r base nG) (i_args i)) (map (ren r) (i_outs i)).

(* a cloned block: params become assigns of the binding operands (k-th param of the block <- k-th binding), a ret
   becomes assigns of the returned values to the call-site outputs followed by a jump to the continuation *)
Fixpoint clone_insts (r : rho) (base nG : N) (bind : list operand) (outs : list N) (ret_lab : N) (k : nat) (l : list inst)
  : list inst :=
  match l with
  | [] => []
  | i :: t =>
      if is_param_op (i_op i) then
        mkI "assign" [nth k bind (OLit 0)] (map (ren r) (i_outs i)) :: clone_insts r base nG bind outs ret_lab (S k) t
      else if String.eqb (i_op i) "ret" then
        let rv := filter (fun o => match o with OLab _ => false | _ => true end) (removelast (map (ren_op r base nG) (i_args i))) in
        (if match rv with [] => true | _ => false end then []
         else map (fun vo => mkI "assign" [fst vo] [snd vo]) (combine rv outs))
        ++ [mkI "jmp" [OLab ret_lab] []] ++ clone_insts r base nG bind outs ret_lab k t
      else ren_inst r base nG i :: clone_insts r base nG bind outs ret_lab k t
  end.

Definition fix_phi_inst (orig new : N) (i : inst) : inst :=
  if is_phi i then mkI (i_op i) (map (fun o => match o with OLab l => if N.eqb l orig then OLab new else o | _ => o end) (i_args i)) (i_outs i)
  else i.
Definition block_targets (b : block) : list N :=
  match rev b with
  | t :: _ => flat_map (fun o => match o with OLab l => [l] | _ => [] end) (i_args t)
  | [] => []
  end.

Definition inline_spec (F G : func) (sb idx : nat) (r : rho) : option func :=
  let B := nth_block F sb in
  match nth_error B idx with
  | Some inv =>
      match i_args inv with
      | OLab g :: args =>
          let n := N.of_nat (List.length F) in
          let base := (n + 1)%N in
          let nG := N.of_nat (List.length G) in
          let pre := firstn idx B in
          let post := skipn (S idx) B in
          let succs := block_targets post in
          let bind := args ++ [OLab g] in
          let F1 := map (fun kb : nat * block =>
                           let blk := if Nat.eqb (fst kb) sb then pre ++ [mkI "jmp" [OLab base] []] else snd kb in
                           if existsb (N.eqb (N.of_nat (fst kb))) succs then map (fix_phi_inst (N.of_nat sb) n) blk else blk)
                        (combine (seq 0 (List.length F)) F) in
          Some (F1 ++ [post] ++ map (clone_insts r base nG bind (i_outs inv) n 0) G)
      | _ => None
      end
  | None => None
  end.

(* ------------------------------------------------------------------ the checker *)
Definition inst_vars (i : inst) : list N :=
  flat_map (fun o => match o with OVar x => [x] | _ => [] end) (i_args i) ++ i_outs i.
Definition func_vars (F : func) : list N := flat_map (flat_map inst_vars) F.
Definition func_insts (F : func) : list inst := List.concat F.
Definition memN (x : N) (l : list N) : bool := existsb (N.eqb x) l.
Fixpoint nodupN (l : list N) : bool := match l with [] => true | x :: t => negb (memN x t) && nodupN t end.

Definition block_labels_ok (n : N) (F : func) : bool :=
  forallb (fun i => forallb (fun o => match o with OLab l => N.ltb l n || N.leb FB l | _ => true end) (i_args i)) (func_insts F).

(* callee shape: block 0 = params ++ rest, no other param / phi-in-body / djmp anywhere; block 0 is not a jump target and has
   no phis; every ret returns exactly |outs| values, none of them a label *)
Definition is_op (s : string) (i : inst) : bool := String.eqb (i_op i) s.
Definition is_param (i : inst) : bool := is_param_op (i_op i).
Definition body_of (b : block) : block := skipn (List.length (lead_phis b)) b.
Definition callee_ok (G : func) (nouts : nat) : bool :=
  match G with
  | [] => false
  | b0 :: rest =>
      forallb (fun b => forallb (fun i => negb (is_param i)) b) rest &&
      forallb (fun i => if is_param i then match i_outs i with [_] => match i_args i with [] => true | _ => false end | _ => false end
                        else true) b0 &&
      forallb (fun b => forallb (fun i => negb (is_phi i)) (body_of b)) G &&
      forallb (fun i => negb (is_op "djmp" i)) (func_insts G) &&
      (match lead_phis b0 with [] => true | _ => false end) &&
      forallb (fun i => if is_op "jmp" i || is_op "jnz" i
                        then forallb (fun o => match o with OLab l => negb (N.eqb l 0) | _ => true end) (i_args i) else true)
              (func_insts G) &&
      forallb (fun i => if is_op "ret" i
                        then Nat.eqb (List.length (removelast (i_args i))) nouts &&
                             forallb (fun o => match o with OLab _ => false | _ => true end) (removelast (i_args i)) &&
                             negb (match i_args i with [] => true | _ => false end) &&
                             match i_outs i with [] => true | _ => false end
                        else true) (func_insts G) &&
      forallb (fun b => match rev b with [] => false | _ => true end) G
  end.

(* general shape conditions on a function with n blocks: control instructions only at the end of a block and with labels
   of the function's own blocks; phis only at the head, of the form  o = phi @l1 v1 @l2 v2 ..  with non-label values *)
Definition is_ctl (i : inst) : bool := is_op "jmp" i || is_op "jnz" i || is_op "djmp" i || is_op "ret" i.
Fixpoint phi_args_ok (n : N) (args : list operand) : bool :=
  match args with
  | [] => true
  | OLab l :: v :: r => N.ltb l n && (match v with OLab _ => false | _ => true end) && phi_args_ok n r
  | _ => false
  end.
Definition block_ok (n : N) (b : block) : bool :=
  forallb (fun i => negb (is_phi i)) (body_of b) &&
  forallb (fun i => match i_outs i with [_] => phi_args_ok n (i_args i) | _ => false end) (lead_phis b) &&
  forallb (fun i => negb (is_ctl i)) (removelast b) &&
  forallb (fun i => if is_op "jmp" i then match i_args i with [OLab l] => N.ltb l n | _ => false end
                    else if is_op "jnz" i then match i_args i with [c; OLab t; OLab f] => N.ltb t n && N.ltb f n && (match c with OLab _ => false | _ => true end) | _ => false end
                    else if is_op "djmp" i then forallb (fun o => match o with OLab l => N.ltb l n | _ => true end) (tl (i_args i))
                    else true) b.
Definition func_ok (F : func) : bool :=
  let n := N.of_nat (List.length F) in
  forallb (block_ok n) F && N.ltb (n + n + 2) FB.
(* the callee's other instructions never mention one of its block labels (label values are not preserved by cloning) *)
Definition no_block_label_values (G : func) : bool :=
  forallb (fun i => if is_phi i || is_op "jmp" i || is_op "jnz" i then true
                    else forallb (fun o => match o with OLab l => N.leb FB l | _ => true end) (i_args i)) (func_insts G).

(* F: caller before, G: callee; cf, g: their indices in the program; (sb, idx): the invoke; r: the renaming
   certificate; F': the caller after the pass *)
Definition inline_check (F G : func) (cf g sb idx : nat) (r : rho) (F' : func) : bool :=
  match nth_error (nth_block F sb) idx with
  | Some inv =>
      String.eqb (i_op inv) "invoke" &&
      match i_args inv with
      | OLab gl :: args =>
          N.eqb gl (FB + N.of_nat g) && negb (Nat.eqb cf g) &&
          callee_ok G (List.length (i_outs inv)) &&
          block_labels_ok (N.of_nat (List.length F)) F && block_labels_ok (N.of_nat (List.length G)) G &&
          func_ok F && func_ok G && no_block_label_values G &&
          N.ltb (N.of_nat (List.length F) + N.of_nat (List.length G) + 2) FB &&
          forallb (fun x => match rget r x with Some _ => true | None => false end) (func_vars G) &&
          nodupN (map fst r) && nodupN (map snd r) &&
          forallb (fun y => negb (memN y (func_vars F))) (map snd r) &&
          match inline_spec F G sb idx r with
          | Some Fs => func_eqb F' Fs
          | None => false
          end
      | _ => false
      end
  | None => false
  end.

(* the validator's domain: everything inline_check demands of the inputs of the pass (caller, callee, call site) and
   nothing about its output.  Outside the domain a call site is reported as unsupported, never as a violation. *)
Definition inline_domain (F G : func) (cf g sb idx : nat) : bool :=
  match nth_error (nth_block F sb) idx with
  | Some inv =>
      String.eqb (i_op inv) "invoke" &&
      match i_args inv with
      | OLab gl :: args =>
          N.eqb gl (FB + N.of_nat g) && negb (Nat.eqb cf g) &&
          callee_ok G (List.length (i_outs inv)) &&
          block_labels_ok (N.of_nat (List.length F)) F && block_labels_ok (N.of_nat (List.length G)) G &&
          func_ok F && func_ok G && no_block_label_values G &&
          N.ltb (N.of_nat (List.length F) + N.of_nat (List.length G) + 2) FB
      | _ => false
      end
  | None => false
  end.
