(* C14I: Mem2Var (vyper/venom/passes/mem2var.py) -- model, specification of the rewrite and validator.  Definitions only.

   The pass promotes  %p = alloca 32  to a variable when %p is used only by mstore / mload / return:
     mstore %p, v   (operands [v; %p])   ~>  %x = v
     %o = mload %p  (operands [%p])      ~>  %o = %x
     return %p, sz  (operands [sz; %p])  ~>  mstore %p, %x ; return %p, sz
   (%x = alloca_<p>_<k> is a new variable).

   Semantics (mexec, one function; syntax of ISyn.v): the 32-byte word of the alloca is an abstract CELL of the world
   (cget / cset); an mstore / mload whose address operand is syntactically %p writes / reads the cell, every other
   instruction -- including memory instructions through other pointers, calls, halting instructions -- is interpreted by
   an arbitrary oracle ext, as in ISyn.v.  This is the abstract-alloca semantics: distinct allocas are distinct objects,
   an object is reachable only through its pointer.  M2VProofs.v relates it to concrete byte memory for concretised
   allocas (C04/Concretize.v). *)
From Coq Require Import ZArith NArith Bool List String Lia.
From Verif Require Import C14I.ISyn.
Import ListNotations.
Open Scope string_scope.
Open Scope list_scope.

Definition is_opvar (p : N) (o : operand) : bool := match o with OVar y => N.eqb y p | _ => false end.

(* accesses of the cell: mstore [v; %p] [] with v <> %p, and o = mload [%p] with o <> p *)
Definition is_cstore (p : N) (i : inst) : bool :=
  String.eqb (i_op i) "mstore" &&
  match i_args i, i_outs i with [v; a], [] => is_opvar p a && negb (is_opvar p v) | _, _ => false end.
Definition is_cload (p : N) (i : inst) : bool :=
  String.eqb (i_op i) "mload" &&
  match i_args i, i_outs i with [a], [o] => is_opvar p a && negb (N.eqb o p) | _, _ => false end.
Definition is_creturn (p : N) (i : inst) : bool :=
  String.eqb (i_op i) "return" &&
  match i_args i, i_outs i with [sz; a], [] => is_opvar p a && negb (is_opvar p sz) | _, _ => false end.
Definition cell_access (p : N) (i : inst) : bool := is_cstore p i || is_cload p i.
Definition mmodelled (op : string) : bool := existsb (String.eqb op) ["assign"; "phi"; "jmp"; "jnz"; "djmp"; "ret"].

Section MSem.
  Variable Wd : Type.
  Variable ext : string -> list Z -> Wd -> option (list Z * Wd).
  Variable lv : N -> Z.
  Variable cget : Wd -> Z.
  Variable cset : Z -> Wd -> Wd.
  Variable p : N.

  Notation oval := (oval lv).
  Notation ovals := (ovals lv).
  Notation enter := (enter lv).
  Definition iat (F : func) (b pc : nat) : option inst := nth_error (nth_block F b) pc.

  (* mexec F b pc e w r: about to execute instruction pc of block b with variables e in world w; finishes with r *)
  Inductive mexec (F : func) : nat -> nat -> env -> Wd -> result Wd -> Prop :=
  | x_assign : forall b pc e w r a o v,
      iat F b pc = Some (mkI "assign" [a] [o]) -> oval e a = Some v ->
      mexec F b (S pc) (upd e o v) w r -> mexec F b pc e w r
  | x_cstore : forall b pc e w r v z,
      iat F b pc = Some (mkI "mstore" [v; OVar p] []) -> is_opvar p v = false -> oval e v = Some z -> e p <> None ->
      mexec F b (S pc) e (cset z w) r -> mexec F b pc e w r
  | x_cload : forall b pc e w r o,
      iat F b pc = Some (mkI "mload" [OVar p] [o]) -> N.eqb o p = false -> e p <> None ->
      mexec F b (S pc) (upd e o (cget w)) w r -> mexec F b pc e w r
  | x_ext : forall b pc e w r i vs outs w' e',
      iat F b pc = Some i -> mmodelled (i_op i) = false -> cell_access p i = false ->
      ovals e (i_args i) = Some vs -> ext (i_op i) vs w = Some (outs, w') -> upd_many e (i_outs i) outs = Some e' ->
      mexec F b (S pc) e' w' r -> mexec F b pc e w r
  | x_halt : forall b pc e w i vs,
      iat F b pc = Some i -> mmodelled (i_op i) = false -> cell_access p i = false ->
      ovals e (i_args i) = Some vs -> ext (i_op i) vs w = None ->
      mexec F b pc e w (RHalt (i_op i) vs w)
  | x_jmp : forall b pc e w r l e' pc',
      iat F b pc = Some (mkI "jmp" [OLab l] []) ->
      enter (nth_block F (N.to_nat l)) b e = Some (e', pc') ->
      mexec F (N.to_nat l) pc' e' w r -> mexec F b pc e w r
  | x_jnz : forall b pc e w r c t fl v e' pc',
      iat F b pc = Some (mkI "jnz" [c; OLab t; OLab fl] []) -> oval e c = Some v ->
      let l := if Z.eqb v 0 then fl else t in
      enter (nth_block F (N.to_nat l)) b e = Some (e', pc') ->
      mexec F (N.to_nat l) pc' e' w r -> mexec F b pc e w r
  | x_djmp : forall b pc e w r tgt labs v l e' pc',
      iat F b pc = Some (mkI "djmp" (tgt :: labs) []) -> oval e tgt = Some v ->
      In (OLab l) labs -> lv l = v ->
      enter (nth_block F (N.to_nat l)) b e = Some (e', pc') ->
      mexec F (N.to_nat l) pc' e' w r -> mexec F b pc e w r
  | x_ret : forall b pc e w args vals,
      iat F b pc = Some (mkI "ret" args []) -> ovals e (removelast args) = Some vals ->
      mexec F b pc e w (RRet vals w).
End MSem.

(* ------------------------------------------------------------------ the specification of _process_alloca_var *)
Definition m2v_inst (p x : N) (i : inst) : list inst :=
  if is_cstore p i then [mkI "assign" [nth 0 (i_args i) (OLit 0)] [x]]
  else if is_cload p i then [mkI "assign" [OVar x] (i_outs i)]
  else if is_creturn p i then [mkI "mstore" [OVar x; OVar p] []; i]
  else [i].
Definition m2v_spec (F : func) (p x : N) : func := map (flat_map (m2v_inst p x)) F.

(* ------------------------------------------------------------------ the validator *)
(* p may occur only as the address of a cell access, as the address of a return, and as the output of  alloca 32 *)
Definition is_alloca32 (p : N) (i : inst) : bool :=
  String.eqb (i_op i) "alloca" &&
  match i_args i, i_outs i with [OLit 32], [o] => N.eqb o p | _, _ => false end.
Definition p_use_ok (p : N) (i : inst) : bool :=
  is_cstore p i || is_cload p i || is_creturn p i || is_alloca32 p i ||
  (negb (existsb (is_opvar p) (i_args i)) && negb (memN p (i_outs i))).

(* "the cell has certainly been written and %x holds its value": at (b, pc) if b is in the certificate S or a cell store
   precedes pc in block b *)
Definition stored_at (F : func) (p : N) (S : list nat) (b pc : nat) : bool :=
  existsb (Nat.eqb b) S || existsb (is_cstore p) (firstn pc (nth_block F b)).
Definition jump_targets (blk : block) : list N := block_targets blk.
(* every block of S is entered only from blocks at whose end the cell is stored; the entry block is not in S *)
Definition cert_ok (F : func) (p : N) (S : list nat) : bool :=
  negb (existsb (Nat.eqb 0) S) &&
  forallb (fun qb : nat * block =>
             forallb (fun t => negb (existsb (Nat.eqb (N.to_nat t)) S) || stored_at F p S (fst qb) (List.length (snd qb)))
                     (jump_targets (snd qb)))
          (combine (seq 0 (List.length F)) F).
Fixpoint reads_ok (F : func) (p : N) (S : list nat) (b : nat) (pc : nat) (l : list inst) : bool :=
  match l with
  | [] => true
  | i :: t => (if is_cload p i || is_creturn p i then stored_at F p S b pc else true) &&
              (if is_creturn p i then match t with [] => true | _ => false end else true) &&
              reads_ok F p S b (Datatypes.S pc) t
  end.

Definition mem2var_check (F : func) (p x : N) (S : list nat) (F' : func) : bool :=
  func_ok F &&
  negb (memN x (func_vars F)) && negb (N.eqb x p) &&
  forallb (p_use_ok p) (func_insts F) &&
  cert_ok F p S &&
  forallb (fun qb : nat * block => reads_ok F p S (fst qb) 0 (snd qb)) (combine (seq 0 (List.length F)) F) &&
  func_eqb F' (m2v_spec F p x).
(* the inputs the validator is about (everything except the certificate and the output) *)
Definition mem2var_domain (F : func) (p x : N) : bool :=
  func_ok F && negb (memN x (func_vars F)) && negb (N.eqb x p) && forallb (p_use_ok p) (func_insts F).
