(* placeholder, replaced below *)
From Verif Require Import C14I.ISyn.
