(* C14I -- FunctionInlinerPass, validated per inlined call site (model and checker: ISyn.v; proof: IProofs.v). *)
From Coq Require Import ZArith NArith Bool List String Lia.
From Verif Require Import C14I.ISyn C14I.IProofs.
Import ListNotations.
Open Scope string_scope.
Open Scope list_scope.

(* P: a program (list of functions) whose function cf is F (the caller before the pass) and whose function g is G (the
   callee).  exec is the big-step semantics of ISyn.v: a call stack (invoke runs the callee from its entry block with an
   empty variable environment and the arguments + return label as pending parameter values; ret returns its values to the
   invoke's outputs), partial variable environments (reading an unassigned variable is stuck), phis evaluated in
   parallel on block entry, and every other instruction interpreted by an ARBITRARY oracle ext over an abstract world
   (memory, storage, ...): ext op args w = Some (outs, w') continues, None halts the whole run (stop, return, revert..).
   If inline_check accepts the call site (sb, idx), the renaming certificate r and the caller F2 produced by the pass,
   then for every oracle, every label valuation lv, every function h of the program, all pending arguments and every
   world: each complete run of h in P is a run of h in P[cf := F2] with the same result (returned values and world, or
   halting opcode, its operands and world). *)
Theorem inline_check_sound : forall (Wd : Type) (ext : string -> list Z -> Wd -> option (list Z * Wd)) (lv : N -> Z)
    (P : prog) (F G F2 : func) (cf g sb idx : nat) (r : rho),
  nth_func P cf = F -> nth_func P g = G -> inline_check F G cf g sb idx r F2 = true ->
  forall h pend w res, exec Wd ext lv P h 0 0 empty_env pend w res -> exec Wd ext lv (set_nth P cf F2) h 0 0 empty_env pend w res.
Proof. exact inline_check_sound_main. Qed.
Print Assumptions inline_check_sound.

(* non-vacuity.  main:  %0 = calldataload 0 ; %1 = invoke @f, %0 ; sstore 1, %1 ; stop
                 f:     %0 = param ; %1 = param (return pc) ; jnz %0, @1, @2
                        1: %2 = add %0, 5 ; ret %2, %1        2: ret %0, %1
   (operands in the order of IRInstruction.operands).  The output of _inline_call_site with prefix variables 10.. *)
Definition ex_main : func :=
  [ [mkI "calldataload" [OLit 0] [0%N]; mkI "invoke" [OLab (FB + 1)%N; OVar 0%N] [1%N]; mkI "sstore" [OVar 1%N; OLit 1] []; mkI "stop" [] []] ].
Definition ex_f : func :=
  [ [mkI "param" [] [0%N]; mkI "param" [] [1%N]; mkI "jnz" [OVar 0%N; OLab 1%N; OLab 2%N] []];
    [mkI "add" [OLit 5; OVar 0%N] [2%N]; mkI "ret" [OVar 2%N; OVar 1%N] []];
    [mkI "ret" [OVar 0%N; OVar 1%N] []] ].
Definition ex_rho : rho := [(0%N, 10%N); (1%N, 11%N); (2%N, 12%N)].
Definition ex_main' : func :=
  [ [mkI "calldataload" [OLit 0] [0%N]; mkI "jmp" [OLab 2%N] []];
    [mkI "sstore" [OVar 1%N; OLit 1] []; mkI "stop" [] []];
    [mkI "assign" [OVar 0%N] [10%N]; mkI "assign" [OLab (FB + 1)%N] [11%N]; mkI "jnz" [OVar 10%N; OLab 3%N; OLab 4%N] []];
    [mkI "add" [OLit 5; OVar 10%N] [12%N]; mkI "assign" [OVar 12%N] [1%N]; mkI "jmp" [OLab 1%N] []];
    [mkI "assign" [OVar 10%N] [1%N]; mkI "jmp" [OLab 1%N] []] ].
Example ex_accepts : inline_check ex_main ex_f 0 1 0 1 ex_rho ex_main' = true.
Proof. vm_compute. reflexivity. Qed.
(* parameters bound in the reverse order: rejected *)
Example ex_rejects_reversed_params :
  inline_check ex_main ex_f 0 1 0 1 ex_rho
    [ [mkI "calldataload" [OLit 0] [0%N]; mkI "jmp" [OLab 2%N] []];
      [mkI "sstore" [OVar 1%N; OLit 1] []; mkI "stop" [] []];
      [mkI "assign" [OLab (FB + 1)%N] [10%N]; mkI "assign" [OVar 0%N] [11%N]; mkI "jnz" [OVar 10%N; OLab 3%N; OLab 4%N] []];
      [mkI "add" [OLit 5; OVar 10%N] [12%N]; mkI "assign" [OVar 12%N] [1%N]; mkI "jmp" [OLab 1%N] []];
      [mkI "assign" [OVar 10%N] [1%N]; mkI "jmp" [OLab 1%N] []] ] = false.
Proof. vm_compute. reflexivity. Qed.
(* a renaming that collides with a caller variable: rejected *)
Example ex_rejects_collision : inline_check ex_main ex_f 0 1 0 1 [(0%N, 10%N); (1%N, 1%N); (2%N, 12%N)] ex_main' = false.
Proof. vm_compute. reflexivity. Qed.

(* the premise of the theorem is inhabited: with an oracle in which calldataload yields 3, add adds, sstore stores into
   the world and stop halts, the program before the pass has the complete run  ... stop  with world [(1, 8)] -- hence,
   by the theorem, so has the program after the pass. *)
Definition ex_ext (op : string) (args : list Z) (w : list (Z * Z)) : option (list Z * list (Z * Z)) :=
  if String.eqb op "calldataload" then Some ([3%Z], w)
  else if String.eqb op "add" then match args with [a; b] => Some ([(a + b)%Z], w) | _ => None end
  else if String.eqb op "sstore" then match args with [v; k] => Some ([], (k, v) :: w) | _ => None end
  else None.
Example ex_run_before : exec _ ex_ext (fun l => Z.of_N l) [ex_main; ex_f] 0 0 0 empty_env [] [] (RHalt "stop" [] [(1%Z, 8%Z)]).
Proof.
  eapply e_ext with (i := mkI "calldataload" [OLit 0] [0%N]); [reflexivity|reflexivity|reflexivity|reflexivity|reflexivity|].
  eapply e_invoke with (g := 1) (args := [OVar 0%N]) (outs := [1%N]) (vals := [8%Z]) (w' := []); [reflexivity|reflexivity| |reflexivity|].
  - eapply e_param; [reflexivity|reflexivity|]. eapply e_param; [reflexivity|reflexivity|].
    eapply e_jnz with (v := 3%Z); [reflexivity|reflexivity|reflexivity|]. cbv zeta. cbn [Z.eqb N.to_nat Pos.to_nat Pos.iter_op Nat.add].
    eapply e_ext with (i := mkI "add" [OLit 5; OVar 0%N] [2%N]); [reflexivity|reflexivity|reflexivity|reflexivity|reflexivity|].
    eapply e_ret; [reflexivity|reflexivity].
  - eapply e_ext with (i := mkI "sstore" [OVar 1%N; OLit 1] []); [reflexivity|reflexivity|reflexivity|reflexivity|reflexivity|].
    eapply (e_halt _ ex_ext _ _ 0 0 3 _ [] _ (mkI "stop" [] [])); reflexivity.
Qed.
Example ex_run_after : exec _ ex_ext (fun l => Z.of_N l) (set_nth [ex_main; ex_f] 0 ex_main') 0 0 0 empty_env [] [] (RHalt "stop" [] [(1%Z, 8%Z)]).
Proof. exact (inline_check_sound _ _ _ [ex_main; ex_f] ex_main ex_f ex_main' 0 1 0 1 ex_rho eq_refl eq_refl ex_accepts _ _ _ _ ex_run_before). Qed.
