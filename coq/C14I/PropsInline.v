(* C14I -- FunctionInlinerPass, validated per inlined call site (model and checker: ISyn.v; proof: IProofs.v). *)
From Coq Require Import ZArith NArith Bool List String Lia.
From Verif Require Import C14I.ISyn C14I.IProofs C14I.M2V C14I.M2VProofs C04.Concretize.
Import ListNotations.
Open Scope string_scope.
Open Scope list_scope.
Open Scope nat_scope.

(* P: a program (list of functions) whose function cf is F (the caller before the pass) and whose function g is G (the
   callee).  exec is the big-step semantics of ISyn.v: a call stack (invoke runs the callee from its entry block with an
   empty variable environment and the arguments + return label as pending parameter values; ret returns its values to the
   invoke's outputs), partial variable environments (reading an unassigned variable is stuck), phis evaluated in
   parallel on block entry, and every other instruction interpreted by an ARBITRARY oracle ext over an abstract world
   (memory, storage, ...): ext op args w = Some (outs, w') continues, None halts the whole run (stop, return, revert..).
   If inline_check accepts the call site (sb, idx), the renaming certificate r and the caller F2 produced by the pass,
   then for every oracle, every label valuation lv, every function h of the program, all pending arguments and every
   world: each complete run of h in P is a run of h in P[cf := F2] with the same result (returned values and world, or
   halting opcode, its operands and world). *)
Theorem inline_check_sound : forall (Wd : Type) (ext : string -> list Z -> Wd -> option (list Z * Wd)) (lv : N -> Z)
    (P : prog) (F G F2 : func) (cf g sb idx : nat) (r : rho),
  nth_func P cf = F -> nth_func P g = G -> inline_check F G cf g sb idx r F2 = true ->
  forall h pend w res, exec Wd ext lv P h 0 0 empty_env pend w res -> exec Wd ext lv (set_nth P cf F2) h 0 0 empty_env pend w res.
Proof. exact inline_check_sound_main. Qed.
Print Assumptions inline_check_sound.

(* non-vacuity.  main:  %0 = calldataload 0 ; %1 = invoke @f, %0 ; sstore 1, %1 ; stop
                 f:     %0 = param ; %1 = param (return pc) ; jnz %0, @1, @2
                        1: %2 = add %0, 5 ; ret %2, %1        2: ret %0, %1
   (operands in the order of IRInstruction.operands).  The output of _inline_call_site with prefix variables 10.. *)
Definition ex_main : func :=
  [ [mkI "calldataload" [OLit 0] [0%N]; mkI "invoke" [OLab (FB + 1)%N; OVar 0%N] [1%N]; mkI "sstore" [OVar 1%N; OLit 1] []; mkI "stop" [] []] ].
Definition ex_f : func :=
  [ [mkI "param" [] [0%N]; mkI "param" [] [1%N]; mkI "jnz" [OVar 0%N; OLab 1%N; OLab 2%N] []];
    [mkI "add" [OLit 5; OVar 0%N] [2%N]; mkI "ret" [OVar 2%N; OVar 1%N] []];
    [mkI "ret" [OVar 0%N; OVar 1%N] []] ].
Definition ex_rho : rho := [(0%N, 10%N); (1%N, 11%N); (2%N, 12%N)].
Definition ex_main' : func :=
  [ [mkI "calldataload" [OLit 0] [0%N]; mkI "jmp" [OLab 2%N] []];
    [mkI "sstore" [OVar 1%N; OLit 1] []; mkI "stop" [] []];
    [mkI "assign" [OVar 0%N] [10%N]; mkI "assign" [OLab (FB + 1)%N] [11%N]; mkI "jnz" [OVar 10%N; OLab 3%N; OLab 4%N] []];
    [mkI "add" [OLit 5; OVar 10%N] [12%N]; mkI "assign" [OVar 12%N] [1%N]; mkI "jmp" [OLab 1%N] []];
    [mkI "assign" [OVar 10%N] [1%N]; mkI "jmp" [OLab 1%N] []] ].
Example ex_accepts : inline_check ex_main ex_f 0 1 0 1 ex_rho ex_main' = true.
Proof. vm_compute. reflexivity. Qed.
(* parameters bound in the reverse order: rejected *)
Example ex_rejects_reversed_params :
  inline_check ex_main ex_f 0 1 0 1 ex_rho
    [ [mkI "calldataload" [OLit 0] [0%N]; mkI "jmp" [OLab 2%N] []];
      [mkI "sstore" [OVar 1%N; OLit 1] []; mkI "stop" [] []];
      [mkI "assign" [OLab (FB + 1)%N] [10%N]; mkI "assign" [OVar 0%N] [11%N]; mkI "jnz" [OVar 10%N; OLab 3%N; OLab 4%N] []];
      [mkI "add" [OLit 5; OVar 10%N] [12%N]; mkI "assign" [OVar 12%N] [1%N]; mkI "jmp" [OLab 1%N] []];
      [mkI "assign" [OVar 10%N] [1%N]; mkI "jmp" [OLab 1%N] []] ] = false.
Proof. vm_compute. reflexivity. Qed.
(* a renaming that collides with a caller variable: rejected *)
Example ex_rejects_collision : inline_check ex_main ex_f 0 1 0 1 [(0%N, 10%N); (1%N, 1%N); (2%N, 12%N)] ex_main' = false.
Proof. vm_compute. reflexivity. Qed.

(* the premise of the theorem is inhabited: with an oracle in which calldataload yields 3, add adds, sstore stores into
   the world and stop halts, the program before the pass has the complete run  ... stop  with world [(1, 8)] -- hence,
   by the theorem, so has the program after the pass. *)
Definition ex_ext (op : string) (args : list Z) (w : list (Z * Z)) : option (list Z * list (Z * Z)) :=
  if String.eqb op "calldataload" then Some ([3%Z], w)
  else if String.eqb op "add" then match args with [a; b] => Some ([(a + b)%Z], w) | _ => None end
  else if String.eqb op "sstore" then match args with [v; k] => Some ([], (k, v) :: w) | _ => None end
  else None.
Example ex_run_before : exec _ ex_ext (fun l => Z.of_N l) [ex_main; ex_f] 0 0 0 empty_env [] [] (RHalt "stop" [] [(1%Z, 8%Z)]).
Proof.
  eapply e_ext with (i := mkI "calldataload" [OLit 0] [0%N]); [reflexivity|reflexivity|reflexivity|reflexivity|reflexivity|].
  eapply e_invoke with (g := 1) (args := [OVar 0%N]) (outs := [1%N]) (vals := [8%Z]) (w' := []); [reflexivity|reflexivity| |reflexivity|].
  - eapply e_param; [reflexivity|reflexivity|]. eapply e_param; [reflexivity|reflexivity|].
    eapply e_jnz with (v := 3%Z); [reflexivity|reflexivity|reflexivity|]. cbv zeta. cbn [Z.eqb N.to_nat Pos.to_nat Pos.iter_op Nat.add].
    eapply e_ext with (i := mkI "add" [OLit 5; OVar 0%N] [2%N]); [reflexivity|reflexivity|reflexivity|reflexivity|reflexivity|].
    eapply e_ret; [reflexivity|reflexivity].
  - eapply e_ext with (i := mkI "sstore" [OVar 1%N; OLit 1] []); [reflexivity|reflexivity|reflexivity|reflexivity|reflexivity|].
    eapply (e_halt _ ex_ext _ _ 0 0 3 _ [] _ (mkI "stop" [] [])); reflexivity.
Qed.
Example ex_run_after : exec _ ex_ext (fun l => Z.of_N l) (set_nth [ex_main; ex_f] 0 ex_main') 0 0 0 empty_env [] [] (RHalt "stop" [] [(1%Z, 8%Z)]).
Proof. exact (inline_check_sound _ _ _ [ex_main; ex_f] ex_main ex_f ex_main' 0 1 0 1 ex_rho eq_refl eq_refl ex_accepts _ _ _ _ ex_run_before). Qed.

(* ------------------------------------------------------------------ Mem2Var *)
(* mexec (M2V.v): one function; the 32 bytes of the promoted alloca are an abstract cell of the world (cget / cset) that is
   read / written exactly by  mload %p  /  mstore %p, v ; every other instruction goes to the oracle ext, which -- fourth
   premise -- never reads or writes the cell (abstract-alloca semantics: an object is reachable only through its own
   pointer).  If mem2var_check accepts (F, pointer p, new variable x, "definitely stored" certificate S, result F2) then
   every complete run of F from its entry is matched by a run of F2 with the same returned values / the same halting
   instruction and operands, in a world that differs at most in the cell (and not at all when the run ends in a `return`
   through p: the pass writes the cell back first).  In particular F2 never reads x before assigning it. *)
Theorem mem2var_check_sound : forall (Wd : Type) (ext : string -> list Z -> Wd -> option (list Z * Wd)) (lv : N -> Z)
    (cget : Wd -> Z) (cset : Z -> Wd -> Wd),
  (forall v w, cget (cset v w) = v) -> (forall u v w, cset u (cset v w) = cset u w) -> (forall w, cset (cget w) w = w) ->
  (forall op args w c, ext op args (cset c w) = match ext op args w with Some (outs, w1) => Some (outs, cset c w1) | None => None end) ->
  forall (F : func) (p x : N) (S : list nat) (F2 : func), mem2var_check F p x S F2 = true ->
  forall w res, mexec Wd ext lv cget cset p F 0 0 empty_env w res ->
  exists res', mexec Wd ext lv cget cset p F2 0 0 empty_env w res' /\ res_sim Wd cset res res'.
Proof. exact mem2var_check_sound_main. Qed.
Print Assumptions mem2var_check_sound.

(* the concrete counterpart of the fourth premise for memory accesses through other allocas: when the verified checker of
   C04 accepts the concretised layout, a write inside one of two simultaneously live allocas leaves the bytes of the
   other unchanged (concretize_interfering_disjoint => no_overlap_checker_sound => disjoint => frame) *)
Theorem concretized_allocas_frame : forall globals l, no_overlap_if_interfere globals l = true ->
  forall i j ra rb, i < j -> nth_error l i = Some ra -> nth_error l j = Some rb ->
  (a_new ra || a_new rb) = true -> live_meet ra rb = true ->
  forall m q len bs,
    ((a_off rb <= q)%Z -> (q + len <= a_off rb + a_size rb)%Z -> forall k, (a_off ra <= k < a_off ra + a_size ra)%Z -> bstore m q len bs k = m k) /\
    ((a_off ra <= q)%Z -> (q + len <= a_off ra + a_size ra)%Z -> forall k, (a_off rb <= k < a_off rb + a_size rb)%Z -> bstore m q len bs k = m k).
Proof. exact concretized_frame. Qed.
Print Assumptions concretized_allocas_frame.

(* non-vacuity:  %0 = calldataload 0 ; %1 = alloca 32 ; mstore %1, %0 ; %2 = mload %1 ; sstore 0, %2 ; stop *)
Definition mv_f : func :=
  [ [mkI "calldataload" [OLit 0] [0%N]; mkI "alloca" [OLit 32] [1%N]; mkI "mstore" [OVar 0%N; OVar 1%N] [];
     mkI "mload" [OVar 1%N] [2%N]; mkI "sstore" [OVar 2%N; OLit 0] []; mkI "stop" [] []] ].
Definition mv_f' : func :=
  [ [mkI "calldataload" [OLit 0] [0%N]; mkI "alloca" [OLit 32] [1%N]; mkI "assign" [OVar 0%N] [9%N];
     mkI "assign" [OVar 9%N] [2%N]; mkI "sstore" [OVar 2%N; OLit 0] []; mkI "stop" [] []] ].
Example mv_accepts : mem2var_check mv_f 1 9 [] mv_f' = true.
Proof. vm_compute. reflexivity. Qed.
(* the pointer stored as a VALUE (mstore %3, %1): not a cell access, the pointer escapes -- rejected *)
Example mv_rejects_escape :
  mem2var_domain [ [mkI "calldataload" [OLit 0] [0%N]; mkI "alloca" [OLit 32] [1%N]; mkI "alloca" [OLit 32] [3%N];
                    mkI "mstore" [OVar 0%N; OVar 1%N] []; mkI "mstore" [OVar 1%N; OVar 3%N] []; mkI "stop" [] []] ] 1 9 = false.
Proof. vm_compute. reflexivity. Qed.
(* a read that is not preceded by a write: rejected (the new variable would be read before it is assigned) *)
Example mv_rejects_read_first :
  mem2var_check [ [mkI "alloca" [OLit 32] [1%N]; mkI "mload" [OVar 1%N] [2%N]; mkI "mstore" [OVar 2%N; OVar 1%N] []; mkI "stop" [] []] ] 1 9 []
                [ [mkI "alloca" [OLit 32] [1%N]; mkI "assign" [OVar 9%N] [2%N]; mkI "assign" [OVar 2%N] [9%N]; mkI "stop" [] []] ] = false.
Proof. vm_compute. reflexivity. Qed.
