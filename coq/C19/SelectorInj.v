(* C19: selector names are uniquely readable: equal names => the ABI types are encoding-equivalent
   (same tree after erasing the bounds of Bytes/String/DynArray; structs are already tuples at the ABI level). *)
From Coq Require Import ZArith List Bool String Ascii DecimalString DecimalZ Lia.
From Verif Require Import C19.AbiOut.
Import ListNotations.
Open Scope string_scope.

(* ---------- strings *)
Lemma sapp_assoc' : forall a b c : string, (a ++ b) ++ c = a ++ (b ++ c).
Proof. induction a; simpl; intros; [reflexivity | now rewrite IHa]. Qed.
Lemma sapp_nil_r' : forall a : string, a ++ "" = a.
Proof. induction a; simpl; [reflexivity | now rewrite IHa]. Qed.

Definition is_digit (c : ascii) : bool :=
  let n := nat_of_ascii c in andb (Nat.leb 48 n) (Nat.leb n 57).
Arguments is_digit : simpl never.
Fixpoint all_digits (s : string) : bool :=
  match s with EmptyString => true | String c r => is_digit c && all_digits r end.
(* s does not start with a digit *)
Definition nodigit_start (s : string) : bool :=
  match s with EmptyString => true | String c _ => negb (is_digit c) end.

(* maximal digit prefix *)
Fixpoint take_digits (s : string) : string * string :=
  match s with
  | EmptyString => ("", "")
  | String c r => if is_digit c then let (d, rest) := take_digits r in (String c d, rest) else ("", s)
  end.

Lemma take_digits_app : forall d r, all_digits d = true -> nodigit_start r = true ->
  take_digits (d ++ r) = (d, r).
Proof.
  induction d as [| c d IH]; intros r Hd Hr; simpl in *.
  - destruct r as [| c r]; [reflexivity |]. simpl in *. apply negb_true_iff in Hr. now rewrite Hr.
  - apply andb_prop in Hd. destruct Hd as [Hc Hd]. rewrite Hc, (IH r Hd Hr). reflexivity.
Qed.

(* ---------- decimal numerals *)
Lemma uint_digits : forall d, all_digits (NilEmpty.string_of_uint d) = true.
Proof. induction d; simpl; auto. Qed.

Lemma zs_digits : forall n, (0 <= n)%Z -> all_digits (zs n) = true /\ zs n <> "".
Proof.
  intros n Hn. unfold zs. destruct n as [| p | p]; [split; [reflexivity | discriminate] | | lia].
  unfold Z.to_int. simpl. unfold NilZero.string_of_uint.
  destruct (Pos.to_uint p) eqn:E.
  - split; [reflexivity | discriminate].
  - rewrite <- E. split; [apply uint_digits |]. rewrite E. discriminate.
  - rewrite <- E. split; [apply uint_digits |]. rewrite E. discriminate.
  - rewrite <- E. split; [apply uint_digits |]. rewrite E. discriminate.
  - rewrite <- E. split; [apply uint_digits |]. rewrite E. discriminate.
  - rewrite <- E. split; [apply uint_digits |]. rewrite E. discriminate.
  - rewrite <- E. split; [apply uint_digits |]. rewrite E. discriminate.
  - rewrite <- E. split; [apply uint_digits |]. rewrite E. discriminate.
  - rewrite <- E. split; [apply uint_digits |]. rewrite E. discriminate.
  - rewrite <- E. split; [apply uint_digits |]. rewrite E. discriminate.
  - rewrite <- E. split; [apply uint_digits |]. rewrite E. discriminate.
Qed.

Lemma to_int_not_nil : forall n, Z.to_int n <> Decimal.Pos Decimal.Nil /\ Z.to_int n <> Decimal.Neg Decimal.Nil.
Proof.
  intro n. split; intro E; pose proof (DecimalZ.of_to n) as H; rewrite E in H; simpl in H; subst n; discriminate.
Qed.

Lemma zs_inj : forall n m, zs n = zs m -> n = m.
Proof.
  intros n m E. unfold zs in E.
  destruct (to_int_not_nil n) as [A B]. destruct (to_int_not_nil m) as [C D].
  pose proof (NilZero.isi _ A B) as In. pose proof (NilZero.isi _ C D) as Im.
  rewrite E in In. rewrite In in Im. injection Im as Im. now apply DecimalZ.to_int_inj.
Qed.

Lemma zs_app_inj : forall n m r r', (0 <= n)%Z -> (0 <= m)%Z ->
  nodigit_start r = true -> nodigit_start r' = true ->
  zs n ++ r = zs m ++ r' -> n = m /\ r = r'.
Proof.
  intros n m r r' Hn Hm Hr Hr' E.
  destruct (zs_digits n Hn) as [Dn _]. destruct (zs_digits m Hm) as [Dm _].
  pose proof (take_digits_app _ _ Dn Hr) as Tn. pose proof (take_digits_app _ _ Dm Hr') as Tm.
  rewrite E in Tn. rewrite Tn in Tm. injection Tm as E1 E2. split; [now apply zs_inj | assumption].
Qed.

Lemma zs_first_digit : forall n, (0 <= n)%Z -> exists c r, zs n = String c r /\ is_digit c = true.
Proof.
  intros n Hn. destruct (zs_digits n Hn) as [D N]. destruct (zs n) as [| c r]; [contradiction |].
  simpl in D. apply andb_prop in D. destruct D as [D _]. eauto.
Qed.

(* ---------- erased types *)
Inductive tag := TInt (s : bool) (n : Z) | TAddr | TBool | TBytesM (n : Z) | TBytes | TString | TTuple.
Inductive ety := E (t : tag) (children : list ety) (sufs : list (option Z)).

Definition psuf (x : option Z) : string := match x with Some n => "[" ++ zs n ++ "]" | None => "[]" end.
Definition psufs (l : list (option Z)) : string := fold_right (fun x acc => psuf x ++ acc) "" l.

Definition pname (t : tag) : string :=
  match t with
  | TInt s n => (if s then "" else "u") ++ "int" ++ zs n
  | TAddr => "address" | TBool => "bool"
  | TBytesM n => "bytes" ++ zs n
  | TBytes => "bytes" | TString => "string"
  | TTuple => ""
  end.

Fixpoint pe (e : ety) : string :=
  match e with
  | E t ch sf =>
      (match t with
       | TTuple => "(" ++ concat "," (map pe ch) ++ ")"
       | _ => pname t
       end) ++ psufs sf
  end.

Fixpoint erase (a : aty) : ety :=
  match a with
  | AInt s b => E (TInt s b) [] []
  | AAddr => E TAddr [] []
  | ABool => E TBool [] []
  | ABytesM m => E (TBytesM m) [] []
  | ABytes _ => E TBytes [] []
  | AString _ => E TString [] []
  | ASArr t n => match erase t with E tg ch sf => E tg ch (sf ++ [Some n]) end
  | ADArr t _ => match erase t with E tg ch sf => E tg ch (sf ++ [None]) end
  | ATuple ts => E TTuple (map erase ts) []
  end.

Lemma psufs_app : forall a b, psufs (a ++ b) = psufs a ++ psufs b.
Proof. induction a; simpl; intros; [reflexivity | now rewrite IHa, sapp_assoc']. Qed.

Section AtyInd.
  Variable P : aty -> Prop.
  Hypothesis Hint : forall s b, P (AInt s b).
  Hypothesis Haddr : P AAddr.
  Hypothesis Hbool : P ABool.
  Hypothesis Hbm : forall m, P (ABytesM m).
  Hypothesis Hby : forall n, P (ABytes n).
  Hypothesis Hst : forall n, P (AString n).
  Hypothesis Hsa : forall t n, P t -> P (ASArr t n).
  Hypothesis Hda : forall t n, P t -> P (ADArr t n).
  Hypothesis Htu : forall ts, Forall P ts -> P (ATuple ts).
  Fixpoint aty_ind' (a : aty) : P a :=
    match a with
    | AInt s b => Hint s b | AAddr => Haddr | ABool => Hbool | ABytesM m => Hbm m | ABytes n => Hby n | AString n => Hst n
    | ASArr t n => Hsa t n (aty_ind' t) | ADArr t n => Hda t n (aty_ind' t)
    | ATuple ts => Htu ts ((fix go (l : list aty) : Forall P l :=
                              match l with [] => Forall_nil _ | x :: r => Forall_cons _ (aty_ind' x) (go r) end) ts)
    end.
End AtyInd.

Lemma map_ext_Forall' {A B} (f g : A -> B) (l : list A) :
  Forall (fun x => f x = g x) l -> map f l = map g l.
Proof. induction 1; simpl; congruence. Qed.

Lemma sel_is_pe : forall a, selector_name a = pe (erase a).
Proof.
  induction a as [sg b | | | m | n | n | a n IHa | a n IHa | ts IHts] using aty_ind'.
  - simpl. now rewrite sapp_nil_r'.
  - reflexivity.
  - reflexivity.
  - simpl. now rewrite sapp_nil_r'.
  - reflexivity.
  - reflexivity.
  - simpl. rewrite IHa. destruct (erase a) as [tg ch sf]. simpl. rewrite psufs_app. simpl.
    rewrite sapp_nil_r'. destruct tg; now rewrite ?sapp_assoc'.
  - simpl. rewrite IHa. destruct (erase a) as [tg ch sf]. simpl. rewrite psufs_app. simpl.
    destruct tg; now rewrite ?sapp_assoc'.
  - simpl. rewrite sapp_nil_r'. rewrite map_map. do 3 f_equal. now apply map_ext_Forall'.
Qed.

(* ---------- unique readability *)
Definition stop (s : string) : bool :=
  match s with EmptyString => true | String c _ => (c =? ",")%char || (c =? ")")%char end.
Definition bstop (s : string) : bool :=
  match s with EmptyString => true | String c _ => (c =? ",")%char || (c =? ")")%char || (c =? "[")%char end.

Lemma stop_bstop : forall s, stop s = true -> bstop s = true.
Proof. destruct s; simpl; [auto |]. intro H. now rewrite H. Qed.

Lemma bstop_nodigit : forall s, bstop s = true -> nodigit_start s = true.
Proof.
  destruct s as [| c s]; simpl; [auto |]. intro H.
  apply orb_prop in H. destruct H as [H | H]; [apply orb_prop in H; destruct H as [H | H] |];
    apply Ascii.eqb_eq in H; subst c; reflexivity.
Qed.

Lemma string_cons_inj : forall c1 c2 s1 s2, String c1 s1 = String c2 s2 -> c1 = c2 /\ s1 = s2.
Proof. intros. injection H. auto. Qed.

Ltac strip H :=
  repeat (simpl in H;
          match type of H with
          | String _ _ = String _ _ =>
              let Hc := fresh "Hc" in
              apply string_cons_inj in H; destruct H as [Hc H]; try discriminate Hc; clear Hc
          end).

Lemma digit_vs_bstop : forall n X Y, (0 <= n)%Z -> bstop Y = true -> zs n ++ X = Y -> False.
Proof.
  intros n X Y Hn HY E. destruct (zs_first_digit n Hn) as (c & r & Ez & Dc). rewrite Ez in E. simpl in E.
  subst Y. apply bstop_nodigit in HY. simpl in HY. rewrite Dc in HY. discriminate.
Qed.

Lemma digit_vs_nodigit : forall n X Y, (0 <= n)%Z -> nodigit_start Y = true -> zs n ++ X = Y -> False.
Proof.
  intros n X Y Hn HY E. destruct (zs_first_digit n Hn) as (c & r & Ez & Dc). rewrite Ez in E. simpl in E.
  subst Y. simpl in HY. rewrite Dc in HY. discriminate.
Qed.

Definition wft (t : tag) : Prop :=
  match t with TInt _ n => (0 <= n)%Z | TBytesM n => (0 <= n)%Z | _ => True end.

Lemma names_inj : forall t1 t2 X1 X2, t1 <> TTuple -> t2 <> TTuple -> wft t1 -> wft t2 ->
  bstop X1 = true -> bstop X2 = true ->
  pname t1 ++ X1 = pname t2 ++ X2 -> t1 = t2 /\ X1 = X2.
Proof.
  intros t1 t2 X1 X2 N1 N2 W1 W2 B1 B2 H.
  pose proof (bstop_nodigit _ B1) as D1. pose proof (bstop_nodigit _ B2) as D2.
  destruct t1 as [s1 n1 | | | n1 | | |]; destruct t2 as [s2 n2 | | | n2 | | |]; try contradiction;
    try (destruct s1); try (destruct s2); simpl in W1, W2; unfold pname in H; strip H;
    try (rewrite ?sapp_assoc' in H);
    try (apply zs_app_inj in H; [destruct H as [-> ->]; auto | assumption ..]);
    try (exfalso; eapply digit_vs_bstop; [| | exact H]; assumption);
    try (exfalso; symmetry in H; eapply digit_vs_bstop; [| | exact H]; assumption);
    try (subst; auto).
Qed.

Definition wfs (sf : list (option Z)) : Prop := Forall (fun x => match x with Some n => (0 <= n)%Z | None => True end) sf.

Lemma psufs_bstop : forall sf r, stop r = true -> bstop (psufs sf ++ r) = true.
Proof. intros [| [n |] sf] r H; simpl; auto using stop_bstop. Qed.

Lemma psufs_inj : forall sf1 sf2 r1 r2, wfs sf1 -> wfs sf2 -> stop r1 = true -> stop r2 = true ->
  psufs sf1 ++ r1 = psufs sf2 ++ r2 -> sf1 = sf2 /\ r1 = r2.
Proof.
  induction sf1 as [| x1 sf1 IH]; intros [| x2 sf2] r1 r2 W1 W2 S1 S2 H.
  - auto.
  - exfalso. simpl in H. subst r1. destruct x2; simpl in S1; discriminate.
  - exfalso. simpl in H. subst r2. destruct x1; simpl in S2; discriminate.
  - inversion W1 as [| ? ? Wx1 W1']; subst. inversion W2 as [| ? ? Wx2 W2']; subst.
    simpl in H. rewrite !sapp_assoc' in H.
    destruct x1 as [n1 |]; destruct x2 as [n2 |]; unfold psuf in H; strip H.
    + rewrite !sapp_assoc' in H. apply zs_app_inj in H; try assumption; try reflexivity.
      destruct H as [-> H]. strip H. destruct (IH sf2 r1 r2 W1' W2' S1 S2 H) as [-> ->]. auto.
    + exfalso. rewrite !sapp_assoc' in H. eapply digit_vs_nodigit; [exact Wx1 | | exact H]. reflexivity.
    + exfalso. rewrite !sapp_assoc' in H. symmetry in H. eapply digit_vs_nodigit; [exact Wx2 | | exact H]. reflexivity.
    + destruct (IH sf2 r1 r2 W1' W2' S1 S2 H) as [-> ->]. auto.
Qed.

Fixpoint wf (e : ety) : Prop :=
  match e with
  | E t ch sf =>
      wft t /\ wfs sf /\ (t <> TTuple -> ch = []) /\
      (fix all (l : list ety) : Prop := match l with [] => True | x :: r => wf x /\ all r end) ch
  end.

Lemma wf_children : forall t ch sf, wf (E t ch sf) -> Forall wf ch.
Proof.
  intros t ch sf (_ & _ & _ & H). induction ch; [constructor |]. destruct H. constructor; auto.
Qed.

(* the first character of a printed type is a letter or '(' : never ')' or ',' *)
Lemma pe_first : forall e, wf e -> exists c r, pe e = String c r /\ (c =? ",")%char = false /\ (c =? ")")%char = false.
Proof.
  intros [t ch sf] (Wt & _). destruct t as [[] n | | | n | | |]; simpl; eexists _, _; (split; [reflexivity | split; reflexivity]).
Qed.

Section EtyInd.
  Variable P : ety -> Prop.
  Hypothesis H : forall t ch sf, Forall P ch -> P (E t ch sf).
  Fixpoint ety_ind' (e : ety) : P e :=
    match e with
    | E t ch sf => H t ch sf ((fix go (l : list ety) : Forall P l :=
                     match l with [] => Forall_nil _ | x :: r => Forall_cons _ (ety_ind' x) (go r) end) ch)
    end.
End EtyInd.

Definition Inj (e1 : ety) : Prop :=
  forall e2 r1 r2, wf e1 -> wf e2 -> stop r1 = true -> stop r2 = true ->
    pe e1 ++ r1 = pe e2 ++ r2 -> e1 = e2 /\ r1 = r2.

Lemma concat_cons2 : forall x y l, concat "," (x :: y :: l) = x ++ "," ++ concat "," (y :: l).
Proof. reflexivity. Qed.

Lemma children_inj : forall ch1, Forall Inj ch1 -> forall ch2 X1 X2, Forall wf ch1 -> Forall wf ch2 ->
  concat "," (map pe ch1) ++ ")" ++ X1 = concat "," (map pe ch2) ++ ")" ++ X2 -> ch1 = ch2 /\ X1 = X2.
Proof.
  induction ch1 as [| e1 rest1 IH]; intros F ch2 X1 X2 W1 W2 H.
  - destruct ch2 as [| e2 rest2].
    + simpl in H. strip H. auto.
    + exfalso. inversion W2 as [| ? ? We2 _]; subst.
      destruct (pe_first e2 We2) as (c & r & Ep & Nc & Np).
      destruct rest2; simpl in H; rewrite Ep in H; simpl in H;
        apply string_cons_inj in H; destruct H as [Hc _]; subst c; discriminate.
  - inversion F as [| ? ? Fe Frest]; subst. inversion W1 as [| ? ? We1 Wr1]; subst.
    destruct ch2 as [| e2 rest2].
    + exfalso. destruct (pe_first e1 We1) as (c & r & Ep & Nc & Np).
      destruct rest1; simpl in H; rewrite Ep in H; simpl in H;
        apply string_cons_inj in H; destruct H as [Hc _]; subst c; discriminate.
    + inversion W2 as [| ? ? We2 Wr2]; subst.
      destruct rest1 as [| f1 rest1]; destruct rest2 as [| f2 rest2].
      * simpl in H. destruct (Fe e2 (")" ++ X1) (")" ++ X2) We1 We2 eq_refl eq_refl H) as [-> H'].
        strip H'. auto.
      * exfalso. cbn [map] in H. rewrite concat_cons2 in H. simpl concat in H at 1.
        rewrite !sapp_assoc' in H.
        destruct (Fe e2 (")" ++ X1) ("," ++ concat "," (map pe (f2 :: rest2)) ++ ")" ++ X2) We1 We2 eq_refl eq_refl H) as [_ H'].
        strip H'; try discriminate.
      * exfalso. cbn [map] in H. rewrite concat_cons2 in H. simpl concat in H at 2.
        rewrite !sapp_assoc' in H.
        destruct (Fe e2 ("," ++ concat "," (map pe (f1 :: rest1)) ++ ")" ++ X1) (")" ++ X2) We1 We2 eq_refl eq_refl H) as [_ H'].
        strip H'; try discriminate.
      * cbn [map] in H. rewrite !concat_cons2 in H. rewrite !sapp_assoc' in H.
        destruct (Fe e2 ("," ++ concat "," (map pe (f1 :: rest1)) ++ ")" ++ X1)
                        ("," ++ concat "," (map pe (f2 :: rest2)) ++ ")" ++ X2) We1 We2 eq_refl eq_refl H) as [-> H'].
        strip H'.
        destruct (IH Frest (f2 :: rest2) X1 X2 Wr1 Wr2 H') as [E' ->]. rewrite E'. auto.
Qed.

Lemma pname_first : forall t, t <> TTuple -> exists c r, pname t = String c r /\ (c =? "(")%char = false.
Proof.
  intros [[] n | | | n | | |] N; try contradiction; simpl; eexists _, _; (split; [reflexivity | reflexivity]).
Qed.

Theorem pe_inj_all : forall e1, Inj e1.
Proof.
  induction e1 as [t1 ch1 sf1 IH] using ety_ind'.
  intros [t2 ch2 sf2] r1 r2 W1 W2 S1 S2 H.
  pose proof (wf_children _ _ _ W1) as Wc1. pose proof (wf_children _ _ _ W2) as Wc2.
  destruct W1 as (Wt1 & Ws1 & Wn1 & _). destruct W2 as (Wt2 & Ws2 & Wn2 & _).
  pose proof (psufs_bstop sf1 r1 S1) as B1. pose proof (psufs_bstop sf2 r2 S2) as B2.
  assert (T1 : {t1 = TTuple} + {t1 <> TTuple}) by (destruct t1; (now left) || (right; discriminate)).
  assert (T2 : {t2 = TTuple} + {t2 <> TTuple}) by (destruct t2; (now left) || (right; discriminate)).
  destruct T1 as [-> | N1]; destruct T2 as [-> | N2].
  - (* tuple / tuple *)
    cbn [pe] in H. rewrite !sapp_assoc' in H. strip H.
    rewrite ?sapp_assoc' in H.
    destruct (children_inj ch1 IH ch2 _ _ Wc1 Wc2 H) as [-> HX].
    destruct (psufs_inj _ _ _ _ Ws1 Ws2 S1 S2 HX) as [-> ->]. auto.
  - (* tuple / name *)
    exfalso. destruct (pname_first t2 N2) as (c & r & Ep & Nc).
    assert (E2 : pe (E t2 ch2 sf2) = pname t2 ++ psufs sf2) by (destruct t2; try reflexivity; contradiction).
    rewrite E2 in H. cbn [pe] in H. rewrite Ep in H. simpl in H.
    apply string_cons_inj in H. destruct H as [Hc _]. subst c. discriminate.
  - exfalso. destruct (pname_first t1 N1) as (c & r & Ep & Nc).
    assert (E1 : pe (E t1 ch1 sf1) = pname t1 ++ psufs sf1) by (destruct t1; try reflexivity; contradiction).
    rewrite E1 in H. cbn [pe] in H. rewrite Ep in H. simpl in H.
    apply string_cons_inj in H. destruct H as [Hc _]. subst c. discriminate.
  - (* name / name *)
    assert (E1 : pe (E t1 ch1 sf1) = pname t1 ++ psufs sf1) by (destruct t1; try reflexivity; contradiction).
    assert (E2 : pe (E t2 ch2 sf2) = pname t2 ++ psufs sf2) by (destruct t2; try reflexivity; contradiction).
    rewrite E1, E2, !sapp_assoc' in H.
    destruct (names_inj _ _ _ _ N1 N2 Wt1 Wt2 B1 B2 H) as [-> HX].
    destruct (psufs_inj _ _ _ _ Ws1 Ws2 S1 S2 HX) as [-> ->].
    rewrite (Wn1 N1), (Wn2 N2). auto.
Qed.

Corollary pe_inj : forall e1 e2, wf e1 -> wf e2 -> pe e1 = pe e2 -> e1 = e2.
Proof.
  intros e1 e2 W1 W2 H.
  destruct (pe_inj_all e1 e2 "" "" W1 W2 eq_refl eq_refl) as [E _]; [now rewrite !sapp_nil_r' | exact E].
Qed.

(* well-formed ABI types: non-negative widths / lengths *)
Fixpoint awf (a : aty) : Prop :=
  match a with
  | AInt _ b => (0 <= b)%Z
  | ABytesM m => (0 <= m)%Z
  | ASArr t n => awf t /\ (0 <= n)%Z
  | ADArr t _ => awf t
  | ATuple ts => (fix all (l : list aty) : Prop := match l with [] => True | x :: r => awf x /\ all r end) ts
  | _ => True
  end.

Lemma wf_erase : forall a, awf a -> wf (erase a).
Proof.
  induction a as [sg b | | | m | n | n | a n IHa | a n IHa | ts IHts] using aty_ind'; simpl; intro W;
    try (repeat split; auto; try constructor; fail).
  - destruct W as [Wa Wn]. specialize (IHa Wa). destruct (erase a) as [tg ch sf].
    destruct IHa as (A & B & C & D). repeat split; auto. apply Forall_app. split; [assumption | repeat constructor; assumption].
  - specialize (IHa W). destruct (erase a) as [tg ch sf].
    destruct IHa as (A & B & C & D). repeat split; auto. apply Forall_app. split; [assumption | repeat constructor].
  - repeat split; try constructor; try (intro N; now elim N).
    induction ts as [| x r IHr]; simpl; [exact I |].
    destruct W as [Wx Wr]. inversion IHts as [| ? ? Hx Hr]; subst. split; [now apply Hx | now apply IHr].
Qed.

(* equal selector names => encoding-equivalent types *)
Theorem selector_name_injective_mod_equiv_thm : forall a b, awf a -> awf b ->
  selector_name a = selector_name b -> erase a = erase b.
Proof.
  intros a b Wa Wb H. rewrite !sel_is_pe in H. apply pe_inj; auto using wf_erase.
Qed.
