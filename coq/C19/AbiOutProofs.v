(* C19 proofs about the AbiOut model. *)
From Coq Require Import ZArith List Bool String Ascii Lia.
From Verif Require Import C19.AbiOut.
Import ListNotations.
Open Scope string_scope.

(* ---------- strings *)
Lemma sapp_assoc : forall a b c : string, (a ++ b) ++ c = a ++ (b ++ c).
Proof. induction a; simpl; intros; [reflexivity | now rewrite IHa]. Qed.

Lemma sapp_nil_r : forall a : string, a ++ "" = a.
Proof. induction a; simpl; [reflexivity | now rewrite IHa]. Qed.

(* ---------- induction principles for the nested types *)
Section VtyInd.
  Variable P : vty -> Prop.
  Hypothesis Hbool : P VBool.
  Hypothesis Haddr : P VAddress.
  Hypothesis Hint : forall s b, P (VInt s b).
  Hypothesis Hdec : P VDecimal.
  Hypothesis Hbm : forall m, P (VBytesM m).
  Hypothesis Hby : forall n, P (VBytes n).
  Hypothesis Hst : forall n, P (VString n).
  Hypothesis Hfl : forall n, P (VFlag n).
  Hypothesis Hif : forall n, P (VIface n).
  Hypothesis Hsa : forall t n, P t -> P (VSArr t n).
  Hypothesis Hda : forall t n, P t -> P (VDArr t n).
  Hypothesis Htu : forall ts, Forall P ts -> P (VTuple ts).
  Hypothesis Hsr : forall nm ns ts, Forall P ts -> P (VStruct nm ns ts).

  Fixpoint vty_ind' (t : vty) : P t :=
    match t with
    | VBool => Hbool | VAddress => Haddr | VInt s b => Hint s b | VDecimal => Hdec
    | VBytesM m => Hbm m | VBytes n => Hby n | VString n => Hst n | VFlag n => Hfl n | VIface n => Hif n
    | VSArr t n => Hsa t n (vty_ind' t)
    | VDArr t n => Hda t n (vty_ind' t)
    | VTuple ts => Htu ts ((fix go (l : list vty) : Forall P l :=
                              match l with [] => Forall_nil _ | x :: r => Forall_cons _ (vty_ind' x) (go r) end) ts)
    | VStruct nm ns ts => Hsr nm ns ts ((fix go (l : list vty) : Forall P l :=
                              match l with [] => Forall_nil _ | x :: r => Forall_cons _ (vty_ind' x) (go r) end) ts)
    end.
End VtyInd.

Lemma map_ext_Forall {A B} (f g : A -> B) (l : list A) :
  Forall (fun x => f x = g x) l -> map f l = map g l.
Proof. induction 1; simpl; congruence. Qed.

(* ---------- the two signature printers agree *)
Theorem printers_agree : forall t, canonical t = selector_name (abi_type t).
Proof.
  induction t using vty_ind'; simpl; try reflexivity.
  - destruct s; reflexivity.
  - now rewrite IHt.
  - now rewrite IHt.
  - rewrite map_map. f_equal. f_equal. f_equal. now apply map_ext_Forall.
  - rewrite map_map. f_equal. f_equal. f_equal. now apply map_ext_Forall.
Qed.

(* ---------- JSON type string <-> signature *)
Definition not_t (s : string) : Prop := exists c r, s = String c r /\ c <> "t"%char.
Definition okty (s : string) : Prop := (exists r, s = "tuple" ++ r) \/ not_t s.

Lemma strip_not_t : forall s, not_t s -> strip_tuple s = None.
Proof.
  intros s (c & r & -> & H). unfold strip_tuple.
  destruct c as [[] [] [] [] [] [] [] []]; try reflexivity. now elim H.
Qed.

Lemma not_t_app : forall s x, not_t s -> not_t (s ++ x).
Proof. intros s x (c & r & -> & H). exists c, (r ++ x). split; [reflexivity | assumption]. Qed.

Lemma okty_app : forall s x, okty s -> okty (s ++ x).
Proof.
  intros s x [[r ->] | H]; [left | right; now apply not_t_app].
  exists (r ++ x). now rewrite sapp_assoc.
Qed.

Lemma strip_app : forall s x, okty s ->
  strip_tuple (s ++ x) = match strip_tuple s with Some r => Some (r ++ x) | None => None end.
Proof.
  intros s x [[r ->] | H].
  - reflexivity.
  - rewrite (strip_not_t _ H). apply strip_not_t. now apply not_t_app.
Qed.

Lemma canonical_not_t : forall t, not_t (canonical t).
Proof.
  induction t using vty_ind'; simpl;
    try (eexists _, _; split; [reflexivity | discriminate]).
  - destruct s; eexists _, _; (split; [reflexivity | discriminate]).
  - now apply not_t_app.
  - now apply not_t_app.
Qed.

Lemma json_sig_suffix : forall n n' ty h c i x,
  okty ty -> json_sig (JArg n (ty ++ x) h c i) = json_sig (JArg n' ty h c i) ++ x.
Proof.
  intros. simpl. rewrite strip_app by assumption.
  destruct (strip_tuple ty); [| reflexivity].
  simpl. rewrite sapp_assoc. reflexivity.
Qed.

Definition P_json (t : vty) : Prop :=
  forall name, okty (jty (to_abi_arg t name)) /\ json_sig (to_abi_arg t name) = selector_name (abi_type t).

Lemma prim_json : forall t name,
  to_abi_arg t name = JArg name (canonical t) false [] None \/
  (exists i, to_abi_arg t name = JArg name (canonical t) false [] i) ->
  okty (jty (to_abi_arg t name)) /\ json_sig (to_abi_arg t name) = selector_name (abi_type t).
Proof.
  intros t name H.
  assert (exists i, to_abi_arg t name = JArg name (canonical t) false [] i) as [i E]
    by (destruct H; [eexists; eassumption | assumption]).
  rewrite E. simpl. split.
  - right. apply canonical_not_t.
  - rewrite (strip_not_t _ (canonical_not_t t)). apply printers_agree.
Qed.

Lemma json_sig_struct_go : forall ts names,
  Forall P_json ts ->
  map json_sig ((fix go (ns : list string) (l : list vty) : list jarg :=
            match l with
            | [] => []
            | t' :: l' => to_abi_arg t' (hd "" ns) :: go (tl ns) l'
            end) names ts) = map selector_name (map abi_type ts).
Proof.
  induction ts; intros names H; [reflexivity |].
  inversion H; subst. simpl. f_equal.
  - apply (H2 (hd "" names)).
  - apply IHts. assumption.
Qed.

Theorem json_all : forall t, P_json t.
Proof.
  induction t using vty_ind'; intro name;
    try (apply prim_json; left; reflexivity).
  - apply prim_json. right. eexists. reflexivity.
  - (* SArr *)
    destruct (IHt "") as [Hok Hsig]. simpl.
    destruct (to_abi_arg t "") as [n0 ty h c i] eqn:E. simpl in Hok.
    split.
    + simpl. now apply okty_app.
    + rewrite (json_sig_suffix name n0) by assumption. now rewrite Hsig.
  - (* DArr *)
    destruct (IHt "") as [Hok Hsig]. simpl.
    destruct (to_abi_arg t "") as [n0 ty h c i] eqn:E. simpl in Hok.
    split.
    + simpl. now apply okty_app.
    + rewrite (json_sig_suffix name n0) by assumption. now rewrite Hsig.
  - (* Tuple *)
    split.
    + left. exists "". reflexivity.
    + cbn [to_abi_arg json_sig strip_tuple abi_type selector_name]. rewrite sapp_nil_r. f_equal. f_equal.
      rewrite !map_map. f_equal. apply map_ext_Forall.
      eapply Forall_impl; [| exact H]. intros a Ha. apply (Ha "").
  - (* Struct *)
    split.
    + left. exists "". reflexivity.
    + cbn [to_abi_arg json_sig strip_tuple abi_type selector_name]. rewrite sapp_nil_r. f_equal. f_equal.
      f_equal. now apply json_sig_struct_go.
Qed.

Theorem json_sig_correct : forall t name, json_sig (to_abi_arg t name) = selector_name (abi_type t).
Proof. intros. apply json_all. Qed.

(* ---------- listed ids = served ids *)
Lemma firstn_app_len {A} (l1 l2 : list A) i : firstn (List.length l1 + i) (l1 ++ l2) = (l1 ++ firstn i l2)%list.
Proof. apply firstn_app_2. Qed.

Lemma firstn_map_app {A B} (g : A -> B) (l1 l2 : list A) i :
  firstn (List.length l1 + i) (map g (l1 ++ l2)) = map g (l1 ++ firstn i l2)%list.
Proof. now rewrite firstn_map, firstn_app_len. Qed.

Lemma map_seq_shift {B} (f : nat -> B) a n : map f (seq a n) = map (fun i => f (a + i)%nat) (seq 0 n).
Proof.
  revert a. induction n; intro a; [reflexivity |].
  simpl. rewrite Nat.add_0_r. f_equal. rewrite IHn. rewrite <- seq_shift, map_map.
  apply map_ext. intro i. f_equal. lia.
Qed.

Theorem listed_eq_served : forall f, method_id_sigs f = served_sigs f.
Proof.
  intro f. unfold method_id_sigs, served_sigs, abi_signature_for_kwargs, fargs.
  destruct (Nat.eqb_spec (List.length (fkws f)) 0) as [E | E].
  - destruct (fkws f); [| discriminate]. simpl. rewrite app_nil_r. do 2 f_equal.
    apply map_ext. intro a. apply printers_agree.
  - rewrite map_seq_shift. apply map_ext. intro i. f_equal.
    rewrite firstn_map_app.
    apply map_ext. intro a. apply printers_agree.
Qed.

(* the ids (any hash of the signature) coincide as lists, hence as sets *)
Corollary listed_ids_eq_served_ids : forall (H : string -> Z) f,
  map H (method_id_sigs f) = map H (served_sigs f).
Proof. intros. now rewrite listed_eq_served. Qed.

(* ---------- ABI entries: k defaults => k+1 entries, inputs are the prefixes, and the signature an
   ABI consumer computes from entry i is the i-th served signature *)
Definition all_inputs (f : fn) : list jarg := map (fun a => to_abi_arg (snd a) (fst a)) (fargs f).

Theorem abi_entries_count : forall f, fkind_of f <> KFallback ->
  List.length (to_toplevel_abi f) = S (List.length (fkws f)).
Proof.
  intros f Hk. unfold to_toplevel_abi.
  destruct (fkind_of f); try contradiction;
    (destruct (Nat.ltb_spec 0 (List.length (fkws f)));
     [rewrite map_length, seq_length; lia | simpl; lia]).
Qed.

Theorem abi_entries_inputs : forall f i d, fkind_of f <> KFallback -> (i <= List.length (fkws f))%nat ->
  e_inputs (nth i (to_toplevel_abi f) d) = Some (firstn (List.length (fpos f) + i) (all_inputs f)).
Proof.
  intros f i d Hk Hi. unfold to_toplevel_abi, all_inputs.
  assert (Hfull : forall l : list jarg, List.length l = List.length (fargs f) ->
                  firstn (List.length (fpos f) + List.length (fkws f)) l = l).
  { intros l Hl. apply firstn_all2. rewrite Hl. unfold fargs. rewrite app_length. lia. }
  destruct (fkind_of f); try contradiction.
  all: destruct (Nat.ltb_spec 0 (List.length (fkws f))) as [Hlt | Hge].
  all: try (set (g := fun i0 : nat => _);
       rewrite (nth_indep _ d (g 0%nat)) by (rewrite map_length, seq_length; lia);
       rewrite map_nth, seq_nth by lia; subst g; reflexivity).
  all: assert (i = 0)%nat by lia; subst i; assert (E0: List.length (fkws f) = 0%nat) by lia; simpl;
       rewrite <- E0, Hfull by (now rewrite map_length); reflexivity.
Qed.

Theorem abi_entry_sig_served : forall f i d, fkind_of f = KFunction -> (i <= List.length (fkws f))%nat ->
  entry_sig (nth i (to_toplevel_abi f) d) = Some (nth i (served_sigs f) "").
Proof.
  intros f i d Hk Hi.
  assert (Hin := abi_entries_inputs f i d ltac:(rewrite Hk; discriminate) Hi).
  assert (Hname : e_name (nth i (to_toplevel_abi f) d) = Some (fname f)).
  { unfold to_toplevel_abi. rewrite Hk.
    destruct (Nat.ltb_spec 0 (List.length (fkws f))) as [Hlt | Hge].
    - set (g := fun i0 : nat => _).
      rewrite (nth_indep _ d (g 0%nat)) by (rewrite map_length, seq_length; lia).
      rewrite map_nth. reflexivity.
    - assert (i = 0)%nat by lia; subst i. reflexivity. }
  unfold entry_sig. rewrite Hname, Hin. f_equal.
  unfold served_sigs.
  set (g := fun i0 : nat => abi_signature_for_kwargs f (firstn i0 (fkws f))).
  rewrite (nth_indep _ "" (g 0%nat)) by (rewrite map_length, seq_length; lia).
  rewrite map_nth, seq_nth by lia. subst g. cbv beta. rewrite Nat.add_0_l.
  unfold abi_signature_for_kwargs, all_inputs, fargs. f_equal.
  rewrite firstn_map_app, !map_map.
  apply map_ext. intro a. apply json_sig_correct.
Qed.

(* ---------- getters *)
Lemma getter_sig_v_spec : forall t,
  List.length (fst (getter_sig_v t)) = vdepth t /\
  is_array (snd (getter_sig_v t)) = false /\
  Forall (fun k => k = UINT256) (fst (getter_sig_v t)).
Proof.
  induction t using vty_ind'; simpl; auto.
  - destruct (getter_sig_v t) as [ks r]. simpl in *. destruct IHt as (a & b & c). repeat split; auto.
  - destruct (getter_sig_v t) as [ks r]. simpl in *. destruct IHt as (a & b & c). repeat split; auto.
Qed.

Theorem getter_depth : forall p, List.length (fst (getter_sig p)) = pdepth p.
Proof.
  induction p; simpl.
  - apply getter_sig_v_spec.
  - destruct (getter_sig p). simpl in *. now rewrite IHp.
Qed.

Theorem getter_ret_not_array : forall p, is_array (snd (getter_sig p)) = false.
Proof.
  induction p; simpl.
  - apply getter_sig_v_spec.
  - destruct (getter_sig p). assumption.
Qed.

Theorem getter_map_key : forall k v,
  getter_sig (PMap k v) = (k :: fst (getter_sig v), snd (getter_sig v)).
Proof. intros. simpl. now destruct (getter_sig v). Qed.

Theorem getter_array_key : forall t n,
  getter_sig (PVal (VSArr t n)) = (UINT256 :: fst (getter_sig (PVal t)), snd (getter_sig (PVal t))) /\
  getter_sig (PVal (VDArr t n)) = (UINT256 :: fst (getter_sig (PVal t)), snd (getter_sig (PVal t))).
Proof. intros. simpl. now destruct (getter_sig_v t). Qed.

Lemma number_args_types : forall ts i, map snd (number_args i ts) = ts.
Proof. induction ts; intro i; simpl; [reflexivity | now rewrite IHts]. Qed.

(* the synthesised getter: exactly one ABI entry / one served selector; view; its inputs are the key
   path (HashMap keys, then uint256 per array level) and its single output is the leaf type *)
Theorem getter_abi : forall name p,
  let f := getter_fn name p in
  served_sigs f = [sig_of name (map canonical (fst (getter_sig p)))] /\
  method_id_sigs f = served_sigs f /\
  List.length (to_toplevel_abi f) = 1%nat /\
  fmut f = View /\
  fret f = Some (snd (getter_sig p)).
Proof.
  intros name p f. subst f. unfold getter_fn.
  destruct (getter_sig p) as [ks r] eqn:E. simpl fst; simpl snd.
  split; [| split; [apply listed_eq_served | repeat split]].
  unfold served_sigs, abi_signature_for_kwargs. simpl. rewrite app_nil_r.
  do 2 f_equal.
  rewrite <- (map_map snd (fun t => selector_name (abi_type t))), number_args_types.
  apply map_ext. intro a. symmetry. apply printers_agree.
Qed.
