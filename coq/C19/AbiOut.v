(* C19 model: Vyper type trees -> ABI names / ABI types / ABI-JSON; function types -> ABI entries,
   listed method-id signatures and served (dispatcher) signatures; getter synthesis.
   Hand model (H-tie) of
     vyper/semantics/types/{base,primitives,bytestrings,subscriptable,user,module}.py  abi_type / canonical_abi_type / to_abi_arg / getter_signature
     vyper/abi_types.py                                                                  selector_name
     vyper/semantics/types/function.py   method_ids / abi_signature_for_kwargs / to_toplevel_abi_dict / getter_from_VariableDecl
     vyper/codegen/function_definitions/external_function.py:_generate_kwarg_handlers,
     vyper/codegen_venom/module.py:_generate_external_entry_points                        (entry point per kwarg prefix)
   No proofs in this file. *)
From Coq Require Import ZArith List Bool String Ascii DecimalString.
Import ListNotations.
Open Scope string_scope.

(* decimal printing of a (non-negative) integer, as python's f"{n}" *)
Definition zs (n : Z) : string := NilZero.string_of_int (Z.to_int n).

(* ---- Vyper value types (everything that can be an argument / return / array element) *)
Inductive vty :=
| VBool | VAddress
| VInt (signed : bool) (bits : Z)
| VDecimal
| VBytesM (m : Z)
| VBytes (n : Z) | VString (n : Z)
| VFlag (name : string)
| VIface (name : string)
| VSArr (t : vty) (n : Z)
| VDArr (t : vty) (n : Z)
| VTuple (ts : list vty)
| VStruct (name : string) (names : list string) (ts : list vty).

(* public-variable types: HashMaps only occur on the spine of a storage variable *)
Inductive pty :=
| PVal (t : vty)
| PMap (k : vty) (v : pty).

(* ---- abi_types.py *)
Inductive aty :=
| AInt (signed : bool) (bits : Z)
| AAddr | ABool
| ABytesM (m : Z)
| ABytes (n : Z) | AString (n : Z)
| ASArr (t : aty) (n : Z)
| ADArr (t : aty) (n : Z)
| ATuple (ts : list aty).

Fixpoint selector_name (a : aty) : string :=
  match a with
  | AInt s b => (if s then "" else "u") ++ "int" ++ zs b
  | AAddr => "address"
  | ABool => "bool"
  | ABytesM m => "bytes" ++ zs m
  | ABytes _ => "bytes"
  | AString _ => "string"
  | ASArr t n => selector_name t ++ "[" ++ zs n ++ "]"
  | ADArr t _ => selector_name t ++ "[]"
  | ATuple ts => "(" ++ concat "," (map selector_name ts) ++ ")"
  end.

(* VyperType.abi_type, per class *)
Fixpoint abi_type (t : vty) : aty :=
  match t with
  | VBool => ABool
  | VAddress => AAddr
  | VInt s b => AInt s b
  | VDecimal => AInt true 168
  | VBytesM m => ABytesM m
  | VBytes n => ABytes n
  | VString n => AString n
  | VFlag _ => AInt false 256
  | VIface _ => AAddr
  | VSArr t n => ASArr (abi_type t) n
  | VDArr t n => ADArr (abi_type t) n
  | VTuple ts => ATuple (map abi_type ts)
  | VStruct _ _ ts => ATuple (map abi_type ts)
  end.

(* Specification-level printer: the ABI name of a Vyper type written directly on the Vyper type
   (the name an ABI consumer expects).  In the implementation `canonical_abi_type` is this. *)
Fixpoint canonical (t : vty) : string :=
  match t with
  | VBool => "bool"
  | VAddress => "address"
  | VInt s b => (if s then "int" else "uint") ++ zs b
  | VDecimal => "int168"
  | VBytesM m => "bytes" ++ zs m
  | VBytes _ => "bytes"
  | VString _ => "string"
  | VFlag _ => "uint256"
  | VIface _ => "address"
  | VSArr t n => canonical t ++ "[" ++ zs n ++ "]"
  | VDArr t _ => canonical t ++ "[]"
  | VTuple ts => "(" ++ concat "," (map canonical ts) ++ ")"
  | VStruct _ _ ts => "(" ++ concat "," (map canonical ts) ++ ")"
  end.

(* ---- ABI JSON argument objects: {"name","type"[,"components"][,"internalType"]} *)
Inductive jarg := JArg (name : string) (ty : string) (has_comps : bool) (comps : list jarg) (internal : option string).

Definition jty (j : jarg) : string := match j with JArg _ ty _ _ _ => ty end.

Fixpoint to_abi_arg (t : vty) (name : string) {struct t} : jarg :=
  match t with
  | VSArr t' n =>
      match to_abi_arg t' "" with
      | JArg _ ty h c i => JArg name (ty ++ "[" ++ zs n ++ "]") h c i
      end
  | VDArr t' _ =>
      match to_abi_arg t' "" with
      | JArg _ ty h c i => JArg name (ty ++ "[]") h c i
      end
  | VTuple ts => JArg name "tuple" true (map (fun t' => to_abi_arg t' "") ts) None
  | VStruct _ names ts =>
      JArg name "tuple" true
        ((fix go (ns : list string) (l : list vty) : list jarg :=
            match l with
            | [] => []
            | t' :: l' => to_abi_arg t' (hd "" ns) :: go (tl ns) l'
            end) names ts) None
  | VDecimal => JArg name (canonical VDecimal) false [] (Some "decimal")
  | _ => JArg name (canonical t) false [] None
  end.

(* How an ABI consumer (eth_abi / web3 / ethers / solc) rebuilds the signature type of an
   argument from the JSON: "tuple<suffix>" stands for "(" components ")" <suffix>. *)
Definition strip_tuple (s : string) : option string :=
  match s with
  | String "t" (String "u" (String "p" (String "l" (String "e" rest)))) => Some rest
  | _ => None
  end.

Fixpoint json_sig (j : jarg) : string :=
  match j with
  | JArg _ ty _ comps _ =>
      match strip_tuple ty with
      | Some rest => "(" ++ concat "," (map json_sig comps) ++ ")" ++ rest
      | None => ty
      end
  end.

(* ---- function types *)
Inductive mutability := Pure | View | Nonpayable | Payable.

Inductive fkind := KFunction | KConstructor | KFallback.

Record fn := mkfn {
  fname : string;
  fkind_of : fkind;
  fpos : list (string * vty);      (* positional args *)
  fkws : list (string * vty);      (* keyword (defaulted) args *)
  fret : option vty;
  fmut : mutability }.

Definition fargs (f : fn) := (fpos f ++ fkws f)%list.
Definition sig_of (name : string) (tys : list string) : string := name ++ "(" ++ concat "," tys ++ ")".

(* function.py: method_ids  (keys of the dict, in order) -- uses canonical_abi_type *)
Definition method_id_sigs (f : fn) : list string :=
  let arg_types := map (fun a => canonical (snd a)) (fargs f) in
  if (List.length (fkws f) =? 0)%nat then [sig_of (fname f) arg_types]
  else map (fun i => sig_of (fname f) (firstn i arg_types))
           (seq (List.length (fpos f)) (List.length (fkws f) + 1)).

(* function.py: abi_signature_for_kwargs -- uses abi_type.selector_name() *)
Definition abi_signature_for_kwargs (f : fn) (kwargs : list (string * vty)) : string :=
  sig_of (fname f) (map (fun a => selector_name (abi_type (snd a))) (fpos f ++ kwargs)%list).

(* both code generators: one entry point per prefix keyword_args[:i], i = 0..k *)
Definition served_sigs (f : fn) : list string :=
  map (fun i => abi_signature_for_kwargs f (firstn i (fkws f))) (seq 0 (List.length (fkws f) + 1)).

Record entry := mkentry {
  e_mut : mutability;
  e_type : string;
  e_name : option string;
  e_inputs : option (list jarg);
  e_outputs : option (list jarg) }.

Definition abi_outputs (r : option vty) : list jarg :=
  match r with
  | None => []
  | Some (VTuple ts) =>
      if (1 <? List.length ts)%nat then map (fun t => to_abi_arg t "") ts else [to_abi_arg (VTuple ts) ""]
  | Some t => [to_abi_arg t ""]
  end.

(* function.py: to_toplevel_abi_dict *)
Definition to_toplevel_abi (f : fn) : list entry :=
  match fkind_of f with
  | KFallback => [mkentry (fmut f) "fallback" None None None]
  | k =>
      let inputs := map (fun a => to_abi_arg (snd a) (fst a)) (fargs f) in
      let outs := abi_outputs (fret f) in
      let mk ins := match k with
                    | KConstructor => mkentry (fmut f) "constructor" None (Some ins) (Some outs)
                    | _ => mkentry (fmut f) "function" (Some (fname f)) (Some ins) (Some outs)
                    end in
      if (0 <? List.length (fkws f))%nat
      then map (fun i => mk (firstn i inputs)) (seq (List.length (fpos f)) (List.length (fkws f) + 1))
      else [mk inputs]
  end.

(* signature an ABI consumer computes from an entry *)
Definition entry_sig (e : entry) : option string :=
  match e_name e, e_inputs e with
  | Some n, Some ins => Some (sig_of n (map json_sig ins))
  | _, _ => None
  end.

(* ---- getters: subscriptable.py getter_signature, function.py getter_from_VariableDecl *)
Definition UINT256 := VInt false 256.

Fixpoint getter_sig_v (t : vty) : list vty * vty :=
  match t with
  | VSArr t' _ => let (ks, r) := getter_sig_v t' in (UINT256 :: ks, r)
  | VDArr t' _ => let (ks, r) := getter_sig_v t' in (UINT256 :: ks, r)
  | VIface _ => ([], VAddress)
  | _ => ([], t)
  end.

Fixpoint getter_sig (p : pty) : list vty * vty :=
  match p with
  | PVal t => getter_sig_v t
  | PMap k v => let (ks, r) := getter_sig v in (k :: ks, r)
  end.

Fixpoint number_args (i : nat) (ts : list vty) : list (string * vty) :=
  match ts with
  | [] => []
  | t :: r => ("arg" ++ zs (Z.of_nat i), t) :: number_args (S i) r
  end.

Definition getter_fn (name : string) (p : pty) : fn :=
  let (ks, r) := getter_sig p in
  mkfn name KFunction (number_args 0 ks) [] (Some r) View.

Fixpoint vdepth (t : vty) : nat :=
  match t with
  | VSArr t' _ => S (vdepth t')
  | VDArr t' _ => S (vdepth t')
  | _ => 0
  end.
Fixpoint pdepth (p : pty) : nat :=
  match p with PVal t => vdepth t | PMap _ v => S (pdepth v) end.

Definition is_array (t : vty) : bool := match t with VSArr _ _ | VDArr _ _ => true | _ => false end.

(* ---- printing for the correspondence (compact, compared with the same rendering of the real dicts) *)
Fixpoint show_jarg (j : jarg) : string :=
  match j with
  | JArg n ty h comps i =>
      n ++ ":" ++ ty ++ (if h then "{" ++ concat "," (map show_jarg comps) ++ "}" else "")
        ++ match i with Some s => "!" ++ s | None => "" end
  end.

Definition show_mut (m : mutability) : string :=
  match m with Pure => "pure" | View => "view" | Nonpayable => "nonpayable" | Payable => "payable" end.

Definition show_entry (e : entry) : string :=
  show_mut (e_mut e) ++ "~" ++ e_type e ++ "~" ++ match e_name e with Some n => n | None => "-" end
    ++ "~in=" ++ match e_inputs e with Some l => "[" ++ concat ";" (map show_jarg l) ++ "]" | None => "-" end
    ++ "~out=" ++ match e_outputs e with Some l => "[" ++ concat ";" (map show_jarg l) ++ "]" | None => "-" end.

Definition show_fn (f : fn) : string :=
  concat "|" (map show_entry (to_toplevel_abi f)) ++ "#" ++ concat "|" (method_id_sigs f) ++ "#" ++ concat "|" (served_sigs f).

Definition show_ty (t : vty) (name : string) : string :=
  canonical t ++ "#" ++ selector_name (abi_type t) ++ "#" ++ show_jarg (to_abi_arg t name) ++ "#" ++ json_sig (to_abi_arg t name).
