From Coq Require Import List Bool String Arith Lia.
From Verif Require Import C19.EventSet.
Import ListNotations.
Open Scope string_scope.

Lemma existsb_eqb_In : forall n s, existsb (Nat.eqb n) s = true <-> In n s.
Proof.
  intros n s. rewrite existsb_exists. split.
  - intros [x [Hin He]]. apply Nat.eqb_eq in He. now subst.
  - intros H. exists n. split; [assumption | apply Nat.eqb_refl].
Qed.

Lemma dedup_incl : forall l s e, In e (dedup s l) -> In e l.
Proof.
  induction l as [|d r IH]; intros s e H; simpl in *; [assumption|].
  destruct (existsb (Nat.eqb (uid d)) s).
  - right. eapply IH; eauto.
  - destruct H as [H|H]; [now left | right; eapply IH; eauto].
Qed.

Lemma dedup_complete : forall l s d, In d l ->
  In (uid d) s \/ exists e, In e (dedup s l) /\ uid e = uid d.
Proof.
  induction l as [|x r IH]; intros s d H; simpl in *; [contradiction|].
  destruct (existsb (Nat.eqb (uid x)) s) eqn:E.
  - destruct H as [H|H].
    + subst. left. now apply existsb_eqb_In.
    + now apply IH.
  - destruct H as [H|H].
    + subst. right. exists d. split; [now left | reflexivity].
    + destruct (IH (uid x :: s) d H) as [[Hx|Hs]|[e [He Hu]]].
      * right. exists x. split; [now left | assumption].
      * now left.
      * right. exists e. split; [now right | assumption].
Qed.

Lemma dedup_fresh : forall l s e, In e (dedup s l) -> ~ In (uid e) s.
Proof.
  induction l as [|x r IH]; intros s e H; simpl in *; [contradiction|].
  destruct (existsb (Nat.eqb (uid x)) s) eqn:E.
  - now apply IH.
  - destruct H as [H|H].
    + subst. intro Hin. apply existsb_eqb_In in Hin. congruence.
    + intro Hin. apply (IH _ _ H). now right.
Qed.

Lemma dedup_nodup : forall l s, NoDup (map uid (dedup s l)).
Proof.
  induction l as [|x r IH]; intros s; simpl; [constructor|].
  destruct (existsb (Nat.eqb (uid x)) s) eqn:E; [apply IH|].
  simpl. constructor; [|apply IH].
  intro Hin. apply in_map_iff in Hin. destruct Hin as [e [Hu He]].
  apply dedup_fresh in He. apply He. left. now symmetry.
Qed.

Lemma used_incl : forall em e, In e (used em) -> In e em.
Proof. intros em e. apply dedup_incl. Qed.

Lemma listed_sound : forall local em e, In e (listed local em) -> In e local \/ In e em.
Proof.
  intros local em e H. apply dedup_incl in H. apply in_app_or in H.
  destruct H as [H|H]; [now left | right; now apply used_incl].
Qed.

Lemma listed_complete : forall local em d, wf (local ++ em) -> (In d local \/ In d em) -> In d (listed local em).
Proof.
  intros local em d Hwf Hd. unfold listed.
  assert (Hin : exists d', In d' (local ++ used em) /\ uid d' = uid d /\ (In d' local \/ In d' em)).
  { destruct Hd as [Hd|Hd].
    - exists d. split; [apply in_or_app; now left | split; [reflexivity | now left]].
    - destruct (dedup_complete em [] d Hd) as [[]|[e [He Hu]]].
      exists e. split; [apply in_or_app; now right | split; [assumption | right; now apply used_incl in He]]. }
  destruct Hin as [d' [Hin [Hu Hd']]].
  assert (d' = d).
  { apply Hwf; [| |assumption]; apply in_or_app; tauto. }
  subst d'.
  destruct (dedup_complete _ [] d Hin) as [[]|[e [He Hue]]].
  assert (e = d).
  { pose proof (dedup_incl _ _ _ He) as Hi. apply in_app_or in Hi.
    apply Hwf; [| |assumption]; apply in_or_app.
    - destruct Hi as [Hi|Hi]; [now left | right; now apply used_incl in Hi].
    - tauto. }
  now subst.
Qed.

Lemma listed_nodup : forall local em, NoDup (map uid (listed local em)).
Proof. intros. apply dedup_nodup. Qed.

Lemma entry_shape : forall d, etopic_count (entry_of d) = topic_count d /\ edata_heads (entry_of d) = data_heads d.
Proof.
  intros d. unfold etopic_count, edata_heads, topic_count, data_heads, entry_of. simpl.
  induction (dfields d) as [|f r [IH1 IH2]]; simpl; [split; reflexivity|].
  destruct (findexed f); simpl; split; congruence || lia.
Qed.
