(* C19: which event / error declarations the ABI JSON (and the `# Events` / `# Errors` sections of the `interface`
   output) list: ModuleT.to_toplevel_abi_dict / used_events / used_errors (vyper/semantics/types/module.py),
   build_interface_output (vyper/compiler/output.py).  Hand model; no proofs in this file.

   A declaration is identified by WHERE it is declared (EventT / ErrorT compare by identity; `uid` = position of
   the declaration among all declarations of the program), not by its name or its id (topic0 / selector):
   two modules may declare the same name with the same argument types and another `indexed` layout or other
   field names.  The listed declarations are the locally declared ones followed by the ones emitted / raised by
   reachable functions (in reachability order), each declaration once. *)
From Coq Require Import List Bool String Arith.
Import ListNotations.
Open Scope string_scope.

Record field := mkfield { fname : string; ftype : string; findexed : bool }.
Record decl := mkdecl { uid : nat; dname : string; dfields : list field }.

(* what an ABI consumer sees of a declaration *)
Definition entry : Type := (string * list (string * string * bool))%type.
Definition entry_of (d : decl) : entry :=
  (dname d, map (fun f => (fname f, ftype f, findexed f)) (dfields d)).

(* the event id / error selector is a hash of this string: name + argument types only *)
Definition sig_of (d : decl) : string :=
  dname d ++ "(" ++ String.concat "," (map ftype (dfields d)) ++ ")".

(* shape of the log a `log d(...)` statement produces: number of topics, number of head words of the data *)
Definition topic_count (d : decl) : nat := S (List.length (filter findexed (dfields d))).
Definition data_heads (d : decl) : nat := List.length (filter (fun f => negb (findexed f)) (dfields d)).
Definition etopic_count (e : entry) : nat := S (List.length (filter (fun x => snd x) (snd e))).
Definition edata_heads (e : entry) : nat := List.length (filter (fun x => negb (snd x)) (snd e)).

(* OrderedSet of declarations (identity): first occurrence kept *)
Fixpoint dedup (seen : list nat) (l : list decl) : list decl :=
  match l with
  | [] => []
  | d :: r => if existsb (Nat.eqb (uid d)) seen then dedup seen r else d :: dedup (uid d :: seen) r
  end.

(* ModuleT.used_events / used_errors: the declarations emitted by the reachable functions, in that order *)
Definition used (emitted : list decl) : list decl := dedup [] emitted.
(* the event (error) part of to_toplevel_abi_dict: OrderedSet(local) then update(used) *)
Definition listed (local emitted : list decl) : list decl := dedup [] (local ++ used emitted).
Definition abi_part (local_ev emitted_ev local_er raised_er : list decl) : list decl :=
  listed local_ev emitted_ev ++ listed local_er raised_er.

(* a WRONG variant, for contrast: one declaration per id (sig) *)
Fixpoint dedup_by_sig (seen : list string) (l : list decl) : list decl :=
  match l with
  | [] => []
  | d :: r => if existsb (String.eqb (sig_of d)) seen then dedup_by_sig seen r else d :: dedup_by_sig (sig_of d :: seen) r
  end.

(* identities are consistent: one uid, one declaration *)
Definition wf (l : list decl) : Prop := forall a b, In a l -> In b l -> uid a = uid b -> a = b.

(* printing, for the differential tie *)
Definition show_field (f : field) : string := fname f ++ ":" ++ ftype f ++ (if findexed f then "!" else "").
Definition show_decl (d : decl) : string := dname d ++ "(" ++ String.concat "," (map show_field (dfields d)) ++ ")".
Definition show_part (l : list decl) : string := String.concat ";" (map show_decl l).
