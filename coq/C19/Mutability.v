(* C19: stateMutability through the ABI and what consumers derive from it.
   Model of: StateMutability.from_abi (semantics/analysis/base.py, "stateMutability" key present),
   ContractFunctionT.is_payable (dispatcher payable bit, C07), the call opcode chosen for a call through an
   interface (codegen/external_call.py, codegen_venom/expr.py: staticcall iff mutability in (VIEW, PURE)) and
   the `value=` kwarg rule of fetch_call_return (rejected unless payable). *)
From Coq Require Import List Bool String.
From Verif Require Import C19.AbiOut.
Import ListNotations.
Open Scope string_scope.

Definition mut_from_abi (s : string) : option mutability :=
  if s =? "pure" then Some Pure else if s =? "view" then Some View
  else if s =? "nonpayable" then Some Nonpayable else if s =? "payable" then Some Payable else None.

Definition use_staticcall (m : mutability) : bool := match m with Pure | View => true | _ => false end.
Definition is_payable (m : mutability) : bool := match m with Payable => true | _ => false end.
Definition value_kwarg_allowed (m : mutability) : bool := is_payable m.

Lemma mut_roundtrip : forall m, mut_from_abi (show_mut m) = Some m.
Proof. destruct m; reflexivity. Qed.

Lemma entries_carry_mutability : forall f e, In e (to_toplevel_abi f) -> e_mut e = fmut f.
Proof.
  intros f e H. unfold to_toplevel_abi in H.
  destruct (fkind_of f); cbv zeta in H.
  - destruct (PeanoNat.Nat.ltb 0 (List.length (fkws f))).
    + apply in_map_iff in H. destruct H as (i & <- & _). reflexivity.
    + destruct H as [<- | []]. reflexivity.
  - destruct (PeanoNat.Nat.ltb 0 (List.length (fkws f))).
    + apply in_map_iff in H. destruct H as (i & <- & _). reflexivity.
    + destruct H as [<- | []]. reflexivity.
  - destruct H as [<- | []]. reflexivity.
Qed.

(* every ABI entry of a function carries a stateMutability string from which a consumer recovers exactly the
   declared mutability; hence a caller compiled against the ABI uses STATICCALL iff the function is declared
   view/pure, may attach value iff it is payable, and the dispatcher's payable bit equals `payable` in the JSON *)
Theorem mutability_consistent_thm : forall f e, In e (to_toplevel_abi f) ->
  mut_from_abi (show_mut (e_mut e)) = Some (fmut f) /\
  (forall m, mut_from_abi (show_mut (e_mut e)) = Some m ->
     (use_staticcall m = true <-> (fmut f = Pure \/ fmut f = View)) /\
     (value_kwarg_allowed m = is_payable (fmut f)) /\
     (is_payable m = true <-> show_mut (e_mut e) = "payable")).
Proof.
  intros f e H. rewrite (entries_carry_mutability f e H), mut_roundtrip. split; [reflexivity |].
  intros m E. injection E as <-. repeat split; destruct (fmut f); simpl; intros; try tauto;
    try discriminate; try (destruct H0; discriminate); auto.
Qed.
