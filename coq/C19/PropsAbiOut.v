(* C19 property theorems (statements only; proofs in AbiOutProofs.v). *)
From Coq Require Import ZArith List Bool String.
From Verif Require Import C19.AbiOut C19.AbiOutProofs C19.Mutability C19.SelectorInj.
Import ListNotations.
Open Scope string_scope.

(* The name used for `method_identifiers` (canonical_abi_type) and the name used by the dispatcher
   (abi_type.selector_name) are the same string for every type tree, hence the listed signatures
   (and ids, for any hash) are exactly the served ones. *)
Theorem signature_printers_agree : forall t, canonical t = selector_name (abi_type t).
Proof. exact printers_agree. Qed.
Print Assumptions signature_printers_agree.

Theorem listed_ids_eq_served_ids : forall (H : string -> Z) f, map H (method_id_sigs f) = map H (served_sigs f).
Proof. exact AbiOutProofs.listed_ids_eq_served_ids. Qed.
Print Assumptions listed_ids_eq_served_ids.

(* The signature an ABI consumer rebuilds from the JSON `type`/`components` of an argument is the
   name of the ABI type the code generators encode/decode with. *)
Theorem json_type_matches_encoding : forall t name, json_sig (to_abi_arg t name) = selector_name (abi_type t).
Proof. exact json_sig_correct. Qed.
Print Assumptions json_type_matches_encoding.

(* k defaults => k+1 entries; entry i lists the first npos+i inputs; the signature computed from
   entry i is the i-th served signature. *)
Theorem abi_entries_prefixes : forall f, fkind_of f = KFunction ->
  List.length (to_toplevel_abi f) = S (List.length (fkws f)) /\
  forall i d, (i <= List.length (fkws f))%nat ->
    e_inputs (nth i (to_toplevel_abi f) d) = Some (firstn (List.length (fpos f) + i) (all_inputs f)) /\
    entry_sig (nth i (to_toplevel_abi f) d) = Some (nth i (served_sigs f) "").
Proof.
  intros f Hk. split.
  - apply abi_entries_count. rewrite Hk. discriminate.
  - intros i d Hi. split.
    + apply abi_entries_inputs; [rewrite Hk; discriminate | assumption].
    + now apply abi_entry_sig_served.
Qed.
Print Assumptions abi_entries_prefixes.

Theorem getter_signature : forall name p,
  let f := getter_fn name p in
  served_sigs f = [sig_of name (map canonical (fst (getter_sig p)))] /\
  method_id_sigs f = served_sigs f /\
  List.length (to_toplevel_abi f) = 1%nat /\
  fmut f = View /\
  fret f = Some (snd (getter_sig p)) /\
  List.length (fst (getter_sig p)) = pdepth p /\
  is_array (snd (getter_sig p)) = false.
Proof.
  intros name p f. destruct (getter_abi name p) as (a & b & c & d & e).
  repeat split; try assumption. apply getter_depth. apply getter_ret_not_array.
Qed.
Print Assumptions getter_signature.

Theorem getter_keys : forall k v t n,
  getter_sig (PMap k v) = (k :: fst (getter_sig v), snd (getter_sig v)) /\
  getter_sig (PVal (VSArr t n)) = (UINT256 :: fst (getter_sig (PVal t)), snd (getter_sig (PVal t))) /\
  getter_sig (PVal (VDArr t n)) = (UINT256 :: fst (getter_sig (PVal t)), snd (getter_sig (PVal t))).
Proof. intros. split; [apply getter_map_key | apply getter_array_key]. Qed.
Print Assumptions getter_keys.

(* stateMutability: every entry's string decodes (StateMutability.from_abi) to the declared mutability, so a caller
   compiled against the ABI uses STATICCALL iff view/pure, may attach value iff payable, and the dispatcher's
   payable bit is the JSON's "payable".  (That the body of a view function is write-free is C11; that STATICCALL
   enforces it is C12.) *)
Theorem mutability_consistent : forall f e, In e (to_toplevel_abi f) ->
  mut_from_abi (show_mut (e_mut e)) = Some (fmut f) /\
  (forall m, mut_from_abi (show_mut (e_mut e)) = Some m ->
     (use_staticcall m = true <-> (fmut f = Pure \/ fmut f = View)) /\
     (value_kwarg_allowed m = is_payable (fmut f)) /\
     (is_payable m = true <-> show_mut (e_mut e) = "payable")).
Proof. exact mutability_consistent_thm. Qed.
Print Assumptions mutability_consistent.

(* selector names are uniquely readable: two ABI types with the same name have the same tree once the bounds of
   Bytes / String / DynArray are erased (structs are tuples at this level), i.e. they are encoded identically. *)
Theorem selector_name_injective_mod_equiv : forall a b, awf a -> awf b ->
  selector_name a = selector_name b -> erase a = erase b.
Proof. exact selector_name_injective_mod_equiv_thm. Qed.
Print Assumptions selector_name_injective_mod_equiv.

Example ex_equiv : erase (ADArr (ATuple [ABytes 5; AInt false 8]) 3) = erase (ADArr (ATuple [ABytes 9; AInt false 8]) 7).
Proof. reflexivity. Qed.

(* non-vacuity: a nested public variable and a function with two defaults *)
Example ex_getter :
  served_sigs (getter_fn "m" (PMap VAddress (PMap (VInt false 8)
      (PVal (VSArr (VStruct "P" ["a"; "b"] [VInt false 256; VDArr (VInt true 8) 3]) 2)))))
  = ["m(address,uint8,uint256)"].
Proof. vm_compute. reflexivity. Qed.

Example ex_defaults :
  map entry_sig (to_toplevel_abi (mkfn "pay" KFunction [("a", VInt false 256)] [("b", VBytes 5); ("c", VStruct "P" ["x"] [VDecimal])] None Payable))
  = [Some "pay(uint256)"; Some "pay(uint256,bytes)"; Some "pay(uint256,bytes,(int168))"].
Proof. vm_compute. reflexivity. Qed.
