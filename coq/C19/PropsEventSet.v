(* C19 property theorems about the event / error part of the ABI (statements; proofs in EventSetProofs.v). *)
From Coq Require Import List Bool String Arith.
From Verif Require Import C19.EventSet C19.EventSetProofs.
Import ListNotations.
Open Scope string_scope.

(* Every declaration which reachable code emits (raises), and every local one, has its OWN entry in the ABI:
   same name, same field names, same types, same `indexed` flags -- so the log produced by `log d(...)`
   (1 + #indexed topics, #non-indexed data heads) is described by an entry of exactly that shape. *)
Theorem abi_lists_every_emitted_declaration : forall local emitted d,
  wf (local ++ emitted) -> In d local \/ In d emitted ->
  In (entry_of d) (map entry_of (listed local emitted)) /\
  exists e, In e (map entry_of (listed local emitted)) /\ fst e = dname d /\
            etopic_count e = topic_count d /\ edata_heads e = data_heads d.
Proof.
  intros local emitted d Hwf Hd.
  pose proof (in_map entry_of _ _ (listed_complete local emitted d Hwf Hd)) as H.
  split; [exact H|]. exists (entry_of d). split; [exact H|]. split; [reflexivity|]. apply entry_shape.
Qed.
Print Assumptions abi_lists_every_emitted_declaration.

(* ... and nothing else: every listed entry is a local declaration or one that reachable code emits. *)
Theorem abi_lists_only_declared_or_emitted : forall local emitted e,
  In e (listed local emitted) -> In e local \/ In e emitted.
Proof. exact listed_sound. Qed.
Print Assumptions abi_lists_only_declared_or_emitted.

(* each declaration once *)
Theorem abi_lists_each_declaration_once : forall local emitted, NoDup (map uid (listed local emitted)).
Proof. exact listed_nodup. Qed.
Print Assumptions abi_lists_each_declaration_once.

(* non-vacuity, and why the identity of a declaration must not be replaced by its id (name + types):
   two modules declare Moved(address,uint256) with another `indexed` layout *)
Definition ex_a := mkdecl 0 "Moved" [mkfield "who" "address" true; mkfield "amount" "uint256" false].
Definition ex_b := mkdecl 1 "Moved" [mkfield "who" "address" false; mkfield "amount" "uint256" false].

Example abi_lists_both_layouts :
  wf ([] ++ [ex_a; ex_b]) /\ map entry_of (listed [] [ex_a; ex_b]) = [entry_of ex_a; entry_of ex_b] /\
  sig_of ex_a = sig_of ex_b /\ topic_count ex_a = 2 /\ topic_count ex_b = 1.
Proof.
  split; [|vm_compute; repeat split; reflexivity].
  intros a b Ha Hb Hu. simpl in Ha, Hb.
  destruct Ha as [Ha|[Ha|[]]]; destruct Hb as [Hb|[Hb|[]]]; subst; try reflexivity; discriminate.
Qed.

Example dedup_by_id_loses_a_layout :
  forall e, In e (map entry_of (dedup_by_sig [] [ex_a; ex_b])) -> etopic_count e <> topic_count ex_b.
Proof. vm_compute. intros e [H|[]]. subst. discriminate. Qed.
