(* C20 (proof-level part): property theorems about the pre-parser token machines AS REGENERATED from
   vyper/ast/pre_parser.py (GenPreParse.v), with the hand model of the COMMENT block (Pragma.v) as hook. *)
From Coq Require Import ZArith List Bool String Lia.
From Verif Require Import Base.PyInt C20P.Tok C20P.GenTokConst C20P.GenPragmaConst C20P.PreParse C20P.Pragma
  C20P.GenPreParse C20P.PreParseSound C20P.PreParseProofs C20P.PragmaProofs C20P.SpanProofs.
Import ListNotations.
Open Scope list_scope.
Open Scope Z_scope.

Section Props.
  Variable spec_valid spec_contains : string -> bool.     (* packaging.SpecifierSet: any behaviour *)
  Variable is_interface : bool.
  Notation hook := (comment_hook spec_valid spec_contains OPT_TABLE EVM_VERSION_NAMES is_interface).
  Notation preparse := (gen_run settings hook settings0).

  (* totality: for EVERY token list the pre-parser yields its outputs or one of the documented located exceptions
     (SyntaxException / PragmaException / VersionException); no AssertionError, IndexError, KeyError, AttributeError *)
  Theorem preparse_total : forall ts, user_facing (preparse ts).
  Proof.
    intro ts. rewrite gen_run_eq. apply run_total_model. apply comment_hook_user_facing.
  Qed.

  (* bounded work: one machine step per input token *)
  Theorem preparse_steps : forall ts,
    (snd (run_count settings hook (ms_init settings settings0) ts 0) <= List.length ts)%nat /\
    fst (run_count settings hook (ms_init settings settings0) ts 0) = preparse ts.
  Proof.
    intro ts. destruct (run_count_steps settings hook ts (ms_init settings settings0) 0%nat) as (A & _ & C).
    split; [exact A |]. rewrite gen_run_eq. exact C.
  Qed.

  (* structure of every successful run *)
  Theorem preparse_structure : forall ts st, preparse ts = POk st ->
    (forall k v, In (k, v) (fp_anns (m_fp _ st)) -> exists t, In t ts /\ is_tok T_NAME "for" t = true /\ k = Some (tstart t)) /\
    NoDup (map fst (fp_anns (m_fp _ st))) /\
    (forall k v, In (k, v) (m_adj _ st) -> exists t, In t ts /\ (tstart t = (fst k, snd k + v) \/ tend t = (fst k, snd k + v))) /\
    (forall k s, In (k, s) (m_kw _ st) ->
       exists t nk a, In t ts /\ ttyp t = T_NAME /\ keyword_of t = Some (nk, s) /\ tstart t = (fst k, snd k + a)) /\
    Rew ts (m_res _ st) /\
    (forall t', In t' (m_res _ st) -> exists t, In t ts /\ tstart t' = tstart t /\ tend t' = tend t) /\
    (List.length (m_res _ st) <= List.length ts)%nat /\
    (forall p, In p (hp_locs (m_hp _ st)) -> exists t, In t ts /\ ttyp t = T_STRING /\ tstart t = p).
  Proof.
    intros ts st E. rewrite gen_run_eq in E.
    destruct (run_structure_model settings hook (comment_hook_user_facing _ _ _ _ _) settings0 ts st E)
      as (A & B & C & D & R & H).
    repeat split; auto; [apply (Rew_positions _ _ R) | apply (Rew_length _ _ R)].
  Qed.
End Props.
Print Assumptions preparse_total.
Print Assumptions preparse_structure.

(* non-vacuity: `for i: uint256 in y: log A(x"ab")` rewrites, and a `;` is rejected with its location *)
Definition tk (ty : Z) (s : string) (c : Z) : token := mk_token ty s (1, c) (1, c + slen s).
Definition demo : list token :=
  [tk 1 "for" 0; tk 1 "i" 4; tk 55 ":" 5; tk 1 "uint256" 7; tk 1 "in" 15; tk 1 "y" 18; tk 55 ":" 19;
   tk 1 "log" 21; tk 1 "A" 25; tk 55 "(" 26; tk 1 "x" 27; tk 3 """ab""" 28; tk 55 ")" 32]%string.
Example preparse_nonvacuous :
  (exists st, gen_run settings (comment_hook (fun _ => true) (fun _ => true) OPT_TABLE EVM_VERSION_NAMES false) settings0 demo = POk st /\
     map tstr (m_res _ st) = ["for"; "i"; "in"; "y"; ":"; "yield"; "A"; "("; """ab"""; ")"]%string /\
     fp_anns (m_fp _ st) = [(Some (1, 0), [tk 1 "uint256" 7])] /\ hp_locs (m_hp _ st) = [(1, 28)] /\
     m_kw _ st = [((1, 21), "Log"%string)]) /\
  gen_run settings (comment_hook (fun _ => true) (fun _ => true) OPT_TABLE EVM_VERSION_NAMES false) settings0
          (demo ++ [tk 55 ";" 33]) = PErr (User "SyntaxException" 1 33 "Semi-colon statements not allowed").
Proof. split; [eexists; vm_compute; auto 10 | vm_compute; reflexivity]. Qed.

(* the documented assumption about tokenize.untokenize HOLDS for every token list: the rewritten token list keeps
   every NEWLINE / INDENT / DEDENT / ENDMARKER of the input, in order, and adds none -- so its INDENT/DEDENT nesting is
   balanced exactly when the input's is (the ForParser now refuses to swallow such tokens; regression input
   `for a:\n for b\n`, formerly IndexError inside untokenize) *)
Theorem layout_preserved : forall spec_valid spec_contains is_interface ts st,
  gen_run settings (comment_hook spec_valid spec_contains OPT_TABLE EVM_VERSION_NAMES is_interface) settings0 ts = POk st ->
  filter is_layout (m_res _ st) = filter is_layout ts /\
  forall d, indent_balanced (m_res _ st) d = indent_balanced ts d.
Proof.
  intros sv sc ii ts st E. rewrite gen_run_eq in E.
  pose proof (run_layout_model settings _ (comment_hook_user_facing sv sc OPT_TABLE EVM_VERSION_NAMES ii) settings0 ts st E) as L.
  unfold lay in L. split; [exact L |]. intro d. rewrite <- (indent_balanced_lay (m_res _ st)), <- (indent_balanced_lay ts), L. reflexivity.
Qed.
Print Assumptions layout_preserved.

Definition witness_for_for : list token :=
  [mk_token 67 "utf-8" (0, 0) (0, 0); mk_token 1 "for" (1, 0) (1, 3); mk_token 1 "a" (1, 4) (1, 5); mk_token 55 ":" (1, 5) (1, 6);
   mk_token 4 (String (Ascii.ascii_of_nat 10) "") (1, 6) (1, 7); mk_token 5 " " (2, 0) (2, 1); mk_token 1 "for" (2, 1) (2, 4);
   mk_token 1 "b" (2, 5) (2, 6); mk_token 4 (String (Ascii.ascii_of_nat 10) "") (2, 6) (2, 7); mk_token 6 "" (3, 0) (3, 0);
   mk_token 0 "" (3, 0) (3, 0)]%string.
Example for_without_in_rejected :
  gen_run settings (comment_hook (fun _ => true) (fun _ => true) OPT_TABLE EVM_VERSION_NAMES false) settings0 witness_for_for =
  PErr (User "SyntaxException" 1 6 "invalid for loop syntax: missing `in`").
Proof. vm_compute. reflexivity. Qed.

(* adjusted_span_is_original_span: what vyper/ast/parse.py relies on when it does
   `node.col_offset += adjustments.get((lineno, col_offset), 0)` and the same for (end_lineno, end_col_offset), and then
   slices source[start:end]: for every token stream with tokenizer-like positions (tokens follow each other, ends not
   before starts, keyword NAME tokens are len(text) wide) and every token of it, BOTH the position where the token starts
   and the position where it ends in the rewritten text are keys of the table, and adding the stored adjustment gives
   exactly the original start / end of that token.  (Layout model of the rewritten text: SpanProofs.v header.) *)
Theorem adjusted_span_is_original_span : forall spec_valid spec_contains is_interface ts st,
  wf_positions ts ->
  gen_run settings (comment_hook spec_valid spec_contains OPT_TABLE EVM_VERSION_NAMES is_interface) settings0 ts = POk st ->
  forall t ns ne, In (t, ns, ne) (spans [] ts) ->
    exists a b, dget pos_eqb (m_adj _ st) ns = Some a /\ (fst ns, snd ns + a) = tstart t /\
                dget pos_eqb (m_adj _ st) ne = Some b /\ (fst ne, snd ne + b) = tend t.
Proof.
  intros sv sc ii ts st W E. rewrite gen_run_eq in E.
  exact (adjusted_span_model settings _ (comment_hook_user_facing sv sc OPT_TABLE EVM_VERSION_NAMES ii) settings0 ts st W E).
Qed.
Print Assumptions adjusted_span_is_original_span.

(* the machine before /repo 8376ae6 recorded adjustments at token STARTS only (replayed here by [old_adjs]); the
   property was false for it: in `    extcall Foo(t).bar(12.345 + y)` the literal 12.345 ends (rewritten text) at column
   27, the old table has no entry there, so parse.py kept 27 as the end column although the original end is 29 and
   sliced "12.3" -- a silently wrong constant *)
Fixpoint old_adjs (cols : list (Z * Z)) (adj : list (pos * Z)) (ts : list token) : list (pos * Z) :=
  match ts with
  | [] => adj
  | t :: r => old_adjs (cols_next cols t)
                       (dset pos_eqb adj (new_start cols t) (dget_default Z.eqb cols (fst (tstart t)) 0)) r
  end.
Definition witness_extcall : list token :=
  [mk_token 67 "utf-8" (0, 0) (0, 0); mk_token 5 "    " (1, 0) (1, 4); mk_token 1 "extcall" (1, 4) (1, 11);
   mk_token 1 "Foo" (1, 12) (1, 15); mk_token 55 "(" (1, 15) (1, 16); mk_token 1 "t" (1, 16) (1, 17);
   mk_token 55 ")" (1, 17) (1, 18); mk_token 55 "." (1, 18) (1, 19); mk_token 1 "bar" (1, 19) (1, 22);
   mk_token 55 "(" (1, 22) (1, 23); mk_token 2 "12.345" (1, 23) (1, 29); mk_token 55 "+" (1, 30) (1, 31);
   mk_token 1 "y" (1, 32) (1, 33); mk_token 55 ")" (1, 33) (1, 34);
   mk_token 4 (String (Ascii.ascii_of_nat 10) "") (1, 34) (1, 35); mk_token 6 "" (2, 0) (2, 0); mk_token 0 "" (2, 0) (2, 0)]%string.
Example adjusted_span_refuted_before_8376ae6 :
  let lit := mk_token 2 "12.345" (1, 23) (1, 29) in
  In (lit, (1, 21), (1, 27)) (spans [] witness_extcall) /\
  dget pos_eqb (old_adjs [] [] witness_extcall) (1, 27) = None /\          (* .get((1, 27), 0) = 0: end stays 27 <> 29 *)
  (exists st, gen_run settings (comment_hook (fun _ => true) (fun _ => true) OPT_TABLE EVM_VERSION_NAMES false) settings0
                      witness_extcall = POk st /\
              dget pos_eqb (m_adj _ st) (1, 27) = Some 2 /\ dget pos_eqb (m_adj _ st) (1, 21) = Some 2).
Proof.
  cbv zeta. split; [vm_compute; auto 20 |]. split; [vm_compute; reflexivity |].
  eexists. split; [vm_compute; reflexivity | split; vm_compute; reflexivity].
Qed.
