(* C20P harness: run the model on a token list with the Pragma.v hook and compare with the real outcome. *)
From Coq Require Import ZArith List Bool String.
From Verif Require Import Base.PyInt C20P.Tok C20P.GenTokConst C20P.GenPragmaConst C20P.PreParse C20P.Pragma.
Import ListNotations.
Open Scope string_scope.
Open Scope list_scope.
Open Scope Z_scope.

Definition tok_eqb (a b : token) : bool :=
  (ttyp a =? ttyp b) && String.eqb (tstr a) (tstr b) && pos_eqb (tstart a) (tstart b) && pos_eqb (tend a) (tend b).
Fixpoint list_eqb {A} (eqb : A -> A -> bool) (a b : list A) : bool :=
  match a, b with [], [] => true | x :: a', y :: b' => eqb x y && list_eqb eqb a' b' | _, _ => false end.
Definition opt_eqb {A} (eqb : A -> A -> bool) (a b : option A) : bool :=
  match a, b with Some x, Some y => eqb x y | None, None => true | _, _ => false end.
Definition set_eqb (a b : settings) : bool :=
  opt_eqb String.eqb (s_ver a) (s_ver b) && opt_eqb String.eqb (s_opt a) (s_opt b) && opt_eqb String.eqb (s_evm a) (s_evm b) &&
  opt_eqb Bool.eqb (s_exp a) (s_exp b) && opt_eqb Bool.eqb (s_dec a) (s_dec b) && opt_eqb Bool.eqb (s_nonre a) (s_nonre b).

Inductive expected :=
| ExpOk (res : list token) (adj : list (pos * Z)) (kw : list (pos * string))
        (anns : list (option pos * list token)) (hex : list pos) (set : settings)
| ExpUser (cls : string) (line col : Z) (msg : string)
| ExpInternal.

Definition oracle (tbl : list (string * (bool * bool))) (which : bool) (s : string) : bool :=
  match find (fun e => String.eqb (fst e) s) tbl with
  | Some (_, (a, b)) => if which then a else b
  | None => false
  end.

Definition the_hook (is_interface : bool) (tbl : list (string * (bool * bool))) :=
  comment_hook (oracle tbl true) (oracle tbl false) OPT_TABLE EVM_VERSION_NAMES is_interface.

Definition verdict (r : pres (ms settings)) (e : expected) : string :=
  match r, e with
  | POk st, ExpOk res adj kw anns hex set =>
      if negb (list_eqb tok_eqb (m_res _ st) res) then "result-tokens"
      else if negb (list_eqb (fun a b => pos_eqb (fst a) (fst b) && (snd a =? snd b)) (m_adj _ st) adj) then "adjustments"
      else if negb (list_eqb (fun a b => pos_eqb (fst a) (fst b) && String.eqb (snd a) (snd b)) (m_kw _ st) kw) then "keyword_translations"
      else if negb (list_eqb (fun a b => opos_eqb (fst a) (fst b) && list_eqb tok_eqb (snd a) (snd b)) (fp_anns (m_fp _ st)) anns)
      then "for_loop_annotations"
      else if negb (list_eqb pos_eqb (hp_locs (m_hp _ st)) hex) then "hex_string_locations"
      else if negb (set_eqb (m_set _ st) set) then "settings"
      else "ok"
  | PErr (User c l k m), ExpUser c' l' k' m' =>
      if negb (String.eqb c c') then "exception-class"
      else if negb ((l =? l') && (k =? k')) then "exception-location"
      else if negb (startswith m m') then "exception-message"
      else "ok"
  | PErr (Internal _), ExpInternal => "ok"
  | POk _, _ => "model-ok-real-raises"
  | PErr (User _ _ _ _), _ => "model-user-error"
  | PErr (Internal _), _ => "model-internal-error"
  end.

Definition check_with (runner : forall S : Type, (string -> pos -> S -> pres S) -> S -> list token -> pres (ms S))
           (is_interface : bool) (tbl : list (string * (bool * bool))) (ts : list token) (e : expected) : string :=
  verdict (runner settings (the_hook is_interface tbl) settings0 ts) e.

Definition check := check_with run.
