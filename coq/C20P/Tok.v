(* C20P (pre-parser): abstract tokens, the result type that separates user-facing diagnostics from internal
   errors, python dict / list helpers.  No proofs here. *)
From Coq Require Import ZArith List Bool String.
From Verif Require Import Base.PyInt.
Import ListNotations.
Open Scope Z_scope.

Definition pos := (Z * Z)%type.                     (* (line, column) *)

(* tokenize.TokenInfo without the `line` text *)
Record token := mk_token { ttyp : Z; tstr : string; tstart : pos; tend : pos }.

(* outcome of a python computation: a value, a documented user-facing exception (class, location, message) or an
   internal error (AssertionError, KeyError, IndexError, AttributeError on None, ...) *)
Inductive perr :=
| User (cls : string) (line col : Z) (msg : string)
| Internal (e : err).
Inductive pres (A : Type) : Type :=
| POk : A -> pres A
| PErr : perr -> pres A.
Arguments POk {A} _.
Arguments PErr {A} _.

Definition pbind {A B} (m : pres A) (f : A -> pres B) : pres B :=
  match m with POk a => f a | PErr e => PErr e end.
Notation "x <~ m ;; k" := (pbind m (fun x => k)) (at level 61, m at next level, right associativity).
Notation "' p <~ m ;; k" := (pbind m (fun x => let p := x in k)) (at level 61, p pattern, m at next level, right associativity).

Definition user_facing {A} (r : pres A) : Prop :=
  match r with POk _ => True | PErr (User _ _ _ _) => True | PErr (Internal _) => False end.
Definition user_facingb {A} (r : pres A) : bool :=
  match r with POk _ => true | PErr (User _ _ _ _) => true | PErr (Internal _) => false end.

Definition pos_eqb (a b : pos) : bool := (fst a =? fst b) && (snd a =? snd b).
Definition opos_eqb (a b : option pos) : bool :=
  match a, b with Some x, Some y => pos_eqb x y | None, None => true | _, _ => false end.

(* python dict: `d[k] = v` replaces the value in place or appends a new key at the end *)
Section Dict.
  Context {K V : Type}.
  Variable eqb : K -> K -> bool.
  Fixpoint dset (d : list (K * V)) (k : K) (v : V) : list (K * V) :=
    match d with
    | [] => [(k, v)]
    | (k', v') :: r => if eqb k' k then (k, v) :: r else (k', v') :: dset r k v
    end.
  Fixpoint dget (d : list (K * V)) (k : K) : option V :=
    match d with
    | [] => None
    | (k', v') :: r => if eqb k' k then Some v' else dget r k
    end.
  (* d.setdefault(k, v): keep an existing entry *)
  Definition dsetdefault (d : list (K * V)) (k : K) (v : V) : list (K * V) :=
    match dget d k with Some _ => d | None => d ++ [(k, v)] end.
  Definition dget_default (d : list (K * V)) (k : K) (dflt : V) : V :=
    match dget d k with Some v => v | None => dflt end.
End Dict.

Fixpoint assoc_str (l : list (string * string)) (k : string) : option string :=
  match l with
  | [] => None
  | (k', v) :: r => if String.eqb k' k then Some v else assoc_str r k
  end.
Definition str_in (l : list string) (k : string) : bool := existsb (String.eqb k) l.
Definition z_in (l : list Z) (k : Z) : bool := existsb (Z.eqb k) l.

Definition slen (s : string) : Z := Z.of_nat (String.length s).

(* `x or []` for an Optional[list] *)
Definition str_key_in (l : list (string * string)) (k : string) : bool := match assoc_str l k with Some _ => true | None => false end.

Definition opt_or_nil {A} (x : option (list A)) : list A := match x with Some l => l | None => [] end.

(* python list indexing l[i] for a literal i >= 0 *)
Definition lindex {A} (l : list A) (i : Z) : pres A :=
  match nth_error l (Z.to_nat i) with Some x => POk x | None => PErr (Internal BadIndex) end.
