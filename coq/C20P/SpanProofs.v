(* C20P: the column-adjustment table maps BOTH ends of every token, as positioned in the rewritten text, back to the
   original span -- the property vyper/ast/parse.py relies on when it shifts col_offset / end_col_offset of a node and
   then slices the literal text source[start:end].
   Model of the rewritten text: tokenize.untokenize places a token at its recorded start column minus the keyword
   adjustments accumulated on that line so far (the Untokenizer advances by the recorded end, not by the new text), and it
   ends at its recorded end minus the adjustments including its own.  This layout model is validated every run against
   tokenize(reformatted_code). *)
From Coq Require Import ZArith List Bool String Lia.
From Verif Require Import Base.PyInt C20P.Tok C20P.GenTokConst C20P.PreParse C20P.PreParseProofs.
Import ListNotations.
Open Scope list_scope.
Open Scope Z_scope.

Lemma pos_eqb_iff : forall a b, pos_eqb a b = true <-> a = b.
Proof.
  intros [a1 a2] [b1 b2]. unfold pos_eqb. cbn. rewrite andb_true_iff, !Z.eqb_eq.
  split; [intros [-> ->]; reflexivity | intro H; inversion H; auto].
Qed.
Lemma pos_eqb_false : forall a b, pos_eqb a b = false <-> a <> b.
Proof.
  intros a b. split; intro H.
  - intro E. apply pos_eqb_iff in E. congruence.
  - destruct (pos_eqb a b) eqn:E; [apply pos_eqb_iff in E; contradiction | reflexivity].
Qed.

(* ---------- dictionary lookups *)
Lemma dget_dset : forall {V} (d : list (pos * V)) k v k',
  dget pos_eqb (dset pos_eqb d k v) k' = if pos_eqb k k' then Some v else dget pos_eqb d k'.
Proof.
  induction d as [| [k0 v0] r IH]; intros k v k'; cbn.
  - destruct (pos_eqb k k'); reflexivity.
  - destruct (pos_eqb k0 k) eqn:E; cbn.
    + apply pos_eqb_iff in E. subst k0. destruct (pos_eqb k k'); reflexivity.
    + destruct (pos_eqb k0 k') eqn:E2.
      * apply pos_eqb_iff in E2. subst k0. destruct (pos_eqb k k') eqn:Q; [| reflexivity].
        apply pos_eqb_iff in Q. subst k. rewrite (proj2 (pos_eqb_iff k' k') eq_refl) in E. discriminate E.
      * apply IH.
Qed.

Lemma dget_app : forall {V} (d e : list (pos * V)) k,
  dget pos_eqb (d ++ e) k = match dget pos_eqb d k with Some v => Some v | None => dget pos_eqb e k end.
Proof.
  induction d as [| [k0 v0] r IH]; intros e k; cbn; [reflexivity |]. destruct (pos_eqb k0 k); [reflexivity | apply IH].
Qed.

Lemma dget_dsetdefault : forall {V} (d : list (pos * V)) k v k',
  dget pos_eqb (dsetdefault pos_eqb d k v) k' =
  match dget pos_eqb d k' with Some x => Some x | None => if pos_eqb k k' then Some v else None end.
Proof.
  intros V d k v k'. unfold dsetdefault. destruct (dget pos_eqb d k) eqn:E.
  - destruct (dget pos_eqb d k') eqn:E'; [reflexivity |].
    destruct (pos_eqb k k') eqn:Q; [apply pos_eqb_iff in Q; subst; congruence | reflexivity].
  - rewrite dget_app. cbn. destruct (dget pos_eqb d k'); reflexivity.
Qed.

Lemma dget_In : forall {V} (d : list (pos * V)) k v, dget pos_eqb d k = Some v -> In (k, v) d.
Proof.
  induction d as [| [k0 v0] r IH]; intros k v H; cbn in H; [discriminate |].
  destruct (pos_eqb k0 k) eqn:E; [apply pos_eqb_iff in E; subst; injection H as ->; left; reflexivity | right; auto].
Qed.

(* ---------- positions *)
Definition lex_le (a b : pos) : Prop := fst a < fst b \/ (fst a = fst b /\ snd a <= snd b).
Lemma lex_le_trans : forall a b c, lex_le a b -> lex_le b c -> lex_le a c.
Proof. unfold lex_le. intros. lia. Qed.
Lemma lex_le_antisym : forall a b, lex_le a b -> lex_le b a -> a = b.
Proof. unfold lex_le. intros [a1 a2] [b1 b2]; cbn. intros. f_equal; lia. Qed.
Lemma lex_le_refl : forall a, lex_le a a.
Proof. unfold lex_le. intros. right. lia. Qed.

Section Spans.
  Variable S : Type.
  Variable hook : string -> pos -> S -> pres S.
  Hypothesis hook_user_facing : forall s p st, user_facing (hook s p st).

  (* the keyword a NAME token is rewritten to, if any *)
  Definition kwd (t : token) : option (string * string) := if ttyp t =? T_NAME then keyword_of t else None.

  (* _col_adjustments after processing t *)
  Definition cols_next (cols : list (Z * Z)) (t : token) : list (Z * Z) :=
    match kwd t with
    | Some (nk, _) => dset Z.eqb cols (fst (tstart t))
                           (dget_default Z.eqb cols (fst (tstart t)) 0 + (slen (tstr t) - slen nk))
    | None => cols
    end.

  (* where a token starts and ends in the rewritten text (layout model of untokenize, see the header) *)
  Definition new_start (cols : list (Z * Z)) (t : token) : pos :=
    (fst (tstart t), snd (tstart t) - dget_default Z.eqb cols (fst (tstart t)) 0).
  Definition new_end (cols : list (Z * Z)) (t : token) : pos :=
    (fst (tend t), snd (tend t) - dget_default Z.eqb (cols_next cols t) (fst (tend t)) 0).

  Fixpoint spans (cols : list (Z * Z)) (ts : list token) : list (token * pos * pos) :=
    match ts with
    | [] => []
    | t :: r => (t, new_start cols t, new_end cols t) :: spans (cols_next cols t) r
    end.
  Fixpoint cols_after (cols : list (Z * Z)) (ts : list token) : list (Z * Z) :=
    match ts with [] => cols | t :: r => cols_after (cols_next cols t) r end.

  (* positions as a tokenizer produces them: tokens follow each other, a token does not end before it starts, and a
     keyword NAME token ends exactly len(text) columns after its start *)
  Fixpoint wf_from (E : pos) (ts : list token) : Prop :=
    match ts with
    | [] => True
    | t :: r => lex_le E (tstart t) /\ lex_le (tstart t) (tend t) /\
                (kwd t <> None -> tend t = (fst (tstart t), snd (tstart t) + slen (tstr t))) /\
                wf_from (tend t) r
    end.
  Definition wf_positions (ts : list token) : Prop :=
    match ts with [] => True | t :: _ => wf_from (tstart t) ts end.

  Lemma kw_part_cols : forall (st : ms S) t ns kw cols toks, kw_part S st t ns = (kw, cols, toks) -> cols = cols_next (m_col _ st) t.
  Proof.
    intros st t ns kw cols toks H. unfold kw_part in H. unfold cols_next, kwd.
    destruct (if ttyp t =? T_NAME then keyword_of t else None) as [[nk vty] |]; inv H; reflexivity.
  Qed.

  Lemma kwd_len : forall t nk vty, kwd t = Some (nk, vty) -> slen nk = 5.
  Proof.
    intros t nk vty H. unfold kwd in H. destruct (ttyp t =? T_NAME); [| discriminate].
    apply keyword_of_names in H. destruct H as [<- | [<- | [<- | []]]]; reflexivity.
  Qed.

  (* state of the table after the tokens [pre], whose last token ended (in the original text) at E *)
  Record G (cols0 : list (Z * Z)) (pre : list token) (E : pos) (st : ms S) : Prop := {
    g_cols : m_col _ st = cols_after cols0 pre;
    g_map : forall t ns ne, In (t, ns, ne) (spans cols0 pre) ->
            dget pos_eqb (m_adj _ st) ns = Some (snd (tstart t) - snd ns) /\ fst ns = fst (tstart t) /\
            dget pos_eqb (m_adj _ st) ne = Some (snd (tend t) - snd ne) /\ fst ne = fst (tend t);
    g_front : forall k v, In (k, v) (m_adj _ st) ->
              lex_le k (fst E, snd E - dget_default Z.eqb (m_col _ st) (fst E) 0);
    g_last : m_adj _ st <> [] ->
             dget pos_eqb (m_adj _ st) (fst E, snd E - dget_default Z.eqb (m_col _ st) (fst E) 0)
             = Some (dget_default Z.eqb (m_col _ st) (fst E) 0)
  }.

  Lemma spans_snoc : forall pre cols t,
    spans cols (pre ++ [t]) = spans cols pre ++ [(t, new_start (cols_after cols pre) t, new_end (cols_after cols pre) t)].
  Proof. induction pre as [| a r IH]; intros cols t; cbn; [reflexivity | rewrite IH; reflexivity]. Qed.
  Lemma cols_after_snoc : forall pre cols t, cols_after cols (pre ++ [t]) = cols_next (cols_after cols pre) t.
  Proof. induction pre as [| a r IH]; intros cols t; cbn; [reflexivity | apply IH]. Qed.

  Lemma step_G : forall cols0 pre E st t st',
    ms_ok S st -> G cols0 pre E st -> step S hook st t = POk st' ->
    lex_le E (tstart t) -> lex_le (tstart t) (tend t) ->
    (kwd t <> None -> tend t = (fst (tstart t), snd (tstart t) + slen (tstr t))) ->
    G cols0 (pre ++ [t]) (tend t) st'.
  Proof.
    intros cols0 pre E st t st' OK [GC GM GF GL] ST W1 W2 W3.
    destruct (step_cases S hook hook_user_facing st t OK) as [(c & l & k & m & E') | (st2 & kw & cols & toks & b1 & E' & _ & EA & KP & _ & EC & _)];
      [rewrite E' in ST; discriminate |].
    rewrite E' in ST. injection ST as <-.
    pose proof (kw_part_cols _ _ _ _ _ _ KP) as CN. rewrite CN in EA. rewrite CN in EC. clear CN KP.
    set (A := dget_default Z.eqb (m_col S st) (fst (tstart t)) 0) in *.
    set (ns := newstart_of S st t) in *.
    set (cols' := cols_next (m_col S st) t) in *.
    set (A' := dget_default Z.eqb cols' (fst (tend t)) 0) in *.
    set (ne := (fst (tend t), snd (tend t) - A')) in *.
    set (P := (fst E, snd E - dget_default Z.eqb (m_col S st) (fst E) 0)) in *.
    assert (ns = new_start (cols_after cols0 pre) t) as NS by (unfold ns, newstart_of, new_start; rewrite <- GC; reflexivity).
    assert (ne = new_end (cols_after cols0 pre) t) as NE by (unfold ne, A', cols', new_end; rewrite <- GC; reflexivity).
    (* the new start is at or beyond the frontier *)
    assert (lex_le P ns) as PN.
    { unfold P, ns, newstart_of, lex_le in *. cbn [fst snd] in *. destruct W1 as [W1 | [W1 W1']]; [left; exact W1 |].
      right. split; [exact W1 |]. fold A. unfold A. rewrite <- W1. lia. }
    (* writing the start entry does not change any existing lookup *)
    assert (forall k v, dget pos_eqb (m_adj S st) k = Some v ->
                        dget pos_eqb (dset pos_eqb (m_adj S st) ns A) k = Some v) as KEEP1.
    { intros k v H. rewrite dget_dset. destruct (pos_eqb ns k) eqn:Q; [| exact H].
      apply pos_eqb_iff in Q. subst k.
      pose proof (GF _ _ (dget_In _ _ _ H)) as LE. fold P in LE.
      pose proof (lex_le_antisym _ _ LE PN) as EQ.
      assert (m_adj S st <> []) as NN by (intro Z0; rewrite Z0 in H; discriminate H).
      specialize (GL NN). fold P in GL. rewrite <- EQ in GL. rewrite GL in H. injection H as <-.
      f_equal. unfold A. unfold ns, newstart_of, P in EQ. injection EQ as E1 E2. rewrite E1. reflexivity. }
    (* the end is at or beyond the start; when they coincide the adjustment is the same *)
    assert (lex_le ns ne /\ (ns = ne -> A' = A)) as [NN SAME].
    { unfold ns, newstart_of, ne, lex_le. cbn [fst snd]. fold A.
      destruct (kwd t) as [[nk vty] |] eqn:K.
      - pose proof (W3 ltac:(discriminate)) as TE. pose proof (kwd_len _ _ _ K) as L5.
        assert (A' = A + (slen (tstr t) - slen nk)) as EA'.
        { unfold A', cols', cols_next. rewrite K, TE. cbn [fst snd]. unfold dget_default.
          assert (forall (d : list (Z * Z)) k v, dget Z.eqb (dset Z.eqb d k v) k = Some v) as DS.
          { induction d as [| [k0 v0] r IH]; intros k v; cbn; [rewrite Z.eqb_refl; reflexivity |].
            destruct (k0 =? k) eqn:Q; cbn; [rewrite Z.eqb_refl; reflexivity | rewrite Q; apply IH]. }
          rewrite DS. reflexivity. }
        rewrite TE. cbn [fst snd]. split; [right; split; [reflexivity | lia] |].
        intro H. injection H as H. lia.
      - assert (cols' = m_col S st) as CE by (unfold cols', cols_next; rewrite K; reflexivity).
        destruct W2 as [W2 | [W2 W2']]; [split; [left; exact W2 | intro H; injection H as H1 H2; lia] |].
        assert (A' = A) as -> by (unfold A', A; rewrite CE, W2; reflexivity).
        split; [right; split; [exact W2 | lia] | reflexivity]. }
    constructor.
    - rewrite EC, cols_after_snoc, <- GC. reflexivity.
    - intros t0 ns0 ne0 I. rewrite spans_snoc in I. rewrite EA. apply in_app_or in I as [I | [I | []]].
      + destruct (GM _ _ _ I) as (M1 & F1 & M2 & F2). rewrite !dget_dsetdefault.
        rewrite (KEEP1 _ _ M1), (KEEP1 _ _ M2). auto.
      + injection I as <- <- <-. rewrite <- NS, <- NE. rewrite !dget_dsetdefault, !dget_dset.
        rewrite (proj2 (pos_eqb_iff ns ns) eq_refl).
        assert (snd (tstart t) - snd ns = A) as -> by (unfold ns, newstart_of; cbn [snd]; fold A; lia).
        split; [reflexivity |]. split; [reflexivity |].
        assert (snd (tend t) - snd ne = A') as -> by (unfold ne; cbn [snd]; lia).
        split; [| reflexivity].
        destruct (pos_eqb ns ne) eqn:Q.
        * apply pos_eqb_iff in Q. rewrite (SAME Q). reflexivity.
        * destruct (dget pos_eqb (m_adj S st) ne) as [x |] eqn:OLD.
          -- (* an older key equal to the new end: impossible unless it is the start (excluded) *)
             exfalso. pose proof (GF _ _ (dget_In _ _ _ OLD)) as LE. fold P in LE.
             apply pos_eqb_false in Q. apply Q. apply lex_le_antisym; [exact NN |].
             eapply lex_le_trans; [exact LE | exact PN].
          -- rewrite (proj2 (pos_eqb_iff ne ne) eq_refl). reflexivity.
    - intros k v I. rewrite EA in I. rewrite EC. fold cols'. fold A'. fold ne.
      apply In_dsetdefault in I as [I | I]; [injection I as -> _; apply lex_le_refl |].
      apply In_dset in I as [I | I]; [injection I as -> _; exact NN |].
      eapply lex_le_trans; [apply (GF _ _ I) | fold P; eapply lex_le_trans; [exact PN | exact NN]].
    - intros _. rewrite EA, EC. fold cols'. fold A'. fold ne. rewrite dget_dsetdefault, dget_dset.
      destruct (pos_eqb ns ne) eqn:Q.
      + apply pos_eqb_iff in Q. rewrite (SAME Q). reflexivity.
      + destruct (dget pos_eqb (m_adj S st) ne) as [x |] eqn:OLD.
        * exfalso. pose proof (GF _ _ (dget_In _ _ _ OLD)) as LE. fold P in LE.
          apply pos_eqb_false in Q. apply Q. apply lex_le_antisym; [exact NN |].
          eapply lex_le_trans; [exact LE | exact PN].
        * rewrite (proj2 (pos_eqb_iff ne ne) eq_refl). reflexivity.
  Qed.

  Lemma run_from_G : forall ts cols0 pre E st st',
    ms_ok S st -> G cols0 pre E st -> wf_from E ts -> run_from S hook st ts = POk st' ->
    exists E', G cols0 (pre ++ ts) E' st'.
  Proof.
    induction ts as [| t r IH]; intros cols0 pre E st st' OK GG W R.
    - cbn in R. injection R as <-. exists E. rewrite app_nil_r. exact GG.
    - cbn [PreParse.run_from] in R. destruct (step S hook st t) as [st1 | e] eqn:ST; [| discriminate R]. cbn [pbind] in R.
      destruct W as (W1 & W2 & W3 & WR).
      pose proof (step_G cols0 pre E st t st1 OK GG ST W1 W2 W3) as G1.
      assert (ms_ok S st1) as OK1.
      { destruct (step_cases S hook hook_user_facing st t OK) as [(c & l & k & m & E') | (st2 & kw & cols & toks & b1 & E' & OK' & _)];
          rewrite E' in ST; [discriminate | injection ST as <-; exact OK']. }
      replace (pre ++ t :: r) with ((pre ++ [t]) ++ r) by (rewrite <- app_assoc; reflexivity).
      eapply IH; eauto.
  Qed.

  (* adjusted_span_is_original_span (model level) *)
  Theorem adjusted_span_model : forall s0 ts st, wf_positions ts -> run S hook s0 ts = POk st ->
    forall t ns ne, In (t, ns, ne) (spans [] ts) ->
      exists a b, dget pos_eqb (m_adj _ st) ns = Some a /\ (fst ns, snd ns + a) = tstart t /\
                  dget pos_eqb (m_adj _ st) ne = Some b /\ (fst ne, snd ne + b) = tend t.
  Proof.
    intros s0 ts st W R t ns ne I. unfold run in R.
    assert (exists E0, wf_from E0 ts) as (E0 & W0) by (destruct ts as [| t0 r]; [exists (0, 0); exact Logic.I | exists (tstart t0); exact W]).
    assert (G [] [] E0 (ms_init S s0)) as G0.
    { constructor; cbn; try reflexivity; try (intros; contradiction); try (intro H; exfalso; apply H; reflexivity). }
    destruct (run_from_G ts [] [] E0 _ _ (ms_init_ok S s0) G0 W0 R) as (E' & [_ GM _ _]).
    cbn [app] in GM. destruct (GM _ _ _ I) as (M1 & F1 & M2 & F2).
    eexists. eexists. split; [exact M1 |]. split; [| split; [exact M2 |]].
    - destruct (tstart t) as [l c]. cbn [fst snd] in *. f_equal; lia.
    - destruct (tend t) as [l c]. cbn [fst snd] in *. f_equal; lia.
  Qed.
End Spans.

(* ---------- executable side of the tie: the hypothesis [wf_positions] is decided on every tokenizer stream of a run
   (it must hold for them, otherwise the theorem does not speak about real inputs), and the layout model [spans] is
   compared with tokenize(reformatted_code) *)
Definition lex_leb (a b : pos) : bool := (fst a <? fst b) || ((fst a =? fst b) && (snd a <=? snd b)).
Lemma lex_leb_ok : forall a b, lex_leb a b = true -> lex_le a b.
Proof.
  unfold lex_leb, lex_le. intros a b H. apply orb_true_iff in H. destruct H as [H | H].
  - left. apply Z.ltb_lt. exact H.
  - right. apply andb_true_iff in H. destruct H as [H1 H2]. split; [apply Z.eqb_eq; exact H1 | apply Z.leb_le; exact H2].
Qed.
Fixpoint wf_fromb (E : pos) (ts : list token) : bool :=
  match ts with
  | [] => true
  | t :: r => lex_leb E (tstart t) && lex_leb (tstart t) (tend t) &&
              (match kwd t with Some _ => pos_eqb (tend t) (fst (tstart t), snd (tstart t) + slen (tstr t)) | None => true end) &&
              wf_fromb (tend t) r
  end.
Definition wf_positionsb (ts : list token) : bool := match ts with [] => true | t :: _ => wf_fromb (tstart t) ts end.
Lemma wf_fromb_ok : forall ts E, wf_fromb E ts = true -> wf_from E ts.
Proof.
  induction ts as [| t r IH]; intros E H; cbn in *; [exact I |].
  repeat (apply andb_true_iff in H; destruct H as [H ?]).
  split; [apply lex_leb_ok; assumption |]. split; [apply lex_leb_ok; assumption |]. split; [| apply IH; assumption].
  intro K. destruct (kwd t); [| contradiction K; reflexivity]. apply pos_eqb_iff. assumption.
Qed.
Lemma wf_positionsb_ok : forall ts, wf_positionsb ts = true -> wf_positions ts.
Proof. intros [| t r] H; [exact I |]. apply wf_fromb_ok. exact H. Qed.

(* every (start, end) of [expected] -- the significant tokens of the re-tokenized rewritten text -- is the modelled
   span of some token of the stream;  0 = ok, 1 = positions not tokenizer-like, 2 = layout model disagrees *)
Definition span_tie (ts : list token) (expected : list (pos * pos)) : Z :=
  if negb (wf_positionsb ts) then 1
  else let model := map (fun x => (snd (fst x), snd x)) (spans [] ts) in
       if forallb (fun e => existsb (fun m => pos_eqb (fst e) (fst m) && pos_eqb (snd e) (snd m)) model) expected then 0 else 2.
