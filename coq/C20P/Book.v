(* C20P: model of the bookkeeping in vyper/ast/parse.py that consumes the pre-parser's results:
   visit_For pops the loop annotation keyed by the For node's position, visit_Constant removes the location of a hex
   string, and _parse_to_ast rejects the program when anything is left over.  Events abstract the Python AST walk.
   Hand model (the AST itself is outside the model); tied by differential + a static shape guard. *)
From Coq Require Import ZArith List Bool String Lia.
From Verif Require Import Base.PyInt C20P.Tok.
Import ListNotations.
Open Scope string_scope.
Open Scope list_scope.
Open Scope Z_scope.

Inductive ann_res := AOk | ABad | AValue (vp : pos).
Inductive ev :=
| EvFor (p : pos) (target_is_name : bool) (tp : pos) (a : ann_res)     (* a For statement at p *)
| EvStr (p : pos) (even_len : bool).                                   (* a str constant at p *)

Definition bstate := (list (pos * list token) * list pos)%type.       (* for_loop_annotations, hex_string_locations *)

Definition uerr {A} (p : pos) (m : string) : pres A := PErr (User "SyntaxException" (fst p) (snd p) m).

Fixpoint dremove {V} (d : list (pos * V)) (k : pos) : list (pos * V) :=
  match d with [] => [] | (k', v) :: r => if pos_eqb k' k then r else (k', v) :: dremove r k end.
Fixpoint lremove (l : list pos) (k : pos) : list pos :=
  match l with [] => [] | x :: r => if pos_eqb x k then r else x :: lremove r k end.
Definition lmem (l : list pos) (k : pos) : bool := existsb (fun x => pos_eqb x k) l.

Definition book_step (st : bstate) (e : ev) : pres bstate :=
  let '(anns, hexs) := st in
  match e with
  | EvFor p isname tp a =>
      match dget pos_eqb anns p with
      | None => uerr p "Invalid syntax (unsupported whitespace or line continuation before this statement?)"
      | Some toks =>
          match toks with
          | [] => if negb isname then uerr tp "invalid for loop syntax: not a name" else uerr p "missing type annotation"
          | _ => match a with
                 | ABad => uerr p "invalid type annotation"
                 | AValue vp => uerr vp "invalid type annotation"
                 | AOk => POk (dremove anns p, hexs)
                 end
          end
      end
  | EvStr p even =>
      if lmem hexs p then
        if negb even then uerr p "Hex string must have an even number of characters"
        else POk (anns, lremove hexs p)
      else POk st
  end.

Fixpoint book_walk (st : bstate) (es : list ev) : pres bstate :=
  match es with [] => POk st | e :: r => st' <~ book_step st e ;; book_walk st' r end.

(* the two postconditions at the end of _parse_to_ast *)
Definition book_post (st : bstate) : pres unit :=
  match fst st with
  | (k, _) :: _ => uerr k "`for` is only allowed as a loop statement"
  | [] => match snd st with
          | p :: _ => uerr p "Invalid hex string literal"
          | [] => POk tt
          end
  end.

Definition book (anns : list (pos * list token)) (hexs : list pos) (es : list ev) : pres unit :=
  st <~ book_walk (anns, hexs) es ;; book_post st.

(* ---------- theorems *)
Lemma book_step_uf : forall st e, user_facing (book_step st e).
Proof.
  intros [anns hexs] e. destruct e as [p n tp a | p even]; cbn [book_step].
  - destruct (dget pos_eqb anns p) as [[| t r] |]; try exact I; [destruct (negb n); exact I | destruct a; exact I].
  - destruct (lmem hexs p); [destruct (negb even) |]; exact I.
Qed.

(* never an internal error, whatever the AST walk looks like *)
Theorem book_total : forall anns hexs es, user_facing (book anns hexs es).
Proof.
  intros anns hexs es. unfold book. generalize (anns, hexs). induction es as [| e r IH]; intro st; cbn [book_walk pbind].
  - unfold book_post. destruct (fst st) as [| [k v] ?]; [destruct (snd st) |]; exact I.
  - pose proof (book_step_uf st e) as U. destruct (book_step st e); [apply IH | exact U].
Qed.

Lemma pos_eqb_eq : forall a b, pos_eqb a b = true <-> a = b.
Proof.
  intros [a1 a2] [b1 b2]. unfold pos_eqb. cbn. rewrite andb_true_iff, !Z.eqb_eq. split; [intros [-> ->]; reflexivity | intro H; inversion H; auto].
Qed.

Lemma in_dremove : forall {V} (d : list (pos * V)) k k' v, In (k', v) d -> k' <> k -> In (k', v) (dremove d k).
Proof.
  induction d as [| [k0 v0] r IH]; intros k k' v I N; [destruct I |]. cbn.
  destruct (pos_eqb k0 k) eqn:E.
  - apply pos_eqb_eq in E. subst. destruct I as [I | I]; [inversion I; subst; contradiction | exact I].
  - destruct I as [I | I]; [left; exact I | right; apply IH; assumption].
Qed.

Definition for_at (es : list ev) (k : pos) : Prop := exists n tp a, In (EvFor k n tp a) es.

Lemma walk_consumes : forall es st st', book_walk st es = POk st' ->
  forall k v, In (k, v) (fst st) -> In (k, v) (fst st') \/ for_at es k.
Proof.
  induction es as [| e r IH]; intros st st' W k v I; cbn [book_walk] in W.
  - injection W as <-. left. exact I.
  - destruct (book_step st e) as [st1 | x] eqn:E; [| discriminate W]. cbn [pbind] in W.
    destruct st as [anns hexs]. destruct e as [p n tp a | p even]; cbn [book_step] in E.
    + destruct (dget pos_eqb anns p) as [[| t0 r0] |]; try discriminate E;
        [destruct (negb n); discriminate E |]. destruct a; try discriminate E. injection E as <-.
      destruct (pos_eqb p k) eqn:PK.
      * apply pos_eqb_eq in PK. subst. right. exists n, tp, AOk. left. reflexivity.
      * assert (k <> p) as NE by (intro; subst; rewrite (proj2 (pos_eqb_eq p p) eq_refl) in PK; discriminate).
        destruct (IH _ _ W k v (in_dremove anns p k v I NE)) as [L | (n' & tp' & a' & F)]; [left; exact L |].
        right. exists n', tp', a'. right. exact F.
    + assert (fst st1 = anns) as EQ.
      { destruct (lmem hexs p); [destruct (negb even); [discriminate E |] |]; injection E as <-; reflexivity. }
      destruct (IH _ _ W k v ltac:(rewrite EQ; exact I)) as [L | (n' & tp' & a' & F)]; [left; exact L |].
      right. exists n', tp', a'. right. exact F.
Qed.

(* acceptance means everything was consumed: every annotation entry of the pre-parser belongs to a For statement
   standing exactly at that `for` token, and no hex location is left *)
Theorem book_ok_consumed : forall anns hexs es, book anns hexs es = POk tt ->
  forall k v, In (k, v) anns -> for_at es k.
Proof.
  intros anns hexs es B k v I. unfold book in B.
  destruct (book_walk (anns, hexs) es) as [st' |] eqn:W; [| discriminate B]. cbn [pbind] in B.
  destruct (walk_consumes es _ _ W k v I) as [L | F]; [| exact F].
  unfold book_post in B. destruct (fst st') as [| [k0 v0] ?]; [destruct L | discriminate B].
Qed.
