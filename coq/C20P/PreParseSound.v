(* C20P T-tie: the regenerated state machines (GenPreParse.v) are equal to the model of PreParse.v, as functions. *)
From Coq Require Import ZArith List Bool String Lia.
From Verif Require Import Base.PyInt C20P.Tok C20P.GenTokConst C20P.PreParse C20P.GenPreParse.
Import ListNotations.
Open Scope list_scope.
Open Scope Z_scope.

Ltac contra :=
  exfalso;
  repeat match goal with
         | H : (_ =? _) = true |- _ => apply Z.eqb_eq in H
         | H : (_ =? _) = false |- _ => apply Z.eqb_neq in H
         | H : String.eqb _ _ = true |- _ => apply String.eqb_eq in H
         | H : String.eqb _ _ = false |- _ => apply String.eqb_neq in H
         | H : negb _ = true |- _ => apply negb_true_iff in H
         | H : negb _ = false |- _ => apply negb_false_iff in H
         end;
  subst; try congruence; try lia; try discriminate.

Ltac split_ifs :=
  repeat match goal with
         | |- context [if ?c then _ else _] =>
             match c with
             | context [if _ then _ else _] => fail 1
             | _ => let E := fresh "E" in destruct c eqn:E; cbn [andb negb fst snd] in *
             end
         | |- context [match ?o with Some _ => _ | None => _ end] =>
             match o with
             | context [if _ then _ else _] => fail 1
             | _ => let E := fresh "O" in destruct o eqn:E
             end
         end.

Lemma for_consume_eq : forall st t, gen_for_consume st t = for_consume st t.
Proof.
  intros [s f a anns] t. unfold gen_for_consume, for_consume, is_layout, is_tok, T_NAME, T_OP, T_NEWLINE, T_INDENT, T_DEDENT, T_ENDMARKER,
    S_NOT_RUNNING, S_START_SOON, S_RUNNING.
  cbn [fp_state fp_for fp_ann fp_anns].
  destruct (ttyp t =? 1) eqn:N; destruct (ttyp t =? 55) eqn:P; cbn [andb];
    destruct (String.eqb (tstr t) "for") eqn:F; destruct (String.eqb (tstr t) ":") eqn:C;
    destruct (String.eqb (tstr t) "in") eqn:I; cbn [fp_state fp_for fp_ann fp_anns andb];
    try (contra; fail);
    destruct (s =? 1) eqn:S1; destruct (s =? 3) eqn:S3; cbn [negb]; try (contra; fail);
    destruct (z_in [4; 5; 6; 0] (ttyp t)); destruct a; try reflexivity.
Qed.

Lemma hex_consume_eq : forall st t r, gen_hex_consume st t r = hex_consume st t r.
Proof.
  intros [s toks locs] t r. unfold gen_hex_consume, hex_consume, is_tok, T_NAME, T_STRING, S_NOT_RUNNING, S_RUNNING.
  cbn [hp_state hp_toks hp_locs].
  destruct (s =? 1) eqn:S1.
  - destruct (ttyp t =? 1); cbn [andb]; [destruct (String.eqb (tstr t) "x") |]; reflexivity.
  - destruct (s =? 3) eqn:S3; cbn [negb]; [| reflexivity].
    destruct (ttyp t =? 3); cbn [negb]; [| reflexivity].
    destruct (Z.of_nat (Datatypes.length toks) =? 1); cbn [negb]; [| reflexivity].
    destruct (lindex toks 0) as [x | e]; cbn [pbind]; [| reflexivity].
    destruct (ttyp x =? 1); cbn [andb negb]; [destruct (String.eqb (tstr x) "x") |]; reflexivity.
Qed.

Ltac fin :=
  repeat first [rewrite for_consume_eq | rewrite hex_consume_eq];
  repeat match goal with
         | |- context [for_consume ?a ?b] =>
             destruct (for_consume a b) as [[? []] | ?]; cbn [pbind]; repeat rewrite hex_consume_eq
         | |- context [hex_consume ?a ?b ?c] => destruct (hex_consume a b c) as [[[? ?] []] | ?]; cbn [pbind]
         end; try reflexivity.

Lemma step_eq : forall S hook st t, gen_step S hook st t = step S hook st t.
Proof.
  intros S hook [adj res kw set col fp hp] t.
  unfold gen_step, step, kw_part, keyword_of, str_key_in, is_tok, T_NAME, T_OP, T_COMMENT.
  cbn [m_adj m_res m_kw m_set m_col m_fp m_hp].
  destruct (ttyp t =? 64) eqn:C.
  - destruct (hook (tstr t) (tstart t) set) as [set' | e]; cbn [pbind]; [| reflexivity].
    destruct (ttyp t =? 1) eqn:N; [contra |]. cbn [andb].
    destruct ((ttyp t =? 55) && String.eqb (tstr t) ";"); fin.
  - cbn [pbind]. destruct (ttyp t =? 1) eqn:N; cbn [andb].
    + destruct (str_in ["class"; "yield"]%string (tstr t)); [reflexivity |].
      destruct (ttyp t =? 55) eqn:P; [contra |]. cbn [andb].
      destruct (assoc_str VYPER_CLASS_TYPES (tstr t)) eqn:A1; destruct (snd (tstart t) =? 0);
        destruct (assoc_str CUSTOM_STATEMENT_TYPES (tstr t)) eqn:A2;
        destruct (assoc_str CUSTOM_EXPRESSION_TYPES (tstr t)) eqn:A3; cbn [pbind]; fin.
    + destruct ((ttyp t =? 55) && String.eqb (tstr t) ";"); fin.
Qed.

Theorem gen_run_eq : forall S hook s0 ts, gen_run S hook s0 ts = run S hook s0 ts.
Proof.
  intros S hook s0 ts. unfold gen_run, run. generalize (ms_init S s0).
  induction ts as [| t r IH]; intro st; [reflexivity |].
  cbn [gen_run_from run_from]. rewrite step_eq. destruct (step S hook st t); cbn [pbind]; [apply IH | reflexivity].
Qed.
