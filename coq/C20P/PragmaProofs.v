(* C20P: the COMMENT block (version / settings pragmas, model Pragma.v) raises nothing but the documented
   PragmaException / VersionException: in particular `pragma.split()[0]` in the "Unknown pragma" message can never
   raise IndexError, because a stripped comment that starts with "pragma " has a non-blank remainder. *)
From Coq Require Import ZArith List Bool String Ascii Lia.
From Verif Require Import Base.PyInt C20P.Tok C20P.Pragma.
Import ListNotations.
Open Scope string_scope.

Fixpoint all_ws (s : string) : bool :=
  match s with EmptyString => true | String c r => is_ws c && all_ws r end.
Fixpoint last_ws (s : string) : bool :=
  match s with
  | EmptyString => false
  | String c EmptyString => is_ws c
  | String _ r => last_ws r
  end.

Lemma rstrip_last : forall s, last_ws (rstrip s) = false.
Proof.
  induction s as [| c r IH]; [reflexivity |]. cbn [rstrip].
  destruct (rstrip r) as [| c' r'] eqn:E.
  - destruct (is_ws c) eqn:W; [reflexivity | cbn; exact W].
  - cbn [last_ws]. exact IH.
Qed.

Lemma lstrip_last : forall s, last_ws s = false -> last_ws (lstrip s) = false.
Proof.
  induction s as [| c r IH]; intro H; [reflexivity |]. cbn [lstrip].
  destruct (is_ws c) eqn:W; [| exact H]. apply IH. destruct r; [reflexivity | exact H].
Qed.

Lemma strip_last : forall s, last_ws (strip s) = false.
Proof. intro. unfold strip. apply rstrip_last. Qed.

Lemma startswith_split : forall p s, startswith p s = true -> s = p ++ drop (String.length p) s.
Proof.
  induction p as [| a p IH]; intros s H; [reflexivity |].
  destruct s as [| b s]; [discriminate H |]. cbn in H. apply andb_prop in H as [E H].
  apply Ascii.eqb_eq in E. subst b. cbn. f_equal. apply IH. exact H.
Qed.

Lemma last_ws_app_allws : forall p r, all_ws r = true -> last_ws (p ++ " " ++ r) = true.
Proof.
  induction p as [| a p IH]; intros r H.
  - cbn [append]. induction r as [| c r IHr]; [reflexivity |].
    cbn in H. apply andb_prop in H as [W H]. specialize (IHr H).
    cbn [last_ws] in *. destruct r; [cbn; exact W | exact IHr].
  - specialize (IH r H). change ((String a p) ++ " " ++ r) with (String a (p ++ " " ++ r)).
    destruct (p ++ " " ++ r) eqn:E; [destruct p; discriminate E |]. cbn [last_ws]. exact IH.
Qed.

Lemma lstrip_nonblank : forall s, all_ws s = false -> exists c r, lstrip s = String c r /\ is_ws c = false.
Proof.
  induction s as [| c r IH]; intro H; [discriminate H |]. cbn in *.
  destruct (is_ws c) eqn:W; [apply IH; exact H | eauto].
Qed.

Lemma rstrip_keeps_head : forall c r, is_ws c = false -> exists r', rstrip (String c r) = String c r'.
Proof. intros c r W. cbn [rstrip]. destruct (rstrip r); [rewrite W |]; eauto. Qed.

Lemma first_word_ok : forall s, all_ws s = false -> exists w, first_word (strip s) = POk w.
Proof.
  intros s H. destruct (lstrip_nonblank s H) as (c & r & E & W).
  unfold strip. rewrite E. destruct (rstrip_keeps_head c r W) as (r' & ->).
  unfold first_word. cbn [lstrip]. rewrite W. eauto.
Qed.

Section PragmaTotal.
  Variable spec_valid spec_contains : string -> bool.
  Variable opt_table : list (string * string).
  Variable evm_versions : list string.
  Variable is_interface : bool.
  Notation hook := (comment_hook spec_valid spec_contains opt_table evm_versions is_interface).

  Lemma validate_version_uf : forall v p, user_facing (validate_version spec_valid spec_contains v p).
  Proof.
    intros v p. unfold validate_version. destruct v; [exact I |].
    destruct (negb (spec_valid _)); [exact I |]. destruct (negb (spec_contains _)); exact I.
  Qed.

  Lemma parse_pragma_uf : forall contents st p,
    startswith "pragma " contents = true -> last_ws contents = false ->
    user_facing (parse_pragma spec_valid spec_contains opt_table evm_versions is_interface contents st p).
  Proof.
    intros contents st p SW LW. unfold parse_pragma, perr_pragma.
    assert (all_ws (removeprefix "pragma " contents) = false) as NB.
    { unfold removeprefix. rewrite SW. destruct (all_ws (drop (String.length "pragma ") contents)) eqn:A; [| reflexivity].
      pose proof (startswith_split _ _ SW) as E.
      pose proof (last_ws_app_allws "pragma" _ A) as L. change ("pragma" ++ " " ++ ?r) with ("pragma " ++ r) in L.
      rewrite <- E in L. congruence. }
    set (pragma := strip (removeprefix "pragma " contents)).
    destruct (startswith "version " pragma).
    { destruct (s_ver st); [exact I |].
      pose proof (validate_version_uf (strip (removeprefix "version " pragma)) p) as U.
      destruct (validate_version _ _ _ _); [exact I | exact U]. }
    destruct (startswith "optimize " pragma).
    { destruct (s_opt st); [exact I |]. destruct (assoc_str opt_table _); exact I. }
    destruct (startswith "evm-version " pragma).
    { destruct (s_evm st); [exact I |]. destruct (str_in evm_versions _); exact I. }
    destruct (str_in _ pragma). { destruct (s_exp st); exact I. }
    destruct (String.eqb pragma _). { destruct (s_dec st); exact I. }
    destruct (startswith "nonreentrancy " pragma).
    { destruct is_interface; [exact I |]. destruct (s_nonre st); [exact I |]. destruct (str_in _ _); exact I. }
    destruct (first_word_ok _ NB) as (w & EW). unfold pragma. rewrite EW. exact I.
  Qed.

  (* the COMMENT block never raises an internal error, for every comment text and every settings state *)
  Theorem comment_hook_user_facing : forall str p st, user_facing (hook str p st).
  Proof.
    intros str p st. unfold comment_hook.
    set (contents := strip (drop 1 str)).
    assert (last_ws contents = false) as LW by apply strip_last.
    destruct (startswith "@version" contents).
    - destruct (s_ver st); [exact I |].
      pose proof (validate_version_uf (strip (removeprefix "@version " contents)) p) as U.
      destruct (validate_version _ _ _ _); [| exact U]. cbn [pbind].
      destruct (startswith "pragma " contents) eqn:SW; [apply parse_pragma_uf; assumption | exact I].
    - cbn [pbind]. destruct (startswith "pragma " contents) eqn:SW; [apply parse_pragma_uf; assumption | exact I].
  Qed.
End PragmaTotal.
