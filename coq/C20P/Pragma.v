(* C20P hand model of the `if typ == COMMENT:` block of PreParser._parse, `_parse_pragma` and
   `validate_version_pragma` (vyper/ast/pre_parser.py).  packaging's SpecifierSet is the oracle pair
   [spec_valid] (constructor succeeds) / [spec_contains] (contains the compiler version); the tables of optimisation
   modes and EVM versions are regenerated (GenPragmaConst.v).  Tied by exact differential.  No proofs here. *)
From Coq Require Import ZArith List Bool String Ascii.
From Verif Require Import Base.PyInt C20P.Tok.
Import ListNotations.
Open Scope string_scope.
Open Scope list_scope.
Open Scope Z_scope.
Local Infix "+++" := append (at level 60, right associativity).

(* str.isspace() restricted to the ASCII range (tie inputs keep non-ASCII blanks away from pragmas) *)
Definition is_ws (c : ascii) : bool :=
  let n := nat_of_ascii c in
  (Nat.eqb n 32) || ((Nat.leb 9 n) && (Nat.leb n 13)) || ((Nat.leb 28 n) && (Nat.leb n 31)).

Fixpoint lstrip (s : string) : string :=
  match s with String c r => if is_ws c then lstrip r else s | EmptyString => EmptyString end.
Fixpoint rstrip (s : string) : string :=
  match s with
  | EmptyString => EmptyString
  | String c r => match rstrip r with
                  | EmptyString => if is_ws c then EmptyString else String c EmptyString
                  | r' => String c r'
                  end
  end.
Definition strip (s : string) : string := rstrip (lstrip s).

Fixpoint startswith (p s : string) : bool :=
  match p, s with
  | EmptyString, _ => true
  | String a p', String b s' => Ascii.eqb a b && startswith p' s'
  | _, _ => false
  end.
Fixpoint drop (n : nat) (s : string) : string :=
  match n, s with Datatypes.S m, String _ r => drop m r | _, _ => s end.
Definition removeprefix (p s : string) : string := if startswith p s then drop (String.length p) s else s.

(* s.split()[0] : first whitespace-delimited word; IndexError when there is none *)
Fixpoint take_word (s : string) : string :=
  match s with String c r => if is_ws c then EmptyString else String c (take_word r) | EmptyString => EmptyString end.
Definition first_word (s : string) : pres string :=
  match lstrip s with EmptyString => PErr (Internal BadIndex) | w => POk (take_word w) end.

Record settings := mk_set { s_ver : option string; s_opt : option string; s_evm : option string;
                            s_exp : option bool; s_dec : option bool; s_nonre : option bool }.
Definition settings0 : settings := mk_set None None None None None None.

Section Pragma.
  Variable spec_valid : string -> bool.
  Variable spec_contains : string -> bool.
  Variable opt_table : list (string * string).      (* OptimizationLevel.from_string *)
  Variable evm_versions : list string.
  Variable is_interface : bool.

  Definition is_vdigit (c : ascii) : bool :=
    let n := nat_of_ascii c in (Nat.eqb n 118) || ((Nat.leb 48 n) && (Nat.leb n 57)).

  (* validate_version_pragma: Ok tt or VersionException *)
  Definition validate_version (v : string) (p : pos) : pres unit :=
    match v with
    | EmptyString => PErr (User "VersionException" (fst p) (snd p) "Version specification cannot be empty")
    | String c r =>
        let v1 := if is_vdigit c then "==" +++ v else v in
        let v2 := match v1 with String "^" r' => "~=" +++ r' | _ => v1 end in
        if negb (spec_valid v2) then
          PErr (User "VersionException" (fst p) (snd p) ("Version specification """ +++ v2 +++ """ is not a valid PEP440 specifier"))
        else if negb (spec_contains v2) then
          PErr (User "VersionException" (fst p) (snd p) ("Version specification """ +++ v2 +++ """ is not compatible"))
        else POk tt
    end.

  Definition perr_pragma (p : pos) (msg : string) : pres settings := PErr (User "PragmaException" (fst p) (snd p) msg).

  Definition parse_pragma (contents : string) (st : settings) (p : pos) : pres settings :=
    let pragma := strip (removeprefix "pragma " contents) in
    if startswith "version " pragma then
      match s_ver st with
      | Some _ => perr_pragma p "pragma version specified twice!"
      | None => let v := strip (removeprefix "version " pragma) in
                _ <~ validate_version v p ;;
                POk (mk_set (Some v) (s_opt st) (s_evm st) (s_exp st) (s_dec st) (s_nonre st))
      end
    else if startswith "optimize " pragma then
      match s_opt st with
      | Some _ => perr_pragma p "pragma optimize specified twice!"
      | None => let mode := strip (removeprefix "optimize" pragma) in
                match assoc_str opt_table mode with
                | Some lvl => POk (mk_set (s_ver st) (Some lvl) (s_evm st) (s_exp st) (s_dec st) (s_nonre st))
                | None => perr_pragma p ("Invalid optimization mode `" +++ mode +++ "`")
                end
      end
    else if startswith "evm-version " pragma then
      match s_evm st with
      | Some _ => perr_pragma p "pragma evm-version specified twice!"
      | None => let v := strip (removeprefix "evm-version" pragma) in
                if str_in evm_versions v then POk (mk_set (s_ver st) (s_opt st) (Some v) (s_exp st) (s_dec st) (s_nonre st))
                else perr_pragma p ("Invalid evm version: `" +++ v +++ "`")
      end
    else if str_in ["experimental-codegen"; "venom-experimental"] pragma then
      match s_exp st with
      | Some _ => perr_pragma p "pragma experimental-codegen/venom-experimental specified twice!"
      | None => POk (mk_set (s_ver st) (s_opt st) (s_evm st) (Some true) (s_dec st) (s_nonre st))
      end
    else if String.eqb pragma "enable-decimals" then
      match s_dec st with
      | Some _ => perr_pragma p "pragma enable_decimals specified twice!"
      | None => POk (mk_set (s_ver st) (s_opt st) (s_evm st) (s_exp st) (Some true) (s_nonre st))
      end
    else if startswith "nonreentrancy " pragma then
      if is_interface then perr_pragma p "pragma nonreentrancy not allowed in interface files!"
      else match s_nonre st with
           | Some _ => perr_pragma p "pragma nonreentrancy specified twice!"
           | None => let v := strip (removeprefix "nonreentrancy" pragma) in
                     if str_in ["on"; "off"] v
                     then POk (mk_set (s_ver st) (s_opt st) (s_evm st) (s_exp st) (s_dec st) (Some (String.eqb v "on")))
                     else perr_pragma p "invalid pragma reentrancy (expected on/off)"
           end
    else w <~ first_word pragma ;; perr_pragma p ("Unknown pragma `" +++ w +++ "`").

  (* the COMMENT block: string is the whole comment token including '#' *)
  Definition comment_hook (str : string) (p : pos) (st : settings) : pres settings :=
    let contents := strip (drop 1 str) in
    st1 <~ (if startswith "@version" contents then
              match s_ver st with
              | Some _ => PErr (User "PragmaException" (fst p) (snd p) "compiler version specified twice!")
              | None => let v := strip (removeprefix "@version " contents) in
                        _ <~ validate_version v p ;;
                        POk (mk_set (Some v) (s_opt st) (s_evm st) (s_exp st) (s_dec st) (s_nonre st))
              end
            else POk st) ;;
    if startswith "pragma " contents then parse_pragma contents st1 p else POk st1.
End Pragma.
