(* C20P: theorems about the pre-parser state machines (model PreParse.v), for ALL token lists. *)
From Coq Require Import ZArith List Bool String Lia.
From Verif Require Import Base.PyInt C20P.Tok C20P.GenTokConst C20P.PreParse.
Import ListNotations.
Open Scope list_scope.
Open Scope Z_scope.

Ltac inv H := inversion H; subst; clear H.

(* ---------- invariants that make the internal failure points unreachable *)
Definition fp_ok (st : fp) : Prop :=
  (fp_state st = S_RUNNING -> fp_ann st <> None) /\ (fp_state st <> S_NOT_RUNNING -> fp_for st <> None).
Definition hp_ok (st : hp) : Prop :=
  (hp_state st = S_NOT_RUNNING /\ hp_toks st = []) \/
  (hp_state st = S_RUNNING /\ exists x, hp_toks st = [x] /\ is_tok T_NAME "x" x = true).

Lemma fp_init_ok : fp_ok fp_init.
Proof. unfold fp_ok, fp_init. cbn. split; [discriminate | intro H; exfalso; apply H; reflexivity]. Qed.
Lemma hp_init_ok : hp_ok hp_init. Proof. left. split; reflexivity. Qed.

Lemma op_not_layout : forall t s, is_tok T_OP s t = true -> is_layout t = false.
Proof.
  intros t s H. unfold is_tok in H. apply andb_prop in H as [H _]. apply Z.eqb_eq in H.
  unfold is_layout. rewrite H. reflexivity.
Qed.
Lemma name_not_layout : forall t, ttyp t = T_NAME -> is_layout t = false.
Proof. intros t H. unfold is_layout. rewrite H. reflexivity. Qed.

Ltac done_ok := right; eexists; eexists; (split; [reflexivity |]); cbn;
  repeat split; try (intro; discriminate); eauto;
  try (let HH := fresh "HH" in intro HH; exfalso; apply HH; reflexivity).

(* shape of a successful / failing ForParser step *)
Lemma for_consume_cases : forall st t, fp_ok st ->
  (exists l c m, for_consume st t = PErr (User "SyntaxException" l c m)) \/
  (exists st' b, for_consume st t = POk (st', b) /\ fp_ok st' /\
     (* the current-loop marker is the previous one or this `for` token *)
     (fp_for st' = fp_for st \/ (is_tok T_NAME "for" t = true /\ fp_for st' = Some (tstart t))) /\
     (* the annotation table is unchanged or gets one entry under the (defined) current marker *)
     (fp_anns st' = fp_anns st \/
      exists p v, fp_for st' = Some p /\ fp_anns st' = dset opos_eqb (fp_anns st) (Some p) v) /\
     (* a token swallowed by the for-parser never carries line / block structure *)
     (b = true -> is_layout t = false)).
Proof.
  intros [s f a anns] t [OK1 OK2]. unfold for_consume, fp_ok in *. cbn [fp_state fp_for fp_ann fp_anns] in *.
  assert (forall x, is_tok T_OP ":" t = x -> x = true -> is_layout t = false) as OPL
    by (intros x E ->; eapply op_not_layout; exact E).
  destruct (is_tok T_NAME "for" t) eqn:F; cbn [fp_state fp_for fp_ann fp_anns].
  - change (S_START_SOON =? S_NOT_RUNNING) with false. cbn iota.
    destruct (is_tok T_OP ":" t) eqn:C.
    + destruct a; [left; eauto |]. done_ok.
    + destruct (is_tok T_NAME "in" t) eqn:I; [done_ok |].
      change (negb (S_START_SOON =? S_RUNNING)) with true. cbn iota. done_ok.
  - destruct (s =? S_NOT_RUNNING) eqn:S1; [done_ok |].
    apply Z.eqb_neq in S1. specialize (OK2 S1). destruct f as [p |]; [| exfalso; apply OK2; reflexivity].
    destruct (is_tok T_OP ":" t) eqn:C.
    + destruct a; [left; eauto |]. done_ok.
    + destruct (is_tok T_NAME "in" t) eqn:I; [done_ok |].
      destruct (s =? S_RUNNING) eqn:S3; cbn [negb]; [| done_ok].
      destruct (is_layout t) eqn:L; [left; eauto |].
      apply Z.eqb_eq in S3. destruct a as [a |]; [| exfalso; apply (OK1 S3); reflexivity].
      done_ok.
Qed.

(* HexStringParser never fails (its three asserts are unreachable); four possible moves *)
Lemma hex_consume_cases : forall st t res, hp_ok st ->
  exists st' res' b, hex_consume st t res = POk (st', res', b) /\ hp_ok st' /\
    ((* hold a candidate `x` *)
     (b = true /\ hp_toks st = [] /\ is_tok T_NAME "x" t = true /\ res' = res /\ hp_toks st' = [t] /\ hp_locs st' = hp_locs st) \/
     (* nothing pending, not an `x` *)
     (b = false /\ hp_toks st = [] /\ st' = st /\ res' = res) \/
     (* pending `x` was an ordinary name: flush it *)
     (b = false /\ (exists x, hp_toks st = [x] /\ res' = res ++ [x]) /\ hp_toks st' = [] /\ hp_locs st' = hp_locs st /\
      ttyp t <> T_STRING) \/
     (* x"..." : drop the `x`, keep the string, record its position *)
     (b = true /\ (exists x, hp_toks st = [x]) /\ ttyp t = T_STRING /\ res' = res ++ [t] /\ hp_toks st' = [] /\
      hp_locs st' = hp_locs st ++ [tstart t])).
Proof.
  intros [s toks locs] t res OK. unfold hex_consume. cbn [hp_state hp_toks hp_locs].
  destruct OK as [[S T] | [S (x & T & X)]]; cbn [hp_state hp_toks hp_locs] in *; subst.
  - change (S_NOT_RUNNING =? S_NOT_RUNNING) with true. cbn iota.
    destruct (is_tok T_NAME "x" t) eqn:X.
    + eexists. eexists. eexists. split; [reflexivity |]. split.
      * right. cbn. split; [reflexivity |]. exists t. auto.
      * left. cbn. auto 10.
    + eexists. eexists. eexists. split; [reflexivity |]. split; [left; cbn; auto |]. right. left. auto.
  - change (S_RUNNING =? S_NOT_RUNNING) with false. change (negb (S_RUNNING =? S_RUNNING)) with false. cbn iota.
    destruct (ttyp t =? T_STRING) eqn:ST; cbn [negb].
    + cbn [List.length Z.of_nat Pos.of_succ_nat Z.eqb Pos.eqb negb lindex nth_error Z.to_nat pbind].
      rewrite X. cbn [negb]. eexists. eexists. eexists. split; [reflexivity |]. split; [left; cbn; auto |].
      right. right. right. cbn. apply Z.eqb_eq in ST. repeat split; eauto.
    + eexists. eexists. eexists. split; [reflexivity |]. split; [left; cbn; auto |].
      right. right. left. cbn. apply Z.eqb_neq in ST. repeat split; eauto.
Qed.

Section LoopProofs.
  Variable S : Type.
  Variable hook : string -> pos -> S -> pres S.
  (* the COMMENT block only ever raises documented exceptions (proved for the Pragma.v model in PragmaProofs.v) *)
  Hypothesis hook_user_facing : forall s p st, user_facing (hook s p st).

  Notation ms := (ms S).
  Notation step := (step S hook).
  Notation run_from := (run_from S hook).

  Definition ms_ok (st : ms) : Prop := fp_ok (m_fp _ st) /\ hp_ok (m_hp _ st).

  Definition newstart_of (st : ms) (t : token) : pos :=
    (fst (tstart t), snd (tstart t) - dget_default Z.eqb (m_col _ st) (fst (tstart t)) 0).

  Lemma step_cases : forall st t, ms_ok st ->
    (exists c l k m, step st t = PErr (User c l k m)) \/
    exists st' kw cols toks b1,
      step st t = POk st' /\ ms_ok st' /\
      m_adj _ st' = dsetdefault pos_eqb
                      (dset pos_eqb (m_adj _ st) (newstart_of st t) (dget_default Z.eqb (m_col _ st) (fst (tstart t)) 0))
                      (fst (tend t), snd (tend t) - dget_default Z.eqb cols (fst (tend t)) 0)
                      (dget_default Z.eqb cols (fst (tend t)) 0) /\
      kw_part S st t (newstart_of st t) = (kw, cols, toks) /\ m_kw _ st' = kw /\ m_col _ st' = cols /\
      for_consume (m_fp _ st) t = POk (m_fp _ st', b1) /\
      ((b1 = true /\ m_res _ st' = m_res _ st /\ m_hp _ st' = m_hp _ st) \/
       (b1 = false /\ exists res' b2, hex_consume (m_hp _ st) t (m_res _ st) = POk (m_hp _ st', res', b2) /\
                                      m_res _ st' = if b2 then res' else res' ++ toks)).
  Proof.
    intros st t [FO HO]. unfold PreParse.step. fold (newstart_of st t).
    destruct (if ttyp t =? T_COMMENT then hook (tstr t) (tstart t) (m_set S st) else POk (m_set S st)) as [set' | e] eqn:HK.
    2:{ left. destruct (ttyp t =? T_COMMENT); [| discriminate HK].
        pose proof (hook_user_facing (tstr t) (tstart t) (m_set S st)) as U. rewrite HK in U.
        cbn [pbind]. destruct e as [c l k m | e]; [repeat eexists | cbn in U; contradiction]. }
    cbn [pbind].
    destruct ((ttyp t =? T_NAME) && str_in ["class"%string; "yield"%string] (tstr t)); [left; repeat eexists |].
    destruct (kw_part S st t (newstart_of st t)) as [[kw cols] toks] eqn:KP.
    destruct (is_tok T_OP ";" t); [left; repeat eexists |].
    destruct (for_consume_cases (m_fp S st) t FO) as [(l & c & m & E) | (fp' & b1 & E & FO' & _)].
    { left. rewrite E. cbn [pbind]. repeat eexists. }
    rewrite E. cbn [pbind]. destruct b1.
    - right. eexists. exists kw, cols, toks, true. split; [reflexivity |]. cbn [m_adj m_res m_kw m_set m_col m_fp m_hp].
      split; [split; assumption |]. repeat (split; [reflexivity |]). left. auto.
    - destruct (hex_consume_cases (m_hp S st) t (m_res S st) HO) as (hp' & res' & b2 & EH & HO' & _).
      rewrite EH. cbn [pbind]. right. destruct b2.
      + eexists. exists kw, cols, toks, false. split; [reflexivity |]. cbn [m_adj m_res m_kw m_set m_col m_fp m_hp].
        split; [split; assumption |]. repeat (split; [reflexivity |]). right. split; [reflexivity |]. exists res', true. auto.
      + eexists. exists kw, cols, toks, false. split; [reflexivity |]. cbn [m_adj m_res m_kw m_set m_col m_fp m_hp].
        split; [split; assumption |]. repeat (split; [reflexivity |]). right. split; [reflexivity |]. exists res', false. auto.
  Qed.

  (* ---------- totality: never an internal error, for every token list *)
  Theorem run_from_total : forall ts st, ms_ok st -> user_facing (run_from st ts).
  Proof.
    induction ts as [| t r IH]; intros st OK; [exact I |].
    cbn [PreParse.run_from]. destruct (step_cases st t OK) as [(c & l & k & m & E) | (st' & kw & cols & toks & b1 & E & OK' & _)].
    - rewrite E. exact I.
    - rewrite E. cbn [pbind]. apply IH. exact OK'.
  Qed.

  Lemma ms_init_ok : forall s0, ms_ok (ms_init S s0).
  Proof. intro. split; [apply fp_init_ok | apply hp_init_ok]. Qed.

  Theorem run_total_model : forall s0 ts, user_facing (run S hook s0 ts).
  Proof. intros. apply run_from_total. apply ms_init_ok. Qed.

  (* ---------- bounded work: exactly one machine step per token consumed *)
  Theorem run_count_steps : forall ts st n,
    (snd (run_count S hook st ts n) <= n + List.length ts)%nat /\
    (forall st', fst (run_count S hook st ts n) = POk st' -> snd (run_count S hook st ts n) = n + List.length ts)%nat /\
    fst (run_count S hook st ts n) = run_from st ts.
  Proof.
    induction ts as [| t r IH]; intros st n; cbn [run_count PreParse.run_from List.length].
    - cbn [fst snd]. repeat split; auto. lia.
    - destruct (PreParse.step S hook st t) as [st1 | e]; cbn [pbind].
      + destruct (IH st1 (Datatypes.S n)) as (A & B & C). split; [lia |]. split; [| exact C].
        intros st' H. rewrite (B st' H). lia.
      + cbn [fst snd]. split; [lia |]. split; [| reflexivity]. intros st' H. discriminate H.
  Qed.
End LoopProofs.

(* ---------- dictionaries *)
Lemma In_dset : forall {K V} (eqb : K -> K -> bool) (d : list (K * V)) k0 v0 k v,
  In (k, v) (dset eqb d k0 v0) -> (k, v) = (k0, v0) \/ In (k, v) d.
Proof.
  induction d as [| [k' v'] r IH]; intros k0 v0 k v H; cbn in H.
  - destruct H as [H | []]. left. auto.
  - destruct (eqb k' k0).
    + destruct H as [H | H]; [left; auto | right; right; exact H].
    + destruct H as [H | H]; [right; left; exact H |]. apply IH in H as [H | H]; auto. right. right. exact H.
Qed.

Lemma In_dsetdefault : forall {K V} (eqb : K -> K -> bool) (d : list (K * V)) k0 v0 k v,
  In (k, v) (dsetdefault eqb d k0 v0) -> (k, v) = (k0, v0) \/ In (k, v) d.
Proof.
  intros K V eqb d k0 v0 k v H. unfold dsetdefault in H. destruct (dget eqb d k0); [right; exact H |].
  apply in_app_or in H as [H | [H | []]]; [right; exact H | left; auto].
Qed.

Lemma dset_keys_nodup : forall {K V} (eqb : K -> K -> bool) (d : list (K * V)) k0 v0,
  (forall a b, eqb a b = true <-> a = b) -> NoDup (map fst d) -> NoDup (map fst (dset eqb d k0 v0)).
Proof.
  intros K V eqb d k0 v0 SP. induction d as [| [k' v'] r IH]; intros ND; cbn.
  - constructor; [intros [] | constructor].
  - destruct (eqb k' k0) eqn:E.
    + apply SP in E. subst. exact ND.
    + cbn. inv ND. constructor; [| apply IH; assumption].
      intro I. apply in_map_iff in I as ([k v] & EQ & I). cbn in EQ. subst k.
      apply In_dset in I as [I | I].
      * inv I. assert (eqb k0 k0 = true) by (apply SP; reflexivity). congruence.
      * apply H1. apply in_map_iff. exists (k', v). auto.
Qed.

Lemma opos_eqb_spec : forall a b, opos_eqb a b = true <-> a = b.
Proof.
  intros [[a1 a2] |] [[b1 b2] |]; cbn; unfold pos_eqb; cbn; split; intro H; try discriminate; try reflexivity.
  - apply andb_prop in H as [H1 H2]. apply Z.eqb_eq in H1, H2. subst. reflexivity.
  - inv H. rewrite !Z.eqb_refl. reflexivity.
Qed.

(* ---------- the rewritten token list is the input with some tokens removed and keyword tokens renamed in place *)
Definition rewr (t t' : token) : Prop :=
  tstart t' = tstart t /\ tend t' = tend t /\
  (t' = t \/ (ttyp t' = T_NAME /\ ttyp t = T_NAME /\ In (tstr t') ["class"; "yield"; "await"]%string)).

Inductive Rew : list token -> list token -> Prop :=
| Rew_nil : Rew [] []
| Rew_drop : forall t i o, Rew i o -> Rew (t :: i) o
| Rew_keep : forall t t' i o, rewr t t' -> Rew i o -> Rew (t :: i) (t' :: o).

Lemma Rew_app : forall i1 o1 i2 o2, Rew i1 o1 -> Rew i2 o2 -> Rew (i1 ++ i2) (o1 ++ o2).
Proof.
  intros i1 o1 i2 o2 H1 H2. induction H1; cbn; [assumption | apply Rew_drop; assumption | apply Rew_keep; assumption].
Qed.

Lemma Rew_drop_last : forall i o a, Rew i (o ++ [a]) -> Rew i o.
Proof.
  intros i o a H. remember (o ++ [a]) as oa eqn:E. revert o a E.
  induction H as [| t i o' H IH | t t' i o' R H IH]; intros o a E.
  - destruct o; discriminate E.
  - constructor. eapply IH. exact E.
  - destruct o as [| x o1]; cbn in E.
    + injection E as -> ->. apply Rew_drop. exact H.
    + injection E as -> ->. apply Rew_keep; [assumption |]. eapply IH. reflexivity.
Qed.

Lemma rewr_refl : forall t, rewr t t.
Proof. intro. unfold rewr. auto. Qed.

Lemma keyword_of_names : forall t nk vty, keyword_of t = Some (nk, vty) -> In nk ["class"; "yield"; "await"]%string.
Proof.
  intros t nk vty H. unfold keyword_of in H.
  repeat match type of H with
         | context [match ?x with Some _ => _ | None => _ end] => destruct x
         | context [if ?c then _ else _] => destruct c
         end; inv H; cbn; auto.
Qed.

Section Structure.
  Variable S : Type.
  Variable hook : string -> pos -> S -> pres S.
  Hypothesis hook_user_facing : forall s p st, user_facing (hook s p st).
  Notation ms := (ms S).

  Lemma kw_part_cases : forall (st : ms) t ns kw cols toks, kw_part S st t ns = (kw, cols, toks) ->
    (kw = m_kw _ st /\ toks = [t]) \/
    (exists nk vty, ttyp t = T_NAME /\ keyword_of t = Some (nk, vty) /\ kw = dset pos_eqb (m_kw _ st) ns vty /\
                    toks = [mk_token T_NAME nk (tstart t) (tend t)] /\ In nk ["class"; "yield"; "await"]%string).
  Proof.
    intros st t ns kw cols toks H. unfold kw_part in H.
    destruct (ttyp t =? T_NAME) eqn:N.
    - destruct (keyword_of t) as [[nk vty] |] eqn:K; inv H; [right | left; auto].
      exists nk, vty. apply Z.eqb_eq in N. repeat split; auto. eapply keyword_of_names; eauto.
    - inv H. left. auto.
  Qed.

  Definition is_for (t : token) : bool := is_tok T_NAME "for" t.

  (* what holds of the machine state after consuming the token list [pre] *)
  Record Inv (pre : list token) (st : ms) : Prop := {
    inv_ann_keys : forall k v, In (k, v) (fp_anns (m_fp _ st)) -> exists t, In t pre /\ is_for t = true /\ k = Some (tstart t);
    inv_for : fp_for (m_fp _ st) = None \/ exists t, In t pre /\ is_for t = true /\ fp_for (m_fp _ st) = Some (tstart t);
    inv_ann_nodup : NoDup (map fst (fp_anns (m_fp _ st)));
    inv_adj : forall k v, In (k, v) (m_adj _ st) ->
              exists t, In t pre /\ (tstart t = (fst k, snd k + v) \/ tend t = (fst k, snd k + v));
    inv_kw : forall k s, In (k, s) (m_kw _ st) ->
             exists t nk a, In t pre /\ ttyp t = T_NAME /\ keyword_of t = Some (nk, s) /\ tstart t = (fst k, snd k + a);
    inv_rew : Rew pre (m_res _ st ++ hp_toks (m_hp _ st));
    inv_hex : forall p, In p (hp_locs (m_hp _ st)) -> exists t, In t pre /\ ttyp t = T_STRING /\ tstart t = p
  }.

  Lemma Inv_init : forall s0, Inv [] (ms_init S s0).
  Proof.
    intro. constructor; cbn; try (intros; contradiction); try (left; reflexivity); constructor.
  Qed.

  Lemma in_snoc : forall {A} (x : A) l y, In x l -> In x (l ++ [y]).
  Proof. intros. apply in_or_app. left. assumption. Qed.
  Lemma in_last : forall {A} (l : list A) y, In y (l ++ [y]).
  Proof. intros. apply in_or_app. right. left. reflexivity. Qed.

  Lemma step_preserves : forall pre st t st', ms_ok S st -> Inv pre st -> step S hook st t = POk st' -> Inv (pre ++ [t]) st'.
  Proof.
    intros pre st t st' OK [IA IF IN IJ IK IR IH] E.
    destruct (step_cases S hook hook_user_facing st t OK) as [(c & l & k & m & E') | (st2 & kw & cols & toks & b1 & E' & OK' & EA & KP & EK & EC & FC & REST)];
      [rewrite E' in E; discriminate |].
    rewrite E' in E. injection E as <-.
    destruct OK as [FO HO].
    destruct (for_consume_cases (m_fp S st) t FO) as [(l & c & m & X) | (fp' & b & X & _ & FOR & ANN & LAY)];
      [rewrite X in FC; discriminate |].
    rewrite X in FC. injection FC as -> ->.
    (* facts about the for-parser part *)
    assert (forall k v, In (k, v) (fp_anns (m_fp S st2)) -> exists t0, In t0 (pre ++ [t]) /\ is_for t0 = true /\ k = Some (tstart t0)) as A1.
    { intros k v I. destruct ANN as [EQ | (p & v0 & FP & EQ)].
      - rewrite EQ in I. destruct (IA k v I) as (t0 & I0 & F0 & K0). exists t0. split; [apply in_snoc; assumption | auto].
      - rewrite EQ in I. apply In_dset in I as [I | I].
        + injection I as -> ->. destruct FOR as [SAME | (F & NEW)].
          * rewrite SAME in FP. destruct IF as [N | (t0 & I0 & F0 & K0)]; [congruence |].
            exists t0. split; [apply in_snoc; assumption |]. split; [assumption | congruence].
          * exists t. split; [apply in_last |]. split; [exact F | congruence].
        + destruct (IA k v I) as (t0 & I0 & F0 & K0). exists t0. split; [apply in_snoc; assumption | auto]. }
    assert (fp_for (m_fp S st2) = None \/ exists t0, In t0 (pre ++ [t]) /\ is_for t0 = true /\ fp_for (m_fp S st2) = Some (tstart t0)) as A2.
    { destruct FOR as [SAME | (F & NEW)].
      - rewrite SAME. destruct IF as [N | (t0 & I0 & F0 & K0)]; [left; assumption | right].
        exists t0. split; [apply in_snoc; assumption | auto].
      - right. exists t. split; [apply in_last | auto]. }
    assert (NoDup (map fst (fp_anns (m_fp S st2)))) as A3.
    { destruct ANN as [EQ | (p & v0 & FP & EQ)]; rewrite EQ; [assumption |].
      apply dset_keys_nodup; [apply opos_eqb_spec | assumption]. }
    assert (forall k v, In (k, v) (m_adj S st2) ->
            exists t0, In t0 (pre ++ [t]) /\ (tstart t0 = (fst k, snd k + v) \/ tend t0 = (fst k, snd k + v))) as A4.
    { intros k v I. rewrite EA in I. apply In_dsetdefault in I as [I | I].
      - injection I as -> ->. exists t. split; [apply in_last |]. right. cbn [fst snd].
        destruct (tend t) as [l c]. cbn [fst snd]. f_equal. lia.
      - apply In_dset in I as [I | I].
        + injection I as -> ->. exists t. split; [apply in_last |]. left. unfold newstart_of. cbn [fst snd].
          destruct (tstart t) as [l c]. cbn [fst snd]. f_equal. lia.
        + destruct (IJ k v I) as (t0 & I0 & P0). exists t0. split; [apply in_snoc; assumption | assumption]. }
    assert (forall k s, In (k, s) (m_kw S st2) ->
            exists t0 nk a, In t0 (pre ++ [t]) /\ ttyp t0 = T_NAME /\ keyword_of t0 = Some (nk, s) /\ tstart t0 = (fst k, snd k + a)) as A5.
    { intros k s I. rewrite EK in I.
      destruct (kw_part_cases st t _ _ _ _ KP) as [(-> & _) | (nk & vty & N & K & -> & _ & _)].
      - destruct (IK k s I) as (t0 & nk & a & I0 & N0 & K0 & P0). exists t0, nk, a. split; [apply in_snoc; assumption | auto].
      - apply In_dset in I as [I | I].
        + injection I as -> ->. exists t, nk, (dget_default Z.eqb (m_col S st) (fst (tstart t)) 0).
          split; [apply in_last |]. repeat split; auto. unfold newstart_of. cbn [fst snd].
          destruct (tstart t) as [l c]. cbn [fst snd]. f_equal. lia.
        + destruct (IK k s I) as (t0 & nk0 & a & I0 & N0 & K0 & P0). exists t0, nk0, a. split; [apply in_snoc; assumption | auto]. }
    (* toks is [t] or its renamed copy *)
    assert (exists t', toks = [t'] /\ rewr t t') as (t' & -> & RW).
    { destruct (kw_part_cases st t _ _ _ _ KP) as [(_ & ->) | (nk & vty & N & K & _ & -> & INK)].
      - exists t. split; [reflexivity | apply rewr_refl].
      - eexists. split; [reflexivity |]. unfold rewr. cbn. repeat split; auto. }
    destruct REST as [(_ & ER & EH) | (_ & res' & b2 & HC & ER)].
    - (* consumed by the for-parser: dropped from the output *)
      constructor; auto.
      + rewrite ER, EH. rewrite <- (app_nil_r (m_res S st ++ hp_toks (m_hp S st))).
        apply Rew_app; [assumption | apply Rew_drop; apply Rew_nil].
      + intros p I. rewrite EH in I. destruct (IH p I) as (t0 & I0 & T0 & P0). exists t0. split; [apply in_snoc; assumption | auto].
    - destruct (hex_consume_cases (m_hp S st) t (m_res S st) HO) as (hp' & res2 & b3 & HC' & _ & MOVES).
      rewrite HC' in HC. injection HC as H1 H2 H3. subst hp' res2 b3.
      assert (forall p, In p (hp_locs (m_hp S st)) -> exists t0, In t0 (pre ++ [t]) /\ ttyp t0 = T_STRING /\ tstart t0 = p) as OLD.
      { intros p I. destruct (IH p I) as (t0 & I0 & T0 & P0). exists t0. split; [apply in_snoc; assumption | auto]. }
      destruct MOVES as [(-> & T0 & XT & -> & T1 & L1) | [(-> & T0 & SAME & ->) | [(-> & (x & T0 & ->) & T1 & L1 & NS) | (-> & (x & T0) & ST & -> & T1 & L1)]]].
      + (* hold `x` *)
        constructor; auto.
        * rewrite ER, T1. rewrite T0, app_nil_r in IR. apply Rew_app; [assumption | apply Rew_keep; [apply rewr_refl | apply Rew_nil]].
        * intros p I. rewrite L1 in I. apply OLD. assumption.
      + constructor; auto.
        * rewrite ER, SAME, T0. rewrite T0, app_nil_r in IR. rewrite app_nil_r. apply Rew_app; [assumption | apply Rew_keep; [assumption | apply Rew_nil]].
        * intros p I. rewrite SAME in I. apply OLD. assumption.
      + constructor; auto.
        * rewrite ER, T1, app_nil_r. rewrite T0 in IR. apply Rew_app; [assumption | apply Rew_keep; [assumption | apply Rew_nil]].
        * intros p I. rewrite L1 in I. apply OLD. assumption.
      + constructor; auto.
        * rewrite ER, T1, app_nil_r. rewrite T0 in IR. apply Rew_drop_last in IR.
          apply Rew_app; [assumption | apply Rew_keep; [apply rewr_refl | apply Rew_nil]].
        * intros p I. rewrite L1 in I. apply in_app_or in I as [I | [<- | []]]; [apply OLD; assumption |].
          exists t. split; [apply in_last | auto].
  Qed.

  Lemma run_from_inv : forall ts pre st st', ms_ok S st -> Inv pre st -> run_from S hook st ts = POk st' ->
    Inv (pre ++ ts) st' /\ ms_ok S st'.
  Proof.
    induction ts as [| t r IH]; intros pre st st' OK I E.
    - cbn in E. injection E as <-. rewrite app_nil_r. auto.
    - cbn [PreParse.run_from] in E. destruct (step S hook st t) as [st1 | e] eqn:ST; [| discriminate E]. cbn [pbind] in E.
      pose proof (step_preserves pre st t st1 OK I ST) as I1.
      assert (ms_ok S st1) as OK1.
      { destruct (step_cases S hook hook_user_facing st t OK) as [(c & l & k & m & E') | (st2 & kw & cols & toks & b1 & E' & OK' & _)];
          rewrite E' in ST; [discriminate | injection ST as <-; exact OK']. }
      replace (pre ++ t :: r) with ((pre ++ [t]) ++ r) by (rewrite <- app_assoc; reflexivity).
      eapply IH; eauto.
  Qed.

  Lemma Rew_drop_suffix : forall l i o, Rew i (o ++ l) -> Rew i o.
  Proof.
    induction l as [| a l IH] using rev_ind; intros i o H; [rewrite app_nil_r in H; exact H |].
    rewrite app_assoc in H. apply Rew_drop_last in H. apply IH. exact H.
  Qed.

  (* the structure of a successful pre-parse, for every token list *)
  Theorem run_structure_model : forall s0 ts st, run S hook s0 ts = POk st ->
    (* for-loop annotations: keyed by the positions of distinct `for` tokens of the input *)
    (forall k v, In (k, v) (fp_anns (m_fp _ st)) -> exists t, In t ts /\ is_for t = true /\ k = Some (tstart t)) /\
    NoDup (map fst (fp_anns (m_fp _ st))) /\
    (* modification offsets: key (line, col) with value adj is the token of the input that stood at (line, col + adj) *)
    (forall k v, In (k, v) (m_adj _ st) -> exists t, In t ts /\ (tstart t = (fst k, snd k + v) \/ tend t = (fst k, snd k + v))) /\
    (* keyword translations: keyed by the (shifted) position of a NAME token of the input that is a vyper keyword *)
    (forall k s, In (k, s) (m_kw _ st) ->
       exists t nk a, In t ts /\ ttyp t = T_NAME /\ keyword_of t = Some (nk, s) /\ tstart t = (fst k, snd k + a)) /\
    (* the rewritten token list: input tokens in order, some removed, keywords renamed in place; positions kept *)
    Rew ts (m_res _ st) /\
    (* hex strings: positions of STRING tokens of the input *)
    (forall p, In p (hp_locs (m_hp _ st)) -> exists t, In t ts /\ ttyp t = T_STRING /\ tstart t = p).
  Proof.
    intros s0 ts st E. unfold run in E.
    destruct (run_from_inv ts [] _ _ (ms_init_ok S s0) (Inv_init s0) E) as [[IA IF IN IJ IK IR IH] _].
    cbn [app] in *. repeat split; auto. eapply Rew_drop_suffix. exact IR.
  Qed.
End Structure.

(* every output token carries the span of an input token (so diagnostics located on the rewritten text map back) *)
Lemma Rew_positions : forall i o, Rew i o -> forall t', In t' o -> exists t, In t i /\ tstart t' = tstart t /\ tend t' = tend t.
Proof.
  induction 1 as [| t i o H IH | t t0 i o R H IH]; intros t' I.
  - destruct I.
  - destruct (IH t' I) as (x & Ix & P). exists x. split; [right; assumption | assumption].
  - destruct I as [<- | I].
    + exists t. split; [left; reflexivity |]. destruct R as (A & B & _). auto.
    + destruct (IH t' I) as (x & Ix & P). exists x. split; [right; assumption | assumption].
Qed.

Lemma Rew_length : forall i o, Rew i o -> (List.length o <= List.length i)%nat.
Proof. induction 1; cbn; lia. Qed.

(* ---------- line / block structure is preserved: every NEWLINE / INDENT / DEDENT / ENDMARKER of the input is in the
   output, in order, and nothing else of that kind -- so tokenize.untokenize's INDENT/DEDENT stack stays balanced *)
Section Layout.
  Variable S : Type.
  Variable hook : string -> pos -> S -> pres S.
  Hypothesis hook_user_facing : forall s p st, user_facing (hook s p st).

  Definition lay (l : list token) : list token := filter is_layout l.
  Definition Lay (pre : list token) (st : ms S) : Prop :=
    lay (m_res _ st ++ hp_toks (m_hp _ st)) = lay pre.

  Lemma lay_app : forall a b, lay (a ++ b) = lay a ++ lay b.
  Proof. intros. unfold lay. apply filter_app. Qed.
  Lemma lay_one_not : forall t, is_layout t = false -> lay [t] = [].
  Proof. intros t H. unfold lay. cbn [filter]. rewrite H. reflexivity. Qed.

  Lemma rewr_layout : forall t t', rewr t t' -> lay [t'] = lay [t].
  Proof.
    intros t t' (_ & _ & [-> | (N' & N & _)]); [reflexivity |].
    rewrite !lay_one_not; [reflexivity | apply name_not_layout; assumption | apply name_not_layout; assumption].
  Qed.

  Lemma step_layout : forall pre st t st', ms_ok S st -> Lay pre st -> step S hook st t = POk st' -> Lay (pre ++ [t]) st'.
  Proof.
    intros pre st t st' OK L E. unfold Lay in *.
    destruct (step_cases S hook hook_user_facing st t OK) as [(c & l & k & m & E') | (st2 & kw & cols & toks & b1 & E' & OK' & EA & KP & EK & EC & FC & REST)];
      [rewrite E' in E; discriminate |].
    rewrite E' in E. injection E as <-. destruct OK as [FO HO].
    destruct (for_consume_cases (m_fp S st) t FO) as [(l & c & m & X) | (fp' & b & X & _ & _ & _ & LAY)];
      [rewrite X in FC; discriminate |].
    rewrite X in FC. injection FC as -> ->.
    assert (exists t', toks = [t'] /\ rewr t t') as (t' & -> & RW).
    { destruct (kw_part_cases S st t _ _ _ _ KP) as [(_ & ->) | (nk & vty & N & K & _ & -> & INK)].
      - exists t. split; [reflexivity | apply rewr_refl].
      - eexists. split; [reflexivity |]. unfold rewr. cbn. repeat split; auto. }
    rewrite (lay_app pre [t]). destruct REST as [(B & ER & EH) | (B & res' & b2 & HC & ER)].
    - pose proof (lay_one_not t (LAY B)) as NL. rewrite ER, EH, L, NL, app_nil_r. reflexivity.
    - destruct (hex_consume_cases (m_hp S st) t (m_res S st) HO) as (hp' & res2 & b3 & HC' & _ & MOVES).
      rewrite HC' in HC. injection HC as H1 H2 H3. subst hp' res2 b3.
      destruct MOVES as [(-> & T0 & XT & -> & T1 & L1) | [(-> & T0 & SAME & ->) | [(-> & (x & T0 & ->) & T1 & L1 & NS) | (-> & (x & T0) & ST & -> & T1 & L1)]]].
      + rewrite ER, T1. rewrite T0, app_nil_r in L. rewrite lay_app, L. reflexivity.
      + rewrite ER, SAME, T0, app_nil_r. rewrite T0, app_nil_r in L. rewrite lay_app, L, (rewr_layout _ _ RW). reflexivity.
      + rewrite ER, T1, app_nil_r. rewrite T0 in L. rewrite lay_app, L, (rewr_layout _ _ RW). reflexivity.
      + rewrite ER, T1, app_nil_r. rewrite T0 in L.
        destruct HO as [[_ HT] | [_ (x0 & HT & HX)]]; [rewrite HT in T0; discriminate T0 |].
        rewrite T0 in HT. injection HT as ->.
        assert (is_layout x0 = false) as NX.
        { unfold is_tok in HX. apply andb_prop in HX as [HX _]. apply Z.eqb_eq in HX. apply name_not_layout. exact HX. }
        rewrite lay_app, (lay_one_not x0 NX), app_nil_r in L. rewrite lay_app, L. reflexivity.
  Qed.

  Lemma run_from_layout : forall ts pre st st', ms_ok S st -> Lay pre st -> run_from S hook st ts = POk st' ->
    Lay (pre ++ ts) st'.
  Proof.
    induction ts as [| t r IH]; intros pre st st' OK L E.
    - cbn in E. injection E as <-. rewrite app_nil_r. exact L.
    - cbn [PreParse.run_from] in E. destruct (step S hook st t) as [st1 | e] eqn:ST; [| discriminate E]. cbn [pbind] in E.
      pose proof (step_layout pre st t st1 OK L ST) as L1.
      assert (ms_ok S st1) as OK1.
      { destruct (step_cases S hook hook_user_facing st t OK) as [(c & l & k & m & E') | (st2 & kw & cols & toks & b1 & E' & OK' & _)];
          rewrite E' in ST; [discriminate | injection ST as <-; exact OK']. }
      replace (pre ++ t :: r) with ((pre ++ [t]) ++ r) by (rewrite <- app_assoc; reflexivity).
      eapply IH; eauto.
  Qed.

  (* a pending `x` is a NAME: it never belongs to the layout *)
  Theorem run_layout_model : forall s0 ts st, run S hook s0 ts = POk st -> lay (m_res _ st) = lay ts.
  Proof.
    intros s0 ts st E. unfold run in E.
    assert (ms_ok S st) as OKF.
    { destruct (run_from_inv S hook hook_user_facing ts [] _ _ (ms_init_ok S s0) (Inv_init S s0) E) as [_ OK]. exact OK. }
    pose proof (run_from_layout ts [] _ _ (ms_init_ok S s0) eq_refl E) as L. unfold Lay in L. cbn [app] in L.
    rewrite lay_app in L. destruct OKF as [_ [[_ HT] | [_ (x & HT & HX)]]]; rewrite HT in L.
    - cbn in L. rewrite app_nil_r in L. exact L.
    - unfold is_tok in HX. apply andb_prop in HX as [HX _]. apply Z.eqb_eq in HX.
      rewrite (lay_one_not x (name_not_layout x HX)), app_nil_r in L. exact L.
  Qed.
End Layout.

(* INDENT/DEDENT balance (what tokenize.untokenize needs) only depends on the layout subsequence *)
Fixpoint indent_balanced (ts : list token) (depth : nat) : bool :=
  match ts with
  | [] => true
  | t :: r => if ttyp t =? T_INDENT then indent_balanced r (Datatypes.S depth)
              else if ttyp t =? T_DEDENT then match depth with O => false | Datatypes.S d => indent_balanced r d end
              else indent_balanced r depth
  end.

Lemma indent_balanced_lay : forall ts d, indent_balanced (filter is_layout ts) d = indent_balanced ts d.
Proof.
  induction ts as [| t r IH]; intro d; [reflexivity |]. cbn [filter].
  destruct (is_layout t) eqn:L; cbn [indent_balanced].
  - destruct (ttyp t =? T_INDENT); [apply IH |]. destruct (ttyp t =? T_DEDENT); [destruct d; [reflexivity | apply IH] | apply IH].
  - unfold is_layout, z_in in L. cbn [existsb] in L. repeat (apply orb_false_elim in L as [? L]).
    match goal with H : (ttyp t =? T_INDENT) = false |- _ => rewrite H end.
    match goal with H : (ttyp t =? T_DEDENT) = false |- _ => rewrite H end. apply IH.
Qed.
