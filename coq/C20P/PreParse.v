(* C20P hand model of vyper/ast/pre_parser.py: ForParser.consume, HexStringParser.consume and the body of the
   token loop of PreParser._parse, over abstract tokens.  The COMMENT block (version / settings pragmas) is the
   parameter [hook].  The regenerated GenPreParse.v is proved equal to these definitions in PreParseSound.v, so the
   theorems of PreParseProofs.v are about the current source.  No proofs here. *)
From Coq Require Import ZArith List Bool String.
From Verif Require Import Base.PyInt C20P.Tok C20P.GenTokConst.
Import ListNotations.
Open Scope string_scope.
Open Scope list_scope.
Open Scope Z_scope.
Local Infix "+++" := append (at level 60, right associativity).

Definition is_tok (ty : Z) (s : string) (t : token) : bool := (ttyp t =? ty) && String.eqb (tstr t) s.

(* tokens that carry the line / block structure *)
Definition is_layout (t : token) : bool := z_in [T_NEWLINE; T_INDENT; T_DEDENT; T_ENDMARKER] (ttyp t).

(* ---------- ForParser *)
Record fp := mk_fp { fp_state : Z; fp_for : option pos; fp_ann : option (list token);
                     fp_anns : list (option pos * list token) }.
Definition fp_init : fp := mk_fp S_NOT_RUNNING None None [].

Definition for_consume (st : fp) (t : token) : pres (fp * bool) :=
  let st := if is_tok T_NAME "for" t then mk_fp S_START_SOON (Some (tstart t)) (fp_ann st) (fp_anns st) else st in
  if fp_state st =? S_NOT_RUNNING then POk (st, false)
  else if is_tok T_OP ":" t then
    match fp_ann st with
    | Some _ => PErr (User "SyntaxException" (fst (tstart t)) (snd (tstart t)) "for loop parse error")
    | None => POk (mk_fp S_RUNNING (fp_for st) (Some []) (fp_anns st), true)
    end
  else if is_tok T_NAME "in" t then
    POk (mk_fp S_NOT_RUNNING (fp_for st) None
               (dset opos_eqb (fp_anns st) (fp_for st) (opt_or_nil (fp_ann st))), false)
  else if negb (fp_state st =? S_RUNNING) then POk (st, false)
  else if is_layout t then
    PErr (User "SyntaxException" (fst (tstart t)) (snd (tstart t)) "invalid for loop syntax: missing `in`")
  else match fp_ann st with
       | Some a => POk (mk_fp (fp_state st) (fp_for st) (Some (a ++ [t])) (fp_anns st), true)
       | None => PErr (Internal TypeErr)          (* None.append *)
       end.

(* ---------- HexStringParser *)
Record hp := mk_hp { hp_state : Z; hp_toks : list token; hp_locs : list pos }.
Definition hp_init : hp := mk_hp S_NOT_RUNNING [] [].

Definition hex_consume (st : hp) (t : token) (result : list token) : pres (hp * list token * bool) :=
  if hp_state st =? S_NOT_RUNNING then
    if is_tok T_NAME "x" t then POk (mk_hp S_RUNNING (hp_toks st ++ [t]) (hp_locs st), result, true)
    else POk (st, result, false)
  else if negb (hp_state st =? S_RUNNING) then PErr (Internal AssertFail)
  else if negb (ttyp t =? T_STRING) then POk (mk_hp S_NOT_RUNNING [] (hp_locs st), result ++ hp_toks st, false)
  else if negb (Z.of_nat (List.length (hp_toks st)) =? 1) then PErr (Internal AssertFail)
  else x <~ lindex (hp_toks st) 0 ;;
       if negb (is_tok T_NAME "x" x) then PErr (Internal AssertFail)
       else POk (mk_hp S_NOT_RUNNING [] (hp_locs st ++ [tstart t]), result ++ [t], true).

(* ---------- the token loop of PreParser._parse *)
Section Loop.
  Variable S : Type.                                   (* Settings *)
  Variable hook : string -> pos -> S -> pres S.        (* the `if typ == COMMENT:` block *)

  Record ms := mk_ms { m_adj : list (pos * Z); m_res : list token; m_kw : list (pos * string); m_set : S;
                       m_col : list (Z * Z); m_fp : fp; m_hp : hp }.

  (* (new keyword, vyper node type) for a NAME token that is rewritten *)
  Definition keyword_of (t : token) : option (string * string) :=
    match assoc_str VYPER_CLASS_TYPES (tstr t) with
    | Some ty => if snd (tstart t) =? 0 then Some ("class", ty)
                 else match assoc_str CUSTOM_STATEMENT_TYPES (tstr t) with
                      | Some ty' => Some ("yield", ty')
                      | None => match assoc_str CUSTOM_EXPRESSION_TYPES (tstr t) with
                                | Some ty' => Some ("await", ty') | None => None end
                      end
    | None => match assoc_str CUSTOM_STATEMENT_TYPES (tstr t) with
              | Some ty' => Some ("yield", ty')
              | None => match assoc_str CUSTOM_EXPRESSION_TYPES (tstr t) with
                        | Some ty' => Some ("await", ty') | None => None end
              end
    end.

  (* keyword rewriting: (keyword_translations, _col_adjustments, tokens to emit for t) *)
  Definition kw_part (st : ms) (t : token) (newstart : pos) : list (pos * string) * list (Z * Z) * list token :=
    match (if ttyp t =? T_NAME then keyword_of t else None) with
    | Some (newkw, vty) =>
        (dset pos_eqb (m_kw st) newstart vty,
         dset Z.eqb (m_col st) (fst (tstart t))
              (dget_default Z.eqb (m_col st) (fst (tstart t)) 0 + (slen (tstr t) - slen newkw)),
         [mk_token T_NAME newkw (tstart t) (tend t)])
    | None => (m_kw st, m_col st, [t])
    end.

  Definition step (st : ms) (t : token) : pres ms :=
    let lineno := fst (tstart t) in
    let col := snd (tstart t) in
    let adj := dget_default Z.eqb (m_col st) lineno 0 in
    let newstart := (lineno, col - adj) in
    let adjs := dset pos_eqb (m_adj st) newstart adj in
    set <~ (if ttyp t =? T_COMMENT then hook (tstr t) (tstart t) (m_set st) else POk (m_set st)) ;;
    if (ttyp t =? T_NAME) && str_in ["class"; "yield"] (tstr t) then
      PErr (User "SyntaxException" lineno col ("The `" +++ tstr t +++ "` keyword is not allowed. "))
    else
      let '(kw, cols, toks) := kw_part st t newstart in
      let end_adj := dget_default Z.eqb cols (fst (tend t)) 0 in
      let adjs := dsetdefault pos_eqb adjs (fst (tend t), snd (tend t) - end_adj) end_adj in
      if is_tok T_OP ";" t then PErr (User "SyntaxException" lineno col "Semi-colon statements not allowed")
      else
        '(fp', b1) <~ for_consume (m_fp st) t ;;
        if b1 then POk (mk_ms adjs (m_res st) kw set cols fp' (m_hp st))
        else
          '(hp', res', b2) <~ hex_consume (m_hp st) t (m_res st) ;;
          if b2 then POk (mk_ms adjs res' kw set cols fp' hp')
          else POk (mk_ms adjs (res' ++ toks) kw set cols fp' hp').

  Definition ms_init (s0 : S) : ms := mk_ms [] [] [] s0 [] fp_init hp_init.

  Fixpoint run_from (st : ms) (ts : list token) : pres ms :=
    match ts with
    | [] => POk st
    | t :: r => st' <~ step st t ;; run_from st' r
    end.
  Definition run (s0 : S) (ts : list token) : pres ms := run_from (ms_init s0) ts.

  (* the same loop with a step counter: one step per token *)
  Fixpoint run_count (st : ms) (ts : list token) (n : nat) : pres ms * nat :=
    match ts with
    | [] => (POk st, n)
    | t :: r => match step st t with POk st' => run_count st' r (Datatypes.S n) | PErr e => (PErr e, Datatypes.S n) end
    end.
End Loop.
