(* C08: side effects exactly once, in source order -- stated on the reference semantics VyCore, whose
   every evaluation returns the ordered effect trace it produced.  The compiler is tied to these rules
   by the position x effect matrix in tools/checks/c08.py. *)
From Coq Require Import ZArith List Bool.
From Verif Require Import C01.VyCore C01.VyLaws.
Import ListNotations.
Open Scope Z_scope.

(* The trace of every compound form is the concatenation of the traces of its evaluated sub-expressions,
   in source order, each exactly once; unevaluated (short-circuited) operands contribute nothing. *)
Theorem eval_once_in_order : forall P ce,
  (* binary / compare / min / max / subscript: left operand, then right operand *)
  (forall f e a b s v s' t, two_operand e = Some (a, b) -> eval P ce (S f) e s = Ok v s' t ->
     exists va s1 t1 vb t2, eval P ce f a s = Ok va s1 t1 /\ eval P ce f b s1 = Ok vb s' t2 /\ t = t1 ++ t2) /\
  (* and / or / conditional expression: short circuit *)
  (forall f a b s v s' t, eval P ce (S f) (EAnd a b) s = Ok v s' t ->
     exists va s1 t1, eval P ce f a s = Ok (VBool va) s1 t1 /\
       if va then exists t2, eval P ce f b s1 = Ok v s' t2 /\ t = t1 ++ t2
       else v = VBool false /\ s' = s1 /\ t = t1) /\
  (forall f a b s v s' t, eval P ce (S f) (EOr a b) s = Ok v s' t ->
     exists va s1 t1, eval P ce f a s = Ok (VBool va) s1 t1 /\
       if va then v = VBool true /\ s' = s1 /\ t = t1
       else exists t2, eval P ce f b s1 = Ok v s' t2 /\ t = t1 ++ t2) /\
  (forall f c a b s v s' t, eval P ce (S f) (EIfExp c a b) s = Ok v s' t ->
     exists vc s1 t1 t2, eval P ce f c s = Ok (VBool vc) s1 t1 /\
       eval P ce f (if vc then a else b) s1 = Ok v s' t2 /\ t = t1 ++ t2) /\
  (* call arguments left to right, then the callee, bracketed by exactly one call/ret event *)
  (forall f g args s v s' t, eval P ce (S f) (ECall g args) s = Ok v s' t ->
     exists vs s1 targs tbody, seq_eval_any P ce args s vs s1 targs /\
       call P ce f g vs s1 = Ok v s' tbody /\ t = targs ++ tbody /\
       exists tb, tbody = EvCall g vs :: tb ++ [EvRet g]) /\
  (* log: arguments once each (the model evaluates them left to right), then one log event *)
  (forall f id args s q s' t, exec P ce (S f) (SLog id args) s = Ok q s' t ->
     exists vs targs, seq_eval_any P ce args s vs s' targs /\ t = targs ++ [EvLog id vs] /\ q = SNormal) /\
  (* plain assignment: right-hand side, then the target's index expressions, then one store *)
  (forall f b p e s q s' t, exec P ce (S f) (SAssign b p e) s = Ok q s' t ->
     exists v s1 t1, eval P ce f e s = Ok v s1 t1 /\
       match p with
       | [] => s' = base_set b v s1 /\ t = t1 ++ store_event b [] v
       | _ => exists root cp s2 t2 root2 root',
                base_get b s1 = Some root /\ resolve P ce f p root s1 = Ok cp s2 t2 /\
                base_get b s2 = Some root2 /\ set_path cp v root2 = Some root' /\
                s' = base_set b root' s2 /\ t = t1 ++ t2 ++ store_event b cp v
       end) /\
  (* loop headers: the iterable / bound is evaluated once, before the first iteration *)
  (forall f x e body s q s' t, exec P ce (S f) (SForIn x e body) s = Ok q s' t ->
     exists l s1 t1 t2, eval P ce f e s = Ok (VList l) s1 t1 /\
       loop_l l (fun v st => exec_block P ce f body (base_set (BLoc x) v st)) s1 = Ok q s' t2 /\ t = t1 ++ t2) /\
  (forall f x e bound body s q s' t, exec P ce (S f) (SForDyn x e bound body) s = Ok q s' t ->
     exists n s1 t1 t2, eval P ce f e s = Ok (VInt n) s1 t1 /\ 0 <= n <= bound /\
       loop_n (Z.to_nat n) 0 (fun i st => exec_block P ce f body (base_set (BLoc x) (VInt i) st)) s1 = Ok q s' t2 /\
       t = t1 ++ t2) /\
  (* statements in order; nothing after break / continue / return runs *)
  (forall f c r s q s' t, exec_block P ce (S f) (c :: r) s = Ok q s' t ->
     exists q1 s1 t1, exec P ce f c s = Ok q1 s1 t1 /\
       match q1 with
       | SNormal => exists t2, exec_block P ce f r s1 = Ok q s' t2 /\ t = t1 ++ t2
       | _ => q = q1 /\ s' = s1 /\ t = t1
       end).
Proof.
  intros P ce.
  split; [apply operands_left_to_right|]. split; [apply and_short_circuit|].
  split; [apply or_short_circuit|]. split; [apply ifexp_one_branch|].
  split.
  { intros f g args s v s' t H. destruct (call_args_then_body P ce f g args s v s' t H) as (vs & s1 & ta & tb & H1 & H2 & H3).
    exists vs, s1, ta, tb. repeat split; auto. eapply call_trace_bracketed; eauto. }
  split; [apply log_args_then_event|]. split; [apply assign_rhs_before_target|].
  split; [apply forin_iterable_once|]. split; [apply fordyn_bound_once|]. apply block_in_order.
Qed.
Print Assumptions eval_once_in_order.

(* Values are passed by value: the callee starts from fresh locals holding the argument values, its result
   does not depend on the caller's locals, and the caller's locals are unchanged when it returns. *)
Theorem pass_by_value : forall P ce,
  (forall f g vs s v s' t, call P ce f g vs s = Ok v s' t -> st_loc s' = st_loc s) /\
  (forall f g vs l1 l2 sto tra,
     match call P ce f g vs (mkState l1 sto tra), call P ce f g vs (mkState l2 sto tra) with
     | Ok v1 s1 t1, Ok v2 s2 t2 => v1 = v2 /\ t1 = t2 /\ st_sto s1 = st_sto s2 /\ st_tra s1 = st_tra s2
     | Fail x, Fail y => x = y
     | _, _ => False
     end).
Proof. intros P ce. split; [apply call_restores_locals | apply call_ignores_caller_locals]. Qed.
Print Assumptions pass_by_value.

(* non-vacuity: `self.s + self.bump()` reads s before bump's effect; and/or skip the second operand *)
Definition demo : prog :=
  mkProg [TInt 256 false] []
    [mkFun [] false [SAug Add (TInt 256 false) (BSto 0) [] (EConst (VInt 10)); SLog 0 [ESelf 0]; SReturn (Some (ESelf 0))]]
    [mkFun [] false [SAssign (BSto 0) [] (EConst (VInt 3));
                     SReturn (Some (EBin Add (TInt 256 false) (ESelf 0) (ECall 0 [])))];
     mkFun [] false [SReturn (Some (EAnd (ECmp Gt (ESelf 0) (EConst (VInt 5))) (ECmp Gt (ECall 0 []) (EConst (VInt 0)))))]].
Example c08_nonvacuous :
  (match call_ext 50 demo (mkCenv 0 0) 0 [] [VInt 0] [] with
   | XOk (VInt 16) [EvStore false 0 [] (VInt 3); EvCall 0 []; EvStore false 0 [] (VInt 13); EvLog 0 [VInt 13]; EvRet 0] _ _ => True
   | _ => False end) /\
  (match call_ext 50 demo (mkCenv 0 0) 1 [] [VInt 0] [] with XOk (VBool false) [] _ _ => True | _ => False end).
Proof. vm_compute. split; exact I. Qed.
