(* C14 (dominators / SSA / DFG): property theorems.  Proofs in DomProofs.v / SsaProofs.v. *)
From Coq Require Import NArith List Bool.
From Verif Require Import C14D.Dom C14D.DomProofs C14D.Ssa C14D.SsaProofs.
Import ListNotations.
Open Scope N_scope.

(* an accepted dominator table is sound: a listed dominator lies on EVERY path from the entry *)
Theorem C14D_dom_check_sound : forall f R D, dom_check f R D = true ->
  forall b l, rpath f b l -> forall d, In d (nthL D b) -> d = b \/ In d l.
Proof. exact dom_check_sound. Qed.
Print Assumptions C14D_dom_check_sound.

(* ... and, with the second check, exact: the listed blocks are precisely the dominators, and R is reachable *)
Theorem C14D_dom_exact : forall f R D, dom_check f R D = true -> dom_complete_check f R D = true ->
  forall b, In b R -> reachable f b /\ forall d, In d (nthL D b) <-> dominates f d b.
Proof. exact dom_exact. Qed.
Print Assumptions C14D_dom_exact.

Theorem C14D_idom_check_sound : forall f R D I,
  dom_check f R D = true -> dom_complete_check f R D = true -> idom_check R D I = true ->
  forall b, In b R -> b <> 0 ->
  let i := nth (N.to_nat b) I b in
  strictly_dominates f i b /\ forall d, strictly_dominates f d b -> dominates f d i.
Proof. exact idom_check_sound. Qed.
Print Assumptions C14D_idom_check_sound.

Theorem C14D_df_check_sound : forall f R D DF,
  dom_check f R D = true -> dom_complete_check f R D = true -> df_check f R D DF = true ->
  forall x y, In x R -> In y R ->
  (In y (nthL DF x) <->
   (exists p, In p R /\ In y (succs f p) /\ dominates f x p) /\ ~ strictly_dominates f x y).
Proof. exact df_check_sound. Qed.
Print Assumptions C14D_df_check_sound.

(* SSA: on every execution path nothing is read before it was assigned *)
Theorem C14D_ssa_check_sound : forall f R D, dom_check f R D = true -> ssa_check f R D = true ->
  forall b k S, reach f b k S -> reads_ok f b k S.
Proof. exact ssa_check_sound. Qed.
Print Assumptions C14D_ssa_check_sound.

Theorem C14D_single_def : forall f, single_def_check f = true -> NoDup (map fst (defs f)).
Proof. exact single_def_sound. Qed.
Print Assumptions C14D_single_def.

Theorem C14D_dfg_check_sound : forall f vars outs ins, dfg_check f vars outs ins = true ->
  forall x, In x vars ->
  (forall s, In s (flat_map snd (filter (fun p => N.eqb (fst p) x) ins)) <-> In s (use_sites f x)) /\
  (forall s, In (x, s) outs -> exists l, def_sites f x = l ++ [s]).
Proof. exact dfg_check_sound. Qed.
Print Assumptions C14D_dfg_check_sound.

(* non-vacuity: a loop in SSA form
     0: %0 = ..; jmp 1
     1: %1 = phi [0: %0] [2: %3]; %2 = lt %1; jnz %2, 2, 3
     2: %3 = add %1; jmp 1
     3: stop *)
Definition ex_f : func :=
  [ [mkI false [OLit] [0]; mkI false [OLab 1] []];
    [mkI true [OLab 0; OVar 0; OLab 2; OVar 3] [1]; mkI false [OLit; OVar 1] [2]; mkI false [OVar 2; OLab 2; OLab 3] []];
    [mkI false [OLit; OVar 1] [3]; mkI false [OLab 1] []];
    [mkI false [] []] ].
Definition ex_R : list N := [0; 1; 2; 3].
Definition ex_D : list (list N) := [[0]; [0; 1]; [0; 1; 2]; [0; 1; 3]].
Example C14D_nonvacuous :
  dom_check ex_f ex_R ex_D = true /\ dom_complete_check ex_f ex_R ex_D = true /\
  idom_check ex_R ex_D [0; 0; 1; 1] = true /\ df_check ex_f ex_R ex_D [[]; [1]; [1]; []] = true /\
  ssa_check ex_f ex_R ex_D = true /\ single_def_check ex_f = true /\
  (* a wrong table is rejected: block 2 does not dominate block 3 *)
  dom_check ex_f ex_R [[0]; [0; 1]; [0; 1; 2]; [0; 1; 2; 3]] = false /\
  (* and a use that is not dominated is rejected: block 3 reading %3 *)
  ssa_check (firstn 3 ex_f ++ [[mkI false [OVar 3] []]]) ex_R ex_D = false /\
  reach ex_f 2 0%nat [2; 1; 0].
Proof.
  repeat split; try (vm_compute; reflexivity).
  assert (R0 : reach ex_f 0 0%nat []) by constructor.
  assert (R1 : reach ex_f 0 1%nat [0]) by (apply (r_step ex_f 0 0 [] (mkI false [OLit] [0]) R0); reflexivity).
  assert (R2 : reach ex_f 0 2%nat [0]) by (apply (r_step ex_f 0 1 [0] (mkI false [OLab 1] []) R1); reflexivity).
  assert (R3 : reach ex_f 1 1%nat [1; 0]) by (apply (r_jump ex_f 0 [0] 1 R2); left; reflexivity).
  assert (R4 : reach ex_f 1 2%nat [2; 1; 0]) by (apply (r_step ex_f 1 1 [1; 0] (mkI false [OLit; OVar 1] [2]) R3); reflexivity).
  assert (R5 : reach ex_f 1 3%nat [2; 1; 0]) by (apply (r_step ex_f 1 2 [2; 1; 0] (mkI false [OVar 2; OLab 2; OLab 3] []) R4); reflexivity).
  apply (r_jump ex_f 1 [2; 1; 0] 2 R5). left. reflexivity.
Qed.
