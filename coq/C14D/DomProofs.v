(* C14D: soundness (and completeness) of the dominator / dominance-frontier validators. *)
From Coq Require Import NArith List Bool Lia.
From Verif Require Import C14D.Dom.
Import ListNotations.
Open Scope N_scope.

(* ---------- paths ---------- *)
(* rpath f b l : a CFG path from the entry block ends in b; l = the blocks visited before b, most recent first *)
Inductive rpath (f : func) : N -> list N -> Prop :=
| rp_entry : rpath f 0 []
| rp_step a l b : rpath f a l -> In b (succs f a) -> rpath f b (a :: l).
(* d dominates b: every path from the entry to b passes through d *)
Definition dominates (f : func) (d b : N) : Prop := forall l, rpath f b l -> d = b \/ In d l.
Definition reachable (f : func) (b : N) : Prop := exists l, rpath f b l.

Lemma memN_spec x l : memN x l = true <-> In x l.
Proof.
  induction l as [|y t IH]; cbn; [split; [discriminate | tauto]|].
  rewrite orb_true_iff, IH, N.eqb_eq. intuition.
Qed.
Lemma memN_false x l : memN x l = false <-> ~ In x l.
Proof. rewrite <- memN_spec. destruct (memN x l); intuition congruence. Qed.

Lemma blocks_of_spec f d : In d (blocks_of f) <-> d < nblocks f.
Proof.
  unfold blocks_of, nblocks. rewrite in_map_iff. split.
  - intros (k & <- & Hk). apply in_seq in Hk. lia.
  - intros H. exists (N.to_nat d). split; [lia|]. apply in_seq. lia.
Qed.

Lemma closed_path f R : closed f R = true -> forall b l, rpath f b l ->
  In b R /\ b < nblocks f /\ (forall x, In x l -> In x R /\ x < nblocks f).
Proof.
  intros Hc. unfold closed in Hc. apply andb_true_iff in Hc. destruct Hc as [Hc Hs].
  apply andb_true_iff in Hc. destruct Hc as [H0 Hn]. apply memN_spec in H0. apply N.ltb_lt in Hn.
  rewrite forallb_forall in Hs.
  induction 1 as [|a l b Hp IH He].
  - split; [assumption|]. split; [assumption|]. intros x [].
  - destruct IH as (Ha & Han & Hl). specialize (Hs a Ha). rewrite forallb_forall in Hs. specialize (Hs b He).
    apply andb_true_iff in Hs. destruct Hs as [Hb Hbn]. apply memN_spec in Hb. apply N.ltb_lt in Hbn.
    split; [assumption|]. split; [assumption|]. intros x [<-|Hx]; auto.
Qed.

(* ---------- dominators: soundness ---------- *)
Theorem dom_check_sound f R D : dom_check f R D = true ->
  forall b l, rpath f b l -> forall d, In d (nthL D b) -> d = b \/ In d l.
Proof.
  intros Hc. unfold dom_check in Hc. apply andb_true_iff in Hc. destruct Hc as [Hc He].
  apply andb_true_iff in Hc. destruct Hc as [Hcl H0].
  rewrite forallb_forall in H0, He.
  intros b l Hp. pose proof (closed_path f R Hcl b l Hp) as _.
  induction Hp as [|a l b Hp IH Hs]; intros d Hd.
  - left. specialize (H0 d Hd). apply N.eqb_eq in H0. assumption.
  - destruct (closed_path f R Hcl a l Hp) as (Ha & _).
    specialize (He a Ha). rewrite forallb_forall in He. specialize (He b Hs).
    rewrite forallb_forall in He. specialize (He d Hd). apply orb_true_iff in He. destruct He as [He|He].
    + left. apply N.eqb_eq in He. assumption.
    + right. apply memN_spec in He. destruct (IH d He) as [->|Hin]; [left; reflexivity | right; assumption].
Qed.

(* ---------- the search ---------- *)
Definition avoiding (f : func) (ban : option N) (x : N) : Prop :=
  exists l, rpath f x l /\ forall d, ban = Some d -> ~ In d l.
Definition not_ban (ban : option N) (x : N) : Prop := forall d, ban = Some d -> x <> d.

Lemma is_ban_false ban x : is_ban ban x = false -> not_ban ban x.
Proof. unfold is_ban, not_ban. destruct ban as [d'|]; [|discriminate]. intros H d [= <-]. apply N.eqb_neq. assumption. Qed.

Lemma succ_table_nth f x : x < nblocks f -> nthL (succ_table f) x = succs f x.
Proof.
  intros H. unfold nthL, succ_table, blocks_of. unfold nblocks in H.
  rewrite (nth_indep _ [] (succs f (N.of_nat 0))) by (rewrite !map_length, seq_length; lia).
  rewrite map_map. rewrite (map_nth (fun k => succs f (N.of_nat k)) (seq 0 (length f)) 0%nat (N.to_nat x)).
  rewrite seq_nth by lia. cbn. rewrite N2Nat.id. reflexivity.
Qed.

Lemma dfs_sound f ban fuel : forall stack visited,
  (forall x, In x stack -> avoiding f ban x) ->
  (forall x, In x visited -> avoiding f ban x /\ not_ban ban x) ->
  forall y, In y (dfs fuel (succ_table f) (nblocks f) ban stack visited) -> avoiding f ban y /\ not_ban ban y.
Proof.
  induction fuel as [|fuel IH]; intros stack visited Hs Hv y Hy; cbn [dfs] in Hy; [auto|].
  destruct stack as [|x st]; [auto|].
  destruct (memN x visited || is_ban ban x || negb (x <? nblocks f)) eqn:E.
  - eapply IH; [| exact Hv | exact Hy]. intros z Hz. apply Hs. right. assumption.
  - apply orb_false_iff in E. destruct E as [E En]. apply orb_false_iff in E. destruct E as [_ Eb].
    apply is_ban_false in Eb. apply negb_false_iff, N.ltb_lt in En. rewrite (succ_table_nth f x En) in Hy.
    assert (Hx : avoiding f ban x) by (apply Hs; left; reflexivity).
    eapply IH; [| | exact Hy].
    + intros z Hz. apply in_app_or in Hz. destruct Hz as [Hz|Hz]; [|apply Hs; right; assumption].
      destruct Hx as (l & Hp & Hl). exists (x :: l). split; [econstructor; eassumption|].
      intros d Hd [<-|Hin]; [eapply Eb; eauto | eapply Hl; eauto].
    + intros z [<-|Hz]; [split; assumption | apply Hv; assumption].
Qed.

Lemma search_t_sound f ban y : In y (search_t (succ_table f) (nblocks f) ban) -> avoiding f ban y /\ not_ban ban y.
Proof.
  unfold search_t. apply dfs_sound.
  - intros x [<-|[]]. exists []. split; [constructor|]. intros d _ [].
  - intros x [].
Qed.
Lemma search_sound f ban y : In y (search f ban) -> avoiding f ban y /\ not_ban ban y.
Proof. apply search_t_sound. Qed.

(* ---------- dominators: exactness ---------- *)
Theorem dom_exact f R D : dom_check f R D = true -> dom_complete_check f R D = true ->
  forall b, In b R -> reachable f b /\ forall d, In d (nthL D b) <-> dominates f d b.
Proof.
  intros Hs Hc b Hb. unfold dom_complete_check in Hc. cbv zeta in Hc. fold (search f None) in Hc. apply andb_true_iff in Hc. destruct Hc as [Hall Hav].
  rewrite forallb_forall in Hall, Hav.
  assert (Hreach : reachable f b).
  { specialize (Hall b Hb). apply memN_spec in Hall. apply search_sound in Hall. destruct Hall as [(l & Hp & _) _]. exists l. assumption. }
  split; [assumption|]. intros d. split.
  - intros Hd l Hp. eapply dom_check_sound; eauto.
  - intros Hdom. destruct (memN d (nthL D b)) eqn:E; [apply memN_spec; assumption|]. exfalso.
    assert (Hcl : closed f R = true).
    { unfold dom_check in Hs. apply andb_true_iff in Hs. destruct Hs as [Hs _]. apply andb_true_iff in Hs. tauto. }
    destruct (N.ltb_spec d (nblocks f)) as [Hlt|Hge].
    + apply blocks_of_spec in Hlt. specialize (Hav d Hlt). rewrite forallb_forall in Hav. specialize (Hav b Hb).
      rewrite E in Hav. cbn [orb] in Hav. apply memN_spec in Hav. apply search_t_sound in Hav.
      destruct Hav as [(l & Hp & Hl) Hn]. destruct (Hdom l Hp) as [->|Hin].
      * eapply Hn; reflexivity.
      * eapply Hl; [reflexivity | exact Hin].
    + destruct Hreach as (l & Hp). destruct (closed_path f R Hcl b l Hp) as (_ & Hbn & Hl).
      destruct (Hdom l Hp) as [->|Hin]; [lia|]. destruct (Hl d Hin). lia.
Qed.

(* ---------- immediate dominators ---------- *)
Definition strictly_dominates f d b := dominates f d b /\ d <> b.
Theorem idom_check_sound f R D I :
  dom_check f R D = true -> dom_complete_check f R D = true -> idom_check R D I = true ->
  forall b, In b R -> b <> 0 ->
  let i := nth (N.to_nat b) I b in
  strictly_dominates f i b /\ forall d, strictly_dominates f d b -> dominates f d i.
Proof.
  intros Hs Hc Hi b Hb Hb0 i. unfold idom_check in Hi. rewrite forallb_forall in Hi. specialize (Hi b Hb).
  apply N.eqb_neq in Hb0. rewrite Hb0 in Hi. fold i in Hi.
  apply andb_true_iff in Hi. destruct Hi as [Hi Hall]. apply andb_true_iff in Hi. destruct Hi as [Hne Hin].
  apply negb_true_iff, N.eqb_neq in Hne. apply memN_spec in Hin. rewrite forallb_forall in Hall.
  destruct (dom_exact f R D Hs Hc b Hb) as [Hreach Hex].
  assert (Hdi : dominates f i b) by (apply Hex; assumption).
  split; [split; assumption|].
  intros d [Hd Hdb]. apply Hex in Hd. specialize (Hall d Hd). apply orb_true_iff in Hall.
  destruct Hall as [Hall|Hall]; [apply N.eqb_eq in Hall; contradiction|]. apply memN_spec in Hall.
  intros l Hp. eapply dom_check_sound; eauto.
Qed.

(* ---------- dominance frontier ---------- *)
Lemma preds_spec f R y p : In p (preds f R y) <-> In p R /\ In y (succs f p).
Proof. unfold preds. rewrite filter_In, memN_spec. tauto. Qed.

Theorem df_check_sound f R D DF :
  dom_check f R D = true -> dom_complete_check f R D = true -> df_check f R D DF = true ->
  forall x y, In x R -> In y R ->
  (In y (nthL DF x) <->
   (exists p, In p R /\ In y (succs f p) /\ dominates f x p) /\ ~ strictly_dominates f x y).
Proof.
  intros Hs Hc Hdf x y Hx Hy. unfold df_check in Hdf. rewrite forallb_forall in Hdf. specialize (Hdf y Hy). cbv zeta in Hdf.
  rewrite forallb_forall in Hdf. specialize (Hdf x Hx). apply eqb_prop in Hdf.
  rewrite <- memN_spec, Hdf. unfold in_df_p. rewrite andb_true_iff, negb_true_iff, existsb_exists.
  destruct (dom_exact f R D Hs Hc y Hy) as [_ Hey].
  split.
  - intros [(p & Hp & Hxp) Hn]. apply preds_spec in Hp. destruct Hp as [HpR Hpy]. apply memN_spec in Hxp.
    destruct (dom_exact f R D Hs Hc p HpR) as [_ Hep]. split.
    + exists p. split; [assumption|]. split; [assumption|]. apply Hep. assumption.
    + intros [Hd Hne]. apply Hey in Hd. apply memN_spec in Hd. rewrite Hd in Hn. cbn in Hn.
      apply negb_false_iff, N.eqb_eq in Hn. contradiction.
  - intros [(p & HpR & Hpy & Hd) Hn]. destruct (dom_exact f R D Hs Hc p HpR) as [_ Hep]. split.
    + exists p. split; [apply preds_spec; split; assumption|]. apply memN_spec. apply Hep. assumption.
    + destruct (memN x (nthL D y)) eqn:E; [|reflexivity]. cbn. apply negb_false_iff, N.eqb_eq.
      destruct (N.eq_dec x y) as [|Hne]; [assumption|]. exfalso. apply Hn. split; [|assumption].
      apply Hey. apply memN_spec. assumption.
Qed.

(* ---------- DFG ---------- *)
Lemma site_eqb_eq a b : site_eqb a b = true <-> a = b.
Proof.
  destruct a as [a1 a2], b as [b1 b2]. unfold site_eqb. cbn. rewrite andb_true_iff, !N.eqb_eq. split; [intros [-> ->]; reflexivity | intros [= -> ->]; auto].
Qed.
Lemma mem_site_spec s l : mem_site s l = true <-> In s l.
Proof.
  unfold mem_site. rewrite existsb_exists. split.
  - intros (x & Hx & He). apply site_eqb_eq in He. subst. assumption.
  - intros H. exists s. split; [assumption | apply site_eqb_eq; reflexivity].
Qed.
Lemma seteq_site_spec a b : seteq_site a b = true -> forall s, In s a <-> In s b.
Proof.
  unfold seteq_site. intros H. apply andb_true_iff in H. destruct H as [H1 H2]. rewrite forallb_forall in H1, H2.
  intros s. split; intros Hs; apply mem_site_spec; auto.
Qed.
(* an accepted DFG lists, for every variable, exactly the instructions that read it, and its producer is the last
   instruction that assigns it *)
Theorem dfg_check_sound f vars outs ins : dfg_check f vars outs ins = true ->
  forall x, In x vars ->
  (forall s, In s (flat_map snd (filter (fun p => N.eqb (fst p) x) ins)) <-> In s (use_sites f x)) /\
  (forall s, In (x, s) outs -> exists l, def_sites f x = l ++ [s]).
Proof.
  unfold dfg_check. cbv zeta. intros H x Hx. rewrite forallb_forall in H. specialize (H x Hx).
  apply andb_true_iff in H. destruct H as [Ho Hu]. split; [apply seteq_site_spec; exact Hu|].
  intros s Hs. fold (def_sites f x) in Ho.
  assert (Hin : In (x, s) (filter (fun p => N.eqb (fst p) x) outs)) by (apply filter_In; split; [assumption | apply N.eqb_refl]).
  destruct (filter (fun p => N.eqb (fst p) x) outs) as [|[y s'] [|q t]] eqn:Ef; try contradiction.
  - destruct Hin as [Hin|[]]. inversion Hin; subst.
    destruct (rev (def_sites f x)) as [|last t] eqn:Er; [discriminate|]. apply site_eqb_eq in Ho. subst last.
    exists (rev t). rewrite <- (rev_involutive (def_sites f x)), Er. reflexivity.
  - destruct (rev (def_sites f x)); discriminate.
Qed.
