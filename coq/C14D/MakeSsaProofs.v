(* C14D: an accepted MakeSSA certificate gives a lock-step simulation: every execution of `after` is matched by an
   execution of `before` in the same block, with the same world state and the same observable events, in which every
   variable of `before` holds the value of its current version in `after`. *)
From Coq Require Import Arith ZArith NArith List Bool Lia.
From Verif Require Import C14D.MakeSsa.
Import ListNotations.
Open Scope N_scope.

Lemma mem_spec x l : mem x l = true <-> In x l.
Proof.
  induction l as [|y t IH]; cbn; [split; [discriminate | tauto]|].
  rewrite orb_true_iff, IH, N.eqb_eq. intuition.
Qed.
Lemma forall2b_length {A B} (f : A -> B -> bool) a : forall b, forall2b f a b = true -> length a = length b.
Proof. induction a as [|x t IH]; destruct b; cbn; try discriminate; auto. intros H. apply andb_true_iff in H. f_equal. apply IH. tauto. Qed.
Lemma forall2b_in_l {A B} (f : A -> B -> bool) a : forall b x, forall2b f a b = true -> In x a -> exists y, In y b /\ f x y = true.
Proof.
  induction a as [|x0 t IH]; destruct b as [|y0 tb]; cbn; try discriminate; [tauto|].
  intros x H [<-|Hx]; apply andb_true_iff in H; destruct H as [H1 H2].
  - exists y0. auto.
  - destruct (IH tb x H2 Hx) as (y' & Hy & Hf). exists y'. auto.
Qed.
Lemma forall2b_in_r {A B} (f : A -> B -> bool) a : forall b y, forall2b f a b = true -> In y b -> exists x, In x a /\ f x y = true.
Proof.
  induction a as [|x t IH]; destruct b as [|y0 tb]; cbn; try discriminate; [tauto|].
  intros y H [<-|Hy]; apply andb_true_iff in H; destruct H as [H1 H2].
  - exists x. auto.
  - destruct (IH tb y H2 Hy) as (x' & Hx & Hf). exists x'. auto.
Qed.

Section Sound.
Variable world : Type. (*section*)
Variable sem : N -> world -> list Z -> world -> list Z -> Prop. (*section*)
Variable tgt : N -> world -> list Z -> N -> Prop. (*section*)
(* the only interpreted opcode: assign copies its operand and does nothing else *)
Hypothesis sem_assign : forall w v w' vs, sem OP_ASSIGN w [v] w' vs -> w' = w /\ vs = [v]. (*section*)

Variable nb : N. (*section*)
Variable B : amap. (*section*)
Hypothesis B_keys : forall y v, In (y, v) B -> nb <= y /\ v < nb. (*section*)

Definition K : list N := map snd B.
Definition rel (M : vmap) (cb ca : menv) : Prop := forall x v, x < nb -> getv M x = Some v -> cb x = ca v.
Definition base_ok (M : vmap) : Prop :=
  forall x, x < nb -> (forall v, getv M x = Some v -> get B v = x) /\ (getv M x = None -> In x K).

Lemma assoc_in x M v : assoc x M = Some v -> In (x, v) M.
Proof.
  induction M as [|[y u] t IH]; cbn; [discriminate|]. destruct (N.eqb x y) eqn:E; [|auto].
  apply N.eqb_eq in E. subst. intros [= ->]. auto.
Qed.
Lemma B_id x : x < nb -> get B x = x.
Proof.
  intros H. unfold get. destruct (assoc x B) as [v|] eqn:E; [|reflexivity].
  apply assoc_in, B_keys in E. lia.
Qed.
Lemma base_ok_nil : base_ok [].
Proof. intros x Hx. cbn. split; [intros v [= <-]; apply B_id; exact Hx | discriminate]. Qed.
Lemma getv_upd M x y z : getv (upd M x y) z = if N.eqb z x then Some y else getv M z.
Proof. unfold getv, upd. cbn. destruct (N.eqb z x); reflexivity. Qed.
Lemma vassoc_in x M o : vassoc x M = Some o -> In (x, o) M.
Proof.
  induction M as [|[y u] t IH]; cbn; [discriminate|]. destruct (N.eqb x y) eqn:E; [|auto].
  apply N.eqb_eq in E. subst. intros [= ->]. auto.
Qed.

Lemma map_ok_base M : map_ok nb B K M = true -> base_ok M.
Proof.
  intros H x Hx. unfold map_ok in H. rewrite forallb_forall in H. unfold getv.
  destruct (vassoc x M) as [o|] eqn:E.
  - apply vassoc_in in E. specialize (H _ E). cbn [fst snd] in H. apply andb_true_iff in H. destruct H as [_ H].
    destruct o as [v|]; split; try discriminate.
    + intros v' [= <-]. apply N.eqb_eq in H. exact H.
    + intros _. apply mem_spec. exact H.
  - split; [intros v [= <-]; apply B_id; exact Hx | discriminate].
Qed.

(* one renamed definition *)
Lemma upd_step M x y cb ca v :
  x < nb -> get B y = x -> base_ok M -> rel M cb ca ->
  base_ok (upd M x y) /\ rel (upd M x y) (fun z => if N.eqb z x then v else cb z) (fun z => if N.eqb z y then v else ca z).
Proof.
  intros Hx Hy Hb Hr. split.
  - intros z Hz. rewrite getv_upd. destruct (N.eqb z x) eqn:E.
    + apply N.eqb_eq in E. split; [intros u [= <-]; rewrite E; exact Hy | discriminate].
    + apply Hb; exact Hz.
  - intros z u Hz. rewrite getv_upd. destruct (N.eqb z x) eqn:E.
    + intros [= <-]. rewrite N.eqb_refl. reflexivity.
    + intros Hu. assert (Hne : N.eqb u y = false).
      { apply N.eqb_neq. intros Heq. apply N.eqb_neq in E. apply E. destruct (Hb z Hz) as [Hb1 _]. rewrite <- (Hb1 u Hu), Heq. exact Hy. }
      rewrite Hne. apply Hr; assumption.
Qed.

Lemma upd_all_step xs : forall ys vs M cb ca,
  forall2b (out_ok nb B) xs ys = true -> length vs = length ys -> base_ok M -> rel M cb ca ->
  base_ok (upd_all M xs ys) /\ rel (upd_all M xs ys) (set_all cb xs vs) (set_all ca ys vs).
Proof.
  induction xs as [|x tx IH]; intros ys vs M cb ca H Hl Hb Hr.
  - destruct ys; [|discriminate]. cbn. auto.
  - destruct ys as [|y ty]; [discriminate|]. cbn in H. apply andb_true_iff in H. destruct H as [Ho Ht].
    unfold out_ok in Ho. apply andb_true_iff in Ho. destruct Ho as [Hx Hy]. apply N.ltb_lt in Hx. apply N.eqb_eq in Hy.
    destruct vs as [|v tv]; [discriminate|]. cbn [set_all upd_all]. cbn in Hl.
    destruct (upd_step M x y cb ca v Hx Hy Hb Hr) as [Hb' Hr'].
    apply IH; auto.
Qed.

Lemma args_eq M cb ca : rel M cb ca -> forall ab aa,
  forall2b (arg_ok nb M) ab aa = true -> map (oval cb) ab = map (oval ca) aa /\ mlabels ab = mlabels aa.
Proof.
  intros Hr. induction ab as [|a t IH]; intros [|a' t'] H; cbn in H; try discriminate; [split; reflexivity|].
  apply andb_true_iff in H. destruct H as [Ha Ht]. destruct (IH t' Ht) as [I1 I2].
  destruct a, a'; cbn in Ha; try discriminate; cbn.
  - apply Z.eqb_eq in Ha. subst. split; [f_equal; exact I1 | exact I2].
  - apply andb_true_iff in Ha. destruct Ha as [Hx Hv]. apply N.ltb_lt in Hx.
    destruct (getv M x) as [u|] eqn:Eu; [|discriminate]. apply N.eqb_eq in Hv. subst.
    split; [f_equal; [apply Hr; assumption | exact I1] | exact I2].
  - apply N.eqb_eq in Ha. subst. split; [f_equal; exact I1 | f_equal; exact I2].
Qed.
Lemma arg_val M cb ca a a' : rel M cb ca -> arg_ok nb M a a' = true -> oval cb a = oval ca a'.
Proof.
  intros Hr H. destruct (args_eq M cb ca Hr [a] [a']) as [E _]; [cbn; rewrite H; reflexivity|]. cbn in E. congruence.
Qed.

(* ---------- the walk ---------- *)
Lemma walk_base bb : forall ba fl M PM, walk nb B M bb ba fl = Some PM -> base_ok M -> base_ok PM.
Proof.
  intros ba. revert bb. induction ba as [|ia ta IH]; intros bb fl M PM H Hb.
  - destruct fl; [|discriminate]. cbn in H. destruct bb; [|discriminate]. inversion H; subst. exact Hb.
  - destruct fl as [|k tf]; cbn [walk] in H; try discriminate.
    destruct (N.eqb k 1).
    + destruct (N.eqb (m_op ia) OP_ASSIGN); [|discriminate].
      destruct (m_args ia) as [|[| v |] [|]]; try discriminate. destruct (m_outs ia) as [|y [|]]; try discriminate.
      destruct ((get B y <? nb) && is_cur M (get B y) v) eqn:E; [|discriminate].
      apply andb_true_iff in E. destruct E as [Hx _]. apply N.ltb_lt in Hx.
      eapply IH; [exact H|]. intros z Hz. rewrite getv_upd. destruct (N.eqb z (get B y)) eqn:Ez; [|apply Hb; exact Hz].
      apply N.eqb_eq in Ez. split; [intros u [= <-]; symmetry; exact Ez | discriminate].
    + destruct (N.eqb k 2).
      * destruct (N.eqb (m_op ia) OP_ASSIGN); [|discriminate].
        destruct (m_args ia) as [|? [|]]; try discriminate. destruct (m_outs ia) as [|y [|]]; try discriminate.
        destruct ((nb <=? get B y) || negb (is_cur M (get B y) y)); [|discriminate]. eapply IH; eauto.
      * destruct bb as [|ib tb]; [discriminate|]. destruct (pair_ok nb B M ib ia) eqn:E; [|discriminate].
        eapply IH; [exact H|]. unfold pair_ok in E. apply andb_true_iff in E. destruct E as [E _].
        apply andb_true_iff in E. destruct E as [_ Ho].
        destruct (upd_all_step (m_outs ib) (m_outs ia) (map (fun _ => 0%Z) (m_outs ia)) M (fun _ => 0%Z) (fun _ => 0%Z) Ho) as [Hb' _]; auto.
        -- rewrite map_length. reflexivity.
        -- intros x u Hx _. reflexivity.
Qed.

Variables f g : mfunc. (*section*)
Variable maps : list vmap. (*section*)
Variable extra : list (list N). (*section*)
Let C := mkC nb B maps extra.
Hypothesis CHK : makessa_check f g C = true. (*section*)

Lemma blocks_in b : b < N.of_nat (length g) -> In b (blocks g).
Proof. intros H. unfold blocks. apply in_map_iff. exists (N.to_nat b). split; [lia|]. apply in_seq. lia. Qed.

Lemma chk_parts :
  length f = length g /\ length g <> 0%nat /\
  nthM maps 0 = [] /\ mphis (mblock_of f 0) = [] /\ mphis (mblock_of g 0) = [] /\
  (forall b, In b (blocks g) -> block_check f g C (versioned C) b = true) /\
  (forall b, In b (blocks g) -> edge_check f g C (versioned C) b = true).
Proof.
  pose proof CHK as H. unfold makessa_check in H. cbv zeta in H.
  apply andb_true_iff in H. destruct H as [H He].
  apply andb_true_iff in H. destruct H as [H Hb].
  apply andb_true_iff in H. destruct H as [H Hp].
  apply andb_true_iff in H. destruct H as [H Hm].
  apply andb_true_iff in H. destruct H as [H _].
  apply andb_true_iff in H. destruct H as [Hl Hne].
  apply Nat.eqb_eq in Hl. apply negb_true_iff, Nat.eqb_neq in Hne. split; [exact Hl|]. split; [exact Hne|].
  change (c_maps C) with maps in *.
  destruct (nthM maps 0); [|discriminate]. split; [reflexivity|].
  destruct (mphis (mblock_of f 0)); [|discriminate]. destruct (mphis (mblock_of g 0)); [|discriminate].
  split; [reflexivity|]. split; [reflexivity|].
  split; [apply forallb_forall; assumption | apply forallb_forall; assumption].
Qed.

(* position invariant inside a block *)
Definition at_pos (b : N) (kb k : nat) (M : vmap) : Prop :=
  exists PM, end_map f g C b = Some PM /\
  walk nb B M (skipn kb (mbody (mblock_of f b))) (skipn k (mbody (mblock_of g b))) (skipn k (nthF extra b)) = Some PM.

Definition sim (sb sa : mstate world) : Prop :=
  s_blk sb = s_blk sa /\ s_world sb = s_world sa /\ s_trace sb = s_trace sa /\
  exists M, at_pos (s_blk sa) (s_pos sb) (s_pos sa) M /\ base_ok M /\ rel M (s_env sb) (s_env sa).

Lemma skipn_nth {A} (l : list A) k x : nth_error l k = Some x -> skipn k l = x :: skipn (S k) l.
Proof.
  revert k. induction l as [|y t IH]; intros [|k] H; cbn in *; try discriminate.
  - inversion H. reflexivity.
  - apply IH. exact H.
Qed.
Lemma skipn_all_nil {A} (l : list A) k : skipn k l = [] -> (length l <= k)%nat.
Proof. revert k. induction l as [|y t IH]; intros [|k] H; cbn in *; try lia; try discriminate. apply IH in H. lia. Qed.

Lemma find_phi_some phis y i : find_phi phis y = Some i -> In i phis /\ phi_out i = Some y.
Proof.
  unfold find_phi. intros H. apply find_some in H. destruct H as [H1 H2].
  destruct (phi_out i) as [o|]; [|discriminate]. apply N.eqb_eq in H2. subst. auto.
Qed.
Lemma find_phi_none phis y : phis_shape_ok phis = true -> find_phi phis y = None -> ~ In y (phi_outs phis).
Proof.
  intros Hs Hf Hin. unfold phi_outs in Hin. apply in_flat_map in Hin. destruct Hin as (i & Hi & Hy).
  unfold find_phi in Hf. eapply find_none in Hf; [|exact Hi].
  unfold phis_shape_ok in Hs. apply andb_true_iff in Hs. destruct Hs as [Hs _]. rewrite forallb_forall in Hs.
  specialize (Hs i Hi). apply andb_true_iff in Hs. destruct Hs as [Hs _].
  unfold phi_out in *. destruct (m_outs i) as [|o [|]]; try discriminate. destruct Hy as [<-|[]].
  rewrite N.eqb_refl in Hf. discriminate.
Qed.
Lemma phi_out_in phis i y : In i phis -> phi_out i = Some y -> In y (phi_outs phis).
Proof.
  intros Hi Ho. unfold phi_outs. apply in_flat_map. exists i. split; [exact Hi|].
  unfold phi_out in Ho. destruct (m_outs i) as [|o [|]]; try discriminate. inversion Ho. left. reflexivity.
Qed.
Lemma nodup_spec l : nodup l = true -> NoDup l.
Proof.
  induction l as [|x t IH]; cbn; [constructor|]. intros H. apply andb_true_iff in H. destruct H as [H1 H2].
  constructor; [|auto]. apply negb_true_iff in H1. intros Hin. apply mem_spec in Hin. congruence.
Qed.
(* with distinct outputs, the phi that defines y is unique *)
Lemma find_phi_unique phis : phis_shape_ok phis = true -> forall i y, In i phis -> phi_out i = Some y -> find_phi phis y = Some i.
Proof.
  intros Hs. unfold phis_shape_ok in Hs. apply andb_true_iff in Hs. destruct Hs as [Hsh Hnd]. apply nodup_spec in Hnd.
  rewrite forallb_forall in Hsh.
  induction phis as [|j t IH]; intros i y Hi Ho; [contradiction|].
  unfold find_phi. cbn [find].
  assert (Hj : exists o, m_outs j = [o]).
  { specialize (Hsh j (or_introl eq_refl)). apply andb_true_iff in Hsh. destruct Hsh as [Hsh _]. unfold phi_out in Hsh.
    destruct (m_outs j) as [|o [|]]; try discriminate. eauto. }
  destruct Hj as [o Hjo]. unfold phi_out at 1. rewrite Hjo.
  unfold phi_outs in Hnd. cbn [flat_map] in Hnd. rewrite Hjo in Hnd. cbn in Hnd. inversion Hnd as [|? ? Hnot Hnd']; subst.
  destruct Hi as [<-|Hi].
  - unfold phi_out in Ho. rewrite Hjo in Ho. inversion Ho; subst. rewrite N.eqb_refl. reflexivity.
  - destruct (N.eqb o y) eqn:E.
    + apply N.eqb_eq in E. subst. exfalso. apply Hnot. eapply phi_out_in; eauto.
    + apply IH; auto. intros x Hx. apply Hsh. right. exact Hx.
Qed.

(* a base variable that never got a new version is mapped to itself by every base-consistent map *)
Lemma unversioned_id M x : base_ok M -> x < nb -> ~ In x (versioned C) -> getv M x = Some x.
Proof.
  intros Hb Hx Hn. destruct (Hb x Hx) as [Hb1 Hb2]. change (versioned C) with K in Hn.
  destruct (getv M x) as [v|] eqn:E; [|exfalso; apply Hn; apply Hb2; reflexivity].
  specialize (Hb1 v eq_refl). unfold get in Hb1.
  destruct (assoc v B) as [u|] eqn:Ea; [|congruence]. subst u. exfalso. apply Hn.
  apply assoc_in in Ea. unfold K. apply in_map_iff. exists (v, x). auto.
Qed.

(* ---------- the simulation ---------- *)
Theorem makessa_sim c0 w0 sa : mreach world sem tgt g c0 w0 sa -> exists sb, mreach world sem tgt f c0 w0 sb /\ sim sb sa.
Proof.
  destruct chk_parts as (Hlen & Hgne & HM0 & Hpf0 & Hpg0 & Hblk & Hedge).
  induction 1 as [| b k ca w tr ia w' vs Hr IH Hn Hsem Hvl | p ca w tr Ta t ca' Hr IH HT Ht Htgt Hphi].
  - (* start *)
    exists (mkS world 0 0%nat c0 w0 []). split; [constructor|]. unfold sim; cbn [s_blk s_pos s_env s_world s_trace]. repeat split; try reflexivity.
    exists []. split; [|split; [apply base_ok_nil | intros x v Hx [= <-]; reflexivity]].
    assert (H0 : In 0 (blocks g)).
    { apply blocks_in. lia. }
    assert (Hb0 := Hblk 0 H0). unfold block_check in Hb0. cbv zeta in Hb0.
    apply andb_true_iff in Hb0. destruct Hb0 as [_ Hb0].
    destruct (end_map f g C 0) as [PM|] eqn:Ee; [|discriminate].
    exists PM. split; [exact Ee|]. cbn [skipn]. unfold end_map in Ee. change (c_maps C) with maps in Ee. rewrite HM0 in Ee. exact Ee.
  - (* one instruction of `after` *)
    destruct IH as (sb & Hrb & Hbk & Hw & Htr & M & (PM & Hend & Hwalk) & Hbase & Hrel).
    destruct sb as [bb kb cb wb trb]. cbn [s_blk s_pos s_env s_world s_trace] in *. subst bb wb trb.
    rewrite (skipn_nth _ _ _ Hn) in Hwalk.
    destruct (skipn k (nthF extra b)) as [|fl tf] eqn:Ef; [cbn in Hwalk; discriminate|].
    assert (Hf' : skipn (S k) (nthF extra b) = tf).
    { clear - Ef. revert k Ef. generalize (nthF extra b). induction l as [|x t IH]; intros [|k] E; cbn in *; try discriminate.
      - inversion E. reflexivity.
      - apply IH. exact E. }
    cbn [walk] in Hwalk. destruct (N.eqb fl 1); [|destruct (N.eqb fl 2)].
    + (* inserted assign that takes over: `before` does not move *)
      destruct (N.eqb (m_op ia) OP_ASSIGN) eqn:Eop; [|discriminate]. apply N.eqb_eq in Eop.
      destruct (m_args ia) as [|[| v |] [|]] eqn:Ea; try discriminate.
      destruct (m_outs ia) as [|y [|]] eqn:Eo; try discriminate.
      destruct ((get B y <? nb) && is_cur M (get B y) v) eqn:E; [|discriminate].
      apply andb_true_iff in E. destruct E as [Hx Hv]. apply N.ltb_lt in Hx. unfold is_cur in Hv.
      destruct (getv M (get B y)) as [u0|] eqn:Eu0; [|discriminate]. apply N.eqb_eq in Hv. subst u0.
      rewrite Eop in Hsem. cbn [map oval] in Hsem. destruct (sem_assign _ _ _ _ Hsem) as [-> ->].
      exists (mkS world b kb cb w tr). split; [exact Hrb|]. unfold sim; cbn [s_blk s_pos s_env s_world s_trace]. repeat split; try reflexivity.
      * unfold emit. rewrite Eop. cbn. reflexivity.
      * exists (upd M (get B y) y). split; [exists PM; split; [exact Hend | rewrite Hf'; exact Hwalk]|].
        cbn [set_all].
        destruct (upd_step M (get B y) y cb ca (ca v) Hx eq_refl Hbase Hrel) as [Hb' Hr']. split; [exact Hb'|].
        intros z u Hz Hu. specialize (Hr' z u Hz Hu). cbn in Hr'. rewrite <- Hr'.
        destruct (N.eqb z (get B y)) eqn:Ez; [|reflexivity]. apply N.eqb_eq in Ez. subst z. apply (Hrel _ _ Hx Eu0).
    + (* inserted dead assign: writes a variable that is nobody's current version *)
      destruct (N.eqb (m_op ia) OP_ASSIGN) eqn:Eop; [|discriminate]. apply N.eqb_eq in Eop.
      destruct (m_args ia) as [|a0 [|]] eqn:Ea; try discriminate.
      destruct (m_outs ia) as [|y [|]] eqn:Eo; try discriminate.
      destruct ((nb <=? get B y) || negb (is_cur M (get B y) y)) eqn:E; [|discriminate].
      rewrite Eop in Hsem. cbn [map] in Hsem. destruct (sem_assign _ _ _ _ Hsem) as [-> ->].
      exists (mkS world b kb cb w tr). split; [exact Hrb|]. unfold sim; cbn [s_blk s_pos s_env s_world s_trace]. repeat split; try reflexivity.
      * unfold emit. rewrite Eop. cbn. reflexivity.
      * exists M. split; [exists PM; split; [exact Hend | rewrite Hf'; exact Hwalk]|]. split; [exact Hbase|].
        cbn [set_all]. intros z u Hz Hu. rewrite (Hrel z u Hz Hu).
        assert (Hne : N.eqb u y = false).
        { apply N.eqb_neq. intros ->. destruct (Hbase z Hz) as [Hb1 _]. specialize (Hb1 y Hu).
          apply orb_true_iff in E. destruct E as [E|E].
          - apply N.leb_le in E. lia.
          - apply negb_true_iff in E. unfold is_cur in E. rewrite Hb1, Hu, N.eqb_refl in E. discriminate. }
        rewrite Hne. reflexivity.
    + (* a renamed instruction of `before` *)
      destruct (skipn kb (mbody (mblock_of f b))) as [|ib tb] eqn:Eb; [discriminate|].
      destruct (pair_ok nb B M ib ia) eqn:Ep; [|discriminate].
      unfold pair_ok in Ep. apply andb_true_iff in Ep. destruct Ep as [Ep _].
      apply andb_true_iff in Ep. destruct Ep as [Ep Ho]. apply andb_true_iff in Ep. destruct Ep as [Ep Ha].
      apply andb_true_iff in Ep. destruct Ep as [Eop _]. apply N.eqb_eq in Eop.
      destruct (args_eq M cb ca Hrel _ _ Ha) as [Hvals _].
      assert (Hnb : nth_error (mbody (mblock_of f b)) kb = Some ib).
      { clear - Eb. revert kb Eb. generalize (mbody (mblock_of f b)). induction l as [|x t IH]; intros [|kb] E; cbn in *; try discriminate.
        - inversion E. reflexivity.
        - apply IH. exact E. }
      exists (mkS world b (S kb) (set_all cb (m_outs ib) vs) w' (emit tr (m_op ib) (map (oval cb) (m_args ib)) vs)).
      split.
      * apply (mr_step world sem tgt f c0 w0 b kb cb w tr ib w' vs Hrb Hnb); [rewrite Eop, Hvals; exact Hsem|].
        rewrite Hvl. symmetry. eapply forall2b_length. exact Ho.
      * unfold sim; cbn [s_blk s_pos s_env s_world s_trace]. repeat split; try reflexivity; [rewrite Eop, Hvals; reflexivity|].
        exists (upd_all M (m_outs ib) (m_outs ia)).
        destruct (upd_all_step _ _ vs M cb ca Ho Hvl Hbase Hrel) as [Hb' Hr'].
        split; [|split; assumption]. exists PM. split; [exact Hend|].
        rewrite Hf'. rewrite (skipn_nth _ _ _ Hnb) in Eb. inversion Eb; subst tb. exact Hwalk.
  - (* a jump *)
    destruct IH as (sb & Hrb & Hbk & Hw & Htr & M & (PM & Hend & Hwalk) & Hbase & Hrel).
    destruct sb as [bb kb cb wb trb]. cbn [s_blk s_pos s_env s_world s_trace] in *. subst bb wb trb.
    rewrite skipn_all in Hwalk.
    destruct (skipn (length (mbody (mblock_of g p))) (nthF extra p)) as [|? ?]; [|cbn in Hwalk; discriminate].
    cbn [walk] in Hwalk. destruct (skipn kb (mbody (mblock_of f p))) as [|? ?] eqn:Eb; [|discriminate].
    inversion Hwalk; subst M; clear Hwalk.
    assert (Hkb : (length (mbody (mblock_of f p)) <= kb)%nat) by (apply skipn_all_nil; exact Eb).
    (* p is a block of g *)
    assert (Hp : In p (blocks g)).
    { apply blocks_in. destruct (N.ltb_spec p (N.of_nat (length g))) as [|Hge]; [assumption|].
      unfold mterm, mblock_of in HT. rewrite nth_overflow in HT by lia. discriminate. }
    assert (Hbp := Hblk p Hp). unfold block_check in Hbp. cbv zeta in Hbp. apply andb_true_iff in Hbp. destruct Hbp as [_ Hbp].
    rewrite Hend, HT in Hbp. destruct (mlabels (m_args Ta)) as [|l0 lt] eqn:Elab; [contradiction|].
    destruct (mterm (mblock_of f p)) as [Tb|] eqn:ETb; [|discriminate].
    apply andb_true_iff in Hbp. destruct Hbp as [Hpair _].
    unfold pair_ok in Hpair. apply andb_true_iff in Hpair. destruct Hpair as [Hpair _].
    apply andb_true_iff in Hpair. destruct Hpair as [Hpair _]. apply andb_true_iff in Hpair. destruct Hpair as [Hpair Ha].
    apply andb_true_iff in Hpair. destruct Hpair as [Eop _]. apply N.eqb_eq in Eop.
    destruct (args_eq PM cb ca Hrel _ _ Ha) as [Hvals Hlabs].
    (* the edge check *)
    assert (He := Hedge p Hp). unfold edge_check in He. rewrite Hend in He. rewrite forallb_forall in He.
    rewrite <- Elab in Ht.
    assert (Hts : In t (msuccs g p)) by (unfold msuccs; rewrite HT; exact Ht).
    specialize (He t Hts). cbv zeta in He. apply andb_true_iff in He. destruct He as [Htlt He]. apply N.ltb_lt in Htlt.
    rewrite forallb_forall in He. change (c_nb C) with nb in He. change (c_base C) with B in He. change (c_maps C) with maps in He.
    assert (Hbt := Hblk t (blocks_in t Htlt)). unfold block_check in Hbt. cbv zeta in Hbt.
    change (c_nb C) with nb in Hbt. change (c_base C) with B in Hbt. change (c_maps C) with maps in Hbt.
    repeat (apply andb_true_iff in Hbt; destruct Hbt as [Hbt ?]).
    match goal with H : match end_map f g C t with _ => _ end = true |- _ => rename H into Hendt end.
    match goal with H : forallb _ (phi_outs (mphis (mblock_of g t))) = true |- _ => rename H into Hpa_cur end.
    match goal with H : forallb _ (phi_outs (mphis (mblock_of f t))) = true |- _ => rename H into Hpb_lt end.
    match goal with H : map_ok nb B _ (nthM maps t) = true |- _ => rename H into Hmapok end.
    match goal with H : phis_shape_ok (mphis (mblock_of g t)) = true |- _ => rename H into Hsa end.
    match goal with H : phis_shape_ok (mphis (mblock_of f t)) = true |- _ => rename H into Hsb end.
    set (pb := mphis (mblock_of f t)) in *. set (pa := mphis (mblock_of g t)) in *. set (Mt := nthM maps t) in *.
    pose proof (map_ok_base Mt Hmapok) as HbaseT.
    assert (HbasePM : base_ok PM) by exact Hbase.
    destruct Hphi as [Hphi1 Hphi2].
    (* the variable-wise property of the edge, for every tracked variable of `before` *)
    assert (Hvar : forall x v, x < nb -> getv Mt x = Some v ->
              (In x (phi_outs pb) -> exists psi phi, In psi pb /\ phi_out psi = Some x /\ In phi pa /\ phi_out phi = Some v /\
                   (forall a', In (p, a') (ppairs (m_args phi)) -> exists a, In (p, a) (ppairs (m_args psi)) /\ arg_ok nb PM a a' = true) /\
                   ((forall a', ~ In (p, a') (ppairs (m_args phi))) -> (forall a, ~ In (p, a) (ppairs (m_args psi))) /\ getv PM x = Some v)) /\
              (~ In x (phi_outs pb) -> exists u, getv PM x = Some u /\ ca' v = ca u)).
    { intros x v Hx Hxv.
      destruct (in_dec N.eq_dec x (versioned C ++ phi_outs pb ++ map (get B) (phi_outs pa))) as [Hin|Hnin].
      - specialize (He x Hin). apply andb_true_iff in He. destruct He as [_ He]. unfold edge_var_ok in He.
        fold pb pa Mt in He. rewrite Hxv in He.
        destruct (find_phi pa v) as [phi|] eqn:Efa.
        + apply find_phi_some in Efa. destruct Efa as [Hphi_in Hphi_out].
          destruct (find_phi pb x) as [psi|] eqn:Efb.
          * apply find_phi_some in Efb. destruct Efb as [Hpsi_in Hpsi_out].
            apply andb_true_iff in He. destruct He as [Hf2 Hex]. split.
            -- intros _. exists psi, phi. split; [assumption|]. split; [assumption|]. split; [assumption|]. split; [assumption|]. split.
               ++ intros a' Ha'. destruct (forall2b_in_r _ _ _ _ Hf2 Ha') as ([q a] & Hq & Hqa). cbn [fst snd] in Hqa.
                  apply andb_true_iff in Hqa. destruct Hqa as [Hl Harg]. apply N.eqb_eq in Hl. subst q. rewrite N.eqb_refl in Harg.
                  exists a. auto.
               ++ intros Hnone. split.
                  ** intros a Ha0. destruct (forall2b_in_l _ _ _ _ Hf2 Ha0) as ([q a'] & Hq & Hqa). cbn [fst snd] in Hqa.
                     apply andb_true_iff in Hqa. destruct Hqa as [Hl _]. apply N.eqb_eq in Hl. subst q. exact (Hnone a' Hq).
                  ** apply orb_true_iff in Hex. destruct Hex as [Hex|Hex].
                     --- apply existsb_exists in Hex. destruct Hex as ([q a'] & Hq & Hl). cbn [fst] in Hl. apply N.eqb_eq in Hl. subst q.
                         exfalso. exact (Hnone a' Hq).
                     --- destruct (getv PM x) as [u|]; [|discriminate]. apply N.eqb_eq in Hex. subst u. reflexivity.
            -- intros Hno. exfalso. apply Hno. eapply phi_out_in; eauto.
          * apply andb_true_iff in He. destruct He as [Hall Hex]. rewrite forallb_forall in Hall. split.
            -- intros Hin'. exfalso. exact (find_phi_none pb x Hsb Efb Hin').
            -- intros _. destruct (Hphi2 phi v Hphi_in Hphi_out) as [(a' & Ha' & Hc') | (Hnone & Hc')].
               ++ specialize (Hall _ Ha'). cbn [fst snd] in Hall. rewrite N.eqb_refl in Hall.
                  destruct a' as [| a'' |]; try discriminate. destruct (getv PM x) as [u|] eqn:Eu; [|discriminate].
                  apply N.eqb_eq in Hall. subst a''. exists u. split; [reflexivity | exact Hc'].
               ++ apply orb_true_iff in Hex. destruct Hex as [Hex|Hex].
                  ** apply existsb_exists in Hex. destruct Hex as ([q a'] & Hq & Hl). cbn [fst] in Hl. apply N.eqb_eq in Hl. subst q.
                     exfalso. exact (Hnone a' Hq).
                  ** destruct (getv PM x) as [u|]; [|discriminate]. apply N.eqb_eq in Hex. subst u. exists v. split; [reflexivity | exact Hc'].
        + destruct (find_phi pb x) eqn:Efb; [discriminate|]. destruct (getv PM x) as [u|] eqn:Eu; [|discriminate].
          apply N.eqb_eq in He. subst u. split.
          * intros Hin'. exfalso. exact (find_phi_none pb x Hsb Efb Hin').
          * intros _. exists v. split; [reflexivity|]. apply Hphi1. exact (find_phi_none pa v Hsa Efa).
      - assert (H1 : ~ In x (versioned C)) by (intros H'; apply Hnin; apply in_or_app; left; exact H').
        assert (H2 : ~ In x (phi_outs pb)) by (intros H'; apply Hnin; apply in_or_app; right; apply in_or_app; left; exact H').
        assert (H3 : ~ In x (phi_outs pa)).
        { intros H'. apply Hnin. apply in_or_app; right; apply in_or_app; right. apply in_map_iff. exists x. split; [apply B_id; exact Hx | exact H']. }
        split; [intros H'; contradiction|]. intros _.
        rewrite (unversioned_id Mt x HbaseT Hx H1) in Hxv. inversion Hxv; subst v.
        exists x. split; [apply (unversioned_id PM x HbasePM Hx H1) | apply Hphi1; exact H3]. }
    (* the matching state of `before` *)
    set (cb' := fun x => if mem x (phi_outs pb) then match getv Mt x with Some v => ca' v | None => cb x end else cb x).
    exists (mkS world t 0%nat cb' w tr). split.
    + assert (Hkb' : kb = length (mbody (mblock_of f p))).
      { clear - Hrb Hkb. (* a state never runs past the end of its block *)
        assert (G : forall s, mreach world sem tgt f c0 w0 s -> (s_pos s <= length (mbody (mblock_of f (s_blk s))))%nat).
        { induction 1 as [|b0 k0 c1 w1 tr1 i1 w2 vs1 Hr1 IH1 Hn1 Hs1 Hl1|]; cbn [s_pos s_blk] in *; [lia | | lia].
          assert ((k0 < length (mbody (mblock_of f b0)))%nat) by (apply nth_error_Some; rewrite Hn1; discriminate). lia. }
        specialize (G _ Hrb). cbn in G. lia. }
      subst kb.
      eapply (mr_jump world sem tgt f c0 w0 p cb w tr Tb t cb' Hrb ETb).
      * rewrite Hlabs. exact Ht.
      * rewrite Eop, Hvals. exact Htgt.
      * split.
        -- intros y Hy. unfold cb'. destruct (mem y (phi_outs pb)) eqn:E; [apply mem_spec in E; contradiction | reflexivity].
        -- intros psi x Hpsi Hout.
           assert (Hxin : In x (phi_outs pb)) by (eapply phi_out_in; eauto).
           assert (Hxlt : x < nb /\ exists v, getv Mt x = Some v).
           { rewrite forallb_forall in Hpb_lt. specialize (Hpb_lt x Hxin). apply andb_true_iff in Hpb_lt. destruct Hpb_lt as [H1 H2].
             apply N.ltb_lt in H1. split; [exact H1|]. destruct (getv Mt x) as [v|]; [eauto | discriminate]. }
           destruct Hxlt as [Hxlt [v Hxv]].
           destruct (Hvar x v Hxlt Hxv) as [Hv1 _]. destruct (Hv1 Hxin) as (psi' & phi & Hpsi' & Hout' & Hphi_in & Hphi_out & Hpairs & Hnopair).
           assert (psi' = psi).
           { pose proof (find_phi_unique pb Hsb psi x Hpsi Hout) as U1. pose proof (find_phi_unique pb Hsb psi' x Hpsi' Hout') as U2. congruence. }
           subst psi'. destruct (Hphi2 phi _ Hphi_in Hphi_out) as [(a' & Ha' & Hc') | (Hnone & Hc')].
           ++ left. destruct (Hpairs a' Ha') as (a & Hain & Harg). exists a. split; [exact Hain|].
              unfold cb'. apply mem_spec in Hxin. rewrite Hxin, Hxv. rewrite Hc'. symmetry. eapply arg_val; eauto.
           ++ right. destruct (Hnopair Hnone) as [Hn2 Hpm]. split; [exact Hn2|].
              unfold cb'. apply mem_spec in Hxin. rewrite Hxin, Hxv. rewrite Hc'. symmetry. apply (Hrel x v Hxlt Hpm).
    + unfold sim; cbn [s_blk s_pos s_env s_world s_trace]. repeat split; try reflexivity. exists Mt. split; [|split; [exact HbaseT|]].
      * destruct (end_map f g C t) as [PMt|] eqn:Eet; [|discriminate]. exists PMt. split; [exact Eet|]. cbn [skipn].
        unfold end_map in Eet. exact Eet.
      * intros x v Hx Hxv. unfold cb'. destruct (mem x (phi_outs pb)) eqn:E; [rewrite Hxv; reflexivity|].
        destruct (Hvar x v Hx Hxv) as [_ Hv2]. destruct Hv2 as (u & Hu & Hcu); [intros Hin; apply mem_spec in Hin; congruence|].
        rewrite Hcu. apply Hrel; assumption.
Qed.
End Sound.
