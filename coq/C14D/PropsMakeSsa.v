(* C14 (MakeSSA, value preservation): property theorem.  Proof in MakeSsaProofs.v. *)
From Coq Require Import ZArith NArith List Bool Lia.
From Verif Require Import C14D.MakeSsa C14D.MakeSsaProofs.
Import ListNotations.
Open Scope N_scope.

(* For ANY semantics of the (opaque) instructions and of branching -- only `assign` is required to be a copy -- an
   accepted certificate makes `after` a refinement of `before`: every execution of the function after MakeSSA is
   matched, state by state, by an execution of the function before it, in the same block, with the same world
   (memory, storage, ...), the same sequence of observable events (opcode, operand values, results), and with every
   tracked variable x of `before` equal to its current version `getv M x` in `after`. *)
Theorem C14D_makessa_check_sound :
  forall (world : Type) (sem : N -> world -> list Z -> world -> list Z -> Prop) (tgt : N -> world -> list Z -> N -> Prop),
  (forall w v w' vs, sem OP_ASSIGN w [v] w' vs -> w' = w /\ vs = [v]) ->
  forall f g c, makessa_check f g c = true ->
  forall c0 w0 sa, mreach world sem tgt g c0 w0 sa ->
  exists sb, mreach world sem tgt f c0 w0 sb /\
    s_blk sb = s_blk sa /\ s_world sb = s_world sa /\ s_trace sb = s_trace sa /\
    exists M, forall x v, x < c_nb c -> getv M x = Some v -> s_env sb x = s_env sa v.
Proof.
  intros world sem tgt Hassign f g [nb B maps extra] Hchk c0 w0 sa Hr.
  assert (HB : forall y v, In (y, v) B -> nb <= y /\ v < nb).
  { pose proof Hchk as H. unfold makessa_check in H. cbv zeta in H.
    repeat (apply andb_true_iff in H; destruct H as [H ?]).
    match goal with H' : forallb _ (c_base _) = true |- _ => rename H' into HBk end.
    cbn [c_base c_nb] in HBk. rewrite forallb_forall in HBk. intros y v Hin. specialize (HBk _ Hin). cbn [fst snd] in HBk.
    apply andb_true_iff in HBk. destruct HBk as [Hk1 Hk2]. apply N.leb_le in Hk1. apply N.ltb_lt in Hk2. auto. }
  destruct (makessa_sim world sem tgt Hassign nb B HB f g maps extra Hchk c0 w0 sa Hr) as (sb & Hrb & Hb & Hw & Ht & M & _ & _ & Hrel).
  exists sb. split; [exact Hrb|]. split; [exact Hb|]. split; [exact Hw|]. split; [exact Ht|]. exists M. exact Hrel.
Qed.
Print Assumptions C14D_makessa_check_sound.

(* non-vacuity: the diamond
     before   0: %0 = ..; jnz %0, 1, 2     1: %1 = op3 ; jmp 3     2: %1 = op4 ; jmp 3     3: use %1 ; stop
     after    0: same                       1: %2 = op3 ; jmp 3     2: %1 = op4 ; jmp 3     3: %3 = phi 1 %2, 2 %1 ; use %3 ; stop
   (variables 0,1 are `before` variables; 2 and 3 are new versions of 1) *)
Definition ex_before : mfunc :=
  [ [mkM 9 [] [0]; mkM 5 [MVar 0; MLab 1; MLab 2] []];
    [mkM 3 [] [1]; mkM 6 [MLab 3] []];
    [mkM 4 [] [1]; mkM 6 [MLab 3] []];
    [mkM 7 [MVar 1] []; mkM 8 [] []] ].
Definition ex_after : mfunc :=
  [ [mkM 9 [] [0]; mkM 5 [MVar 0; MLab 1; MLab 2] []];
    [mkM 3 [] [2]; mkM 6 [MLab 3] []];
    [mkM 4 [] [1]; mkM 6 [MLab 3] []];
    [mkM 0 [MLab 1; MVar 2; MLab 2; MVar 1] [3]; mkM 7 [MVar 3] []; mkM 8 [] []] ].
Definition ex_cert : cert :=
  mkC 2 [(2, 1); (3, 1)] [[]; []; []; [(1, Some 3)]] [[0; 0]; [0; 0]; [0; 0]; [0; 0]].
Example C14D_makessa_nonvacuous :
  makessa_check ex_before ex_after ex_cert = true /\
  (* a phi operand taken from the wrong predecessor is rejected *)
  makessa_check ex_before
    (firstn 3 ex_after ++ [[mkM 0 [MLab 1; MVar 1; MLab 2; MVar 2] [3]; mkM 7 [MVar 3] []; mkM 8 [] []]]) ex_cert = false /\
  (* so is a use renamed to a stale version *)
  makessa_check ex_before
    (firstn 3 ex_after ++ [[mkM 0 [MLab 1; MVar 2; MLab 2; MVar 1] [3]; mkM 7 [MVar 2] []; mkM 8 [] []]]) ex_cert = false.
Proof. repeat split; vm_compute; reflexivity. Qed.
