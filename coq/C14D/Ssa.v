(* C14D: validator for SSA form (what MakeSSA establishes and the later passes rely on) and the definedness
   semantics its theorem is about.  No proofs here. *)
From Coq Require Import NArith List Bool.
From Verif Require Import C14D.Dom.
Import ListNotations.
Open Scope N_scope.

Fixpoint leading_phis (b : block) : list inst :=
  match b with ins :: t => if i_phi ins then ins :: leading_phis t else [] | [] => [] end.
Fixpoint body (b : block) : list inst :=
  match b with ins :: t => if i_phi ins then body t else b | [] => [] end.
Definition nphis (b : block) : nat := length (leading_phis b).
(* phi operands: label, value, label, value, ...; a value is a variable or a literal *)
Fixpoint phi_pairs (l : list operand) : list (N * option N) :=
  match l with
  | OLab p :: OVar v :: t => (p, Some v) :: phi_pairs t
  | OLab p :: OLit :: t => (p, None) :: phi_pairs t
  | _ => []
  end.
Definition shape_ok (b : block) : bool :=
  forallb (fun ins => negb (i_phi ins)) (body b) &&
  forallb (fun ins => Nat.eqb (length (i_args ins)) (2 * length (phi_pairs (i_args ins)))) (leading_phis b).

Fixpoint enum_nat {A} (k : nat) (l : list A) : list (nat * A) :=
  match l with [] => [] | x :: t => (k, x) :: enum_nat (S k) t end.
(* definition sites: variable |-> (block, index) *)
Definition defs (f : func) : list (N * (N * nat)) :=
  flat_map (fun bb => flat_map (fun ki => map (fun x => (x, (fst bb, fst ki))) (i_outs (snd ki)))
                               (enum_nat 0 (snd bb))) (enum_from 0 f).
Fixpoint find_def (T : list (N * (N * nat))) (x : N) : option (N * nat) :=
  match T with [] => None | (y, s) :: t => if N.eqb x y then Some s else find_def t x end.
Fixpoint nodupN (l : list N) : bool := match l with [] => true | x :: t => negb (memN x t) && nodupN t end.

(* every variable has one definition *)
Definition single_def_check (f : func) : bool := nodupN (map fst (defs f)).

(* every use is dominated by a definition: same block and earlier, or a block that strictly dominates;
   a phi operand for predecessor p: a block that dominates p (p itself included: the value is read when p is left) *)
Definition use_ok (T : list (N * (N * nat))) (D : list (list N)) (b : N) (k : nat) (x : N) : bool :=
  match find_def T x with
  | Some (b', k') => if N.eqb b' b then Nat.ltb k' k else memN b' (nthL D b)
  | None => false
  end.
Definition phi_val_ok (T : list (N * (N * nat))) (D : list (list N)) (p : N) (v : option N) : bool :=
  match v with
  | None => true
  | Some x => match find_def T x with Some (b', _) => memN b' (nthL D p) | None => false end
  end.
Definition inst_ok (P : list N) (T : list (N * (N * nat))) (D : list (list N)) (b : N) (k : nat) (ins : inst) : bool :=
  if i_phi ins then
    let pairs := phi_pairs (i_args ins) in
    (* an operand for every predecessor; MakeSSA drops the operand `x = phi(.., p: x)`: then the phi keeps its
       value on that edge, so the block itself must dominate p *)
    forallb (fun p => if existsb (fun pv => N.eqb (fst pv) p) pairs
                      then forallb (fun pv => if N.eqb (fst pv) p then phi_val_ok T D p (snd pv) else true) pairs
                      else memN b (nthL D p))
            P
  else forallb (use_ok T D b k) (vars_of (i_args ins)).
Definition ssa_check (f : func) (R : list N) (D : list (list N)) : bool :=
  let T := defs f in
  match leading_phis (nth_block f 0) with [] => true | _ => false end &&
  forallb (fun b => let P := preds f R b in
                    shape_ok (nth_block f b) &&
                    forallb (fun ki => inst_ok P T D b (fst ki) (snd ki)) (enum_nat 0 (nth_block f b))) R.

(* ---------------- definedness semantics ---------------- *)
(* reach f b k S: control is in block b, its first k instructions (the leading phis count) have been executed and S
   is the set of variables assigned so far.  Phis of a block are executed together when the block is entered. *)
Inductive reach (f : func) : N -> nat -> list N -> Prop :=
| r_init : reach f 0 0%nat []
| r_step b k S ins : reach f b k S -> nth_error (nth_block f b) k = Some ins -> i_phi ins = false ->
    reach f b (Datatypes.S k) (i_outs ins ++ S)
| r_jump p S b : reach f p (length (nth_block f p)) S -> In b (succs f p) ->
    reach f b (nphis (nth_block f b)) (flat_map i_outs (leading_phis (nth_block f b)) ++ S).

(* nothing undefined is read at this point *)
Definition reads_ok (f : func) (b : N) (k : nat) (S : list N) : Prop :=
  match nth_error (nth_block f b) k with
  | Some ins => i_phi ins = false -> forall x, In x (vars_of (i_args ins)) -> In x S
  | None =>   (* the block is finished: whichever successor is taken, its phis read the operand for b *)
      forall b', In b' (succs f b) -> forall ins, In ins (leading_phis (nth_block f b')) ->
      (exists v, In (b, v) (phi_pairs (i_args ins)) /\ forall x, v = Some x -> In x S) \/
      ((forall v, ~ In (b, v) (phi_pairs (i_args ins))) /\ forall y, In y (i_outs ins) -> In y S)
  end.
