(* C14D: verified validator for the VALUE PRESERVATION of MakeSSA (vyper/venom/passes/make_ssa.py).
   Input: the function before the pass (variables assigned several times), the function after it (versioned
   variables, phis inserted / inserted phis degenerated to `assign`), and an untrusted certificate: the base variable
   of every new variable, for every block the map  base variable |-> current version  that holds after the block's
   phis, and for every instruction of the new body whether it is an inserted `assign`.
   `makessa_check` re-derives the renaming instruction by instruction and edge by edge.  No proofs in this file.

   Semantics: instructions are OPAQUE -- `sem op w vals w' outs` is an arbitrary relation between opcode, world state
   (memory, storage, ...), operand values, new world state and output values; `tgt op w vals t` an arbitrary choice of
   the branch target among the label operands of the terminator.  Only `assign` is interpreted (copy), phis are
   executed together when a block is entered. *)
From Coq Require Import ZArith NArith List Bool.
Import ListNotations.
Open Scope N_scope.

Inductive moperand : Set := MLit (z : Z) | MVar (x : N) | MLab (l : N).
Record minst : Set := mkM { m_op : N; m_args : list moperand; m_outs : list N }.
Definition OP_PHI : N := 0.
Definition OP_ASSIGN : N := 1.
Definition mblock := list minst.
Definition mfunc := list mblock.

Definition is_phi (i : minst) : bool := N.eqb (m_op i) OP_PHI.
Fixpoint mphis (b : mblock) : list minst :=
  match b with i :: t => if is_phi i then i :: mphis t else [] | [] => [] end.
Fixpoint mbody (b : mblock) : list minst :=
  match b with i :: t => if is_phi i then mbody t else b | [] => [] end.
Definition mblock_of (f : mfunc) (b : N) : mblock := nth (N.to_nat b) f [].
Definition mlabels (l : list moperand) : list N := flat_map (fun o => match o with MLab x => [x] | _ => [] end) l.
Definition mterm (b : mblock) : option minst := match rev (mbody b) with i :: _ => Some i | [] => None end.
Definition msuccs (f : mfunc) (b : N) : list N := match mterm (mblock_of f b) with Some T => mlabels (m_args T) | None => [] end.
Fixpoint ppairs (l : list moperand) : list (N * moperand) :=
  match l with MLab p :: a :: t => (p, a) :: ppairs t | _ => [] end.

(* ---------------- maps ---------------- *)
Definition amap := list (N * N).
Fixpoint assoc (x : N) (M : amap) : option N :=
  match M with [] => None | (y, v) :: t => if N.eqb x y then Some v else assoc x t end.
Definition get (M : amap) (x : N) : N := match assoc x M with Some v => v | None => x end.
(* version maps: base |-> Some current version | None (not tracked: the versions reaching this point differ and the
   variable is dead); a base variable without entry is its own current version *)
Definition vmap := list (N * option N).
Fixpoint vassoc (x : N) (M : vmap) : option (option N) :=
  match M with [] => None | (y, v) :: t => if N.eqb x y then Some v else vassoc x t end.
Definition getv (M : vmap) (x : N) : option N := match vassoc x M with Some o => o | None => Some x end.
Definition upd (M : vmap) (x y : N) : vmap := (x, Some y) :: M.

Fixpoint mem (x : N) (l : list N) : bool := match l with [] => false | y :: t => N.eqb x y || mem x t end.
Fixpoint nodup (l : list N) : bool := match l with [] => true | x :: t => negb (mem x t) && nodup t end.
Fixpoint forall2b {A B} (f : A -> B -> bool) (a : list A) (b : list B) : bool :=
  match a, b with [] , [] => true | x :: ta, y :: tb => f x y && forall2b f ta tb | _, _ => false end.

Record cert : Type := mkC {
  c_nb : N;                       (* variables < nb are the variables of `before` (the same ids in `after`) *)
  c_base : amap;                  (* new variable |-> base variable (identity elsewhere) *)
  c_maps : list vmap;             (* per block: base |-> current version after the phis *)
  c_extra : list (list N)         (* per block, per instruction of the new body: 0 = instruction of `before`, renamed;
                                     1 = inserted assign that becomes the current version; 2 = inserted dead assign *)
}.

(* ---------------- instruction-by-instruction ---------------- *)
Definition arg_ok (nb : N) (M : vmap) (a b : moperand) : bool :=
  match a, b with
  | MLit z, MLit z' => Z.eqb z z'
  | MLab l, MLab l' => N.eqb l l'
  | MVar x, MVar v => (x <? nb) && match getv M x with Some u => N.eqb v u | None => false end
  | _, _ => false
  end.
Definition out_ok (nb : N) (B : amap) (x y : N) : bool := (x <? nb) && N.eqb (get B y) x.
Definition pair_ok (nb : N) (B : amap) (M : vmap) (ib ia : minst) : bool :=
  N.eqb (m_op ib) (m_op ia) && negb (is_phi ib) &&
  forall2b (arg_ok nb M) (m_args ib) (m_args ia) &&
  forall2b (out_ok nb B) (m_outs ib) (m_outs ia) && nodup (m_outs ib).
Fixpoint upd_all (M : vmap) (xs ys : list N) : vmap :=
  match xs, ys with x :: tx, y :: ty => upd_all (upd M x y) tx ty | _, _ => M end.

(* walk the two bodies; the result is the map at the end of the block *)
Definition is_cur (M : vmap) (x y : N) : bool := match getv M x with Some u => N.eqb u y | None => false end.
Fixpoint walk (nb : N) (B : amap) (M : vmap) (bb ba : list minst) (fl : list N) : option vmap :=
  match ba, fl with
  | [], [] => match bb with [] => Some M | _ => None end
  | ia :: ta, k :: tf =>
      if N.eqb k 1 then          (* y = assign v, v the current version of base(y): y becomes the current version *)
        if N.eqb (m_op ia) OP_ASSIGN then
          match m_args ia, m_outs ia with
          | [MVar v], [y] =>
              let x := get B y in
              if (x <? nb) && is_cur M x v then walk nb B (upd M x y) bb ta tf else None
          | _, _ => None
          end
        else None
      else if N.eqb k 2 then     (* y = assign _, y is not the current version of anything: a dead copy *)
        if N.eqb (m_op ia) OP_ASSIGN then
          match m_args ia, m_outs ia with
          | [_], [y] =>
              let x := get B y in
              if (nb <=? x) || negb (is_cur M x y) then walk nb B M bb ta tf else None
          | _, _ => None
          end
        else None
      else
        match bb with
        | ib :: tb => if pair_ok nb B M ib ia then walk nb B (upd_all M (m_outs ib) (m_outs ia)) tb ta tf else None
        | [] => None
        end
  | _, _ => None
  end.

Definition nthM (l : list vmap) (b : N) : vmap := nth (N.to_nat b) l [].
Definition nthF (l : list (list N)) (b : N) : list N := nth (N.to_nat b) l [].
Definition end_map (f g : mfunc) (c : cert) (b : N) : option vmap :=
  walk (c_nb c) (c_base c) (nthM (c_maps c) b) (mbody (mblock_of f b)) (mbody (mblock_of g b)) (nthF (c_extra c) b).

(* ---------------- edges ---------------- *)
Definition phi_out (i : minst) : option N := match m_outs i with [y] => Some y | _ => None end.
Definition find_phi (phis : list minst) (y : N) : option minst :=
  find (fun i => match phi_out i with Some o => N.eqb o y | None => false end) phis.
Definition phi_outs (phis : list minst) : list N := flat_map m_outs phis.

(* for base variable x on the edge p -> b, PM = map at the end of p *)
Definition edge_var_ok (nb : N) (PM Mb : vmap) (pb pa : list minst) (p x : N) : bool :=
  match getv Mb x with
  | None => true            (* not tracked after the phis: nothing is claimed *)
  | Some v =>
  match find_phi pa v with
  | Some phi =>
      match find_phi pb x with
      | Some psi =>        (* a phi of `before`, renamed *)
          forall2b (fun qb qa => N.eqb (fst qb) (fst qa) &&
                                 (if N.eqb (fst qb) p then arg_ok nb PM (snd qb) (snd qa) else true))
                   (ppairs (m_args psi)) (ppairs (m_args phi)) &&
          (existsb (fun qa => N.eqb (fst qa) p) (ppairs (m_args phi)) ||
           match getv PM x with Some u => N.eqb u v | None => false end)
      | None =>            (* an inserted phi for x: reads the version current at the end of p *)
          forallb (fun qa => if N.eqb (fst qa) p then
                               match snd qa, getv PM x with MVar a, Some u => N.eqb a u | _, _ => false end else true)
                  (ppairs (m_args phi)) &&
          (existsb (fun qa => N.eqb (fst qa) p) (ppairs (m_args phi)) ||
           match getv PM x with Some u => N.eqb u v | None => false end)
      end
  | None =>                (* no phi: every predecessor ends with the same version *)
      match find_phi pb x, getv PM x with None, Some u => N.eqb u v | _, _ => false end
  end
  end.

Definition phis_shape_ok (phis : list minst) : bool :=
  forallb (fun i => match phi_out i with Some _ => true | None => false end &&
                    Nat.eqb (length (m_args i)) (2 * length (ppairs (m_args i)))) phis &&
  nodup (phi_outs phis).
Definition body_shape_ok (b : mblock) : bool := forallb (fun i => negb (is_phi i)) (mbody b).

Definition map_ok (nb : N) (B : amap) (K : list N) (M : vmap) : bool :=
  forallb (fun xv => (fst xv <? nb) &&
                     match snd xv with Some v => N.eqb (get B v) (fst xv) | None => mem (fst xv) K end) M.

(* the base variables that can have a non-identity version anywhere *)
Definition versioned (c : cert) : list N := map snd (c_base c).

Definition block_check (f g : mfunc) (c : cert) (K : list N) (b : N) : bool :=
  let nb := c_nb c in
  let pb := mphis (mblock_of f b) in
  let pa := mphis (mblock_of g b) in
  let Mb := nthM (c_maps c) b in
  body_shape_ok (mblock_of f b) && body_shape_ok (mblock_of g b) &&
  phis_shape_ok pb && phis_shape_ok pa &&
  map_ok nb (c_base c) K Mb &&
  forallb (fun x => (x <? nb) && match getv Mb x with Some _ => true | None => false end) (phi_outs pb) &&
  (* every phi of `after` defines the current version of its base *)
  forallb (fun y => let x := get (c_base c) y in (x <? nb) && match getv Mb x with Some u => N.eqb u y | None => false end) (phi_outs pa) &&
  match end_map f g c b with
  | Some PM =>
      (* a terminator with label operands is paired with the terminator of `before` (w.r.t. the end map) *)
      match mterm (mblock_of g b) with
      | Some Ta => match mlabels (m_args Ta) with
                   | [] => true
                   | _ => match mterm (mblock_of f b) with
                          | Some Tb => pair_ok nb (c_base c) PM Tb Ta && match m_outs Ta with [] => true | _ => false end
                          | None => false
                          end
                   end
      | None => true
      end
  | None => false
  end.

Definition edge_check (f g : mfunc) (c : cert) (K : list N) (p : N) : bool :=
  match end_map f g c p with
  | None => false
  | Some PM =>
      forallb (fun b =>
        (b <? N.of_nat (length g)) &&
        let pb := mphis (mblock_of f b) in
        let pa := mphis (mblock_of g b) in
        let Mb := nthM (c_maps c) b in
        forallb (fun x => (x <? c_nb c) && edge_var_ok (c_nb c) PM Mb pb pa p x)
                (K ++ phi_outs pb ++ map (get (c_base c)) (phi_outs pa))) (msuccs g p)
  end.

Definition blocks (g : mfunc) : list N := map N.of_nat (seq 0 (length g)).

Definition makessa_check (f g : mfunc) (c : cert) : bool :=
  let K := versioned c in
  Nat.eqb (length f) (length g) && negb (Nat.eqb (length g) 0) &&
  (* the base table only renames new variables, to variables of `before` *)
  forallb (fun yv => (c_nb c <=? fst yv) && (snd yv <? c_nb c)) (c_base c) &&
  (* the entry block starts with the identity map and has no phis *)
  match nthM (c_maps c) 0 with [] => true | _ => false end &&
  match mphis (mblock_of f 0), mphis (mblock_of g 0) with [], [] => true | _, _ => false end &&
  forallb (block_check f g c K) (blocks g) &&
  forallb (edge_check f g c K) (blocks g).

(* ---------------- semantics (the same for `before` and `after`) ---------------- *)
Section Sem.
Variable world : Type. (*section*)
Variable sem : N -> world -> list Z -> world -> list Z -> Prop. (*section*)
Variable tgt : N -> world -> list Z -> N -> Prop. (*section*)

Definition menv := N -> Z.
Definition oval (c : menv) (o : moperand) : Z :=
  match o with MLit z => z | MVar x => c x | MLab l => Z.of_N l end.
Fixpoint set_all (c : menv) (xs : list N) (vs : list Z) : menv :=
  match xs, vs with
  | x :: tx, v :: tv => set_all (fun y => if N.eqb y x then v else c y) tx tv
  | _, _ => c
  end.

(* the phis of a block, executed together when it is entered from p; a phi without operand for p keeps the value of
   its output (MakeSSA drops the operands `x = phi(.., x)` of back edges) *)
Definition phi_step (phis : list minst) (p : N) (c c' : menv) : Prop :=
  (forall y, ~ In y (phi_outs phis) -> c' y = c y) /\
  (forall i y, In i phis -> phi_out i = Some y ->
     (exists a, In (p, a) (ppairs (m_args i)) /\ c' y = oval c a) \/
     ((forall a, ~ In (p, a) (ppairs (m_args i))) /\ c' y = c y)).

(* observable event of an executed instruction: opcode, operand values, output values (assign is a silent copy) *)
Definition event := (N * list Z * list Z)%type.
Definition emit (tr : list event) (op : N) (vals outs : list Z) : list event :=
  if N.eqb op OP_ASSIGN then tr else (op, vals, outs) :: tr.
Record mstate : Type := mkS { s_blk : N; s_pos : nat; s_env : menv; s_world : world; s_trace : list event }.

(* mreach F c0 w0 s : s is reachable in F from the entry block with initial variable values c0 and world w0;
   s_pos counts executed body (non-phi) instructions *)
Inductive mreach (F : mfunc) (c0 : menv) (w0 : world) : mstate -> Prop :=
| mr_init : mreach F c0 w0 (mkS 0 0%nat c0 w0 [])
| mr_step b k c w tr i w' vs : mreach F c0 w0 (mkS b k c w tr) ->
    nth_error (mbody (mblock_of F b)) k = Some i ->
    sem (m_op i) w (map (oval c) (m_args i)) w' vs -> length vs = length (m_outs i) ->
    mreach F c0 w0 (mkS b (S k) (set_all c (m_outs i) vs) w' (emit tr (m_op i) (map (oval c) (m_args i)) vs))
| mr_jump p c w tr T t c' : mreach F c0 w0 (mkS p (length (mbody (mblock_of F p))) c w tr) ->
    mterm (mblock_of F p) = Some T -> In t (mlabels (m_args T)) ->
    tgt (m_op T) w (map (oval c) (m_args T)) t ->
    phi_step (mphis (mblock_of F t)) p c c' ->
    mreach F c0 w0 (mkS t 0%nat c' w tr).
End Sem.
Arguments s_blk {world}.
Arguments s_pos {world}.
Arguments s_env {world}.
Arguments s_world {world}.
Arguments s_trace {world}.
