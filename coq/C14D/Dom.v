(* C14D: verified validators for the control-flow analyses other Venom passes trust
   (vyper/venom/analysis/cfg.py, dominators.py, dfg.py) and for SSA form after MakeSSA.
   This file: syntax, CFG model, the checkers.  No proofs here.

   A function is a list of basic blocks; a block label is its index, the entry block is 0.  The CFG is the one
   the terminators define: the successors of a block are the label operands of its last instruction
   (IRBasicBlock.out_bbs).  It is tied to the real CFGAnalysis by `cfg_check` (exact set equality with
   cfg_in / cfg_out / reachable). *)
From Coq Require Import NArith List Bool.
Import ListNotations.
Open Scope N_scope.

Inductive operand : Set := OLit | OVar (x : N) | OLab (l : N).
Record inst : Set := mkI { i_phi : bool; i_args : list operand; i_outs : list N }.
Definition block := list inst.
Definition func := list block.

Definition nth_block (f : func) (b : N) : block := nth (N.to_nat b) f [].
Definition nblocks (f : func) : N := N.of_nat (length f).
Definition labels_of (l : list operand) : list N :=
  flat_map (fun o => match o with OLab x => [x] | _ => [] end) l.
Definition vars_of (l : list operand) : list N :=
  flat_map (fun o => match o with OVar x => [x] | _ => [] end) l.
Definition term_of (b : block) : option inst := match rev b with ins :: _ => Some ins | [] => None end.
Definition succs (f : func) (b : N) : list N :=
  match term_of (nth_block f b) with Some T => labels_of (i_args T) | None => [] end.

Fixpoint memN (x : N) (l : list N) : bool := match l with [] => false | y :: t => N.eqb x y || memN x t end.
Definition subsetN (a b : list N) : bool := forallb (fun x => memN x b) a.
Definition seteqN (a b : list N) : bool := subsetN a b && subsetN b a.
Definition nthL (D : list (list N)) (b : N) : list N := nth (N.to_nat b) D [].
Definition blocks_of (f : func) : list N := map N.of_nat (seq 0 (length f)).
Definition preds (f : func) (R : list N) (b : N) : list N := filter (fun p => memN b (succs f p)) R.

(* ---------------- CFGAnalysis: cfg_out / cfg_in / reachable ---------------- *)
Definition cfg_check (f : func) (cout cin : list (list N)) (R : list N) : bool :=
  forallb (fun b => seteqN (succs f b) (nthL cout b) &&
                    seteqN (preds f (blocks_of f) b) (nthL cin b)) (blocks_of f).

(* ---------------- search: blocks reachable from the entry without entering `ban` ---------------- *)
Definition is_ban (ban : option N) (x : N) : bool := match ban with Some d => N.eqb x d | None => false end.
(* su = table of successor lists (computed once), n = number of blocks *)
Definition succ_table (f : func) : list (list N) := map (succs f) (blocks_of f).
Fixpoint dfs (fuel : nat) (su : list (list N)) (n : N) (ban : option N) (stack visited : list N) : list N :=
  match fuel with
  | O => visited
  | S fuel' =>
    match stack with
    | [] => visited
    | x :: st =>
      if memN x visited || is_ban ban x || negb (x <? n) then dfs fuel' su n ban st visited
      else dfs fuel' su n ban (nthL su x ++ st) (x :: visited)
    end
  end.
Definition search_t (su : list (list N)) (n : N) (ban : option N) : list N :=
  dfs (S (length su + length (concat su))) su n ban [0] [].
Definition search (f : func) (ban : option N) : list N := search_t (succ_table f) (nblocks f) ban.

(* ---------------- DominatorTreeAnalysis.dominators ---------------- *)
(* R = the blocks the analysis knows (cfg_post_walk), D b = dominators[b] *)
Definition closed (f : func) (R : list N) : bool :=
  memN 0 R && (0 <? nblocks f) && forallb (fun p => forallb (fun b => memN b R && (b <? nblocks f)) (succs f p)) R.
(* soundness condition: D entry <= {entry};  D b <= D p + {b} on every edge p -> b *)
Definition dom_check (f : func) (R : list N) (D : list (list N)) : bool :=
  closed f R &&
  forallb (fun d => N.eqb d 0) (nthL D 0) &&
  forallb (fun p => forallb (fun b => forallb (fun d => N.eqb d b || memN d (nthL D p)) (nthL D b)) (succs f p)) R.
(* completeness condition: every block of R is really reachable, and whatever is not listed as a dominator of b
   can be avoided on the way to b *)
Definition dom_complete_check (f : func) (R : list N) (D : list (list N)) : bool :=
  let su := succ_table f in
  let n := nblocks f in
  let all := search_t su n None in
  forallb (fun b => memN b all) R &&
  forallb (fun d => let av := search_t su n (Some d) in
                    forallb (fun b => memN d (nthL D b) || memN b av) R) (blocks_of f).

(* ---------------- immediate dominators ---------------- *)
Definition idom_check (R : list N) (D : list (list N)) (I : list N) : bool :=
  forallb (fun b => if N.eqb b 0 then true else
                    let i := nth (N.to_nat b) I b in
                    negb (N.eqb i b) && memN i (nthL D b) &&
                    forallb (fun d => N.eqb d b || memN d (nthL D i)) (nthL D b)) R.

(* ---------------- dominance frontiers ---------------- *)
(* y in DF x  <->  x dominates a predecessor of y  and  x does not strictly dominate y *)
Definition in_df (f : func) (R : list N) (D : list (list N)) (x y : N) : bool :=
  existsb (fun p => memN x (nthL D p)) (preds f R y) && negb (memN x (nthL D y) && negb (N.eqb x y)).
Definition in_df_p (P : list N) (D : list (list N)) (x y : N) : bool :=
  existsb (fun p => memN x (nthL D p)) P && negb (memN x (nthL D y) && negb (N.eqb x y)).
Definition df_check (f : func) (R : list N) (D : list (list N)) (DF : list (list N)) : bool :=
  forallb (fun y => let P := preds f R y in
                    forallb (fun x => Bool.eqb (memN y (nthL DF x)) (in_df_p P D x y)) R) R.

(* ---------------- DFGAnalysis ---------------- *)
(* instruction sites are (block, index in the block) *)
Definition site := (N * N)%type.
Fixpoint enum_from {A} (k : N) (l : list A) : list (N * A) :=
  match l with [] => [] | x :: t => (k, x) :: enum_from (k + 1) t end.
Definition sites (f : func) : list (site * inst) :=
  flat_map (fun bb => map (fun ki => ((fst bb, fst ki), snd ki)) (enum_from 0 (snd bb))) (enum_from 0 f).
Definition site_eqb (a b : site) : bool := N.eqb (fst a) (fst b) && N.eqb (snd a) (snd b).
Definition def_sites_s (S : list (site * inst)) (x : N) : list site :=
  map fst (filter (fun si => memN x (i_outs (snd si))) S).
Definition use_sites_s (S : list (site * inst)) (x : N) : list site :=
  map fst (filter (fun si => memN x (vars_of (i_args (snd si)))) S).
Definition def_sites (f : func) (x : N) : list site := def_sites_s (sites f) x.
Definition use_sites (f : func) (x : N) : list site := use_sites_s (sites f) x.
Definition mem_site (s : site) (l : list site) : bool := existsb (site_eqb s) l.
Definition seteq_site (a b : list site) : bool :=
  forallb (fun s => mem_site s b) a && forallb (fun s => mem_site s a) b.
(* _dfg_outputs[x] = the LAST instruction (in block order) with x among its outputs; _dfg_inputs[x] = all users *)
Definition dfg_check (f : func) (vars : list N) (outs : list (N * site)) (ins : list (N * list site)) : bool :=
  let S := sites f in
  forallb (fun x =>
    (match filter (fun p => N.eqb (fst p) x) outs, rev (def_sites_s S x) with
     | [], [] => true
     | [(_, s)], last :: _ => site_eqb s last
     | _, _ => false
     end) &&
    seteq_site (flat_map snd (filter (fun p => N.eqb (fst p) x) ins)) (use_sites_s S x)) vars.
