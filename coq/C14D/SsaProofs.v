(* C14D: an accepted SSA certificate means no execution path ever reads a variable before it was assigned. *)
From Coq Require Import Arith NArith List Bool Lia.
From Verif Require Import C14D.Dom C14D.DomProofs C14D.Ssa.
Import ListNotations.
Open Scope N_scope.

Lemma enum_nat_spec {A} (l : list A) : forall k0 k x, In (k, x) (enum_nat k0 l) <-> (k0 <= k)%nat /\ nth_error l (k - k0) = Some x.
Proof.
  induction l as [|y t IH]; intros k0 k x; cbn.
  - split; [tauto|]. intros [_ H]. destruct (k - k0)%nat; discriminate.
  - rewrite IH. split.
    + intros [H|[H1 H2]].
      * inversion H; subst. split; [lia|]. rewrite Nat.sub_diag. reflexivity.
      * split; [lia|]. replace (k - k0)%nat with (S (k - S k0)) by lia. exact H2.
    + intros [H1 H2]. destruct (Nat.eq_dec k k0) as [->|Hne].
      * rewrite Nat.sub_diag in H2. cbn in H2. inversion H2. left. reflexivity.
      * right. split; [lia|]. replace (k - k0)%nat with (S (k - S k0)) in H2 by lia. exact H2.
Qed.

Lemma enum_from_spec {A} (l : list A) : forall k0 k x, In (k, x) (enum_from k0 l) -> nth_error l (N.to_nat (k - k0)) = Some x /\ k0 <= k.
Proof.
  induction l as [|y t IH]; intros k0 k x; cbn; [tauto|].
  intros [H|H].
  - inversion H; subst. rewrite N.sub_diag. split; [reflexivity | lia].
  - apply IH in H. destruct H as [H1 H2]. split; [|lia].
    replace (N.to_nat (k - k0)) with (S (N.to_nat (k - (k0 + 1)))) by lia. exact H1.
Qed.

(* a definition-table entry points at an instruction that assigns the variable *)
Lemma defs_site f x b k : In (x, (b, k)) (defs f) ->
  exists ins, nth_error (nth_block f b) k = Some ins /\ In x (i_outs ins).
Proof.
  unfold defs. rewrite in_flat_map. intros ([b0 blk] & Hb & H). cbn [fst snd] in H.
  rewrite in_flat_map in H. destruct H as ([k0 ins] & Hk & H). cbn [fst snd] in H.
  rewrite in_map_iff in H. destruct H as (y & Hy & Hin). inversion Hy; subst.
  apply enum_from_spec in Hb. destruct Hb as [Hb _]. rewrite N.sub_0_r in Hb.
  apply enum_nat_spec in Hk. destruct Hk as [_ Hk]. rewrite Nat.sub_0_r in Hk.
  exists ins. split; [|assumption]. unfold nth_block.
  rewrite (nth_error_nth _ _ _ Hb). exact Hk.
Qed.
Lemma find_def_in T x s : find_def T x = Some s -> In (x, s) T.
Proof.
  induction T as [|[y s'] t IH]; cbn; [discriminate|].
  destruct (N.eqb x y) eqn:E; [apply N.eqb_eq in E; subst; intros [= ->]; auto | auto].
Qed.

Lemma leading_phis_in b ins : In ins (leading_phis b) -> In ins b /\ i_phi ins = true.
Proof.
  induction b as [|i t IH]; cbn; [tauto|]. destruct (i_phi i) eqn:E; [|intros []].
  intros [<-|H]; [auto | destruct (IH H); auto].
Qed.
Lemma leading_phis_nth b : forall j ins, nth_error b j = Some ins -> (j < nphis b)%nat -> In ins (leading_phis b).
Proof.
  unfold nphis. induction b as [|i t IH]; intros j ins Hj Hlt; [destruct j; discriminate|].
  cbn in *. destruct (i_phi i); [|cbn in Hlt; lia]. destruct j as [|j]; cbn in *.
  - inversion Hj. left. reflexivity.
  - right. eapply IH; [exact Hj | lia].
Qed.

(* ---------- the invariant ---------- *)
Definition executed (f : func) (b : N) (k : nat) (S : list N) : Prop :=
  forall j ins, (j < k)%nat -> nth_error (nth_block f b) j = Some ins -> forall x, In x (i_outs ins) -> In x S.
Definition inv (f : func) (b : N) (k : nat) (S : list N) (l : list N) : Prop :=
  rpath f b l /\
  (forall c, In c l -> forall ins, In ins (nth_block f c) -> forall x, In x (i_outs ins) -> In x S) /\
  executed f b k S.

Lemma reach_inv f b k S : reach f b k S -> exists l, inv f b k S l.
Proof.
  induction 1 as [|b k S ins Hr IH Hn Hphi | p S b Hr IH He].
  - exists []. split; [constructor|]. split; [intros c []|]. intros j ins Hj. lia.
  - destruct IH as (l & Hp & Hl & Hx). exists l. split; [assumption|]. split.
    + intros c Hc i Hi x Hxo. apply in_or_app. right. eapply Hl; eauto.
    + intros j i Hj Hnj x Hxo. apply in_or_app. destruct (Nat.eq_dec j k) as [->|Hne].
      * rewrite Hn in Hnj. inversion Hnj; subst. left. assumption.
      * right. eapply Hx; [|exact Hnj|exact Hxo]. lia.
  - destruct IH as (l & Hp & Hl & Hx). exists (p :: l). split; [econstructor; eassumption|]. split.
    + intros c [<-|Hc] i Hi x Hxo; apply in_or_app; right.
      * apply In_nth_error in Hi. destruct Hi as [j Hj]. eapply Hx; [|exact Hj|exact Hxo].
        apply nth_error_Some. congruence.
      * eapply Hl; eauto.
    + intros j i Hj Hnj x Hxo. apply in_or_app. left. apply in_flat_map. exists i. split; [|assumption].
      eapply leading_phis_nth; eauto.
Qed.

Lemma dom_closed f R D : dom_check f R D = true -> closed f R = true.
Proof. unfold dom_check. intros H. apply andb_true_iff in H. destruct H as [H _]. apply andb_true_iff in H. tauto. Qed.

(* ---------- main theorem ---------- *)
Theorem ssa_check_sound f R D : dom_check f R D = true -> ssa_check f R D = true ->
  forall b k S, reach f b k S -> reads_ok f b k S.
Proof.
  intros Hd Hs b k S Hr. destruct (reach_inv f b k S Hr) as (l & Hp & Hl & Hx).
  pose proof (dom_closed f R D Hd) as Hcl.
  destruct (closed_path f R Hcl b l Hp) as (HbR & _ & _).
  unfold ssa_check in Hs. apply andb_true_iff in Hs. destruct Hs as [_ Hs]. rewrite forallb_forall in Hs.
  unfold reads_ok. destruct (nth_error (nth_block f b) k) as [ins|] eqn:En.
  - intros Hphi x Hxu. specialize (Hs b HbR). cbv zeta in Hs. apply andb_true_iff in Hs. destruct Hs as [_ Hs].
    rewrite forallb_forall in Hs. specialize (Hs (k, ins)).
    assert (Hin : In (k, ins) (enum_nat 0 (nth_block f b))) by (apply enum_nat_spec; rewrite Nat.sub_0_r; split; [lia | exact En]).
    specialize (Hs Hin). cbn [fst snd] in Hs. unfold inst_ok in Hs. rewrite Hphi in Hs.
    rewrite forallb_forall in Hs. specialize (Hs x Hxu). unfold use_ok in Hs.
    destruct (find_def (defs f) x) as [[b' k']|] eqn:Ef; [|discriminate].
    apply find_def_in, defs_site in Ef. destruct Ef as (ins' & Hn' & Hxo).
    destruct (N.eqb b' b) eqn:Eb.
    + apply N.eqb_eq in Eb. subst b'. apply Nat.ltb_lt in Hs. eapply Hx; eauto.
    + apply N.eqb_neq in Eb. apply memN_spec in Hs.
      destruct (dom_check_sound f R D Hd b l Hp b' Hs) as [->|Hbl]; [contradiction|].
      eapply Hl; [exact Hbl | eapply nth_error_In; exact Hn' | exact Hxo].
  - intros b' Hb' ins Hins.
    assert (Hk : (length (nth_block f b) <= k)%nat) by (apply nth_error_None; exact En).
    assert (Hb'R : In b' R).
    { assert (Hp' : rpath f b' (b :: l)) by (econstructor; eassumption).
      destruct (closed_path f R Hcl b' (b :: l) Hp') as (H & _). exact H. }
    specialize (Hs b' Hb'R). cbv zeta in Hs. apply andb_true_iff in Hs. destruct Hs as [_ Hs]. rewrite forallb_forall in Hs.
    destruct (leading_phis_in _ _ Hins) as [Hinb Hphi]. apply In_nth_error in Hinb. destruct Hinb as [j Hj].
    specialize (Hs (j, ins)).
    assert (Hin : In (j, ins) (enum_nat 0 (nth_block f b'))) by (apply enum_nat_spec; rewrite Nat.sub_0_r; split; [lia | exact Hj]).
    specialize (Hs Hin). cbn [fst snd] in Hs. unfold inst_ok in Hs. rewrite Hphi in Hs.
    rewrite forallb_forall in Hs.
    assert (Hpred : In b (preds f R b')) by (apply preds_spec; split; assumption).
    specialize (Hs b Hpred).
    destruct (existsb (fun pv => N.eqb (fst pv) b) (phi_pairs (i_args ins))) eqn:Hex.
    + left. rename Hs into Hall.
      apply existsb_exists in Hex. destruct Hex as ([p v] & Hpv & Hpe). cbn [fst] in Hpe. apply N.eqb_eq in Hpe. subst p.
      exists v. split; [exact Hpv|]. intros x ->.
      rewrite forallb_forall in Hall. specialize (Hall (b, Some x) Hpv). cbn [fst snd] in Hall. rewrite N.eqb_refl in Hall.
      unfold phi_val_ok in Hall. destruct (find_def (defs f) x) as [[b'' k'']|] eqn:Ef; [|discriminate].
      apply find_def_in, defs_site in Ef. destruct Ef as (ins' & Hn' & Hxo). apply memN_spec in Hall.
      destruct (dom_check_sound f R D Hd b l Hp b'' Hall) as [->|Hbl].
      * eapply Hx; [|exact Hn'|exact Hxo]. assert ((k'' < length (nth_block f b))%nat) by (apply nth_error_Some; congruence). lia.
      * eapply Hl; [exact Hbl | eapply nth_error_In; exact Hn' | exact Hxo].
    + right. split.
      * intros v Hv. assert (Ht : existsb (fun pv => N.eqb (fst pv) b) (phi_pairs (i_args ins)) = true).
        { apply existsb_exists. exists (b, v). split; [exact Hv | apply N.eqb_refl]. }
        congruence.
      * intros y Hy. apply memN_spec in Hs.
        destruct (dom_check_sound f R D Hd b l Hp b' Hs) as [->|Hbl].
        -- eapply Hx; [|exact Hj|exact Hy]. assert ((j < length (nth_block f b))%nat) by (apply nth_error_Some; congruence). lia.
        -- eapply Hl; [exact Hbl | eapply nth_error_In; exact Hj | exact Hy].
Qed.

(* single definition: the definition table has no duplicate variable *)
Lemma nodupN_spec l : nodupN l = true -> NoDup l.
Proof.
  induction l as [|x t IH]; cbn; [constructor|]. intros H. apply andb_true_iff in H. destruct H as [H1 H2].
  constructor; [|auto]. apply negb_true_iff, memN_false in H1. exact H1.
Qed.
Theorem single_def_sound f : single_def_check f = true -> NoDup (map fst (defs f)).
Proof. apply nodupN_spec. Qed.
