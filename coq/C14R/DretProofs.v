(* C14R: proofs for Dret.v.
   - tail_sound: the instruction sequence DretDesugarPass emits for one `dret` computes exactly `pack`;
   - desugar_sim / dret_check_sound: whole-function forward simulation;
   - pack_correct: what the caller observes under the producer contract. *)
From Coq Require Import ZArith List String Bool Lia.
From Verif Require Import C14R.Dret.
Import ListNotations.
Open Scope string_scope.
Open Scope list_scope.
Open Scope Z_scope.

Set Default Timeout 60.

Arguments addw : simpl never.
Arguments notw : simpl never.
Arguments c32w : simpl never.
Arguments mcopy : simpl never.
Arguments fmp {World} _.
Arguments fmp0 {World} _.
Arguments mem {World} _.
Arguments pargs {World} _.
Arguments world {World} _.
Arguments mkS {World}.

(* ------------------------------------------------------------------------------------------------------------- *)
(* booleans *)
Lemma list_eqb_eq : forall A (e : A -> A -> bool), (forall a b, e a b = true -> a = b) ->
  forall l1 l2, list_eqb e l1 l2 = true -> l1 = l2.
Proof.
  intros A e He. induction l1 as [|a l1 IH]; destruct l2 as [|b l2]; cbn; intros H; try discriminate; auto.
  apply andb_true_iff in H. destruct H as [H1 H2]. f_equal; auto.
Qed.

Lemma opnd_eqb_eq : forall a b, opnd_eqb a b = true -> a = b.
Proof.
  destruct a, b; cbn; intros H; try discriminate.
  - apply Z.eqb_eq in H. congruence.
  - apply String.eqb_eq in H. congruence.
  - apply String.eqb_eq in H. congruence.
Qed.

Lemma inst_eqb_eq : forall a b, inst_eqb a b = true -> a = b.
Proof.
  intros [o1 p1 a1] [o2 p2 a2]. unfold inst_eqb. cbn [iouts iop iargs]. intros H.
  apply andb_true_iff in H. destruct H as [H H3]. apply andb_true_iff in H. destruct H as [H1 H2].
  apply (list_eqb_eq _ String.eqb) in H1; [|intros; now apply String.eqb_eq].
  apply String.eqb_eq in H2.
  apply (list_eqb_eq _ opnd_eqb opnd_eqb_eq) in H3. congruence.
Qed.

Lemma block_eqb_eq : forall a b, block_eqb a b = true -> a = b.
Proof.
  intros [l1 b1] [l2 b2]. unfold block_eqb. cbn [blabel body]. intros H.
  apply andb_true_iff in H. destruct H as [H1 H2]. apply String.eqb_eq in H1.
  apply (list_eqb_eq _ inst_eqb inst_eqb_eq) in H2. congruence.
Qed.

Lemma func_eqb_eq : forall a b, func_eqb a b = true -> a = b.
Proof. intros a b. apply list_eqb_eq. exact block_eqb_eq. Qed.

Lemma mem_str_false : forall x l, mem_str x l = false -> ~ In x l.
Proof.
  unfold mem_str. induction l as [|y l IH]; cbn; intros H; auto.
  apply orb_false_iff in H. destruct H as [H1 H2]. intros [E|E].
  - subst. rewrite String.eqb_refl in H1. discriminate.
  - now apply IH.
Qed.

Lemma nodup_str_NoDup : forall l, nodup_str l = true -> NoDup l.
Proof.
  induction l as [|x l IH]; cbn; intros H; [constructor|].
  apply andb_true_iff in H. destruct H as [H1 H2]. constructor; auto.
  apply mem_str_false. now apply negb_true_iff.
Qed.

(* ------------------------------------------------------------------------------------------------------------- *)
(* pack in closed form *)
Fixpoint dsts (d : Z) (sizes : list Z) : list Z :=
  match sizes with [] => [] | n :: ns => d :: dsts (addw (c32w n) d) ns end.
Fixpoint fin (d : Z) (sizes : list Z) : Z :=
  match sizes with [] => d | n :: ns => fin (addw (c32w n) d) ns end.
Fixpoint copy_all (m : memory) (l : list (Z * (Z * Z))) : memory :=
  match l with [] => m | (d, (s, n)) :: r => copy_all (mcopy m d s n) r end.

Lemma pack_spec : forall ps d m,
  pack d ps m = (dsts d (map snd ps), fin d (map snd ps), copy_all m (combine (dsts d (map snd ps)) ps)).
Proof.
  induction ps as [|[s n] ps IH]; intros d m; cbn [pack map snd dsts fin combine copy_all]; auto.
  rewrite IH. reflexivity.
Qed.

(* ------------------------------------------------------------------------------------------------------------- *)
(* parse commutes with map *)
Lemma pairs_of_map : forall A B (g : A -> B) (l : list A),
  pairs_of (map g l) = match pairs_of l with
                       | Some ps => Some (map (fun p => (g (fst p), g (snd p))) ps)
                       | None => None
                       end.
Proof.
  intros A B g. fix IH 1. intros [|a [|b r]]; cbn; auto.
  rewrite IH. destruct (pairs_of r); reflexivity.
Qed.

Lemma last_map : forall A B (g : A -> B) (l : list A) d, last (map g l) (g d) = g (last l d).
Proof.
  induction l as [|a l IH]; intros d; cbn; auto. destruct l; cbn in *; auto.
Qed.

Lemma parse_map : forall A B (g : A -> B) dyn (rest : list A) d,
  parse dyn (map g rest) (g d) =
  match parse dyn rest d with
  | Some (o, ps, x) => Some (map g o, map (fun p => (g (fst p), g (snd p))) ps, g x)
  | None => None
  end.
Proof.
  intros. unfold parse. rewrite map_length.
  destruct ((1 <=? dyn) && (2 * dyn + 1 <=? Z.of_nat (List.length rest))); auto.
  rewrite skipn_map, firstn_map, pairs_of_map.
  destruct (pairs_of _); auto. rewrite firstn_map, last_map. reflexivity.
Qed.

Lemma pairs_of_In : forall A (l : list A) ps, pairs_of l = Some ps ->
  forall a b, In (a, b) ps -> In a l /\ In b l.
Proof.
  intros A. fix IH 1. intros [|x [|y r]]; cbn; intros ps H a b Hin.
  - inversion H; subst. destruct Hin.
  - discriminate.
  - destruct (pairs_of r) eqn:E; [|discriminate]. inversion H; subst. destruct Hin as [Hin|Hin].
    + inversion Hin; subst. auto.
    + destruct (IH r l E a b Hin). auto.
Qed.

Lemma In_firstn : forall A n (l : list A) x, In x (firstn n l) -> In x l.
Proof. induction n; destruct l; cbn; intros; auto; try tauto. destruct H; auto. Qed.
Lemma In_skipn : forall A n (l : list A) x, In x (skipn n l) -> In x l.
Proof. induction n; destruct l; cbn; intros; auto. Qed.

Lemma last_In : forall A (l : list A) d, l <> [] -> In (last l d) l.
Proof.
  induction l as [|a l IH]; intros d H; [congruence|]. destruct l; [cbn; auto|].
  right. apply IH. congruence.
Qed.

Lemma parse_In : forall A dyn (rest : list A) d o ps x,
  parse dyn rest d = Some (o, ps, x) ->
  (forall a, In a o -> In a rest) /\ (forall a b, In (a, b) ps -> In a rest /\ In b rest) /\ In x rest.
Proof.
  intros A dyn rest d o ps x. unfold parse.
  destruct ((1 <=? dyn) && (2 * dyn + 1 <=? Z.of_nat (List.length rest))) eqn:C; [|discriminate].
  destruct (pairs_of _) eqn:E; [|discriminate]. intros H. inversion H; subst. clear H.
  split; [|split].
  - intros a. apply In_firstn.
  - intros a b Hin. destruct (pairs_of_In _ _ _ E a b Hin) as [H1 H2].
    split; eapply In_skipn; eapply In_firstn; eauto.
  - apply last_In. apply andb_true_iff in C. destruct C as [C1 C2].
    apply Z.leb_le in C1, C2. destruct rest; [cbn [List.length Z.of_nat] in C2; lia | congruence].
Qed.

(* ------------------------------------------------------------------------------------------------------------- *)
(* environments *)
Lemma upd_same : forall r x v, upd r x v x = v.
Proof. intros. unfold upd. now rewrite String.eqb_refl. Qed.
Lemma upd_other : forall r x v y, y <> x -> upd r x v y = r y.
Proof. intros. unfold upd. destruct (String.eqb y x) eqn:E; auto. apply String.eqb_eq in E. congruence. Qed.

Lemma eval_agree : forall r r' o, (forall x, In x (opnd_var o) -> r x = r' x) -> eval r o = eval r' o.
Proof. intros r r' [z|x|l] H; cbn; auto. rewrite H; cbn; auto. Qed.

Lemma map_eval_agree : forall r r' l, (forall x, In x (flat_map opnd_var l) -> r x = r' x) -> map (eval r) l = map (eval r') l.
Proof.
  induction l as [|o l IH]; cbn; intros H; auto. f_equal.
  - apply eval_agree. intros x Hx. apply H. apply in_or_app. auto.
  - apply IH. intros x Hx. apply H. apply in_or_app. auto.
Qed.

Section Proofs.
  Variable World : Type.
  Variable other : string -> list val -> Z * memory * World -> option (list Z * (Z * memory * World) * ctl).

  Local Notation exec := (exec World other).
  Local Notation run := (run World other).
  Local Notation state := (st World).

  (* straight-line execution *)
  Fixpoint steps (l : list inst) (r : env) (s : state) : option (env * state) :=
    match l with
    | [] => Some (r, s)
    | i :: l' => match exec r s i with Some (r', s', CNext) => steps l' r' s' | _ => None end
    end.

  Lemma steps_cons_next : forall i l r s r' s',
    exec r s i = Some (r', s', CNext) -> steps (i :: l) r s = steps l r' s'.
  Proof. intros. cbn [steps]. now rewrite H. Qed.

  Lemma steps_app : forall l1 l2 r s r1 s1,
    steps l1 r s = Some (r1, s1) -> steps (l1 ++ l2) r s = steps l2 r1 s1.
  Proof.
    induction l1 as [|i l1 IH]; cbn; intros l2 r s r1 s1 H.
    - inversion H; subst. reflexivity.
    - destruct (exec r s i) as [[[r' s'] [| |]]|]; try discriminate. eauto.
  Qed.

  Lemma run_steps : forall f l rest r s r1 s1 o so,
    steps l r s = Some (r1, s1) -> run f rest r1 s1 o so -> run f (l ++ rest) r s o so.
  Proof.
    induction l as [|i l IH]; cbn; intros rest r s r1 s1 o so H Hr.
    - inversion H; subst. exact Hr.
    - destruct (exec r s i) as [[[r' s'] [| |]]|] eqn:E; try discriminate.
      eapply run_next; eauto.
  Qed.

  (* the concrete instructions of the desugared sequence *)
  Lemma exec_add : forall r s x a b va vb, eval r a = VZ va -> eval r b = VZ vb ->
    exec r s (mkI [x] "add" [a; b]) = Some (upd r x (addw va vb), s, CNext).
  Proof. intros. unfold Dret.exec. cbn [iop iargs iouts map]. rewrite H, H0. reflexivity. Qed.

  Lemma exec_not : forall r s x a va, eval r a = VZ va ->
    exec r s (mkI [x] "not" [a]) = Some (upd r x (notw va), s, CNext).
  Proof. intros. unfold Dret.exec. cbn [iop iargs iouts map]. rewrite H. reflexivity. Qed.

  Lemma exec_and : forall r s x a b va vb, eval r a = VZ va -> eval r b = VZ vb ->
    exec r s (mkI [x] "and" [a; b]) = Some (upd r x (Z.land va vb), s, CNext).
  Proof. intros. unfold Dret.exec. cbn [iop iargs iouts map]. rewrite H, H0. reflexivity. Qed.

  Lemma exec_mcopy : forall r s a b c n src dst, eval r a = VZ n -> eval r b = VZ src -> eval r c = VZ dst ->
    exec r s (mkI [] "mcopy" [a; b; c]) =
    Some (r, mkS (fmp s) (fmp0 s) (mcopy (mem s) dst src n) (pargs s) (world s), CNext).
  Proof. intros. unfold Dret.exec. cbn [iop iargs iouts map]. rewrite H, H0, H1. reflexivity. Qed.

  Lemma exec_setfmp : forall r s a v, eval r a = VZ v ->
    exec r s (mkI [] "setfmp" [a]) = Some (r, mkS v (fmp0 s) (mem s) (pargs s) (world s), CNext).
  Proof. intros. unfold Dret.exec. cbn [iop iargs iouts map]. rewrite H. reflexivity. Qed.

  Lemma exec_retfmp : forall r s l,
    exec r s (mkI [] "retfmp" l) = Some (r, s, CHalt (map (eval r) l)).
  Proof. intros. reflexivity. Qed.

  Lemma exec_getfmp : forall r s x,
    exec r s (mkI [x] "getfmp" []) = Some (upd r x (fmp s), s, CNext).
  Proof. intros. reflexivity. Qed.

  (* ceil32 *)
  Lemma ceil32_steps : forall r s a m al size z,
    eval r size = VZ z -> a <> m ->
    exists r', steps (ceil32_insts a m al size) r s = Some (r', s) /\ r' al = c32w z /\
               (forall x, x <> a -> x <> m -> x <> al -> r' x = r x).
  Proof.
    intros r s a m al size z Hz Ham. unfold ceil32_insts. cbn [steps].
    rewrite (exec_add r s a (Lit 31) size 31 z eq_refl Hz).
    rewrite (exec_not _ s m (Lit 31) 31 eq_refl).
    erewrite exec_and; [| cbn [eval]; reflexivity | cbn [eval]; reflexivity].
    eexists. split; [reflexivity|]. split.
    - rewrite upd_same. rewrite upd_same. rewrite (upd_other _ m), upd_same by auto. reflexivity.
    - intros x H1 H2 H3. now rewrite !upd_other by auto.
  Qed.

  Definition evp (r : env) (ps : list (opnd * opnd)) : list (val * val) :=
    map (fun p => (eval r (fst p), eval r (snd p))) ps.
  Definition pair_vars (ps : list (opnd * opnd)) : list string :=
    flat_map (fun p => opnd_var (fst p) ++ opnd_var (snd p)) ps.

  Lemma evp_agree : forall r r' ps, (forall x, In x (pair_vars ps) -> r x = r' x) -> evp r ps = evp r' ps.
  Proof.
    induction ps as [|[a b] ps IH]; cbn; intros H; auto. f_equal.
    - f_equal; apply eval_agree; intros x Hx; apply H; apply in_or_app; left; apply in_or_app; auto.
    - apply IH. intros x Hx. apply H. apply in_or_app. auto.
  Qed.

  Lemma chain_steps : forall ps names pal pd is ds lal ld lft r s zps,
    chain pal pd ps names = Some (is, ds, lal, ld, lft) ->
    NoDup names -> ~ In pal names -> ~ In pd names ->
    (forall x, In x (pair_vars ps) -> ~ In x names) ->
    zpairs (evp r ps) = Some zps ->
    exists used r',
      names = used ++ lft /\ incl ds used /\
      steps is r s = Some (r', s) /\
      (forall x, ~ In x used -> r' x = r x) /\
      map r' ds = dsts (addw (r pal) (r pd)) (map snd zps) /\
      addw (r' lal) (r' ld) = fin (addw (r pal) (r pd)) (map snd zps).
  Proof.
    induction ps as [|[src size] ps IH]; intros names pal pd is ds lal ld lft r s zps Hc Hnd Hpal Hpd Hfresh Hz.
    - cbn in Hc. inversion Hc; subst. cbn in Hz. inversion Hz; subst.
      exists [], r. cbn. repeat split; auto. intros x Hx; destruct Hx.
    - cbn [chain] in Hc.
      destruct names as [|d [|a [|m [|al ns]]]]; try discriminate.
      destruct (chain al d ps ns) as [[[[[is' ds'] lal'] ld'] lft']|] eqn:Ec; [|discriminate].
      inversion Hc; subst is ds lal ld lft. clear Hc.
      cbn [evp map fst snd zpairs] in Hz.
      destruct (eval r src) as [zsrc|] eqn:Esrc; [|discriminate].
      destruct (eval r size) as [zsize|] eqn:Esize; [|discriminate].
      fold (evp r ps) in Hz.
      destruct (zpairs (evp r ps)) as [zps'|] eqn:Ez; [|discriminate].
      inversion Hz; subst zps. clear Hz.
      (* distinctness *)
      inversion Hnd as [|? ? Hd Hnd1]; subst. inversion Hnd1 as [|? ? Ha Hnd2]; subst.
      inversion Hnd2 as [|? ? Hm Hnd3]; subst. inversion Hnd3 as [|? ? Hal Hnd4]; subst.
      assert (Hda : d <> a) by (intros ->; apply Hd; cbn; auto).
      assert (Hdm : d <> m) by (intros ->; apply Hd; cbn; auto).
      assert (Hdal : d <> al) by (intros ->; apply Hd; cbn; auto).
      assert (Ham : a <> m) by (intros ->; apply Ha; cbn; auto).
      assert (Hsz : forall x, In x (opnd_var size) -> ~ In x (d :: a :: m :: al :: ns)).
      { intros x Hx. apply Hfresh. cbn. apply in_or_app. left. apply in_or_app. auto. }
      (* first step *)
      set (r1 := upd r d (addw (r pal) (r pd))).
      assert (E1 : exec r s (mkI [d] "add" [Var pal; Var pd]) = Some (r1, s, CNext)).
      { apply exec_add; reflexivity. }
      assert (Esize1 : eval r1 size = VZ zsize).
      { rewrite <- Esize. apply eval_agree. intros x Hx. unfold r1. apply upd_other.
        intros ->. apply (Hsz d Hx). cbn; auto. }
      destruct (ceil32_steps r1 s a m al size zsize Esize1 Ham) as [r4 [S4 [V4 F4]]].
      assert (Ez4 : zpairs (evp r4 ps) = Some zps').
      { rewrite <- Ez. f_equal. apply evp_agree. intros x Hx.
        assert (Hn : ~ In x (d :: a :: m :: al :: ns)).
        { apply Hfresh. cbn. apply in_or_app. auto. }
        rewrite F4.
        - unfold r1. apply upd_other. intros ->. apply Hn. cbn; auto.
        - intros ->. apply Hn. cbn; auto.
        - intros ->. apply Hn. cbn; auto.
        - intros ->. apply Hn. cbn; auto. }
      assert (Hal' : ~ In al ns) by exact Hal.
      assert (Hd' : ~ In d ns) by (intros Hx; apply Hd; cbn; auto).
      assert (Hfresh' : forall x, In x (pair_vars ps) -> ~ In x ns).
      { intros x Hx Hn. apply (Hfresh x).
        - cbn. apply in_or_app. auto.
        - cbn; auto. }
      destruct (IH ns al d is' ds' lal' ld' lft' r4 s zps' Ec Hnd4 Hal' Hd' Hfresh' Ez4)
        as [used [r' [Hn [Hincl [S' [F' [D' L']]]]]]].
      assert (V4d : r4 d = addw (r pal) (r pd)).
      { rewrite F4 by auto. unfold r1. apply upd_same. }
      exists (d :: a :: m :: al :: used), r'.
      split; [cbn; now rewrite Hn|].
      split; [intros x [<-|Hx]; [cbn; auto | do 4 right; now apply Hincl]|].
      split.
      { rewrite (steps_cons_next _ _ _ _ _ _ E1).
        change (steps (ceil32_insts a m al size ++ is') r1 s = Some (r', s)).
        erewrite steps_app by exact S4. exact S'. }
      split.
      { intros x Hx. rewrite F'; [|intros Hu; apply Hx; cbn; auto].
        rewrite F4.
        - unfold r1. apply upd_other. intros ->. apply Hx. cbn; auto.
        - intros ->. apply Hx. cbn; auto.
        - intros ->. apply Hx. cbn; auto.
        - intros ->. apply Hx. cbn; auto. }
      cbn [map snd dsts fin]. rewrite V4, V4d in D', L'.
      split; [|exact L'].
      f_equal; [|exact D'].
      rewrite F'; [exact V4d|]. intros Hu. apply Hd'. rewrite Hn. apply in_or_app. auto.
  Qed.

  Lemma state_eta : forall s : state, mkS (fmp s) (fmp0 s) (mem s) (pargs s) (world s) = s.
  Proof. destruct s; reflexivity. Qed.

  Lemma zpairs_cons : forall r src size ps zps,
    zpairs (evp r ((src, size) :: ps)) = Some zps ->
    exists zs zn zps', eval r src = VZ zs /\ eval r size = VZ zn /\ zpairs (evp r ps) = Some zps' /\ zps = (zs, zn) :: zps'.
  Proof.
    intros r src size ps zps H. cbn [evp map fst snd zpairs] in H.
    destruct (eval r src) as [zs|]; [|discriminate]. destruct (eval r size) as [zn|]; [|discriminate].
    fold (evp r ps) in H. destruct (zpairs (evp r ps)) as [zps'|]; [|discriminate].
    inversion H; subst. eauto 8.
  Qed.

  Lemma copies_steps : forall nl ps r s zps,
    zpairs (evp r ps) = Some zps ->
    steps (copies (combine nl ps)) r s =
    Some (r, mkS (fmp s) (fmp0 s) (copy_all (mem s) (combine (map r nl) zps)) (pargs s) (world s)).
  Proof.
    induction nl as [|d nl IH]; intros ps r s zps Hz.
    - cbn. now rewrite state_eta.
    - destruct ps as [|[src size] ps].
      + cbn in Hz. inversion Hz; subst. cbn. now rewrite state_eta.
      + destruct (zpairs_cons _ _ _ _ _ Hz) as [zs [zn [zps' [E1 [E2 [E3 ->]]]]]].
        cbn [combine copies map]. fold (copies (combine nl ps)).
        erewrite steps_cons_next; [|apply exec_mcopy; [exact E2|exact E1|reflexivity]].
        rewrite (IH ps r _ zps' E3). cbn [fmp fmp0 mem pargs world copy_all]. reflexivity.
  Qed.

  Lemma exec_core_dret : forall dyn vrest (s : state) ords ps rpc zps,
    parse dyn vrest (VZ 0) = Some (ords, ps, rpc) -> zpairs ps = Some zps ->
    exec_core World other "dret" (VZ dyn :: vrest) s =
    Some ([], mkS (fin (fmp0 s) (map snd zps)) (fmp0 s)
                  (copy_all (mem s) (combine (dsts (fmp0 s) (map snd zps)) zps)) (pargs s) (world s),
          CHalt (ords ++ map VZ (dsts (fmp0 s) (map snd zps)) ++ [rpc])).
  Proof.
    intros. unfold exec_core.
    replace (param_op "dret") with false by reflexivity.
    replace (String.eqb "dret" "getfmp") with false by reflexivity.
    replace (String.eqb "dret" "setfmp") with false by reflexivity.
    replace (String.eqb "dret" "add") with false by reflexivity.
    replace (String.eqb "dret" "not") with false by reflexivity.
    replace (String.eqb "dret" "and") with false by reflexivity.
    replace (String.eqb "dret" "mcopy") with false by reflexivity.
    replace (String.eqb "dret" "retfmp") with false by reflexivity.
    replace (String.eqb "dret" "dret") with true by reflexivity.
    cbv iota. rewrite H, H0, pack_spec. reflexivity.
  Qed.

  Lemma exec_core_dret_inv : forall vs (s : state) ovs s' c,
    exec_core World other "dret" vs s = Some (ovs, s', c) ->
    exists dyn vrest ords ps rpc zps, vs = VZ dyn :: vrest /\
      parse dyn vrest (VZ 0) = Some (ords, ps, rpc) /\ zpairs ps = Some zps.
  Proof.
    intros vs s ovs s' c. unfold exec_core.
    replace (param_op "dret") with false by reflexivity.
    replace (String.eqb "dret" "getfmp") with false by reflexivity.
    replace (String.eqb "dret" "setfmp") with false by reflexivity.
    replace (String.eqb "dret" "add") with false by reflexivity.
    replace (String.eqb "dret" "not") with false by reflexivity.
    replace (String.eqb "dret" "and") with false by reflexivity.
    replace (String.eqb "dret" "mcopy") with false by reflexivity.
    replace (String.eqb "dret" "retfmp") with false by reflexivity.
    replace (String.eqb "dret" "dret") with true by reflexivity.
    cbv iota. destruct vs as [|[dyn|] vrest]; try discriminate.
    destruct (parse dyn vrest (VZ 0)) as [[[ords ps] rpc]|] eqn:E1; [|discriminate].
    destruct (zpairs ps) as [zps|] eqn:E2; [|discriminate]. intros _.
    exists dyn, vrest, ords, ps, rpc, zps. auto.
  Qed.

  Lemma map_agree : forall (r r' : env) l, (forall x, In x l -> r x = r' x) -> map r l = map r' l.
  Proof. intros. apply map_ext_in. auto. Qed.

  Lemma tail_sound : forall f e names i t rs rt s r' s' vs rest,
    is_dret i = true -> tail e names i = Some t ->
    exec rs s i = Some (r', s', CHalt vs) ->
    NoDup (e :: names) ->
    (forall x, In x (flat_map opnd_var (iargs i)) -> ~ In x (e :: names)) ->
    (forall x, In x (flat_map opnd_var (iargs i)) -> rs x = rt x) ->
    rt e = fmp0 s ->
    run f (t ++ rest) rt s vs s'.
  Proof.
    intros f e names i t rs rt s r' s' vs rest Hd Ht He Hnd Hfr Hag Hfe.
    destruct i as [outs op args]. unfold is_dret in Hd. cbn [iop] in Hd. apply String.eqb_eq in Hd. subst op.
    unfold tail in Ht. cbn [iargs iouts] in *.
    destruct args as [|[dyn| |] rest0]; try discriminate.
    destruct outs; [|discriminate].
    destruct (parse dyn rest0 (Lit 0)) as [[[ords [|[src0 size0] ps]] rpc]|] eqn:Ep; try discriminate.
    destruct names as [|a0 [|m0 [|al0 ns]]]; try discriminate.
    destruct (chain al0 e ps ns) as [[[[[is ds] lal] ld] [|nf [|]]]|] eqn:Ec; try discriminate.
    inversion Ht; subst t; clear Ht.
    (* the source step *)
    unfold Dret.exec in He. cbn [iop iargs iouts map] in He.
    assert (Epv : parse dyn (map (eval rs) rest0) (VZ 0) =
                  Some (map (eval rs) ords, evp rs ((src0, size0) :: ps), eval rs rpc)).
    { change (VZ 0) with (eval rs (Lit 0)). rewrite parse_map, Ep. reflexivity. }
    destruct (exec_core World other "dret" (eval rs (Lit dyn) :: map (eval rs) rest0) s) as [[[ovs s1] c1]|] eqn:Ee;
      [|discriminate].
    cbn [eval] in Ee.
    destruct (exec_core_dret_inv _ _ _ _ _ Ee) as [dyn' [vrest [ords' [ps' [rpc' [zps [Ev [Ep' Ez]]]]]]]].
    inversion Ev; subst dyn' vrest; clear Ev. rewrite Epv in Ep'. inversion Ep'; subst ords' ps' rpc'; clear Ep'.
    rewrite (exec_core_dret _ _ _ _ _ _ _ Epv Ez) in Ee. inversion Ee; subst ovs s1 c1; clear Ee.
    cbn [bind_outs] in He. inversion He; subst r' s' vs; clear He.
    destruct (zpairs_cons _ _ _ _ _ Ez) as [z0src [z0 [zps' [E0s [E0n [Ez' ->]]]]]].
    cbn [map snd dsts fin].
    (* variables of the dret operands *)
    destruct (parse_In _ _ _ _ _ _ _ Ep) as [Hords [Hps Hrpc]].
    assert (Vin : forall o, In o rest0 -> forall x, In x (opnd_var o) -> In x (flat_map opnd_var (Lit dyn :: rest0))).
    { intros o Ho x Hx. cbn [flat_map opnd_var app]. apply in_flat_map. eauto. }
    assert (Vpairs : forall x, In x (pair_vars ((src0, size0) :: ps)) -> In x (flat_map opnd_var (Lit dyn :: rest0))).
    { intros x Hx. unfold pair_vars in Hx. apply in_flat_map in Hx. destruct Hx as [[a b] [Hab Hx]].
      destruct (Hps a b Hab) as [Ha Hb]. cbn [fst snd] in Hx. apply in_app_or in Hx. destruct Hx; eauto. }
    (* distinctness *)
    inversion Hnd as [|? ? He0 Hnd1]; subst. inversion Hnd1 as [|? ? Ha0 Hnd2]; subst.
    inversion Hnd2 as [|? ? Hm0 Hnd3]; subst. inversion Hnd3 as [|? ? Hal0 Hnd4]; subst.
    assert (Hea : e <> a0) by (intros ->; apply He0; cbn; auto).
    assert (Hem : e <> m0) by (intros ->; apply He0; cbn; auto).
    assert (Heal : e <> al0) by (intros ->; apply He0; cbn; auto).
    assert (Ham : a0 <> m0) by (intros ->; apply Ha0; cbn; auto).
    assert (Hens : ~ In e ns) by (intros Hx; apply He0; cbn; auto).
    (* agreement of the operand values *)
    assert (Agt : forall x, In x (flat_map opnd_var (Lit dyn :: rest0)) -> rs x = rt x) by exact Hag.
    assert (Esize0 : eval rt size0 = VZ z0).
    { rewrite <- E0n. symmetry. apply eval_agree. intros x Hx. apply Agt. apply Vpairs. cbn. apply in_or_app. left. apply in_or_app. auto. }
    destruct (ceil32_steps rt s a0 m0 al0 size0 z0 Esize0 Ham) as [r1 [S1 [V1 F1]]].
    assert (Agr1 : forall x, In x (flat_map opnd_var (Lit dyn :: rest0)) -> rs x = r1 x).
    { intros x Hx. rewrite F1.
      - now apply Agt.
      - intros ->. apply (Hfr a0 Hx). cbn; auto.
      - intros ->. apply (Hfr m0 Hx). cbn; auto.
      - intros ->. apply (Hfr al0 Hx). cbn; auto. }
    assert (V1e : r1 e = fmp0 s) by (rewrite F1; auto).
    assert (Ez1 : zpairs (evp r1 ps) = Some zps').
    { rewrite <- Ez'. f_equal. symmetry. apply evp_agree. intros x Hx. apply Agr1. apply Vpairs.
      cbn. apply in_or_app. auto. }
    assert (Hfresh1 : forall x, In x (pair_vars ps) -> ~ In x ns).
    { intros x Hx Hn. apply (Hfr x).
      - apply Vpairs. cbn. apply in_or_app. auto.
      - cbn; auto. }
    destruct (chain_steps ps ns al0 e is ds lal ld [nf] r1 s zps' Ec Hnd4 Hal0 Hens Hfresh1 Ez1)
      as [used [r2 [Hn [Hincl [S2 [F2 [D2 L2]]]]]]].
    rewrite V1, V1e in D2, L2.
    assert (Hnf_used : ~ In nf used).
    { intros Hx. rewrite Hn in Hnd4. apply NoDup_remove_2 in Hnd4. apply Hnd4. rewrite app_nil_r. exact Hx. }
    assert (Hnf_ns : In nf ns) by (rewrite Hn; apply in_or_app; cbn; auto).
    assert (Hnfe : nf <> e) by (intros ->; auto).
    set (FIN := fin (addw (c32w z0) (fmp0 s)) (map snd zps')) in *.
    set (r3 := upd r2 nf FIN).
    assert (E3 : exec r2 s (mkI [nf] "add" [Var lal; Var ld]) = Some (r3, s, CNext)).
    { unfold r3. rewrite <- L2. apply exec_add; reflexivity. }
    assert (F3 : forall x, ~ In x (a0 :: m0 :: al0 :: ns) -> r3 x = rt x).
    { intros x Hx. unfold r3. rewrite upd_other by (intros ->; apply Hx; cbn; auto).
      rewrite F2.
      - apply F1; intros ->; apply Hx; cbn; auto.
      - intros Hu. apply Hx. do 3 right. rewrite Hn. apply in_or_app. auto. }
    assert (Agr3 : forall x, In x (flat_map opnd_var (Lit dyn :: rest0)) -> rs x = r3 x).
    { intros x Hx. rewrite F3.
      - now apply Agt.
      - intros Hn'. apply (Hfr x Hx). right. exact Hn'. }
    assert (V3e : r3 e = fmp0 s).
    { rewrite F3 by exact He0. exact Hfe. }
    assert (V3ds : map r3 ds = dsts (addw (c32w z0) (fmp0 s)) (map snd zps')).
    { rewrite <- D2. apply map_agree. intros x Hx. unfold r3. apply upd_other.
      intros ->. apply Hnf_used. now apply Hincl. }
    assert (Ez3 : zpairs (evp r3 ((src0, size0) :: ps)) = Some ((z0src, z0) :: zps')).
    { change (zpairs (evp rs ((src0, size0) :: ps)) = Some ((z0src, z0) :: zps')) in Ez.
      rewrite <- Ez. f_equal. symmetry. apply evp_agree. intros x Hx. apply Agr3. now apply Vpairs. }
    (* assemble *)
    match goal with |- Dret.run _ _ _ (?l ++ rest) _ _ _ _ =>
      change l with (ceil32_insts a0 m0 al0 size0 ++ (is ++ (mkI [nf] "add" [Var lal; Var ld]
                       :: (copies (combine (e :: ds) ((src0, size0) :: ps))
                           ++ [mkI [] "setfmp" [Var nf]; mkI [] "retfmp" (ords ++ map Var (e :: ds) ++ [rpc])]))))
    end.
    rewrite <- !app_assoc.
    eapply run_steps; [exact S1|].
    eapply run_steps; [exact S2|].
    rewrite <- app_comm_cons.
    eapply run_next; [exact E3|].
    rewrite <- app_assoc.
    eapply run_steps; [apply (copies_steps (e :: ds) _ r3 s _ Ez3)|].
    rewrite <- !app_comm_cons.
    eapply run_next.
    { apply exec_setfmp. cbn [eval]. unfold r3. rewrite upd_same. reflexivity. }
    cbn [fmp fmp0 mem pargs world].
    match goal with |- Dret.run _ _ _ _ _ _ ?o _ =>
      replace o with (map (eval r3) (ords ++ map Var (e :: ds) ++ [rpc])) end.
    2:{ rewrite !map_app. f_equal.
        - symmetry. apply map_eval_agree. intros x Hx. apply Agr3. apply in_flat_map in Hx.
          destruct Hx as [o [Ho Hx]]. exact (Vin o (Hords o Ho) x Hx).
        - cbn [map eval]. rewrite V3e, <- V3ds, !map_map. cbn [eval]. rewrite <- ?app_comm_cons.
          f_equal. f_equal. f_equal. symmetry. apply eval_agree. intros x Hx. apply Agr3. exact (Vin rpc Hrpc x Hx). }
    cbn [map]. rewrite V3e, V3ds.
    eapply run_halt. apply exec_retfmp.
  Qed.

  (* ----------------------------------------------------------------------------------------------------------- *)
  (* general facts about exec *)
  Ltac brk :=
    repeat (match goal with |- context [match ?x with _ => _ end] => destruct x end; try discriminate).

  Lemma exec_core_fmp0 : forall op vs (s : state) ovs s' c,
    exec_core World other op vs s = Some (ovs, s', c) -> fmp0 s' = fmp0 s.
  Proof.
    intros op vs s ovs s' c. unfold exec_core. cbv zeta.
    destruct (param_op op). { brk; intros H; inversion H; reflexivity. }
    destruct (String.eqb op "getfmp"). { brk; intros H; inversion H; reflexivity. }
    destruct (String.eqb op "setfmp"). { brk; intros H; inversion H; reflexivity. }
    destruct (String.eqb op "add"). { brk; intros H; inversion H; reflexivity. }
    destruct (String.eqb op "not"). { brk; intros H; inversion H; reflexivity. }
    destruct (String.eqb op "and"). { brk; intros H; inversion H; reflexivity. }
    destruct (String.eqb op "mcopy"). { brk; intros H; inversion H; reflexivity. }
    destruct (String.eqb op "retfmp"). { intros H; inversion H; reflexivity. }
    destruct (String.eqb op "dret"). { brk; intros H; inversion H; reflexivity. }
    destruct (other op vs (fmp s, mem s, world s)) as [[[ovs' [[f' m'] w']] c']|]; [|discriminate].
    destruct (match c' with CGoto l => existsb (val_eqb (VL l)) vs | _ => true end); [|discriminate].
    intros H; inversion H; reflexivity.
  Qed.

  Lemma exec_core_goto : forall op vs (s : state) ovs s' l,
    exec_core World other op vs s = Some (ovs, s', CGoto l) -> existsb (val_eqb (VL l)) vs = true.
  Proof.
    intros op vs s ovs s' l. unfold exec_core. cbv zeta.
    destruct (param_op op). { brk; intros H; inversion H. }
    destruct (String.eqb op "getfmp"). { brk; intros H; inversion H. }
    destruct (String.eqb op "setfmp"). { brk; intros H; inversion H. }
    destruct (String.eqb op "add"). { brk; intros H; inversion H. }
    destruct (String.eqb op "not"). { brk; intros H; inversion H. }
    destruct (String.eqb op "and"). { brk; intros H; inversion H. }
    destruct (String.eqb op "mcopy"). { brk; intros H; inversion H. }
    destruct (String.eqb op "retfmp"). { intros H; inversion H. }
    destruct (String.eqb op "dret"). { brk; intros H; inversion H. }
    destruct (other op vs (fmp s, mem s, world s)) as [[[ovs' [[f' m'] w']] c']|]; [|discriminate].
    destruct c' as [|l'|vs'].
    - intros H; inversion H.
    - destruct (existsb (val_eqb (VL l')) vs) eqn:E; [|discriminate]. intros H; inversion H; subst. exact E.
    - intros H; inversion H.
  Qed.

  Lemma exec_core_param : forall op vs (s : state) ovs s' c,
    param_op op = true -> exec_core World other op vs s = Some (ovs, s', c) -> c = CNext /\ fmp s' = fmp s.
  Proof.
    intros op vs s ovs s' c Hp. unfold exec_core. rewrite Hp. destruct (pargs s); [discriminate|].
    intros H; inversion H; auto.
  Qed.

  Lemma exec_fmp0 : forall r s i r' s' c, exec r s i = Some (r', s', c) -> fmp0 s' = fmp0 s.
  Proof.
    intros r s i r' s' c. unfold Dret.exec.
    destruct (exec_core World other (iop i) (map (eval r) (iargs i)) s) as [[[ovs s1] c1]|] eqn:E; [|discriminate].
    destruct (bind_outs r (iouts i) ovs); [|discriminate]. intros H; inversion H; subst.
    eapply exec_core_fmp0; eauto.
  Qed.

  Lemma exec_goto_labs : forall r s i r' s' l, exec r s i = Some (r', s', CGoto l) -> In l (inst_labs i).
  Proof.
    intros r s i r' s' l. unfold Dret.exec.
    destruct (exec_core World other (iop i) (map (eval r) (iargs i)) s) as [[[ovs s1] c1]|] eqn:E; [|discriminate].
    destruct (bind_outs r (iouts i) ovs); [|discriminate]. intros H; inversion H; subst.
    apply exec_core_goto in E. apply existsb_exists in E. destruct E as [v [Hv Ev]].
    apply in_map_iff in Hv. destruct Hv as [o [Ho Hin]]. subst v.
    unfold inst_labs. apply in_flat_map. exists o. split; auto.
    destruct o as [z|x|l0]; cbn in Ev; try discriminate. apply String.eqb_eq in Ev. subst. cbn; auto.
  Qed.

  Lemma exec_param : forall r s i r' s' c, is_param i = true -> exec r s i = Some (r', s', c) ->
    c = CNext /\ fmp s' = fmp s.
  Proof.
    intros r s i r' s' c Hp. unfold Dret.exec.
    destruct (exec_core World other (iop i) (map (eval r) (iargs i)) s) as [[[ovs s1] c1]|] eqn:E; [|discriminate].
    destruct (bind_outs r (iouts i) ovs); [|discriminate]. intros H; inversion H; subst.
    eapply exec_core_param; eauto.
  Qed.

  (* ----------------------------------------------------------------------------------------------------------- *)
  Section Sim.
    Variable e : string.
    Variable names : string -> list string.
    Variable f : func.
    Variable entry : string.

    Definition X : list string := e :: flat_map (fun b => names (blabel b)) f.
    Definition R (rs rt : env) : Prop := forall x, ~ In x X -> rs x = rt x.

    Definition inst_ok (ns : list string) (i : inst) : Prop :=
      (is_dret i = true -> exists t, tail e ns i = Some t) /\
      (forall x, In x (inst_vars i) -> ~ In x X) /\ ~ In entry (inst_labs i).

    Definition block_ok (b : block) : Prop :=
      NoDup (e :: names (blabel b)) /\ Forall (inst_ok (names (blabel b))) (body b).

    Lemma R_upd : forall rs rt x v, R rs rt -> R (upd rs x v) (upd rt x v).
    Proof. intros rs rt x v H y Hy. unfold upd. destruct (String.eqb y x); auto. Qed.

    Lemma bind_outs_R : forall outs ovs rs rt rs', bind_outs rs outs ovs = Some rs' -> R rs rt ->
      exists rt', bind_outs rt outs ovs = Some rt' /\ R rs' rt' /\ (forall x, ~ In x outs -> rt' x = rt x).
    Proof.
      induction outs as [|x outs IH]; intros [|v ovs] rs rt rs' H HR; cbn in H; try discriminate.
      - inversion H; subst. exists rt. cbn. auto.
      - destruct (IH ovs _ _ _ H (R_upd _ _ x v HR)) as [rt' [H1 [H2 H3]]].
        exists rt'. cbn. repeat split; auto. intros y Hy. rewrite H3 by tauto. apply upd_other. intros ->. tauto.
    Qed.

    Lemma exec_frame : forall i rs rt s rs' s' c,
      (forall x, In x (inst_vars i) -> ~ In x X) -> R rs rt ->
      exec rs s i = Some (rs', s', c) ->
      exists rt', exec rt s i = Some (rt', s', c) /\ R rs' rt' /\ rt' e = rt e.
    Proof.
      intros i rs rt s rs' s' c Hv HR. unfold Dret.exec.
      assert (Em : map (eval rs) (iargs i) = map (eval rt) (iargs i)).
      { apply map_eval_agree. intros x Hx. apply HR. apply Hv. unfold inst_vars. apply in_or_app. auto. }
      rewrite Em.
      destruct (exec_core World other (iop i) (map (eval rt) (iargs i)) s) as [[[ovs s1] c1]|]; [|discriminate].
      destruct (bind_outs rs (iouts i) ovs) as [rs1|] eqn:Eb; [|discriminate]. intros H; inversion H; subst.
      destruct (bind_outs_R _ _ _ _ _ Eb HR) as [rt' [H1 [H2 H3]]].
      exists rt'. rewrite H1. repeat split; auto. apply H3. intros Hx.
      apply (Hv e).
      - unfold inst_vars. apply in_or_app. auto.
      - unfold X. cbn; auto.
    Qed.

    (* the translated function *)
    Definition xb (b : block) : block := mkB (blabel b) (xl e (names (blabel b)) (body b)).

    Lemma find_block_map : forall bs l,
      find_block (map xb bs) l = option_map xb (find_block bs l).
    Proof.
      unfold find_block. induction bs as [|b bs IH]; intros l; cbn; auto.
      destruct (String.eqb (blabel b) l); auto.
    Qed.

    Lemma find_block_In : forall bs l b, find_block bs l = Some b -> In b bs.
    Proof. unfold find_block. intros bs l b H. apply find_some in H. tauto. Qed.

    Variable b0 : block.
    Variable bs : list block.
    Hypothesis Hf : f = b0 :: bs.
    Hypothesis Hentry : entry = blabel b0.
    Hypothesis Hok : forall b, In b f -> block_ok b.
    Variable b0' : block.
    Hypothesis Hb0' : blabel b0' = blabel b0.
    Let f' : func := b0' :: map xb bs.

    Lemma find_block_f' : forall l b, l <> entry -> find_block f l = Some b ->
      find_block f' l = Some (xb b) /\ In b f.
    Proof.
      intros l b Hl H. split; [|eapply find_block_In; eauto].
      rewrite Hf in H. unfold f'. unfold find_block in *. cbn [find] in *. rewrite Hb0'.
      destruct (String.eqb (blabel b0) l) eqn:E.
      - apply String.eqb_eq in E. congruence.
      - fold (find_block (map xb bs) l). rewrite find_block_map. unfold find_block. now rewrite H.
    Qed.

    Lemma sim : forall rest rs s o so, run f rest rs s o so ->
      forall ns rt, NoDup (e :: ns) -> incl ns X -> Forall (inst_ok ns) rest -> R rs rt -> rt e = fmp0 s ->
      run f' (xl e ns rest) rt s o so.
    Proof.
      induction 1 as [i rest rs s rs' s' o so He Hr IH | i rest rs s rs' s' l b o so He Hfb Hr IH | i rest rs s rs' s' vs He];
        intros ns rt Hnd Hincl Hall HR Hfe; inversion Hall as [|? ? [Hd [Hv Hl]] Hall']; subst.
      - (* next *)
        cbn [xl flat_map]. unfold xl_inst at 1.
        destruct (is_dret i) eqn:Ed.
        + (* a dret never continues *)
          exfalso. destruct i as [outs op args]. unfold is_dret in Ed. cbn [iop] in Ed. apply String.eqb_eq in Ed. subst op.
          unfold Dret.exec in He. cbn [iop iargs iouts] in He.
          destruct (exec_core World other "dret" (map (eval rs) args) s) as [[[ovs s1] c1]|] eqn:E; [|discriminate].
          destruct (exec_core_dret_inv _ _ _ _ _ E) as [dyn [vrest [ords [ps [rpc [zps [Ev [Ep Ez]]]]]]]].
          rewrite Ev in E. rewrite (exec_core_dret _ _ _ _ _ _ _ Ep Ez) in E. inversion E; subst.
          destruct (bind_outs rs outs []); [|discriminate]. inversion He.
        + destruct (exec_frame _ _ _ _ _ _ _ Hv HR He) as [rt' [He' [HR' Hfe']]].
          cbn [app]. eapply run_next; [exact He'|].
          apply IH; auto. rewrite Hfe', Hfe. symmetry. eapply exec_fmp0; eauto.
      - (* goto *)
        cbn [xl flat_map]. unfold xl_inst at 1.
        destruct (is_dret i) eqn:Ed.
        + exfalso. destruct i as [outs op args]. unfold is_dret in Ed. cbn [iop] in Ed. apply String.eqb_eq in Ed. subst op.
          unfold Dret.exec in He. cbn [iop iargs iouts] in He.
          destruct (exec_core World other "dret" (map (eval rs) args) s) as [[[ovs s1] c1]|] eqn:E; [|discriminate].
          destruct (exec_core_dret_inv _ _ _ _ _ E) as [dyn [vrest [ords [ps [rpc [zps [Ev [Ep Ez]]]]]]]].
          rewrite Ev in E. rewrite (exec_core_dret _ _ _ _ _ _ _ Ep Ez) in E. inversion E; subst.
          destruct (bind_outs rs outs []); [|discriminate]. inversion He.
        + destruct (exec_frame _ _ _ _ _ _ _ Hv HR He) as [rt' [He' [HR' Hfe']]].
          assert (Hle : l <> entry).
          { intros ->. apply Hl. eapply exec_goto_labs; eauto. }
          destruct (find_block_f' l b Hle Hfb) as [Hfb' Hin].
          destruct (Hok b Hin) as [Hndb Hallb].
          cbn [app]. eapply run_goto; [exact He'|exact Hfb'|].
          cbn [xb body]. apply IH; auto.
          * intros x Hx. unfold X. right. apply in_flat_map. exists b. auto.
          * rewrite Hfe', Hfe. symmetry. eapply exec_fmp0; eauto.
      - (* halt *)
        cbn [xl flat_map]. unfold xl_inst at 1.
        destruct (is_dret i) eqn:Ed.
        + destruct (Hd eq_refl) as [t Ht]. rewrite Ht.
          eapply tail_sound; eauto.
          * intros x Hx Hn. apply (Hv x).
            -- unfold inst_vars. apply in_or_app. auto.
            -- destruct Hn as [<-|Hn]; [unfold X; cbn; auto|]. now apply Hincl.
          * intros x Hx. apply HR. apply Hv. unfold inst_vars. apply in_or_app. auto.
        + destruct (exec_frame _ _ _ _ _ _ _ Hv HR He) as [rt' [He' [HR' Hfe']]].
          cbn [app]. eapply run_halt. exact He'.
    Qed.

    (* the entry block *)
    Lemma sim_entry : forall ps rest ns,
      Forall (fun i => is_param i = true) ps -> Forall (inst_ok ns) ps -> Forall (inst_ok ns) rest ->
      NoDup (e :: ns) -> incl ns X ->
      forall rs rt s o so, run f (ps ++ rest) rs s o so -> R rs rt -> fmp0 s = fmp s ->
      run f' (ps ++ mkI [e] "getfmp" [] :: xl e ns rest) rt s o so.
    Proof.
      induction ps as [|i ps IH]; intros rest ns Hp Hokp Hokr Hnd Hincl rs rt s o so Hr HR Hf0.
      - cbn [app] in *. eapply run_next; [apply exec_getfmp|].
        eapply sim; eauto.
        + intros x Hx. unfold upd. destruct (String.eqb x e) eqn:E; [|now apply HR].
          apply String.eqb_eq in E. subst x. exfalso. apply Hx. unfold X. cbn; auto.
        + rewrite upd_same. auto.
      - inversion Hp as [|? ? Hpi Hp']; subst. inversion Hokp as [|? ? [Hd [Hv Hl]] Hokp']; subst.
        cbn [app] in *. inversion Hr as [? ? ? ? rs' s' ? ? He Hr' | ? ? ? ? rs' s' l b ? ? He Hfb Hr' | ? ? ? ? rs' s' ? He]; subst.
        + destruct (exec_param _ _ _ _ _ _ Hpi He) as [_ Hfmp].
          destruct (exec_frame _ _ _ _ _ _ _ Hv HR He) as [rt' [He' [HR' Hfe']]].
          eapply run_next; [exact He'|]. eapply IH; eauto.
          rewrite Hfmp, <- Hf0. eapply exec_fmp0; eauto.
        + destruct (exec_param _ _ _ _ _ _ Hpi He) as [Hc _]. discriminate.
        + destruct (exec_param _ _ _ _ _ _ Hpi He) as [Hc _]. discriminate.
    Qed.
  End Sim.
End Proofs.

(* ------------------------------------------------------------------------------------------------------------- *)
(* the checker *)
Lemma span_params_spec : forall l ps rest, span_params l = (ps, rest) ->
  l = ps ++ rest /\ Forall (fun i => is_param i = true) ps.
Proof.
  induction l as [|i l IH]; cbn; intros ps rest H.
  - inversion H; subst. auto.
  - destruct (is_param i) eqn:E.
    + destruct (span_params l) as [p q]. inversion H; subst. destruct (IH p rest eq_refl) as [H1 H2].
      split; [cbn; now f_equal | constructor; auto].
    + inversion H; subst. auto.
Qed.

Lemma side_ok_spec : forall e names b0 bs, side_ok e names (b0 :: bs) = true ->
  forall b, In b (b0 :: bs) -> block_ok e names (b0 :: bs) (blabel b0) b.
Proof.
  intros e names b0 bs H b Hb. unfold side_ok in H. rewrite forallb_forall in H. specialize (H b Hb).
  apply andb_true_iff in H. destruct H as [H H3]. apply andb_true_iff in H. destruct H as [H1 H2].
  split; [now apply nodup_str_NoDup|].
  apply Forall_forall. intros i Hi.
  rewrite forallb_forall in H2, H3. specialize (H2 i Hi). specialize (H3 i Hi).
  apply andb_true_iff in H3. destruct H3 as [H3 H4].
  split; [|split].
  - intros Hd. rewrite Hd in H2. destruct (tail e (names (blabel b)) i); [eauto|discriminate].
  - intros x Hx. rewrite forallb_forall in H3. specialize (H3 x Hx). apply negb_true_iff in H3.
    apply mem_str_false in H3. exact H3.
  - apply negb_true_iff in H4. now apply mem_str_false.
Qed.

Theorem dret_check_sound : forall World other f f' r s o so,
  dret_check f f' = true ->
  run_func World other f r s o so -> run_func World other f' r s o so.
Proof.
  intros World other f f' r s o so Hc Hr. unfold dret_check in Hc.
  destruct (has_dret f).
  2:{ apply func_eqb_eq in Hc. now subst. }
  destruct (entry_var f f') as [e|]; [|discriminate].
  set (names := lookup (names_table true f f')) in *.
  apply andb_true_iff in Hc. destruct Hc as [Hs He]. apply func_eqb_eq in He.
  destruct f as [|b0 bs]; [cbn in Hs; discriminate|].
  pose proof (side_ok_spec e names b0 bs Hs) as Hok.
  unfold desugar in He. destruct (span_params (body b0)) as [ps rest] eqn:Esp.
  destruct (span_params_spec _ _ _ Esp) as [Hbody Hps].
  rewrite He. unfold run_func in *. destruct Hr as [Hf0 Hr]. split; [exact Hf0|].
  cbn [body]. rewrite Hbody in Hr.
  destruct (Hok b0 (or_introl eq_refl)) as [Hnd Hall]. rewrite Hbody in Hall.
  apply Forall_app in Hall. destruct Hall as [Hall1 Hall2].
  eapply (sim_entry World other e names (b0 :: bs) (blabel b0) b0 bs eq_refl eq_refl Hok
            (mkB (blabel b0) (ps ++ mkI [e] "getfmp" [] :: xl e (names (blabel b0)) rest)) eq_refl
            ps rest (names (blabel b0))); eauto.
  - intros x Hx. unfold X. right. cbn [flat_map]. apply in_or_app. auto.
  - intros x Hx. reflexivity.
Qed.
