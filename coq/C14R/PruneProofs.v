(* C14R: soundness of the FmpPrunePass validator (Prune.v). *)
From Coq Require Import ZArith List String Bool Lia.
From Verif Require Import C14R.Dret C14R.DretProofs C14R.Prune.
Import ListNotations.
Open Scope string_scope.
Open Scope list_scope.
Open Scope Z_scope.

Set Default Timeout 60.

Arguments fmp {World} _.
Arguments fmp0 {World} _.
Arguments mem {World} _.
Arguments pargs {World} _.
Arguments world {World} _.
Arguments mkS {World}.

Lemma mem_str_true : forall x l, mem_str x l = true -> In x l.
Proof.
  unfold mem_str. intros x l H. apply existsb_exists in H. destruct H as [y [Hy E]].
  apply String.eqb_eq in E. now subst.
Qed.

Section P.
  Variable World : Type.
  Variable other : string -> list val -> Z * memory * World -> option (list Z * (Z * memory * World) * ctl).
  (* assign and phi only bind their outputs *)
  Hypothesis Hpure : forall op vs w ovs w' c,
    pure_op op = true -> other op vs w = Some (ovs, w', c) -> w' = w /\ c = CNext.

  Local Notation exec := (exec World other).
  Local Notation run := (run World other).
  Local Notation state := (st World).

  Definition set_pargs (s : state) (l : list Z) : state := mkS (fmp s) (fmp0 s) (mem s) l (world s).

  Variable D : list string.
  Definition RD (rs rt : env) : Prop := forall x, ~ In x D -> rs x = rt x.

  Lemma bind_outs_other : forall outs ovs r r', bind_outs r outs ovs = Some r' ->
    forall x, ~ In x outs -> r' x = r x.
  Proof.
    induction outs as [|y outs IH]; intros [|v ovs] r r' H x Hx; cbn in H; try discriminate.
    - now inversion H.
    - rewrite (IH _ _ _ H x) by (intros Hi; apply Hx; cbn; auto).
      apply upd_other. intros ->. apply Hx. cbn; auto.
  Qed.

  Lemma bind_outs_RD : forall outs ovs rs rt rs', bind_outs rs outs ovs = Some rs' -> RD rs rt ->
    exists rt', bind_outs rt outs ovs = Some rt' /\ RD rs' rt'.
  Proof.
    induction outs as [|x outs IH]; intros [|v ovs] rs rt rs' H HR; cbn in H; try discriminate.
    - inversion H; subst. exists rt. cbn. auto.
    - apply (IH ovs (upd rs x v) (upd rt x v)); auto.
      intros y Hy. unfold upd. destruct (String.eqb y x); auto.
  Qed.

  Lemma exec_outs_only : forall r s i r' s' c, exec r s i = Some (r', s', c) ->
    forall x, ~ In x (iouts i) -> r' x = r x.
  Proof.
    intros r s i r' s' c. unfold Dret.exec.
    destruct (exec_core World other (iop i) (map (eval r) (iargs i)) s) as [[[ovs s1] c1]|]; [|discriminate].
    destruct (bind_outs r (iouts i) ovs) as [r1|] eqn:Eb; [|discriminate]. intros H; inversion H; subst.
    eapply bind_outs_other; eauto.
  Qed.

  Lemma exec_frame_D : forall i rs rt s rs' s' c,
    (forall x, In x (flat_map opnd_var (iargs i)) -> ~ In x D) -> RD rs rt ->
    exec rs s i = Some (rs', s', c) ->
    exists rt', exec rt s i = Some (rt', s', c) /\ RD rs' rt'.
  Proof.
    intros i rs rt s rs' s' c Hv HR. unfold Dret.exec.
    assert (Em : map (eval rs) (iargs i) = map (eval rt) (iargs i)).
    { apply map_eval_agree. intros x Hx. apply HR. now apply Hv. }
    rewrite Em.
    destruct (exec_core World other (iop i) (map (eval rt) (iargs i)) s) as [[[ovs s1] c1]|]; [|discriminate].
    destruct (bind_outs rs (iouts i) ovs) as [rs1|] eqn:Eb; [|discriminate]. intros H; inversion H; subst.
    destruct (bind_outs_RD _ _ _ _ _ Eb HR) as [rt' [H1 H2]].
    exists rt'. rewrite H1. auto.
  Qed.

  Lemma exec_core_pure : forall op vs (s : state), pure_op op = true ->
    exec_core World other op vs s =
    match other op vs (fmp s, mem s, world s) with
    | Some (ovs, (f, m, w), c) =>
        if match c with CGoto l => existsb (val_eqb (VL l)) vs | _ => true end
        then Some (ovs, mkS f (fmp0 s) m (pargs s) w, c) else None
    | None => None
    end.
  Proof.
    intros op vs s H. unfold pure_op in H. apply orb_true_iff in H.
    destruct H as [H|H]; apply String.eqb_eq in H; subst op; reflexivity.
  Qed.

  Lemma exec_pure : forall r s i r' s' c, pure_op (iop i) = true -> exec r s i = Some (r', s', c) ->
    s' = s /\ c = CNext.
  Proof.
    intros r s i r' s' c Hp. unfold Dret.exec. rewrite (exec_core_pure _ _ _ Hp).
    destruct (other (iop i) (map (eval r) (iargs i)) (fmp s, mem s, world s)) as [[[ovs [[f m] w]] c1]|] eqn:Eo; [|discriminate].
    destruct (Hpure _ _ _ _ _ _ Hp Eo) as [Hw Hc]. inversion Hw; subst.
    destruct (bind_outs r (iouts i) ovs); [|discriminate]. intros H; inversion H; subst.
    split; auto. destruct s; reflexivity.
  Qed.

  Lemma param_exec : forall r (s : state) a l i r' s' c, is_param i = true ->
    exec r (set_pargs s (a :: l)) i = Some (r', s', c) ->
    s' = set_pargs s l /\ c = CNext /\
    forall l2, exec r (set_pargs s (a :: l2)) i = Some (r', set_pargs s l2, CNext).
  Proof.
    intros r s a l i r' s' c Hp. unfold is_param in Hp. unfold Dret.exec, exec_core. rewrite Hp.
    cbn [pargs set_pargs fmp fmp0 mem world].
    destruct (bind_outs r (iouts i) [a]) as [r1|]; [|discriminate]. intros H; inversion H; subst.
    repeat split; auto.
  Qed.

  (* ----------------------------------------------------------------------------------------------------------- *)
  Definition inst_okP (entry : string) (i : inst) : Prop :=
    (has_out_in D i = true -> (forall x, In x (iouts i) -> In x D) /\ pure_op (iop i) = true) /\
    (has_out_in D i = false -> forall x, In x (flat_map opnd_var (iargs i)) -> ~ In x D) /\
    (pure_op (iop i) = true \/ ~ In entry (inst_labs i)).

  Definition pb (b : block) : block := mkB (blabel b) (prune_body D (body b)).

  Lemma find_block_map_pb : forall bs l, find_block (map pb bs) l = option_map pb (find_block bs l).
  Proof.
    unfold find_block. induction bs as [|b bs IH]; intros l; cbn; auto.
    destruct (String.eqb (blabel b) l); auto.
  Qed.

  Variable b0 : block.
  Variable bs : list block.
  Let f : func := b0 :: bs.
  Hypothesis Hok : forall b, In b bs -> Forall (inst_okP (blabel b0)) (body b).
  Variable b0' : block.
  Hypothesis Hb0' : blabel b0' = blabel b0.
  Let f' : func := b0' :: map pb bs.

  Lemma find_block_pf' : forall l b, l <> blabel b0 -> find_block f l = Some b ->
    find_block f' l = Some (pb b) /\ In b bs.
  Proof.
    intros l b Hl H. unfold f in H. unfold f'. unfold find_block in *. cbn [find] in *. rewrite Hb0'.
    destruct (String.eqb (blabel b0) l) eqn:E.
    - apply String.eqb_eq in E. congruence.
    - split.
      + fold (find_block (map pb bs) l). rewrite find_block_map_pb. unfold find_block. now rewrite H.
      + apply find_some in H. tauto.
  Qed.

  Lemma simD : forall rest rs s o so, run f rest rs s o so ->
    forall rt, Forall (inst_okP (blabel b0)) rest -> RD rs rt ->
    run f' (prune_body D rest) rt s o so.
  Proof.
    induction 1 as [i rest rs s rs' s' o so He Hr IH | i rest rs s rs' s' l b o so He Hfb Hr IH | i rest rs s rs' s' vs He];
      intros rt Hall HR; inversion Hall as [|? ? [Hrem [Hkeep Hl]] Hall']; subst;
      unfold prune_body; cbn [filter]; fold (prune_body D rest); destruct (has_out_in D i) eqn:Eh; cbn [negb].
    - destruct (Hrem eq_refl) as [Houts Hp]. destruct (exec_pure _ _ _ _ _ _ Hp He) as [-> _].
      apply IH; auto. intros x Hx. rewrite <- (HR x Hx). eapply exec_outs_only; eauto.
    - destruct (exec_frame_D _ _ _ _ _ _ _ (Hkeep eq_refl) HR He) as [rt' [He' HR']].
      eapply run_next; eauto.
    - destruct (Hrem eq_refl) as [Houts Hp]. destruct (exec_pure _ _ _ _ _ _ Hp He) as [_ Hc]. discriminate.
    - destruct (exec_frame_D _ _ _ _ _ _ _ (Hkeep eq_refl) HR He) as [rt' [He' HR']].
      assert (Hle : l <> blabel b0).
      { destruct Hl as [Hp|Hl].
        - destruct (exec_pure _ _ _ _ _ _ Hp He) as [_ Hc]. discriminate.
        - intros ->. apply Hl. eapply exec_goto_labs; eauto. }
      destruct (find_block_pf' l b Hle Hfb) as [Hfb' Hin].
      eapply run_goto; [exact He'|exact Hfb'|]. cbn [pb body]. apply IH; auto.
    - destruct (Hrem eq_refl) as [Houts Hp]. destruct (exec_pure _ _ _ _ _ _ Hp He) as [_ Hc]. discriminate.
    - destruct (exec_frame_D _ _ _ _ _ _ _ (Hkeep eq_refl) HR He) as [rt' [He' HR']].
      eapply run_halt; eauto.
  Qed.

  Lemma sim_front : forall front fp rest' A1 h A2 rs rt (s : state) o so,
    Forall (fun i => is_param i = true /\ forall x, In x (flat_map opnd_var (iargs i)) -> ~ In x D) front ->
    is_param fp = true -> (forall x, In x (iouts fp) -> In x D) ->
    Forall (inst_okP (blabel b0)) rest' ->
    List.length A1 = List.length front ->
    run f (front ++ fp :: rest') rs (set_pargs s (A1 ++ h :: A2)) o so -> RD rs rt ->
    run f' (front ++ prune_body D rest') rt (set_pargs s (A1 ++ A2)) o so.
  Proof.
    induction front as [|i front IH]; intros fp rest' A1 h A2 rs rt s o so Hfr Hfp Hfpo Hrest Hlen Hr HR.
    - destruct A1; [|discriminate]. cbn [app] in *.
      inversion Hr as [? ? ? ? rs' s' ? ? He Hr' | ? ? ? ? rs' s' l b ? ? He Hfb Hr' | ? ? ? ? rs' s' ? He]; subst;
        destruct (param_exec _ _ _ _ _ _ _ _ Hfp He) as [Hs [Hc _]]; try discriminate.
      subst s'. eapply simD; [exact Hr'|exact Hrest|].
      intros x Hx. rewrite <- (HR x Hx). eapply exec_outs_only; [exact He|]. intros Hi. apply Hx. now apply Hfpo.
    - destruct A1 as [|a A1]; [discriminate|]. cbn [app] in *.
      inversion Hfr as [|? ? [Hpi Hargs] Hfr']; subst.
      inversion Hr as [? ? ? ? rs' s' ? ? He Hr' | ? ? ? ? rs' s' l b ? ? He Hfb Hr' | ? ? ? ? rs' s' ? He]; subst;
        destruct (param_exec _ _ _ _ _ _ _ _ Hpi He) as [Hs [Hc Hall]]; try discriminate.
      subst s'.
      destruct (exec_frame_D _ _ _ _ _ _ _ Hargs HR He) as [rt' [He' HR']].
      destruct (param_exec _ _ _ _ _ _ _ _ Hpi He') as [_ [_ Hall']].
      eapply run_next; [apply (Hall' (A1 ++ A2))|].
      eapply (IH fp rest' A1 h A2 rs' rt'); eauto.
  Qed.
End P.

(* ------------------------------------------------------------------------------------------------------------- *)
Lemma span_front_spec : forall l p q, span_front l = (p, q) ->
  l = p ++ q /\ Forall (fun i => is_param i = true) p.
Proof.
  induction l as [|i l IH]; cbn; intros p q H.
  - inversion H; subst. auto.
  - destruct (is_param i && negb (is_fmp_param i)) eqn:E.
    + destruct (span_front l) as [p1 q1]. inversion H; subst. destruct (IH p1 q eq_refl) as [H1 H2].
      apply andb_true_iff in E. destruct E as [E _].
      split; [cbn; now f_equal | constructor; auto].
    + inversion H; subst. auto.
Qed.

Lemma inst_okb_spec : forall D entry i,
  inst_okb D i = true -> pure_op (iop i) || negb (mem_str entry (inst_labs i)) = true -> inst_okP D entry i.
Proof.
  intros D entry i H Hl. unfold inst_okb in H. split; [|split].
  - intros Eh. rewrite Eh in H. unfold removable in H. apply andb_true_iff in H. destruct H as [H1 H2].
    split; auto. intros x Hx. rewrite forallb_forall in H1. apply mem_str_true. now apply H1.
  - intros Eh. rewrite Eh in H. unfold uses_none in H. rewrite forallb_forall in H.
    intros x Hx. apply mem_str_false. apply negb_true_iff. now apply H.
  - apply orb_true_iff in Hl. destruct Hl as [Hl|Hl]; [left; auto|right]. apply mem_str_false. now apply negb_true_iff.
Qed.

Lemma body_ok_spec : forall D entry l,
  body_ok D l = true -> forallb (fun i => pure_op (iop i) || negb (mem_str entry (inst_labs i))) l = true ->
  Forall (inst_okP D entry) l.
Proof.
  intros D entry l H1 H2. unfold body_ok in H1. rewrite forallb_forall in H1, H2.
  apply Forall_forall. intros i Hi. apply inst_okb_spec; auto.
Qed.

Theorem prune_check_sound : forall World other,
  (forall op vs w ovs w' c, pure_op op = true -> other op vs w = Some (ovs, w', c) -> w' = w /\ c = CNext) ->
  forall p D f f', prune_check p D f f' = true ->
  forall r s A1 h A2 o so, List.length A1 = hidden_index f ->
    run_func World other f r (set_pargs World s (A1 ++ h :: A2)) o so ->
    run_func World other f' r (set_pargs World s (A1 ++ A2)) o so.
Proof.
  intros World other Hpure p D f f' Hc r s A1 h A2 o so Hlen Hr.
  unfold prune_check in Hc. destruct f as [|b0 bs]; [discriminate|].
  unfold hidden_index in Hlen.
  destruct (span_front (body b0)) as [front rest] eqn:Esp. cbn [fst] in Hlen.
  destruct rest as [|fp rest']; [discriminate|].
  repeat (apply andb_true_iff in Hc; let H := fresh "C" in destruct Hc as [Hc H]).
  rename C into Ceq, C0 into Clabs, C1 into Cbs, C2 into Crest, C3 into Cfront, C4 into Cfo, C5 into CpD, C6 into Couts.
  apply func_eqb_eq in Ceq.
  unfold prune_func in Ceq. rewrite Esp in Ceq. cbn [tl] in Ceq.
  destruct (span_front_spec _ _ _ Esp) as [Hbody Hpar].
  cbn [forallb] in Clabs. apply andb_true_iff in Clabs. destruct Clabs as [Cl0 Clbs].
  rewrite Hbody in Cl0. rewrite forallb_app in Cl0. apply andb_true_iff in Cl0. destruct Cl0 as [Clf Clr].
  cbn [forallb] in Clr. apply andb_true_iff in Clr. destruct Clr as [_ Clr].
  assert (Hfp : is_param fp = true).
  { unfold is_fmp_param in Hc. apply String.eqb_eq in Hc. unfold is_param. rewrite Hc. reflexivity. }
  assert (Hfpo : forall x, In x (iouts fp) -> In x D).
  { apply (list_eqb_eq _ String.eqb) in Couts; [|intros; now apply String.eqb_eq].
    rewrite Couts. intros x [<-|[]]. now apply mem_str_true. }
  assert (Hrest : Forall (inst_okP D (blabel b0)) rest') by (apply body_ok_spec; auto).
  assert (Hbs : forall b, In b bs -> Forall (inst_okP D (blabel b0)) (body b)).
  { intros b Hb. rewrite forallb_forall in Cbs, Clbs. apply body_ok_spec; auto. }
  assert (Hfront : Forall (fun i => is_param i = true /\ forall x, In x (flat_map opnd_var (iargs i)) -> ~ In x D) front).
  { apply Forall_forall. intros i Hi. split; [rewrite Forall_forall in Hpar; auto|].
    unfold body_ok in Cfront. rewrite forallb_forall in Cfront, Cfo. specialize (Cfront i Hi). specialize (Cfo i Hi).
    apply negb_true_iff in Cfo. unfold inst_okb in Cfront. rewrite Cfo in Cfront.
    unfold uses_none in Cfront. rewrite forallb_forall in Cfront.
    intros x Hx. apply mem_str_false. apply negb_true_iff. now apply Cfront. }
  rewrite Ceq. unfold run_func in *. destruct Hr as [Hf0 Hr]. split; [exact Hf0|].
  cbn [body]. rewrite Hbody in Hr.
  eapply (sim_front World other Hpure D b0 bs Hbs
            (mkB (blabel b0) (front ++ prune_body D rest')) eq_refl front fp rest' A1 h A2 r r s o so); eauto.
  intros x Hx. reflexivity.
Qed.

Print Assumptions prune_check_sound.
