(* C14R: summary of the DretDesugarPass validator.
   dret_desugar_sound : acceptance by the checker implies that every terminating execution of the function with
                        `dret` as a primitive is an execution of the pass' output (same returned values, published
                        FMP, memory, world);
   pack_correct       : what the caller observes after a `dret` under the producer contract. *)
From Coq Require Import ZArith List String Bool Lia.
From Verif Require Import C14R.Dret C14R.DretProofs.
Import ListNotations.
Open Scope list_scope.
Open Scope Z_scope.

Set Default Timeout 60.

Theorem dret_desugar_sound : forall World other f f' r s o so,
  dret_check f f' = true ->
  run_func World other f r s o so -> run_func World other f' r s o so.
Proof. exact dret_check_sound. Qed.

(* the desugared tail alone: the emitted instructions compute `pack` *)
Definition dret_tail_sound := tail_sound.

(* ------------------------------------------------------------------------------------------------------------- *)
(* ideal arithmetic *)
Definition c32 (n : Z) : Z := 32 * ((n + 31) / 32).

Lemma W_val : W = 2 ^ 256.
Proof. reflexivity. Qed.

Lemma testbit_high : forall x n, 0 <= x < 2 ^ 256 -> 256 <= n -> Z.testbit x n = false.
Proof.
  intros x n Hx Hn. destruct (Z.eq_dec x 0) as [->|Hz]; [apply Z.testbit_0_l|].
  apply Z.bits_above_log2; [lia|]. apply Z.lt_le_trans with 256; [|lia].
  apply Z.log2_lt_pow2; lia.
Qed.

Lemma land_align : forall x, 0 <= x < 2 ^ 256 -> Z.land (2 ^ 256 - 1 - 31) x = 32 * (x / 32).
Proof.
  intros x Hx.
  replace (2 ^ 256 - 1 - 31) with (Z.shiftl (Z.ones 251) 5) by (vm_compute; reflexivity).
  replace (32 * (x / 32)) with (Z.shiftl (Z.shiftr x 5) 5)
    by (rewrite Z.shiftl_mul_pow2, Z.shiftr_div_pow2 by lia; change (2 ^ 5) with 32; lia).
  apply Z.bits_inj'. intros n Hn. rewrite Z.land_spec.
  destruct (Z.ltb_spec n 5).
  - rewrite !Z.shiftl_spec_low by lia. reflexivity.
  - rewrite !Z.shiftl_spec by lia. rewrite Z.shiftr_spec by lia. replace (n - 5 + 5) with n by lia.
    destruct (Z.ltb_spec n 256).
    + rewrite Z.ones_spec_low by lia. reflexivity.
    + rewrite Z.ones_spec_high by lia. cbn [andb]. symmetry. apply testbit_high; lia.
Qed.

Lemma c32w_c32 : forall n, 0 <= n -> n + 31 < W -> c32w n = c32 n.
Proof.
  intros n H0 H1. unfold c32w, addw, notw, c32. rewrite W_val in *.
  rewrite (Z.mod_small (31 + n)) by lia. rewrite land_align by lia. f_equal. f_equal. lia.
Qed.

Lemma c32_ge : forall n, 0 <= n -> n <= c32 n.
Proof.
  intros n H. unfold c32. pose proof (Z.div_mod (n + 31) 32 ltac:(lia)). pose proof (Z.mod_pos_bound (n + 31) 32 ltac:(lia)). lia.
Qed.

Fixpoint total (ps : list (Z * Z)) : Z := match ps with [] => 0 | (_, n) :: r => c32 n + total r end.

Lemma total_nonneg : forall ps, (forall s n, In (s, n) ps -> 0 <= n) -> 0 <= total ps.
Proof.
  induction ps as [|[s n] ps IH]; intros H; cbn [total]; [lia|].
  pose proof (c32_ge n (H s n (or_introl eq_refl))). pose proof (H s n (or_introl eq_refl)).
  assert (0 <= total ps) by (apply IH; intros; eapply H; right; eauto). lia.
Qed.

(* the producer contract: no earlier pack destination overlaps a later source *)
Fixpoint no_clobber (d : Z) (ps : list (Z * Z)) : Prop :=
  match ps with
  | [] => True
  | (_, n) :: r =>
      (forall s' n' j j', In (s', n') r -> 0 <= j < n -> 0 <= j' < n' -> d + j <> s' + j') /\
      no_clobber (d + c32 n) r
  end.

(* the packed result: consecutive 32-byte aligned slots from d, each holding the ORIGINAL contents of its source *)
Inductive packed (m m' : memory) : Z -> list (Z * Z) -> list Z -> Prop :=
| packed_nil : forall d, packed m m' d [] []
| packed_cons : forall d s n ps ds,
    (forall j, 0 <= j < n -> m' (d + j) = m (s + j)) ->
    packed m m' (d + c32 n) ps ds -> packed m m' d ((s, n) :: ps) (d :: ds).

Lemma packed_ext : forall m1 m m' d ps ds,
  packed m1 m' d ps ds ->
  (forall s n j, In (s, n) ps -> 0 <= j < n -> m1 (s + j) = m (s + j)) ->
  packed m m' d ps ds.
Proof.
  induction 1 as [d|d s n ps ds H1 H2 IH]; intros He; constructor.
  - intros j Hj. rewrite H1 by auto. apply (He s n j); cbn; auto.
  - apply IH. intros. eapply He; eauto. right; eauto.
Qed.

Theorem pack_correct : forall ps d m ds f m',
  0 <= d -> (forall s n, In (s, n) ps -> 0 <= n) -> d + total ps < W ->
  no_clobber d ps ->
  pack d ps m = (ds, f, m') ->
  f = d + total ps /\ packed m m' d ps ds /\ (forall a, a < d \/ f <= a -> m' a = m a).
Proof.
  induction ps as [|[s n] ps IH]; intros d m ds f m' Hd Hn Hw Hc Hp.
  - cbn in Hp. inversion Hp; subst. cbn [total]. split; [lia|]. split; [apply packed_nil|auto].
  - cbn [pack] in Hp. cbn [total] in Hw. cbn [no_clobber] in Hc. destruct Hc as [Hc1 Hc2].
    assert (Hn0 : 0 <= n) by (eapply Hn; left; eauto).
    assert (Hn' : forall s0 n0, In (s0, n0) ps -> 0 <= n0) by (intros; eapply Hn; right; eauto).
    pose proof (total_nonneg ps Hn') as Ht. pose proof (c32_ge n Hn0) as Hge.
    assert (Hn31 : n + 31 < W).
    { assert (EW : W = 32 * 2 ^ 251) by reflexivity. revert Hw Ht Hd. rewrite EW. generalize (2 ^ 251). unfold c32.
      intros K Hw Ht Hd. pose proof (Z.div_mod (n + 31) 32 ltac:(lia)). pose proof (Z.mod_pos_bound (n + 31) 32 ltac:(lia)). lia. }
    assert (Ea : addw (c32w n) d = d + c32 n).
    { rewrite c32w_c32 by lia. unfold addw. rewrite Z.mod_small by lia. lia. }
    rewrite Ea in Hp.
    destruct (pack (d + c32 n) ps (mcopy m d s n)) as [[ds1 f1] m1'] eqn:Ep. inversion Hp; subst ds f m'. clear Hp.
    destruct (IH (d + c32 n) (mcopy m d s n) ds1 f1 m1' ltac:(lia) Hn' ltac:(lia) Hc2 Ep) as [Hf [Hpk Hout]].
    cbn [total]. split; [lia|]. split.
    + constructor.
      * intros j Hj. rewrite Hout by lia. unfold mcopy.
        replace ((d <=? d + j) && (d + j <? d + n)) with true
          by (symmetry; apply andb_true_iff; split; [apply Z.leb_le|apply Z.ltb_lt]; lia).
        f_equal. lia.
      * eapply packed_ext; [exact Hpk|].
        intros s0 n0 j Hin Hj. unfold mcopy.
        destruct ((d <=? s0 + j) && (s0 + j <? d + n)) eqn:E; auto.
        apply andb_true_iff in E. destruct E as [E1 E2]. apply Z.leb_le in E1. apply Z.ltb_lt in E2.
        exfalso. apply (Hc1 s0 n0 (s0 + j - d) j Hin); lia.
    + intros a Ha. rewrite Hout by lia. unfold mcopy.
      destruct ((d <=? a) && (a <? d + n)) eqn:E; auto.
      apply andb_true_iff in E. destruct E as [E1 E2]. apply Z.leb_le in E1. apply Z.ltb_lt in E2. lia.
Qed.

(* a sufficient condition: the sources lie, in operand order, in consecutive ceil32 slots at or above the entry FMP
   (what a producer gets from allocating the buffers with dalloca in return order) *)
Fixpoint laid_out (lo : Z) (ps : list (Z * Z)) : Prop :=
  match ps with [] => True | (s, n) :: r => lo <= s /\ 0 <= n /\ laid_out (s + c32 n) r end.

Lemma laid_out_lower : forall ps lo s n, laid_out lo ps -> In (s, n) ps -> lo <= s.
Proof.
  induction ps as [|[s0 n0] ps IH]; intros lo s n H Hin; [destruct Hin|].
  cbn [laid_out] in H. destruct H as [H1 [H2 H3]]. destruct Hin as [E|Hin].
  - inversion E; subst. lia.
  - pose proof (IH _ _ _ H3 Hin). pose proof (c32_ge n0 H2). lia.
Qed.

Lemma laid_out_no_clobber : forall ps d lo, d <= lo -> laid_out lo ps -> no_clobber d ps.
Proof.
  induction ps as [|[s n] ps IH]; intros d lo Hd H; cbn [no_clobber]; auto.
  cbn [laid_out] in H. destruct H as [H1 [H2 H3]]. split.
  - intros s' n' j j' Hin Hj Hj'. pose proof (laid_out_lower _ _ _ _ H3 Hin). pose proof (c32_ge n H2). lia.
  - eapply IH; [|exact H3]. lia.
Qed.

Print Assumptions dret_desugar_sound.
Print Assumptions dret_tail_sound.
Print Assumptions pack_correct.
Print Assumptions laid_out_no_clobber.
