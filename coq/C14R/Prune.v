(* C14R: validator for FmpPrunePass (vyper/venom/passes/fmp_lowering.py): deletion of a dead hidden `fmp_param`
   together with its assign/phi use chain.  Syntax and semantics: Dret.v.
   prune_check p D f f': D is the set of deleted variables (the outputs of the deleted instructions), p the output of
   the deleted fmp_param.  The checker recomputes the deletion (`prune_func`), compares it with the real output and
   checks that only the entry fmp_param and assign / phi instructions are deleted, that all their outputs are in D, and
   that no surviving instruction reads a variable of D.  Theorem: PruneProofs.v. *)
From Coq Require Import ZArith List String Bool Lia.
From Verif Require Import C14R.Dret.
Import ListNotations.
Open Scope string_scope.
Open Scope list_scope.
Open Scope Z_scope.

Definition has_out_in (D : list string) (i : inst) : bool := existsb (fun x => mem_str x D) (iouts i).
Definition prune_body (D : list string) (l : list inst) : list inst := filter (fun i => negb (has_out_in D i)) l.

Definition pure_op (op : string) : bool := String.eqb op "assign" || String.eqb op "phi".
Definition removable (D : list string) (i : inst) : bool :=
  forallb (fun x => mem_str x D) (iouts i) && pure_op (iop i).
Definition uses_none (D : list string) (i : inst) : bool :=
  forallb (fun x => negb (mem_str x D)) (flat_map opnd_var (iargs i)).
Definition inst_okb (D : list string) (i : inst) : bool :=
  if has_out_in D i then removable D i else uses_none D i.
Definition body_ok (D : list string) (l : list inst) : bool := forallb (inst_okb D) l.

Definition is_fmp_param (i : inst) : bool := String.eqb (iop i) "fmp_param".

(* the params in front of the hidden fmp_param *)
Fixpoint span_front (l : list inst) : list inst * list inst :=
  match l with
  | i :: r => if is_param i && negb (is_fmp_param i) then let '(p, q) := span_front r in (i :: p, q) else ([], l)
  | [] => ([], [])
  end.

Definition prune_func (D : list string) (f : func) : func :=
  match f with
  | b0 :: bs =>
      let '(front, rest) := span_front (body b0) in
      mkB (blabel b0) (front ++ prune_body D (tl rest))
        :: map (fun b => mkB (blabel b) (prune_body D (body b))) bs
  | [] => []
  end.

Definition prune_check (p : string) (D : list string) (f f' : func) : bool :=
  match f with
  | b0 :: bs =>
      let '(front, rest) := span_front (body b0) in
      match rest with
      | fp :: rest' =>
          is_fmp_param fp && list_eqb String.eqb (iouts fp) [p] && mem_str p D
          && forallb (fun i => negb (has_out_in D i)) front
          && body_ok D front
          && body_ok D rest'
          && forallb (fun b => body_ok D (body b)) bs
          && forallb (fun b => forallb (fun i => pure_op (iop i) || negb (mem_str (blabel b0) (inst_labs i))) (body b)) f
          && func_eqb f' (prune_func D f)
      | [] => false
      end
  | [] => false
  end.

(* position of the hidden param among the values the params bind *)
Definition hidden_index (f : func) : nat :=
  match f with b0 :: _ => List.length (fst (span_front (body b0))) | [] => O end.
