(* C14R: validator for DretDesugarPass (vyper/venom/passes/fmp_lowering.py).

   Syntax of Venom functions (operands in the order of IRInstruction.operands, i.e. the LAST operand is the top of
   the stack), a small-step semantics in which `dret` is a primitive (the in-order pack of the returned buffers at the
   function-entry FMP, see `pack`), a Gallina model `desugar` of the pass and the checker `dret_check` that compares
   the pass' real output with the model (the fresh names are read off the real output) and checks their freshness.
   Theorems: DretProofs.v / PropsDret.v. *)
From Coq Require Import ZArith List String Bool Lia.
Import ListNotations.
Open Scope string_scope.
Open Scope list_scope.
Open Scope Z_scope.

Definition W : Z := 2 ^ 256.

Inductive opnd := Lit (z : Z) | Var (x : string) | Lab (l : string).
Record inst := mkI { iouts : list string; iop : string; iargs : list opnd }.
Record block := mkB { blabel : string; body : list inst }.
Definition func := list block.          (* head = entry block *)

(* ------------------------------------------------------------------------------------------------------------- *)
(* decidable equalities *)
Definition opnd_eqb (a b : opnd) : bool :=
  match a, b with
  | Lit x, Lit y => Z.eqb x y
  | Var x, Var y => String.eqb x y
  | Lab x, Lab y => String.eqb x y
  | _, _ => false
  end.

Fixpoint list_eqb {A} (e : A -> A -> bool) (l1 l2 : list A) : bool :=
  match l1, l2 with
  | [], [] => true
  | a :: r1, b :: r2 => e a b && list_eqb e r1 r2
  | _, _ => false
  end.

Definition inst_eqb (a b : inst) : bool :=
  list_eqb String.eqb (iouts a) (iouts b) && String.eqb (iop a) (iop b) && list_eqb opnd_eqb (iargs a) (iargs b).
Definition block_eqb (a b : block) : bool :=
  String.eqb (blabel a) (blabel b) && list_eqb inst_eqb (body a) (body b).
Definition func_eqb (a b : func) : bool := list_eqb block_eqb a b.

(* ------------------------------------------------------------------------------------------------------------- *)
(* word operations used by the desugared sequence *)
Definition addw (a b : Z) : Z := (a + b) mod W.
Definition notw (a : Z) : Z := W - 1 - a.
Definition c32w (n : Z) : Z := Z.land (notw 31) (addw 31 n).

(* memory: a map from byte addresses to bytes; mcopy has memmove semantics (reads the old memory) *)
Definition memory := Z -> Z.
Definition mcopy (m : memory) (dst src n : Z) : memory :=
  fun a => if (dst <=? a) && (a <? dst + n) then m (src + (a - dst)) else m a.

(* the in-order pack: the meaning of `dret` *)
Fixpoint pack (d : Z) (pairs : list (Z * Z)) (m : memory) : list Z * Z * memory :=
  match pairs with
  | [] => ([], d, m)
  | (s, n) :: ps =>
      let '(ds, f, m') := pack (addw (c32w n) d) ps (mcopy m d s n) in (d :: ds, f, m')
  end.

(* ------------------------------------------------------------------------------------------------------------- *)
(* shape of a dret: [dyn_count; ordinary...; src0; size0; ...; return_pc] *)
Fixpoint pairs_of {A} (l : list A) : option (list (A * A)) :=
  match l with
  | [] => Some []
  | a :: b :: r => match pairs_of r with Some ps => Some ((a, b) :: ps) | None => None end
  | _ => None
  end.

Definition parse {A} (dyn : Z) (rest : list A) (d : A) : option (list A * list (A * A) * A) :=
  if (1 <=? dyn) && (2 * dyn + 1 <=? Z.of_nat (List.length rest)) then
    let n := Z.to_nat dyn in
    let oc := (List.length rest - 1 - 2 * n)%nat in
    match pairs_of (firstn (2 * n) (skipn oc rest)) with
    | Some ps => Some (firstn oc rest, ps, last rest d)
    | None => None
    end
  else None.

(* ------------------------------------------------------------------------------------------------------------- *)
(* semantics *)
Inductive val := VZ (z : Z) | VL (l : string).
Definition env := string -> Z.
Definition upd (r : env) (x : string) (v : Z) : env := fun y => if String.eqb y x then v else r y.
Definition eval (r : env) (o : opnd) : val :=
  match o with Lit z => VZ z | Var x => VZ (r x) | Lab l => VL l end.
Definition zv (v : val) : option Z := match v with VZ z => Some z | VL _ => None end.

Fixpoint zpairs (l : list (val * val)) : option (list (Z * Z)) :=
  match l with
  | [] => Some []
  | (VZ a, VZ b) :: r => match zpairs r with Some ps => Some ((a, b) :: ps) | None => None end
  | _ => None
  end.

Fixpoint bind_outs (r : env) (xs : list string) (vs : list Z) : option env :=
  match xs, vs with
  | [], [] => Some r
  | x :: xs', v :: vs' => bind_outs (upd r x v) xs' vs'
  | _, _ => None
  end.

Definition val_eqb (a b : val) : bool :=
  match a, b with VZ x, VZ y => Z.eqb x y | VL x, VL y => String.eqb x y | _, _ => false end.

Definition param_op (op : string) : bool :=
  String.eqb op "param" || String.eqb op "retpc_param" || String.eqb op "fmp_param".

Inductive ctl := CNext | CGoto (l : string) | CHalt (vs : list val).

Section Sem.
  Variable World : Type.
  (* fmp0: the FMP at function entry (ghost; read by dret only); pargs: the values the `param`s will bind *)
  Record st := mkS { fmp : Z; fmp0 : Z; mem : memory; pargs : list Z; world : World }.

  (* all other opcodes: an arbitrary function of the opcode, the operand values, FMP, memory and the rest of the world;
     it cannot see or change the environment, the entry FMP or the pending params *)
  Variable other : string -> list val -> Z * memory * World -> option (list Z * (Z * memory * World) * ctl).

  Definition exec_core (op : string) (vs : list val) (s : st) : option (list Z * st * ctl) :=
    if param_op op then
      match pargs s with
      | a :: rest => Some ([a], mkS (fmp s) (fmp0 s) (mem s) rest (world s), CNext)
      | [] => None
      end
    else if String.eqb op "getfmp" then
      match vs with [] => Some ([fmp s], s, CNext) | _ => None end
    else if String.eqb op "setfmp" then
      match vs with [VZ v] => Some ([], mkS v (fmp0 s) (mem s) (pargs s) (world s), CNext) | _ => None end
    else if String.eqb op "add" then
      match vs with [VZ a; VZ b] => Some ([addw a b], s, CNext) | _ => None end
    else if String.eqb op "not" then
      match vs with [VZ a] => Some ([notw a], s, CNext) | _ => None end
    else if String.eqb op "and" then
      match vs with [VZ a; VZ b] => Some ([Z.land a b], s, CNext) | _ => None end
    else if String.eqb op "mcopy" then
      match vs with
      | [VZ n; VZ src; VZ dst] => Some ([], mkS (fmp s) (fmp0 s) (mcopy (mem s) dst src n) (pargs s) (world s), CNext)
      | _ => None
      end
    else if String.eqb op "retfmp" then Some ([], s, CHalt vs)
    else if String.eqb op "dret" then
      match vs with
      | VZ dyn :: rest =>
          match parse dyn rest (VZ 0) with
          | Some (ords, ps, rpc) =>
              match zpairs ps with
              | Some zps =>
                  let '(ds, f, m') := pack (fmp0 s) zps (mem s) in
                  Some ([], mkS f (fmp0 s) m' (pargs s) (world s), CHalt (ords ++ map VZ ds ++ [rpc]))
              | None => None
              end
          | None => None
          end
      | _ => None
      end
    else
      match other op vs (fmp s, mem s, world s) with
      | Some (ovs, (f, m, w), c) =>
          let ok := match c with CGoto l => existsb (val_eqb (VL l)) vs | _ => true end in
          if ok then Some (ovs, mkS f (fmp0 s) m (pargs s) w, c) else None
      | None => None
      end.

  Definition exec (r : env) (s : st) (i : inst) : option (env * st * ctl) :=
    match exec_core (iop i) (map (eval r) (iargs i)) s with
    | Some (ovs, s', c) =>
        match bind_outs r (iouts i) ovs with Some r' => Some (r', s', c) | None => None end
    | None => None
    end.

  Definition find_block (f : func) (l : string) : option block := find (fun b => String.eqb (blabel b) l) f.

  (* terminating executions: the remaining instructions of the current block, environment, state ->
     returned values and final state (FMP published to the caller, memory, world) *)
  Inductive run (f : func) : list inst -> env -> st -> list val -> st -> Prop :=
  | run_next : forall i rest r s r' s' o so,
      exec r s i = Some (r', s', CNext) -> run f rest r' s' o so -> run f (i :: rest) r s o so
  | run_goto : forall i rest r s r' s' l b o so,
      exec r s i = Some (r', s', CGoto l) -> find_block f l = Some b -> run f (body b) r' s' o so ->
      run f (i :: rest) r s o so
  | run_halt : forall i rest r s r' s' vs,
      exec r s i = Some (r', s', CHalt vs) -> run f (i :: rest) r s vs s'.

  Definition run_func (f : func) (r : env) (s : st) (o : list val) (so : st) : Prop :=
    match f with
    | b :: _ => fmp0 s = fmp s /\ run f (body b) r s o so
    | [] => False
    end.
End Sem.

(* ------------------------------------------------------------------------------------------------------------- *)
(* the model of the pass *)
Definition ceil32_insts (a m al : string) (size : opnd) : list inst :=
  [mkI [a] "add" [Lit 31; size]; mkI [m] "not" [Lit 31]; mkI [al] "and" [Var m; Var a]].

(* pal / pd: the variables holding the previous aligned size and the previous destination *)
Fixpoint chain (pal pd : string) (pairs : list (opnd * opnd)) (names : list string)
  : option (list inst * list string * string * string * list string) :=
  match pairs with
  | [] => Some ([], [], pal, pd, names)
  | (_, size) :: ps =>
      match names with
      | d :: a :: m :: al :: ns =>
          match chain al d ps ns with
          | Some (is, ds, lal, ld, lft) =>
              Some (mkI [d] "add" [Var pal; Var pd] :: ceil32_insts a m al size ++ is, d :: ds, lal, ld, lft)
          | None => None
          end
      | _ => None
      end
  end.

Definition copies (l : list (string * (opnd * opnd))) : list inst :=
  map (fun '(d, (src, size)) => mkI [] "mcopy" [size; src; Var d]) l.

Definition tail (e : string) (names : list string) (i : inst) : option (list inst) :=
  match iargs i, iouts i with
  | Lit dyn :: rest, [] =>
      match parse dyn rest (Lit 0) with
      | Some (ords, (src0, size0) :: ps, rpc) =>
          match names with
          | a0 :: m0 :: al0 :: ns =>
              match chain al0 e ps ns with
              | Some (is, ds, lal, ld, [nf]) =>
                  Some (ceil32_insts a0 m0 al0 size0 ++ is ++ [mkI [nf] "add" [Var lal; Var ld]]
                        ++ copies (combine (e :: ds) ((src0, size0) :: ps))
                        ++ [mkI [] "setfmp" [Var nf]; mkI [] "retfmp" (ords ++ map Var (e :: ds) ++ [rpc])])
              | _ => None
              end
          | _ => None
          end
      | _ => None
      end
  | _, _ => None
  end.

Definition is_dret (i : inst) : bool := String.eqb (iop i) "dret".
Definition is_param (i : inst) : bool := param_op (iop i).

Definition xl_inst (e : string) (ns : list string) (i : inst) : list inst :=
  if is_dret i then match tail e ns i with Some t => t | None => [i] end else [i].
Definition xl (e : string) (ns : list string) (l : list inst) : list inst := flat_map (xl_inst e ns) l.

Fixpoint span_params (l : list inst) : list inst * list inst :=
  match l with
  | i :: r => if is_param i then let '(p, q) := span_params r in (i :: p, q) else ([], l)
  | [] => ([], [])
  end.

Definition desugar (e : string) (names : string -> list string) (f : func) : func :=
  match f with
  | b :: bs =>
      let '(ps, rest) := span_params (body b) in
      mkB (blabel b) (ps ++ mkI [e] "getfmp" [] :: xl e (names (blabel b)) rest)
        :: map (fun b => mkB (blabel b) (xl e (names (blabel b)) (body b))) bs
  | [] => []
  end.

(* ------------------------------------------------------------------------------------------------------------- *)
(* the checker *)
Definition opnd_var (o : opnd) : list string := match o with Var x => [x] | _ => [] end.
Definition opnd_lab (o : opnd) : list string := match o with Lab x => [x] | _ => [] end.
Definition inst_vars (i : inst) : list string := iouts i ++ flat_map opnd_var (iargs i).
Definition inst_labs (i : inst) : list string := flat_map opnd_lab (iargs i).
Definition mem_str (x : string) (l : list string) : bool := existsb (String.eqb x) l.

Fixpoint nodup_str (l : list string) : bool :=
  match l with [] => true | x :: r => negb (mem_str x r) && nodup_str r end.

Definition has_dret (f : func) : bool := existsb (fun b => existsb is_dret (body b)) f.

(* the names the real output uses: outputs of everything from the position of the first dret on *)
Fixpoint before_dret (l : list inst) : nat :=
  match l with [] => O | i :: r => if is_dret i then O else S (before_dret r) end.

Definition names_of (shift : nat) (b b' : block) : list string :=
  if existsb is_dret (body b) then flat_map iouts (skipn (before_dret (body b) + shift) (body b')) else [].

Fixpoint names_table (first : bool) (f f' : func) : list (string * list string) :=
  match f, f' with
  | b :: r, b' :: r' => (blabel b, names_of (if first then 1 else 0) b b') :: names_table false r r'
  | _, _ => []
  end.

Definition lookup (t : list (string * list string)) (l : string) : list string :=
  match find (fun p => String.eqb (fst p) l) t with Some p => snd p | None => [] end.

Definition entry_var (f f' : func) : option string :=
  match f, f' with
  | b :: _, b' :: _ =>
      match nth_error (body b') (List.length (fst (span_params (body b)))) with
      | Some i => match iouts i with [e] => Some e | _ => None end
      | None => None
      end
  | _, _ => None
  end.

(* side conditions of the model, for given e and names *)
Definition side_ok (e : string) (names : string -> list string) (f : func) : bool :=
  match f with
  | [] => false
  | b0 :: _ =>
      forallb (fun b =>
                 nodup_str (e :: names (blabel b))
                 && forallb (fun i => if is_dret i then match tail e (names (blabel b)) i with Some _ => true | None => false end
                                            else true) (body b)
                 && forallb (fun i => forallb (fun x => negb (mem_str x (e :: flat_map (fun b => names (blabel b)) f)))
                                              (inst_vars i)
                                      && negb (mem_str (blabel b0) (inst_labs i)))
                      (body b)) f
  end.

Definition dret_check (f f' : func) : bool :=
  if has_dret f then
    match entry_var f f' with
    | Some e =>
        let names := lookup (names_table true f f') in
        side_ok e names f && func_eqb f' (desugar e names f)
    | None => false
    end
  else func_eqb f f'.
