(* PyInt: Python int semantics used by translated code (py2coq).
   Partial operations return [res]; no proofs here. *)
From Coq Require Import ZArith Bool List String.
Import ListNotations.
Open Scope Z_scope.

Inductive err : Set :=
| AssertFail | ZeroDiv | NegPow | NegShift | Raised | OutOfFuel | BadIndex | KeyErr | TypeErr.

Inductive res (A : Type) : Type :=
| Ok : A -> res A
| Err : err -> res A.
Arguments Ok {A} _.
Arguments Err {A} _.

Definition bind {A B} (m : res A) (f : A -> res B) : res B :=
  match m with Ok a => f a | Err e => Err e end.
Notation "x <- m ;; k" := (bind m (fun x => k))
  (at level 61, m at next level, right associativity).
Notation "' p <- m ;; k" := (bind m (fun x => let p := x in k))
  (at level 61, p pattern, m at next level, right associativity).

Definition is_ok {A} (r : res A) : bool := match r with Ok _ => true | Err _ => false end.

Definition b2z (b : bool) : Z := if b then 1 else 0.
Definition z2b (x : Z) : bool := negb (x =? 0).

(* Python // and % : floor semantics = Coq Z.div / Z.modulo; ZeroDivisionError on 0 *)
Definition py_floordiv (a b : Z) : res Z := if b =? 0 then Err ZeroDiv else Ok (a / b).
Definition py_mod (a b : Z) : res Z := if b =? 0 then Err ZeroDiv else Ok (a mod b).
(* int ** int with negative exponent is a float in Python: outside the subset *)
Definition py_pow (a b : Z) : res Z := if b <? 0 then Err NegPow else Ok (a ^ b).
(* pow(a, b, m) *)
Fixpoint powmod_pos (a : Z) (p : positive) (m : Z) : Z :=
  match p with
  | xH => a mod m
  | xO q => let r := powmod_pos a q m in (r * r) mod m
  | xI q => let r := powmod_pos a q m in (r * r * a) mod m
  end.
Definition powmod (a b m : Z) : Z :=
  match b with Z0 => 1 mod m | Zpos p => powmod_pos a p m | Zneg _ => 0 end.
(* pow(a, b, m) by square-and-multiply; equals (a ^ b) mod m (Base/WordLemmas.powmod_spec) *)
Definition py_pow3 (a b m : Z) : res Z :=
  if b <? 0 then Err NegPow else if m =? 0 then Err ZeroDiv else Ok (powmod a b m).
Definition py_lshift (a s : Z) : res Z := if s <? 0 then Err NegShift else Ok (Z.shiftl a s).
(* a >> s.  Z.shiftr iterates s times, so huge shifts (which CPython answers at once) are
   short-cut; equal to Z.shiftr a s for every s >= 0 (Base/WordLemmas.rshift_fast_spec). *)
Definition rshift_fast (a s : Z) : Z :=
  if s >? Z.log2 (Z.abs a) + 1 then (if a <? 0 then -1 else 0) else Z.shiftr a s.
Definition py_rshift (a s : Z) : res Z := if s <? 0 then Err NegShift else Ok (rshift_fast a s).
(* &, |, ^ on Python ints are infinite two's complement = Z.land/lor/lxor *)
Definition py_bit_length (a : Z) : Z :=
  match Z.abs a with 0 => 0 | x => Z.log2 x + 1 end.

Fixpoint nth_res {A} (l : list A) (n : nat) : res A :=
  match l, n with
  | [], _ => Err BadIndex
  | x :: _, O => Ok x
  | _ :: t, S m => nth_res t m
  end.
(* Python list indexing incl. negative indices *)
Definition py_index {A} (l : list A) (i : Z) : res A :=
  let n := Z.of_nat (List.length l) in
  if (0 <=? i) && (i <? n) then nth_res l (Z.to_nat i)
  else if (i <? 0) && (- n <=? i) then nth_res l (Z.to_nat (n + i))
  else Err BadIndex.
Definition py_len {A} (l : list A) : Z := Z.of_nat (List.length l).
