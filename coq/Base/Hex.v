(* Printing Z values compactly (hex strings): printing large decimal numerals from
   vm_compute results is slow in coqc, strings are fast. Used only by the harness. *)
From Coq Require Import ZArith String Ascii List Bool.
Import ListNotations.
Open Scope Z_scope.

Fixpoint pos_bits (p : positive) : list bool :=   (* least significant first *)
  match p with
  | xH => [true]
  | xO q => false :: pos_bits q
  | xI q => true :: pos_bits q
  end.

Definition nib (b0 b1 b2 b3 : bool) : ascii :=
  match b3, b2, b1, b0 with
  | false, false, false, false => "0" | false, false, false, true => "1"
  | false, false, true, false => "2" | false, false, true, true => "3"
  | false, true, false, false => "4" | false, true, false, true => "5"
  | false, true, true, false => "6" | false, true, true, true => "7"
  | true, false, false, false => "8" | true, false, false, true => "9"
  | true, false, true, false => "a" | true, false, true, true => "b"
  | true, true, false, false => "c" | true, true, false, true => "d"
  | true, true, true, false => "e" | true, true, true, true => "f"
  end%char.

Fixpoint nibbles (l : list bool) (acc : string) : string :=
  match l with
  | [] => acc
  | [a] => String (nib a false false false) acc
  | [a; b] => String (nib a b false false) acc
  | [a; b; c] => String (nib a b c false) acc
  | a :: b :: c :: d :: t => nibbles t (String (nib a b c d) acc)
  end.

Definition hexZ (n : Z) : string :=
  match n with
  | Z0 => "0"%string
  | Zpos p => nibbles (pos_bits p) EmptyString
  | Zneg p => String "-"%char (nibbles (pos_bits p) EmptyString)
  end.

Definition hexZs (l : list Z) : list string := map hexZ l.
