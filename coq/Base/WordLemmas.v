(* Lemmas about Word256 / PyInt shared by several properties. *)
From Coq Require Import ZArith Bool Lia.
From Verif Require Import Base.Word256 Base.PyInt.
Open Scope Z_scope.

Lemma powmod_pos_spec a p m : 0 < m -> PyInt.powmod_pos a p m = (a ^ Zpos p) mod m.
Proof.
  intros Hm. induction p as [q IH|q IH|]; cbn [PyInt.powmod_pos].
  - rewrite IH. rewrite Pos2Z.inj_xI. rewrite Z.pow_add_r, Z.pow_1_r by lia.
    rewrite Z.pow_twice_r.
    rewrite <- (Z.mul_mod_idemp_l (_ mod m * _) a) by lia. rewrite <- Z.mul_mod by lia.
    rewrite Z.mul_mod_idemp_l by lia. reflexivity.
  - rewrite IH. rewrite Pos2Z.inj_xO. rewrite Z.pow_twice_r.
    rewrite <- Z.mul_mod by lia. reflexivity.
  - rewrite Z.pow_1_r. reflexivity.
Qed.

Lemma powmod_spec a b m : 0 <= b -> 0 < m -> PyInt.powmod a b m = (a ^ b) mod m.
Proof.
  intros Hb Hm. destruct b as [|p|p]; cbn [PyInt.powmod].
  - reflexivity.
  - apply powmod_pos_spec; exact Hm.
  - lia.
Qed.

Lemma w_powmod_eq a b m : Word256.powmod a b m = PyInt.powmod a b m.
Proof.
  destruct b as [|p|p]; cbn [Word256.powmod PyInt.powmod]; try reflexivity.
Qed.

Lemma w_exp_eq a b : 0 <= b -> w_exp a b = w_exp_spec a b.
Proof.
  intros Hb. unfold w_exp, w_exp_spec. rewrite w_powmod_eq. apply powmod_spec; [exact Hb|].
  unfold W. apply Z.pow_pos_nonneg; lia.
Qed.

Lemma rshift_fast_spec a s : 0 <= s -> rshift_fast a s = Z.shiftr a s.
Proof.
  intros Hs. unfold rshift_fast. destruct (s >? Z.log2 (Z.abs a) + 1) eqn:E; [|reflexivity].
  rewrite Z.gtb_ltb in E. apply Z.ltb_lt in E. rewrite Z.shiftr_div_pow2 by lia.
  assert (P: Z.abs a < 2 ^ s).
  { destruct (Z.eq_dec a 0) as [->|N]; [cbn; apply Z.pow_pos_nonneg; lia|].
    apply Z.log2_lt_pow2; lia. }
  destruct (a <? 0) eqn:S; [apply Z.ltb_lt in S | apply Z.ltb_ge in S].
  - apply Z.div_unique with (r := a + 2 ^ s); lia.
  - symmetry. apply Z.div_small. lia.
Qed.

Lemma py_rshift_spec a s : 0 <= s -> py_rshift a s = Ok (a / 2 ^ s).
Proof.
  intros Hs. unfold py_rshift. assert (s <? 0 = false) as -> by (apply Z.ltb_ge; lia).
  rewrite rshift_fast_spec, Z.shiftr_div_pow2 by lia. reflexivity.
Qed.
