(* Word256: specification of the EVM word operations on Z in [0, 2^256).
   Written from the Yellow Paper, independent of vyper.  No proofs here. *)
From Coq Require Import ZArith Bool.
Open Scope Z_scope.

Definition W : Z := 2 ^ 256.
Definition MAXU : Z := W - 1.
Definition HALF : Z := 2 ^ 255.
Definition MAXS : Z := HALF - 1.
Definition MINS : Z := - HALF.

Definition wrap (x : Z) : Z := x mod W.
Definition in_word (x : Z) : Prop := 0 <= x < W.
Definition in_wordb (x : Z) : bool := (0 <=? x) && (x <? W).

Definition to_signed (x : Z) : Z := if x <? HALF then x else x - W.
Definition of_signed (x : Z) : Z := x mod W.

Definition b2z (b : bool) : Z := if b then 1 else 0.

Definition w_add (a b : Z) : Z := (a + b) mod W.
Definition w_sub (a b : Z) : Z := (a - b) mod W.
Definition w_mul (a b : Z) : Z := (a * b) mod W.
Definition w_div (a b : Z) : Z := if b =? 0 then 0 else a / b.
Definition w_mod (a b : Z) : Z := if b =? 0 then 0 else a mod b.
(* signed division truncates toward zero (Z.quot), remainder has the sign of the dividend (Z.rem) *)
Definition w_sdiv (a b : Z) : Z :=
  if b =? 0 then 0 else of_signed (Z.quot (to_signed a) (to_signed b)).
Definition w_smod (a b : Z) : Z :=
  if b =? 0 then 0 else of_signed (Z.rem (to_signed a) (to_signed b)).
(* specification of EXP, and a computable square-and-multiply version (equal: Base/WordLemmas.v) *)
Definition w_exp_spec (a b : Z) : Z := (a ^ b) mod W.
Fixpoint powmod_pos (a : Z) (p : positive) (m : Z) : Z :=
  match p with
  | xH => a mod m
  | xO q => let r := powmod_pos a q m in (r * r) mod m
  | xI q => let r := powmod_pos a q m in (r * r * a) mod m
  end.
Definition powmod (a b m : Z) : Z :=
  match b with Z0 => 1 mod m | Zpos p => powmod_pos a p m | Zneg _ => 0 end.
Definition w_exp (a b : Z) : Z := powmod a b W.
Definition w_lt (a b : Z) : Z := b2z (a <? b).
Definition w_gt (a b : Z) : Z := b2z (a >? b).
Definition w_slt (a b : Z) : Z := b2z (to_signed a <? to_signed b).
Definition w_sgt (a b : Z) : Z := b2z (to_signed a >? to_signed b).
Definition w_eq (a b : Z) : Z := b2z (a =? b).
Definition w_iszero (a : Z) : Z := b2z (a =? 0).
Definition w_and (a b : Z) : Z := Z.land a b.
Definition w_or (a b : Z) : Z := Z.lor a b.
Definition w_xor (a b : Z) : Z := Z.lxor a b.
Definition w_not (a : Z) : Z := MAXU - a.
(* byte i x : i-th byte from the most significant end *)
Definition w_byte (i x : Z) : Z :=
  if i <? 32 then (x / 2 ^ (8 * (31 - i))) mod 256 else 0.
Definition w_shl (s x : Z) : Z := if s <? 256 then (x * 2 ^ s) mod W else 0.
Definition w_shr (s x : Z) : Z := if s <? 256 then x / 2 ^ s else 0.
Definition w_sar (s x : Z) : Z :=
  if s <? 256 then of_signed (to_signed x / 2 ^ s)
  else if to_signed x <? 0 then MAXU else 0.
(* signextend b x: x is taken as a (b+1)-byte two's complement number *)
Definition w_signextend (b x : Z) : Z :=
  if b <? 31 then
    let bits := 8 * (b + 1) in
    let low := x mod 2 ^ bits in
    if low <? 2 ^ (bits - 1) then low else low + (W - 2 ^ bits)
  else x.
Definition w_addmod (a b n : Z) : Z := if n =? 0 then 0 else (a + b) mod n.
Definition w_mulmod (a b n : Z) : Z := if n =? 0 then 0 else (a * b) mod n.
