(* C14A: encoders for the SCCP lattice tie (vm_compute).  No proofs. *)
From Coq Require Import ZArith List Bool String.
From Verif Require Import Base.PyInt C14.GenEval C14A.Sccp C14A.SccpSound.
Import ListNotations.
Open Scope Z_scope.
Definition enc_lat (l : lat) : list Z :=
  match l with LTop => [0] | LConst v => [1; v] | LLabel n => [2; Z.of_nat n] | LBottom => [3] end.
Definition enc_olat (l : option lat) : list Z := match l with Some x => enc_lat x | None => [9] end.
Definition enc_meets (items : list lat) : list Z :=
  flat_map (fun x => flat_map (fun y => enc_lat (meet x y) ++ [-7]) items) items.
Definition enc_meet_all (ls : list (list lat)) : list Z := flat_map (fun l => enc_lat (meet_all l) ++ [-7]) ls.
Definition enc_evals (name : string) (argss : list (list lat)) : list Z :=
  flat_map (fun a => enc_olat (sccp_eval (eval_arith name) a) ++ [-7]) argss.
