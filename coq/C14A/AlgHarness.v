(* C14A: encoders used by tools/vlib/c14a_part.py (vm_compute).  No proofs. *)
From Coq Require Import ZArith List Bool.
From Verif Require Import Base.Word256 C14A.Alg.
Import ListNotations.
Open Scope Z_scope.

Definition enc_opcode (o : opcode) : Z :=
  match o with
  | Oadd => 0 | Osub => 1 | Omul => 2 | Odiv => 3 | Osdiv => 4 | Omod => 5 | Osmod => 6 | Oexp => 7
  | Oand => 8 | Oor => 9 | Oxor => 10 | Onot => 11 | Oiszero => 12 | Oeq => 13 | Ogt => 14 | Olt => 15
  | Osgt => 16 | Oslt => 17 | Oshl => 18 | Oshr => 19 | Osar => 20 | Osignextend => 21 | Obyte => 22
  | Oaddmod => 23 | Omulmod => 24 | Oassign => 25 | Ooffset => 26 | Oother => 27
  end.
Definition enc_operand (o : operand) : list Z :=
  match o with Lit v => [0; v] | Var n => [1; Z.of_nat n] | Lbl n => [2; Z.of_nat n] end.
Definition enc_inst (i : inst) : list Z :=
  Z.of_nat (i_out i) :: enc_opcode (i_op i) :: Z.of_nat (length (i_args i)) :: flat_map enc_operand (i_args i).
Definition enc_result (r : result) : list Z :=
  (match r_after r with AKeep => [0; 0] | AToAssign => [1; 0] | AInsertIszero t => [2; Z.of_nat t] end)
  ++ Z.of_nat (length (r_pre r)) :: flat_map enc_inst (r_pre r) ++ enc_inst (r_inst r).
Definition enc_results (fresh : nat) (cases : list (inst * list use)) : list Z :=
  flat_map (fun c => enc_result (alg_rewrite fresh (fst c) (snd c) None) ++ [-7]) cases.
(* the family opcode x shapes x contexts, enumerated shape-major *)
Definition enc_fam (fresh : nat) (op : opcode) (shapes : list (list operand)) (ctxs : list (list use)) : list Z :=
  flat_map (fun s => flat_map (fun c => enc_result (alg_rewrite fresh (mkI 10 op s) c None) ++ [-7]) ctxs) shapes.
Definition enc_results_p (fresh : nat) (cases : list (inst * list use * option inst)) : list Z :=
  flat_map (fun c => enc_result (alg_rewrite fresh (fst (fst c)) (snd (fst c)) (snd c)) ++ [-7]) cases.
Definition enc_chain (truthy : bool) (depth : nat) : list Z :=
  [match chain_rewrite truthy depth with Some k => Z.of_nat k | None => -1 end].
Definition enc_offsets : list Z :=
  map (fun i => enc_opcode (i_op (handle_offset i)))
      [mkI 1 Oadd [Lit 4; Lbl 0]; mkI 3 Oadd [Lbl 0; Lit 4]; mkI 4 Oadd [Lit 4; Var 0]].
