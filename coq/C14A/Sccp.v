(* C14A: model of the SCCP lattice of vyper/venom/passes/sccp/sccp.py: LatticeItem = TOP | BOTTOM | IRLiteral | IRLabel,
   `_meet`, and the transfer function `_eval` for arithmetic instructions.  No proofs here. *)
From Coq Require Import ZArith List Bool.
Import ListNotations.
Open Scope Z_scope.

Inductive lat : Set := LTop | LConst (v : Z) | LLabel (n : nat) | LBottom.

(* x == y on lattice items: same class and same raw value *)
Definition lat_eqb (x y : lat) : bool :=
  match x, y with
  | LTop, LTop | LBottom, LBottom => true
  | LConst a, LConst b => a =? b
  | LLabel a, LLabel b => Nat.eqb a b
  | _, _ => false
  end.

(* def _meet(x, y): if x == TOP: return y; if y == TOP or x == y: return x; return BOTTOM *)
Definition meet (x y : lat) : lat :=
  match x with
  | LTop => y
  | _ => match y with
         | LTop => x
         | _ => if lat_eqb x y then x else LBottom
         end
  end.

(* reduce(_meet, in_vars, TOP) in _visit_phi *)
Definition meet_all (l : list lat) : lat := fold_left meet l LTop.

(* SCCP._eval: operands are scanned in order; a label operand or a BOTTOM gives BOTTOM, a TOP gives TOP
   (whichever comes first); otherwise all operands are literals and eval_arith decides.
   `f` is eval_arith for the opcode (None = it raised). *)
Fixpoint eval_scan (args : list lat) (acc : list Z) : lat + list Z :=
  match args with
  | [] => inr (rev acc)
  | LLabel _ :: _ => inl LBottom
  | LBottom :: _ => inl LBottom
  | LTop :: _ => inl LTop
  | LConst v :: t => eval_scan t (v :: acc)
  end.
Definition sccp_eval (f : list Z -> option Z) (args : list lat) : option lat :=
  match eval_scan args [] with
  | inl l => Some l
  | inr vs => match f vs with Some r => Some (LConst r) | None => None end
  end.

(* the information order: BOTTOM below everything, TOP above everything *)
Definition le (x y : lat) : Prop := meet x y = x.
