(* C14A: executable model of the peephole rules of vyper/venom/passes/algebraic_optimization.py
   (_rewrite_inst / _rewrite_local / _rule_* / _optimize_comparator_instruction / _flip_inst /
   _rewrite_iszero_uses / _handle_offset) over a small instruction type.  No proofs here.
   Tied to the real pass by exact syntactic comparison on a finite family (tools/vlib/c14a_part.py).

   Operand order is venom's internal one: for `%o = op a, b` (text) the operand list is [b; a], and the
   value is op(a, b) with a on top of the EVM stack (sub: a - b; shl: value b shifted by a; exp: a ** b). *)
From Coq Require Import ZArith List Bool.
From Verif Require Import Base.Word256.
Import ListNotations.
Open Scope Z_scope.

Inductive operand : Set := Lit (v : Z) | Var (n : nat) | Lbl (n : nat).   (* Lit carries the raw Python int *)

Inductive opcode : Set :=
| Oadd | Osub | Omul | Odiv | Osdiv | Omod | Osmod | Oexp
| Oand | Oor | Oxor | Onot | Oiszero | Oeq | Ogt | Olt | Osgt | Oslt
| Oshl | Oshr | Osar | Osignextend | Obyte | Oaddmod | Omulmod
| Oassign | Ooffset | Oother.

Record inst : Set := mkI { i_out : nat; i_op : opcode; i_args : list operand }.

Definition opcode_eqb (a b : opcode) : bool :=
  match a, b with
  | Oadd, Oadd | Osub, Osub | Omul, Omul | Odiv, Odiv | Osdiv, Osdiv | Omod, Omod | Osmod, Osmod | Oexp, Oexp
  | Oand, Oand | Oor, Oor | Oxor, Oxor | Onot, Onot | Oiszero, Oiszero | Oeq, Oeq | Ogt, Ogt | Olt, Olt
  | Osgt, Osgt | Oslt, Oslt | Oshl, Oshl | Oshr, Oshr | Osar, Osar | Osignextend, Osignextend | Obyte, Obyte
  | Oaddmod, Oaddmod | Omulmod, Omulmod | Oassign, Oassign | Ooffset, Ooffset | Oother, Oother => true
  | _, _ => false
  end.

(* IROperand.__eq__: same class and same raw value *)
Definition operand_eqb (a b : operand) : bool :=
  match a, b with
  | Lit x, Lit y => x =? y
  | Var x, Var y => Nat.eqb x y
  | Lbl x, Lbl y => Nat.eqb x y
  | _, _ => false
  end.

(* ---------------- semantics (Word256) ---------------- *)
Definition env := nat -> Z.
Definition oval (e : env) (o : operand) : Z :=
  match o with Lit v => wrap v | Var n => e n | Lbl n => e n end.   (* a label is some fixed address *)

(* args in internal order *)
Definition eval_op (op : opcode) (vs : list Z) : option Z :=
  match op, vs with
  | Oadd, [b; a] => Some (w_add a b) | Osub, [b; a] => Some (w_sub a b) | Omul, [b; a] => Some (w_mul a b)
  | Odiv, [b; a] => Some (w_div a b) | Osdiv, [b; a] => Some (w_sdiv a b)
  | Omod, [b; a] => Some (w_mod a b) | Osmod, [b; a] => Some (w_smod a b) | Oexp, [b; a] => Some (w_exp a b)
  | Oand, [b; a] => Some (w_and a b) | Oor, [b; a] => Some (w_or a b) | Oxor, [b; a] => Some (w_xor a b)
  | Onot, [a] => Some (w_not a) | Oiszero, [a] => Some (w_iszero a)
  | Oeq, [b; a] => Some (w_eq a b) | Ogt, [b; a] => Some (w_gt a b) | Olt, [b; a] => Some (w_lt a b)
  | Osgt, [b; a] => Some (w_sgt a b) | Oslt, [b; a] => Some (w_slt a b)
  | Oshl, [b; a] => Some (w_shl a b) | Oshr, [b; a] => Some (w_shr a b) | Osar, [b; a] => Some (w_sar a b)
  | Osignextend, [b; a] => Some (w_signextend a b) | Obyte, [b; a] => Some (w_byte a b)
  | Oaddmod, [c; b; a] => Some (w_addmod a b c) | Omulmod, [c; b; a] => Some (w_mulmod a b c)
  | Oassign, [a] => Some a
  | Ooffset, [b; a] => Some (w_add a b)
  | _, _ => None
  end.
Definition eval_inst (e : env) (i : inst) : option Z := eval_op (i_op i) (map (oval e) (i_args i)).
Definition upd (e : env) (n : nat) (v : Z) : env := fun m => if Nat.eqb m n then v else e m.
(* run a straight-line list; None if some instruction has no semantics here *)
Fixpoint run (e : env) (l : list inst) : option env :=
  match l with
  | [] => Some e
  | i :: t => match eval_inst e i with Some v => run (upd e (i_out i) v) t | None => None end
  end.

(* ---------------- the use context of the instruction's output ---------------- *)
Inductive use : Set :=
| UIszero (n_uses : nat) (first_use_is_assert : bool)   (* an iszero; how its own output is used *)
| UAssert | UAssertUnreachable | UJnz
| UOther.                                               (* any other instruction (value observed) *)

(* TRUTHY_INSTRUCTIONS = ("iszero", "jnz", "assert", "assert_unreachable") *)
Definition is_truthy (us : list use) : bool :=
  forallb (fun u => match u with UOther => false | _ => true end) us.
(* all(i.opcode in ("assert", "iszero") for i in uses) *)
Definition prefer_iszero (us : list use) : bool :=
  forallb (fun u => match u with UIszero _ _ | UAssert => true | _ => false end) us.

Inductive after_rw : Set :=
| AKeep                       (* the users are untouched *)
| AToAssign                   (* the single iszero user becomes an assign of the output *)
| AInsertIszero (t : nat).    (* `t = iszero out` inserted before the single assert user, which now tests t *)

Record result : Set := mkR { r_pre : list inst; r_inst : inst; r_after : after_rw }.

(* ---------------- helpers of the pass ---------------- *)
Definition lit_eq (o : operand) (v : Z) : bool := match o with Lit a => wrap a =? wrap v | _ => false end.
Definition is_lit (o : operand) : bool := match o with Lit _ => true | _ => false end.
Definition is_power_of_two (n : Z) : bool := negb (n =? 0) && (Z.land n (n - 1) =? 0).
Definition int_log2 (n : Z) : Z := Z.log2 n.            (* n.bit_length() - 1, n > 0 *)

Definition is_commutative (op : opcode) : bool :=
  match op with Oadd | Omul | Oor | Oxor | Oand | Oeq => true | _ => false end.
Definition is_comparator (op : opcode) : bool :=
  match op with Ogt | Olt | Osgt | Oslt => true | _ => false end.
Definition flippable (op : opcode) : bool := is_commutative op || is_comparator op.
Definition flip_cmp (op : opcode) : opcode :=
  match op with Ogt => Olt | Olt => Ogt | Osgt => Oslt | Oslt => Osgt | o => o end.
(* IRInstruction.flip *)
Definition flip (i : inst) : inst :=
  mkI (i_out i) (if is_comparator (i_op i) then flip_cmp (i_op i) else i_op i) (rev (i_args i)).

Definition keep (i : inst) : result := mkR [] i AKeep.
Definition assign (i : inst) (x : operand) : result := mkR [] (mkI (i_out i) Oassign [x]) AKeep.
Definition upd_op (i : inst) (op : opcode) (args : list operand) : result := mkR [] (mkI (i_out i) op args) AKeep.

Definition MAX_UINT256 : Z := 2 ^ 256 - 1.

(* _optimize_comparator_instruction (after the range-based part, which needs a range that is not top) *)
Definition rule_cmp (fresh : nat) (i : inst) (o0 o1 : operand) (us : list use) : result :=
  let op := i_op i in
  if operand_eqb o0 o1 then assign i (Lit 0) else
  let is_gt := match op with Ogt | Osgt => true | _ => false end in
  let signed := match op with Osgt | Oslt => true | _ => false end in
  let lo := if signed then - 2 ^ 255 else 0 in
  let hi := if signed then 2 ^ 255 - 1 else 2 ^ 256 - 1 in
  match o0 with
  | Lit v0 =>
    let almost_always := if is_gt then lo else hi in
    let never := if is_gt then hi else lo in
    let almost_never := if is_gt then hi - 1 else lo + 1 in
    if lit_eq o0 never then assign i (Lit 0)
    else if lit_eq o0 almost_never then
      if never =? 0 then upd_op i Oiszero [o1]
      else if wrap never =? wrap (-1) then mkR [mkI fresh Onot [o1]] (mkI (i_out i) Oiszero [Var fresh]) AKeep
      else upd_op i Oeq [o1; Lit never]
    else if prefer_iszero us && lit_eq o0 almost_always then
      let val := wrap v0 in
      if val =? 0 then mkR [mkI fresh Oiszero [o1]] (mkI (i_out i) Oiszero [Var fresh]) AKeep
      else if val =? wrap (-1) then
        mkR [mkI fresh Onot [o1]; mkI (S fresh) Oiszero [Var fresh]] (mkI (i_out i) Oiszero [Var (S fresh)]) AKeep
      else
        mkR [mkI fresh Oxor [o0; o1]; mkI (S fresh) Oiszero [Var fresh]] (mkI (i_out i) Oiszero [Var (S fresh)]) AKeep
    else if (match op with Ogt => true | _ => false end) && lit_eq o0 0 then
      mkR [mkI fresh Oiszero [o1]] (mkI (i_out i) Oiszero [Var fresh]) AKeep
    else
      match us with
      | [u] =>
        let go (a : after_rw) :=
          let val := if signed then to_signed (wrap v0) else wrap v0 in
          let val' := if is_gt then val + 1 else val - 1 in
          mkR [] (mkI (i_out i) (flip_cmp op) [Lit val'; o1]) a in
        match u with
        | UIszero n first_assert =>
            if negb (Nat.eqb n 1) then keep i else if first_assert then keep i else go AToAssign
        | UAssert => go (AInsertIszero fresh)
        | _ => keep i
        end
      | _ => keep i
      end
  | _ => keep i
  end.

(* _rewrite_local, after the literal normalisation *)
Definition rule_local (fresh : nat) (i : inst) (us : list use) : result :=
  match i_args i with
  | [o0; o1] =>
    match i_op i with
    | Oshl | Oshr | Osar => if lit_eq o1 0 then assign i o0 else keep i
    | Osignextend =>
        (* n >= 31: no-op.  (The range-based branch needs a non-top range: C14/RangeClients.v) *)
        match o1 with Lit n => if 31 <=? wrap n then assign i o0 else keep i | _ => keep i end
    | Oexp =>
        if lit_eq o0 0 then assign i (Lit 1)
        else if lit_eq o1 1 then assign i (Lit 1)
        else if lit_eq o1 0 then upd_op i Oiszero [o0]
        else if lit_eq o0 1 then assign i o1
        else keep i
    | Oadd | Osub | Oxor =>
        let op := i_op i in
        if (match op with Oxor | Osub => true | _ => false end) && operand_eqb o0 o1 then assign i (Lit 0)
        else if lit_eq o0 0 then assign i o1
        else if (match op with Osub => true | _ => false end) && lit_eq o1 (-1) then upd_op i Onot [o0]
        else if (match op with Oxor => true | _ => false end) && lit_eq o0 (-1) then upd_op i Onot [o1]
        else keep i
    | Oand =>
        if lit_eq o0 (-1) then assign i o1
        else if lit_eq o0 0 || lit_eq o1 0 then assign i (Lit 0)
        else keep i
    | Omul | Odiv | Osdiv | Omod | Osmod =>
        let op := i_op i in
        if lit_eq o0 0 || lit_eq o1 0 then assign i (Lit 0)
        else if (match op with Omod | Osmod => true | _ => false end) && lit_eq o0 1 then assign i (Lit 0)
        else if (match op with Omul | Odiv | Osdiv => true | _ => false end) && lit_eq o0 1 then assign i o1
        else match o0 with
             | Lit v =>
                 if is_power_of_two v then
                   match op with
                   | Omod => upd_op i Oand [Lit (v - 1); o1]
                   | Odiv => upd_op i Oshr [o1; Lit (int_log2 v)]
                   | Omul => upd_op i Oshl [o1; Lit (int_log2 v)]
                   | _ => keep i
                   end
                 else keep i
             | _ => keep i
             end
    | Oor =>
        if lit_eq o0 MAX_UINT256 || lit_eq o1 MAX_UINT256 then assign i (Lit MAX_UINT256)
        else if is_truthy us && is_lit o0 && negb (lit_eq o0 0) then assign i (Lit 1)
        else if lit_eq o0 0 then assign i o1
        else keep i
    | Oeq =>
        if operand_eqb o0 o1 then assign i (Lit 1)
        else if lit_eq o0 0 then upd_op i Oiszero [o1]
        else if lit_eq o0 (-1) then mkR [mkI fresh Onot [o1]] (mkI (i_out i) Oiszero [Var fresh]) AKeep
        else if prefer_iszero us then mkR [mkI fresh Oxor [o0; o1]] (mkI (i_out i) Oiszero [Var fresh]) AKeep
        else keep i
    | Ogt | Olt | Osgt | Oslt => rule_cmp fresh i o0 o1 us
    | _ => keep i
    end
  | _ => keep i
  end.

(* the literal normalisation at the top of _rewrite_local, and _flip_inst at the end *)
Definition normalize (i : inst) : inst :=
  match i_args i with
  | [o0; o1] => if flippable (i_op i) && is_lit o1 && negb (is_lit o0) then flip i else i
  | _ => i
  end.
Definition flip_inst (i : inst) : inst :=
  match i_args i with
  | [o0; o1] => if flippable (i_op i) && is_lit o0 && negb (is_lit o1) then flip i else i
  | _ => i
  end.

(* the producer-based rule signextend(n, signextend(m, x)), n >= m both literal: producer = the instruction
   that defines the value operand, if it is known *)
Definition rule_producer (i : inst) (producer : option inst) : option result :=
  match i_op i, i_args i, producer with
  | Osignextend, [Var x; Lit n], Some p =>
      match i_op p, i_args p with
      | Osignextend, [_; Lit m] => if wrap m <=? wrap n then Some (assign i (Var x)) else None
      | _, _ => None
      end
  | _, _, _ => None
  end.

(* _rewrite_inst followed by _flip_inst, for single-output non-volatile instructions *)
Definition alg_rewrite (fresh : nat) (i : inst) (us : list use) (producer : option inst) : result :=
  match i_op i with
  | Oassign | Oother => keep i
  | _ =>
    let r := match rule_producer i producer with
             | Some r => r
             | None => rule_local fresh (normalize i) us
             end in
    mkR (r_pre r) (flip_inst (r_inst r)) (r_after r)
  end.

(* ---------------- iszero chains (_rewrite_iszero_uses) ---------------- *)
(* an operand that is the output of a chain  root -> iszero -> ... -> iszero  of `depth` iszeros is replaced,
   in a user of the given kind, by the output of the `keep`-th iszero (0 = the root itself) *)
Definition chain_keep (truthy_user : bool) (depth : nat) : nat :=
  if truthy_user then Nat.modulo depth 2 else 2 - Nat.modulo depth 2.
Definition chain_rewrite (truthy_user : bool) (depth : nat) : option nat :=
  let k := chain_keep truthy_user depth in if Nat.ltb k depth then Some k else None.

(* _handle_offset: add <literal>, @label  (operands [lit; label])  ->  offset *)
Definition handle_offset (i : inst) : inst :=
  match i_op i, i_args i with
  | Oadd, [Lit v; Lbl l] => mkI (i_out i) Ooffset [Lit v; Lbl l]
  | _, _ => i
  end.
