(* C14A: soundness of the peephole model: for every valuation of the variables (all of [0,2^256) per variable)
   the rewritten instruction sequence computes the same value for the output variable, or -- for the rule
   that fires only when every user is truthy -- a value with the same truthiness; and the two rules that touch
   the user (iszero removed / iszero inserted before assert) compute exactly the negation. *)
From Coq Require Import ZArith List Bool Lia.
From Verif Require Import Base.Word256 Base.WordLemmas C14A.Alg C14A.AlgLemmas.
Import ListNotations.
Open Scope Z_scope.
Ltac Zify.zify_post_hook ::= Z.to_euclidean_division_equations.

Definition env_ok (e : env) : Prop := forall n, wd (e n).
Definition fresh_op (f : nat) (o : operand) : Prop :=
  match o with Lit _ => True | Var n => n <> f | Lbl n => n <> f end.

Lemma oval_wd e o : env_ok e -> wd (oval e o).
Proof. intros H. destruct o; cbn; [apply wrap_wd | apply H | apply H]. Qed.
Lemma upd_same e f x : upd e f x f = x.
Proof. unfold upd. rewrite Nat.eqb_refl. reflexivity. Qed.
Lemma upd_other e f x n : n <> f -> upd e f x n = e n.
Proof. intros H. unfold upd. apply Nat.eqb_neq in H. rewrite H. reflexivity. Qed.
Lemma oval_upd e f x o : fresh_op f o -> oval (upd e f x) o = oval e o.
Proof. destruct o; cbn; intros H; [reflexivity | apply upd_other; exact H | apply upd_other; exact H]. Qed.
Lemma lit_eq_val e o c : lit_eq o c = true -> oval e o = wrap c.
Proof. destruct o; cbn; try discriminate. intros H. apply Z.eqb_eq in H. exact H. Qed.
Lemma lit_eq_false e o c : is_lit o = true -> lit_eq o c = false -> oval e o <> wrap c.
Proof. destruct o; cbn; try discriminate. intros _ H. apply Z.eqb_neq in H. exact H. Qed.
Lemma operand_eqb_val e a b : operand_eqb a b = true -> oval e a = oval e b.
Proof.
  destruct a, b; cbn; try discriminate; intros H.
  - apply Z.eqb_eq in H. subst. reflexivity.
  - apply Nat.eqb_eq in H. subst. reflexivity.
  - apply Nat.eqb_eq in H. subst. reflexivity.
Qed.

(* value of the output variable after the rewritten sequence *)
Definition result_value (e : env) (r : result) : option Z :=
  match run e (r_pre r) with Some e1 => eval_inst e1 (r_inst r) | None => None end.

(* relation between the old value v and the new value v' of the output variable *)
Definition rel (us : list use) (a : after_rw) (v v' : Z) : Prop :=
  match a with
  | AKeep => v' = v \/ (is_truthy us = true /\ nzb v' = nzb v)
  | AToAssign => v' = w_iszero v /\ exists n, us = [UIszero n false]
  | AInsertIszero _ => v' = w_iszero v /\ us = [UAssert]
  end.

(* ---------- flip ---------- *)
Lemma flip_eval e i : flippable (i_op i) = true -> length (i_args i) = 2%nat -> eval_inst e (flip i) = eval_inst e i.
Proof.
  destruct i as [out op args]. cbn [i_op i_args]. intros Hf Hl.
  destruct args as [|a [|b [|c t]]]; try discriminate. unfold eval_inst, flip. cbn [i_op i_args rev app map].
  destruct op; try discriminate; cbn [is_comparator flip_cmp eval_op]; f_equal;
    auto using add_comm, mul_comm, and_comm, or_comm, xor_comm, eq_comm, gt_lt, sgt_slt;
    try (symmetry; apply gt_lt); try (symmetry; apply sgt_slt).
Qed.
Lemma normalize_eval e i : eval_inst e (normalize i) = eval_inst e i.
Proof.
  unfold normalize. destruct (i_args i) as [|a [|b [|c t]]] eqn:E; try reflexivity.
  destruct (flippable (i_op i) && is_lit b && negb (is_lit a)) eqn:C; [|reflexivity].
  apply andb_true_iff in C. destruct C as [C _]. apply andb_true_iff in C. destruct C as [C _].
  apply flip_eval; [exact C | rewrite E; reflexivity].
Qed.
Lemma flip_inst_eval e i : eval_inst e (flip_inst i) = eval_inst e i.
Proof.
  unfold flip_inst. destruct (i_args i) as [|a [|b [|c t]]] eqn:E; try reflexivity.
  destruct (flippable (i_op i) && is_lit a && negb (is_lit b)) eqn:C; [|reflexivity].
  apply andb_true_iff in C. destruct C as [C _]. apply andb_true_iff in C. destruct C as [C _].
  apply flip_eval; [exact C | rewrite E; reflexivity].
Qed.
Lemma normalize_args i : length (i_args (normalize i)) = length (i_args i).
Proof.
  unfold normalize. destruct (i_args i) as [|a [|b [|c t]]] eqn:E; rewrite ?E; try reflexivity.
  destruct (_ && _ && _); [|rewrite E; reflexivity]. unfold flip. cbn [i_args]. rewrite rev_length, E. reflexivity.
Qed.
Lemma normalize_out i : i_out (normalize i) = i_out i.
Proof. unfold normalize. destruct (i_args i) as [|a [|b [|c t]]]; try reflexivity. destruct (_ && _ && _); reflexivity. Qed.

(* ---------- result evaluation helpers ---------- *)
Lemma rv_keep e i : result_value e (keep i) = eval_inst e i. Proof. reflexivity. Qed.
Lemma rv_assign e i x : result_value e (assign i x) = Some (oval e x). Proof. reflexivity. Qed.
Lemma rv_upd e i op args : result_value e (upd_op i op args) = eval_op op (map (oval e) args). Proof. reflexivity. Qed.

Ltac keep_case Hev := eexists; split; [rewrite rv_keep; exact Hev | left; reflexivity].
Ltac same_val := left; reflexivity.

Section Local.
Variable e : env. (*section*)
Variable f : nat. (*section*)
Variable us : list use. (*section*)
Variable out : nat. (*section*)
Variables o0 o1 : operand. (*section*)
Hypothesis He : env_ok e. (*section*)

Let v0 := oval e o0.
Let v1 := oval e o1.
Lemma wd0 : wd v0. Proof. apply oval_wd, He. Qed.
Lemma wd1 : wd v1. Proof. apply oval_wd, He. Qed.

Definition goal (op : opcode) (v : Z) : Prop :=
  let r := rule_local f (mkI out op [o0; o1]) us in
  exists v', result_value e r = Some v' /\ rel us (r_after r) v v'.

Ltac start := unfold goal; cbn [rule_local i_args i_op].
Ltac fin_assign := eexists; split; [rewrite rv_assign; reflexivity|]; cbn [assign r_after rel]; left.
Ltac fin_upd := eexists; split; [rewrite rv_upd; reflexivity|]; cbn [upd_op r_after rel]; left.
Ltac fin_keep := eexists; split; [rewrite rv_keep; reflexivity|]; cbn [keep r_after rel]; left; reflexivity.

Lemma shl_sound : goal Oshl (w_shl v1 v0).
Proof.
  start. destruct (lit_eq o1 0) eqn:E; [|fin_keep]. fin_assign.
  unfold v1. rewrite (lit_eq_val e o1 0 E), wrap_0. cbn [oval]. fold v0. symmetry. apply shl_0, wd0.
Qed.
Lemma shr_sound : goal Oshr (w_shr v1 v0).
Proof.
  start. destruct (lit_eq o1 0) eqn:E; [|fin_keep]. fin_assign.
  unfold v1. rewrite (lit_eq_val e o1 0 E), wrap_0. fold v0. symmetry. apply shr_0.
Qed.
Lemma sar_sound : goal Osar (w_sar v1 v0).
Proof.
  start. destruct (lit_eq o1 0) eqn:E; [|fin_keep]. fin_assign.
  unfold v1. rewrite (lit_eq_val e o1 0 E), wrap_0. fold v0. symmetry. apply sar_0, wd0.
Qed.
Lemma signextend_sound : goal Osignextend (w_signextend v1 v0).
Proof.
  start. destruct o1 as [n| |]; try fin_keep. destruct (31 <=? wrap n) eqn:E; [|fin_keep]. fin_assign.
  apply Z.leb_le in E. unfold v1. cbn [oval]. fold v0. symmetry. apply signextend_big. exact E.
Qed.
Lemma exp_sound : goal Oexp (w_exp v1 v0).
Proof.
  start. pose proof wd0. pose proof wd1.
  destruct (lit_eq o0 0) eqn:E0.
  { fin_assign. unfold v0. rewrite (lit_eq_val e o0 0 E0). reflexivity. }
  destruct (lit_eq o1 1) eqn:E1.
  { fin_assign. unfold v1. rewrite (lit_eq_val e o1 1 E1), wrap_1. cbn [oval]. rewrite wrap_1. symmetry. apply exp_1_x. assumption. }
  destruct (lit_eq o1 0) eqn:E2.
  { fin_upd. cbn [map eval_op]. fold v0. unfold v1. rewrite (lit_eq_val e o1 0 E2), wrap_0. f_equal. symmetry. apply exp_0_x. assumption. }
  destruct (lit_eq o0 1) eqn:E3; [|fin_keep].
  fin_assign. fold v1. unfold v0. rewrite (lit_eq_val e o0 1 E3), wrap_1. symmetry. apply exp_x_1. assumption.
Qed.

Ltac lv0 E c := unfold v0; rewrite (lit_eq_val e o0 c E).
Ltac lv1 E c := unfold v1; rewrite (lit_eq_val e o1 c E).

Lemma add_sound : goal Oadd (w_add v1 v0).
Proof.
  start. pose proof wd1. cbn [andb]. destruct (lit_eq o0 0) eqn:E0; [|fin_keep].
  fin_assign. fold v1. lv0 E0 0. rewrite wrap_0. symmetry. apply add_0. assumption.
Qed.
Lemma sub_sound : goal Osub (w_sub v1 v0).
Proof.
  start. pose proof wd0. pose proof wd1. cbn [andb].
  destruct (operand_eqb o0 o1) eqn:Eq.
  { fin_assign. cbn [oval]. rewrite wrap_0. unfold v0, v1. rewrite (operand_eqb_val e _ _ Eq). symmetry. apply sub_self. }
  destruct (lit_eq o0 0) eqn:E0.
  { fin_assign. fold v1. lv0 E0 0. rewrite wrap_0. symmetry. apply sub_0. assumption. }
  destruct (lit_eq o1 (-1)) eqn:E1; [|fin_keep].
  fin_upd. cbn [map eval_op]. fold v0. lv1 E1 (-1). rewrite wrap_m1. symmetry. apply sub_m1. assumption.
Qed.
Lemma xor_sound : goal Oxor (w_xor v1 v0).
Proof.
  start. pose proof wd0. pose proof wd1. cbn [andb].
  destruct (operand_eqb o0 o1) eqn:Eq.
  { fin_assign. cbn [oval]. rewrite wrap_0. unfold v0, v1. rewrite (operand_eqb_val e _ _ Eq). symmetry. apply xor_self. }
  destruct (lit_eq o0 0) eqn:E0.
  { fin_assign. fold v1. lv0 E0 0. rewrite wrap_0. symmetry. apply xor_0. }
  destruct (lit_eq o0 (-1)) eqn:E1; [|fin_keep].
  fin_upd. cbn [map eval_op]. fold v1. lv0 E1 (-1). rewrite wrap_m1. symmetry. apply xor_m1. assumption.
Qed.
Lemma and_sound : goal Oand (w_and v1 v0).
Proof.
  start. pose proof wd0. pose proof wd1.
  destruct (lit_eq o0 (-1)) eqn:E0.
  { fin_assign. fold v1. lv0 E0 (-1). rewrite wrap_m1. symmetry. apply and_m1. assumption. }
  destruct (lit_eq o0 0) eqn:E1; cbn [orb].
  { fin_assign. cbn [oval]. rewrite wrap_0. lv0 E1 0. rewrite wrap_0. symmetry. apply and_0_r. }
  destruct (lit_eq o1 0) eqn:E2; [|fin_keep].
  fin_assign. cbn [oval]. rewrite wrap_0. lv1 E2 0. rewrite wrap_0. symmetry. apply and_0_l.
Qed.

(* the power-of-two strength reductions *)
Lemma pow2_facts v : is_power_of_two v = true -> wrap v <> 0 ->
  let k := Z.log2 v in 0 <= k < 256 /\ wrap v = 2 ^ k /\ wrap k = k /\ wrap (v - 1) = 2 ^ k - 1.
Proof.
  intros Hp Hw. unfold is_power_of_two in Hp. apply andb_true_iff in Hp. destruct Hp as [Hn Hl].
  apply negb_true_iff, Z.eqb_neq in Hn. apply Z.eqb_eq in Hl.
  destruct (pow2_word v Hn Hl Hw) as (H1 & H2 & H3 & H4 & H5). auto.
Qed.

Ltac zero_cases E0 E1 lem0 lem1 :=
  destruct (lit_eq o0 0) eqn:E0; cbn [orb];
  [fin_assign; cbn [oval]; rewrite wrap_0; lv0 E0 0; rewrite wrap_0; symmetry; apply lem0|];
  destruct (lit_eq o1 0) eqn:E1;
  [fin_assign; cbn [oval]; rewrite wrap_0; lv1 E1 0; rewrite wrap_0; symmetry; apply lem1|].

Lemma mul_sound : goal Omul (w_mul v1 v0).
Proof.
  start. pose proof wd0. pose proof wd1. zero_cases E0 E1 mul_0_r mul_0_l. cbn [andb].
  destruct (lit_eq o0 1) eqn:E2.
  { fin_assign. fold v1. lv0 E2 1. rewrite wrap_1. symmetry. apply mul_1. assumption. }
  destruct o0 as [v| |]; try fin_keep. destruct (is_power_of_two v) eqn:Ep; [|fin_keep].
  cbn [lit_eq] in E0. rewrite wrap_0 in E0. apply Z.eqb_neq in E0.
  destruct (pow2_facts v Ep E0) as (Hk & Hv & Hkk & _).
  fin_upd. cbn [map eval_op oval]. fold v1. unfold v0, int_log2. cbn [oval]. rewrite Hkk, Hv.
  apply mul_pow2. exact Hk.
Qed.
Lemma div_sound : goal Odiv (w_div v1 v0).
Proof.
  start. pose proof wd0. pose proof wd1. zero_cases E0 E1 div_0_r div_0_l. cbn [andb].
  destruct (lit_eq o0 1) eqn:E2.
  { fin_assign. fold v1. lv0 E2 1. rewrite wrap_1. symmetry. apply div_1. }
  destruct o0 as [v| |]; try fin_keep. destruct (is_power_of_two v) eqn:Ep; [|fin_keep].
  cbn [lit_eq] in E0. rewrite wrap_0 in E0. apply Z.eqb_neq in E0.
  destruct (pow2_facts v Ep E0) as (Hk & Hv & Hkk & _).
  fin_upd. cbn [map eval_op oval]. fold v1. unfold v0, int_log2. cbn [oval]. rewrite Hkk, Hv.
  apply div_pow2. exact Hk.
Qed.
Lemma mod_sound : goal Omod (w_mod v1 v0).
Proof.
  start. pose proof wd0. pose proof wd1. zero_cases E0 E1 mod_0_r mod_0_l. cbn [andb].
  destruct (lit_eq o0 1) eqn:E2.
  { fin_assign. cbn [oval]. rewrite wrap_0. lv0 E2 1. rewrite wrap_1. symmetry. apply mod_1. }
  destruct o0 as [v| |]; try fin_keep. destruct (is_power_of_two v) eqn:Ep; [|fin_keep].
  cbn [lit_eq] in E0. rewrite wrap_0 in E0. apply Z.eqb_neq in E0.
  destruct (pow2_facts v Ep E0) as (Hk & Hv & _ & Hm).
  fin_upd. cbn [map eval_op oval]. fold v1. unfold v0. cbn [oval]. rewrite Hm, Hv.
  apply mod_pow2. exact Hk.
Qed.
Lemma sdiv_sound : goal Osdiv (w_sdiv v1 v0).
Proof.
  start. pose proof wd0. pose proof wd1. zero_cases E0 E1 sdiv_0_r sdiv_0_l. cbn [andb].
  destruct (lit_eq o0 1) eqn:E2.
  { fin_assign. fold v1. lv0 E2 1. rewrite wrap_1. symmetry. apply sdiv_1. assumption. }
  destruct o0 as [v| |]; try fin_keep. destruct (is_power_of_two v); fin_keep.
Qed.
Lemma smod_sound : goal Osmod (w_smod v1 v0).
Proof.
  start. pose proof wd0. pose proof wd1. zero_cases E0 E1 smod_0_r smod_0_l. cbn [andb].
  destruct (lit_eq o0 1) eqn:E2.
  { fin_assign. cbn [oval]. rewrite wrap_0. lv0 E2 1. rewrite wrap_1. symmetry. apply smod_1. }
  destruct o0 as [v| |]; try fin_keep. destruct (is_power_of_two v); fin_keep.
Qed.

Lemma or_sound : goal Oor (w_or v1 v0).
Proof.
  start. pose proof wd0. pose proof wd1.
  destruct (lit_eq o0 MAX_UINT256) eqn:E0; cbn [orb].
  { fin_assign. cbn [oval]. unfold MAX_UINT256 in *. lv0 E0 (2 ^ 256 - 1). rewrite c_MAXU. symmetry. apply or_m1_r. assumption. }
  destruct (lit_eq o1 MAX_UINT256) eqn:E1.
  { fin_assign. cbn [oval]. unfold MAX_UINT256 in *. lv1 E1 (2 ^ 256 - 1). rewrite c_MAXU. symmetry. apply or_m1_l. assumption. }
  destruct (is_truthy us && is_lit o0 && negb (lit_eq o0 0)) eqn:Et.
  { apply andb_true_iff in Et. destruct Et as [Et Ez]. apply andb_true_iff in Et. destruct Et as [Et El].
    apply negb_true_iff in Ez. eexists. split; [rewrite rv_assign; reflexivity|]. cbn [assign r_after rel]. right.
    split; [exact Et|]. cbn [oval]. rewrite wrap_1. unfold nzb.
    pose proof (lit_eq_false e o0 0 El Ez) as Hne. rewrite wrap_0 in Hne. fold v0 in Hne.
    pose proof (or_nonzero v1 v0 Hne) as Hor. apply Z.eqb_neq in Hor. rewrite Hor. reflexivity. }
  destruct (lit_eq o0 0) eqn:E2; [|fin_keep].
  fin_assign. fold v1. lv0 E2 0. rewrite wrap_0. symmetry. apply or_0.
Qed.

Lemma eq_sound : goal Oeq (w_eq v1 v0).
Proof.
  start. pose proof wd0. pose proof wd1.
  destruct (operand_eqb o0 o1) eqn:Eq.
  { fin_assign. cbn [oval]. rewrite wrap_1. unfold v0, v1. rewrite (operand_eqb_val e _ _ Eq). symmetry. apply eq_self. }
  destruct (lit_eq o0 0) eqn:E0.
  { fin_upd. cbn [map eval_op]. fold v1. lv0 E0 0. rewrite wrap_0. symmetry. apply eq_0. }
  destruct (lit_eq o0 (-1)) eqn:E1.
  { eexists. split.
    - unfold result_value. cbn [r_pre r_inst run eval_inst i_op i_args i_out map eval_op oval]. rewrite upd_same. reflexivity.
    - cbn [r_after rel]. left. fold v1. lv0 E1 (-1). rewrite wrap_m1. symmetry. apply eq_m1. assumption. }
  destruct (prefer_iszero us) eqn:Ep; [|fin_keep].
  eexists. split.
  - unfold result_value. cbn [r_pre r_inst run eval_inst i_op i_args i_out map eval_op oval]. rewrite upd_same. reflexivity.
  - cbn [r_after rel]. left. fold v0 v1. symmetry. apply eq_xor.
Qed.
End Local.

(* ---------- comparators ---------- *)
Definition cgoal (e : env) (f : nat) (us : list use) (out : nat) (o0 o1 : operand) (op : opcode) (v : Z) : Prop :=
  let r := rule_local f (mkI out op [o0; o1]) us in
  exists v', result_value e r = Some v' /\ rel us (r_after r) v v'.

Ltac one_pre := unfold result_value; cbn [r_pre r_inst run eval_inst i_op i_args i_out map eval_op oval];
                rewrite ?upd_same; reflexivity.
Ltac two_pre F := unfold result_value; cbn [r_pre r_inst run eval_inst i_op i_args i_out map eval_op oval];
                rewrite ?upd_same; rewrite ?(oval_upd _ _ _ _ F); rewrite ?upd_same; reflexivity.

Ltac cmp_tail e o1 v f flipl Hne :=
  (* the single-use rule; Hne : wrap v <> never *)
  match goal with
  | |- context [match ?us with _ => _ end] =>
    destruct us as [|u [|u2 t]]; try (eexists; split; [rewrite rv_keep; reflexivity | left; reflexivity]);
    destruct u as [n b| | | |]; try (eexists; split; [rewrite rv_keep; reflexivity | left; reflexivity]);
    [ destruct (Nat.eqb n 1) eqn:En; cbn [negb];
      [destruct b; [eexists; split; [rewrite rv_keep; reflexivity | left; reflexivity]|] |
       eexists; split; [rewrite rv_keep; reflexivity | left; reflexivity]];
      eexists; split; [unfold result_value; cbn [r_pre r_inst run eval_inst i_op i_args i_out map eval_op oval flip_cmp]; reflexivity|];
      cbn [r_after rel]; split; [apply flipl; [apply oval_wd; assumption | apply wrap_wd | exact Hne] | eexists; reflexivity]
    | eexists; split; [unfold result_value; cbn [r_pre r_inst run eval_inst i_op i_args i_out map eval_op oval flip_cmp]; reflexivity|];
      cbn [r_after rel]; split; [apply flipl; [apply oval_wd; assumption | apply wrap_wd | exact Hne] | reflexivity] ]
  end.

Lemma gt_sound e f us out o0 o1 : env_ok e -> cgoal e f us out o0 o1 Ogt (w_gt (oval e o1) (oval e o0)).
Proof.
  intros He. unfold cgoal. cbn [rule_local i_args i_op]. unfold rule_cmp. cbn [i_op i_out].
  pose proof (oval_wd e o1 He) as W1.
  destruct (operand_eqb o0 o1) eqn:Eq.
  { eexists; split; [rewrite rv_assign; reflexivity|]. left. cbn [oval]. rewrite wrap_0, (operand_eqb_val e _ _ Eq). symmetry. apply cmp_self_gt. }
  destruct o0 as [v| |]; try (eexists; split; [rewrite rv_keep; reflexivity | left; reflexivity]).
  destruct (lit_eq (Lit v) (2 ^ 256 - 1)) eqn:E0.
  { eexists; split; [rewrite rv_assign; reflexivity|]. left. rewrite (lit_eq_val e _ _ E0), c_MAXU. cbn [oval]. rewrite wrap_0.
    symmetry. apply gt_never. exact W1. }
  destruct (lit_eq (Lit v) (2 ^ 256 - 1 - 1)) eqn:E1.
  { change (2 ^ 256 - 1 =? 0) with false. change (wrap (2 ^ 256 - 1) =? wrap (-1)) with true. cbv iota.
    eexists; split; [one_pre|]. left. rewrite (lit_eq_val e _ _ E1), c_MAXU1. symmetry. apply gt_almost_never. exact W1. }
  destruct (prefer_iszero us && lit_eq (Lit v) 0) eqn:E2.
  { apply andb_true_iff in E2. destruct E2 as [_ E2]. pose proof E2 as E2'. cbn [lit_eq] in E2'. rewrite wrap_0 in E2'. rewrite E2'.
    eexists; split; [one_pre|]. left. rewrite (lit_eq_val e _ _ E2), wrap_0. symmetry. apply gt_almost_always. exact W1. }
  cbn [andb]. destruct (lit_eq (Lit v) 0) eqn:E3.
  { eexists; split; [one_pre|]. left. rewrite (lit_eq_val e _ _ E3), wrap_0. symmetry. apply gt_almost_always. exact W1. }
  assert (Hne : wrap v <> MAXU) by (cbn [lit_eq] in E0; apply Z.eqb_neq in E0; rewrite c_MAXU in E0; exact E0).
  cbn [oval]. cmp_tail e o1 v f flip_gt Hne.
Qed.

Ltac keepit := eexists; split; [rewrite rv_keep; reflexivity | left; reflexivity].

Lemma lt_sound e f us out o0 o1 : env_ok e -> cgoal e f us out o0 o1 Olt (w_lt (oval e o1) (oval e o0)).
Proof.
  intros He. unfold cgoal. cbn [rule_local i_args i_op]. unfold rule_cmp. cbn [i_op i_out].
  pose proof (oval_wd e o1 He) as W1.
  destruct (operand_eqb o0 o1) eqn:Eq.
  { eexists; split; [rewrite rv_assign; reflexivity|]. left. cbn [oval]. rewrite wrap_0, (operand_eqb_val e _ _ Eq). symmetry. apply cmp_self_lt. }
  destruct o0 as [v| |]; try keepit.
  destruct (lit_eq (Lit v) 0) eqn:E0.
  { eexists; split; [rewrite rv_assign; reflexivity|]. left. rewrite (lit_eq_val e _ _ E0), wrap_0. cbn [oval]. rewrite wrap_0.
    symmetry. apply lt_never. exact W1. }
  destruct (lit_eq (Lit v) (0 + 1)) eqn:E1.
  { change (0 =? 0) with true. cbv iota.
    eexists; split; [rewrite rv_upd; reflexivity|]. left. cbn [map eval_op]. rewrite (lit_eq_val e _ _ E1). change (wrap (0 + 1)) with 1.
    symmetry. apply lt_almost_never. exact W1. }
  destruct (prefer_iszero us && lit_eq (Lit v) (2 ^ 256 - 1)) eqn:E2.
  { apply andb_true_iff in E2. destruct E2 as [_ E2]. pose proof E2 as E2'. cbn [lit_eq] in E2'. apply Z.eqb_eq in E2'. rewrite E2'.
    change (wrap (2 ^ 256 - 1) =? 0) with false. change (wrap (2 ^ 256 - 1) =? wrap (-1)) with true. cbv iota.
    eexists; split; [one_pre|]. left. rewrite (lit_eq_val e _ _ E2), c_MAXU. symmetry. apply lt_almost_always. exact W1. }
  cbn [andb].
  assert (Hne : wrap v <> 0) by (cbn [lit_eq] in E0; apply Z.eqb_neq in E0; rewrite wrap_0 in E0; exact E0).
  cbn [oval]. cmp_tail e o1 v f flip_lt Hne.
Qed.

Lemma sgt_sound e f us out o0 o1 : env_ok e -> cgoal e f us out o0 o1 Osgt (w_sgt (oval e o1) (oval e o0)).
Proof.
  intros He. unfold cgoal. cbn [rule_local i_args i_op]. unfold rule_cmp. cbn [i_op i_out].
  pose proof (oval_wd e o1 He) as W1.
  destruct (operand_eqb o0 o1) eqn:Eq.
  { eexists; split; [rewrite rv_assign; reflexivity|]. left. cbn [oval]. rewrite wrap_0, (operand_eqb_val e _ _ Eq). symmetry. apply cmp_self_sgt. }
  destruct o0 as [v| |]; try keepit.
  destruct (lit_eq (Lit v) (2 ^ 255 - 1)) eqn:E0.
  { eexists; split; [rewrite rv_assign; reflexivity|]. left. rewrite (lit_eq_val e _ _ E0), c_MAXS. cbn [oval]. rewrite wrap_0.
    symmetry. apply sgt_never. exact W1. }
  destruct (lit_eq (Lit v) (2 ^ 255 - 1 - 1)) eqn:E1.
  { change (2 ^ 255 - 1 =? 0) with false. change (wrap (2 ^ 255 - 1) =? wrap (-1)) with false. cbv iota.
    eexists; split; [rewrite rv_upd; reflexivity|]. left. rewrite (lit_eq_val e _ _ E1), c_MAXS1. cbn [map eval_op oval]. rewrite c_MAXS.
    symmetry. apply sgt_almost_never. exact W1. }
  destruct (prefer_iszero us && lit_eq (Lit v) (- 2 ^ 255)) eqn:E2.
  { apply andb_true_iff in E2. destruct E2 as [_ E2]. pose proof E2 as E2'. cbn [lit_eq] in E2'. apply Z.eqb_eq in E2'. rewrite E2'.
    change (wrap (- 2 ^ 255) =? 0) with false. change (wrap (- 2 ^ 255) =? wrap (-1)) with false. cbv iota.
    eexists; split; [one_pre|]. left. rewrite (lit_eq_val e _ _ E2), c_MINS, E2', c_MINS. symmetry. apply sgt_almost_always. exact W1. }
  cbn [andb].
  assert (Hne : wrap v <> MAXS) by (cbn [lit_eq] in E0; apply Z.eqb_neq in E0; rewrite c_MAXS in E0; exact E0).
  cbn [oval]. cmp_tail e o1 v f flip_sgt Hne.
Qed.

Lemma slt_sound e f us out o0 o1 : env_ok e -> cgoal e f us out o0 o1 Oslt (w_slt (oval e o1) (oval e o0)).
Proof.
  intros He. unfold cgoal. cbn [rule_local i_args i_op]. unfold rule_cmp. cbn [i_op i_out].
  pose proof (oval_wd e o1 He) as W1.
  destruct (operand_eqb o0 o1) eqn:Eq.
  { eexists; split; [rewrite rv_assign; reflexivity|]. left. cbn [oval]. rewrite wrap_0, (operand_eqb_val e _ _ Eq). symmetry. apply cmp_self_slt. }
  destruct o0 as [v| |]; try keepit.
  destruct (lit_eq (Lit v) (- 2 ^ 255)) eqn:E0.
  { eexists; split; [rewrite rv_assign; reflexivity|]. left. rewrite (lit_eq_val e _ _ E0), c_MINS. cbn [oval]. rewrite wrap_0.
    symmetry. apply slt_never. exact W1. }
  destruct (lit_eq (Lit v) (- 2 ^ 255 + 1)) eqn:E1.
  { change (- 2 ^ 255 =? 0) with false. change (wrap (- 2 ^ 255) =? wrap (-1)) with false. cbv iota.
    eexists; split; [rewrite rv_upd; reflexivity|]. left. rewrite (lit_eq_val e _ _ E1), c_MINS1. cbn [map eval_op oval]. rewrite c_MINS.
    symmetry. apply slt_almost_never. exact W1. }
  destruct (prefer_iszero us && lit_eq (Lit v) (2 ^ 255 - 1)) eqn:E2.
  { apply andb_true_iff in E2. destruct E2 as [_ E2]. pose proof E2 as E2'. cbn [lit_eq] in E2'. apply Z.eqb_eq in E2'. rewrite E2'.
    change (wrap (2 ^ 255 - 1) =? 0) with false. change (wrap (2 ^ 255 - 1) =? wrap (-1)) with false. cbv iota.
    eexists; split; [one_pre|]. left. rewrite (lit_eq_val e _ _ E2), c_MAXS, E2', c_MAXS. symmetry. apply slt_almost_always. exact W1. }
  cbn [andb].
  assert (Hne : wrap v <> HALF) by (cbn [lit_eq] in E0; apply Z.eqb_neq in E0; rewrite c_MINS in E0; exact E0).
  cbn [oval]. cmp_tail e o1 v f flip_slt Hne.
Qed.

(* ---------- all local rules ---------- *)
Theorem rule_local_sound e f us i v :
  env_ok e -> eval_inst e i = Some v ->
  exists v', result_value e (rule_local f i us) = Some v' /\ rel us (r_after (rule_local f i us)) v v'.
Proof.
  intros He Hev. destruct i as [out op args].
  destruct args as [|o0 [|o1 [|o2 t]]];
    try (eexists; split; [cbn [rule_local i_args]; rewrite rv_keep; exact Hev | left; reflexivity]).
  unfold eval_inst in Hev. cbn [i_op i_args map] in Hev.
  destruct op; cbn [eval_op] in Hev; try discriminate; inversion Hev; subst v; clear Hev;
    try (eexists; split; [cbn [rule_local i_args i_op]; rewrite rv_keep; reflexivity | left; reflexivity]).
  - apply add_sound; assumption.
  - apply sub_sound; assumption.
  - apply mul_sound; assumption.
  - apply div_sound; assumption.
  - apply sdiv_sound; assumption.
  - apply mod_sound; assumption.
  - apply smod_sound; assumption.
  - apply exp_sound; assumption.
  - apply and_sound; assumption.
  - apply or_sound; assumption.
  - apply xor_sound; assumption.
  - apply eq_sound; assumption.
  - apply gt_sound; assumption.
  - apply lt_sound; assumption.
  - apply sgt_sound; assumption.
  - apply slt_sound; assumption.
  - apply shl_sound; assumption.
  - apply shr_sound; assumption.
  - apply sar_sound; assumption.
  - apply signextend_sound; assumption.
Qed.

(* ---------- producer-based rule: signextend(n, signextend(m, x)), m <= n ---------- *)
(* the producer, when given, is the instruction that defined the variable operand it is looked up for *)
Definition producer_ok (e : env) (i : inst) (p : option inst) : Prop :=
  match p with
  | Some p => match i_args i with
              | Var x :: _ => i_out p = x /\ eval_inst e p = Some (e x)
              | _ => True
              end
  | None => True
  end.

Lemma rule_producer_sound e us i p v r :
  env_ok e -> eval_inst e i = Some v -> producer_ok e i p -> rule_producer i p = Some r ->
  exists v', result_value e r = Some v' /\ rel us (r_after r) v v'.
Proof.
  intros He Hev Hp Hr. unfold rule_producer in Hr.
  destruct i as [out op args]. cbn [i_op i_args] in *.
  destruct op; try discriminate. destruct args as [|[|x|] [|[n| |] [|]]]; try discriminate.
  destruct p as [p|]; [|discriminate]. destruct p as [pout pop pargs]. cbn [i_op i_args i_out] in *.
  destruct pop; try discriminate. destruct pargs as [|y [|[m| |] [|]]]; try discriminate.
  destruct (wrap m <=? wrap n) eqn:E; [|discriminate]. inversion Hr; subst r; clear Hr.
  apply Z.leb_le in E. destruct Hp as [_ Hp]. unfold eval_inst in Hp, Hev. cbn [i_op i_args map eval_op oval] in Hp, Hev.
  inversion Hp as [Hx]. inversion Hev; subst v.
  eexists; split; [rewrite rv_assign; reflexivity|]. left. cbn [oval]. rewrite <- Hx.
  symmetry. apply signextend_idem; [apply wrap_wd | exact E | apply oval_wd; exact He].
Qed.

(* ---------- the whole per-instruction rewrite ---------- *)
Lemma result_value_flip e r :
  result_value e (mkR (r_pre r) (flip_inst (r_inst r)) (r_after r)) = result_value e r.
Proof. unfold result_value. cbn [r_pre r_inst]. destruct (run e (r_pre r)); [apply flip_inst_eval | reflexivity]. Qed.

Theorem alg_rewrite_sound e f us i p v :
  env_ok e -> eval_inst e i = Some v -> producer_ok e i p ->
  let r := alg_rewrite f i us p in
  exists v', result_value e r = Some v' /\ rel us (r_after r) v v'.
Proof.
  intros He Hev Hp r. subst r. unfold alg_rewrite.
  assert (Hk : exists v', result_value e (keep i) = Some v' /\ rel us (r_after (keep i)) v v')
    by (eexists; split; [rewrite rv_keep; exact Hev | left; reflexivity]).
  assert (Hmain : exists v', result_value e (match rule_producer i p with Some r => r | None => rule_local f (normalize i) us end) = Some v' /\
                      rel us (r_after (match rule_producer i p with Some r => r | None => rule_local f (normalize i) us end)) v v').
  { destruct (rule_producer i p) as [r|] eqn:Er.
    - eapply rule_producer_sound; eauto.
    - apply rule_local_sound; [exact He | rewrite normalize_eval; exact Hev]. }
  destruct Hmain as (v' & H1 & H2).
  destruct (i_op i); try exact Hk; (exists v'; split; [rewrite result_value_flip; exact H1 | exact H2]).
Qed.

(* what the relation means for each user of the output variable *)
Definition observe (u : use) (v : Z) : Z := match u with UOther => v | _ => b2z (nzb v) end.
Corollary alg_rewrite_observations e f us i p v :
  env_ok e -> eval_inst e i = Some v -> producer_ok e i p ->
  let r := alg_rewrite f i us p in
  exists v', result_value e r = Some v' /\
    match r_after r with
    | AKeep => forall u, In u us -> observe u v' = observe u v          (* every user sees the same thing *)
    | AToAssign => v' = w_iszero v                                      (* the iszero user, now `assign`, yields v' *)
    | AInsertIszero _ => nzb (w_iszero v') = nzb v                      (* the assert now tests iszero v' *)
    end.
Proof.
  intros He Hev Hp r. destruct (alg_rewrite_sound e f us i p v He Hev Hp) as (v' & H1 & H2). fold r in H1, H2.
  exists v'. split; [exact H1|]. destruct (r_after r); cbn [rel] in H2.
  - intros u Hu. destruct H2 as [->|[Ht Hn]]; [reflexivity|].
    unfold is_truthy in Ht. rewrite forallb_forall in Ht. specialize (Ht u Hu).
    destruct u; try discriminate; cbn [observe]; rewrite Hn; reflexivity.
  - apply H2.
  - destruct H2 as [-> _]. apply nz_iszero2.
Qed.

(* ---------- iszero chains ---------- *)
Fixpoint iszero_n (n : nat) (x : Z) : Z := match n with O => x | S k => w_iszero (iszero_n k x) end.
Lemma iszero_n_S2 n x : iszero_n (S (S (S n))) x = iszero_n (S n) x.
Proof. induction n as [|n IH]; cbn [iszero_n] in *; [apply iszero3 | rewrite IH; reflexivity]. Qed.
Lemma nz_iszero_n_S2 n x : nzb (iszero_n (S (S n)) x) = nzb (iszero_n n x).
Proof. cbn [iszero_n]. apply nz_iszero2. Qed.

(* a user that only tests truthiness may read iszero^(depth mod 2); any other user may read
   iszero^(2 - depth mod 2) (depth >= 1): this is what _rewrite_iszero_uses substitutes *)
Lemma mod2_SS d : Nat.modulo (S (S d)) 2 = Nat.modulo d 2.
Proof.
  change (S (S d)) with (2 + d)%nat. rewrite (Nat.add_comm 2 d).
  replace (d + 2)%nat with (d + 1 * 2)%nat by lia. apply Nat.mod_add. lia.
Qed.
Lemma nz_chain x d :
  nzb (iszero_n (Nat.modulo d 2) x) = nzb (iszero_n d x) /\
  nzb (iszero_n (Nat.modulo (S d) 2) x) = nzb (iszero_n (S d) x).
Proof.
  induction d as [|d [IH1 IH2]]; [split; reflexivity|]. split; [exact IH2|].
  rewrite mod2_SS, nz_iszero_n_S2. exact IH1.
Qed.
Lemma val_chain x d :
  iszero_n (2 - Nat.modulo (S d) 2) x = iszero_n (S d) x /\
  iszero_n (2 - Nat.modulo (S (S d)) 2) x = iszero_n (S (S d)) x.
Proof.
  induction d as [|d [IH1 IH2]]; [split; reflexivity|]. split; [exact IH2|].
  rewrite mod2_SS, iszero_n_S2. exact IH1.
Qed.

Theorem chain_rewrite_sound truthy depth k x :
  chain_rewrite truthy depth = Some k ->
  if truthy then nzb (iszero_n k x) = nzb (iszero_n depth x) else iszero_n k x = iszero_n depth x.
Proof.
  unfold chain_rewrite, chain_keep. intros H.
  destruct truthy.
  - destruct (Nat.ltb (Nat.modulo depth 2) depth); [|discriminate]. inversion H. apply nz_chain.
  - destruct (Nat.ltb (2 - Nat.modulo depth 2) depth) eqn:E; [|discriminate]. inversion H.
    destruct depth as [|d]; [discriminate|]. apply val_chain.
Qed.

(* ---------- _handle_offset ---------- *)
Theorem handle_offset_sound e i : eval_inst e (handle_offset i) = eval_inst e i.
Proof.
  destruct i as [out op args]. unfold handle_offset. cbn [i_op i_args i_out].
  destruct op; try reflexivity. destruct args as [|[v| |] [|[| |l] [|]]]; reflexivity.
Qed.
