(* C14A: the SCCP lattice is a meet-semilattice, `_meet` is sound for the concretisation, and the transfer function
   `_eval` is monotone and -- through C14/EvalSound.v (eval_arith = EVM word operation) -- computes exactly the value
   the instruction has at run time whenever it answers with a literal. *)
From Coq Require Import ZArith List Bool String Lia.
From Verif Require Import Base.Word256 Base.PyInt C14.GenEval C14.EvalSound C14A.Alg C14A.Sccp.
Import ListNotations.
Open Scope Z_scope.

Lemma lat_eqb_refl x : lat_eqb x x = true.
Proof. destruct x; cbn; auto using Z.eqb_refl, Nat.eqb_refl. Qed.
Lemma lat_eqb_eq x y : lat_eqb x y = true -> x = y.
Proof.
  destruct x, y; cbn; try discriminate; auto; intros H.
  - apply Z.eqb_eq in H. congruence.
  - apply Nat.eqb_eq in H. congruence.
Qed.
Lemma lat_eqb_sym x y : lat_eqb x y = lat_eqb y x.
Proof. destruct x, y; cbn; auto using Z.eqb_sym, Nat.eqb_sym. Qed.

Theorem meet_idem x : meet x x = x.
Proof. destruct x; cbn; rewrite ?Z.eqb_refl, ?Nat.eqb_refl; reflexivity. Qed.

Theorem meet_comm x y : meet x y = meet y x.
Proof.
  destruct x, y; cbn; try reflexivity.
  - rewrite (Z.eqb_sym v0 v). destruct (v =? v0) eqn:E; [apply Z.eqb_eq in E; subst|]; reflexivity.
  - rewrite (Nat.eqb_sym n0 n). destruct (Nat.eqb n n0) eqn:E; [apply Nat.eqb_eq in E; subst|]; reflexivity.
Qed.

Lemma meet_bottom_l x : meet LBottom x = LBottom. Proof. destruct x; reflexivity. Qed.
Lemma meet_bottom_r x : meet x LBottom = LBottom. Proof. destruct x; reflexivity. Qed.
Lemma meet_top_l x : meet LTop x = x. Proof. reflexivity. Qed.
Lemma meet_top_r x : meet x LTop = x. Proof. destruct x; reflexivity. Qed.

Lemma meet_cases x y : meet x y = x \/ meet x y = y \/ meet x y = LBottom.
Proof. destruct x, y; cbn; auto; destruct (_ : bool); auto. Qed.

Theorem meet_assoc x y z : meet x (meet y z) = meet (meet x y) z.
Proof.
  destruct x, y, z; cbn; try reflexivity;
    repeat match goal with
           | |- context [?a =? ?b] => destruct (Z.eqb_spec a b); subst; cbn
           | |- context [Nat.eqb ?a ?b] => destruct (Nat.eqb_spec a b); subst; cbn
           end; try reflexivity; try congruence.
Qed.

(* order facts *)
Theorem le_refl x : le x x. Proof. apply meet_idem. Qed.
Theorem le_antisym x y : le x y -> le y x -> x = y.
Proof. unfold le. intros H1 H2. rewrite <- H1. rewrite meet_comm. exact H2. Qed.
Theorem le_trans x y z : le x y -> le y z -> le x z.
Proof. unfold le. intros H1 H2. rewrite <- H1 at 2. rewrite <- H2 at 1. rewrite meet_assoc, H1. reflexivity. Qed.
Theorem meet_glb x y z : le z x -> le z y -> le z (meet x y).
Proof. unfold le. intros H1 H2. rewrite meet_assoc, H1, H2. reflexivity. Qed.
Theorem meet_le_l x y : le (meet x y) x.
Proof. unfold le. rewrite (meet_comm x y), <- meet_assoc, meet_idem. reflexivity. Qed.
Theorem meet_le_r x y : le (meet x y) y.
Proof. rewrite meet_comm. apply meet_le_l. Qed.
Theorem meet_monotone x x' y y' : le x x' -> le y y' -> le (meet x y) (meet x' y').
Proof.
  intros H1 H2. apply meet_glb.
  - eapply le_trans; [apply meet_le_l | exact H1].
  - eapply le_trans; [apply meet_le_r | exact H2].
Qed.
Theorem bottom_least x : le LBottom x. Proof. apply meet_bottom_l. Qed.
Theorem top_greatest x : le x LTop. Proof. apply meet_top_r. Qed.

(* concretisation: the set of run-time values a variable may have; TOP = no definition reached yet *)
Definition gamma (l : lat) (v : Z) : Prop :=
  match l with LTop => False | LConst c => v = wrap c | LLabel _ => True | LBottom => True end.
Theorem meet_sound x y v : gamma x v \/ gamma y v -> gamma (meet x y) v.
Proof.
  intros [H|H]; destruct x, y; cbn in *; try tauto;
    try (destruct (Z.eqb_spec v0 v1); subst; cbn; auto); try (destruct (Nat.eqb n n0); cbn; auto).
Qed.
Theorem gamma_monotone x y v : le x y -> gamma y v -> gamma x v.
Proof.
  unfold le. intros H G. rewrite <- H. apply meet_sound. right. exact G.
Qed.

(* ---------- the transfer function ---------- *)
Inductive pw_le : list lat -> list lat -> Prop :=
| pw_nil : pw_le [] []
| pw_cons x y l m : le x y -> pw_le l m -> pw_le (x :: l) (y :: m).

Lemma le_const_inv c y : le (LConst c) y -> y = LConst c \/ y = LTop.
Proof.
  unfold le. destruct y; cbn; auto; try discriminate.
  destruct (Z.eqb_spec c v); [subst; auto | discriminate].
Qed.
Lemma le_top_inv y : le LTop y -> y = LTop. Proof. unfold le. cbn. auto. Qed.
Lemma le_label_inv n y : le (LLabel n) y -> y = LLabel n \/ y = LTop.
Proof.
  unfold le. destruct y; cbn; auto; try discriminate.
  destruct (Nat.eqb_spec n n0); [subst; auto | discriminate].
Qed.

Lemma eval_scan_monotone l m : pw_le l m -> forall acc,
  match eval_scan l acc, eval_scan m acc with
  | inl a, inl b => le a b
  | inr u, inr w => u = w
  | inl a, inr _ => a = LBottom
  | inr _, inl b => b = LTop
  end.
Proof.
  induction 1 as [|x y l m Hxy Hlm IH]; intros acc; [reflexivity|].
  destruct x.
  - apply le_top_inv in Hxy. subst. cbn. apply le_refl.
  - destruct (le_const_inv _ _ Hxy) as [->| ->]; cbn.
    + apply IH.
    + destruct (eval_scan l (v :: acc)); [apply top_greatest | reflexivity].
  - destruct (le_label_inv _ _ Hxy) as [->| ->]; cbn; [apply le_refl | apply bottom_least].
  - cbn. destruct y; cbn.
    + apply bottom_least.
    + destruct (eval_scan m (v :: acc)); [apply bottom_least | reflexivity].
    + apply le_refl.
    + apply le_refl.
Qed.

(* lowering the operands' lattice values can only lower the result: the work-list iteration terminates
   at a fixed point below the first answer *)
Theorem sccp_eval_monotone f l m a b :
  pw_le l m -> sccp_eval f l = Some a -> sccp_eval f m = Some b -> le a b.
Proof.
  intros H Ha Hb. unfold sccp_eval in *. pose proof (eval_scan_monotone l m H []) as M.
  destruct (eval_scan l []) as [x|u], (eval_scan m []) as [y|w].
  - inversion Ha; inversion Hb; subst. exact M.
  - inversion Ha; subst. apply bottom_least.
  - inversion Hb; subst. apply top_greatest.
  - subst w. destruct (f u); [|discriminate]. inversion Ha; inversion Hb; subst. apply le_refl.
Qed.

(* eval_arith for an opcode name, as an option *)
Definition eval_arith (name : string) (vs : list Z) : option Z :=
  match ARITHMETIC_OPS name with
  | Some f => match f vs with Ok r => Some r | Err _ => None end
  | None => None
  end.

(* when _eval answers with a literal for a binary instruction, that literal is the value the instruction has at run
   time for every valuation compatible with the operands' lattice values *)
Theorem sccp_eval_binop_sound name w la lb r :
  binop_sound name w ->
  sccp_eval (eval_arith name) [lb; la] = Some (LConst r) ->
  (forall c, la = LConst c -> lit_ok c) -> (forall c, lb = LConst c -> lit_ok c) ->
  forall va vb, gamma la va -> gamma lb vb -> w va vb = r.
Proof.
  intros Hs He Ha Hb va vb Ga Gb. unfold sccp_eval in He.
  destruct lb as [|b| |]; cbn in He; try (inversion He; fail).
  destruct la as [|a| |]; cbn in He; try (inversion He; fail).
  cbn in Ga, Gb. subst va vb.
  destruct (Hs a b (Ha a eq_refl) (Hb b eq_refl)) as (f & Hf & Hr).
  unfold eval_arith in He. rewrite Hf, Hr in He. inversion He. reflexivity.
Qed.
Theorem sccp_eval_unop_sound name w la r :
  unop_sound name w ->
  sccp_eval (eval_arith name) [la] = Some (LConst r) ->
  (forall c, la = LConst c -> lit_ok c) ->
  forall va, gamma la va -> w va = r.
Proof.
  intros Hs He Ha va Ga. unfold sccp_eval in He.
  destruct la as [|a| |]; cbn in He; try (inversion He; fail).
  cbn in Ga. subst va.
  destruct (Hs a (Ha a eq_refl)) as (f & Hf & Hr).
  unfold eval_arith in He. rewrite Hf, Hr in He. inversion He. reflexivity.
Qed.
(* a BOTTOM or TOP answer claims nothing that could be wrong: gamma LBottom is everything, and TOP is only ever
   a provisional value *)
