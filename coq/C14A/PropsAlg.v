(* C14 (algebraic part): property theorems.  Proofs are in AlgSound.v / SccpSound.v. *)
From Coq Require Import ZArith List Bool String Lia.
From Verif Require Import Base.Word256 C14.GenEval C14.EvalSound
  C14A.Alg C14A.AlgLemmas C14A.AlgSound C14A.Sccp C14A.SccpSound.
Import ListNotations.
Open Scope Z_scope.

(* Every peephole rewrite of _rewrite_inst/_flip_inst preserves the output variable: for EVERY valuation of the
   variables in [0, 2^256) the new sequence (inserted instructions, then the rewritten one) gives the output the
   same value; or -- only when all users are truthy -- a value of the same truthiness; or -- only together with
   the matching edit of the single user -- exactly its negation. *)
Theorem C14A_alg_rewrite_sound : forall e f us i p v,
  env_ok e -> eval_inst e i = Some v -> producer_ok e i p ->
  let r := alg_rewrite f i us p in
  exists v', result_value e r = Some v' /\ rel us (r_after r) v v'.
Proof. exact alg_rewrite_sound. Qed.
Print Assumptions C14A_alg_rewrite_sound.

Theorem C14A_alg_rewrite_observations : forall e f us i p v,
  env_ok e -> eval_inst e i = Some v -> producer_ok e i p ->
  let r := alg_rewrite f i us p in
  exists v', result_value e r = Some v' /\
    match r_after r with
    | AKeep => forall u, In u us -> observe u v' = observe u v
    | AToAssign => v' = w_iszero v
    | AInsertIszero _ => nzb (w_iszero v') = nzb v
    end.
Proof. exact alg_rewrite_observations. Qed.
Print Assumptions C14A_alg_rewrite_observations.

Theorem C14A_flip_sound : forall e i, eval_inst e (flip_inst i) = eval_inst e i /\ eval_inst e (normalize i) = eval_inst e i.
Proof. intros; split; [apply flip_inst_eval | apply normalize_eval]. Qed.
Print Assumptions C14A_flip_sound.

Theorem C14A_chain_rewrite_sound : forall truthy depth k x,
  chain_rewrite truthy depth = Some k ->
  if truthy then nzb (iszero_n k x) = nzb (iszero_n depth x) else iszero_n k x = iszero_n depth x.
Proof. exact chain_rewrite_sound. Qed.
Print Assumptions C14A_chain_rewrite_sound.

Theorem C14A_handle_offset_sound : forall e i, eval_inst e (handle_offset i) = eval_inst e i.
Proof. exact handle_offset_sound. Qed.
Print Assumptions C14A_handle_offset_sound.

(* SCCP lattice *)
Theorem C14A_meet_semilattice :
  (forall x, meet x x = x) /\ (forall x y, meet x y = meet y x) /\ (forall x y z, meet x (meet y z) = meet (meet x y) z) /\
  (forall x, le LBottom x /\ le x LTop) /\
  (forall x x' y y', le x x' -> le y y' -> le (meet x y) (meet x' y')).
Proof.
  repeat split; auto using meet_idem, meet_comm, meet_assoc, bottom_least, top_greatest, meet_monotone.
Qed.
Print Assumptions C14A_meet_semilattice.

Theorem C14A_meet_sound : forall x y v, gamma x v \/ gamma y v -> gamma (meet x y) v.
Proof. exact meet_sound. Qed.
Print Assumptions C14A_meet_sound.

Theorem C14A_sccp_eval_monotone : forall f l m a b,
  pw_le l m -> sccp_eval f l = Some a -> sccp_eval f m = Some b -> le a b.
Proof. exact sccp_eval_monotone. Qed.
Print Assumptions C14A_sccp_eval_monotone.

Theorem C14A_sccp_eval_sound : forall name w la lb r,
  binop_sound name w ->
  sccp_eval (eval_arith name) [lb; la] = Some (LConst r) ->
  (forall c, la = LConst c -> lit_ok c) -> (forall c, lb = LConst c -> lit_ok c) ->
  forall va vb, gamma la va -> gamma lb vb -> w va vb = r.
Proof. exact sccp_eval_binop_sound. Qed.
Print Assumptions C14A_sccp_eval_sound.

(* non-vacuity: rules fire and the hypotheses are satisfiable *)
Example C14A_nonvacuous :
  let e : env := fun n => if Nat.eqb n 0 then 2 ^ 255 + 5 else 7 in
  env_ok e /\
  alg_rewrite 100 (mkI 10 Omod [Lit 8; Var 0]) [UOther] None = mkR [] (mkI 10 Oand [Var 0; Lit 7]) AKeep /\
  alg_rewrite 100 (mkI 10 Ogt [Lit 5; Var 0]) [UIszero 1 false] None = mkR [] (mkI 10 Ogt [Var 0; Lit 6]) AToAssign /\
  alg_rewrite 100 (mkI 10 Oslt [Lit (2 ^ 255 - 1); Var 0]) [UAssert] None =
    mkR [mkI 100 Oxor [Lit (2 ^ 255 - 1); Var 0]; mkI 101 Oiszero [Var 100]] (mkI 10 Oiszero [Var 101]) AKeep /\
  eval_inst e (mkI 10 Osdiv [Lit 1; Var 0]) = Some (2 ^ 255 + 5) /\
  meet (LConst 3) (LConst 4) = LBottom /\
  sccp_eval (eval_arith "sub") [LConst 7; LConst 3] = Some (LConst (2 ^ 256 - 4)).
Proof.
  cbv zeta. split.
  { intros n. unfold wd. destruct (Nat.eqb n 0); rewrite W_val; lia. }
  repeat split; vm_compute; reflexivity.
Qed.
