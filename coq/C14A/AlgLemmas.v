(* C14A: word-level facts behind the peephole rules (all operand values range over the whole of [0, 2^256)). *)
From Coq Require Import ZArith List Bool Lia.
From Verif Require Import Base.Word256 Base.WordLemmas.
Import ListNotations.
Open Scope Z_scope.
Ltac Zify.zify_post_hook ::= Z.to_euclidean_division_equations.

Definition wd (x : Z) : Prop := 0 <= x < W.

Lemma W_val : W = 115792089237316195423570985008687907853269984665640564039457584007913129639936.
Proof. reflexivity. Qed.
Lemma HALF_val : HALF = 57896044618658097711785492504343953926634992332820282019728792003956564819968.
Proof. reflexivity. Qed.
Lemma W_pow : W = 2 ^ 256. Proof. reflexivity. Qed.
Ltac wl := unfold wd, wrap, MAXU, MAXS, MINS in *; pose proof W_val; pose proof HALF_val; lia.

Lemma wrap_wd a : wd (wrap a). Proof. unfold wd, wrap. apply Z.mod_pos_bound. rewrite W_val. lia. Qed.
Lemma wrap_small a : wd a -> wrap a = a. Proof. intros. unfold wrap. apply Z.mod_small. exact H. Qed.
Lemma wrap_m1 : wrap (-1) = MAXU. Proof. reflexivity. Qed.
Lemma wrap_0 : wrap 0 = 0. Proof. reflexivity. Qed.
Lemma wrap_1 : wrap 1 = 1. Proof. reflexivity. Qed.
Lemma b2z_wd b : wd (b2z b). Proof. destruct b; cbn; wl. Qed.

(* shifts by zero *)
Lemma shl_0 x : wd x -> w_shl 0 x = x.
Proof. intros. unfold w_shl. cbn [Z.ltb Z.compare]. rewrite Z.pow_0_r, Z.mul_1_r. apply Z.mod_small. exact H. Qed.
Lemma shr_0 x : w_shr 0 x = x.
Proof. unfold w_shr. cbn [Z.ltb Z.compare]. rewrite Z.pow_0_r. apply Z.div_1_r. Qed.
Lemma sar_0 x : wd x -> w_sar 0 x = x.
Proof.
  intros. unfold w_sar, of_signed, to_signed. cbn [Z.ltb Z.compare]. rewrite Z.pow_0_r, Z.div_1_r.
  destruct (x <? HALF) eqn:E; [apply Z.mod_small; exact H|].
  apply Z.ltb_ge in E. wl.
Qed.

(* exp *)
Lemma exp_x_0 x : w_exp x 0 = 1. Proof. reflexivity. Qed.
Lemma exp_1_x x : wd x -> w_exp 1 x = 1.
Proof. intros. rewrite w_exp_eq by wl. unfold w_exp_spec. rewrite Z.pow_1_l by wl. reflexivity. Qed.
Lemma exp_0_x x : wd x -> w_exp 0 x = w_iszero x.
Proof.
  intros. rewrite w_exp_eq by wl. unfold w_exp_spec, w_iszero. destruct (x =? 0) eqn:E.
  - apply Z.eqb_eq in E. subst. reflexivity.
  - apply Z.eqb_neq in E. rewrite Z.pow_0_l by wl. reflexivity.
Qed.
Lemma exp_x_1 x : wd x -> w_exp x 1 = x.
Proof. intros. rewrite w_exp_eq by lia. unfold w_exp_spec. rewrite Z.pow_1_r. apply Z.mod_small. exact H. Qed.

(* additive *)
Lemma sub_self x : w_sub x x = 0. Proof. unfold w_sub. rewrite Z.sub_diag. reflexivity. Qed.
Lemma xor_self x : w_xor x x = 0. Proof. apply Z.lxor_nilpotent. Qed.
Lemma add_0 x : wd x -> w_add x 0 = x. Proof. intros. unfold w_add. rewrite Z.add_0_r. apply Z.mod_small. exact H. Qed.
Lemma sub_0 x : wd x -> w_sub x 0 = x. Proof. intros. unfold w_sub. rewrite Z.sub_0_r. apply Z.mod_small. exact H. Qed.
Lemma xor_0 x : w_xor x 0 = x. Proof. apply Z.lxor_0_r. Qed.
Lemma sub_m1 x : wd x -> w_sub MAXU x = w_not x.
Proof. intros. unfold w_sub, w_not. apply Z.mod_small. wl. Qed.

Lemma word_bits x n : wd x -> Z.testbit x n = (n <? 256) && Z.testbit x n.
Proof.
  intros H. rewrite <- (Z.testbit_mod_pow2 x 256 n) by lia. rewrite <- W_pow.
  rewrite Z.mod_small by exact H. reflexivity.
Qed.
Lemma MAXU_ones : MAXU = Z.ones 256. Proof. reflexivity. Qed.
Lemma xor_m1 x : wd x -> w_xor x MAXU = w_not x.
Proof.
  intros H. unfold w_xor, w_not. rewrite MAXU_ones at 1.
  assert (L: Z.land x (Z.lxor x (Z.ones 256)) = 0).
  { apply Z.bits_inj'. intros n Hn. rewrite Z.land_spec, Z.lxor_spec, Z.bits_0.
    rewrite (word_bits x n H), Z.testbit_ones_nonneg by lia.
    destruct (Z.testbit x n), (n <? 256); reflexivity. }
  apply Z.add_nocarry_lxor in L.
  assert (X: Z.lxor x (Z.lxor x (Z.ones 256)) = Z.ones 256).
  { apply Z.bits_inj'. intros n Hn. rewrite !Z.lxor_spec.
    destruct (Z.testbit x n), (Z.testbit (Z.ones 256) n); reflexivity. }
  rewrite X in L. rewrite <- MAXU_ones in L at 2. lia.
Qed.

(* and / or *)
Lemma and_m1 x : wd x -> w_and x MAXU = x.
Proof. intros. unfold w_and. rewrite MAXU_ones, Z.land_ones by lia. rewrite <- W_pow. apply Z.mod_small. exact H. Qed.
Lemma and_0_r x : w_and x 0 = 0. Proof. apply Z.land_0_r. Qed.
Lemma and_0_l x : w_and 0 x = 0. Proof. apply Z.land_0_l. Qed.
Lemma or_m1_r x : wd x -> w_or x MAXU = MAXU.
Proof.
  intros H. unfold w_or. rewrite MAXU_ones. apply Z.bits_inj'. intros n Hn. rewrite Z.lor_spec.
  rewrite (word_bits x n H), Z.testbit_ones_nonneg by lia. destruct (n <? 256), (Z.testbit x n); reflexivity.
Qed.
Lemma or_m1_l x : wd x -> w_or MAXU x = MAXU.
Proof. intros. unfold w_or. rewrite Z.lor_comm. apply or_m1_r. exact H. Qed.
Lemma or_0 x : w_or x 0 = x. Proof. apply Z.lor_0_r. Qed.
Lemma or_nonzero x c : c <> 0 -> w_or x c <> 0.
Proof. intros H E. apply Z.lor_eq_0_iff in E. tauto. Qed.

(* multiplicative *)
Lemma mul_0_r x : w_mul x 0 = 0. Proof. unfold w_mul. rewrite Z.mul_0_r. reflexivity. Qed.
Lemma mul_0_l x : w_mul 0 x = 0. Proof. reflexivity. Qed.
Lemma div_0_r x : w_div x 0 = 0. Proof. reflexivity. Qed.
Lemma div_0_l x : w_div 0 x = 0. Proof. unfold w_div. destruct (x =? 0); reflexivity. Qed.
Lemma mod_0_r x : w_mod x 0 = 0. Proof. reflexivity. Qed.
Lemma mod_0_l x : w_mod 0 x = 0. Proof. unfold w_mod. destruct (x =? 0) eqn:E; [reflexivity|]. apply Z.eqb_neq in E. apply Z.mod_0_l. exact E. Qed.
Lemma ts_0 : to_signed 0 = 0. Proof. reflexivity. Qed.
Lemma ts_1 : to_signed 1 = 1. Proof. reflexivity. Qed.
Lemma sdiv_0_r x : w_sdiv x 0 = 0. Proof. reflexivity. Qed.
Lemma sdiv_0_l x : w_sdiv 0 x = 0.
Proof. unfold w_sdiv. destruct (x =? 0); [reflexivity|]. rewrite ts_0. reflexivity. Qed.
Lemma smod_0_r x : w_smod x 0 = 0. Proof. reflexivity. Qed.
Lemma smod_0_l x : w_smod 0 x = 0.
Proof. unfold w_smod. destruct (x =? 0); [reflexivity|]. rewrite ts_0. reflexivity. Qed.
Lemma mod_1 x : w_mod x 1 = 0. Proof. unfold w_mod. cbn [Z.eqb]. apply Z.mod_1_r. Qed.
Lemma smod_1 x : w_smod x 1 = 0.
Proof. unfold w_smod. cbn [Z.eqb]. rewrite ts_1, Z.rem_1_r. reflexivity. Qed.
Lemma mul_1 x : wd x -> w_mul x 1 = x. Proof. intros. unfold w_mul. rewrite Z.mul_1_r. apply Z.mod_small. exact H. Qed.
Lemma div_1 x : w_div x 1 = x. Proof. unfold w_div. cbn [Z.eqb]. apply Z.div_1_r. Qed.
Lemma of_to_signed x : wd x -> of_signed (to_signed x) = x.
Proof. intros. unfold of_signed, to_signed. destruct (x <? HALF); wl. Qed.
Lemma sdiv_1 x : wd x -> w_sdiv x 1 = x.
Proof. intros. unfold w_sdiv. cbn [Z.eqb]. rewrite ts_1, Z.quot_1_r. apply of_to_signed. exact H. Qed.

(* powers of two: n != 0 and n & (n-1) == 0 *)
Lemma pow2_char n : n <> 0 -> Z.land n (n - 1) = 0 -> 0 < n /\ n = 2 ^ Z.log2 n.
Proof.
  intros Hn Hl.
  assert (Hpos : 0 < n).
  { destruct (Z_lt_dec 0 n); [assumption|]. exfalso.
    assert (Hneg : Z.land n (n - 1) < 0) by (apply Z.land_neg; lia). lia. }
  split; [assumption|].
  pose proof (Z.log2_spec n Hpos) as [Hlo Hhi]. set (k := Z.log2 n) in *.
  assert (Hk : 0 <= k) by apply Z.log2_nonneg.
  destruct (Z.eq_dec n (2 ^ k)); [assumption|]. exfalso.
  assert (Hb1 : Z.testbit n k = true) by (apply Z.bit_log2; assumption).
  assert (Hl2 : Z.log2 (n - 1) = k).
  { apply Z.log2_unique; [assumption|]. rewrite Z.pow_succ_r in Hhi by assumption. rewrite Z.pow_succ_r by assumption. lia. }
  assert (Hb2 : Z.testbit (n - 1) k = true) by (rewrite <- Hl2; apply Z.bit_log2; lia).
  assert (Hb : Z.testbit (Z.land n (n - 1)) k = true) by (rewrite Z.land_spec, Hb1, Hb2; reflexivity).
  rewrite Hl, Z.bits_0 in Hb. discriminate.
Qed.

Lemma pow2_word n : n <> 0 -> Z.land n (n - 1) = 0 -> wrap n <> 0 ->
  let k := Z.log2 n in 0 <= k < 256 /\ n = 2 ^ k /\ wrap n = 2 ^ k /\ wrap k = k /\ wrap (n - 1) = 2 ^ k - 1.
Proof.
  intros Hn Hl Hw k. destruct (pow2_char n Hn Hl) as [Hpos Hp]. fold k in Hp.
  assert (Hk : 0 <= k) by apply Z.log2_nonneg.
  assert (Hk2 : k < 256).
  { destruct (Z_lt_dec k 256); [assumption|]. exfalso. apply Hw. unfold wrap. rewrite Hp, W_pow.
    replace k with ((k - 256) + 256) by lia. rewrite Z.pow_add_r by lia. apply Z.mod_mul. lia. }
  assert (Hlt : 2 ^ k < W) by (rewrite W_pow; apply Z.pow_lt_mono_r; lia).
  assert (H0 : 0 < 2 ^ k) by (apply Z.pow_pos_nonneg; lia).
  repeat split; try assumption; try lia.
  - unfold wrap. rewrite Hp at 1. apply Z.mod_small. lia.
  - unfold wrap. apply Z.mod_small. wl.
  - unfold wrap. rewrite Hp at 1. apply Z.mod_small. lia.
Qed.

Lemma mod_pow2 x k : 0 <= k < 256 -> w_and x (2 ^ k - 1) = w_mod x (2 ^ k).
Proof.
  intros Hk. unfold w_and, w_mod. assert (2 ^ k =? 0 = false) by (apply Z.eqb_neq; apply Z.pow_nonzero; lia).
  rewrite H. replace (2 ^ k - 1) with (Z.ones k) by (rewrite Z.ones_equiv; lia). apply Z.land_ones. lia.
Qed.
Lemma div_pow2 x k : 0 <= k < 256 -> w_shr k x = w_div x (2 ^ k).
Proof.
  intros Hk. unfold w_shr, w_div. assert (2 ^ k =? 0 = false) by (apply Z.eqb_neq; apply Z.pow_nonzero; lia).
  rewrite H. assert (k <? 256 = true) by (apply Z.ltb_lt; lia). rewrite H0. reflexivity.
Qed.
Lemma mul_pow2 x k : 0 <= k < 256 -> w_shl k x = w_mul x (2 ^ k).
Proof. intros Hk. unfold w_shl, w_mul. assert (k <? 256 = true) by (apply Z.ltb_lt; lia). rewrite H. reflexivity. Qed.

(* eq *)
Lemma eq_self x : w_eq x x = 1. Proof. unfold w_eq. rewrite Z.eqb_refl. reflexivity. Qed.
Lemma eq_0 x : w_eq x 0 = w_iszero x. Proof. reflexivity. Qed.
Lemma eq_m1 x : wd x -> w_eq x MAXU = w_iszero (w_not x).
Proof.
  intros. unfold w_eq, w_iszero, w_not. destruct (x =? MAXU) eqn:E.
  - apply Z.eqb_eq in E. subst. rewrite Z.sub_diag. reflexivity.
  - apply Z.eqb_neq in E. assert (MAXU - x =? 0 = false) by (apply Z.eqb_neq; lia). rewrite H0. reflexivity.
Qed.
Lemma eq_xor x y : w_eq x y = w_iszero (w_xor x y).
Proof.
  unfold w_eq, w_iszero, w_xor. destruct (x =? y) eqn:E.
  - apply Z.eqb_eq in E. subst. rewrite Z.lxor_nilpotent. reflexivity.
  - apply Z.eqb_neq in E. assert (Z.lxor x y =? 0 = false) by (apply Z.eqb_neq; rewrite Z.lxor_eq_0_iff; assumption).
    rewrite H. reflexivity.
Qed.
Lemma xor_comm x y : w_xor x y = w_xor y x. Proof. apply Z.lxor_comm. Qed.
Lemma xor_wd x y : wd x -> wd y -> wd (w_xor x y).
Proof.
  intros Hx Hy. unfold w_xor, wd. split; [apply Z.lxor_nonneg; unfold wd in *; lia|].
  destruct (Z.eq_dec (Z.lxor x y) 0) as [->|N]; [wl|].
  rewrite W_pow. apply Z.log2_lt_pow2; [pose proof (Z.lxor_nonneg x y); unfold wd in *; lia|].
  destruct (Z_lt_dec (Z.log2 (Z.lxor x y)) 256); [assumption|exfalso].
  assert (P : 0 < Z.lxor x y) by (pose proof (Z.lxor_nonneg x y); unfold wd in *; lia).
  pose proof (Z.bit_log2 _ P) as B. rewrite Z.lxor_spec in B.
  rewrite (word_bits x _ Hx), (word_bits y _ Hy) in B.
  assert (Z.log2 (Z.lxor x y) <? 256 = false) by (apply Z.ltb_ge; lia). rewrite H in B. discriminate.
Qed.

(* iszero chains *)
Lemma iszero_b x : w_iszero x = 0 \/ w_iszero x = 1. Proof. unfold w_iszero. destruct (x =? 0); auto. Qed.
Lemma iszero3 x : w_iszero (w_iszero (w_iszero x)) = w_iszero x.
Proof. unfold w_iszero. destruct (x =? 0); reflexivity. Qed.
Definition nzb (x : Z) : bool := negb (x =? 0).
Lemma nz_iszero2 x : nzb (w_iszero (w_iszero x)) = nzb x.
Proof. unfold nzb, w_iszero. destruct (x =? 0); reflexivity. Qed.

(* commutativity used by flip *)
Lemma add_comm x y : w_add x y = w_add y x. Proof. unfold w_add. rewrite Z.add_comm. reflexivity. Qed.
Lemma mul_comm x y : w_mul x y = w_mul y x. Proof. unfold w_mul. rewrite Z.mul_comm. reflexivity. Qed.
Lemma or_comm x y : w_or x y = w_or y x. Proof. apply Z.lor_comm. Qed.
Lemma and_comm x y : w_and x y = w_and y x. Proof. apply Z.land_comm. Qed.
Lemma eq_comm x y : w_eq x y = w_eq y x. Proof. unfold w_eq. rewrite Z.eqb_sym. reflexivity. Qed.
Lemma gt_lt x y : w_gt x y = w_lt y x. Proof. unfold w_gt, w_lt. rewrite Z.gtb_ltb. reflexivity. Qed.
Lemma sgt_slt x y : w_sgt x y = w_slt y x. Proof. unfold w_sgt, w_slt. rewrite Z.gtb_ltb. reflexivity. Qed.

(* ---------- comparators against boundary constants ---------- *)
Ltac cmp :=
  unfold w_gt, w_lt, w_sgt, w_slt, w_iszero, w_eq, w_not, b2z, to_signed, wd, wrap, MAXU, MAXS, MINS in *;
  pose proof W_val; pose proof HALF_val;
  repeat match goal with
         | |- context [?a <? ?b] => destruct (Z.ltb_spec a b)
         | |- context [?a >? ?b] => rewrite (Z.gtb_ltb a b)
         | |- context [?a =? ?b] => destruct (Z.eqb_spec a b)
         | H : context [?a <? ?b] |- _ => destruct (Z.ltb_spec a b)
         | H : context [?a =? ?b] |- _ => destruct (Z.eqb_spec a b)
         end; cbn [negb]; try lia.

Lemma c_MAXU : wrap (2 ^ 256 - 1) = MAXU. Proof. reflexivity. Qed.
Lemma c_MAXS : wrap (2 ^ 255 - 1) = MAXS. Proof. reflexivity. Qed.
Lemma c_MINS : wrap (- 2 ^ 255) = HALF. Proof. reflexivity. Qed.
Lemma c_MAXU1 : wrap (2 ^ 256 - 1 - 1) = MAXU - 1. Proof. reflexivity. Qed.
Lemma c_MAXS1 : wrap (2 ^ 255 - 1 - 1) = MAXS - 1. Proof. reflexivity. Qed.
Lemma c_MINS1 : wrap (- 2 ^ 255 + 1) = HALF + 1. Proof. reflexivity. Qed.

(* never *)
Lemma gt_never x : wd x -> w_gt x MAXU = 0. Proof. intros; cmp. Qed.
Lemma lt_never x : wd x -> w_lt x 0 = 0. Proof. intros; cmp. Qed.
Lemma sgt_never x : wd x -> w_sgt x MAXS = 0. Proof. intros; cmp. Qed.
Lemma slt_never x : wd x -> w_slt x HALF = 0. Proof. intros; cmp. Qed.
(* almost never *)
Lemma gt_almost_never x : wd x -> w_gt x (MAXU - 1) = w_iszero (w_not x). Proof. intros; cmp. Qed.
Lemma lt_almost_never x : wd x -> w_lt x 1 = w_iszero x. Proof. intros; cmp. Qed.
Lemma sgt_almost_never x : wd x -> w_sgt x (MAXS - 1) = w_eq MAXS x. Proof. intros; cmp. Qed.
Lemma slt_almost_never x : wd x -> w_slt x (HALF + 1) = w_eq HALF x. Proof. intros; cmp. Qed.
(* almost always *)
Lemma gt_almost_always x : wd x -> w_gt x 0 = w_iszero (w_iszero x). Proof. intros; cmp. Qed.
Lemma lt_almost_always x : wd x -> w_lt x MAXU = w_iszero (w_iszero (w_not x)). Proof. intros; cmp. Qed.
Lemma ne_xor x c : w_iszero (w_iszero (w_xor x c)) = b2z (negb (x =? c)).
Proof.
  unfold w_iszero, w_xor. destruct (x =? c) eqn:E.
  - apply Z.eqb_eq in E. subst. rewrite Z.lxor_nilpotent. reflexivity.
  - apply Z.eqb_neq in E. assert (Z.lxor x c =? 0 = false) by (apply Z.eqb_neq; rewrite Z.lxor_eq_0_iff; assumption).
    rewrite H. reflexivity.
Qed.
Lemma sgt_almost_always x : wd x -> w_sgt x HALF = w_iszero (w_iszero (w_xor x HALF)).
Proof. intros. rewrite ne_xor. cmp. Qed.
Lemma slt_almost_always x : wd x -> w_slt x MAXS = w_iszero (w_iszero (w_xor x MAXS)).
Proof. intros. rewrite ne_xor. cmp. Qed.
(* flipping a strict comparison into the negated one with the bound moved by one *)
Lemma flip_gt x c : wd x -> wd c -> c <> MAXU -> w_lt x (wrap (c + 1)) = w_iszero (w_gt x c).
Proof. intros. assert (wrap (c + 1) = c + 1) by (apply wrap_small; wl). rewrite H2. cmp. Qed.
Lemma flip_lt x c : wd x -> wd c -> c <> 0 -> w_gt x (wrap (c - 1)) = w_iszero (w_lt x c).
Proof. intros. assert (wrap (c - 1) = c - 1) by (apply wrap_small; wl). rewrite H2. cmp. Qed.
Lemma ts_wrap_signed s : MINS <= s <= MAXS -> to_signed (wrap s) = s.
Proof. intros. unfold to_signed, wrap. pose proof W_val. pose proof HALF_val. unfold MINS, MAXS in *.
  destruct (Z.ltb_spec (s mod W) HALF); lia. Qed.
Lemma ts_range x : wd x -> MINS <= to_signed x <= MAXS.
Proof. intros. unfold to_signed. cmp. Qed.
Lemma flip_sgt x c : wd x -> wd c -> c <> MAXS -> w_slt x (wrap (to_signed c + 1)) = w_iszero (w_sgt x c).
Proof.
  intros. unfold w_slt, w_sgt. pose proof (ts_range c H0).
  assert (to_signed c <> MAXS) by (unfold to_signed in *; cmp).
  rewrite ts_wrap_signed by wl. rewrite Z.gtb_ltb. unfold w_iszero, b2z.
  destruct (Z.ltb_spec (to_signed x) (to_signed c + 1)), (Z.ltb_spec (to_signed c) (to_signed x)); try reflexivity; lia.
Qed.
Lemma flip_slt x c : wd x -> wd c -> c <> HALF -> w_sgt x (wrap (to_signed c - 1)) = w_iszero (w_slt x c).
Proof.
  intros. unfold w_slt, w_sgt. pose proof (ts_range c H0).
  assert (to_signed c <> MINS) by (unfold to_signed in *; cmp).
  rewrite ts_wrap_signed by wl. rewrite Z.gtb_ltb. unfold w_iszero, b2z.
  destruct (Z.ltb_spec (to_signed c - 1) (to_signed x)), (Z.ltb_spec (to_signed x) (to_signed c)); try reflexivity; lia.
Qed.
Lemma cmp_self_gt x : w_gt x x = 0. Proof. unfold w_gt. rewrite Z.gtb_ltb, Z.ltb_irrefl. reflexivity. Qed.
Lemma cmp_self_lt x : w_lt x x = 0. Proof. unfold w_lt. rewrite Z.ltb_irrefl. reflexivity. Qed.
Lemma cmp_self_sgt x : w_sgt x x = 0. Proof. unfold w_sgt. rewrite Z.gtb_ltb, Z.ltb_irrefl. reflexivity. Qed.
Lemma cmp_self_slt x : w_slt x x = 0. Proof. unfold w_slt. rewrite Z.ltb_irrefl. reflexivity. Qed.

(* signextend with a byte count >= 31 *)
Lemma signextend_big n x : 31 <= n -> w_signextend n x = x.
Proof. intros. unfold w_signextend. assert (n <? 31 = false) by (apply Z.ltb_ge; lia). rewrite H0. reflexivity. Qed.

(* signextend n (signextend m x) = signextend m x for m <= n *)
Lemma signextend_idem m n y : 0 <= m -> m <= n -> wd y ->
  w_signextend n (w_signextend m y) = w_signextend m y.
Proof.
  intros Hm Hmn Hy. unfold w_signextend at 1.
  destruct (n <? 31) eqn:En; [|reflexivity]. apply Z.ltb_lt in En.
  assert (Em : m <? 31 = true) by (apply Z.ltb_lt; lia).
  unfold w_signextend. rewrite Em. cbv zeta.
  set (bm := 8 * (m + 1)). set (bn := 8 * (n + 1)).
  assert (Hb : 8 <= bm <= bn /\ bn <= 248) by (unfold bm, bn; lia).
  set (A := 2 ^ bm). set (B := 2 ^ bn).
  assert (HA : A = 2 * 2 ^ (bm - 1)) by (unfold A; replace bm with (Z.succ (bm - 1)) at 1 by lia; apply Z.pow_succ_r; lia).
  assert (HB : B = 2 * 2 ^ (bn - 1)) by (unfold B; replace bn with (Z.succ (bn - 1)) at 1 by lia; apply Z.pow_succ_r; lia).
  assert (HAB : B = A * 2 ^ (bn - bm)) by (unfold A, B; rewrite <- Z.pow_add_r by lia; f_equal; lia).
  assert (HW : W = B * 2 ^ (256 - bn)) by (unfold B; rewrite W_pow, <- Z.pow_add_r by lia; f_equal; lia).
  assert (P1 : 0 < 2 ^ (bm - 1)) by (apply Z.pow_pos_nonneg; lia).
  assert (P2 : 0 < 2 ^ (bn - bm)) by (apply Z.pow_pos_nonneg; lia).
  assert (P3 : 0 < 2 ^ (256 - bn)) by (apply Z.pow_pos_nonneg; lia).
  assert (P4 : 2 ^ (bm - 1) <= 2 ^ (bn - 1)) by (apply Z.pow_le_mono_r; lia).
  assert (HAleB : A <= B) by (unfold A, B; apply Z.pow_le_mono_r; lia).
  assert (PA : 0 < A) by (unfold A; apply Z.pow_pos_nonneg; lia).
  set (low := y mod A). assert (Hlow : 0 <= low < A) by (apply Z.mod_pos_bound; lia).
  set (K := 2 ^ (256 - bn)) in *. set (J := 2 ^ (bn - bm)) in *.
  set (hm := 2 ^ (bm - 1)) in *. set (hn := 2 ^ (bn - 1)) in *.
  destruct (low <? hm) eqn:El.
  - apply Z.ltb_lt in El. assert (low mod B = low) by (apply Z.mod_small; lia). rewrite H.
    assert (low <? hn = true) by (apply Z.ltb_lt; lia). rewrite H0. reflexivity.
  - apply Z.ltb_ge in El.
    assert (Hs : (low + (W - A)) mod B = low - A + B).
    { replace (low + (W - A)) with ((low - A + B) + (K - 1) * B) by (rewrite HW; ring).
      rewrite Z.mod_add by lia. apply Z.mod_small. lia. }
    rewrite Hs. assert (low - A + B <? hn = false) by (apply Z.ltb_ge; lia). rewrite H. lia.
Qed.
