(* soundness of the returndata-flow analysis of RdsFlow.v *)
From Coq Require Import ZArith List Bool Lia.
From Verif Require Import C02.RdsFlow.
Import ListNotations.
Open Scope Z_scope.

Definition sim (d : bool) (s1 s2 : st) : Prop :=
  orc s1 = orc s2 /\ tr s1 = tr s2 /\ (d = false -> buf s1 = buf s2).

Lemma sim_weaken : forall d d' s1 s2, (d' = false -> d = false) -> sim d s1 s2 -> sim d' s1 s2.
Proof. intros d d' s1 s2 H (A & B & C). repeat split; auto. Qed.

Lemma iter_sim : forall (f g : st -> st) j,
  (forall s1 s2, sim j s1 s2 -> sim j (f s1) (g s2)) ->
  forall n s1 s2, sim j s1 s2 -> sim j (iter n f s1) (iter n g s2).
Proof. intros f g j H n. induction n; intros s1 s2 Hs; cbn; auto. Qed.

Lemma chk_sound : forall k d d', chk k d = Some d' ->
  forall s1 s2, sim d s1 s2 -> sim d' (run true k s1) (run false k s2).
Proof.
  induction k; intros d d' Hc s1 s2 Hs; cbn [chk] in Hc; cbn [run].
  - inversion Hc; subst; exact Hs.
  - destruct d; [discriminate|]. inversion Hc; subst. destruct Hs as (A & B & C).
    specialize (C eq_refl). unfold sim; cbn. rewrite A, B, C. auto.
  - inversion Hc; subst. destruct Hs as (A & B & C). unfold sim; cbn. rewrite A, B.
    repeat split; auto. discriminate.
  - inversion Hc; subst. destruct Hs as (A & B & C). unfold sim; cbn. rewrite A, B. auto.
  - destruct (chk k1 d) as [y|] eqn:E1; [|discriminate].
    eapply IHk2; eauto.
  - destruct (chk k1 d) as [y|] eqn:E1; [|discriminate].
    destruct (chk k2 y) as [p|] eqn:E2; [|discriminate].
    destruct (chk k3 y) as [q|] eqn:E3; [|discriminate].
    inversion Hc; subst.
    pose proof (IHk1 _ _ E1 _ _ Hs) as (A & B & C).
    cbv zeta. rewrite A.
    assert (Hs2 : sim y (mkSt (buf (run true k1 s1)) (snd (pop (orc (run false k1 s2)))) (tr (run true k1 s1)))
                        (mkSt (buf (run false k1 s2)) (snd (pop (orc (run false k1 s2)))) (tr (run false k1 s2)))).
    { unfold sim; cbn. auto. }
    destruct (fst (pop (orc (run false k1 s2))) =? 0).
    + eapply sim_weaken; [|eapply IHk3; eauto]. intros H. apply orb_false_iff in H. tauto.
    + eapply sim_weaken; [|eapply IHk2; eauto]. intros H. apply orb_false_iff in H. tauto.
  - destruct (chk k d) as [y|] eqn:E1; [|discriminate].
    destruct (chk k (d || y)) as [z|] eqn:E2; [|discriminate].
    inversion Hc; subst.
    destruct Hs as (A & B & C). rewrite A.
    apply iter_sim.
    + intros t1 t2 Ht. eapply sim_weaken; [|eapply IHk; eauto].
      intros H. rewrite H in E2. apply orb_false_iff in H. destruct H; subst. cbn in E2.
      rewrite E1 in E2. inversion E2; subst. reflexivity.
    + unfold sim; cbn. repeat split; auto. intros H. apply orb_false_iff in H. tauto.
Qed.

Lemma safe_target_independent : forall k, safe k = true -> target_independent k.
Proof.
  intros k H b o. unfold safe in H. destruct (chk k false) as [d'|] eqn:E; [|discriminate].
  unfold observed.
  assert (S0 : sim false (mkSt b o []) (mkSt b o [])) by (unfold sim; auto).
  pose proof (chk_sound _ _ _ E _ _ S0) as (_ & T & _). exact T.
Qed.

Lemma all_safe_target_independent : forall (A : Type) (l : list (A * sk)),
  forallb (fun p => safe (snd p)) l = true -> forall n k, In (n, k) l -> target_independent k.
Proof.
  intros A l H n k Hin. rewrite forallb_forall in H. specialize (H _ Hin). cbn in H.
  apply safe_target_independent; exact H.
Qed.

(* the decoder that recomputes its bound after a copy is NOT target independent: witness *)
Lemma unpack_inlined_differs : observed true unpack_inlined 0 [320; 96; 96] <> observed false unpack_inlined 0 [320; 96; 96].
Proof. vm_compute. discriminate. Qed.
