(* C02: what foreign code can do to the state of the contract that handed control to it.

   A hand-over instruction (CALL, DELEGATECALL, STATICCALL, CREATE, CREATE2) runs code the compiler does not see.  That
   code can RE-ENTER the contract: through CALL/DELEGATECALL and -- because a constructor is ordinary code running with
   the creator as msg.sender -- through CREATE/CREATE2 it can run any external function of the creator, i.e. write its
   storage, transient storage, move its balance, deploy code, emit logs, and replace the returndata buffer; under STATICCALL it
   can still READ all of it.  `may_write` / `may_read` are that footprint (the specification of this file; the same rows
   C14/Venom.v gives the core instructions).  The state is abstracted to one cell per effect kind, the foreign code to an
   arbitrary function `adv` of the cells it may read: enough to state when an effects table licenses the two rewrites the
   Venom passes perform across a hand-over (reuse of a value loaded before it; removal of a store that is overwritten
   after it). *)
From Coq Require Import List Bool ZArith.
Import ListNotations.
Open Scope Z_scope.

Inductive eff := STORAGE | TRANSIENT | MEMORY | IMMUTABLES | RETURNDATA | LOG | BALANCE | EXTCODE | FMP.
Inductive hop := H_call | H_delegatecall | H_staticcall | H_create | H_create2.

Definition eff_eqb (a b : eff) : bool :=
  match a, b with
  | STORAGE, STORAGE | TRANSIENT, TRANSIENT | MEMORY, MEMORY | IMMUTABLES, IMMUTABLES | RETURNDATA, RETURNDATA
  | LOG, LOG | BALANCE, BALANCE | EXTCODE, EXTCODE | FMP, FMP => true
  | _, _ => false
  end.

Definition all_effs : list eff := [STORAGE; TRANSIENT; MEMORY; IMMUTABLES; RETURNDATA; LOG; BALANCE; EXTCODE; FMP].
Definition all_hops : list hop := [H_call; H_delegatecall; H_staticcall; H_create; H_create2].

Fixpoint mem (e : eff) (l : list eff) : bool :=
  match l with [] => false | x :: r => eff_eqb e x || mem e r end.

(* the footprint of re-entrant foreign code on the caller *)
Definition may_write (h : hop) : list eff :=
  match h with
  | H_call | H_delegatecall => [STORAGE; TRANSIENT; MEMORY; RETURNDATA; LOG; BALANCE; EXTCODE]   (* MEMORY: the output buffer *)
  | H_staticcall => [MEMORY; RETURNDATA]
  | H_create | H_create2 => [STORAGE; TRANSIENT; RETURNDATA; LOG; BALANCE; EXTCODE]
  end.

Definition may_read (h : hop) : list eff :=
  match h with
  | H_call | H_delegatecall | H_staticcall => [STORAGE; TRANSIENT; MEMORY; BALANCE; EXTCODE]     (* MEMORY: the argument buffer *)
  | H_create | H_create2 => [STORAGE; TRANSIENT; MEMORY; BALANCE; EXTCODE]                       (* MEMORY: the init code *)
  end.

Definition st := eff -> Z.
Definition upd (s : st) (e : eff) (v : Z) : st := fun x => if eff_eqb x e then v else s x.
Definition view (h : hop) (s : st) : st := fun e => if mem e (may_read h) then s e else 0.
(* the hand-over: foreign code `adv` sees what it may read and rewrites what it may write *)
Definition exec (h : hop) (adv : st -> st) (s : st) : st :=
  fun e => if mem e (may_write h) then adv (view h s) e else s e.

Definition table := hop -> list eff.
Definition covers_w (W : table) : Prop := forall h e, mem e (may_write h) = true -> mem e (W h) = true.
Definition covers_r (R : table) : Prop := forall h e, mem e (may_read h) = true -> mem e (R h) = true.
Definition coversb (may T : table) : bool :=
  forallb (fun h => forallb (fun e => implb (mem e (may h)) (mem e (T h))) all_effs) all_hops.

(* the two rewrites, as a table licenses them *)
(* load forwarding / CSE: a value of cell e obtained before the hand-over is reused after it when e is not in W h *)
Definition forward_ok (W : table) : Prop :=
  forall h e adv s, mem e (W h) = false -> exec h adv s e = s e.
(* dead-store elimination: a store to cell e before the hand-over is dropped when e is not in R h (and e is overwritten
   later): nothing else may depend on the stored value *)
Definition dead_store_ok (R : table) : Prop :=
  forall h e adv s v e', mem e (R h) = false -> eff_eqb e' e = false -> exec h adv (upd s e v) e' = exec h adv s e'.

(* the table of a code generator that believes init code cannot touch the creator's storage / transient storage *)
Definition tightened (W : table) : table :=
  fun h => match h with
           | H_create | H_create2 => filter (fun e => negb (eff_eqb e STORAGE || eff_eqb e TRANSIENT)) (W h)
           | _ => W h
           end.
(* a constructor that calls back `poke`: adds 1 to the creator's storage cell *)
Definition poke_ctor : st -> st := fun s e => if eff_eqb e STORAGE then s STORAGE + 1 else s e.
