(* C02: no combination of --disable-* flags (other than disable_simplify_cfg) at any optimisation level makes the
   Venom pipeline builder fail its own ordering validation; disable_simplify_cfg always does (refuted case).
   Depends on GenPassOrder.v, regenerated from /repo on every run. *)
From Coq Require Import List Bool String.
From Verif Require Import C02.PassOrder C02.PassOrderProofs C02.GenPassOrder.
Import ListNotations.
Open Scope string_scope.

Lemma all_levels_ok :
  forallb (fun lp => level_ok constraints all_flags bad_flag (snd lp)) levels = true.
Proof. vm_compute. reflexivity. Qed.

(* for every level and EVERY assignment d of the disable flags that leaves disable_simplify_cfg off,
   the filtered pass list passes validate_pass_order *)
Theorem pass_pipeline_valid : forall lvl passes (d : string -> bool),
  In (lvl, passes) levels -> d bad_flag = false ->
  validate constraints (pipeline passes d) = true.
Proof.
  intros lvl passes d Hin Hd. pose proof all_levels_ok as H. rewrite forallb_forall in H.
  specialize (H (lvl, passes) Hin). cbn [snd] in H.
  eapply level_ok_all; eauto.
Qed.
Print Assumptions pass_pipeline_valid.

(* the refuted case: with disable_simplify_cfg alone, validation fails at every level (CompilerPanic) *)
Theorem pass_pipeline_simplify_cfg_refuted :
  forallb (fun lp => negb (validate constraints (pipeline (snd lp) (String.eqb bad_flag)))) levels = true /\
  levels <> [].
Proof. split; [vm_compute; reflexivity | discriminate]. Qed.
Print Assumptions pass_pipeline_simplify_cfg_refuted.

(* non-vacuity: the levels exist, the flag list is not empty, and the unfiltered pipelines are valid *)
Example c02_nonvacuous :
  List.length levels = 3 /\ 2 <= List.length all_flags /\
  forallb (fun lp => validate constraints (pipeline (snd lp) (fun _ => false))) levels = true.
Proof. split; [vm_compute; reflexivity|]. split; [vm_compute; repeat constructor|]. vm_compute. reflexivity. Qed.
