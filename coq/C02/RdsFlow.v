(* C02 decision point "batch memory copy": before Cancun the legacy code generator lowers a memory-to-memory copy of more
   than one word to STATICCALL(gas, 4 (identity precompile), src, len, dst, len); from Cancun on to MCOPY.  Both have the
   same effect on memory, but the precompile call REPLACES the returndata buffer, MCOPY leaves it alone.  A program whose
   reads of the returndata buffer (RETURNDATASIZE / RETURNDATACOPY) never follow such a copy without a real call in
   between therefore cannot tell the two lowerings apart.

   Model: the returndata-relevant skeleton of an IR tree in evaluation order (KRds: read of the buffer; KCopy: batch
   copy; KCall: any other call/create, which sets the buffer on every target alike; sequencing, two-way branch, loop).
   Everything the skeleton does not determine (which branch, how many iterations, what a call returns, how long a copy
   is) comes from an oracle shared by the two targets.  `run pre k` executes the skeleton with the copy lowered to the
   precompile (pre = true) or to MCOPY (pre = false) and records the values the program reads from the buffer.
   `chk` is the forward analysis (state: may the buffer differ between the two targets?) that the check runs on the
   skeletons regenerated from the IR the real code generator emits. *)
From Coq Require Import ZArith List Bool.
Import ListNotations.
Open Scope Z_scope.

Inductive sk : Type :=
| KNop
| KRds                       (* RETURNDATASIZE / RETURNDATACOPY *)
| KCopy                      (* batch memory copy: identity precompile before Cancun, MCOPY from Cancun on *)
| KCall                      (* CALL / STATICCALL (not the identity precompile) / DELEGATECALL / CREATE / CREATE2 *)
| KSeq (a b : sk)
| KIf (c t e : sk)
| KRepeat (b : sk).          (* zero or more iterations *)

Record st : Type := mkSt { buf : Z; orc : list Z; tr : list Z }.

Definition pop (o : list Z) : Z * list Z :=
  match o with [] => (0, []) | x :: r => (x, r) end.

Fixpoint iter {A : Type} (n : nat) (f : A -> A) (x : A) : A :=
  match n with O => x | S m => iter m f (f x) end.

Fixpoint run (pre : bool) (k : sk) (s : st) : st :=
  match k with
  | KNop => s
  | KRds => mkSt (buf s) (orc s) (buf s :: tr s)
  | KCopy => mkSt (if pre then fst (pop (orc s)) else buf s) (snd (pop (orc s))) (tr s)
  | KCall => mkSt (fst (pop (orc s))) (snd (pop (orc s))) (tr s)
  | KSeq a b => run pre b (run pre a s)
  | KIf c t e =>
      let s1 := run pre c s in
      let s2 := mkSt (buf s1) (snd (pop (orc s1))) (tr s1) in
      if fst (pop (orc s1)) =? 0 then run pre e s2 else run pre t s2
  | KRepeat b =>
      iter (Z.to_nat (fst (pop (orc s)))) (run pre b) (mkSt (buf s) (snd (pop (orc s))) (tr s))
  end.

(* what the program observes of the returndata buffer, from an arbitrary start *)
Definition observed (pre : bool) (k : sk) (b : Z) (o : list Z) : list Z := tr (run pre k (mkSt b o [])).

Definition target_independent (k : sk) : Prop :=
  forall b o, observed true k b o = observed false k b o.

(* the analysis: d = true: the buffer may differ between the two lowerings at this point *)
Fixpoint chk (k : sk) (d : bool) : option bool :=
  match k with
  | KNop => Some d
  | KRds => if d then None else Some false
  | KCopy => Some true
  | KCall => Some false
  | KSeq a b => match chk a d with Some y => chk b y | None => None end
  | KIf c t e =>
      match chk c d with
      | Some y => match chk t y, chk e y with Some p, Some q => Some (p || q) | _, _ => None end
      | None => None
      end
  | KRepeat b =>
      match chk b d with
      | Some y => match chk b (d || y) with Some _ => Some (d || y) | None => None end
      | None => None
      end
  end.

Definition safe (k : sk) : bool := match chk k false with Some _ => true | None => false end.

Fixpoint has_copy (k : sk) : bool :=
  match k with
  | KCopy => true
  | KSeq a b => has_copy a || has_copy b
  | KIf c t e => has_copy c || has_copy t || has_copy e
  | KRepeat b => has_copy b
  | _ => false
  end.

Fixpoint has_rds (k : sk) : bool :=
  match k with
  | KRds => true
  | KSeq a b => has_rds a || has_rds b
  | KIf c t e => has_rds c || has_rds t || has_rds e
  | KRepeat b => has_rds b
  | _ => false
  end.

(* the two shapes of the returndata decoder of an outgoing call with two dynamic members:
   bound computed once before the copies / bound recomputed at every bounds check *)
Definition unpack_pinned : sk := KSeq KCall (KSeq KRds (KSeq KCopy KCopy)).
Definition unpack_inlined : sk := KSeq KCall (KSeq KRds (KSeq KCopy (KSeq KRds KCopy))).
