From Coq Require Import List Bool ZArith Lia.
From Verif Require Import C02.Handover.
Import ListNotations.
Open Scope Z_scope.

Lemma eff_eqb_eq : forall a b, eff_eqb a b = true <-> a = b.
Proof. intros a b; split; [destruct a, b; simpl; congruence | intros ->; destruct b; reflexivity]. Qed.

Lemma in_all_effs : forall e, In e all_effs.
Proof. destruct e; simpl; tauto. Qed.

Lemma in_all_hops : forall h, In h all_hops.
Proof. destruct h; simpl; tauto. Qed.

Lemma coversb_sound : forall may T, coversb may T = true ->
  forall h e, mem e (may h) = true -> mem e (T h) = true.
Proof.
  intros may T H h e Hm. unfold coversb in H.
  rewrite forallb_forall in H. specialize (H h (in_all_hops h)).
  rewrite forallb_forall in H. specialize (H e (in_all_effs e)).
  rewrite Hm in H. simpl in H. exact H.
Qed.

Lemma coversb_w : forall W, coversb may_write W = true -> covers_w W.
Proof. intros W H h e. apply coversb_sound; exact H. Qed.

Lemma coversb_r : forall R, coversb may_read R = true -> covers_r R.
Proof. intros R H h e. apply coversb_sound; exact H. Qed.

Lemma forward_sound : forall W, covers_w W -> forward_ok W.
Proof.
  intros W C h e adv s Hn. unfold exec.
  destruct (mem e (may_write h)) eqn:E; [| reflexivity].
  apply C in E. congruence.
Qed.

Lemma view_upd : forall h s e v, mem e (may_read h) = false -> forall x, view h (upd s e v) x = view h s x.
Proof.
  intros h s e v Hn x. unfold view, upd.
  destruct (mem x (may_read h)) eqn:E; [| reflexivity].
  destruct (eff_eqb x e) eqn:Q; [| reflexivity].
  apply eff_eqb_eq in Q. subst. congruence.
Qed.

(* the foreign code is a function of the cells it may read only up to extensional equality of its argument: state it for
   functions that respect pointwise equality (every Gallina-definable `adv` does; required because `st` is a function type
   and no extensionality axiom is used) *)
Definition respects (adv : st -> st) : Prop := forall s1 s2, (forall x, s1 x = s2 x) -> forall e, adv s1 e = adv s2 e.

Lemma dead_store_sound : forall R, covers_r R ->
  forall h e adv s v e', respects adv -> mem e (R h) = false -> eff_eqb e' e = false ->
  exec h adv (upd s e v) e' = exec h adv s e'.
Proof.
  intros R C h e adv s v e' Hr Hn Hne. unfold exec.
  assert (Hm : mem e (may_read h) = false).
  { destruct (mem e (may_read h)) eqn:E; [| reflexivity]. apply C in E. congruence. }
  destruct (mem e' (may_write h)).
  - apply Hr. intro x. apply view_upd. exact Hm.
  - unfold upd. rewrite Hne. reflexivity.
Qed.

Lemma poke_respects : respects poke_ctor.
Proof. intros s1 s2 H e. unfold poke_ctor. destruct (eff_eqb e STORAGE); rewrite ?H; reflexivity. Qed.

(* the tightened create row is wrong: the constructor's callback is visible in the creator's storage cell *)
Lemma tightened_refuted : forall W, ~ forward_ok (tightened W).
Proof.
  intros W F. specialize (F H_create STORAGE poke_ctor (fun _ => 0)).
  assert (Hm : mem STORAGE (tightened W H_create) = false).
  { unfold tightened. induction (W H_create) as [| x r IH]; [reflexivity |].
    simpl. destruct x; simpl; auto. }
  specialize (F Hm). vm_compute in F. discriminate.
Qed.
