(* C02 property theorems about the hand-over rows of the Venom effects table (GenHandoverTbl.v is regenerated from
   vyper/venom/effects.py on every run; this file is rebuilt when it changes). *)
From Coq Require Import List Bool ZArith.
From Verif Require Import C02.Handover C02.HandoverProofs C02.GenHandoverTbl.
Import ListNotations.
Open Scope Z_scope.

(* finite part: the extracted rows contain the re-entry footprint *)
Lemma handover_rows_checked : coversb may_write tbl_writes && coversb may_read tbl_reads = true.
Proof. vm_compute. reflexivity. Qed.

Theorem handover_table_covers_reentry : covers_w tbl_writes /\ covers_r tbl_reads.
Proof. exact (conj (coversb_w _ (proj1 (andb_prop _ _ handover_rows_checked))) (coversb_r _ (proj2 (andb_prop _ _ handover_rows_checked)))). Qed.
Print Assumptions handover_table_covers_reentry.

(* a cell the table says a hand-over does not write is unchanged by ANY foreign code, re-entrant or not: a value read before
   the hand-over may be reused after it only then *)
Theorem read_after_handover_sound : forall h e adv s, mem e (tbl_writes h) = false -> exec h adv s e = s e.
Proof. exact (forward_sound tbl_writes (proj1 handover_table_covers_reentry)). Qed.
Print Assumptions read_after_handover_sound.

(* a store to a cell the table says a hand-over does not read cannot influence anything the foreign code does *)
Theorem store_before_handover_unobserved : forall h e adv s v e', respects adv -> mem e (tbl_reads h) = false ->
  eff_eqb e' e = false -> exec h adv (upd s e v) e' = exec h adv s e'.
Proof. exact (dead_store_sound tbl_reads (proj2 handover_table_covers_reentry)). Qed.
Print Assumptions store_before_handover_unobserved.

(* "init code runs in the new account, so CREATE does not write the creator's storage" is refuted by a constructor that
   calls back *)
Theorem create_without_storage_write_refuted : ~ forward_ok (tightened tbl_writes).
Proof. exact (tightened_refuted tbl_writes). Qed.
Print Assumptions create_without_storage_write_refuted.

(* non-vacuity: some cell IS licensed for reuse across a hand-over (the creator's memory across CREATE), the callback
   constructor respects extensionality and does change the storage cell through CREATE *)
Example c02_handover_nonvacuous :
  mem MEMORY (tbl_writes H_create) = false /\ mem STORAGE (tbl_writes H_create) = true /\ respects poke_ctor /\
  exec H_create poke_ctor (fun _ => 5) STORAGE = 6.
Proof. repeat split; try (vm_compute; reflexivity). exact poke_respects. Qed.
