(* C02, decision point "batch memory copy" (identity precompile before Cancun / MCOPY from Cancun on): the code the legacy
   generator emits for pre-Cancun targets never reads the returndata buffer between a batch copy and the next real call,
   hence cannot observe which of the two lowerings is in use.  Depends on GenRdsSkel.v, regenerated from the IR of the
   current /repo tree on every run. *)
From Coq Require Import ZArith List Bool String.
From Verif Require Import C02.RdsFlow C02.RdsFlowProofs C02.GenRdsSkel.
Import ListNotations.

(* the analysis is sound: a skeleton it accepts reads the same values from the returndata buffer whether its batch copies
   go through the identity precompile (which replaces the buffer) or through MCOPY (which does not), for every start
   buffer and every oracle (branches taken, iteration counts, sizes returned by calls, copy lengths) *)
Theorem rds_flow_sound : forall k, safe k = true -> target_independent k.
Proof. exact safe_target_independent. Qed.
Print Assumptions rds_flow_sound.

Lemma emitted_all_safe : forallb (fun p => safe (snd p)) skeletons = true.
Proof. vm_compute. reflexivity. Qed.

(* every skeleton extracted from the IR emitted by the current tree is target independent *)
Theorem emitted_skeletons_target_independent : forall n k, In (n, k) skeletons -> target_independent k.
Proof. exact (all_safe_target_independent _ skeletons emitted_all_safe). Qed.
Print Assumptions emitted_skeletons_target_independent.

(* the refuted shape: a decoder that recomputes min(max_size, RETURNDATASIZE) after the first member has been copied is
   rejected by the analysis, and rightly so: with a 320-byte answer and two 96-byte copies the second bounds check reads
   96 on a pre-Cancun target and 320 from Cancun on *)
Theorem unpack_inlined_refuted :
  safe unpack_inlined = false /\
  observed true unpack_inlined 0 [320; 96; 96]%Z <> observed false unpack_inlined 0 [320; 96; 96]%Z.
Proof. split; [vm_compute; reflexivity | exact unpack_inlined_differs]. Qed.
Print Assumptions unpack_inlined_refuted.

(* non-vacuity: the pinned decoder is accepted; skeletons were extracted, some of them copy through the precompile AND
   read the returndata buffer (so the hypothesis of the theorem is not trivially true for them) *)
Example c02_rds_nonvacuous :
  safe unpack_pinned = true /\
  skeletons <> [] /\
  existsb (fun p => has_copy (snd p) && has_rds (snd p)) skeletons = true.
Proof. split; [vm_compute; reflexivity|]. split; [discriminate|]. vm_compute. reflexivity. Qed.
