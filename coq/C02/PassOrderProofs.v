(* C02: lifting the finite exhaustive check over flag subsets to all flag assignments. *)
From Coq Require Import List Bool String Arith.
From Verif Require Import C02.PassOrder.
Import ListNotations.
Open Scope string_scope.

Lemma mem_true_iff x l : mem x l = true <-> In x l.
Proof.
  unfold mem. rewrite existsb_exists. split.
  - intros [y [Hy E]]. apply String.eqb_eq in E. subst; auto.
  - intros H. exists x. split; auto. apply String.eqb_refl.
Qed.

Lemma mem_filter (d : string -> bool) l f : In f l -> mem f (filter d l) = d f.
Proof.
  intros H. destruct (d f) eqn:E.
  - apply mem_true_iff. apply filter_In. auto.
  - destruct (mem f (filter d l)) eqn:M; auto.
    apply mem_true_iff in M. apply filter_In in M. destruct M; congruence.
Qed.

Lemma filter_in_subsets (p : string -> bool) l : In (filter p l) (subsets l).
Proof.
  induction l as [|x r IH]; cbn; auto.
  destruct (p x); apply in_or_app.
  - left. apply in_map. exact IH.
  - right. exact IH.
Qed.

Lemma pipeline_ext passes d1 d2 :
  (forall f, In f (flags_of passes) -> d1 f = d2 f) -> pipeline passes d1 = pipeline passes d2.
Proof.
  unfold pipeline. induction passes as [|[n fl] r IH]; intros H; [reflexivity|].
  assert (Hr : forall f, In f (flags_of r) -> d1 f = d2 f).
  { intros f Hf. apply H. unfold flags_of in *. cbn [flat_map]. apply in_or_app. right. exact Hf. }
  specialize (IH Hr).
  assert (K : keep d1 (n, fl) = keep d2 (n, fl)).
  { unfold keep. cbn [snd]. destruct fl as [f|]; auto. rewrite (H f); auto.
    unfold flags_of. cbn. left. reflexivity. }
  cbn [filter]. rewrite K. destruct (keep d2 (n, fl)); cbn [map]; rewrite IH; reflexivity.
Qed.

Definition usable (bad : string) (flags : list string) : list string :=
  filter (fun f => negb (String.eqb f bad)) flags.

Definition level_ok (tbl : list (pname * constr)) (flags : list string) (bad : string) (passes : list entry) : bool :=
  forallb (fun f => mem f flags) (flags_of passes) &&
  forallb (fun s => validate tbl (pipeline passes (fun f => mem f s))) (subsets (usable bad flags)).

Lemma level_ok_all tbl flags bad passes :
  level_ok tbl flags bad passes = true ->
  forall d : string -> bool, d bad = false -> validate tbl (pipeline passes d) = true.
Proof.
  unfold level_ok. intros H d Hbad. apply andb_true_iff in H. destruct H as [Hf Hs].
  rewrite forallb_forall in Hf. rewrite forallb_forall in Hs.
  set (s := filter d (usable bad flags)).
  assert (Hin : In s (subsets (usable bad flags))) by apply filter_in_subsets.
  specialize (Hs s Hin). cbn beta in Hs.
  rewrite (pipeline_ext passes d (fun f => mem f s)); auto.
  intros f Hfl. specialize (Hf f Hfl). apply mem_true_iff in Hf.
  destruct (String.eqb f bad) eqn:E.
  - apply String.eqb_eq in E. subst f. rewrite Hbad. symmetry.
    destruct (mem bad s) eqn:M; auto. apply mem_true_iff in M. unfold s in M.
    apply filter_In in M. destruct M as [M _]. unfold usable in M. apply filter_In in M.
    destruct M as [_ M]. rewrite String.eqb_refl in M. discriminate.
  - unfold s. rewrite mem_filter; auto. unfold usable. apply filter_In. rewrite E. auto.
Qed.
