(* C02: Coq re-implementation of vyper/venom/__init__.py:_build_fn_pass_pipeline (flag filtering) and
   vyper/venom/optimization_levels/pass_order.py:validate_pass_order.  Definitions only.
   The data (pass lists per level, PASS_FLAG_MAP, ordering constraints) comes from GenPassOrder.v,
   regenerated from /repo on every run. *)
From Coq Require Import List Bool String Arith.
Import ListNotations.
Open Scope string_scope.

Definition pname := string.
(* a pipeline entry: pass class name, and the disable flag that removes it (PASS_FLAG_MAP) if any *)
Definition entry := (pname * option string)%type.

Record constr := mkConstr {
  c_pred : list pname;        (* required_predecessors: one of them somewhere before *)
  c_succ : list pname;        (* required_successors: one of them somewhere after *)
  c_ipred : list pname;       (* required_immediate_predecessors *)
  c_isucc : list pname }.     (* required_immediate_successors *)

Definition no_constr := mkConstr [] [] [] [].

Fixpoint lookup (tbl : list (pname * constr)) (n : pname) : constr :=
  match tbl with
  | [] => no_constr
  | (m, c) :: r => if String.eqb m n then c else lookup r n
  end.

Definition mem (x : string) (l : list string) : bool := existsb (String.eqb x) l.

(* _build_fn_pass_pipeline: drop the passes whose disable flag is set *)
Definition keep (d : string -> bool) (e : entry) : bool :=
  match snd e with Some f => negb (d f) | None => true end.
Definition pipeline (passes : list entry) (d : string -> bool) : list pname :=
  map fst (filter (keep d) passes).

(* _index_pass_positions *)
Fixpoint first_idx (n : pname) (l : list pname) (i : nat) : option nat :=
  match l with
  | [] => None
  | x :: r => if String.eqb x n then Some i else first_idx n r (S i)
  end.
Fixpoint last_idx (n : pname) (l : list pname) (i : nat) (acc : option nat) : option nat :=
  match l with
  | [] => acc
  | x :: r => last_idx n r (S i) (if String.eqb x n then Some i else acc)
  end.

(* _validate_non_immediate *)
Definition non_immediate_ok (before : bool) (idx : nat) (cands : list pname) (names : list pname) : bool :=
  match cands with
  | [] => true
  | _ =>
    existsb (fun c =>
      if before then match first_idx c names 0 with Some j => Nat.ltb j idx | None => false end
      else match last_idx c names 0 None with Some j => Nat.ltb idx j | None => false end) cands
  end.

(* _validate_immediate *)
Definition immediate_ok (before : bool) (idx : nat) (cands : list pname) (names : list pname) : bool :=
  match cands with
  | [] => true
  | _ =>
    let actual :=
      if before then match idx with O => "<start>" | S j => nth j names "<start>" end
      else nth (S idx) names "<end>" in
    mem actual cands
  end.

Definition pass_ok (tbl : list (pname * constr)) (names : list pname) (idx : nat) (n : pname) : bool :=
  let c := lookup tbl n in
  non_immediate_ok true idx (c_pred c) names && non_immediate_ok false idx (c_succ c) names &&
  immediate_ok true idx (c_ipred c) names && immediate_ok false idx (c_isucc c) names.

Fixpoint validate_from (tbl : list (pname * constr)) (names : list pname) (idx : nat) (rest : list pname) : bool :=
  match rest with
  | [] => true
  | n :: r => pass_ok tbl names idx n && validate_from tbl names (S idx) r
  end.
(* validate_pass_order: true iff the real function returns without raising CompilerPanic *)
Definition validate (tbl : list (pname * constr)) (names : list pname) : bool :=
  validate_from tbl names 0 names.

(* all sub-lists (order preserving) of a list of flags *)
Fixpoint subsets (l : list string) : list (list string) :=
  match l with
  | [] => [[]]
  | x :: r => let s := subsets r in map (cons x) s ++ s
  end.

Definition flags_of (passes : list entry) : list string :=
  flat_map (fun e => match snd e with Some f => [f] | None => [] end) passes.
