(* Proofs for LStmt.v: the legacy IR `llower body` computes the meaning `sexec_list` of the body (the same meaning the
   Venom theorem PropsVStmt.vstmt_compile_correct is about). *)
From Coq Require Import ZArith Bool List String Ascii Lia.
From Verif Require Import Base.Word256 C03.LIR C03.ArithSpec C03.WordArith C03.TypeLemmas C03.ArithModel C03.VSL
  C01.ExprCompile C01.ExprCompileProofs C01V.VExpr C01V.VExprProofs C01V.VBlocks C01V.VBlocksProofs C01V.VStmt
  C01V.VStmtProofs C01V.LStmt.
Import ListNotations.
Open Scope string_scope.
Open Scope Z_scope.
Open Scope list_scope.

Set Default Timeout 120.

(* the checker both compile-correctness theorems need: the legacy and the Venom side conditions *)
Definition wtb (e : sexpr) : bool := wt e && vwt e.

(* ---------------- environments ---------------- *)
Lemma leval_agree t : forall E1 E2, (forall s, In s (vars t) -> lookup E1 s = lookup E2 s) -> leval E1 t = leval E2 t.
Proof.
  induction t as [n | s | o a IHa | o a IHa b IHb | o a IHa b IHb c IHc | v a IHa b IHb | a IHa b IHb | | a IHa | a IHa b IHb c IHc];
    intros E1 E2 H; cbn [leval vars] in *.
  - reflexivity.
  - rewrite (H s) by (left; reflexivity). reflexivity.
  - rewrite (IHa E1 E2 H). reflexivity.
  - rewrite (IHa E1 E2), (IHb E1 E2); [reflexivity | |]; intros s Hs; apply H; apply in_or_app; auto.
  - rewrite (IHa E1 E2), (IHb E1 E2), (IHc E1 E2); [reflexivity | | |]; intros s Hs; apply H; rewrite !in_app_iff; auto.
  - rewrite (IHa E1 E2) by (intros s Hs; apply H; apply in_or_app; auto).
    destruct (leval E2 a) as [x| | |]; try reflexivity.
    apply IHb. intros s Hs. cbn [lookup]. destruct (String.eqb v s); [reflexivity|]. apply H. apply in_or_app. auto.
  - rewrite (IHa E1 E2), (IHb E1 E2); [reflexivity | |]; intros s Hs; apply H; apply in_or_app; auto.
  - reflexivity.
  - rewrite (IHa E1 E2 H). reflexivity.
  - rewrite (IHa E1 E2), (IHb E1 E2), (IHc E1 E2); [reflexivity | | |]; intros s Hs; apply H; rewrite !in_app_iff; auto.
Qed.

Definition wbad (w : env) : Prop := Forall (fun p => bad_name (fst p) = true) w.

Lemma lookup_wbad w m s : wbad w -> bad_name s = false -> lookup (w ++ m) s = lookup m s.
Proof.
  induction w as [|[n v] w IH]; intros H Hs; [reflexivity|]. inversion H; subst. cbn [app lookup].
  destruct (String.eqb_spec n s) as [E|E]; [|apply IH; assumption].
  subst n. cbn [fst] in H2. congruence.
Qed.

Lemma ixn_bad k : bad_name (ixn k) = true.
Proof. reflexivity. Qed.

(* an expression inside the statement layer *)
Lemma lexpr e rho w : wbad w -> expr_ok e = true ->
  match seval_chk wtb rho e with
  | Val v => val_ok (ty_of e) v = true /\ leval (w ++ lenv_of rho) (compile e) = Val (wrap v)
  | Revert => leval (w ++ lenv_of rho) (compile e) = Revert
  | _ => True
  end.
Proof.
  intros HW HE. unfold seval_chk, wtb.
  destruct ((wt e && vwt e) && env_ok rho e) eqn:C; [|exact I].
  apply andb_true_iff in C. destruct C as [C Eo]. apply andb_true_iff in C. destruct C as [Wt _].
  destruct (compile_correct e rho Wt Eo) as [GD EV]. specialize (EV [] (Forall_nil _)). cbn [app] in EV.
  assert (A : leval (w ++ lenv_of rho) (compile e) = leval (lenv_of rho) (compile e)).
  { apply leval_agree. intros s Hs. apply lookup_wbad; [exact HW|].
    unfold expr_ok in HE. rewrite forallb_forall in HE. apply negb_true_iff. apply HE. exact Hs. }
  rewrite A, EV. destruct (seval rho e) as [v| | |]; try exact I; cbn [enc_out good] in *.
  - split; [exact GD | reflexivity].
  - reflexivity.
Qed.

(* ---------------- unfolding equations ---------------- *)
Lemma lsexec_seq w m l : lsexec w m (LSSeq l) = lsexec_list w l m.
Proof. reflexivity. Qed.

Lemma lsexec_if w m c a : lsexec w m (LSIf c a) =
  match leval (w ++ m) c with
  | Val v => if v =? 0 then LNorm m else lsexec w m a
  | Revert => LRev | _ => LStuck end.
Proof. reflexivity. Qed.
Lemma lsexec_ifelse w m c a b : lsexec w m (LSIfElse c a b) =
  match leval (w ++ m) c with
  | Val v => if v =? 0 then lsexec w m b else lsexec w m a
  | Revert => LRev | _ => LStuck end.
Proof. reflexivity. Qed.

Lemma lgen_if c a b k : lgen (SIf c a b) k =
  let '(ta, k1) := lgen_list a k in
  match b with
  | [] => (LSIf (compile c) (LSSeq ta), k1)
  | _ => let '(tb, k2) := lgen_list b k1 in (LSIfElse (compile c) (LSSeq ta) (LSSeq tb), k2)
  end.
Proof. reflexivity. Qed.

Lemma lgen_for i lo rounds body k : lgen (SFor i lo rounds body) k =
  let '(tb, k1) := lgen_list body (S k) in
  (LSRepeat (ixn k) (LInt lo) (LInt (Z.of_nat rounds)) (Z.of_nat rounds)
     (LSSeq [LSStore i (LVar (ixn k)); LSSeq tb]), k1).
Proof. reflexivity. Qed.

Lemma lgen_forb i T a b bound body k : lgen (SForB i T a b bound body) k =
  let '(tb, k1) := lgen_list body (S k) in
  let bd := LSSeq [LSStore i (LVar (ixn k)); LSSeq tb] in
  match a with
  | XInt _ v => (LSRepeat (ixn k) (LInt v) (rounds_expr T (LInt v) (compile b)) bound bd, k1)
  | _ => (LSWith "start" (compile a)
            (LSRepeat (ixn k) (LVar "start") (rounds_expr T (LVar "start") (compile b)) bound bd), k1)
  end.
Proof. reflexivity. Qed.

Lemma lok_if c a b : lok (SIf c a b) = expr_ok c && lok_list a && lok_list b.
Proof. reflexivity. Qed.
Lemma lok_for i lo rounds body : lok (SFor i lo rounds body) = negb (bad_name i) && (1 <=? Z.of_nat rounds) && lok_list body.
Proof. reflexivity. Qed.
Lemma lok_forb i T a b bound body : lok (SForB i T a b bound body) =
  negb (bad_name i) && expr_ok a && expr_ok b && negb (is_int_lit b) && lok_list body.
Proof. reflexivity. Qed.

(* ---------------- results ---------------- *)
Definition LRes (res : sres) (lr : lres) : Prop :=
  match res with
  | SNorm r => lr = LNorm (lenv_of r)
  | SBrk r => lr = LBrk (lenv_of r)
  | SCont r => lr = LCont (lenv_of r)
  | SRet v => lr = LRet (wrap v)
  | SRev => lr = LRev
  | SStuck => True
  end.

Definition SOKL (s : sstmt) : Prop := forall rho w k, wbad w -> lok s = true ->
  LRes (sexec wtb s rho) (lsexec w (lenv_of rho) (fst (lgen s k))).
Definition LOKL (l : list sstmt) : Prop := forall rho w k, wbad w -> lok_list l = true ->
  LRes (sexec_list wtb l rho) (lsexec_list w (fst (lgen_list l k)) (lenv_of rho)).

Lemma bool_val' v : val_ok SBool v = true -> (wrap v =? 0) = (v =? 0).
Proof.
  intros H. apply bool_word. cbn [val_ok] in H. apply orb_true_iff in H.
  destruct H as [H|H]; apply Z.eqb_eq in H; auto.
Qed.

Lemma lcond c rho w : wbad w -> expr_ok c = true ->
  match seval_cond wtb rho c with
  | Val v => leval (w ++ lenv_of rho) (compile c) = Val (wrap v) /\ (wrap v =? 0) = (v =? 0)
  | Revert => leval (w ++ lenv_of rho) (compile c) = Revert
  | _ => True
  end.
Proof.
  intros HW HE. unfold seval_cond. destruct (sty_eqb (ty_of c) SBool) eqn:TB; [|exact I].
  pose proof (lexpr c rho w HW HE) as X. destruct (seval_chk wtb rho c) as [v| | |]; try exact I; [|exact X].
  destruct X as [VO EV]. split; [exact EV|].
  apply sty_eqb_eq in TB. rewrite TB in VO. now apply bool_val'.
Qed.

Lemma okl_assign x e : SOKL (SAssign x e).
Proof.
  intros rho w k HW LK. cbn [lok] in LK. apply andb_true_iff in LK. destruct LK as [_ HE].
  cbn [lgen fst sexec lsexec]. destruct (local_name x); [|exact I].
  pose proof (lexpr e rho w HW HE) as X. destruct (seval_chk wtb rho e) as [v| | |]; cbn [LRes]; try exact I.
  - destruct X as [_ EV]. rewrite EV. reflexivity.
  - rewrite X. reflexivity.
Qed.

Lemma okl_assert c : SOKL (SAssert c).
Proof.
  intros rho w k HW LK. cbn [lok] in LK. cbn [lgen fst sexec lsexec].
  pose proof (lcond c rho w HW LK) as X. destruct (seval_cond wtb rho c) as [v| | |]; cbn [LRes]; try exact I.
  - destruct X as [EV BW]. rewrite EV, BW. destruct (v =? 0); reflexivity.
  - rewrite X. reflexivity.
Qed.

Lemma okl_return e : SOKL (SReturn e).
Proof.
  intros rho w k HW LK. cbn [lok] in LK. cbn [lgen fst sexec].
  pose proof (lexpr e rho w HW LK) as X.
  destruct e as [T0 v0 | b0 | s t | op T0 ia ib i1 i2 a0 b0 | op T0 a0 b0 | op t0 a0 b0 | a0 b0 | a0 b0 | a0 | T0 ic a0 | c0 a0 b0];
    cbn [lsexec]; try (destruct (seval_chk wtb rho _) as [v| | |]; cbn [LRes]; try exact I;
                                 [destruct X as [_ EV]; rewrite EV; reflexivity | rewrite X; reflexivity]).
  (* a bare local: the word is returned from its memory slot *)
  destruct (seval_chk wtb rho (XVar s t)) as [v| | |]; cbn [LRes]; try exact I.
  - destruct X as [_ EV]. cbn [compile leval] in EV. destruct (lookup (w ++ lenv_of rho) s); [|discriminate].
    inversion EV; subst. reflexivity.
  - cbn [compile leval] in X. destruct (lookup (w ++ lenv_of rho) s); discriminate.
Qed.

Lemma okl_break : SOKL SBreak. Proof. intros rho w k _ _. reflexivity. Qed.
Lemma okl_continue : SOKL SContinue. Proof. intros rho w k _ _. reflexivity. Qed.
Lemma okl_pass : SOKL SPass. Proof. intros rho w k _ _. reflexivity. Qed.

Lemma okl_nil : LOKL [].
Proof. intros rho w k _ _. reflexivity. Qed.

Lemma okl_cons s l : SOKL s -> LOKL l -> LOKL (s :: l).
Proof.
  intros Hs Hl rho w k HW LK. cbn [lok_list] in LK. apply andb_true_iff in LK. destruct LK as [L1' L2'].
  cbn [lgen_list]. destruct (lgen s k) as [t k1] eqn:E1. destruct (lgen_list l k1) as [ts k2] eqn:E2.
  cbn [fst lsexec_list sexec_list].
  pose proof (Hs rho w k HW L1') as R1. rewrite E1 in R1. cbn [fst] in R1.
  destruct (sexec wtb s rho) as [rho1|rho1|rho1|v| |]; cbn [LRes] in R1 |- *; try (rewrite R1; reflexivity); [|exact I].
  rewrite R1. pose proof (Hl rho1 w k1 HW L2') as R2. rewrite E2 in R2. exact R2.
Qed.

Lemma okl_if c a b : LOKL a -> LOKL b -> SOKL (SIf c a b).
Proof.
  intros Ha Hb rho w k HW LK. rewrite lok_if in LK. apply andb_true_iff in LK. destruct LK as [LK Lb].
  apply andb_true_iff in LK. destruct LK as [Lc La].
  rewrite lgen_if, sexec_if. destruct (lgen_list a k) as [ta k1] eqn:Ea.
  pose proof (lcond c rho w HW Lc) as X.
  pose proof (Ha rho w k HW La) as RA. rewrite Ea in RA. cbn [fst] in RA.
  destruct b as [|sb0 b'].
  - cbn [fst]. rewrite lsexec_if. destruct (seval_cond wtb rho c) as [v| | |]; cbn [LRes]; try exact I.
    + destruct X as [EV BW]. rewrite EV, BW. destruct (v =? 0); [reflexivity|]. rewrite lsexec_seq. exact RA.
    + rewrite X. reflexivity.
  - destruct (lgen_list (sb0 :: b') k1) as [tb k2] eqn:Eb. cbn [fst]. rewrite lsexec_ifelse.
    pose proof (Hb rho w k1 HW Lb) as RB. rewrite Eb in RB. cbn [fst] in RB.
    destruct (seval_cond wtb rho c) as [v| | |]; cbn [LRes]; try exact I.
    + destruct X as [EV BW]. rewrite EV, BW. destruct (v =? 0); rewrite lsexec_seq; [exact RB | exact RA].
    + rewrite X. reflexivity.
Qed.

(* ---------------- loops ---------------- *)
Lemma lsexec_store w m x e : lsexec w m (LSStore x e) =
  match leval (w ++ m) e with Val v => LNorm ((x, v) :: m) | Revert => LRev | _ => LStuck end.
Proof. reflexivity. Qed.
Lemma lsexec_with w m v e body : lsexec w m (LSWith v e body) =
  match leval (w ++ m) e with Val x => lsexec ((v, x) :: w) m body | Revert => LRev | _ => LStuck end.
Proof. reflexivity. Qed.
Lemma lsexec_repeat w m ix st rd bound body : lsexec w m (LSRepeat ix st rd bound body) =
  match leval (w ++ m) st with
  | Val s0 =>
      match leval (w ++ m) rd with
      | Val r =>
          let same := lir_eqb rd (LInt bound) in
          if negb same && (wrap bound <? r) then LRev
          else if negb same && (r =? 0) then LNorm m
          else lloopf (fun iv m => lsexec ((ix, iv) :: w) m body) (Z.to_nat (if r =? 0 then W else r)) s0 m
      | Revert => LRev | _ => LStuck end
  | Revert => LRev | _ => LStuck end.
Proof. reflexivity. Qed.

Lemma lres_eta (x : lres) : match x with LNorm m' => LNorm m' | o => o end = x.
Proof. destruct x; reflexivity. Qed.

Lemma lbody_eq w m i ix tb v :
  lsexec ((ix, v) :: w) m (LSSeq [LSStore i (LVar ix); LSSeq tb]) = lsexec_list ((ix, v) :: w) tb ((i, v) :: m).
Proof.
  rewrite lsexec_seq. cbn [lsexec_list]. rewrite lsexec_store. cbn [leval app lookup]. rewrite String.eqb_refl.
  rewrite lsexec_seq. destruct (lsexec_list ((ix, v) :: w) tb ((i, v) :: m)); reflexivity.
Qed.

Lemma w_add_1 a : w_add (wrap a) 1 = wrap (a + 1).
Proof. change 1 with (wrap 1) at 1. apply w_add_wrap. Qed.

Lemma loop_l i body (Hb : LOKL body) w k : wbad w -> lok_list body = true ->
  forall n a rho,
    LRes (sloopf (fun iv rho0 => sexec_list wtb body ((i, iv) :: rho0)) n a rho)
         (lloopf (fun iv m => lsexec ((ixn k, iv) :: w) m (LSSeq [LSStore i (LVar (ixn k)); LSSeq (fst (lgen_list body (S k)))]))
                 n (wrap a) (lenv_of rho)).
Proof.
  intros HW LK. induction n as [|n IH]; intros a rho; cbn [sloopf lloopf]; [reflexivity|].
  rewrite lbody_eq.
  assert (HW' : wbad ((ixn k, wrap a) :: w)) by (constructor; [apply ixn_bad | exact HW]).
  pose proof (Hb ((i, a) :: rho) _ (S k) HW' LK) as R. cbn [lenv_of map fst snd] in R. fold (lenv_of rho) in R.
  destruct (sexec_list wtb body ((i, a) :: rho)) as [rho1|rho1|rho1|v| |]; cbn [LRes] in R; try rewrite R; cbn [LRes]; try reflexivity.
  - rewrite w_add_1. apply IH.
  - rewrite w_add_1. apply IH.
Qed.

Lemma okl_for i lo rounds body : LOKL body -> SOKL (SFor i lo rounds body).
Proof.
  intros Hb rho w k HW LK. rewrite lok_for in LK. apply andb_true_iff in LK. destruct LK as [LK Lb].
  apply andb_true_iff in LK. destruct LK as [_ R1]. apply Z.leb_le in R1.
  rewrite lgen_for, sexec_for. pose proof (loop_l i body Hb w k HW Lb rounds lo rho) as L.
  destruct (lgen_list body (S k)) as [tb k1] eqn:Eb. cbn [fst] in *.
  destruct (local_name i && (Z.of_nat rounds <? W)) eqn:CK; [|exact I].
  apply andb_true_iff in CK. destruct CK as [_ HR]. apply Z.ltb_lt in HR.
  rewrite lsexec_repeat. cbn [leval]. cbv zeta.
  replace (lir_eqb (LInt (Z.of_nat rounds)) (LInt (Z.of_nat rounds))) with true by (cbn [lir_eqb]; symmetry; apply Z.eqb_refl).
  cbn [negb andb]. rewrite (wrap_small (Z.of_nat rounds)) by (unfold uword; lia).
  replace (Z.of_nat rounds =? 0) with false by (symmetry; apply Z.eqb_neq; lia).
  rewrite Nat2Z.id. exact L.
Qed.

(* ---------------- range(a, b, bound=B) ---------------- *)
Lemma le_op_word T x y : int_ok T = true -> in_range T x -> in_range T y ->
  ev2 (le_op T) (wrap x) (wrap y) = b2z (negb (x >? y)).
Proof.
  intros I X Y.
  assert (E : ev2 (le_op T) (wrap x) (wrap y) = w_iszero (ev2 (if nsigned T then OSgt else OGt) (wrap x) (wrap y)))
    by (unfold le_op; destruct (nsigned T); reflexivity).
  rewrite E, (gt_word T x y I X Y). destruct (x >? y); reflexivity.
Qed.

Lemma rounds_eval T st b (E : env) wa wb :
  leval E b = Val wb -> (forall x, leval (("end", x) :: E) st = Val wa) ->
  leval E (rounds_expr T st b) = if ev2 (le_op T) wa wb =? 0 then Revert else Val (ev2 OSub wb wa).
Proof.
  intros Hb Hst. unfold rounds_expr. cbn [leval]. rewrite Hb. cbn [lookup]. rewrite String.eqb_refl.
  rewrite (Hst wb). destruct (ev2 (le_op T) wa wb =? 0); reflexivity.
Qed.

Lemma forb_core i T b bound body (Hb : LOKL body) w1 k rho st va :
  wbad w1 -> lok_list body = true -> expr_ok b = true ->
  int_ok T = true -> ty_of b = SInt T -> in_range T va -> 0 <= bound < W ->
  (forall m, leval (w1 ++ m) st = Val (wrap va)) -> (forall m x, leval (("end", x) :: w1 ++ m) st = Val (wrap va)) ->
  LRes (match seval_chk wtb rho b with
        | Val vb => if (vb <? va) || (bound <? vb - va) then SRev
                    else sloopf (fun iv rho0 => sexec_list wtb body ((i, iv) :: rho0)) (Z.to_nat (vb - va)) va rho
        | Revert => SRev
        | _ => SStuck
        end)
       (lsexec w1 (lenv_of rho)
          (LSRepeat (ixn k) st (rounds_expr T st (compile b)) bound
             (LSSeq [LSStore i (LVar (ixn k)); LSSeq (fst (lgen_list body (S k)))]))).
Proof.
  intros HW Lb Eb IT TB Ra HB S1 S2. rewrite lsexec_repeat, S1.
  pose proof (lexpr b rho w1 HW Eb) as X.
  destruct (seval_chk wtb rho b) as [vb| | |]; cbn [LRes]; try exact I.
  - destruct X as [VO EV]. rewrite TB in VO. cbn [val_ok] in VO. apply in_rangeb_iff in VO.
    rewrite (rounds_eval T st (compile b) _ (wrap va) (wrap vb) EV (S2 (lenv_of rho))).
    rewrite (le_op_word T va vb IT Ra VO), Z.gtb_ltb.
    destruct (vb <? va) eqn:LT; cbn [negb b2z orb].
    + reflexivity.
    + apply Z.ltb_ge in LT. pose proof (range_diff T va vb IT Ra VO LT) as RD.
      change (1 =? 0) with false. cbv iota zeta.
      assert (ES : ev2 OSub (wrap vb) (wrap va) = vb - va).
      { cbn [ev2]. unfold w_sub. fold (wrap (wrap vb - wrap va)). rewrite wrap_sub. apply wrap_small. exact RD. }
      rewrite ES.
      replace (lir_eqb (rounds_expr T st (compile b)) (LInt bound)) with false by reflexivity.
      cbn [negb andb]. rewrite (wrap_small bound) by exact HB.
      destruct (bound <? vb - va); [reflexivity|].
      destruct (vb - va =? 0) eqn:Z0.
      * apply Z.eqb_eq in Z0. rewrite Z0. reflexivity.
      * apply loop_l; assumption.
  - unfold rounds_expr. cbn [leval]. rewrite X. reflexivity.
Qed.

Lemma okl_forb i T a b bound body : LOKL body -> SOKL (SForB i T a b bound body).
Proof.
  intros Hb rho w k HW LK. rewrite lok_forb in LK.
  apply andb_true_iff in LK. destruct LK as [LK Lb]. apply andb_true_iff in LK. destruct LK as [LK _].
  apply andb_true_iff in LK. destruct LK as [LK Eb]. apply andb_true_iff in LK. destruct LK as [_ Ea].
  rewrite lgen_forb, sexec_forb.
  pose proof (fun w1 rho0 st va => forb_core i T b bound body Hb w1 k rho0 st va) as CORE.
  destruct (lgen_list body (S k)) as [tb k1] eqn:Ebd. cbn [fst] in CORE. cbv zeta.
  destruct (local_name i && sty_eqb (ty_of a) (SInt T) && sty_eqb (ty_of b) (SInt T) && int_ok T
            && (0 <=? bound) && (bound <? W)) eqn:CK; [|destruct a; exact I].
  apply andb_true_iff in CK. destruct CK as [CK BW]. apply andb_true_iff in CK. destruct CK as [CK B0].
  apply andb_true_iff in CK. destruct CK as [CK IT]. apply andb_true_iff in CK. destruct CK as [CK TB].
  apply andb_true_iff in CK. destruct CK as [_ TA].
  apply Z.ltb_lt in BW. apply Z.leb_le in B0. apply sty_eqb_eq in TA. apply sty_eqb_eq in TB.
  pose proof (lexpr a rho w HW Ea) as XA.
  destruct a as [T0 v0 | b0 | s t | op T0 ia ib i1 i2 a0 b0 | op T0 a0 b0 | op t0 a0 b0 | a0 b0 | a0 b0 | a0 | T0 ic a0 | c0 a0 b0];
    cbn [fst].
  2-11: rewrite lsexec_with;
        (destruct (seval_chk wtb rho _) as [va| | |]; cbn [LRes]; try exact I; [|rewrite XA; reflexivity]);
        destruct XA as [VOa EVa]; rewrite EVa; rewrite TA in VOa; cbn [val_ok] in VOa; apply in_rangeb_iff in VOa;
        apply (CORE (("start", wrap va) :: w) rho (LVar "start") va); try assumption; try lia;
        [constructor; [reflexivity | exact HW]
        | intros m; cbn [leval app lookup]; reflexivity
        | intros m x; cbn [leval app lookup]; reflexivity].
  (* literal start: inlined *)
  destruct (seval_chk wtb rho (XInt T0 v0)) as [va| | |] eqn:SA; cbn [LRes]; try exact I.
  - destruct XA as [VOa EVa]. rewrite TA in VOa. cbn [val_ok] in VOa. apply in_rangeb_iff in VOa.
    cbn [compile] in EVa.
    assert (EW : wrap v0 = wrap va) by (cbn [leval] in EVa; inversion EVa; reflexivity).
    apply (CORE w rho (LInt v0) va); try assumption; try lia.
    + intros m. cbn [leval]. rewrite EW. reflexivity.
    + intros m x. cbn [leval]. rewrite EW. reflexivity.
  - cbn [compile leval] in XA. discriminate.
Qed.

Theorem lgen_ok : (forall s, SOKL s) /\ (forall l, LOKL l).
Proof.
  assert (HL : forall l, LOKL l).
  { apply (slist_ind2 SOKL LOKL).
    - exact okl_assign. - exact okl_if. - exact okl_assert. - exact okl_for. - exact okl_forb.
    - exact okl_break. - exact okl_continue. - exact okl_pass. - exact okl_return.
    - exact okl_nil. - exact okl_cons. }
  split; [|exact HL].
  apply (sstmt_ind2 SOKL LOKL).
  - exact okl_assign. - exact okl_if. - exact okl_assert. - exact okl_for. - exact okl_forb.
  - exact okl_break. - exact okl_continue. - exact okl_pass. - exact okl_return.
  - exact okl_nil. - exact okl_cons.
Qed.
