(* VBlocks: the whole expression fragment (with and / or / if-expressions), in a form suited to proof.
   `vgen` produces the same instructions, blocks, labels and fresh variables as the builder model VExpr.vcompile (the
   per-run tie checks the real front end's output against BOTH), but functionally: a *segment* = instructions for the
   current block, and, if the expression creates blocks, the terminator of the current block, the closed blocks in
   the order the builder appends them, and the open block in which code generation continues.
   `run_from` executes a block list without fuel: every jump the front end emits for these expressions goes to a
   block appended later, so the target is searched in the rest of the list.  Definitions only. *)
From Coq Require Import ZArith Bool List String.
From Verif Require Import Base.Word256 C03.LIR C03.ArithSpec C03.ArithModel C03.VSL C01.ExprCompile C01V.VExpr.
Import ListNotations.
Open Scope string_scope.
Open Scope Z_scope.
Open Scope list_scope.

(* (terminator of the current block, closed blocks, label of the open block, its instructions so far) *)
Definition stail := option (vterm * list vblock * nat * list vinstr).
Definition seg := (list vinstr * stail)%type.

Definition open_lab (c : nat) (sg : seg) : nat := match snd sg with None => c | Some (_, _, c', _) => c' end.
(* the blocks of a segment that starts in block c; the last one is open (no terminator yet) *)
Definition flat (c : nat) (sg : seg) : list vblock :=
  match sg with
  | (is0, None) => [mkB c is0 TNone]
  | (is0, Some (t, mid, c', bd)) => mkB c is0 t :: mid ++ [mkB c' bd TNone]
  end.
(* the same with the open block terminated by t *)
Definition flat_closed (c : nat) (sg : seg) (t : vterm) : list vblock :=
  match sg with
  | (is0, None) => [mkB c is0 t]
  | (is0, Some (t0, mid, c', bd)) => mkB c is0 t0 :: mid ++ [mkB c' bd t]
  end.
(* code of sg1, then code of sg2 continuing in sg1's open block *)
Definition seq (sg1 sg2 : seg) : seg :=
  match sg1, sg2 with
  | (ia, None), (ib, tb) => (ia ++ ib, tb)
  | (ia, Some (t, mid, c', bd)), (ib, None) => (ia, Some (t, mid, c', bd ++ ib))
  | (ia, Some (t, mid, c', bd)), (ib, Some (t2, mid2, c2, bd2)) => (ia, Some (t, mid ++ mkB c' (bd ++ ib) t2 :: mid2, c2, bd2))
  end.
Definition code (is : list vinstr) : seg := (is, None).

(* n: next fresh variable, L: next fresh label; -> segment, result operand, counters *)
Fixpoint vgen (e : sexpr) (n L : nat) : seg * vop * nat * nat :=
  match e with
  | XInt _ v => (code [], VLit v, n, L)
  | XBool b => (code [], VLit (b2z b), n, L)
  | XVar x _ => (code [VAssign (nm n) (VVar x)], VVar (nm n), S n, L)
  | XBin op T _ _ _ _ a b =>
      let '(sa, ra, n1, M1) := vgen a n L in
      let '(sb, rb, n2, M2) := vgen b n1 M1 in
      let '(it, r, k) := inst_tmpl (vtmpl op T) ra rb n2 in
      (seq sa (seq sb (code it)), r, (n2 + k)%nat, M2)
  | XBit op _ a b =>
      let '(sa, ra, n1, M1) := vgen a n L in
      let '(sb, rb, n2, M2) := vgen b n1 M1 in
      (seq sa (seq sb (code [V2 (nm n2) (bit_op2 op) rb ra])), VVar (nm n2), S n2, M2)
  | XCmp op t a b =>
      let '(sa, ra, n1, M1) := vgen a n L in
      let '(sb, rb, n2, M2) := vgen b n1 M1 in
      let (o, neg) := vcmp op t in
      if neg then (seq sa (seq sb (code [V2 (nm n2) o rb ra; V1 (nm (S n2)) OIszero (VVar (nm n2))])), VVar (nm (S n2)), S (S n2), M2)
      else (seq sa (seq sb (code [V2 (nm n2) o rb ra])), VVar (nm n2), S n2, M2)
  | XNot a =>
      let '(sa, ra, n1, M1) := vgen a n L in
      (seq sa (code [V1 (nm n1) OIszero ra]), VVar (nm n1), S n1, M1)
  | XNeg T _ a =>
      let '(sa, ra, n1, M1) := vgen a n L in
      (seq sa (code [V2 (nm n1) OSgt (VLit (ty_lo T)) ra; VAssert (VVar (nm n1)); V2 (nm (S n1)) OSub ra (VLit 0)]),
       VVar (nm (S n1)), S (S n1), M1)
  | XAnd a b =>
      let res := n in let ex := L in
      let '(sa, ra, n1, M1) := vgen a (S n) (S L) in
      let nx := M1 in let fl := S M1 in
      let '(sb, rb, n2, M2) := vgen b n1 (S (S M1)) in
      (seq sa ([], Some (TJnz ra nx fl,
                         mkB fl [VAssign (nm res) (VLit 0)] (TJmp ex)
                           :: flat_closed nx (seq sb (code [VAssign (nm res) rb])) (TJmp ex),
                         ex, [])),
       VVar (nm res), n2, M2)
  | XOr a b =>
      let res := n in let ex := L in
      let '(sa, ra, n1, M1) := vgen a (S n) (S L) in
      let tr := M1 in let nx := S M1 in
      let '(sb, rb, n2, M2) := vgen b n1 (S (S M1)) in
      (seq sa ([], Some (TJnz ra tr nx,
                         mkB tr [VAssign (nm res) (VLit 1)] (TJmp ex)
                           :: flat_closed nx (seq sb (code [VAssign (nm res) rb])) (TJmp ex),
                         ex, [])),
       VVar (nm res), n2, M2)
  | XIf c a b =>
      let '(sc, rc, n0, M0) := vgen c n L in
      let th := M0 in let el := S M0 in let res := n0 in
      let '(sa, ra, n1, M1) := vgen a (S n0) (S (S M0)) in
      let '(sb, rb, n2, M2) := vgen b n1 M1 in
      let ex := M2 in
      (seq sc ([], Some (TJnz rc th el,
                         flat_closed th (seq sa (code [VAssign (nm res) ra])) (TJmp ex)
                           ++ flat_closed el (seq sb (code [VAssign (nm res) rb])) (TJmp ex),
                         ex, [])),
       VVar (nm res), n2, S M2)
  end.

Definition vlower2 (e : sexpr) : vop * list vblock :=
  let '(sg, r, _, _) := vgen e 0 1 in (r, flat 0 sg).

(* ---------------- execution of block lists ---------------- *)
Inductive bres := BDone (e : env) | BRevert | BStuck.

(* control is about to enter the block labelled l, searched in bs; a block without terminator ends the run *)
Fixpoint run_from (bs : list vblock) (l : nat) (e : env) : bres :=
  match bs with
  | [] => BStuck
  | b :: t =>
      if Nat.eqb (b_lab b) l then
        match vsl e (b_body b) with
        | VOk e' =>
            match b_term b with
            | TNone => match t with [] => BDone e' | _ => BStuck end
            | TJmp l' => run_from t l' e'
            | TJnz c lt lf => match vval e' c with
                              | Some v => run_from t (if v =? 0 then lf else lt) e'
                              | None => BStuck end
            end
        | VRevert => BRevert
        | VStuck => BStuck
        end
      else run_from t l e
  end.

(* the value of an expression: run its blocks from the first one, read the result operand *)
Definition vrun_blocks (e0 : env) (p : vop * list vblock) : outcome :=
  match snd p with
  | [] => Stuck
  | b :: _ => match run_from (snd p) (b_lab b) e0 with
              | BDone e1 => match vval e1 (fst p) with Some v => Val v | None => Stuck end
              | BRevert => Revert
              | BStuck => Stuck
              end
  end.

(* the tie: the real front end's output equals vlower2 e (and vlower e) *)
Definition vtie2_ok (e : sexpr) (r : vop) (bs : list vblock) : bool :=
  let (r', bs') := vlower2 e in vop_eqb r r' && vblocks_eqb bs bs' && vtie_ok e r bs.
