(* C01 (Venom front end) — expression lowering, the LARGER fragment (extension of PropsVExprFull.v): integers, decimals,
   flags, bool; + - * // / %, unary minus, & | ^ (signed too), ~, << >>, in / not in, comparisons, and / or / not,
   if-expressions; leaves = locals and state variables.  The blocks the Venom front end creates for the expression
   (= VExprX.ylower e, checked syntactically against the real front end on every run), executed from the first block
   (VBlocks.run_from; straight-line instructions by C03/VSL.v), yield exactly the source meaning ExprX.yeval: the encoded
   value, or a revert; the operand / branch the source semantics does not evaluate is not executed. *)
From Coq Require Import ZArith Bool List String.
From Verif Require Import Base.Word256 C03.LIR C03.ArithSpec C03.VSL C01.ExprCompile C01.ExprX C01.ExprXProofs
  C01V.VExpr C01V.VExprProofs C01V.VBlocks C01V.VExprX C01V.VExprXProofs.
Import ListNotations.
Open Scope string_scope.
Open Scope Z_scope.

Theorem vexpr_x_compile_correct : forall e rho e0, ywt false e = true -> yenv_ok rho e = true -> venv rho e0 ->
  vrun_blocks e0 (ylower e) = enc_out (yeval rho e).
Proof. exact yvexpr_correct. Qed.
Print Assumptions vexpr_x_compile_correct.

(* both front ends compute the same observable on the larger fragment (legacy: ExprXProofs.ycompile_correct) *)
Theorem legacy_venom_agree_x : forall e rho e0, ywt true e = true -> ywt false e = true -> yenv_ok rho e = true -> venv rho e0 ->
  vrun_blocks e0 (ylower e) = leval (lenv_of rho) (ycompile e).
Proof.
  intros e rho e0 Wl Wv E VE. rewrite (yvexpr_correct e rho e0 Wv E VE).
  destruct (ycompile_correct e rho Wl E) as [_ C]. symmetry. exact (C [] (Forall_nil _)).
Qed.
Print Assumptions legacy_venom_agree_x.

(* ---------------- non-vacuity ---------------- *)
Definition dec_t := Build_nty 21 true true.
Definition i256 := Build_nty 32 true false.
Definition u256 := Build_nty 32 false false.
(* (v0 * 2.5) / s0 on decimals; v0 a local, s0 a state variable *)
Definition demo_d := YBin BDiv dec_t false false false false
                       (YBin BMul dec_t false false false false (YVar "v0" (TI dec_t)) (YLit (TI dec_t) 25000000000))
                       (YVar "s0" (TI dec_t)).
(* (v1 in (F.M0 | s1)) and ((v2 >> 2) << 255 < 0) *)
Definition demo_f := YAnd (YP2 (PIn false 3) (YVar "v1" (TF 3)) (YP2 (PBit BitOr (TF 3)) (YLit (TF 3) 1) (YVar "s1" (TF 3))))
                          (YP2 (PCmp CLt (TI i256))
                               (YP2 (PShl i256 u256) (YP2 (PShr i256 u256) (YVar "v2" (TI i256)) (YLit (TI u256) 2)) (YLit (TI u256) 255))
                               (YLit (TI i256) 0)).
(* s0 / v0 if v0 != 0.0 else -s0 : the division is not executed when v0 = 0 *)
Definition demo_i := YIf (YP2 (PCmp CNe (TI dec_t)) (YVar "v0" (TI dec_t)) (YLit (TI dec_t) 0))
                         (YBin BDiv dec_t false false false false (YVar "s0" (TI dec_t)) (YVar "v0" (TI dec_t)))
                         (YNeg dec_t false (YVar "s0" (TI dec_t))).
Definition rho1 : senv := [("v0", 30000000000); ("s0", 20000000000); ("v1", 4); ("s1", 4); ("v2", -1)].
Definition rho2 : senv := [("v0", 0); ("s0", 0); ("v1", 2); ("s1", 4); ("v2", -1)].
Definition rho3 : senv := [("v0", 0); ("s0", 20000000000)].
Example vexpr_x_nonvacuous :
  ywt false demo_d = true /\ ywt false demo_f = true /\ ywt false demo_i = true /\
  yenv_ok rho1 demo_d = true /\ yenv_ok rho1 demo_f = true /\ yenv_ok rho3 demo_i = true /\
  yeval rho1 demo_d = Val 37500000000 /\ vrun_blocks (lenv_of rho1) (ylower demo_d) = Val 37500000000 /\
  yeval rho2 demo_d = Revert /\ vrun_blocks (lenv_of rho2) (ylower demo_d) = Revert /\
  yeval rho1 demo_f = Val 1 /\ vrun_blocks (lenv_of rho1) (ylower demo_f) = Val 1 /\
  yeval rho2 demo_f = Val 0 /\ vrun_blocks (lenv_of rho2) (ylower demo_f) = Val 0 /\
  yeval rho3 demo_i = Val (-20000000000) /\ vrun_blocks (lenv_of rho3) (ylower demo_i) = Val (W - 20000000000).
Proof. vm_compute. repeat split. Qed.
