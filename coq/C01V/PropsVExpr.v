(* C01 (Venom front end) — expression lowering: for every well-typed STRAIGHT-LINE integer/bool expression over locals
   (literals, locals, + - * // %, & | ^, comparisons, not, unary minus; no and/or/if-expressions) the instructions the
   Venom front end emits (= VExpr.vlower e, checked syntactically against the real front end on every run) form one
   block whose execution (C03/VSL.v) yields exactly the source meaning seval (C01/ExprCompile.v): the encoded value,
   or a revert.  PARTIAL: the model VExpr.vcompile and the per-run tie also cover BoolOp (and/or) and IfExp, which
   create blocks and re-assign a result variable; for those only the syntactic tie exists (missing: a block-level
   executor for vblock lists and the induction through the builder's block bookkeeping). *)
From Coq Require Import ZArith Bool List String.
From Verif Require Import Base.Word256 C03.LIR C03.ArithSpec C03.VSL C01.ExprCompile C01V.VExpr C01V.VExprProofs.
Import ListNotations.
Open Scope string_scope.
Open Scope Z_scope.

Theorem vexpr_compile_correct_partial : forall e rho e0,
  sl e = true -> vwt e = true -> env_ok rho e = true -> venv rho e0 ->
  exists is r, vlower e = (r, [mkB 0 is TNone]) /\ vrun e0 (is, r) = enc_out (seval rho e).
Proof. exact vexpr_sl_correct. Qed.
Print Assumptions vexpr_compile_correct_partial.

(* non-vacuity:  (x + y) * 3 < -y   over int128 locals x = 5, y = -7 *)
Definition I128 : nty := Build_nty 16 true false.
Definition ex_e : sexpr :=
  XCmp CLt (SInt I128)
    (XBin BMul I128 false false false false (XBin BAdd I128 false false false false (XVar "x" (SInt I128)) (XVar "y" (SInt I128))) (XInt I128 3))
    (XNeg I128 false (XVar "y" (SInt I128))).
Definition ex_rho : senv := [("x", 5); ("y", -7)].
Example ex_hyps : sl ex_e = true /\ vwt ex_e = true /\ env_ok ex_rho ex_e = true.
Proof. vm_compute. repeat split. Qed.
Example ex_meaning : seval ex_rho ex_e = Val 1.
Proof. vm_compute. reflexivity. Qed.
Example ex_runs : let (r, bs) := vlower ex_e in
  match bs with [b] => vrun (lenv_of ex_rho) (b_body b, r) = Val 1 | _ => False end.
Proof. vm_compute. reflexivity. Qed.
(* an overflowing addition reverts in both *)
Example ex_revert : let e := XBin BAdd I128 false false false false (XVar "x" (SInt I128)) (XInt I128 (2 ^ 127 - 1)) in
  seval ex_rho e = Revert /\ let (r, bs) := vlower e in match bs with [b] => vrun (lenv_of ex_rho) (b_body b, r) = Revert | _ => False end.
Proof. vm_compute. split; reflexivity. Qed.
