(* Proofs for VStmt.v: the blocks `sgen` produces for a statement compute its meaning `sexec`, for every program P that
   contains them (placement by membership; labels pairwise distinct: checked per sample by `labels_ok`). *)
From Coq Require Import ZArith Bool List String Ascii Lia.
From Verif Require Import Base.Word256 C03.LIR C03.ArithSpec C03.WordArith C03.TypeLemmas C03.ArithModel C03.VSL
  C03.LegacyExact C03.VenomExact C01.ExprCompile C01.ExprCompileProofs C01V.VExpr C01V.VExprProofs C01V.VBlocks
  C01V.VBlocksProofs C01V.VStmt.
Import ListNotations.
Open Scope string_scope.
Open Scope Z_scope.
Open Scope list_scope.

Set Default Timeout 120.

(* ---------------- induction principle for the nested type ---------------- *)
Section Ind.
  Variables (P : sstmt -> Prop) (Q : list sstmt -> Prop).
  Hypotheses (HA : forall x e, P (SAssign x e))
             (HI : forall c a b, Q a -> Q b -> P (SIf c a b))
             (HAs : forall c, P (SAssert c))
             (HF : forall i lo k body, Q body -> P (SFor i lo k body))
             (HFB : forall i T a b bound body, Q body -> P (SForB i T a b bound body))
             (HB : P SBreak) (HC : P SContinue) (HP : P SPass)
             (HR : forall e, P (SReturn e))
             (Qnil : Q [])
             (Qcons : forall s l, P s -> Q l -> Q (s :: l)).
  Fixpoint sstmt_ind2 (s : sstmt) : P s :=
    let go := fix go (l : list sstmt) : Q l :=
      match l with [] => Qnil | s :: r => Qcons s r (sstmt_ind2 s) (go r) end in
    match s with
    | SAssign x e => HA x e
    | SIf c a b => HI c a b (go a) (go b)
    | SAssert c => HAs c
    | SFor i lo k body => HF i lo k body (go body)
    | SForB i T a b bound body => HFB i T a b bound body (go body)
    | SBreak => HB
    | SContinue => HC
    | SPass => HP
    | SReturn e => HR e
    end.
  Definition slist_ind2 : forall l, Q l :=
    fix go (l : list sstmt) : Q l :=
      match l with [] => Qnil | s :: r => Qcons s r (sstmt_ind2 s) (go r) end.
End Ind.

(* ---------------- execution lemmas ---------------- *)
Lemma cexec_app P a b t e e1 r : vsl e a = VOk e1 -> cexec P b t e1 r -> cexec P (a ++ b) t e r.
Proof.
  intros H C. inversion C; subst.
  - apply cx_rev. rewrite vsl_app, H. assumption.
  - eapply cx_ret; [rewrite vsl_app, H; eassumption | assumption].
  - eapply cx_revert. rewrite vsl_app, H. eassumption.
  - eapply cx_fall. rewrite vsl_app, H. eassumption.
  - eapply cx_jmp; [rewrite vsl_app, H; eassumption | assumption].
  - eapply cx_jnz; [rewrite vsl_app, H; eassumption | eassumption | assumption].
Qed.

Lemma cexec_app_rev P a b t e : vsl e a = VRevert -> cexec P (a ++ b) t e ORevert.
Proof. intros H. apply cx_rev. rewrite vsl_app, H. reflexivity. Qed.

Lemma find_in P : labels_ok P = true -> forall b, In b P -> find_sb P (sb_lab b) = Some b.
Proof.
  unfold labels_ok. induction P as [|x P IH]; intros H b Hin; [destruct Hin|].
  cbn [map nodup_nat] in H. apply andb_true_iff in H. destruct H as [H1 H2].
  cbn [find_sb]. destruct Hin as [->|Hin].
  - rewrite Nat.eqb_refl. reflexivity.
  - destruct (Nat.eqb_spec (sb_lab x) (sb_lab b)) as [E|E]; [|apply IH; assumption].
    exfalso. apply negb_true_iff in H1. assert (X : existsb (Nat.eqb (sb_lab x)) (map sb_lab P) = true).
    { apply existsb_exists. exists (sb_lab b). split; [apply in_map; exact Hin | rewrite E; apply Nat.eqb_refl]. }
    congruence.
Qed.

(* ---------------- placement of a segment in a program ---------------- *)
Definition placed (P : list sblock) (sg : sseg) (more : list vinstr) (t : sterm) : Prop :=
  match snd sg with
  | None => True
  | Some (t0, mid, o) =>
      (forall b, In b mid -> In b P) /\
      match o with Some (c', bd) => In (mkSB c' (bd ++ more) t) P | None => True end
  end.
(* the code at the current position: the rest of the current block and its terminator *)
Definition cur (sg : sseg) (more : list vinstr) (t : sterm) : list vinstr * sterm :=
  match snd sg with None => (fst sg ++ more, t) | Some (t0, _, _) => (fst sg, t0) end.

Lemma cur_seq s1 s2 more t : cur (sseq s1 s2) more t = cur s1 (fst (cur s2 more t)) (snd (cur s2 more t)).
Proof.
  destruct s1 as [ia [[[t1 mid] [[c' bd]|]]|]]; destruct s2 as [ib [[[t2 mid2] o2]|]]; unfold cur; cbn; try reflexivity.
  now rewrite app_assoc.
Qed.

Lemma placed_seq P s1 s2 more t : placed P (sseq s1 s2) more t ->
  placed P s1 (fst (cur s2 more t)) (snd (cur s2 more t)) /\ (is_open s1 = true -> placed P s2 more t).
Proof.
  destruct s1 as [ia [[[t1 mid] [[c' bd]|]]|]]; destruct s2 as [ib [[[t2 mid2] o2]|]]; unfold placed, cur, is_open; cbn;
    intros H; try tauto.
  - destruct H as [H1 H2]. split.
    + split; [intros b Hb; apply H1; apply in_or_app; left; exact Hb | apply H1; apply in_or_app; right; left; reflexivity].
    + intros _. split; [intros b Hb; apply H1; apply in_or_app; right; right; exact Hb | exact H2].
  - destruct H as [H1 H2]. split; [|auto]. split; [exact H1 | now rewrite app_assoc].
  - split; [exact H | discriminate].
Qed.

Lemma flat_placed P c sg t : (forall b, In b (sflat_closed c sg t) -> In b P) ->
  placed P sg [] t /\ In (mkSB c (fst (cur sg [] t)) (snd (cur sg [] t))) P.
Proof.
  destruct sg as [is0 [[[t0 mid] [[c' bd]|]]|]]; unfold placed, cur; cbn; intros H.
  - split; [split|].
    + intros b Hb. apply H. right. apply in_or_app. left. exact Hb.
    + rewrite app_nil_r. apply H. right. apply in_or_app. right. left. reflexivity.
    + apply H. left. reflexivity.
  - split; [split; [|exact I]|].
    + intros b Hb. apply H. right. exact Hb.
    + apply H. left. reflexivity.
  - split; [exact I|]. rewrite app_nil_r. apply H. left. reflexivity.
Qed.

(* ---------------- expressions inside a program ---------------- *)
Lemma embed_rest P c' bd more t : labels_ok P = true -> In (mkSB c' (bd ++ more) t) P ->
  forall mid, (forall b, In b (map cblock mid) -> In b P) -> forall l e,
  (forall e1 r, run_from (mid ++ [mkB c' bd TNone]) l e = BDone e1 -> cexec P more t e1 r -> bexec P l e r) /\
  (run_from (mid ++ [mkB c' bd TNone]) l e = BRevert -> bexec P l e ORevert).
Proof.
  intros LP HO. induction mid as [|b mid IH]; intros HM l e.
  - cbn [app run_from b_lab b_body b_term]. destruct (Nat.eqb_spec c' l) as [<-|N].
    + pose proof (find_in P LP _ HO) as F. cbn [sb_lab] in F.
      destruct (vsl e bd) as [e'| |] eqn:V.
      * split; [|discriminate]. intros e1 r E C. inversion E; subst e1.
        eapply bexec_intro; [exact F|]. cbn [sb_body sb_term]. eapply cexec_app; eassumption.
      * split; [discriminate|]. intros _. eapply bexec_intro; [exact F|]. cbn [sb_body sb_term]. now apply cexec_app_rev.
      * split; discriminate.
    + split; discriminate.
  - assert (HM' : forall x, In x (map cblock mid) -> In x P) by (intros x Hx; apply HM; right; exact Hx).
    specialize (IH HM').
    cbn [app run_from]. destruct (Nat.eqb_spec (b_lab b) l) as [E|N]; [|apply IH].
    assert (F : find_sb P l = Some (cblock b)).
    { rewrite <- E. apply (find_in P LP (cblock b)). apply HM. left. reflexivity. }
    destruct (vsl e (b_body b)) as [e'| |] eqn:V.
    + destruct (b_term b) as [|cnd lt lf|l'] eqn:T.
      * destruct mid; cbn [app]; split; discriminate.
      * destruct (vval e' cnd) as [w|] eqn:VV; [|split; discriminate].
        destruct (IH (if w =? 0 then lf else lt) e') as [I1 I2]. split.
        -- intros e1 r R C. eapply bexec_intro; [exact F|]. cbn [cblock sb_body sb_term]. rewrite T. cbn [cterm].
           eapply cx_jnz; [exact V | exact VV | eapply I1; eassumption].
        -- intros R. eapply bexec_intro; [exact F|]. cbn [cblock sb_body sb_term]. rewrite T. cbn [cterm].
           eapply cx_jnz; [exact V | exact VV | apply I2; exact R].
      * destruct (IH l' e') as [I1 I2]. split.
        -- intros e1 r R C. eapply bexec_intro; [exact F|]. cbn [cblock sb_body sb_term]. rewrite T. cbn [cterm].
           eapply cx_jmp; [exact V | eapply I1; eassumption].
        -- intros R. eapply bexec_intro; [exact F|]. cbn [cblock sb_body sb_term]. rewrite T. cbn [cterm].
           eapply cx_jmp; [exact V | apply I2; exact R].
    + split; [discriminate|]. intros _. eapply bexec_intro; [exact F|]. cbn [cblock sb_body sb_term]. apply cx_rev. exact V.
    + split; discriminate.
Qed.

Lemma expr_embed P sg c e0 more t : labels_ok P = true -> placed P (cseg sg) more t ->
  (forall e1 r, run_from (flat c sg) c e0 = BDone e1 -> cexec P more t e1 r ->
                cexec P (fst (cur (cseg sg) more t)) (snd (cur (cseg sg) more t)) e0 r) /\
  (run_from (flat c sg) c e0 = BRevert ->
   cexec P (fst (cur (cseg sg) more t)) (snd (cur (cseg sg) more t)) e0 ORevert).
Proof.
  intros LP PL. destruct sg as [is0 [[[[t0 mid] c'] bd]|]]; unfold cur, placed in *; cbn [cseg fst snd flat] in *.
  - destruct PL as [HM HO].
    cbn [run_from b_lab b_body b_term]. rewrite Nat.eqb_refl.
    destruct (vsl e0 is0) as [e'| |] eqn:V.
    + destruct t0 as [|cnd lt lf|l']; cbn [cterm].
      * destruct mid; cbn [app]; split; discriminate.
      * destruct (vval e' cnd) as [w|] eqn:VV; [|split; discriminate].
        destruct (embed_rest P c' bd more t LP HO mid HM (if w =? 0 then lf else lt) e') as [I1 I2]. split.
        -- intros e1 r R C. eapply cx_jnz; [exact V | exact VV | eapply I1; eassumption].
        -- intros R. eapply cx_jnz; [exact V | exact VV | apply I2; exact R].
      * destruct (embed_rest P c' bd more t LP HO mid HM l' e') as [I1 I2]. split.
        -- intros e1 r R C. eapply cx_jmp; [exact V | eapply I1; eassumption].
        -- intros R. eapply cx_jmp; [exact V | apply I2; exact R].
    + split; [discriminate|]. intros _. apply cx_rev. exact V.
    + split; discriminate.
  - cbn [run_from b_lab b_body b_term]. rewrite Nat.eqb_refl.
    destruct (vsl e0 is0) as [e'| |] eqn:V.
    + split; [|discriminate]. intros e1 r E C. inversion E; subst e1. eapply cexec_app; eassumption.
    + split; [discriminate|]. intros _. now apply cexec_app_rev.
    + split; discriminate.
Qed.

(* ---------------- small facts ---------------- *)
Definition tkeep (n : nat) (e0 e1 : env) : Prop := forall k, (k < n)%nat -> lookup e1 (nm k) = lookup e0 (nm k).
Lemma tkeep_refl n e : tkeep n e e. Proof. intros k _. reflexivity. Qed.
Lemma tkeep_trans n m e0 e1 e2 : (n <= m)%nat -> tkeep n e0 e1 -> tkeep m e1 e2 -> tkeep n e0 e2.
Proof. intros H A B k Hk. rewrite (B k ltac:(lia)). apply A. exact Hk. Qed.
Lemma tkeep_ext n e0 e1 : ext n e0 e1 -> tkeep n e0 e1.
Proof. intros X k Hk. apply X. apply old_nm. exact Hk. Qed.
Lemma local_not_nm x k : is_local x = true -> x <> nm k.
Proof. intros H E. subst x. cbn in H. discriminate. Qed.
Lemma tkeep_local n x w e : is_local x = true -> tkeep n e ((x, w) :: e).
Proof.
  intros H k _. cbn [lookup]. destruct (String.eqb_spec x (nm k)) as [E|E]; [|reflexivity].
  exfalso. exact (local_not_nm x k H E).
Qed.
Lemma tkeep_nm n k w e : (n <= k)%nat -> tkeep n e ((nm k, w) :: e).
Proof.
  intros H j Hj. cbn [lookup]. destruct (String.eqb_spec (nm k) (nm j)) as [E|E]; [|reflexivity].
  apply nm_inj in E. lia.
Qed.
Lemma venv_cons rho e x v : is_local x = true -> venv rho e -> venv ((x, v) :: rho) ((x, wrap v) :: e).
Proof.
  intros Lx V y w Ly H. cbn [lookup] in *. destruct (String.eqb x y).
  - inversion H; subst. reflexivity.
  - apply V; assumption.
Qed.
Lemma venv_nm rho e k w : venv rho e -> venv rho ((nm k, w) :: e).
Proof.
  intros V y v Ly H. cbn [lookup]. destruct (String.eqb_spec (nm k) y) as [E|E]; [|apply V; assumption].
  exfalso. exact (local_not_nm y k Ly (eq_sym E)).
Qed.
Lemma local_name_is x : local_name x = is_local x. Proof. reflexivity. Qed.

Definition sopen_lab (c : nat) (sg : sseg) : nat := match snd sg with Some (_, _, Some (c', _)) => c' | _ => c end.
Lemma is_open_cseg sg : is_open (cseg sg) = true.
Proof. destruct sg as [a [[[[t m] c] b]|]]; reflexivity. Qed.
Lemma sopen_cseg c sg : sopen_lab c (cseg sg) = open_lab c sg.
Proof. destruct sg as [a [[[[t m] c'] b]|]]; reflexivity. Qed.
Lemma is_open_seq s1 s2 : is_open s1 = true -> is_open (sseq s1 s2) = is_open s2.
Proof.
  destruct s1 as [ia [[[t1 mid] [[c' bd]|]]|]]; destruct s2 as [ib [[[t2 mid2] o2]|]]; unfold is_open; cbn; intros H;
    try reflexivity; discriminate.
Qed.
Lemma sopen_seq c s1 s2 : is_open s1 = true -> is_open s2 = true ->
  sopen_lab c (sseq s1 s2) = sopen_lab (sopen_lab c s1) s2.
Proof.
  destruct s1 as [ia [[[t1 mid] [[c' bd]|]]|]]; destruct s2 as [ib [[[t2 mid2] [[c2 bd2]|]]|]]; unfold is_open, sopen_lab; cbn;
    intros H H2; try reflexivity; discriminate.
Qed.
Lemma cur_scode is more t : cur (scode is) more t = (is ++ more, t). Proof. reflexivity. Qed.

(* the counters only grow (no semantic side condition) *)
Lemma vgen_mono e : forall n L se re n1 M1, vgen e n L = (se, re, n1, M1) -> (n <= n1)%nat /\ (L <= M1)%nat.
Proof.
  induction e as [T v | b | s t | op T ia ib i1 i2 a IHa b IHb | op T a IHa b IHb | op t a IHa b IHb
                 | a IHa b IHb | a IHa b IHb | a IHa | T ic a IHa | cnd IHc a IHa b IHb];
    intros n L se re n1 M1 G; cbn [vgen] in G.
  - inversion G; subst; lia.
  - inversion G; subst; lia.
  - inversion G; subst; lia.
  - destruct (vgen a n L) as [[[sa ra] na] Ma] eqn:Ea. destruct (vgen b na Ma) as [[[sb rb] nb] Mb] eqn:Eb.
    destruct (inst_tmpl (vtmpl op T) ra rb nb) as [[it r] k]. inversion G; subst.
    pose proof (IHa _ _ _ _ _ _ Ea). pose proof (IHb _ _ _ _ _ _ Eb). lia.
  - destruct (vgen a n L) as [[[sa ra] na] Ma] eqn:Ea. destruct (vgen b na Ma) as [[[sb rb] nb] Mb] eqn:Eb.
    inversion G; subst. pose proof (IHa _ _ _ _ _ _ Ea). pose proof (IHb _ _ _ _ _ _ Eb). lia.
  - destruct (vgen a n L) as [[[sa ra] na] Ma] eqn:Ea. destruct (vgen b na Ma) as [[[sb rb] nb] Mb] eqn:Eb.
    destruct (vcmp op t) as [o neg]. destruct neg; inversion G; subst;
      pose proof (IHa _ _ _ _ _ _ Ea); pose proof (IHb _ _ _ _ _ _ Eb); lia.
  - destruct (vgen a (S n) (S L)) as [[[sa ra] na] Ma] eqn:Ea. destruct (vgen b na (S (S Ma))) as [[[sb rb] nb] Mb] eqn:Eb.
    inversion G; subst. pose proof (IHa _ _ _ _ _ _ Ea). pose proof (IHb _ _ _ _ _ _ Eb). lia.
  - destruct (vgen a (S n) (S L)) as [[[sa ra] na] Ma] eqn:Ea. destruct (vgen b na (S (S Ma))) as [[[sb rb] nb] Mb] eqn:Eb.
    inversion G; subst. pose proof (IHa _ _ _ _ _ _ Ea). pose proof (IHb _ _ _ _ _ _ Eb). lia.
  - destruct (vgen a n L) as [[[sa ra] na] Ma] eqn:Ea. inversion G; subst. pose proof (IHa _ _ _ _ _ _ Ea). lia.
  - destruct (vgen a n L) as [[[sa ra] na] Ma] eqn:Ea. inversion G; subst. pose proof (IHa _ _ _ _ _ _ Ea). lia.
  - destruct (vgen cnd n L) as [[[sc rc] nc] Mc] eqn:Ec. destruct (vgen a (S nc) (S (S Mc))) as [[[sa ra] na] Ma] eqn:Ea.
    destruct (vgen b na Ma) as [[[sb rb] nb] Mb] eqn:Eb. inversion G; subst.
    pose proof (IHc _ _ _ _ _ _ Ec). pose proof (IHa _ _ _ _ _ _ Ea). pose proof (IHb _ _ _ _ _ _ Eb). lia.
Qed.

(* ---------------- unfolding equations (the local fixpoints are sgen_list / sexec_list) ---------------- *)
Lemma sgen_if c a b n L brk cnt : sgen (SIf c a b) n L brk cnt =
  let '(sc, rc, n0, M0) := vgen c n L in
  let th := M0 in let el := S M0 in
  let '(sa, n1, M1) := sgen_list a n0 (S (S M0)) brk cnt in
  let '(sb, n2, M2) := sgen_list b n1 M1 brk cnt in
  if is_open sa || is_open sb then
    let ex := M2 in
    (sseq (cseg sc) ([], Some (STJnz rc th el,
                               sflat_closed th sa (STJmp ex) ++ sflat_closed el sb (STJmp ex), Some (ex, []))),
     n2, S M2)
  else
    (sseq (cseg sc) ([], Some (STJnz rc th el, sflat_closed th sa STNone ++ sflat_closed el sb STNone, None)),
     n2, M2).
Proof. reflexivity. Qed.

Lemma sgen_for i lo rounds body n L brk cnt : sgen (SFor i lo rounds body) n L brk cnt =
  let cv := nm n in let ev := nm (S n) in let dn := nm (S (S n)) in
  let entry := L in let cond := S L in let bodyl := S (S L) in let incr := S (S (S L)) in let ex := S (S (S (S L))) in
  let '(sb, n1, M1) := sgen_list body (S (S (S n))) (S (S (S (S (S L))))) ex incr in
  (([], Some (STJmp entry,
              mkSB entry [VAssign cv (VLit lo); V2 ev OAdd (VLit (Z.of_nat rounds)) (VLit lo)] (STJmp cond)
                :: mkSB cond [V2 dn OEq (VVar ev) (VVar cv)] (STJnz (VVar dn) ex bodyl)
                :: sflat_closed bodyl (sseq (scode [VAssign i (VVar cv)]) sb) (STJmp incr)
                ++ [mkSB incr [V2 (nm n1) OAdd (VLit 1) (VVar cv); VAssign cv (VVar (nm n1))] (STJmp cond)],
              Some (ex, []))),
   S n1, M1).
Proof. reflexivity. Qed.

Lemma sexec_if wt c a b rho : sexec wt (SIf c a b) rho =
  match seval_cond wt rho c with
  | Val v => if v =? 0 then sexec_list wt b rho else sexec_list wt a rho
  | Revert => SRev
  | _ => SStuck
  end.
Proof. reflexivity. Qed.

Lemma sexec_for wt i lo rounds body rho : sexec wt (SFor i lo rounds body) rho =
  if local_name i && (Z.of_nat rounds <? W)
  then sloopf (fun iv rho => sexec_list wt body ((i, iv) :: rho)) rounds lo rho else SStuck.
Proof. reflexivity. Qed.

Lemma sgen_forb i T a b bound body n L brk cnt : sgen (SForB i T a b bound body) n L brk cnt =
  let '(sa, ra, n1, M1) := vgen a n L in
  let '(sb_, rb, n2, M2) := vgen b n1 M1 in
  let '(sbd, n3, M3) := sgen_list body (S (S (S (S (S (S (S (S n2)))))))) (S (S (S (S (S M2))))) (S (S (S (S M2)))) (S (S (S M2))) in
  (sseq (cseg sa) (sseq (cseg sb_)
     ([V2 (nm n2) OSub ra rb],
      Some (STJmp M2,
            mkSB M2 (forb_entry T ra rb bound n2) (STJmp (S M2))
              :: mkSB (S M2) [V2 (nm (S (S (S (S (S (S (S n2)))))))) OEq (VVar (nm (S (S (S (S (S (S n2)))))))) (VVar (nm (S n2)))]
                   (STJnz (VVar (nm (S (S (S (S (S (S (S n2))))))))) (S (S (S (S M2)))) (S (S M2)))
              :: sflat_closed (S (S M2)) (sseq (scode [VAssign i (VVar (nm (S n2)))]) sbd) (STJmp (S (S (S M2))))
              ++ [mkSB (S (S (S M2))) [V2 (nm n3) OAdd (VLit 1) (VVar (nm (S n2))); VAssign (nm (S n2)) (VVar (nm n3))]
                    (STJmp (S M2))],
            Some (S (S (S (S M2))), [])))),
   S n3, M3).
Proof. reflexivity. Qed.

Lemma sexec_forb wt i T a b bound body rho : sexec wt (SForB i T a b bound body) rho =
  if local_name i && sty_eqb (ty_of a) (SInt T) && sty_eqb (ty_of b) (SInt T) && int_ok T
     && (0 <=? bound) && (bound <? W) then
    match seval_chk wt rho a with
    | Val va =>
        match seval_chk wt rho b with
        | Val vb =>
            if (vb <? va) || (bound <? vb - va) then SRev
            else sloopf (fun iv rho => sexec_list wt body ((i, iv) :: rho)) (Z.to_nat (vb - va)) va rho
        | Revert => SRev
        | _ => SStuck
        end
    | Revert => SRev
    | _ => SStuck
    end
  else SStuck.
Proof. reflexivity. Qed.

Lemma sgen_mono_all :
  (forall s n L brk cnt sg n' L', sgen s n L brk cnt = (sg, n', L') -> (n <= n')%nat /\ (L <= L')%nat) /\
  (forall l n L brk cnt sg n' L', sgen_list l n L brk cnt = (sg, n', L') -> (n <= n')%nat /\ (L <= L')%nat).
Proof.
  set (PS := fun s => forall n L brk cnt sg n' L', sgen s n L brk cnt = (sg, n', L') -> (n <= n')%nat /\ (L <= L')%nat).
  set (QS := fun l => forall n L brk cnt sg n' L', sgen_list l n L brk cnt = (sg, n', L') -> (n <= n')%nat /\ (L <= L')%nat).
  assert (HQ : forall l, QS l).
  { apply (slist_ind2 PS QS); unfold PS, QS.
    - intros x e n L brk cnt sg n' L' G. cbn [sgen] in G. destruct (vgen e n L) as [[[se re] n1] M1] eqn:E.
      inversion G; subst. exact (vgen_mono _ _ _ _ _ _ _ E).
    - intros c a b IHa IHb n L brk cnt sg n' L' G. rewrite sgen_if in G.
      destruct (vgen c n L) as [[[sc rc] n0] M0] eqn:E. cbv zeta in G.
      destruct (sgen_list a n0 (S (S M0)) brk cnt) as [[sa n1] M1] eqn:Ea.
      destruct (sgen_list b n1 M1 brk cnt) as [[sb n2] M2] eqn:Eb.
      pose proof (vgen_mono _ _ _ _ _ _ _ E). pose proof (IHa _ _ _ _ _ _ _ Ea). pose proof (IHb _ _ _ _ _ _ _ Eb).
      destruct (is_open sa || is_open sb); inversion G; subst; lia.
    - intros c n L brk cnt sg n' L' G. cbn [sgen] in G. destruct (vgen c n L) as [[[sc rc] n0] M0] eqn:E.
      inversion G; subst. pose proof (vgen_mono _ _ _ _ _ _ _ E). lia.
    - intros i lo k body IH n L brk cnt sg n' L' G. rewrite sgen_for in G. cbv zeta in G.
      destruct (sgen_list body (S (S (S n))) (S (S (S (S (S L))))) (S (S (S (S L)))) (S (S (S L)))) as [[sb n1] M1] eqn:Eb.
      pose proof (IH _ _ _ _ _ _ _ Eb). inversion G; subst; lia.
    - intros i T a b bound body IH n L brk cnt sg n' L' G. rewrite sgen_forb in G.
      destruct (vgen a n L) as [[[sa ra] na] Ma] eqn:Ea. destruct (vgen b na Ma) as [[[sb_ rb] nb] Mb] eqn:Eb.
      destruct (sgen_list body (S (S (S (S (S (S (S (S nb)))))))) (S (S (S (S (S Mb))))) (S (S (S (S Mb)))) (S (S (S Mb))))
        as [[sbd n3] M3] eqn:Ed.
      pose proof (vgen_mono _ _ _ _ _ _ _ Ea). pose proof (vgen_mono _ _ _ _ _ _ _ Eb). pose proof (IH _ _ _ _ _ _ _ Ed).
      inversion G; subst; lia.
    - intros n L brk cnt sg n' L' G. inversion G; subst; lia.
    - intros n L brk cnt sg n' L' G. inversion G; subst; lia.
    - intros n L brk cnt sg n' L' G. inversion G; subst; lia.
    - intros e n L brk cnt sg n' L' G. cbn [sgen] in G. destruct (vgen e n L) as [[[se re] n1] M1] eqn:E.
      inversion G; subst. exact (vgen_mono _ _ _ _ _ _ _ E).
    - intros n L brk cnt sg n' L' G. inversion G; subst; lia.
    - intros s l IHs IHl n L brk cnt sg n' L' G. cbn [sgen_list] in G.
      destruct (sgen s n L brk cnt) as [[sg1 n1] M1] eqn:E1. pose proof (IHs _ _ _ _ _ _ _ E1).
      destruct (is_open sg1).
      + destruct (sgen_list l n1 M1 brk cnt) as [[sg2 n2] M2] eqn:E2. pose proof (IHl _ _ _ _ _ _ _ E2).
        inversion G; subst; lia.
      + inversion G; subst; lia. }
  split; [|exact HQ].
  intros s n L brk cnt sg n' L' G. pose proof (HQ [s] n L brk cnt) as X. unfold QS in X. cbn [sgen_list] in X. rewrite G in X.
  destruct (is_open sg); eapply X; reflexivity.
Qed.
Definition sgen_mono := proj1 sgen_mono_all.
Definition sgen_list_mono := proj2 sgen_mono_all.

(* ---------------- facts for loops ---------------- *)
Lemma lookup_eq s v (e : env) : lookup ((s, v) :: e) s = Some v.
Proof. cbn [lookup]. now rewrite String.eqb_refl. Qed.
Lemma lookup_ne s s' v (e : env) : s <> s' -> lookup ((s, v) :: e) s' = lookup e s'.
Proof. intros H. cbn [lookup]. destruct (String.eqb_spec s s'); [contradiction | reflexivity]. Qed.
Lemma nm_ne a b : a <> b -> nm a <> nm b.
Proof. intros H E. apply H. now apply nm_inj. Qed.
Lemma w_add_wrap a b : w_add (wrap a) (wrap b) = wrap (a + b).
Proof. exact (wrap_add a b). Qed.
Lemma W_pos : 0 < W.
Proof. pose proof (wrap_range 0). lia. Qed.
Lemma wrap_neq a b : 0 < b - a < W -> wrap a <> wrap b.
Proof.
  intros H E. destruct (wrap_k a) as [k1 H1]. destruct (wrap_k b) as [k2 H2]. rewrite H1, H2 in E.
  clear H1 H2. pose proof (wrap_range 0) as WP.
  assert (D : b - a = (k2 - k1) * W) by (rewrite Z.mul_sub_distr_r; lia).
  assert (k2 - k1 <= 0 \/ 1 <= k2 - k1) as [C|C] by lia.
  - assert ((k2 - k1) * W <= 0) by (apply Z.mul_nonpos_nonneg; lia). lia.
  - assert (1 * W <= (k2 - k1) * W) by (apply Z.mul_le_mono_nonneg_r; lia). lia.
Qed.

Lemma step_entry (e : env) n lo R :
  vsl e [VAssign (nm n) (VLit lo); V2 (nm (S n)) OAdd (VLit R) (VLit lo)] =
  VOk ((nm (S n), wrap (lo + R)) :: (nm n, wrap lo) :: e).
Proof. cbn [vsl vstep vval ev2]. rewrite w_add_wrap. reflexivity. Qed.

Lemma step_cond (e : env) kc ke kd cvv evv : lookup e (nm kc) = Some cvv -> lookup e (nm ke) = Some evv ->
  vsl e [V2 (nm kd) OEq (VVar (nm ke)) (VVar (nm kc))] = VOk ((nm kd, b2z (cvv =? evv)) :: e).
Proof. intros A B. cbn [vsl vstep vval]. rewrite A, B. reflexivity. Qed.

Lemma step_incr (e : env) n n1 x : lookup e (nm n) = Some (wrap x) ->
  vsl e [V2 (nm n1) OAdd (VLit 1) (VVar (nm n)); VAssign (nm n) (VVar (nm n1))] =
  VOk ((nm n, wrap (x + 1)) :: (nm n1, wrap (x + 1)) :: e).
Proof.
  intros A. cbn [vsl vstep vval]. rewrite A. cbn [ev2]. rewrite w_add_wrap. rewrite lookup_eq. reflexivity.
Qed.

Lemma vval_cons_old k m w (e : env) o : op_old k o -> (k <= m)%nat -> vval ((nm m, w) :: e) o = vval e o.
Proof. intros O H. apply (vval_ext k); [apply ext_cons; exact H | exact O]. Qed.

Lemma forb_entry_run (e : env) T ra rb bound n2 x y z :
  vval e ra = Some x -> vval e rb = Some y -> lookup e (nm n2) = Some z -> op_old n2 ra -> op_old n2 rb ->
  vsl e (forb_entry T ra rb bound n2) =
    if w_iszero (ev2 (if nsigned T then OSgt else OGt) x y) =? 0 then VRevert
    else if w_iszero (ev2 OGt z (wrap bound)) =? 0 then VRevert
    else VOk ((nm (S (S (S (S (S (S n2)))))), ev2 OAdd x z)
                :: (nm (S (S (S (S (S n2))))), w_iszero (ev2 OGt z (wrap bound)))
                :: (nm (S (S (S (S n2)))), ev2 OGt z (wrap bound))
                :: (nm (S (S (S n2))), w_iszero (ev2 (if nsigned T then OSgt else OGt) x y))
                :: (nm (S (S n2)), ev2 (if nsigned T then OSgt else OGt) x y)
                :: (nm (S n2), x) :: e).
Proof.
  intros Ha Hb Hz Oa Ob. unfold forb_entry.
  cbn [vsl vstep]. rewrite Ha.
  rewrite (vval_cons_old n2 _ _ _ rb Ob) by lia. rewrite (vval_cons_old n2 _ _ _ ra Oa) by lia. rewrite Ha, Hb.
  cbn [vval]. rewrite lookup_eq. cbn [ev1]. rewrite lookup_eq.
  destruct (w_iszero (ev2 (if nsigned T then OSgt else OGt) x y) =? 0); [reflexivity|].
  rewrite !lookup_ne by (apply nm_ne; lia). rewrite Hz. rewrite lookup_eq. rewrite lookup_eq.
  destruct (w_iszero (ev2 OGt z (wrap bound)) =? 0); [reflexivity|].
  rewrite !lookup_ne by (apply nm_ne; lia). rewrite Hz.
  rewrite !(vval_cons_old n2 _ _ _ ra Oa) by lia. rewrite Ha. reflexivity.
Qed.

Lemma gt_word T x y : int_ok T = true -> in_range T x -> in_range T y ->
  ev2 (if nsigned T then OSgt else OGt) (wrap x) (wrap y) = b2z (x >? y).
Proof.
  destruct T as [k s d]. unfold int_ok. cbn [nbytes ndec nsigned]. intros I X Y.
  apply andb_true_iff in I. destruct I as [I _]. apply andb_true_iff in I. destruct I as [I1 I2].
  apply Z.leb_le in I1, I2.
  pose proof (in_range_fits k s d x ltac:(lia) X) as FX. pose proof (in_range_fits k s d y ltac:(lia) Y) as FY.
  destruct s; cbn [fits256] in FX, FY; cbn [ev2].
  - unfold w_sgt. rewrite !ts_wrap by assumption. reflexivity.
  - unfold w_gt. rewrite !wrap_small by assumption. reflexivity.
Qed.

Lemma range_diff T x y : int_ok T = true -> in_range T x -> in_range T y -> x <= y -> 0 <= y - x < W.
Proof.
  destruct T as [k s d]. unfold int_ok. cbn [nbytes ndec nsigned]. intros I X Y L.
  apply andb_true_iff in I. destruct I as [I _]. apply andb_true_iff in I. destruct I as [I1 I2].
  apply Z.leb_le in I1, I2.
  pose proof (in_range_fits k s d x ltac:(lia) X) as FX. pose proof (in_range_fits k s d y ltac:(lia) Y) as FY.
  destruct s; cbn [fits256] in FX, FY; unfold sword, uword, MINS, MAXS in *.
  - assert (W = 2 * HALF) by reflexivity. lia.
  - lia.
Qed.

Section Correct.
  Variable P : list sblock.
  Hypothesis LP : labels_ok P = true.

  Definition SResG (e0 : env) (n brk cnt : nat) (res : sres) (opn : bool) (ci : list vinstr) (ct : sterm)
             (more : list vinstr) (t : sterm) : Prop :=
    match res with
    | SNorm rho' => opn = true /\
                    exists e1, venv rho' e1 /\ tkeep n e0 e1 /\ forall r, cexec P more t e1 r -> cexec P ci ct e0 r
    | SBrk rho' => exists e1, venv rho' e1 /\ tkeep n e0 e1 /\ forall r, bexec P brk e1 r -> cexec P ci ct e0 r
    | SCont rho' => exists e1, venv rho' e1 /\ tkeep n e0 e1 /\ forall r, bexec P cnt e1 r -> cexec P ci ct e0 r
    | SRet v => cexec P ci ct e0 (ORet (wrap v))
    | SRev => cexec P ci ct e0 ORevert
    | SStuck => True
    end.
  Definition SRes (e0 : env) (n brk cnt : nat) (res : sres) (sg : sseg) (more : list vinstr) (t : sterm) : Prop :=
    SResG e0 n brk cnt res (is_open sg) (fst (cur sg more t)) (snd (cur sg more t)) more t.

  Lemma SResG_bind e0 e1 n n1 brk cnt res opn ci ct ci2 ct2 more t :
    (forall r, cexec P ci2 ct2 e1 r -> cexec P ci ct e0 r) -> tkeep n e0 e1 -> (n <= n1)%nat ->
    SResG e1 n1 brk cnt res opn ci2 ct2 more t -> SResG e0 n brk cnt res opn ci ct more t.
  Proof.
    intros K T Hn R. destruct res as [rho'|rho'|rho'|v| |]; cbn [SResG] in *.
    - destruct R as [O (e2 & V & T2 & K2)]. split; [exact O|]. exists e2. split; [exact V|].
      split; [eapply tkeep_trans; eassumption | intros r C; apply K, K2, C].
    - destruct R as (e2 & V & T2 & K2). exists e2. split; [exact V|].
      split; [eapply tkeep_trans; eassumption | intros r C; apply K, K2, C].
    - destruct R as (e2 & V & T2 & K2). exists e2. split; [exact V|].
      split; [eapply tkeep_trans; eassumption | intros r C; apply K, K2, C].
    - apply K, R.
    - apply K, R.
    - exact I.
  Qed.

  (* entering a block *)
  Lemma enter_block l is t e r : In (mkSB l is t) P -> cexec P is t e r -> bexec P l e r.
  Proof. intros H C. eapply bexec_intro; [apply (find_in P LP _ H) | exact C]. Qed.

  Lemma cexec_nil_jmp l e r : bexec P l e r -> cexec P [] (STJmp l) e r.
  Proof. intros B. eapply cx_jmp; [reflexivity | exact B]. Qed.

  (* an expression followed by a continuation *)
  Lemma expr_step e rho n L c e0 se re n1 M1 more t :
    vgen e n L = (se, re, n1, M1) -> (c < L)%nat -> venv rho e0 -> placed P (cseg se) more t ->
    match seval_chk vwt rho e with
    | Val v => val_ok (ty_of e) v = true /\ (open_lab c se < M1)%nat /\
               exists e1, vval e1 re = Some (wrap v) /\ venv rho e1 /\ tkeep n e0 e1 /\
                          forall r, cexec P more t e1 r ->
                                    cexec P (fst (cur (cseg se) more t)) (snd (cur (cseg se) more t)) e0 r
    | Revert => cexec P (fst (cur (cseg se) more t)) (snd (cur (cseg se) more t)) e0 ORevert
    | _ => True
    end.
  Proof.
    intros G Hc VE PL. unfold seval_chk.
    destruct (vwt e && env_ok rho e) eqn:WE; [|exact I].
    apply andb_true_iff in WE. destruct WE as [Wt Eo].
    pose proof (vgen_correct e rho Wt Eo n L c e0 Hc VE) as GR. rewrite G in GR. unfold GRes in GR.
    destruct GR as (H1 & H2 & _ & H4 & GD & S).
    destruct (expr_embed P se c e0 more t LP PL) as [E1 E2].
    destruct (seval rho e) as [v| | |]; try exact I.
    - destruct S as (e1 & R & V & X & _). split; [exact GD|].
      split; [apply (open_lab_lt c se L M1); [lia | exact H4]|].
      exists e1. split; [exact V|]. split; [eapply venv_ext; eassumption|]. split; [apply tkeep_ext; exact X|].
      intros r C. eapply E1; eassumption.
    - apply E2. exact S.
  Qed.

  Definition SOK (s : sstmt) : Prop := forall rho n L brk cnt c e0 more t sg n' L',
    sgen s n L brk cnt = (sg, n', L') -> (c < L)%nat -> venv rho e0 -> placed P sg more t ->
    match sexec vwt s rho with SNorm _ => (sopen_lab c sg < L')%nat | _ => True end /\
    SRes e0 n brk cnt (sexec vwt s rho) sg more t.
  Definition LOK (l : list sstmt) : Prop := forall rho n L brk cnt c e0 more t sg n' L',
    sgen_list l n L brk cnt = (sg, n', L') -> (c < L)%nat -> venv rho e0 -> placed P sg more t ->
    match sexec_list vwt l rho with SNorm _ => (sopen_lab c sg < L')%nat | _ => True end /\
    SRes e0 n brk cnt (sexec_list vwt l rho) sg more t.

  Lemma ok_assign x e : SOK (SAssign x e).
  Proof.
    intros rho n L brk cnt c e0 more t sg n' L' G Hc VE PL. cbn [sgen] in G.
    destruct (vgen e n L) as [[[se re] n1] M1] eqn:E. inversion G; subst sg n' L'; clear G.
    cbn [sexec]. rewrite local_name_is. destruct (is_local x) eqn:Lx; [|split; exact I].
    destruct (placed_seq _ _ _ _ _ PL) as [PL1 _]. rewrite cur_scode in PL1. cbn [fst snd] in PL1.
    pose proof (expr_step e rho n L c e0 se re n1 M1 _ _ E Hc VE PL1) as X.
    unfold SRes. rewrite cur_seq, cur_scode. cbn [fst snd].
    destruct (seval_chk vwt rho e) as [v| | |]; cbn [SResG]; try (split; exact I).
    - destruct X as (_ & OL & e1 & V & VE1 & T1 & K). split.
      + rewrite sopen_seq by (apply is_open_cseg || reflexivity). rewrite sopen_cseg. exact OL.
      + split; [rewrite is_open_seq by apply is_open_cseg; reflexivity|].
        exists ((x, wrap v) :: e1). split; [apply venv_cons; assumption|].
        split; [eapply tkeep_trans; [apply Nat.le_refl | exact T1 | apply tkeep_local; exact Lx]|].
        intros r C. apply K. eapply cexec_app; [|exact C]. cbn [vsl vstep]. rewrite V. reflexivity.
    - split; [exact I | exact X].
  Qed.

  Lemma ok_return e : SOK (SReturn e).
  Proof.
    intros rho n L brk cnt c e0 more t sg n' L' G Hc VE PL. cbn [sgen] in G.
    destruct (vgen e n L) as [[[se re] n1] M1] eqn:E. inversion G; subst sg n' L'; clear G.
    cbn [sexec].
    destruct (placed_seq _ _ _ _ _ PL) as [PL1 _]. unfold cur at 1 2 in PL1. cbn [fst snd] in PL1.
    pose proof (expr_step e rho n L c e0 se re n1 M1 _ _ E Hc VE PL1) as X.
    unfold SRes. rewrite cur_seq. unfold cur at 2 4. cbn [fst snd].
    destruct (seval_chk vwt rho e) as [v| | |]; cbn [SResG]; try (split; exact I).
    - destruct X as (_ & OL & e1 & V & VE1 & T1 & K). split; [exact I|].
      apply K. eapply cx_ret; [reflexivity | exact V].
    - split; [exact I | exact X].
  Qed.

  Lemma ok_break : SOK SBreak.
  Proof.
    intros rho n L brk cnt c e0 more t sg n' L' G Hc VE PL. cbn [sgen] in G. inversion G; subst sg n' L'; clear G.
    cbn [sexec]. split; [exact I|]. unfold SRes, cur. cbn [fst snd SResG].
    exists e0. split; [exact VE|]. split; [apply tkeep_refl|]. intros r B. apply cexec_nil_jmp. exact B.
  Qed.

  Lemma ok_continue : SOK SContinue.
  Proof.
    intros rho n L brk cnt c e0 more t sg n' L' G Hc VE PL. cbn [sgen] in G. inversion G; subst sg n' L'; clear G.
    cbn [sexec]. split; [exact I|]. unfold SRes, cur. cbn [fst snd SResG].
    exists e0. split; [exact VE|]. split; [apply tkeep_refl|]. intros r B. apply cexec_nil_jmp. exact B.
  Qed.

  Lemma ok_pass : SOK SPass.
  Proof.
    intros rho n L brk cnt c e0 more t sg n' L' G Hc VE PL. cbn [sgen] in G. inversion G; subst sg n' L'; clear G.
    cbn [sexec]. split; [exact Hc|]. unfold SRes. rewrite cur_scode. cbn [fst snd SResG app].
    split; [reflexivity|]. exists e0. split; [exact VE|]. split; [apply tkeep_refl|]. intros r C. exact C.
  Qed.

  Lemma bool_val v : val_ok SBool v = true -> (wrap v =? 0) = (v =? 0).
  Proof.
    intros H. apply bool_word. cbn [val_ok] in H. apply orb_true_iff in H.
    destruct H as [H|H]; apply Z.eqb_eq in H; auto.
  Qed.

  Lemma ok_assert cnd : SOK (SAssert cnd).
  Proof.
    intros rho n L brk cnt c e0 more t sg n' L' G Hc VE PL. cbn [sgen] in G.
    destruct (vgen cnd n L) as [[[sc rc] n0] M0] eqn:E. inversion G; subst sg n' L'; clear G.
    cbn [sexec]. unfold seval_cond.
    destruct (sty_eqb (ty_of cnd) SBool) eqn:TB; [|split; exact I].
    destruct (placed_seq _ _ _ _ _ PL) as [PL1 PL2]. specialize (PL2 (is_open_cseg sc)).
    unfold cur at 1 2 in PL1. cbn [fst snd] in PL1.
    pose proof (expr_step cnd rho n L c e0 sc rc n0 M0 _ _ E Hc VE PL1) as X.
    unfold placed in PL2. cbn [snd] in PL2. destruct PL2 as [PM PO]. cbn [app] in PO.
    unfold SRes. rewrite cur_seq. unfold cur at 2 4. cbn [fst snd].
    destruct (seval_chk vwt rho cnd) as [v| | |]; try (split; exact I).
    - destruct X as (VO & OL & e1 & V & VE1 & T1 & K).
      assert (TY : ty_of cnd = SBool) by (destruct (ty_of cnd) as [T|]; [discriminate | reflexivity]).
      rewrite TY in VO. pose proof (bool_val v VO) as BW.
      destruct (v =? 0) eqn:Z0; cbn [SResG].
      + split; [exact I|]. apply K. eapply cx_jnz; [reflexivity | exact V|]. rewrite BW.
        eapply enter_block; [apply PM; left; reflexivity|]. eapply cx_revert. reflexivity.
      + split; [rewrite sopen_seq by (apply is_open_cseg || reflexivity); unfold sopen_lab; cbn [snd]; lia|].
        split; [rewrite is_open_seq by apply is_open_cseg; reflexivity|].
        exists e1. split; [exact VE1|]. split; [exact T1|]. intros r C. apply K.
        eapply cx_jnz; [reflexivity | exact V|]. rewrite BW. eapply enter_block; [exact PO | exact C].
    - split; [exact I | exact X].
  Qed.

  Lemma ok_nil : LOK [].
  Proof.
    intros rho n L brk cnt c e0 more t sg n' L' G Hc VE PL. cbn [sgen_list] in G. inversion G; subst sg n' L'; clear G.
    cbn [sexec_list]. split; [exact Hc|]. unfold SRes. rewrite cur_scode. cbn [fst snd SResG app].
    split; [reflexivity|]. exists e0. split; [exact VE|]. split; [apply tkeep_refl|]. intros r C. exact C.
  Qed.

  Lemma ok_cons s l : SOK s -> LOK l -> LOK (s :: l).
  Proof.
    intros Hs Hl rho n L brk cnt c e0 more t sg n' L' G Hc VE PL. cbn [sgen_list] in G. cbn [sexec_list].
    destruct (sgen s n L brk cnt) as [[sg1 n1] M1] eqn:E1.
    destruct (sgen_mono _ _ _ _ _ _ _ _ E1) as [Hn1 HL1].
    destruct (is_open sg1) eqn:O1.
    - destruct (sgen_list l n1 M1 brk cnt) as [[sg2 n2] M2] eqn:E2. inversion G; subst sg n' L'; clear G.
      destruct (placed_seq _ _ _ _ _ PL) as [PL1 PL2]. specialize (PL2 O1).
      destruct (Hs rho n L brk cnt c e0 _ _ sg1 n1 M1 E1 Hc VE PL1) as [A1 R1].
      unfold SRes in *. rewrite cur_seq.
      destruct (sexec vwt s rho) as [rho1|rho1|rho1|v| |] eqn:X1; cbn [SResG] in R1 |- *;
        try (split; [exact I | exact R1]).
      destruct R1 as [_ (e1 & V1 & T1 & K1)].
      destruct (Hl rho1 n1 M1 brk cnt (sopen_lab c sg1) e1 more t sg2 n2 M2 E2 A1 V1 PL2) as [A2 R2].
      split.
      + destruct (sexec_list vwt l rho1) eqn:X2; try exact I. cbn [SResG] in R2. destruct R2 as [O2 _].
        rewrite sopen_seq by assumption. exact A2.
      + rewrite is_open_seq by exact O1. eapply SResG_bind; [exact K1 | exact T1 | exact Hn1 | exact R2].
    - inversion G; subst sg n' L'; clear G.
      destruct (Hs rho n L brk cnt c e0 more t sg1 n1 M1 E1 Hc VE PL) as [A1 R1].
      unfold SRes in *.
      destruct (sexec vwt s rho) as [rho1|rho1|rho1|v| |] eqn:X1; cbn [SResG] in R1 |- *;
        try (split; [exact I | exact R1]).
      destruct R1 as [O _]. congruence.
  Qed.

  (* a list of statements as the arm of a branch / the body of a loop: from the entry of its first block *)
  Definition BRes (lab : nat) (e1 : env) (n brk cnt : nat) (res : sres) (opn : bool) (t' : sterm) : Prop :=
    match res with
    | SNorm rho' => opn = true /\
                    exists e2, venv rho' e2 /\ tkeep n e1 e2 /\ forall r, cexec P [] t' e2 r -> bexec P lab e1 r
    | SBrk rho' => exists e2, venv rho' e2 /\ tkeep n e1 e2 /\ forall r, bexec P brk e2 r -> bexec P lab e1 r
    | SCont rho' => exists e2, venv rho' e2 /\ tkeep n e1 e2 /\ forall r, bexec P cnt e2 r -> bexec P lab e1 r
    | SRet v => bexec P lab e1 (ORet (wrap v))
    | SRev => bexec P lab e1 ORevert
    | SStuck => True
    end.

  Lemma SRes_block lab e1 n brk cnt res sg t' :
    In (mkSB lab (fst (cur sg [] t')) (snd (cur sg [] t'))) P ->
    SRes e1 n brk cnt res sg [] t' -> BRes lab e1 n brk cnt res (is_open sg) t'.
  Proof.
    intros HB R. unfold SRes in R. destruct res as [rho'|rho'|rho'|v| |]; cbn [SResG BRes] in *.
    - destruct R as [O (e2 & V & T & K)]. split; [exact O|]. exists e2. split; [exact V|]. split; [exact T|].
      intros r C. eapply enter_block; [exact HB | apply K, C].
    - destruct R as (e2 & V & T & K). exists e2. split; [exact V|]. split; [exact T|].
      intros r C. eapply enter_block; [exact HB | apply K, C].
    - destruct R as (e2 & V & T & K). exists e2. split; [exact V|]. split; [exact T|].
      intros r C. eapply enter_block; [exact HB | apply K, C].
    - eapply enter_block; [exact HB | exact R].
    - eapply enter_block; [exact HB | exact R].
    - exact I.
  Qed.

  Lemma arm_ok l (Hl : LOK l) rho n L brk cnt lab e1 sg n' L' t' :
    sgen_list l n L brk cnt = (sg, n', L') -> (lab < L)%nat -> venv rho e1 ->
    (forall b, In b (sflat_closed lab sg t') -> In b P) ->
    BRes lab e1 n brk cnt (sexec_list vwt l rho) (is_open sg) t'.
  Proof.
    intros G Hc VE HF. destruct (flat_placed P lab sg t' HF) as [PL HB].
    destruct (Hl rho n L brk cnt lab e1 [] t' sg n' L' G Hc VE PL) as [_ R].
    apply SRes_block; assumption.
  Qed.

  (* a condition: evaluated, then the branch *)
  Lemma cond_step cnd rho n L c e0 sc rc n0 M0 th el :
    vgen cnd n L = (sc, rc, n0, M0) -> (c < L)%nat -> venv rho e0 -> placed P (cseg sc) [] (STJnz rc th el) ->
    match seval_cond vwt rho cnd with
    | Val v => exists e1, venv rho e1 /\ tkeep n e0 e1 /\
                 forall r, bexec P (if v =? 0 then el else th) e1 r ->
                           cexec P (fst (cur (cseg sc) [] (STJnz rc th el))) (snd (cur (cseg sc) [] (STJnz rc th el))) e0 r
    | Revert => cexec P (fst (cur (cseg sc) [] (STJnz rc th el))) (snd (cur (cseg sc) [] (STJnz rc th el))) e0 ORevert
    | _ => True
    end.
  Proof.
    intros E Hc VE PL. unfold seval_cond. destruct (sty_eqb (ty_of cnd) SBool) eqn:TB; [|exact I].
    pose proof (expr_step cnd rho n L c e0 sc rc n0 M0 _ _ E Hc VE PL) as X.
    destruct (seval_chk vwt rho cnd) as [v| | |]; try exact I; [|exact X].
    destruct X as (VO & OL & e1 & V & VE1 & T1 & K).
    assert (TY : ty_of cnd = SBool) by (destruct (ty_of cnd) as [T|]; [discriminate | reflexivity]).
    rewrite TY in VO. pose proof (bool_val v VO) as BW.
    exists e1. split; [exact VE1|]. split; [exact T1|]. intros r B. apply K.
    eapply cx_jnz; [reflexivity | exact V|]. rewrite BW. exact B.
  Qed.

  Lemma ok_if cnd a b : LOK a -> LOK b -> SOK (SIf cnd a b).
  Proof.
    intros Ha Hb rho n L brk cnt c e0 more t sg n' L' G Hc VE PL. rewrite sgen_if in G. rewrite sexec_if.
    destruct (vgen cnd n L) as [[[sc rc] n0] M0] eqn:E. cbv zeta in G.
    destruct (sgen_list a n0 (S (S M0)) brk cnt) as [[sa n1] M1] eqn:Ea.
    destruct (sgen_list b n1 M1 brk cnt) as [[sb n2] M2] eqn:Eb.
    destruct (vgen_mono _ _ _ _ _ _ _ E) as [Hn0 HM0].
    destruct (sgen_list_mono _ _ _ _ _ _ _ _ Ea) as [Hn1 HM1].
    destruct (sgen_list_mono _ _ _ _ _ _ _ _ Eb) as [Hn2 HM2].
    destruct (is_open sa || is_open sb) eqn:OP; inversion G; subst sg n' L'; clear G;
      destruct (placed_seq _ _ _ _ _ PL) as [PL1 PL2]; specialize (PL2 (is_open_cseg sc));
      unfold cur at 1 2 in PL1; cbn [fst snd] in PL1;
      pose proof (cond_step cnd rho n L c e0 sc rc n0 M0 M0 (S M0) E Hc VE PL1) as X;
      unfold placed in PL2; cbn [snd] in PL2; destruct PL2 as [PM PO];
      unfold SRes; rewrite cur_seq; unfold cur at 2 4; cbn [fst snd];
      (destruct (seval_cond vwt rho cnd) as [v| | |]; try (split; exact I); [|split; [exact I | exact X]]);
      destruct X as (e1 & VE1 & T1 & K).
    - (* an exit block exists *)
      cbn [app] in PO.
      assert (AK : forall e2 r, cexec P more t e2 r -> cexec P [] (STJmp M2) e2 r).
      { intros e2 r C. apply cexec_nil_jmp. eapply enter_block; [exact PO | exact C]. }
      assert (OPN : is_open (sseq (cseg sc)
                 ([], Some (STJnz rc M0 (S M0), sflat_closed M0 sa (STJmp M2) ++ sflat_closed (S M0) sb (STJmp M2), Some (M2, [])))) = true)
        by (rewrite is_open_seq by apply is_open_cseg; reflexivity).
      assert (OL : (sopen_lab c (sseq (cseg sc)
                 ([], Some (STJnz rc M0 (S M0), sflat_closed M0 sa (STJmp M2) ++ sflat_closed (S M0) sb (STJmp M2), Some (M2, [])))) < S M2)%nat)
        by (rewrite sopen_seq by (apply is_open_cseg || reflexivity); unfold sopen_lab; cbn [snd]; lia).
      destruct (v =? 0) eqn:Z0.
      + assert (HFb : forall x, In x (sflat_closed (S M0) sb (STJmp M2)) -> In x P)
          by (intros x Hx; apply PM; apply in_or_app; right; exact Hx).
        pose proof (arm_ok b Hb rho n1 M1 brk cnt (S M0) e1 sb n2 M2 (STJmp M2) Eb ltac:(lia) VE1 HFb) as B.
        destruct (sexec_list vwt b rho) as [rho'|rho'|rho'|w| |]; cbn [BRes SResG] in B |- *.
        * split; [exact OL|]. split; [exact OPN|]. destruct B as [_ (e2 & V2 & T2 & K2)].
          exists e2. split; [exact V2|]. split; [eapply tkeep_trans; [|exact T1|exact T2]; lia|].
          intros r C. apply K, K2, AK, C.
        * split; [exact I|]. destruct B as (e2 & V2 & T2 & K2).
          exists e2. split; [exact V2|]. split; [eapply tkeep_trans; [|exact T1|exact T2]; lia|].
          intros r C. apply K, K2, C.
        * split; [exact I|]. destruct B as (e2 & V2 & T2 & K2).
          exists e2. split; [exact V2|]. split; [eapply tkeep_trans; [|exact T1|exact T2]; lia|].
          intros r C. apply K, K2, C.
        * split; [exact I|]. apply K, B.
        * split; [exact I|]. apply K, B.
        * split; exact I.
      + assert (HFa : forall x, In x (sflat_closed M0 sa (STJmp M2)) -> In x P)
          by (intros x Hx; apply PM; apply in_or_app; left; exact Hx).
        pose proof (arm_ok a Ha rho n0 (S (S M0)) brk cnt M0 e1 sa n1 M1 (STJmp M2) Ea ltac:(lia) VE1 HFa) as B.
        destruct (sexec_list vwt a rho) as [rho'|rho'|rho'|w| |]; cbn [BRes SResG] in B |- *.
        * split; [exact OL|]. split; [exact OPN|]. destruct B as [_ (e2 & V2 & T2 & K2)].
          exists e2. split; [exact V2|]. split; [eapply tkeep_trans; [|exact T1|exact T2]; lia|].
          intros r C. apply K, K2, AK, C.
        * split; [exact I|]. destruct B as (e2 & V2 & T2 & K2).
          exists e2. split; [exact V2|]. split; [eapply tkeep_trans; [|exact T1|exact T2]; lia|].
          intros r C. apply K, K2, C.
        * split; [exact I|]. destruct B as (e2 & V2 & T2 & K2).
          exists e2. split; [exact V2|]. split; [eapply tkeep_trans; [|exact T1|exact T2]; lia|].
          intros r C. apply K, K2, C.
        * split; [exact I|]. apply K, B.
        * split; [exact I|]. apply K, B.
        * split; exact I.
    - (* both arms are terminated *)
      apply orb_false_iff in OP. destruct OP as [OA OB].
      destruct (v =? 0) eqn:Z0.
      + assert (HFb : forall x, In x (sflat_closed (S M0) sb STNone) -> In x P)
          by (intros x Hx; apply PM; apply in_or_app; right; exact Hx).
        pose proof (arm_ok b Hb rho n1 M1 brk cnt (S M0) e1 sb n2 M2 STNone Eb ltac:(lia) VE1 HFb) as B.
        destruct (sexec_list vwt b rho) as [rho'|rho'|rho'|w| |]; cbn [BRes SResG] in B |- *.
        * destruct B as [O _]. congruence.
        * split; [exact I|]. destruct B as (e2 & V2 & T2 & K2).
          exists e2. split; [exact V2|]. split; [eapply tkeep_trans; [|exact T1|exact T2]; lia|].
          intros r C. apply K, K2, C.
        * split; [exact I|]. destruct B as (e2 & V2 & T2 & K2).
          exists e2. split; [exact V2|]. split; [eapply tkeep_trans; [|exact T1|exact T2]; lia|].
          intros r C. apply K, K2, C.
        * split; [exact I|]. apply K, B.
        * split; [exact I|]. apply K, B.
        * split; exact I.
      + assert (HFa : forall x, In x (sflat_closed M0 sa STNone) -> In x P)
          by (intros x Hx; apply PM; apply in_or_app; left; exact Hx).
        pose proof (arm_ok a Ha rho n0 (S (S M0)) brk cnt M0 e1 sa n1 M1 STNone Ea ltac:(lia) VE1 HFa) as B.
        destruct (sexec_list vwt a rho) as [rho'|rho'|rho'|w| |]; cbn [BRes SResG] in B |- *.
        * destruct B as [O _]. congruence.
        * split; [exact I|]. destruct B as (e2 & V2 & T2 & K2).
          exists e2. split; [exact V2|]. split; [eapply tkeep_trans; [|exact T1|exact T2]; lia|].
          intros r C. apply K, K2, C.
        * split; [exact I|]. destruct B as (e2 & V2 & T2 & K2).
          exists e2. split; [exact V2|]. split; [eapply tkeep_trans; [|exact T1|exact T2]; lia|].
          intros r C. apply K, K2, C.
        * split; [exact I|]. apply K, B.
        * split; [exact I|]. apply K, B.
        * split; exact I.
  Qed.

  Definition LoopRes (n cond : nat) (more : list vinstr) (t : sterm) (e : env) (res : sres) : Prop :=
    match res with
    | SNorm rho' => exists e1, venv rho' e1 /\ tkeep n e e1 /\ forall r, cexec P more t e1 r -> bexec P cond e r
    | SRet v => bexec P cond e (ORet (wrap v))
    | SRev => bexec P cond e ORevert
    | SBrk _ | SCont _ => False
    | SStuck => True
    end.

  (* the loop proper: from the condition block, with the counter at lo + j and j + k = rounds rounds to go *)
  Lemma loop_core i body (Hb : LOK body) n kc ke kd nb Lb cond bodyl incr ex sb n1 M1 more t lo rounds :
    sgen_list body nb Lb ex incr = (sb, n1, M1) -> (bodyl < Lb)%nat ->
    (n <= kc < nb)%nat -> (n <= ke < nb)%nat -> (n <= kd < nb)%nat -> kc <> ke -> kc <> kd -> ke <> kd ->
    is_local i = true -> Z.of_nat rounds < W ->
    In (mkSB cond [V2 (nm kd) OEq (VVar (nm ke)) (VVar (nm kc))] (STJnz (VVar (nm kd)) ex bodyl)) P ->
    In (mkSB incr [V2 (nm n1) OAdd (VLit 1) (VVar (nm kc)); VAssign (nm kc) (VVar (nm n1))] (STJmp cond)) P ->
    (forall x, In x (sflat_closed bodyl (sseq (scode [VAssign i (VVar (nm kc))]) sb) (STJmp incr)) -> In x P) ->
    In (mkSB ex more t) P ->
    forall k j rho1 e, (j + k = rounds)%nat -> venv rho1 e ->
      lookup e (nm kc) = Some (wrap (lo + Z.of_nat j)) -> lookup e (nm ke) = Some (wrap (lo + Z.of_nat rounds)) ->
      LoopRes n cond more t e (sloopf (fun iv rho => sexec_list vwt body ((i, iv) :: rho)) k (lo + Z.of_nat j) rho1).
  Proof.
    intros Eb Hbl Hkc Hke Hkd Nce0 Ncd0 Ned0 Li HR Bcond Bincr HFb PO.
    destruct (sgen_list_mono _ _ _ _ _ _ _ _ Eb) as [Hn1 HM1].
    set (cv := nm kc) in *. set (ev := nm ke) in *. set (dn := nm kd) in *.
    set (F := fun (iv : Z) (rho : senv) => sexec_list vwt body ((i, iv) :: rho)).
    destruct (flat_placed P bodyl _ (STJmp incr) HFb) as [PLb HBb].
    destruct (placed_seq _ _ _ _ _ PLb) as [_ PLs]. specialize (PLs eq_refl).
    rewrite cur_seq, cur_scode in HBb. cbn [fst snd] in HBb.
    set (cib := fst (cur sb [] (STJmp incr))) in *. set (ctb := snd (cur sb [] (STJmp incr))) in *.
    assert (Ncd : cv <> dn) by (apply nm_ne; lia).
    assert (Nce : cv <> ev) by (apply nm_ne; lia).
    assert (Ned : ev <> dn) by (apply nm_ne; lia).
    assert (Nic : i <> cv) by (apply local_not_nm; exact Li).
    assert (Nie : i <> ev) by (apply local_not_nm; exact Li).
    induction k as [|k IH]; intros j rho1 e Hj V1 Lc Le; unfold LoopRes.
    - cbn [sloopf]. assert (j = rounds) by lia. subst j.
      assert (SC : vsl e [V2 dn OEq (VVar ev) (VVar cv)] = VOk ((dn, 1) :: e))
        by (unfold dn, ev, cv; rewrite (step_cond e kc ke kd _ _ Lc Le), Z.eqb_refl; reflexivity).
      exists ((dn, 1) :: e).
      split; [apply venv_nm; exact V1|]. split; [apply tkeep_nm; lia|].
      intros r C. eapply enter_block; [exact Bcond|].
      eapply cx_jnz; [exact SC | apply lookup_eq |].
      change (1 =? 0) with false. cbv iota. eapply enter_block; [exact PO | exact C].
    - cbn [sloopf].
      assert (NE : (wrap (lo + Z.of_nat j) =? wrap (lo + Z.of_nat rounds)) = false).
      { apply Z.eqb_neq. apply wrap_neq. lia. }
      assert (SC : vsl e [V2 dn OEq (VVar ev) (VVar cv)] = VOk ((dn, 0) :: e))
        by (unfold dn, ev, cv; rewrite (step_cond e kc ke kd _ _ Lc Le), NE; reflexivity).
      set (e' := (dn, 0) :: e).
      set (e'' := (i, wrap (lo + Z.of_nat j)) :: e').
      assert (Lc' : lookup e' cv = Some (wrap (lo + Z.of_nat j))) by (unfold e'; rewrite lookup_ne by auto; exact Lc).
      assert (V2' : venv ((i, lo + Z.of_nat j) :: rho1) e'').
      { unfold e''. apply venv_cons; [exact Li|]. unfold e'. apply venv_nm. exact V1. }
      assert (CH : forall r, cexec P cib ctb e'' r -> bexec P cond e r).
      { intros r C. eapply enter_block; [exact Bcond|].
        eapply cx_jnz; [exact SC | apply lookup_eq |].
        change (0 =? 0) with true. cbv iota. eapply enter_block; [exact HBb|].
        eapply cexec_app; [|exact C]. cbn [vsl vstep vval]. fold e'. rewrite Lc'. reflexivity. }
      destruct (Hb ((i, lo + Z.of_nat j) :: rho1) nb Lb ex incr bodyl e'' [] (STJmp incr)
                   sb n1 M1 Eb Hbl V2' PLs) as [_ R].
      unfold SRes in R. fold cib ctb in R. fold (F (lo + Z.of_nat j) rho1) in R.
      assert (NEXT : forall rho' e2, venv rho' e2 -> tkeep nb e'' e2 ->
                match sloopf F k (lo + Z.of_nat j + 1) rho' with
                | SNorm rho2 => exists e1, venv rho2 e1 /\ tkeep n e e1 /\ forall r, cexec P more t e1 r -> bexec P incr e2 r
                | SRet v => bexec P incr e2 (ORet (wrap v))
                | SRev => bexec P incr e2 ORevert
                | SBrk _ | SCont _ => False
                | SStuck => True
                end).
      { intros rho' e2 VE2 T2.
        assert (Lc2 : lookup e2 cv = Some (wrap (lo + Z.of_nat j))).
        { unfold cv. rewrite (T2 kc ltac:(lia)). fold cv. unfold e''. rewrite lookup_ne by auto. exact Lc'. }
        assert (Le2 : lookup e2 ev = Some (wrap (lo + Z.of_nat rounds))).
        { unfold ev. rewrite (T2 ke ltac:(lia)). fold ev. unfold e''. rewrite lookup_ne by auto.
          unfold e'. rewrite lookup_ne by auto. exact Le. }
        set (e3 := (cv, wrap (lo + Z.of_nat j + 1)) :: (nm n1, wrap (lo + Z.of_nat j + 1)) :: e2).
        assert (S3 : vsl e2 [V2 (nm n1) OAdd (VLit 1) (VVar cv); VAssign cv (VVar (nm n1))] = VOk e3)
          by (apply step_incr; exact Lc2).
        assert (Nn1 : ev <> nm n1) by (apply nm_ne; lia).
        assert (T3 : tkeep n e e3).
        { intros q Hq. unfold e3. rewrite !lookup_ne by (apply nm_ne; lia).
          rewrite (T2 q ltac:(lia)). unfold e''. rewrite lookup_ne by (apply local_not_nm; exact Li).
          unfold e'. rewrite lookup_ne by (apply nm_ne; lia). reflexivity. }
        replace (lo + Z.of_nat j + 1) with (lo + Z.of_nat (S j)) by lia.
        pose proof (IH (S j) rho' e3 ltac:(lia) ltac:(unfold e3; apply venv_nm, venv_nm; exact VE2)
                       ltac:(unfold e3; rewrite lookup_eq; do 2 f_equal; lia)
                       ltac:(unfold e3; rewrite !lookup_ne by auto; exact Le2)) as I3.
        unfold LoopRes in I3.
        destruct (sloopf F k (lo + Z.of_nat (S j)) rho') as [rho2|?|?|v| |]; try exact I3.
        - destruct I3 as (e1 & V1' & T1 & K1). exists e1. split; [exact V1'|].
          split; [eapply tkeep_trans; [apply Nat.le_refl | exact T3 | exact T1]|].
          intros r C. eapply enter_block; [exact Bincr|]. eapply cx_jmp; [exact S3 | apply K1, C].
        - eapply enter_block; [exact Bincr|]. eapply cx_jmp; [exact S3 | exact I3].
        - eapply enter_block; [exact Bincr|]. eapply cx_jmp; [exact S3 | exact I3]. }
      destruct (F (lo + Z.of_nat j) rho1) as [rho'|rho'|rho'|v| |]; cbn [SResG] in R.
      + destruct R as [_ (e2 & VE2 & T2 & K2)]. pose proof (NEXT rho' e2 VE2 T2) as N.
        destruct (sloopf F k (lo + Z.of_nat j + 1) rho') as [rho2|?|?|w| |]; try exact N.
        * destruct N as (e1 & V1' & T1 & K1). exists e1. split; [exact V1'|]. split; [exact T1|].
          intros r C. apply CH, K2, cexec_nil_jmp, K1, C.
        * apply CH, K2, cexec_nil_jmp, N.
        * apply CH, K2, cexec_nil_jmp, N.
      + destruct R as (e2 & VE2 & T2 & K2). exists e2. split; [exact VE2|].
        split.
        { intros q Hq. rewrite (T2 q ltac:(lia)). unfold e''. rewrite lookup_ne by (apply local_not_nm; exact Li).
          unfold e'. rewrite lookup_ne by (apply nm_ne; lia). reflexivity. }
        intros r C. apply CH, K2. eapply enter_block; [exact PO | exact C].
      + destruct R as (e2 & VE2 & T2 & K2). pose proof (NEXT rho' e2 VE2 T2) as N.
        destruct (sloopf F k (lo + Z.of_nat j + 1) rho') as [rho2|?|?|w| |]; try exact N.
        * destruct N as (e1 & V1' & T1 & K1). exists e1. split; [exact V1'|]. split; [exact T1|].
          intros r C. apply CH, K2, K1, C.
        * apply CH, K2, N.
        * apply CH, K2, N.
      + apply CH, R.
      + apply CH, R.
      + exact I.
  Qed.

  Lemma ok_for i lo rounds body : LOK body -> SOK (SFor i lo rounds body).
  Proof.
    intros Hb rho n L brk cnt c e0 more t sg n' L' G Hc VE PL. rewrite sgen_for in G. rewrite sexec_for. cbv zeta in G.
    destruct (sgen_list body (S (S (S n))) (S (S (S (S (S L))))) (S (S (S (S L)))) (S (S (S L)))) as [[sb n1] M1] eqn:Eb.
    destruct (sgen_list_mono _ _ _ _ _ _ _ _ Eb) as [Hn1 HM1].
    inversion G; subst sg n' L'; clear G.
    destruct (local_name i && (Z.of_nat rounds <? W)) eqn:CK; [|split; exact I].
    apply andb_true_iff in CK. destruct CK as [Li HR]. rewrite local_name_is in Li. apply Z.ltb_lt in HR.
    unfold placed in PL. cbn [snd] in PL. destruct PL as [PM PO]. cbn [app] in PO.
    set (cv := nm n) in *. set (ev := nm (S n)) in *.
    assert (Bentry : In (mkSB L [VAssign cv (VLit lo); V2 ev OAdd (VLit (Z.of_nat rounds)) (VLit lo)] (STJmp (S L))) P)
      by (apply PM; left; reflexivity).
    assert (Nce : cv <> ev) by (apply nm_ne; lia).
    pose proof (loop_core i body Hb n n (S n) (S (S n)) (S (S (S n))) (S (S (S (S (S L))))) (S L) (S (S L)) (S (S (S L)))
                  (S (S (S (S L)))) sb n1 M1 more t lo rounds Eb ltac:(lia) ltac:(lia) ltac:(lia) ltac:(lia)
                  ltac:(lia) ltac:(lia) ltac:(lia) Li HR
                  ltac:(apply PM; right; left; reflexivity)
                  ltac:(apply PM; right; right; apply in_or_app; right; left; reflexivity)
                  ltac:(intros x Hx; apply PM; right; right; apply in_or_app; left; exact Hx)
                  PO) as LOOP.
    set (ea := (ev, wrap (lo + Z.of_nat rounds)) :: (cv, wrap lo) :: e0).
    assert (SE : vsl e0 [VAssign cv (VLit lo); V2 ev OAdd (VLit (Z.of_nat rounds)) (VLit lo)] = VOk ea) by apply step_entry.
    pose proof (LOOP rounds O rho ea ltac:(lia) ltac:(unfold ea; apply venv_nm, venv_nm; exact VE)
                     ltac:(unfold ea; rewrite lookup_ne by auto; rewrite Z.add_0_r; apply lookup_eq)
                     ltac:(unfold ea; apply lookup_eq)) as LR.
    rewrite Z.add_0_r in LR. unfold LoopRes in LR.
    assert (TA : tkeep n e0 ea) by (intros q Hq; unfold ea; rewrite !lookup_ne by (apply nm_ne; lia); reflexivity).
    assert (EN : forall r, bexec P (S L) ea r -> cexec P [] (STJmp L) e0 r).
    { intros r B. apply cexec_nil_jmp. eapply enter_block; [exact Bentry|]. eapply cx_jmp; [exact SE | exact B]. }
    unfold SRes, cur. cbn [fst snd is_open].
    destruct (sloopf (fun iv rho0 => sexec_list vwt body ((i, iv) :: rho0)) rounds lo rho) as [rho'|?|?|v| |];
      cbn [SResG]; try contradiction.
    - destruct LR as (e1 & V1 & T1 & K1). split; [unfold sopen_lab; cbn [snd]; lia|].
      split; [reflexivity|]. exists e1. split; [exact V1|].
      split; [eapply tkeep_trans; [apply Nat.le_refl | exact TA | exact T1]|]. intros r C. apply EN, K1, C.
    - split; [exact I|]. apply EN, LR.
    - split; [exact I|]. apply EN, LR.
    - split; exact I.
  Qed.

  Lemma expr_step2 e rho n L c e0 se re n1 M1 more t :
    vgen e n L = (se, re, n1, M1) -> (c < L)%nat -> venv rho e0 -> placed P (cseg se) more t ->
    match seval_chk vwt rho e with
    | Val v => val_ok (ty_of e) v = true /\ (open_lab c se < M1)%nat /\
               exists e1, vval e1 re = Some (wrap v) /\ venv rho e1 /\ ext n e0 e1 /\ op_old n1 re /\
                          forall r, cexec P more t e1 r ->
                                    cexec P (fst (cur (cseg se) more t)) (snd (cur (cseg se) more t)) e0 r
    | Revert => cexec P (fst (cur (cseg se) more t)) (snd (cur (cseg se) more t)) e0 ORevert
    | _ => True
    end.
  Proof.
    intros G Hc VE PL. unfold seval_chk.
    destruct (vwt e && env_ok rho e) eqn:WE; [|exact I].
    apply andb_true_iff in WE. destruct WE as [Wt Eo].
    pose proof (vgen_correct e rho Wt Eo n L c e0 Hc VE) as GR. rewrite G in GR. unfold GRes in GR.
    destruct GR as (H1 & H2 & _ & H4 & GD & S).
    destruct (expr_embed P se c e0 more t LP PL) as [E1 E2].
    destruct (seval rho e) as [v| | |]; try exact I.
    - destruct S as (e1 & R & V & X & O). split; [exact GD|].
      split; [apply (open_lab_lt c se L M1); [lia | exact H4]|].
      exists e1. split; [exact V|]. split; [eapply venv_ext; eassumption|]. split; [exact X|]. split; [exact O|].
      intros r C. eapply E1; eassumption.
    - apply E2. exact S.
  Qed.

  Lemma ok_forb i T a b bound body : LOK body -> SOK (SForB i T a b bound body).
  Proof.
    intros Hb rho n L brk cnt c e0 more t sg n' L' G Hc VE PL. rewrite sgen_forb in G. rewrite sexec_forb.
    destruct (vgen a n L) as [[[sa ra] n1] M1] eqn:Ea. destruct (vgen b n1 M1) as [[[sb_ rb] n2] M2] eqn:Eb.
    destruct (sgen_list body (S (S (S (S (S (S (S (S n2)))))))) (S (S (S (S (S M2))))) (S (S (S (S M2)))) (S (S (S M2))))
      as [[sbd n3] M3] eqn:Ed.
    destruct (vgen_mono _ _ _ _ _ _ _ Ea) as [Hn1 HM1]. destruct (vgen_mono _ _ _ _ _ _ _ Eb) as [Hn2 HM2].
    destruct (sgen_list_mono _ _ _ _ _ _ _ _ Ed) as [Hn3 HM3].
    match type of G with (sseq _ (sseq _ ?s3), _, _) = _ => set (S3 := s3) in * end.
    inversion G; subst sg n' L'; clear G.
    destruct (local_name i && sty_eqb (ty_of a) (SInt T) && sty_eqb (ty_of b) (SInt T) && int_ok T
              && (0 <=? bound) && (bound <? W)) eqn:CK; [|split; exact I].
    apply andb_true_iff in CK. destruct CK as [CK BW]. apply andb_true_iff in CK. destruct CK as [CK B0].
    apply andb_true_iff in CK. destruct CK as [CK IT]. apply andb_true_iff in CK. destruct CK as [CK TB].
    apply andb_true_iff in CK. destruct CK as [Li TA]. rewrite local_name_is in Li.
    apply Z.ltb_lt in BW. apply Z.leb_le in B0.
    assert (TyA : ty_of a = SInt T) by (apply sty_eqb_eq; exact TA).
    assert (TyB : ty_of b = SInt T) by (apply sty_eqb_eq; exact TB).
    assert (C3 : cur S3 more t = ([V2 (nm n2) OSub ra rb], STJmp M2)) by reflexivity.
    destruct (placed_seq _ _ _ _ _ PL) as [PLa PL2]. specialize (PL2 (is_open_cseg sa)).
    destruct (placed_seq _ _ _ _ _ PL2) as [PLb PL3]. specialize (PL3 (is_open_cseg sb_)).
    rewrite C3 in PLb. cbn [fst snd] in PLb.
    unfold placed in PL3. unfold S3 in PL3. cbn [snd] in PL3. destruct PL3 as [PM PO]. cbn [app] in PO.
    unfold SRes. rewrite cur_seq.
    pose proof (expr_step2 a rho n L c e0 sa ra n1 M1 _ _ Ea Hc VE PLa) as XA.
    destruct (seval_chk vwt rho a) as [va| | |]; try (split; exact I); [|split; [exact I | exact XA]].
    destruct XA as (VOa & OLa & e1 & Va & VE1 & Xa & Oa & Ka).
    pose proof (expr_step2 b rho n1 M1 (open_lab c sa) e1 sb_ rb n2 M2 _ _ Eb OLa VE1 PLb) as XB.
    assert (KA : forall r, cexec P (fst (cur (cseg sb_) [V2 (nm n2) OSub ra rb] (STJmp M2)))
                                 (snd (cur (cseg sb_) [V2 (nm n2) OSub ra rb] (STJmp M2))) e1 r ->
                           cexec P (fst (cur (cseg sa) (fst (cur (sseq (cseg sb_) S3) more t)) (snd (cur (sseq (cseg sb_) S3) more t))))
                                   (snd (cur (cseg sa) (fst (cur (sseq (cseg sb_) S3) more t)) (snd (cur (sseq (cseg sb_) S3) more t)))) e0 r).
    { intros r C. apply Ka. rewrite cur_seq, C3. cbn [fst snd]. exact C. }
    destruct (seval_chk vwt rho b) as [vb| | |]; try (split; exact I); [|split; [exact I | apply KA; exact XB]].
    destruct XB as (VOb & OLb & e2 & Vb & VE2 & Xb & Ob & Kb).
    rewrite TyA in VOa. rewrite TyB in VOb. cbn [val_ok] in VOa, VOb.
    apply in_rangeb_iff in VOa. apply in_rangeb_iff in VOb.
    assert (Va2 : vval e2 ra = Some (wrap va)) by (rewrite (vval_ext n1 e1 e2 ra Xb Oa); exact Va).
    assert (Oa2 : op_old n2 ra) by (eapply op_old_mono; [|exact Oa]; lia).
    (* rounds *)
    set (e3 := (nm n2, wrap (vb - va)) :: e2).
    assert (S3' : vsl e2 [V2 (nm n2) OSub ra rb] = VOk e3).
    { cbn [vsl vstep]. rewrite Va2, Vb. cbn [ev2]. unfold w_sub. fold (wrap (wrap vb - wrap va)). rewrite wrap_sub. reflexivity. }
    assert (Va3 : vval e3 ra = Some (wrap va)) by (unfold e3; rewrite (vval_cons_old n2 _ _ _ ra Oa2) by lia; exact Va2).
    assert (Vb3 : vval e3 rb = Some (wrap vb)) by (unfold e3; rewrite (vval_cons_old n2 _ _ _ rb Ob) by lia; exact Vb).
    pose proof (forb_entry_run e3 T ra rb bound n2 _ _ _ Va3 Vb3 ltac:(unfold e3; apply lookup_eq) Oa2 Ob) as ER.
    rewrite (gt_word T va vb IT VOa VOb) in ER.
    assert (Bentry : In (mkSB M2 (forb_entry T ra rb bound n2) (STJmp (S M2))) P) by (apply PM; left; reflexivity).
    assert (KB : forall r, bexec P M2 e3 r ->
              cexec P (fst (cur (cseg sa) (fst (cur (sseq (cseg sb_) S3) more t)) (snd (cur (sseq (cseg sb_) S3) more t))))
                      (snd (cur (cseg sa) (fst (cur (sseq (cseg sb_) S3) more t)) (snd (cur (sseq (cseg sb_) S3) more t)))) e0 r).
    { intros r B. apply KA, Kb. eapply cx_jmp; [exact S3' | exact B]. }
    rewrite Z.gtb_ltb in ER.
    destruct (vb <? va) eqn:LT.
    { (* start > end *)
      cbn [orb SResG]. split; [exact I|]. apply KB. eapply enter_block; [exact Bentry|]. apply cx_rev.
      rewrite ER. reflexivity. }
    apply Z.ltb_ge in LT.
    pose proof (range_diff T va vb IT VOa VOb LT) as RD.
    change (w_iszero (b2z false) =? 0) with false in ER. cbv iota in ER.
    assert (HG : ev2 OGt (wrap (vb - va)) (wrap bound) = b2z (bound <? vb - va)).
    { cbn [ev2]. unfold w_gt. rewrite !wrap_small by lia. rewrite Z.gtb_ltb. reflexivity. }
    rewrite HG in ER.
    destruct (bound <? vb - va) eqn:BD.
    { cbn [orb SResG]. split; [exact I|]. apply KB. eapply enter_block; [exact Bentry|]. apply cx_rev.
      rewrite ER. reflexivity. }
    change (w_iszero (b2z false) =? 0) with false in ER. cbv iota in ER.
    cbn [orb].
    (* the loop *)
    set (rounds := Z.to_nat (vb - va)).
    assert (RZ : Z.of_nat rounds = vb - va) by (unfold rounds; apply Z2Nat.id; lia).
    match type of ER with _ = VOk ?x => set (e4 := x) in * end.
    pose proof (loop_core i body Hb n (S n2) (S (S (S (S (S (S n2)))))) (S (S (S (S (S (S (S n2)))))))
                  (S (S (S (S (S (S (S (S n2)))))))) (S (S (S (S (S M2))))) (S M2) (S (S M2)) (S (S (S M2)))
                  (S (S (S (S M2)))) sbd n3 M3 more t va rounds Ed ltac:(lia) ltac:(lia) ltac:(lia) ltac:(lia)
                  ltac:(lia) ltac:(lia) ltac:(lia) Li ltac:(lia)
                  ltac:(apply PM; right; left; reflexivity)
                  ltac:(apply PM; right; right; apply in_or_app; right; left; reflexivity)
                  ltac:(intros x Hx; apply PM; right; right; apply in_or_app; left; exact Hx)
                  PO) as LOOP.
    assert (VE4 : venv rho e4) by (unfold e4, e3; repeat apply venv_nm; exact VE2).
    assert (Lc4 : lookup e4 (nm (S n2)) = Some (wrap (va + Z.of_nat 0))).
    { unfold e4. rewrite !lookup_ne by (apply nm_ne; lia). rewrite lookup_eq. rewrite Z.add_0_r. reflexivity. }
    assert (Le4 : lookup e4 (nm (S (S (S (S (S (S n2))))))) = Some (wrap (va + Z.of_nat rounds))).
    { unfold e4. rewrite lookup_eq. cbn [ev2]. rewrite w_add_wrap. rewrite RZ. reflexivity. }
    pose proof (LOOP rounds O rho e4 ltac:(lia) VE4 Lc4 Le4) as LR. rewrite Z.add_0_r in LR. unfold LoopRes in LR.
    assert (T4 : tkeep n e0 e4).
    { intros q Hq. unfold e4, e3. rewrite !lookup_ne by (apply nm_ne; lia).
      rewrite (Xb (nm q) (old_nm n1 q ltac:(lia))). apply (Xa (nm q)). apply old_nm. exact Hq. }
    assert (EN : forall r, bexec P (S M2) e4 r -> bexec P M2 e3 r).
    { intros r B. eapply enter_block; [exact Bentry|]. eapply cx_jmp; [exact ER | exact B]. }
    assert (OPN : is_open (sseq (cseg sa) (sseq (cseg sb_) S3)) = true).
    { rewrite is_open_seq by apply is_open_cseg. rewrite is_open_seq by apply is_open_cseg. reflexivity. }
    destruct (sloopf (fun iv rho0 => sexec_list vwt body ((i, iv) :: rho0)) rounds va rho) as [rho'|?|?|v| |];
      cbn [SResG]; try contradiction.
    - destruct LR as (e5 & V5 & T5 & K5). split.
      + rewrite sopen_seq by (apply is_open_cseg || (rewrite is_open_seq by apply is_open_cseg; reflexivity)).
        rewrite sopen_seq by (apply is_open_cseg || reflexivity). unfold sopen_lab, S3. cbn [snd]. lia.
      + split; [exact OPN|]. exists e5. split; [exact V5|].
        split; [eapply tkeep_trans; [apply Nat.le_refl | exact T4 | exact T5]|]. intros r C. apply KB, EN, K5, C.
    - split; [exact I|]. apply KB, EN, LR.
    - split; [exact I|]. apply KB, EN, LR.
    - split; exact I.
  Qed.

  Theorem sgen_ok : (forall s, SOK s) /\ (forall l, LOK l).
  Proof.
    assert (HL : forall l, LOK l).
    { apply (slist_ind2 SOK LOK).
      - exact ok_assign. - exact ok_if. - exact ok_assert. - exact ok_for. - exact ok_forb.
      - exact ok_break. - exact ok_continue. - exact ok_pass. - exact ok_return.
      - exact ok_nil. - exact ok_cons. }
    split; [|exact HL].
    apply (sstmt_ind2 SOK LOK).
    - exact ok_assign. - exact ok_if. - exact ok_assert. - exact ok_for. - exact ok_forb.
    - exact ok_break. - exact ok_continue. - exact ok_pass. - exact ok_return.
    - exact ok_nil. - exact ok_cons.
  Qed.
End Correct.
