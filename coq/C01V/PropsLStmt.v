(* C01, statements, LEGACY code generator: summary, and the bridge to the Venom front end.
   lstmt_compile_correct : for a function body of the fragment of VStmt.v whose static side conditions `lok_list` hold
                           (checked per sample together with the syntactic tie), the legacy IR model `llower body`,
                           executed by `lsexec` from the memory holding the locals' words, returns / reverts / falls
                           through exactly as the source meaning `sexec_list` (checker wtb = legacy wt && Venom vwt).
   legacy_venom_agree    : both pipelines' models yield the same observable for every body and every environment:
                           the returned word, a revert, or falling off the end with the same locals.
   `sexec` with the stronger checker wtb refines `sexec` with vwt (sexec_refine): it is SStuck or the same result. *)
From Coq Require Import ZArith Bool List String Lia.
From Verif Require Import Base.Word256 C03.LIR C03.ArithSpec C03.ArithModel C03.VSL C01.ExprCompile C01V.VExpr C01V.VExprProofs
  C01V.VBlocks C01V.VStmt C01V.VStmtProofs C01V.PropsVStmt C01V.LStmt C01V.LStmtProofs.
Import ListNotations.
Open Scope string_scope.
Open Scope Z_scope.
Open Scope list_scope.

Set Default Timeout 120.

Theorem lstmt_compile_correct : forall body rho, lok_list body = true ->
  match sexec_list wtb body rho with
  | SNorm rho' => lsexec [] (lenv_of rho) (llower body) = LNorm (lenv_of rho')
  | SBrk rho' => lsexec [] (lenv_of rho) (llower body) = LBrk (lenv_of rho')
  | SCont rho' => lsexec [] (lenv_of rho) (llower body) = LCont (lenv_of rho')
  | SRet v => lsexec [] (lenv_of rho) (llower body) = LRet (wrap v)
  | SRev => lsexec [] (lenv_of rho) (llower body) = LRev
  | SStuck => True
  end.
Proof.
  intros body rho LK. pose proof (proj2 lgen_ok body rho [] 0%nat (Forall_nil _) LK) as R.
  unfold llower. rewrite lsexec_seq. unfold LRes in R. exact R.
Qed.

(* ---------------- a stronger checker only adds SStuck ---------------- *)
Section Refine.
  Variables w1 w2 : sexpr -> bool.
  Hypothesis Hw : forall e, w1 e = true -> w2 e = true.

  Definition RF (a b : sres) : Prop := a = SStuck \/ a = b.

  Lemma chk_refine rho e : seval_chk w1 rho e = Stuck \/ seval_chk w1 rho e = seval_chk w2 rho e.
  Proof.
    unfold seval_chk. destruct (w1 e) eqn:E; [|left; reflexivity]. rewrite (Hw e E). right. reflexivity.
  Qed.
  Lemma cond_refine rho e : seval_cond w1 rho e = Stuck \/ seval_cond w1 rho e = seval_cond w2 rho e.
  Proof. unfold seval_cond. destruct (sty_eqb (ty_of e) SBool); [apply chk_refine | left; reflexivity]. Qed.

  Lemma sloopf_refine f1 f2 : (forall iv rho, RF (f1 iv rho) (f2 iv rho)) ->
    forall k iv rho, RF (sloopf f1 k iv rho) (sloopf f2 k iv rho).
  Proof.
    intros H. induction k as [|k IH]; intros iv rho; cbn [sloopf]; [right; reflexivity|].
    destruct (H iv rho) as [E|E]; rewrite E; [left; reflexivity|].
    destruct (f2 iv rho); try (right; reflexivity); apply IH.
  Qed.

  Definition PR (s : sstmt) : Prop := forall rho, RF (sexec w1 s rho) (sexec w2 s rho).
  Definition QR (l : list sstmt) : Prop := forall rho, RF (sexec_list w1 l rho) (sexec_list w2 l rho).

  Lemma sexec_refine_all : (forall s, PR s) /\ (forall l, QR l).
  Proof.
    assert (Hnil : QR []) by (intros rho; right; reflexivity).
    assert (Hcons : forall s l, PR s -> QR l -> QR (s :: l)).
    { intros s l Hs Hl rho. cbn [sexec_list]. destruct (Hs rho) as [E|E]; rewrite E; [left; reflexivity|].
      destruct (sexec w2 s rho); try (right; reflexivity). apply Hl. }
    assert (HA : forall x e, PR (SAssign x e)).
    { intros x e rho. cbn [sexec]. destruct (local_name x); [|left; reflexivity].
      destruct (chk_refine rho e) as [E|E]; rewrite E; [left | right]; reflexivity. }
    assert (HI : forall c a b, QR a -> QR b -> PR (SIf c a b)).
    { intros c a b Ha Hb rho. rewrite !sexec_if. destruct (cond_refine rho c) as [E|E]; rewrite E; [left; reflexivity|].
      destruct (seval_cond w2 rho c) as [v| | |]; try (right; reflexivity). destruct (v =? 0); [apply Hb | apply Ha]. }
    assert (HAs : forall c, PR (SAssert c)).
    { intros c rho. cbn [sexec]. destruct (cond_refine rho c) as [E|E]; rewrite E; [left | right]; reflexivity. }
    assert (HF : forall i lo k body, QR body -> PR (SFor i lo k body)).
    { intros i lo k body Hb rho. rewrite !sexec_for. destruct (local_name i && (Z.of_nat k <? W)); [|left; reflexivity].
      apply sloopf_refine. intros iv r. apply Hb. }
    assert (HFB : forall i T a b bound body, QR body -> PR (SForB i T a b bound body)).
    { intros i T a b bound body Hb rho. rewrite !sexec_forb.
      destruct (local_name i && sty_eqb (ty_of a) (SInt T) && sty_eqb (ty_of b) (SInt T) && int_ok T && (0 <=? bound) && (bound <? W));
        [|left; reflexivity].
      destruct (chk_refine rho a) as [E|E]; rewrite E; [left; reflexivity|].
      destruct (seval_chk w2 rho a) as [va| | |]; try (right; reflexivity).
      destruct (chk_refine rho b) as [E2|E2]; rewrite E2; [left; reflexivity|].
      destruct (seval_chk w2 rho b) as [vb| | |]; try (right; reflexivity).
      destruct ((vb <? va) || (bound <? vb - va)); [right; reflexivity|].
      apply sloopf_refine. intros iv r. apply Hb. }
    assert (HR : forall e, PR (SReturn e)).
    { intros e rho. cbn [sexec]. destruct (chk_refine rho e) as [E|E]; rewrite E; [left | right]; reflexivity. }
    assert (HB : PR SBreak) by (intros rho; right; reflexivity).
    assert (HC : PR SContinue) by (intros rho; right; reflexivity).
    assert (HP : PR SPass) by (intros rho; right; reflexivity).
    split.
    - apply (sstmt_ind2 PR QR); assumption.
    - apply (slist_ind2 PR QR); assumption.
  Qed.
End Refine.

Lemma wtb_vwt e : wtb e = true -> vwt e = true.
Proof. unfold wtb. intros H. apply andb_true_iff in H. tauto. Qed.

(* the Venom theorem for the common checker *)
Theorem vstmt_compile_correct_wtb : forall body rho e0,
  labels_ok (slower body) = true -> venv rho e0 ->
  match sexec_list wtb body rho with
  | SNorm rho' => exists e1, venv rho' e1 /\ bexec (slower body) 0 e0 (OFall e1)
  | SRet v => bexec (slower body) 0 e0 (ORet (wrap v))
  | SRev => bexec (slower body) 0 e0 ORevert
  | SBrk _ | SCont _ | SStuck => True
  end.
Proof.
  intros body rho e0 LP VE. pose proof (vstmt_compile_correct body rho e0 LP VE) as V.
  destruct (proj2 (sexec_refine_all wtb vwt wtb_vwt) body rho) as [E|E]; rewrite E; [exact I | exact V].
Qed.

(* ---------------- the two pipelines agree ---------------- *)
Theorem legacy_venom_agree : forall body rho e0,
  lok_list body = true -> labels_ok (slower body) = true -> venv rho e0 ->
  match sexec_list wtb body rho with
  | SRet v => lsexec [] (lenv_of rho) (llower body) = LRet (wrap v) /\ bexec (slower body) 0 e0 (ORet (wrap v))
  | SRev => lsexec [] (lenv_of rho) (llower body) = LRev /\ bexec (slower body) 0 e0 ORevert
  | SNorm rho' => lsexec [] (lenv_of rho) (llower body) = LNorm (lenv_of rho') /\
                  exists e1, venv rho' e1 /\ bexec (slower body) 0 e0 (OFall e1)
  | SBrk _ | SCont _ | SStuck => True
  end.
Proof.
  intros body rho e0 LK LP VE.
  pose proof (lstmt_compile_correct body rho LK) as L. pose proof (vstmt_compile_correct_wtb body rho e0 LP VE) as V.
  destruct (sexec_list wtb body rho); try exact I; split; assumption.
Qed.

(* with determinism of the Venom block semantics: whenever the source meaning is a return or a revert, the legacy
   result and EVERY Venom execution show the same observable *)
Corollary legacy_venom_same_observable : forall body rho e0 r,
  lok_list body = true -> labels_ok (slower body) = true -> venv rho e0 ->
  (exists v, sexec_list wtb body rho = SRet v) \/ sexec_list wtb body rho = SRev ->
  bexec (slower body) 0 e0 r ->
  match lsexec [] (lenv_of rho) (llower body) with
  | LRet w => r = ORet w
  | LRev => r = ORevert
  | _ => False
  end.
Proof.
  intros body rho e0 r LK LP VE H B. pose proof (legacy_venom_agree body rho e0 LK LP VE) as A.
  destruct H as [[v E]|E]; rewrite E in A; destruct A as [AL AV]; rewrite AL;
    eapply bexec_det; eassumption.
Qed.

(* ---------------- an instance (the body of PropsVStmt.ex_body with a local that is not a reserved name) ---------------- *)
Definition ex_body2 : list sstmt :=
  [ SFor "i" 0 4
      [ SIf (XCmp CEq (SInt U256) (XVar "i" (SInt U256)) (XInt U256 1)) [SContinue] [];
        SAssign "u" (XBin BAdd U256 false false false false (XVar "u" (SInt U256)) (XVar "i" (SInt U256)));
        SIf (XCmp CGt (SInt U256) (XVar "u" (SInt U256)) (XInt U256 100)) [SBreak] [] ];
    SAssert (XCmp CNe (SInt U256) (XVar "u" (SInt U256)) (XInt U256 7));
    SReturn (XVar "u" (SInt U256)) ].
Example ex_wtb : sexec_list wtb ex_body2 [("u", 10)] = SRet 15.
Proof. vm_compute. reflexivity. Qed.
Example ex_lok : lok_list ex_body2 = true.
Proof. vm_compute. reflexivity. Qed.
Example ex_legacy : lsexec [] (lenv_of [("u", 10)]) (llower ex_body2) = LRet 15.
Proof.
  pose proof (lstmt_compile_correct ex_body2 [("u", 10)] ex_lok) as H. rewrite ex_wtb in H. exact H.
Qed.

Print Assumptions lstmt_compile_correct.
Print Assumptions legacy_venom_agree.
Print Assumptions legacy_venom_same_observable.
