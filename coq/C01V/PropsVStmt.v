(* C01 (Venom front end), statements: summary.
   vstmt_compile_correct: for a function body over int/bool locals (assignments incl. augmented ones, if/elif/else,
   assert, literal-bounded for loops, break / continue, pass, return), the blocks of the front-end model `slower body`
   (compared syntactically with the real front end's output on every run, together with `labels_ok`) executed from
   block 0 in an environment holding the locals' words return / revert exactly as the source meaning `sexec_list`.
   `sexec` evaluates an expression only in an environment that is well typed for it (VExprProofs.vwt, env_ok) and a
   condition only if it is bool typed -- otherwise the meaning is SStuck, about which nothing is claimed (type-checked
   programs never get there: every value stored into a local is `good` for the expression's type).
   bexec is deterministic (bexec_det), so the stated outcome is the only one. *)
From Coq Require Import ZArith Bool List String Lia.
From Verif Require Import Base.Word256 C03.LIR C03.ArithSpec C03.ArithModel C03.VSL C01.ExprCompile C01V.VExpr C01V.VExprProofs
  C01V.VBlocks C01V.VStmt C01V.VStmtProofs.
Import ListNotations.
Open Scope string_scope.
Open Scope Z_scope.
Open Scope list_scope.

Set Default Timeout 120.

Theorem vstmt_compile_correct : forall body rho e0,
  labels_ok (slower body) = true -> venv rho e0 ->
  match sexec_list vwt body rho with
  | SNorm rho' => exists e1, venv rho' e1 /\ bexec (slower body) 0 e0 (OFall e1)
  | SRet v => bexec (slower body) 0 e0 (ORet (wrap v))
  | SRev => bexec (slower body) 0 e0 ORevert
  | SBrk _ | SCont _ | SStuck => True
  end.
Proof.
  intros body rho e0 LP VE. unfold slower in *.
  destruct (sgen_list body 0 1 0 0) as [[sg n'] L'] eqn:E.
  set (P := sflat_closed 0 sg STNone) in *.
  destruct (flat_placed P 0 sg STNone (fun b H => H)) as [PL HB].
  destruct (proj2 (sgen_ok P LP) body rho 0%nat 1%nat 0%nat 0%nat 0%nat e0 [] STNone sg n' L' E ltac:(lia) VE PL) as [_ R].
  pose proof (SRes_block P LP 0%nat e0 0%nat 0%nat 0%nat _ sg STNone HB R) as B.
  destruct (sexec_list vwt body rho) as [rho'|?|?|v| |]; cbn [BRes] in B; try exact I; try exact B.
  destruct B as [_ (e2 & V2 & _ & K)]. exists e2. split; [exact V2|]. apply K. eapply cx_fall. reflexivity.
Qed.

(* ---------------- the target semantics is deterministic ---------------- *)
Scheme bexec_mut := Induction for bexec Sort Prop
  with cexec_mut := Induction for cexec Sort Prop.

Lemma bexec_det P : forall l e r1, bexec P l e r1 -> forall r2, bexec P l e r2 -> r1 = r2.
Proof.
  apply (bexec_mut P (fun l e r1 _ => forall r2, bexec P l e r2 -> r1 = r2)
                     (fun is t e r1 _ => forall r2, cexec P is t e r2 -> r1 = r2)).
  - intros l b e r F C IH r2 B2. inversion B2; subst. rewrite F in H. inversion H; subst. apply IH. assumption.
  - intros is t e V r2 C2. inversion C2; subst; try reflexivity; congruence.
  - intros is v e e' w V VV r2 C2. inversion C2; subst; congruence.
  - intros is e e' V r2 C2. inversion C2; subst; try reflexivity; congruence.
  - intros is e e' V r2 C2. inversion C2; subst; congruence.
  - intros is l e e' r V B IH r2 C2. inversion C2; subst; try congruence.
    apply IH. replace e' with e'0 by congruence. assumption.
  - intros is c t f e e' w r V VV B IH r2 C2. inversion C2; subst; try congruence.
    apply IH. assert (e'0 = e') by congruence. subst e'0. assert (w0 = w) by congruence. subst w0. assumption.
Qed.

(* ---------------- an instance (non-vacuity): a loop with continue / break, an augmented assignment, a return ---------------- *)
Definition U256 : nty := Build_nty 32 false false.
Definition ex_body : list sstmt :=
  [ SFor "i" 0 4
      [ SIf (XCmp CEq (SInt U256) (XVar "i" (SInt U256)) (XInt U256 1)) [SContinue] [];
        SAssign "x" (XBin BAdd U256 false false false false (XVar "x" (SInt U256)) (XVar "i" (SInt U256)));
        SIf (XCmp CGt (SInt U256) (XVar "x" (SInt U256)) (XInt U256 100)) [SBreak] [] ];
    SAssert (XCmp CNe (SInt U256) (XVar "x" (SInt U256)) (XInt U256 7));
    SReturn (XVar "x" (SInt U256)) ].

Example ex_meaning : sexec_list vwt ex_body [("x", 10)] = SRet 15.
Proof. vm_compute. reflexivity. Qed.

Example ex_labels : labels_ok (slower ex_body) = true.
Proof. vm_compute. reflexivity. Qed.

Example ex_compiled : forall e0, venv [("x", 10)] e0 -> bexec (slower ex_body) 0 e0 (ORet 15).
Proof.
  intros e0 VE. pose proof (vstmt_compile_correct ex_body [("x", 10)] e0 ex_labels VE) as H.
  rewrite ex_meaning in H. exact H.
Qed.

Example ex_reverts : sexec_list vwt ex_body [("x", 2)] = SRev.
Proof. vm_compute. reflexivity. Qed.

Print Assumptions vstmt_compile_correct.
Print Assumptions bexec_det.
Print Assumptions ex_compiled.
