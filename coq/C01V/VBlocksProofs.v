(* Proofs for VBlocks.v: execution of segments composes, and the whole expression fragment (with and / or /
   if-expressions) computes the source meaning. *)
From Coq Require Import ZArith Bool List String Ascii Lia.
From Verif Require Import Base.Word256 C03.LIR C03.ArithSpec C03.WordArith C03.TypeLemmas C03.ArithModel C03.VSL
  C03.LegacyExact C03.VenomExact C01.ExprCompile C01.ExprCompileProofs C01V.VExpr C01V.VExprProofs C01V.VBlocks.
Import ListNotations.
Open Scope string_scope.
Open Scope Z_scope.
Open Scope list_scope.

Definition closedl (F : list vblock) : Prop := Forall (fun b => b_term b <> TNone) F.
Definition seg_closed (sg : seg) : Prop :=
  match snd sg with None => True | Some (t, mid, _, _) => t <> TNone /\ closedl mid end.
Definition seg_labs (sg : seg) : list nat :=
  match snd sg with None => [] | Some (_, mid, c', _) => map b_lab mid ++ [c'] end.
Definition labs_ok (sg : seg) (lo hi : nat) : Prop := forall l, In l (seg_labs sg) -> (lo <= l < hi)%nat.

(* ---------------- execution lemmas ---------------- *)
Lemma run_ext F c' bd ib tb X : closedl F -> forall l e,
  match run_from (F ++ [mkB c' bd TNone]) l e with
  | BDone e1 => run_from (F ++ mkB c' (bd ++ ib) tb :: X) l e = run_from (mkB c' ib tb :: X) c' e1
  | BRevert => run_from (F ++ mkB c' (bd ++ ib) tb :: X) l e = BRevert
  | BStuck => True
  end.
Proof.
  induction 1 as [|b F Hb HF IH]; intros l e; cbn [app run_from b_lab b_body b_term].
  - destruct (Nat.eqb c' l) eqn:El; [|exact I]. rewrite vsl_app, Nat.eqb_refl.
    destruct (vsl e bd) as [e'| |]; [reflexivity | reflexivity | exact I].
  - destruct (Nat.eqb (b_lab b) l); [|apply IH].
    destruct (vsl e (b_body b)) as [e'| |]; [|reflexivity | exact I].
    destruct (b_term b) as [|cnd lt lf|l'] eqn:Tb; [contradiction | | apply IH].
    destruct (vval e' cnd); [apply IH | exact I].
Qed.

Lemma run_skip BS : forall R l e, ~ In l (map b_lab BS) -> run_from (BS ++ R) l e = run_from R l e.
Proof.
  induction BS as [|b t IH]; intros R l e N; [reflexivity|]. cbn [app run_from].
  destruct (Nat.eqb_spec (b_lab b) l) as [E|E]; [exfalso; apply N; left; exact E|].
  apply IH. intros C. apply N. right. exact C.
Qed.

Lemma run_open ex e : run_from [mkB ex [] TNone] ex e = BDone e.
Proof. cbn. rewrite Nat.eqb_refl. reflexivity. Qed.

Lemma run_seq sg1 sg2 c e : seg_closed sg1 ->
  match run_from (flat c sg1) c e with
  | BDone e1 => run_from (flat c (seq sg1 sg2)) c e = run_from (flat (open_lab c sg1) sg2) (open_lab c sg1) e1
  | BRevert => run_from (flat c (seq sg1 sg2)) c e = BRevert
  | BStuck => True
  end.
Proof.
  destruct sg1 as [ia [[[[t mid] c'] bd]|]]; destruct sg2 as [ib tb]; unfold seg_closed, open_lab; cbn [snd fst]; intros C.
  - destruct C as [Ct Cm].
    assert (CF : closedl (mkB c ia t :: mid)) by (constructor; [exact Ct | exact Cm]).
    destruct tb as [[[[t2 mid2] c2] bd2]|]; cbn [seq flat].
    + pose proof (run_ext (mkB c ia t :: mid) c' bd ib t2 (mid2 ++ [mkB c2 bd2 TNone]) CF c e) as H.
      cbn [app] in H. rewrite <- app_assoc. cbn [app]. exact H.
    + pose proof (run_ext (mkB c ia t :: mid) c' bd ib TNone [] CF c e) as H. cbn [app] in H. exact H.
  - destruct tb as [[[[t2 mid2] c2] bd2]|]; cbn [seq flat run_from b_lab b_body b_term]; rewrite !Nat.eqb_refl, vsl_app;
      (destruct (vsl e ia) as [e'| |]; [reflexivity | reflexivity | exact I]).
Qed.

Lemma run_code c fin e : run_from (flat c (code fin)) c e =
  match vsl e fin with VOk e2 => BDone e2 | VRevert => BRevert | VStuck => BStuck end.
Proof. cbn. rewrite Nat.eqb_refl. destruct (vsl e fin); reflexivity. Qed.

(* an arm of a branch: the segment's blocks with the open block closed by t, followed by X *)
Lemma run_arm sg c t X e : seg_closed sg ->
  match run_from (flat c sg) c e with
  | BDone e1 => run_from (flat_closed c sg t ++ X) c e = run_from (mkB (open_lab c sg) [] t :: X) (open_lab c sg) e1
  | BRevert => run_from (flat_closed c sg t ++ X) c e = BRevert
  | BStuck => True
  end.
Proof.
  destruct sg as [ia [[[[t0 mid] c'] bd]|]]; unfold seg_closed, open_lab; cbn [snd fst]; intros C.
  - destruct C as [Ct Cm].
    assert (CF : closedl (mkB c ia t0 :: mid)) by (constructor; [exact Ct | exact Cm]).
    pose proof (run_ext (mkB c ia t0 :: mid) c' bd [] t X CF c e) as H. rewrite app_nil_r in H.
    cbn [flat flat_closed]. cbn [app] in H |- *. rewrite <- app_assoc. cbn [app]. exact H.
  - cbn [flat flat_closed app run_from b_lab b_body b_term]. rewrite Nat.eqb_refl.
    destruct (vsl e ia) as [e'| |]; [|reflexivity | exact I]. cbn [vsl]. reflexivity.
Qed.

(* ---------------- closedness and labels of composed segments ---------------- *)
Lemma closed_seq s1 s2 : seg_closed s1 -> seg_closed s2 -> seg_closed (seq s1 s2).
Proof.
  destruct s1 as [ia [[[[t mid] c'] bd]|]]; destruct s2 as [ib [[[[t2 mid2] c2] bd2]|]]; unfold seg_closed; cbn [seq snd]; auto.
  intros [A B] [C D]. split; [exact A|]. apply Forall_app. split; [exact B|]. constructor; [exact C | exact D].
Qed.
Lemma closed_code is : seg_closed (code is). Proof. exact I. Qed.
Lemma labs_seq s1 s2 : seg_labs (seq s1 s2) = seg_labs s1 ++ seg_labs s2.
Proof.
  destruct s1 as [ia [[[[t mid] c'] bd]|]]; destruct s2 as [ib [[[[t2 mid2] c2] bd2]|]]; unfold seg_labs; cbn [seq snd];
    rewrite ?app_nil_r; try reflexivity.
  rewrite map_app. cbn [map b_lab]. rewrite <- !app_assoc. reflexivity.
Qed.
Lemma labs_code is : seg_labs (code is) = []. Proof. reflexivity. Qed.
Lemma closedl_flat_closed c sg t : seg_closed sg -> t <> TNone -> closedl (flat_closed c sg t).
Proof.
  destruct sg as [ia [[[[t0 mid] c'] bd]|]]; unfold seg_closed; cbn [snd flat_closed]; intros C Ht.
  - destruct C as [A B]. constructor; [exact A|]. apply Forall_app. split; [exact B|]. constructor; [exact Ht | constructor].
  - constructor; [exact Ht | constructor].
Qed.
Lemma labs_flat_closed c sg t : map b_lab (flat_closed c sg t) = c :: seg_labs sg.
Proof.
  destruct sg as [ia [[[[t0 mid] c'] bd]|]]; unfold seg_labs; cbn [snd flat_closed map b_lab]; [|reflexivity].
  rewrite map_app. reflexivity.
Qed.
Lemma open_lab_cases c sg : open_lab c sg = c \/ In (open_lab c sg) (seg_labs sg).
Proof.
  destruct sg as [ia [[[[t0 mid] c'] bd]|]]; unfold open_lab, seg_labs; cbn [snd]; [|left; reflexivity].
  right. apply in_or_app. right. left. reflexivity.
Qed.

(* ---------------- the invariant of the induction ---------------- *)
Definition bres_of (r : vres) : bres := match r with VOk e => BDone e | VRevert => BRevert | VStuck => BStuck end.

Definition GRes (rho : senv) (e0 : env) (n L c : nat) (e : sexpr) (out : seg * vop * nat * nat) : Prop :=
  let '(sg, r, n', L') := out in
  (n <= n')%nat /\ (L <= L')%nat /\ seg_closed sg /\ labs_ok sg L L' /\ good (ty_of e) (seval rho e) /\
  match seval rho e with
  | Val v => exists e1, run_from (flat c sg) c e0 = BDone e1 /\ vval e1 r = Some (wrap v) /\ ext n e0 e1 /\ op_old n' r
  | Revert => run_from (flat c sg) c e0 = BRevert
  | _ => True
  end.

Lemma seq_code_run sg fin c e0 e1 : seg_closed sg -> run_from (flat c sg) c e0 = BDone e1 ->
  run_from (flat c (seq sg (code fin))) c e0 = bres_of (vsl e1 fin).
Proof.
  intros C H. pose proof (run_seq sg (code fin) c e0 C) as S. rewrite H in S. rewrite S, run_code. reflexivity.
Qed.
Lemma seq_rev sg sg2 c e0 : seg_closed sg -> run_from (flat c sg) c e0 = BRevert -> run_from (flat c (seq sg sg2)) c e0 = BRevert.
Proof. intros C H. pose proof (run_seq sg sg2 c e0 C) as S. rewrite H in S. exact S. Qed.
Lemma seq_done sg sg2 c e0 e1 : seg_closed sg -> run_from (flat c sg) c e0 = BDone e1 ->
  run_from (flat c (seq sg sg2)) c e0 = run_from (flat (open_lab c sg) sg2) (open_lab c sg) e1.
Proof. intros C H. pose proof (run_seq sg sg2 c e0 C) as S. rewrite H in S. exact S. Qed.

Lemma open_lab_lt c sg lo hi : (c < hi)%nat -> labs_ok sg lo hi -> (open_lab c sg < hi)%nat.
Proof. intros Hc LO. destruct (open_lab_cases c sg) as [-> | I]; [exact Hc | apply LO in I; lia]. Qed.
Lemma labs_ok_mono sg lo hi lo' hi' : (lo' <= lo)%nat -> (hi <= hi')%nat -> labs_ok sg lo hi -> labs_ok sg lo' hi'.
Proof. intros A B H l I. apply H in I. lia. Qed.

Lemma two_ops rho e0 n L c a b sa ra n1 M1 sb rb n2 M2 fin : (c < L)%nat ->
  GRes rho e0 n L c a (sa, ra, n1, M1) ->
  (forall e1, ext n e0 e1 -> GRes rho e1 n1 M1 (open_lab c sa) b (sb, rb, n2, M2)) ->
  let sg := seq sa (seq sb (code fin)) in
  (n <= n2)%nat /\ (L <= M2)%nat /\ seg_closed sg /\ labs_ok sg L M2 /\
  match seval rho a with
  | Val x => match seval rho b with
             | Val y => exists e2, run_from (flat c sg) c e0 = bres_of (vsl e2 fin) /\ vval e2 ra = Some (wrap x) /\
                                   vval e2 rb = Some (wrap y) /\ ext n e0 e2 /\ op_old n2 ra /\ op_old n2 rb
             | Revert => run_from (flat c sg) c e0 = BRevert
             | _ => True end
  | Revert => run_from (flat c sg) c e0 = BRevert
  | _ => True
  end.
Proof.
  intros Hc (N1 & LL1 & Ca & La & _ & A) HB sg.
  pose proof (HB e0 (ext_refl n e0)) as (N2 & LL2 & Cb & Lb & _ & _).
  assert (Csg : seg_closed sg) by (apply closed_seq; [exact Ca | apply closed_seq; [exact Cb | exact I]]).
  split; [lia|]. split; [lia|]. split; [exact Csg|]. split.
  { intros l I. unfold sg in I. rewrite !labs_seq, labs_code, app_nil_r in I. apply in_app_or in I as [I|I];
      [apply La in I | apply Lb in I]; lia. }
  destruct (seval rho a) as [x| | |] eqn:Sa; try exact I.
  - destruct A as (e1 & R1 & V1 & X1 & O1). destruct (HB e1 X1) as (_ & _ & _ & _ & _ & B).
    unfold sg. rewrite (seq_done sa _ c e0 e1 Ca R1).
    destruct (seval rho b) as [y| | |]; try exact I.
    + destruct B as (e2 & R2 & V2 & X2 & O2). exists e2.
      split; [apply seq_code_run; assumption|]. split; [rewrite (vval_ext n1 e1 e2 ra X2 O1); exact V1|]. split; [exact V2|].
      split; [exact (ext_trans n n1 e0 e1 e2 N1 X1 X2)|]. split; [eapply op_old_mono; eassumption | exact O2].
    + apply seq_rev; assumption.
  - unfold sg. apply seq_rev; assumption.
Qed.

(* running the final instructions of a straight-line construct *)
Lemma fin_done e0 n c sg r n' v e2 e3 fin :
  run_from (flat c sg) c e0 = bres_of (vsl e2 fin) -> vsl e2 fin = VOk e3 -> ext n e0 e2 -> ext n e2 e3 ->
  vval e3 r = Some (wrap v) -> op_old n' r ->
  exists e1, run_from (flat c sg) c e0 = BDone e1 /\ vval e1 r = Some (wrap v) /\ ext n e0 e1 /\ op_old n' r.
Proof.
  intros R S X1 X2 V O. exists e3. rewrite R, S. split; [reflexivity|]. split; [exact V|].
  split; [exact (ext_trans n n e0 e2 e3 (Nat.le_refl n) X1 X2) | exact O].
Qed.

Lemma old_S n s : old n s -> old (S n) s.
Proof. apply old_mono. lia. Qed.
Lemma ext_S n e0 e1 : ext (S n) e0 e1 -> ext n e0 e1.
Proof. intros X s O. apply X. apply old_S. exact O. Qed.
Lemma ext_le n m e0 e1 : (n <= m)%nat -> ext m e0 e1 -> ext n e0 e1.
Proof. intros H X s O. apply X. eapply old_mono; eassumption. Qed.

Lemma bool_word x : x = 0 \/ x = 1 -> (wrap x =? 0) = (x =? 0).
Proof. intros [-> | ->]; reflexivity. Qed.

Lemma run_branch c1 ra lt lf MID ex e1 w : vval e1 ra = Some w ->
  run_from (flat c1 ([], Some (TJnz ra lt lf, MID, ex, []))) c1 e1 = run_from (MID ++ [mkB ex [] TNone]) (if w =? 0 then lf else lt) e1.
Proof. intros H. cbn [flat run_from b_lab b_body b_term]. rewrite Nat.eqb_refl. cbn [vsl]. rewrite H. reflexivity. Qed.

Lemma run_const_arm l res v ex REST e :
  run_from (mkB l [VAssign res (VLit v)] (TJmp ex) :: REST) l e = run_from REST ex ((res, wrap v) :: e).
Proof. cbn [run_from b_lab b_body b_term]. rewrite Nat.eqb_refl. reflexivity. Qed.

Lemma arm_done sg c ex res rb X e1 e2 y : seg_closed sg -> run_from (flat c sg) c e1 = BDone e2 -> vval e2 rb = Some y ->
  ~ In ex (map b_lab X) ->
  run_from (flat_closed c (seq sg (code [VAssign res rb])) (TJmp ex) ++ X ++ [mkB ex [] TNone]) c e1 = BDone ((res, y) :: e2).
Proof.
  intros Cs R V NI. set (sg' := seq sg (code [VAssign res rb])).
  assert (Cs' : seg_closed sg') by (apply closed_seq; [exact Cs | exact I]).
  assert (R' : run_from (flat c sg') c e1 = BDone ((res, y) :: e2)).
  { unfold sg'. rewrite (seq_code_run sg _ c e1 e2 Cs R). cbn [vsl vstep]. rewrite V. reflexivity. }
  pose proof (run_arm sg' c (TJmp ex) (X ++ [mkB ex [] TNone]) e1 Cs') as A. rewrite R' in A. rewrite A.
  cbn [run_from b_lab b_body b_term]. rewrite Nat.eqb_refl. cbn [vsl]. rewrite (run_skip X _ ex _ NI). apply run_open.
Qed.
Lemma arm_rev sg c t is X e1 : seg_closed sg -> run_from (flat c sg) c e1 = BRevert ->
  run_from (flat_closed c (seq sg (code is)) t ++ X) c e1 = BRevert.
Proof.
  intros Cs R. assert (Cs' : seg_closed (seq sg (code is))) by (apply closed_seq; [exact Cs | exact I]).
  pose proof (run_arm (seq sg (code is)) c t X e1 Cs') as A. rewrite (seq_rev sg _ c e1 Cs R) in A. exact A.
Qed.

Local Opaque int_ok sty_ok.

Theorem vgen_correct : forall e rho, vwt e = true -> env_ok rho e = true ->
  forall n L c e0, (c < L)%nat -> venv rho e0 -> GRes rho e0 n L c e (vgen e n L).
Proof.
  induction e as [T v | b | s t | op T ia ib i1 i2 a IHa b IHb | op T a IHa b IHb | op t a IHa b IHb
                 | a IHa b IHb | a IHa b IHb | a IHa | T ic a IHa | cnd IHc a IHa b IHb];
    intros rho W E n L c e0 Hc VE; cbn [vwt env_ok] in W, E; unfold GRes; cbn [vgen ty_of seval].
  - (* XInt *)
    apply andb_true_iff in W. destruct W as [_ Hr].
    split; [lia|]. split; [lia|]. split; [exact I|]. split; [intros l []|]. split; [exact Hr|].
    exists e0. rewrite run_code. split; [reflexivity|]. split; [reflexivity|]. split; [apply ext_refl | exact I].
  - (* XBool *)
    split; [lia|]. split; [lia|]. split; [exact I|]. split; [intros l []|]. split; [destruct b; reflexivity|].
    exists e0. rewrite run_code. split; [reflexivity|]. split; [reflexivity|]. split; [apply ext_refl | exact I].
  - (* XVar *)
    apply andb_true_iff in W. destruct W as [Hl _].
    destruct (lookup rho s) as [v|] eqn:Lk; [|discriminate].
    split; [lia|]. split; [lia|]. split; [exact I|]. split; [intros l []|]. split; [exact E|].
    eexists. rewrite run_code. cbn [vsl vstep vval]. rewrite (VE s v Hl Lk). split; [reflexivity|].
    split; [cbn [lookup]; rewrite String.eqb_refl; reflexivity|]. split; [apply ext_cons; lia | apply old_nm; lia].
  - (* XBin *)
    repeat (apply andb_true_iff in W; destruct W as [W ?]).
    apply andb_true_iff in E. destruct E as [Ea Eb].
    match goal with H : sty_eqb (ty_of a) _ = true |- _ => apply sty_eqb_eq in H; rename H into Ta end.
    match goal with H : sty_eqb (ty_of b) _ = true |- _ => apply sty_eqb_eq in H; rename H into Tb end.
    assert (Ht : int_ok T = true) by assumption. destruct (int_ok_ty_ok T Ht) as (_ & _ & Hd).
    pose proof (IHa rho ltac:(assumption) Ea n L c e0 Hc VE) as RA.
    destruct (vgen a n L) as [[[sa ra] n1] M1] eqn:Ga.
    assert (Hc1 : (open_lab c sa < M1)%nat) by (destruct RA as (_ & LL & _ & LA & _); eapply open_lab_lt; [lia | exact LA]).
    assert (RB : forall e1, ext n e0 e1 -> GRes rho e1 n1 M1 (open_lab c sa) b (vgen b n1 M1))
      by (intros e1 X1; apply IHb; try assumption; eapply venv_ext; eassumption).
    destruct (vgen b n1 M1) as [[[sb rb] n2] M2] eqn:Gb.
    pose proof RA as (_ & _ & _ & _ & GA & _). pose proof (RB e0 (ext_refl n e0)) as (_ & _ & _ & _ & GB & _).
    rewrite Ta in GA. rewrite Tb in GB.
    destruct (inst_tmpl (vtmpl op T) ra rb n2) as [[it r] k] eqn:IT.
    destruct (two_ops rho e0 n L c a b sa ra n1 M1 sb rb n2 M2 it Hc RA RB) as (N2 & LL2 & CS & LS & HT).
    split; [lia|]. split; [lia|]. split; [exact CS|]. split; [exact LS|].
    destruct (seval rho a) as [x| | |] eqn:Sea; try contradiction; [|split; [exact I | exact HT]].
    destruct (seval rho b) as [y| | |] eqn:Seb; try contradiction; [|split; [exact I | exact HT]].
    pose proof (val_ok_int _ _ GA) as Rx. pose proof (val_ok_int _ _ GB) as Ry.
    pose proof (arith_spec_good T (aop_of op) x y Hd ltac:(destruct op; discriminate)) as G.
    destruct HT as (e2 & S2 & Va & Vb & X2 & Oa & Ob).
    pose proof (tmpl_inst_exact (vtmpl op T) x y _ ra rb n2 e2 (vtmpl_closed op T) (vtmpl_exact op T x y Ht Rx Ry) Oa Ob Va Vb) as TE.
    rewrite IT in TE.
    destruct (arith_spec T (aop_of op) x y) as [v| | |]; try contradiction.
    + split; [exact G|]. destruct TE as (e3 & S3 & V3 & X3 & O3). exists e3. rewrite S2, S3.
      split; [reflexivity|]. split; [exact V3|]. split; [exact (ext_trans n n2 e0 e2 e3 N2 X2 X3) | exact O3].
    + split; [exact I|]. rewrite S2, TE. reflexivity.
  - (* XBit *)
    repeat (apply andb_true_iff in W; destruct W as [W ?]).
    apply andb_true_iff in E. destruct E as [Ea Eb].
    match goal with H : sty_eqb (ty_of a) _ = true |- _ => apply sty_eqb_eq in H; rename H into Ta end.
    match goal with H : sty_eqb (ty_of b) _ = true |- _ => apply sty_eqb_eq in H; rename H into Tb end.
    match goal with H : negb (nsigned T) = true |- _ => apply negb_true_iff in H; rename H into Hs end.
    pose proof (IHa rho ltac:(assumption) Ea n L c e0 Hc VE) as RA.
    destruct (vgen a n L) as [[[sa ra] n1] M1] eqn:Ga.
    assert (Hc1 : (open_lab c sa < M1)%nat) by (destruct RA as (_ & LL & _ & LA & _); eapply open_lab_lt; [lia | exact LA]).
    assert (RB : forall e1, ext n e0 e1 -> GRes rho e1 n1 M1 (open_lab c sa) b (vgen b n1 M1))
      by (intros e1 X1; apply IHb; try assumption; eapply venv_ext; eassumption).
    destruct (vgen b n1 M1) as [[[sb rb] n2] M2] eqn:Gb.
    pose proof RA as (_ & _ & _ & _ & GA & _). pose proof (RB e0 (ext_refl n e0)) as (_ & _ & _ & _ & GB & _).
    rewrite Ta in GA. rewrite Tb in GB.
    destruct (two_ops rho e0 n L c a b sa ra n1 M1 sb rb n2 M2 [V2 (nm n2) (bit_op2 op) rb ra] Hc RA RB) as (N2 & LL2 & CS & LS & HT).
    split; [lia|]. split; [lia|]. split; [exact CS|]. split; [exact LS|].
    destruct (seval rho a) as [x| | |] eqn:Sea; try contradiction; [|split; [exact I | exact HT]].
    destruct (seval rho b) as [y| | |] eqn:Seb; try contradiction; [|split; [exact I | exact HT]].
    destruct (bit_word op T y x ltac:(assumption) Hs (val_ok_int _ _ GB) (val_ok_int _ _ GA)) as [Hw Hr].
    rewrite (bit_fun_comm op y x) in Hw, Hr.
    split; [exact Hr|]. destruct HT as (e2 & S2 & Va & Vb & X2 & Oa & Ob).
    eexists. rewrite S2. cbn [vsl vstep]. rewrite Va, Vb. cbn [bres_of]. split; [reflexivity|].
    split; [cbn [vval lookup]; rewrite String.eqb_refl, bit_op2_eq, Hw; reflexivity|].
    split; [apply (ext_trans n n2 e0 e2 _ N2 X2); apply ext_cons; lia | apply old_nm; lia].
  - (* XCmp *)
    repeat (apply andb_true_iff in W; destruct W as [W ?]).
    apply andb_true_iff in E. destruct E as [Ea Eb].
    match goal with H : sty_eqb (ty_of a) _ = true |- _ => apply sty_eqb_eq in H; rename H into Ta end.
    match goal with H : sty_eqb (ty_of b) _ = true |- _ => apply sty_eqb_eq in H; rename H into Tb end.
    pose proof (IHa rho ltac:(assumption) Ea n L c e0 Hc VE) as RA.
    destruct (vgen a n L) as [[[sa ra] n1] M1] eqn:Ga.
    assert (Hc1 : (open_lab c sa < M1)%nat) by (destruct RA as (_ & LL & _ & LA & _); eapply open_lab_lt; [lia | exact LA]).
    assert (RB : forall e1, ext n e0 e1 -> GRes rho e1 n1 M1 (open_lab c sa) b (vgen b n1 M1))
      by (intros e1 X1; apply IHb; try assumption; eapply venv_ext; eassumption).
    destruct (vgen b n1 M1) as [[[sb rb] n2] M2] eqn:Gb.
    pose proof RA as (_ & _ & _ & _ & GA & _). pose proof (RB e0 (ext_refl n e0)) as (_ & _ & _ & _ & GB & _).
    rewrite Ta in GA. rewrite Tb in GB.
    pose proof (vcmp_word op t) as CW. destruct (vcmp op t) as [o neg] eqn:VC.
    assert (GOOD : forall x y, good SBool (Val (b2z (cmp_fun op x y)))) by (intros; cbn; destruct (cmp_fun op x y); reflexivity).
    destruct neg.
    + destruct (two_ops rho e0 n L c a b sa ra n1 M1 sb rb n2 M2 [V2 (nm n2) o rb ra; V1 (nm (S n2)) OIszero (VVar (nm n2))] Hc RA RB)
        as (N2 & LL2 & CS & LS & HT).
      split; [lia|]. split; [lia|]. split; [exact CS|]. split; [exact LS|].
      destruct (seval rho a) as [x| | |] eqn:Sea; try contradiction; [|split; [exact I | exact HT]].
      destruct (seval rho b) as [y| | |] eqn:Seb; try contradiction; [|split; [exact I | exact HT]].
      split; [apply GOOD|]. destruct HT as (e2 & S2 & Va & Vb & X2 & Oa & Ob).
      eexists. rewrite S2. cbn [vsl vstep]. rewrite Va, Vb. cbn [vval lookup]. rewrite String.eqb_refl. cbn [vsl bres_of].
      split; [reflexivity|]. split.
      * cbn [vval lookup]. rewrite String.eqb_refl. cbn [ev1]. rewrite (CW (wrap x) (wrap y)).
        rewrite (cmp_word op t x y) by assumption. rewrite b2z_wrap. reflexivity.
      * split; [| apply old_nm; lia]. apply (ext_trans n n2 e0 e2 _ N2 X2).
        eapply (ext_trans n2 n2); [lia | apply (ext_cons n2 n2); lia | apply (ext_cons n2 (S n2)); lia].
    + destruct (two_ops rho e0 n L c a b sa ra n1 M1 sb rb n2 M2 [V2 (nm n2) o rb ra] Hc RA RB) as (N2 & LL2 & CS & LS & HT).
      split; [lia|]. split; [lia|]. split; [exact CS|]. split; [exact LS|].
      destruct (seval rho a) as [x| | |] eqn:Sea; try contradiction; [|split; [exact I | exact HT]].
      destruct (seval rho b) as [y| | |] eqn:Seb; try contradiction; [|split; [exact I | exact HT]].
      split; [apply GOOD|]. destruct HT as (e2 & S2 & Va & Vb & X2 & Oa & Ob).
      eexists. rewrite S2. cbn [vsl vstep]. rewrite Va, Vb. cbn [bres_of]. split; [reflexivity|]. split.
      * cbn [vval lookup]. rewrite String.eqb_refl. rewrite (CW (wrap x) (wrap y)).
        rewrite (cmp_word op t x y) by assumption. rewrite b2z_wrap. reflexivity.
      * split; [| apply old_nm; lia]. apply (ext_trans n n2 e0 e2 _ N2 X2). apply ext_cons. lia.
  - (* XAnd *)
    repeat (apply andb_true_iff in W; destruct W as [W ?]).
    apply andb_true_iff in E. destruct E as [Ea Eb].
    match goal with H : sty_eqb (ty_of a) _ = true |- _ => apply sty_eqb_eq in H; rename H into Ta end.
    match goal with H : sty_eqb (ty_of b) _ = true |- _ => apply sty_eqb_eq in H; rename H into Tb end.
    pose proof (IHa rho ltac:(assumption) Ea (S n) (S L) c e0 ltac:(lia) VE) as RA.
    destruct (vgen a (S n) (S L)) as [[[sa ra] n1] M1] eqn:Ga.
    assert (RB : forall e1, ext (S n) e0 e1 -> GRes rho e1 n1 (S (S M1)) M1 b (vgen b n1 (S (S M1))))
      by (intros e1 X1; apply IHb; try assumption; [lia | eapply venv_ext; eassumption]).
    destruct (vgen b n1 (S (S M1))) as [[[sb rb] n2] M2] eqn:Gb.
    destruct RA as (N1 & LL1 & Ca & La & GA & A). rewrite Ta in GA.
    pose proof (RB e0 (ext_refl _ e0)) as (N2 & LL2 & Cb & Lb & GB & _). rewrite Tb in GB.
    set (sb' := seq sb (code [VAssign (nm n) rb])).
    set (MID := mkB (S M1) [VAssign (nm n) (VLit 0)] (TJmp L) :: flat_closed M1 sb' (TJmp L)).
    set (br := (([], Some (TJnz ra M1 (S M1), MID, L, [])) : seg)).
    assert (Csb' : seg_closed sb') by (apply closed_seq; [exact Cb | exact I]).
    assert (Cbr : seg_closed br).
    { split; [discriminate|]. constructor; [discriminate|]. apply closedl_flat_closed; [exact Csb' | discriminate]. }
    assert (LB : forall l, In l (M1 :: seg_labs sb') -> (S L <= l < M2)%nat).
    { intros l [<-|I]; [lia|]. unfold sb' in I. rewrite labs_seq, labs_code, app_nil_r in I. apply Lb in I. lia. }
    split; [lia|]. split; [lia|]. split; [apply closed_seq; assumption|]. split.
    { intros l I. rewrite labs_seq in I. apply in_app_or in I as [I|I]; [apply La in I; lia|].
      unfold seg_labs, br in I. cbn [snd] in I. apply in_app_or in I as [I|[<-|[]]]; [|lia].
      unfold MID in I. cbn [map b_lab] in I. rewrite labs_flat_closed in I. destruct I as [<-|I]; [lia|]. apply LB in I. lia. }
    destruct (seval rho a) as [x| | |] eqn:Sea; try contradiction.
    2:{ split; [exact I|]. apply seq_rev; assumption. }
    destruct A as (e1 & R1 & V1 & X1 & O1). pose proof (val_ok_bool _ GA) as Bx.
    rewrite (seq_done sa br c e0 e1 Ca R1). unfold br. rewrite (run_branch _ ra M1 (S M1) MID L e1 _ V1), (bool_word x Bx).
    destruct (x =? 0) eqn:X0.
    + (* a is false: b is not evaluated *)
      split; [reflexivity|]. unfold MID. cbn [app]. rewrite run_const_arm.
      rewrite run_skip by (rewrite labs_flat_closed; intros C; apply LB in C; lia). rewrite run_open.
      eexists. split; [reflexivity|]. split; [cbn [vval lookup]; rewrite String.eqb_refl; reflexivity|].
      split; [apply (ext_trans n n e0 e1 _ (Nat.le_refl n) (ext_S _ _ _ X1)); apply ext_cons; lia | apply old_nm; lia].
    + (* a is true: the value of b *)
      unfold MID. cbn [app run_from b_lab]. assert (Nat.eqb (S M1) M1 = false) as -> by (apply Nat.eqb_neq; lia).
      destruct (RB e1 X1) as (_ & _ & _ & _ & _ & B).
      destruct (seval rho b) as [y| | |] eqn:Seb; try contradiction.
      * split; [exact GB|]. destruct B as (e2 & R2 & V2 & X2 & O2).
        pose proof (arm_done sb M1 L (nm n) rb [] e1 e2 (wrap y) Cb R2 V2 ltac:(intros [])) as AD. cbn [app] in AD. fold sb' in AD.
        rewrite AD. eexists. split; [reflexivity|]. split; [cbn [vval lookup]; rewrite String.eqb_refl; reflexivity|].
        split; [| apply old_nm; lia].
        apply (ext_trans n n e0 e1 _ (Nat.le_refl n) (ext_S _ _ _ X1)).
        apply (ext_trans n n e1 e2 _ (Nat.le_refl n) (ext_le n n1 _ _ ltac:(lia) X2)). apply ext_cons. lia.
      * split; [exact I|]. unfold sb'. apply arm_rev; assumption.
  - (* XOr *)
    repeat (apply andb_true_iff in W; destruct W as [W ?]).
    apply andb_true_iff in E. destruct E as [Ea Eb].
    match goal with H : sty_eqb (ty_of a) _ = true |- _ => apply sty_eqb_eq in H; rename H into Ta end.
    match goal with H : sty_eqb (ty_of b) _ = true |- _ => apply sty_eqb_eq in H; rename H into Tb end.
    pose proof (IHa rho ltac:(assumption) Ea (S n) (S L) c e0 ltac:(lia) VE) as RA.
    destruct (vgen a (S n) (S L)) as [[[sa ra] n1] M1] eqn:Ga.
    assert (RB : forall e1, ext (S n) e0 e1 -> GRes rho e1 n1 (S (S M1)) (S M1) b (vgen b n1 (S (S M1))))
      by (intros e1 X1; apply IHb; try assumption; [lia | eapply venv_ext; eassumption]).
    destruct (vgen b n1 (S (S M1))) as [[[sb rb] n2] M2] eqn:Gb.
    destruct RA as (N1 & LL1 & Ca & La & GA & A). rewrite Ta in GA.
    pose proof (RB e0 (ext_refl _ e0)) as (N2 & LL2 & Cb & Lb & GB & _). rewrite Tb in GB.
    set (sb' := seq sb (code [VAssign (nm n) rb])).
    set (MID := mkB M1 [VAssign (nm n) (VLit 1)] (TJmp L) :: flat_closed (S M1) sb' (TJmp L)).
    set (br := (([], Some (TJnz ra M1 (S M1), MID, L, [])) : seg)).
    assert (Csb' : seg_closed sb') by (apply closed_seq; [exact Cb | exact I]).
    assert (Cbr : seg_closed br).
    { split; [discriminate|]. constructor; [discriminate|]. apply closedl_flat_closed; [exact Csb' | discriminate]. }
    assert (LB : forall l, In l (S M1 :: seg_labs sb') -> (S L <= l < M2)%nat).
    { intros l [<-|I]; [lia|]. unfold sb' in I. rewrite labs_seq, labs_code, app_nil_r in I. apply Lb in I. lia. }
    split; [lia|]. split; [lia|]. split; [apply closed_seq; assumption|]. split.
    { intros l I. rewrite labs_seq in I. apply in_app_or in I as [I|I]; [apply La in I; lia|].
      unfold seg_labs, br in I. cbn [snd] in I. apply in_app_or in I as [I|[<-|[]]]; [|lia].
      unfold MID in I. cbn [map b_lab] in I. rewrite labs_flat_closed in I. destruct I as [<-|I]; [lia|]. apply LB in I. lia. }
    destruct (seval rho a) as [x| | |] eqn:Sea; try contradiction.
    2:{ split; [exact I|]. apply seq_rev; assumption. }
    destruct A as (e1 & R1 & V1 & X1 & O1). pose proof (val_ok_bool _ GA) as Bx.
    rewrite (seq_done sa br c e0 e1 Ca R1). unfold br. rewrite (run_branch _ ra M1 (S M1) MID L e1 _ V1), (bool_word x Bx).
    destruct (x =? 0) eqn:X0.
    + (* a is false: the value of b *)
      unfold MID. cbn [app run_from b_lab]. assert (Nat.eqb M1 (S M1) = false) as -> by (apply Nat.eqb_neq; lia).
      destruct (RB e1 X1) as (_ & _ & _ & _ & _ & B).
      destruct (seval rho b) as [y| | |] eqn:Seb; try contradiction.
      * split; [exact GB|]. destruct B as (e2 & R2 & V2 & X2 & O2).
        pose proof (arm_done sb (S M1) L (nm n) rb [] e1 e2 (wrap y) Cb R2 V2 ltac:(intros [])) as AD. cbn [app] in AD. fold sb' in AD.
        rewrite AD. eexists. split; [reflexivity|]. split; [cbn [vval lookup]; rewrite String.eqb_refl; reflexivity|].
        split; [| apply old_nm; lia].
        apply (ext_trans n n e0 e1 _ (Nat.le_refl n) (ext_S _ _ _ X1)).
        apply (ext_trans n n e1 e2 _ (Nat.le_refl n) (ext_le n n1 _ _ ltac:(lia) X2)). apply ext_cons. lia.
      * split; [exact I|]. unfold sb'. apply arm_rev; assumption.
    + (* a is true: b is not evaluated *)
      split; [reflexivity|]. unfold MID. cbn [app]. rewrite run_const_arm.
      rewrite run_skip by (rewrite labs_flat_closed; intros C; apply LB in C; lia). rewrite run_open.
      eexists. split; [reflexivity|]. split; [cbn [vval lookup]; rewrite String.eqb_refl; reflexivity|].
      split; [apply (ext_trans n n e0 e1 _ (Nat.le_refl n) (ext_S _ _ _ X1)); apply ext_cons; lia | apply old_nm; lia].
  - (* XNot *)
    apply andb_true_iff in W. destruct W as [Wa Ta]. apply sty_eqb_eq in Ta.
    pose proof (IHa rho Wa E n L c e0 Hc VE) as RA. destruct (vgen a n L) as [[[sa ra] n1] M1] eqn:Ga.
    destruct RA as (N1 & LL1 & Ca & La & GA & A). rewrite Ta in GA.
    split; [lia|]. split; [lia|]. split; [apply closed_seq; [exact Ca | exact I]|].
    split; [intros l Il; rewrite labs_seq, labs_code, app_nil_r in Il; apply La; exact Il|].
    destruct (seval rho a) as [x| | |] eqn:Sea; try contradiction.
    + split; [cbn; destruct (x =? 0); reflexivity|]. destruct A as (e1 & R1 & V1 & X1 & O1).
      eexists. rewrite (seq_code_run sa _ c e0 e1 Ca R1). cbn [vsl vstep]. rewrite V1. cbn [bres_of]. split; [reflexivity|]. split.
      * cbn [vval lookup]. rewrite String.eqb_refl. cbn [ev1]. rewrite (not_word x (val_ok_bool _ GA)), b2z_wrap. reflexivity.
      * split; [apply (ext_trans n n1 e0 e1 _ N1 X1); apply ext_cons; lia | apply old_nm; lia].
    + split; [exact I|]. apply seq_rev; assumption.
  - (* XNeg *)
    repeat (apply andb_true_iff in W; destruct W as [W ?]).
    match goal with H : sty_eqb (ty_of a) _ = true |- _ => apply sty_eqb_eq in H; rename H into Ta end.
    assert (Ht : int_ok T = true) by assumption. assert (Hs : nsigned T = true) by assumption.
    destruct (int_ok_ty_ok T Ht) as (_ & Hk & Hd).
    pose proof (IHa rho ltac:(assumption) E n L c e0 Hc VE) as RA. destruct (vgen a n L) as [[[sa ra] n1] M1] eqn:Ga.
    destruct RA as (N1 & LL1 & Ca & La & GA & A). rewrite Ta in GA.
    split; [lia|]. split; [lia|]. split; [apply closed_seq; [exact Ca | exact I]|].
    split; [intros l Il; rewrite labs_seq, labs_code, app_nil_r in Il; apply La; exact Il|].
    destruct (seval rho a) as [x| | |] eqn:Sea; try contradiction.
    + pose proof (val_ok_int _ _ GA) as Rx. destruct T as [k s d]. cbn [nsigned nbytes ndec] in *. subst s d.
      destruct (neg_word k x Hk Rx) as [NW1 NW2]. cbn [arith_spec]. unfold chk.
      destruct A as (e1 & R1 & V1 & X1 & O1).
      split; [destruct (in_rangeb (Build_nty k true false) (- x)) eqn:R; [exact R | exact I]|].
      rewrite (seq_code_run sa _ c e0 e1 Ca R1). cbn [vsl vstep vval]. rewrite V1. cbn [ev2]. rewrite NW1.
      cbn [lookup]. rewrite String.eqb_refl.
      destruct (in_rangeb (Build_nty k true false) (- x)); cbn [b2z Z.eqb]; [|reflexivity].
      rewrite (vval_ext n1 e1 _ ra (ext_cons n1 n1 _ e1 ltac:(lia)) O1), V1. cbn [ev2 bres_of].
      eexists. split; [reflexivity|]. split; [cbn [vval lookup]; rewrite String.eqb_refl; change (wrap 0) with (wrap 0); rewrite NW2; reflexivity|].
      split; [| apply old_nm; lia]. apply (ext_trans n n1 e0 e1 _ N1 X1).
      eapply (ext_trans n1 n1); [lia | apply (ext_cons n1 n1); lia | apply (ext_cons n1 (S n1)); lia].
    + split; [exact I|]. apply seq_rev; assumption.
  - (* XIf *)
    repeat (apply andb_true_iff in W; destruct W as [W ?]).
    apply andb_true_iff in E. destruct E as [E Eb]. apply andb_true_iff in E. destruct E as [Ec Ea].
    match goal with H : sty_eqb (ty_of cnd) _ = true |- _ => apply sty_eqb_eq in H; rename H into Tc end.
    match goal with H : sty_eqb (ty_of a) (ty_of b) = true |- _ => apply sty_eqb_eq in H; rename H into Tab end.
    pose proof (IHc rho ltac:(assumption) Ec n L c e0 Hc VE) as RC.
    destruct (vgen cnd n L) as [[[sc rc] n0] M0] eqn:Gc.
    destruct RC as (N0 & LL0 & Cc & Lc & GC & C0). rewrite Tc in GC.
    assert (RA : forall e1, ext n e0 e1 -> GRes rho e1 (S n0) (S (S M0)) M0 a (vgen a (S n0) (S (S M0))))
      by (intros e1 X1; apply IHa; try assumption; [lia | eapply venv_ext; eassumption]).
    destruct (vgen a (S n0) (S (S M0))) as [[[sa ra] n1] M1] eqn:Ga.
    pose proof (RA e0 (ext_refl _ e0)) as (N1 & LL1 & Ca & La & GA & _).
    assert (RB : forall e1, ext n e0 e1 -> GRes rho e1 n1 M1 (S M0) b (vgen b n1 M1))
      by (intros e1 X1; apply IHb; try assumption; try lia; eapply venv_ext; eassumption).
    destruct (vgen b n1 M1) as [[[sb rb] n2] M2] eqn:Gb.
    pose proof (RB e0 (ext_refl _ e0)) as (N2 & LL2 & Cb & Lb & GB & _). rewrite <- Tab in GB.
    set (sa' := seq sa (code [VAssign (nm n0) ra])). set (sb' := seq sb (code [VAssign (nm n0) rb])).
    set (ARMA := flat_closed M0 sa' (TJmp M2)). set (ARMB := flat_closed (S M0) sb' (TJmp M2)).
    set (br := (([], Some (TJnz rc M0 (S M0), ARMA ++ ARMB, M2, [])) : seg)).
    assert (Csa' : seg_closed sa') by (apply closed_seq; [exact Ca | exact I]).
    assert (Csb' : seg_closed sb') by (apply closed_seq; [exact Cb | exact I]).
    assert (Cbr : seg_closed br).
    { split; [discriminate|]. apply Forall_app. split; apply closedl_flat_closed; try assumption; discriminate. }
    assert (LA : forall l, In l (map b_lab ARMA) -> (M0 <= l < M1)%nat /\ l <> S M0).
    { unfold ARMA. rewrite labs_flat_closed. intros l [<-|I]; [lia|]. unfold sa' in I. rewrite labs_seq, labs_code, app_nil_r in I. apply La in I. lia. }
    assert (LBB : forall l, In l (map b_lab ARMB) -> (S M0 <= l < M2)%nat).
    { unfold ARMB. rewrite labs_flat_closed. intros l [<-|I]; [lia|]. unfold sb' in I. rewrite labs_seq, labs_code, app_nil_r in I. apply Lb in I. lia. }
    split; [lia|]. split; [lia|]. split; [apply closed_seq; assumption|]. split.
    { intros l I. rewrite labs_seq in I. apply in_app_or in I as [I|I]; [apply Lc in I; lia|].
      unfold seg_labs, br in I. cbn [snd] in I. apply in_app_or in I as [I|[<-|[]]]; [|lia].
      rewrite map_app in I. apply in_app_or in I as [I|I]; [apply LA in I | apply LBB in I]; lia. }
    destruct (seval rho cnd) as [x| | |] eqn:Sec; try contradiction.
    2:{ split; [exact I|]. apply seq_rev; assumption. }
    destruct C0 as (e1 & R1 & V1 & X1 & O1). pose proof (val_ok_bool _ GC) as Bx.
    rewrite (seq_done sc br c e0 e1 Cc R1). unfold br. rewrite (run_branch _ rc M0 (S M0) (ARMA ++ ARMB) M2 e1 _ V1), (bool_word x Bx).
    rewrite <- app_assoc.
    destruct (x =? 0) eqn:X0.
    + (* condition false: only the else branch is evaluated *)
      rewrite run_skip by (intros C; apply LA in C; lia).
      destruct (RB e1 X1) as (_ & _ & _ & _ & _ & B).
      destruct (seval rho b) as [y| | |] eqn:Seb; try contradiction.
      * split; [exact GB|]. destruct B as (e2 & R2 & V2 & X2 & O2).
        pose proof (arm_done sb (S M0) M2 (nm n0) rb [] e1 e2 (wrap y) Cb R2 V2 ltac:(intros [])) as AD. cbn [app] in AD.
        fold sb' in AD. fold ARMB in AD. rewrite AD.
        eexists. split; [reflexivity|]. split; [cbn [vval lookup]; rewrite String.eqb_refl; reflexivity|].
        split; [| apply old_nm; lia].
        apply (ext_trans n n e0 e1 _ (Nat.le_refl n) X1).
        apply (ext_trans n n e1 e2 _ (Nat.le_refl n) (ext_le n n1 _ _ ltac:(lia) X2)). apply ext_cons. lia.
      * split; [exact I|]. unfold ARMB, sb'. apply arm_rev; assumption.
    + (* condition true: only the then branch is evaluated *)
      destruct (RA e1 X1) as (_ & _ & _ & _ & _ & A).
      destruct (seval rho a) as [y| | |] eqn:Sea; try contradiction.
      * split; [exact GA|]. destruct A as (e2 & R2 & V2 & X2 & O2).
        pose proof (arm_done sa M0 M2 (nm n0) ra ARMB e1 e2 (wrap y) Ca R2 V2 ltac:(intros C; apply LBB in C; lia)) as AD.
        fold sa' in AD. fold ARMA in AD. rewrite AD.
        eexists. split; [reflexivity|]. split; [cbn [vval lookup]; rewrite String.eqb_refl; reflexivity|].
        split; [| apply old_nm; lia].
        apply (ext_trans n n e0 e1 _ (Nat.le_refl n) X1).
        apply (ext_trans n n e1 e2 _ (Nat.le_refl n) (ext_le n (S n0) _ _ ltac:(lia) X2)). apply ext_cons. lia.
      * split; [exact I|]. unfold ARMA, sa'. apply arm_rev; assumption.
Qed.

Lemma flat_head c sg : exists b t, flat c sg = b :: t /\ b_lab b = c.
Proof. destruct sg as [ia [[[[t0 mid] c'] bd]|]]; cbn [flat]; eexists; eexists; split; reflexivity. Qed.

Theorem vexpr_full_correct : forall e rho e0, vwt e = true -> env_ok rho e = true -> venv rho e0 ->
  vrun_blocks e0 (vlower2 e) = enc_out (seval rho e).
Proof.
  intros e rho e0 W E VE. pose proof (vgen_correct e rho W E 0%nat 1%nat 0%nat e0 ltac:(lia) VE) as G.
  unfold vlower2. destruct (vgen e 0 1) as [[[sg r] n'] L']. destruct G as (_ & _ & _ & _ & GD & S).
  unfold vrun_blocks. cbn [fst snd]. destruct (flat_head 0 sg) as (b & t & Ef & El). rewrite Ef, El, <- Ef.
  destruct (seval rho e) as [v| | |]; try contradiction.
  - destruct S as (e1 & -> & -> & _). reflexivity.
  - rewrite S. reflexivity.
Qed.
