(* C01 (Venom front end) — expression lowering, FULL fragment: literals, locals, + - * // %, & | ^, comparisons, not,
   unary minus, `and`, `or` and if-expressions over int/bool locals.  The blocks the Venom front end creates for the
   expression (= VBlocks.vlower2 e = VExpr.vlower e; both checked syntactically against the real front end on every run),
   executed from the first block (VBlocks.run_from: fuel-free, jumps go forward in the list; straight-line instructions by
   C03/VSL.v), yield exactly the source meaning seval (C01/ExprCompile.v): the encoded value, or a revert.
   seval evaluates `a and b`, `a or b`, `x if c else y` lazily, so the theorem says in particular that a revert of the
   operand / branch that the source semantics does not evaluate does NOT happen in the generated code (examples below). *)
From Coq Require Import ZArith Bool List String.
From Verif Require Import Base.Word256 C03.LIR C03.ArithSpec C03.VSL C01.ExprCompile C01V.VExpr C01V.VExprProofs C01V.VBlocks
  C01V.VBlocksProofs.
Import ListNotations.
Open Scope string_scope.
Open Scope Z_scope.

Theorem vexpr_compile_correct : forall e rho e0, vwt e = true -> env_ok rho e = true -> venv rho e0 ->
  vrun_blocks e0 (vlower2 e) = enc_out (seval rho e).
Proof. exact vexpr_full_correct. Qed.
Print Assumptions vexpr_compile_correct.

(* on the straight-line fragment this is the earlier statement (one block, VSL.vrun) *)
Corollary vexpr_compile_correct_sl : forall e rho e0, sl e = true -> vwt e = true -> env_ok rho e = true -> venv rho e0 ->
  exists is r, vlower e = (r, [mkB 0 is TNone]) /\ vrun e0 (is, r) = enc_out (seval rho e).
Proof. exact vexpr_sl_correct. Qed.

(* ---------------- short circuit: the side that is not taken is not executed ---------------- *)
Definition U8 : nty := Build_nty 1 false false.
Definition xv : sexpr := XVar "x" (SInt U8).
Definition div10x : sexpr := XBin BDiv U8 false false false false (XInt U8 10) xv.     (* 10 // x : reverts when x = 0 *)
(* (x != 0) and (10 // x > 1) *)
Definition ex_and : sexpr := XAnd (XCmp CNe (SInt U8) xv (XInt U8 0)) (XCmp CGt (SInt U8) div10x (XInt U8 1)).
(* (x == 0) or (10 // x > 1) *)
Definition ex_or : sexpr := XOr (XCmp CEq (SInt U8) xv (XInt U8 0)) (XCmp CGt (SInt U8) div10x (XInt U8 1)).
(* 10 // x if x > 0 else 7 *)
Definition ex_if : sexpr := XIf (XCmp CGt (SInt U8) xv (XInt U8 0)) div10x (XInt U8 7).
Definition rho0 : senv := [("x", 0)].
Definition rho3 : senv := [("x", 3)].

Example ex_wt : vwt ex_and = true /\ vwt ex_or = true /\ vwt ex_if = true /\ vwt div10x = true /\
  env_ok rho0 ex_and = true /\ env_ok rho0 ex_or = true /\ env_ok rho0 ex_if = true.
Proof. vm_compute. repeat split. Qed.
(* the division alone reverts for x = 0 ... *)
Example ex_div_reverts : seval rho0 div10x = Revert /\ vrun_blocks (lenv_of rho0) (vlower2 div10x) = Revert.
Proof. vm_compute. split; reflexivity. Qed.
(* ... but not behind a false `and`, a true `or`, or in the branch of an if-expression that is not selected *)
Example ex_short_circuit :
  vrun_blocks (lenv_of rho0) (vlower2 ex_and) = Val 0 /\ vrun_blocks (lenv_of rho0) (vlower2 ex_or) = Val 1 /\
  vrun_blocks (lenv_of rho0) (vlower2 ex_if) = Val 7 /\
  vrun_blocks (lenv_of rho3) (vlower2 ex_and) = Val 1 /\ vrun_blocks (lenv_of rho3) (vlower2 ex_or) = Val 1 /\
  vrun_blocks (lenv_of rho3) (vlower2 ex_if) = Val 3.
Proof. vm_compute. repeat split. Qed.
(* the two models agree on these (the per-run tie checks it for every sample) *)
Example ex_models_agree : vlower2 ex_and = vlower ex_and /\ vlower2 ex_if = vlower ex_if /\ vlower2 ex_or = vlower ex_or.
Proof. vm_compute. repeat split. Qed.
