(* VStmt: statements of the VENOM front end (vyper/codegen_venom/stmt.py) over integer / bool locals.
     lower_AnnAssign / lower_Assign / lower_AugAssign (to locals), lower_If, lower_Assert (with and without reason),
     _lower_range_loop with literal bounds, lower_Break / lower_Continue / lower_Pass, lower_Return (single word).
   Source syntax `sstmt` over C01/ExprCompile.v's `sexpr`, meaning `sexec` (fuel free: literal loop bounds).
   Model of the front end: `sgen` (functional, in the style of VBlocks.vgen): a *segment* = instructions for the current
   block and, if the statement creates blocks, the terminator of the current block, the closed blocks in the order the
   builder appends them, and the open block in which code generation continues (none if every path is terminated:
   `_lower_body` skips the statements after a terminated block, so does `gl`).
   `x op= e` is the assignment `x = x op e`: lower_AugAssign loads the target, lowers the right operand and calls the
   same apply_binop as lower_BinOp (the exporter translates; the tie compares the real instructions).
   A local lives in an alloca'd word: `mstore <alloca of x>, v` is exported as `VAssign "x" v`, `mload` as in VExpr.v;
   `return`'s buffer store + `return buf, 32` is the terminator STRet v; a block ending in `revert` is STRevert.
   Execution of block lists: the relation `bexec` (jumps to any label, so loops need no fuel).  Definitions only. *)
From Coq Require Import ZArith Bool List String Ascii.
From Verif Require Import Base.Word256 C03.LIR C03.ArithSpec C03.ArithModel C03.VSL C01.ExprCompile C01V.VExpr C01V.VBlocks.
Import ListNotations.
Open Scope string_scope.
Open Scope Z_scope.
Open Scope list_scope.

(* ---------------- source ---------------- *)
Inductive sstmt :=
| SAssign (x : string) (e : sexpr)                          (* x: T = e   /   x = e   /   x op= e' (e = x op e') *)
| SIf (c : sexpr) (a b : list sstmt)
| SAssert (c : sexpr)                                       (* assert c   /   assert c, "reason" *)
| SFor (i : string) (lo : Z) (rounds : nat) (body : list sstmt)   (* for i: T in range(lo, lo + rounds) *)
| SForB (i : string) (T : nty) (a b : sexpr) (bound : Z) (body : list sstmt)   (* for i: T in range(a, b, bound=B) *)
| SBreak
| SContinue
| SPass
| SReturn (e : sexpr).

Inductive sres := SNorm (rho : senv) | SBrk (rho : senv) | SCont (rho : senv) | SRet (v : Z) | SRev | SStuck.

(* is_local / vwt are defined with the proofs of the expression part; the same checks, stated here for the semantics:
   an expression is evaluated only in an environment that is well typed for it *)
Definition local_name (s : string) : bool := match s with String c _ => negb (Ascii.eqb c "%"%char) | EmptyString => true end.

(* a literal-bounded loop: k rounds of the body f, the counter starting at iv *)
Fixpoint sloopf (f : Z -> senv -> sres) (k : nat) (iv : Z) (rho : senv) : sres :=
  match k with
  | O => SNorm rho
  | S k' =>
      match f iv rho with
      | SNorm rho' | SCont rho' => sloopf f k' (iv + 1) rho'
      | SBrk rho' => SNorm rho'
      | o => o
      end
  end.

Section Sem.
  (* the static side condition of the expression theorem (VExprProofs.vwt), a parameter here to keep this file free of
     proof imports; PropsVStmt instantiates it *)
  Variable wt : sexpr -> bool.

  Definition seval_chk (rho : senv) (e : sexpr) : outcome :=
    if wt e && env_ok rho e then seval rho e else Stuck.
  (* conditions are bool typed *)
  Definition seval_cond (rho : senv) (e : sexpr) : outcome :=
    if sty_eqb (ty_of e) SBool then seval_chk rho e else Stuck.

  Fixpoint sexec (s : sstmt) (rho : senv) : sres :=
    let fix go (l : list sstmt) (rho : senv) : sres :=
      match l with
      | [] => SNorm rho
      | s :: r => match sexec s rho with SNorm rho' => go r rho' | o => o end
      end in
    match s with
    | SAssign x e =>
        if local_name x then
          match seval_chk rho e with Val v => SNorm ((x, v) :: rho) | Revert => SRev | _ => SStuck end
        else SStuck
    | SIf c a b =>
        match seval_cond rho c with
        | Val v => if v =? 0 then go b rho else go a rho
        | Revert => SRev
        | _ => SStuck
        end
    | SAssert c =>
        match seval_cond rho c with
        | Val v => if v =? 0 then SRev else SNorm rho
        | Revert => SRev
        | _ => SStuck
        end
    | SFor i lo rounds body =>
        if local_name i && (Z.of_nat rounds <? W) then
          sloopf (fun iv rho => go body ((i, iv) :: rho)) rounds lo rho
        else SStuck
    | SForB i T a b bound body =>
        if local_name i && sty_eqb (ty_of a) (SInt T) && sty_eqb (ty_of b) (SInt T) && int_ok T
           && (0 <=? bound) && (bound <? W) then
          match seval_chk rho a with
          | Val va =>
              match seval_chk rho b with
              | Val vb =>
                  if (vb <? va) || (bound <? vb - va) then SRev
                  else sloopf (fun iv rho => go body ((i, iv) :: rho)) (Z.to_nat (vb - va)) va rho
              | Revert => SRev
              | _ => SStuck
              end
          | Revert => SRev
          | _ => SStuck
          end
        else SStuck
    | SBreak => SBrk rho
    | SContinue => SCont rho
    | SPass => SNorm rho
    | SReturn e => match seval_chk rho e with Val v => SRet v | Revert => SRev | _ => SStuck end
    end.

  Fixpoint sexec_list (l : list sstmt) (rho : senv) : sres :=
    match l with
    | [] => SNorm rho
    | s :: r => match sexec s rho with SNorm rho' => sexec_list r rho' | o => o end
    end.
End Sem.

(* ---------------- target blocks ---------------- *)
Inductive sterm := STNone | STJnz (c : vop) (t f : nat) | STJmp (l : nat) | STRet (v : vop) | STRevert.
Record sblock := mkSB { sb_lab : nat; sb_body : list vinstr; sb_term : sterm }.

Definition cterm (t : vterm) : sterm :=
  match t with TNone => STNone | TJnz c a b => STJnz c a b | TJmp l => STJmp l end.
Definition cblock (b : vblock) : sblock := mkSB (b_lab b) (b_body b) (cterm (b_term b)).

Definition sopen := option (nat * list vinstr).
Definition sstail := option (sterm * list sblock * sopen).
Definition sseg := (list vinstr * sstail)%type.

Definition cseg (sg : seg) : sseg :=
  match sg with
  | (is0, None) => (is0, None)
  | (is0, Some (t, mid, c', bd)) => (is0, Some (cterm t, map cblock mid, Some (c', bd)))
  end.

Definition is_open (sg : sseg) : bool :=
  match snd sg with None => true | Some (_, _, Some _) => true | Some (_, _, None) => false end.

Definition sseq (s1 s2 : sseg) : sseg :=
  match s1 with
  | (ia, None) => (ia ++ fst s2, snd s2)
  | (ia, Some (t, mid, None)) => s1
  | (ia, Some (t, mid, Some (c', bd))) =>
      match s2 with
      | (ib, None) => (ia, Some (t, mid, Some (c', bd ++ ib)))
      | (ib, Some (t2, mid2, o2)) => (ia, Some (t, mid ++ mkSB c' (bd ++ ib) t2 :: mid2, o2))
      end
  end.

(* the blocks of a segment that starts in block c; the open block (if any) gets terminator t *)
Definition sflat_closed (c : nat) (sg : sseg) (t : sterm) : list sblock :=
  match sg with
  | (is0, None) => [mkSB c is0 t]
  | (is0, Some (t0, mid, None)) => mkSB c is0 t0 :: mid
  | (is0, Some (t0, mid, Some (c', bd))) => mkSB c is0 t0 :: mid ++ [mkSB c' bd t]
  end.

Definition scode (is : list vinstr) : sseg := (is, None).

(* ---------------- the model of the front end ---------------- *)
(* entry block of `range(a, b, bound=B)`: counter := start; assert not (start > end); assert not (rounds > B);
   end := start + rounds.  rounds is variable n2, the counter n2+1, the end value n2+6 *)
Definition forb_entry (T : nty) (ra rb : vop) (bound : Z) (n2 : nat) : list vinstr :=
  [VAssign (nm (S n2)) ra;
   V2 (nm (S (S n2))) (if nsigned T then OSgt else OGt) rb ra;
   V1 (nm (S (S (S n2)))) OIszero (VVar (nm (S (S n2))));
   VAssert (VVar (nm (S (S (S n2)))));
   V2 (nm (S (S (S (S n2))))) OGt (VLit bound) (VVar (nm n2));
   V1 (nm (S (S (S (S (S n2)))))) OIszero (VVar (nm (S (S (S (S n2))))));
   VAssert (VVar (nm (S (S (S (S (S n2)))))));
   V2 (nm (S (S (S (S (S (S n2))))))) OAdd (VVar (nm n2)) ra].

(* n: next fresh variable, L: next fresh label, brk / cnt: targets of break / continue *)
Fixpoint sgen (s : sstmt) (n L brk cnt : nat) : sseg * nat * nat :=
  let fix gl (l : list sstmt) (n L brk cnt : nat) : sseg * nat * nat :=
    match l with
    | [] => (scode [], n, L)
    | s :: r =>
        let '(sg1, n1, M1) := sgen s n L brk cnt in
        if is_open sg1 then let '(sg2, n2, M2) := gl r n1 M1 brk cnt in (sseq sg1 sg2, n2, M2)
        else (sg1, n1, M1)
    end in
  match s with
  | SAssign x e =>
      let '(se, re, n1, M1) := vgen e n L in
      (sseq (cseg se) (scode [VAssign x re]), n1, M1)
  | SIf c a b =>
      let '(sc, rc, n0, M0) := vgen c n L in
      let th := M0 in let el := S M0 in
      let '(sa, n1, M1) := gl a n0 (S (S M0)) brk cnt in
      let '(sb, n2, M2) := gl b n1 M1 brk cnt in
      if is_open sa || is_open sb then
        let ex := M2 in
        (sseq (cseg sc) ([], Some (STJnz rc th el,
                                   sflat_closed th sa (STJmp ex) ++ sflat_closed el sb (STJmp ex), Some (ex, []))),
         n2, S M2)
      else
        (sseq (cseg sc) ([], Some (STJnz rc th el, sflat_closed th sa STNone ++ sflat_closed el sb STNone, None)),
         n2, M2)
  | SAssert c =>
      let '(sc, rc, n0, M0) := vgen c n L in
      let ok := M0 in let fail := S M0 in
      (sseq (cseg sc) ([], Some (STJnz rc ok fail, [mkSB fail [] STRevert], Some (ok, []))), n0, S (S M0))
  | SFor i lo rounds body =>
      let cv := nm n in let ev := nm (S n) in let dn := nm (S (S n)) in
      let entry := L in let cond := S L in let bodyl := S (S L) in let incr := S (S (S L)) in let ex := S (S (S (S L))) in
      let '(sb, n1, M1) := gl body (S (S (S n))) (S (S (S (S (S L))))) ex incr in
      (([], Some (STJmp entry,
                  mkSB entry [VAssign cv (VLit lo); V2 ev OAdd (VLit (Z.of_nat rounds)) (VLit lo)] (STJmp cond)
                    :: mkSB cond [V2 dn OEq (VVar ev) (VVar cv)] (STJnz (VVar dn) ex bodyl)
                    :: sflat_closed bodyl (sseq (scode [VAssign i (VVar cv)]) sb) (STJmp incr)
                    ++ [mkSB incr [V2 (nm n1) OAdd (VLit 1) (VVar cv); VAssign cv (VVar (nm n1))] (STJmp cond)],
                  Some (ex, []))),
       S n1, M1)
  | SForB i T a b bound body =>
      let '(sa, ra, n1, M1) := vgen a n L in
      let '(sb_, rb, n2, M2) := vgen b n1 M1 in
      let '(sbd, n3, M3) := gl body (S (S (S (S (S (S (S (S n2)))))))) (S (S (S (S (S M2))))) (S (S (S (S M2)))) (S (S (S M2))) in
      (sseq (cseg sa) (sseq (cseg sb_)
         ([V2 (nm n2) OSub ra rb],
          Some (STJmp M2,
                mkSB M2 (forb_entry T ra rb bound n2) (STJmp (S M2))
                  :: mkSB (S M2) [V2 (nm (S (S (S (S (S (S (S n2)))))))) OEq (VVar (nm (S (S (S (S (S (S n2)))))))) (VVar (nm (S n2)))]
                       (STJnz (VVar (nm (S (S (S (S (S (S (S n2))))))))) (S (S (S (S M2)))) (S (S M2)))
                  :: sflat_closed (S (S M2)) (sseq (scode [VAssign i (VVar (nm (S n2)))]) sbd) (STJmp (S (S (S M2))))
                  ++ [mkSB (S (S (S M2))) [V2 (nm n3) OAdd (VLit 1) (VVar (nm (S n2))); VAssign (nm (S n2)) (VVar (nm n3))]
                        (STJmp (S M2))],
                Some (S (S (S (S M2))), [])))),
       S n3, M3)
  | SBreak => (([], Some (STJmp brk, [], None)), n, L)
  | SContinue => (([], Some (STJmp cnt, [], None)), n, L)
  | SPass => (scode [], n, L)
  | SReturn e =>
      let '(se, re, n1, M1) := vgen e n L in
      (sseq (cseg se) ([], Some (STRet re, [], None)), n1, M1)
  end.

Fixpoint sgen_list (l : list sstmt) (n L brk cnt : nat) : sseg * nat * nat :=
  match l with
  | [] => (scode [], n, L)
  | s :: r =>
      let '(sg1, n1, M1) := sgen s n L brk cnt in
      if is_open sg1 then let '(sg2, n2, M2) := sgen_list r n1 M1 brk cnt in (sseq sg1 sg2, n2, M2)
      else (sg1, n1, M1)
  end.

(* a function body: starts in block 0, labels from 1; no enclosing loop (break / continue targets unused) *)
Definition slower (body : list sstmt) : list sblock :=
  let '(sg, _, _) := sgen_list body 0 1 0 0 in sflat_closed 0 sg STNone.

(* ---------------- execution ---------------- *)
Fixpoint find_sb (P : list sblock) (l : nat) : option sblock :=
  match P with [] => None | b :: r => if Nat.eqb (sb_lab b) l then Some b else find_sb r l end.

Inductive sout := ORet (w : Z) | ORevert | OFall (e : env).

Inductive bexec (P : list sblock) : nat -> env -> sout -> Prop :=
| bexec_intro : forall l b e r, find_sb P l = Some b -> cexec P (sb_body b) (sb_term b) e r -> bexec P l e r
with cexec (P : list sblock) : list vinstr -> sterm -> env -> sout -> Prop :=
| cx_rev : forall is t e, vsl e is = VRevert -> cexec P is t e ORevert
| cx_ret : forall is v e e' w, vsl e is = VOk e' -> vval e' v = Some w -> cexec P is (STRet v) e (ORet w)
| cx_revert : forall is e e', vsl e is = VOk e' -> cexec P is STRevert e ORevert
| cx_fall : forall is e e', vsl e is = VOk e' -> cexec P is STNone e (OFall e')
| cx_jmp : forall is l e e' r, vsl e is = VOk e' -> bexec P l e' r -> cexec P is (STJmp l) e r
| cx_jnz : forall is c t f e e' w r, vsl e is = VOk e' -> vval e' c = Some w ->
    bexec P (if w =? 0 then f else t) e' r -> cexec P is (STJnz c t f) e r.

(* ---------------- decidable equality / checks for the tie ---------------- *)
Definition sterm_eqb (a b : sterm) : bool :=
  match a, b with
  | STNone, STNone => true
  | STJnz c t f, STJnz c' t' f' => vop_eqb c c' && Nat.eqb t t' && Nat.eqb f f'
  | STJmp l, STJmp l' => Nat.eqb l l'
  | STRet v, STRet v' => vop_eqb v v'
  | STRevert, STRevert => true
  | _, _ => false
  end.
Definition sblock_eqb (a b : sblock) : bool :=
  Nat.eqb (sb_lab a) (sb_lab b) && vlist_eqb (sb_body a) (sb_body b) && sterm_eqb (sb_term a) (sb_term b).
Fixpoint sblocks_eqb (a b : list sblock) : bool :=
  match a, b with [] , [] => true | x :: s, y :: t => sblock_eqb x y && sblocks_eqb s t | _, _ => false end.

Fixpoint nodup_nat (l : list nat) : bool :=
  match l with [] => true | x :: r => negb (existsb (Nat.eqb x) r) && nodup_nat r end.
Definition labels_ok (P : list sblock) : bool := nodup_nat (map sb_lab P).

(* the real front end's blocks for the body equal the model's, and the labels are pairwise distinct *)
Definition stie_ok (body : list sstmt) (bs : list sblock) : bool :=
  sblocks_eqb bs (slower body) && labels_ok (slower body).
