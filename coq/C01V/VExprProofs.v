(* Proofs for VExpr.v: instantiating a C03 template at arbitrary operands and fresh names preserves its behaviour, and
   the straight-line fragment of the expression lowering computes the source meaning (VExpr / ExprCompile.seval). *)
From Coq Require Import ZArith Bool List String Ascii Lia.
From Verif Require Import Base.Word256 C03.LIR C03.ArithSpec C03.WordArith C03.TypeLemmas C03.ArithModel C03.VSL
  C03.LegacyExact C03.VenomExact C01.ExprCompile C01.ExprCompileProofs C01V.VExpr.
Import ListNotations.
Open Scope string_scope.
Open Scope Z_scope.
Open Scope list_scope.

(* ---------------- names ---------------- *)
Lemma un_inj a : forall b, un a = un b -> a = b.
Proof. induction a; destruct b; cbn; intros H; try discriminate; [reflexivity | injection H as H; f_equal; auto]. Qed.
Lemma nm_inj a b : nm a = nm b -> a = b.
Proof. unfold nm. intros H. injection H as H. apply un_inj. exact H. Qed.

(* s is not a variable created at or after counter n *)
Definition old (n : nat) (s : string) : Prop := forall m, (n <= m)%nat -> s <> nm m.
Definition op_old (n : nat) (o : vop) : Prop := match o with VLit _ => True | VVar s => old n s end.
Definition ext (n : nat) (e0 e1 : env) : Prop := forall s, old n s -> lookup e1 s = lookup e0 s.

Lemma old_mono n m s : (n <= m)%nat -> old n s -> old m s.
Proof. intros H O k Hk. apply O. lia. Qed.
Lemma op_old_mono n m o : (n <= m)%nat -> op_old n o -> op_old m o.
Proof. destruct o; cbn; auto. apply old_mono. Qed.
Lemma old_nm n k : (k < n)%nat -> old n (nm k).
Proof. intros H m Hm E. apply nm_inj in E. lia. Qed.
Lemma ext_refl n e : ext n e e. Proof. intros s _. reflexivity. Qed.
Lemma ext_trans n m e0 e1 e2 : (n <= m)%nat -> ext n e0 e1 -> ext m e1 e2 -> ext n e0 e2.
Proof. intros H A B s O. rewrite (B s (old_mono _ _ _ H O)). apply A. exact O. Qed.
Lemma ext_cons n k w e : (n <= k)%nat -> ext n e ((nm k, w) :: e).
Proof.
  intros H s O. cbn [lookup]. destruct (String.eqb_spec (nm k) s) as [E|E]; [|reflexivity].
  exfalso. apply (O k H). symmetry. exact E.
Qed.
Lemma vval_ext n e0 e1 o : ext n e0 e1 -> op_old n o -> vval e1 o = vval e0 o.
Proof. intros X O. destruct o; cbn; [reflexivity | apply X; exact O]. Qed.

(* ---------------- template variables ---------------- *)
Lemma tidx_pn s j : tidx s = Some j -> s = pn j /\ (1 <= j <= 16)%nat.
Proof.
  unfold tidx. 
  do 16 (match goal with |- context [String.eqb s (pn ?k)] => destruct (String.eqb_spec s (pn k)) as [->|_];
           [intros H; injection H as <-; split; [reflexivity | lia]|] end).
  discriminate.
Qed.
Lemma tidx_inj s t j : tidx s = Some j -> tidx t = Some j -> s = t.
Proof. intros A B. apply tidx_pn in A as [-> _]. apply tidx_pn in B as [-> _]. reflexivity. Qed.

(* closed templates: every name is a template variable, outputs are %3.., at most k of them *)
Definition cl_op (k : nat) (o : vop) : bool :=
  match o with VLit _ => true | VVar s => match tidx s with Some j => Nat.ltb j (3 + k) | None => false end end.
Definition cl_out (k : nat) (s : string) : bool :=
  match tidx s with Some j => Nat.leb 3 j && Nat.ltb j (3 + k) | None => false end.
Definition cl_instr (k : nat) (i : vinstr) : bool :=
  match i with
  | V1 o _ x => cl_out k o && cl_op k x
  | V2 o _ x y => cl_out k o && cl_op k x && cl_op k y
  | V3 o _ x y z => cl_out k o && cl_op k x && cl_op k y && cl_op k z
  | VAssign o x => cl_out k o && cl_op k x
  | VAssert x => cl_op k x
  end.
Definition cl_tmpl (t : vtemplate) : bool :=
  forallb (cl_instr (n_outs (fst t))) (fst t) && cl_op (n_outs (fst t)) (snd t).

Lemma vtmpl_closed op T : cl_tmpl (vtmpl op T) = true.
Proof.
  destruct T as [k s d]. destruct op; unfold vtmpl, v_safe_add, v_safe_sub, v_safe_addsub, v_safe_mul, v_safe_div, v_safe_mod,
    v_clamp, v_not_special, v_nonzero_y, m_DIV; cbn [nbytes nsigned ndec];
    repeat match goal with |- context [if ?c then _ else _] => destruct c end; reflexivity.
Qed.

Section Inst.
Variables (a b : vop) (n k : nat).
Hypotheses (Oa : op_old n a) (Ob : op_old n b).

(* template environment vs. real environment: template variables hold what their instances hold *)
Definition R (et e : env) : Prop :=
  forall s j w, tidx s = Some j -> lookup et s = Some w -> vval e (inst_op a b n (VVar s)) = Some w.

Lemma vval_inst et e o w : cl_op k o = true -> R et e -> vval et o = Some w -> vval e (inst_op a b n o) = Some w.
Proof.
  intros C HR H. destruct o as [v|s]; [exact H|]. cbn [cl_op] in C. destruct (tidx s) as [j|] eqn:T; [|discriminate].
  eapply HR; eassumption.
Qed.

Lemma inst_out s j : tidx s = Some j -> (3 <= j)%nat -> inst_op a b n (VVar s) = VVar (nm (n + (j - 3))) /\ inst_name n s = nm (n + (j - 3)).
Proof.
  intros T H. unfold inst_op, inst_name. rewrite T. destruct j as [|[|[|j]]]; try lia. split; reflexivity.
Qed.

Lemma R_write et e o j w : tidx o = Some j -> (3 <= j)%nat -> R et e -> R ((o, w) :: et) ((nm (n + (j - 3)), w) :: e).
Proof.
  intros T H HR s j' w' T' L. cbn [lookup] in L. destruct (String.eqb_spec o s) as [E|E].
  - subst s. rewrite T in T'. injection T' as <-. injection L as <-.
    destruct (inst_out o j T H) as [-> _]. cbn [vval lookup]. rewrite String.eqb_refl. reflexivity.
  - specialize (HR s j' w' T' L).
    assert (J : j' <> j) by (intros ->; apply E; eapply tidx_inj; eassumption).
    unfold inst_op in *. rewrite T' in *.
    assert (K : forall o', op_old n o' -> vval e o' = Some w' -> vval ((nm (n + (j - 3)), w) :: e) o' = Some w').
    { intros o' O V. rewrite (vval_ext n e _ o' (ext_cons n (n + (j - 3)) w e ltac:(lia)) O). exact V. }
    destruct (tidx_pn _ _ T') as [_ [J1 _]].
    destruct j' as [|[|[|j']]]; [lia | apply K; assumption | apply K; assumption |].
    cbn [vval lookup] in *. destruct (String.eqb_spec (nm (n + (j - 3))) (nm (n + (S (S (S j')) - 3)))) as [Q|Q]; [|exact HR].
    apply nm_inj in Q. lia.
Qed.

Lemma step_inst et e i : cl_instr k i = true -> R et e ->
  match vstep et i with
  | VOk et' => exists e', vstep e (inst_instr a b n i) = VOk e' /\ R et' e' /\ ext n e e'
  | VRevert => vstep e (inst_instr a b n i) = VRevert
  | VStuck => True
  end.
Proof.
  intros C HR.
  assert (OUT : forall o, cl_out k o = true -> exists j, tidx o = Some j /\ (3 <= j)%nat).
  { intros o H. unfold cl_out in H. destruct (tidx o) as [j|]; [|discriminate]. apply andb_prop in H as [H _].
    apply Nat.leb_le in H. eauto. }
  destruct i as [o p x|o p x y|o p x y z|o x|x]; cbn [cl_instr] in C; cbn [vstep inst_instr].
  - apply andb_prop in C as [Co Cx]. destruct (OUT o Co) as (j & T & J). destruct (inst_out o j T J) as [_ ->].
    destruct (vval et x) as [vx|] eqn:Vx; [|exact I]. rewrite (vval_inst et e x vx Cx HR Vx).
    eexists. split; [reflexivity|]. split; [apply R_write; assumption | apply ext_cons; lia].
  - apply andb_prop in C as [C Cy]. apply andb_prop in C as [Co Cx]. destruct (OUT o Co) as (j & T & J). destruct (inst_out o j T J) as [_ ->].
    destruct (vval et x) as [vx|] eqn:Vx; [|exact I]. destruct (vval et y) as [vy|] eqn:Vy; [|exact I].
    rewrite (vval_inst et e x vx Cx HR Vx), (vval_inst et e y vy Cy HR Vy).
    eexists. split; [reflexivity|]. split; [apply R_write; assumption | apply ext_cons; lia].
  - apply andb_prop in C as [C Cz]. apply andb_prop in C as [C Cy]. apply andb_prop in C as [Co Cx].
    destruct (OUT o Co) as (j & T & J). destruct (inst_out o j T J) as [_ ->].
    destruct (vval et x) as [vx|] eqn:Vx; [|exact I]. destruct (vval et y) as [vy|] eqn:Vy; [|exact I].
    destruct (vval et z) as [vz|] eqn:Vz; [|exact I].
    rewrite (vval_inst et e x vx Cx HR Vx), (vval_inst et e y vy Cy HR Vy), (vval_inst et e z vz Cz HR Vz).
    eexists. split; [reflexivity|]. split; [apply R_write; assumption | apply ext_cons; lia].
  - apply andb_prop in C as [Co Cx]. destruct (OUT o Co) as (j & T & J). destruct (inst_out o j T J) as [_ ->].
    destruct (vval et x) as [vx|] eqn:Vx; [|exact I]. rewrite (vval_inst et e x vx Cx HR Vx).
    eexists. split; [reflexivity|]. split; [apply R_write; assumption | apply ext_cons; lia].
  - destruct (vval et x) as [vx|] eqn:Vx; [|exact I]. rewrite (vval_inst et e x vx C HR Vx).
    destruct (vx =? 0); [reflexivity|]. eexists. split; [reflexivity|]. split; [exact HR | apply ext_refl].
Qed.

Lemma vsl_inst l : forall et e, forallb (cl_instr k) l = true -> R et e ->
  match vsl et l with
  | VOk et' => exists e', vsl e (map (inst_instr a b n) l) = VOk e' /\ R et' e' /\ ext n e e'
  | VRevert => vsl e (map (inst_instr a b n) l) = VRevert
  | VStuck => True
  end.
Proof.
  induction l as [|i t IH]; intros et e C HR; cbn [vsl map].
  - eexists. split; [reflexivity|]. split; [exact HR | apply ext_refl].
  - cbn [forallb] in C. apply andb_prop in C as [Ci Ct]. pose proof (step_inst et e i Ci HR) as S.
    destruct (vstep et i) as [et1| |]; [|rewrite S; reflexivity | exact I].
    destruct S as (e1 & -> & R1 & X1). specialize (IH et1 e1 Ct R1).
    destruct (vsl et1 t) as [et2| |]; [|exact IH | exact I].
    destruct IH as (e2 & -> & R2 & X2). exists e2. split; [reflexivity|]. split; [exact R2|].
    eapply ext_trans; [apply Nat.le_refl | exact X1 | exact X2].
Qed.
End Inst.

(* ---------------- instantiated templates are exact ---------------- *)
Lemma tmpl_inst_exact (t : vtemplate) x y o a b n e :
  cl_tmpl t = true -> vrun (venv2 x y) t = enc_out o ->
  op_old n a -> op_old n b -> vval e a = Some (wrap x) -> vval e b = Some (wrap y) ->
  let '(is, r, k) := inst_tmpl t a b n in
  match o with
  | Val v => exists e', vsl e is = VOk e' /\ vval e' r = Some (wrap v) /\ ext n e e' /\ op_old (n + k) r
  | Revert => vsl e is = VRevert
  | _ => True
  end.
Proof.
  intros C EX Oa Ob Va Vb. unfold inst_tmpl. unfold cl_tmpl in C. apply andb_prop in C as [Cl Cr].
  set (k := n_outs (fst t)) in *.
  assert (R0 : R a b n (venv2 x y) e).
  { intros s j w T L. unfold venv2 in L. cbn [lookup] in L. unfold inst_op. rewrite T.
    destruct (String.eqb_spec "%2" s) as [<-|N2].
    - injection L as <-. cbn in T. injection T as <-. exact Vb.
    - destruct (String.eqb_spec "%1" s) as [<-|N1]; [|discriminate].
      injection L as <-. cbn in T. injection T as <-. exact Va. }
  pose proof (vsl_inst a b n k Oa Ob (fst t) (venv2 x y) e Cl R0) as S.
  unfold vrun in EX.
  destruct (vsl (venv2 x y) (fst t)) as [et'| |]; [| destruct o; try discriminate EX; exact S | destruct o; try discriminate EX; exact I].
  destruct S as (e' & S1 & R1 & X1).
  destruct (vval et' (snd t)) as [w|] eqn:Vr; [|destruct o; try discriminate EX; exact I].
  destruct o as [v| | |]; try discriminate EX; try exact I. cbn [enc_out] in EX. injection EX as ->.
  exists e'. split; [exact S1|]. split; [eapply vval_inst; eassumption|]. split; [exact X1|].
  destruct (snd t) as [lit|s]; [exact I|]. cbn [cl_op] in Cr. destruct (tidx s) as [j|] eqn:T; [|discriminate].
  apply Nat.ltb_lt in Cr. unfold inst_op. rewrite T. destruct (tidx_pn _ _ T) as [_ [J1 _]].
  destruct j as [|[|[|j]]]; [lia | eapply op_old_mono; [|exact Oa]; lia | eapply op_old_mono; [|exact Ob]; lia |].
  cbn [op_old]. apply old_nm. lia.
Qed.

Lemma vtmpl_exact op T x y : int_ok T = true -> in_range T x -> in_range T y ->
  vrun (venv2 x y) (vtmpl op T) = enc_out (arith_spec T (aop_of op) x y).
Proof.
  intros Ht Hx Hy. destruct (int_ok_ty_ok T Ht) as (Tok & _ & _).
  destruct op; cbn [vtmpl aop_of];
    [apply vsafe_add_exact | apply vsafe_sub_exact | apply vsafe_mul_exact | apply vsafe_div_exact | apply vsafe_mod_exact]; assumption.
Qed.

(* ---------------- the straight-line fragment ---------------- *)
Fixpoint sl (e : sexpr) : bool :=
  match e with
  | XAnd _ _ | XOr _ _ | XIf _ _ _ => false
  | XBin _ _ _ _ _ _ a b | XBit _ _ a b | XCmp _ _ a b => sl a && sl b
  | XNot a | XNeg _ _ a => sl a
  | _ => true
  end.

Definition is_local (s : string) : bool := match s with String c _ => negb (Ascii.eqb c "%") | EmptyString => true end.

(* well-typed (as ExprCompile.wt, without the legacy cache-flag conditions); locals are not named like temporaries *)
Fixpoint vwt (e : sexpr) : bool :=
  match e with
  | XInt T v => int_ok T && in_rangeb T v
  | XBool _ => true
  | XVar s t => is_local s && sty_ok t
  | XBin _ T _ _ _ _ a b => int_ok T && vwt a && vwt b && sty_eqb (ty_of a) (SInt T) && sty_eqb (ty_of b) (SInt T)
  | XBit _ T a b => int_ok T && negb (nsigned T) && vwt a && vwt b && sty_eqb (ty_of a) (SInt T) && sty_eqb (ty_of b) (SInt T)
  | XCmp op t a b => sty_ok t && vwt a && vwt b && sty_eqb (ty_of a) t && sty_eqb (ty_of b) t
                     && match t, op with SBool, CEq | SBool, CNe => true | SBool, _ => false | _, _ => true end
  | XAnd a b | XOr a b => vwt a && vwt b && sty_eqb (ty_of a) SBool && sty_eqb (ty_of b) SBool
  | XNot a => vwt a && sty_eqb (ty_of a) SBool
  | XNeg T _ a => int_ok T && nsigned T && vwt a && sty_eqb (ty_of a) (SInt T)
  | XIf c a b => vwt c && vwt a && vwt b && sty_eqb (ty_of c) SBool && sty_eqb (ty_of a) (ty_of b)
  end.

(* the builder restricted to one block: instructions, result operand, next fresh variable *)
Fixpoint vcs (e : sexpr) (n : nat) : list vinstr * vop * nat :=
  match e with
  | XInt _ v => ([], VLit v, n)
  | XBool b => ([], VLit (b2z b), n)
  | XVar x _ => ([VAssign (nm n) (VVar x)], VVar (nm n), S n)
  | XBin op T _ _ _ _ a b =>
      let '(ia, ra, n1) := vcs a n in
      let '(ib, rb, n2) := vcs b n1 in
      let '(it, r, k) := inst_tmpl (vtmpl op T) ra rb n2 in
      (ia ++ ib ++ it, r, (n2 + k)%nat)
  | XBit op _ a b =>
      let '(ia, ra, n1) := vcs a n in
      let '(ib, rb, n2) := vcs b n1 in
      (ia ++ ib ++ [V2 (nm n2) (bit_op2 op) rb ra], VVar (nm n2), S n2)
  | XCmp op t a b =>
      let '(ia, ra, n1) := vcs a n in
      let '(ib, rb, n2) := vcs b n1 in
      let (o, neg) := vcmp op t in
      if neg then (ia ++ ib ++ [V2 (nm n2) o rb ra; V1 (nm (S n2)) OIszero (VVar (nm n2))], VVar (nm (S n2)), S (S n2))
      else (ia ++ ib ++ [V2 (nm n2) o rb ra], VVar (nm n2), S n2)
  | XNot a =>
      let '(ia, ra, n1) := vcs a n in
      (ia ++ [V1 (nm n1) OIszero ra], VVar (nm n1), S n1)
  | XNeg T _ a =>
      let '(ia, ra, n1) := vcs a n in
      (ia ++ [V2 (nm n1) OSgt (VLit (ty_lo T)) ra; VAssert (VVar (nm n1)); V2 (nm (S n1)) OSub ra (VLit 0)],
       VVar (nm (S n1)), S (S n1))
  | _ => ([], VLit 0, n)
  end.


Lemma vsl_app l1 : forall e l2, vsl e (l1 ++ l2) = match vsl e l1 with VOk e' => vsl e' l2 | r => r end.
Proof.
  induction l1 as [|i t IH]; intros e l2; cbn [app vsl]; [reflexivity|].
  destruct (vstep e i); [apply IH | reflexivity | reflexivity].
Qed.

Lemma local_old n s : is_local s = true -> old n s.
Proof.
  intros H m _ E. subst s. cbn in H. discriminate.
Qed.

(* the Venom environment of a source environment: every local holds the word of its value *)
Definition venv (rho : senv) (e0 : env) : Prop :=
  forall x v, is_local x = true -> lookup rho x = Some v -> lookup e0 x = Some (wrap v).
Lemma venv_ext rho n e0 e1 : venv rho e0 -> ext n e0 e1 -> venv rho e1.
Proof. intros V X x v L H. rewrite (X x (local_old n x L)). apply V; assumption. Qed.

(* ---------------- word-level facts ---------------- *)
Lemma vcmp_word op t wx wy :
  (let (o, neg) := vcmp op t in if neg then w_iszero (ev2 o wx wy) else ev2 o wx wy) = ev2 (cmp_op op t) wy wx.
Proof.
  unfold vcmp, cmp_op. destruct (is_u256 t), op; cbn [ev2]; unfold w_lt, w_gt, w_slt, w_sgt, w_eq;
    rewrite ?Z.gtb_ltb, ?(Z.eqb_sym wy wx); reflexivity.
Qed.

Lemma bit_op2_eq op : bit_op2 op = bit_op op. Proof. destruct op; reflexivity. Qed.
Lemma bit_fun_comm op x y : bit_fun op x y = bit_fun op y x.
Proof. destruct op; cbn; [apply Z.land_comm | apply Z.lor_comm | apply Z.lxor_comm]. Qed.

Lemma not_word x : x = 0 \/ x = 1 -> w_iszero (wrap x) = b2z (x =? 0).
Proof. intros [-> | ->]; reflexivity. Qed.

Lemma neg_word k x : 1 <= k <= 32 -> in_range (Build_nty k true false) x ->
  let T := Build_nty k true false in
  w_sgt (wrap x) (wrap (ty_lo T)) = b2z (in_rangeb T (- x)) /\ w_sub (wrap 0) (wrap x) = wrap (- x).
Proof.
  intros Hk Rx T.
  pose proof (range_bounds k true false x ltac:(lia) Rx) as Bx. cbn beta iota in Bx.
  assert (HbH : Hb k <= HALF).
  { destruct (Z.eq_dec k 32) as [->|]; [rewrite Hb_32; lia|]. pose proof (Hb_le247 k ltac:(lia)). rewrite P247_val in *. wl. }
  pose proof (Hb_pos k ltac:(lia)) as HbP.
  assert (Sx : sword x) by (unfold sword; wl).
  assert (Sl : sword (- Hb k)) by (unfold sword; wl).
  split.
  - unfold T. rewrite ty_lo_s. unfold w_sgt. rewrite (ts_wrap x Sx), (ts_wrap (- Hb k) Sl). f_equal.
    destruct (x >? - Hb k) eqn:Gt.
    + symmetry. apply in_rangeb_iff. unfold in_range. rewrite ty_lo_s, ty_hi_s. lia.
    + symmetry. apply not_true_iff_false. intros C. apply in_rangeb_iff in C. unfold in_range in C.
      rewrite ty_lo_s, ty_hi_s in C. lia.
  - rewrite w_sub_wrap. reflexivity.
Qed.

(* ---------------- the theorem for the straight-line fragment ---------------- *)
Definition Res (rho : senv) (e0 : env) (n : nat) (e : sexpr) (out : list vinstr * vop * nat) : Prop :=
  let '(is, r, n') := out in
  (n <= n')%nat /\ good (ty_of e) (seval rho e) /\
  match seval rho e with
  | Val v => exists e1, vsl e0 is = VOk e1 /\ vval e1 r = Some (wrap v) /\ ext n e0 e1 /\ op_old n' r
  | Revert => vsl e0 is = VRevert
  | _ => True
  end.

(* two operands, then a tail `fin` that may use both *)
Lemma two_operands rho e0 n a b ia ra n1 ib rb n2 fin :
  Res rho e0 n a (ia, ra, n1) -> (forall e1, ext n e0 e1 -> Res rho e1 n1 b (ib, rb, n2)) ->
  (n <= n2)%nat /\
  match seval rho a with
  | Val x => match seval rho b with
             | Val y => exists e2, vsl e0 (ia ++ ib ++ fin) = vsl e2 fin /\ vval e2 ra = Some (wrap x) /\
                                   vval e2 rb = Some (wrap y) /\ ext n e0 e2 /\ op_old n2 ra /\ op_old n2 rb
             | Revert => vsl e0 (ia ++ ib ++ fin) = VRevert
             | _ => True end
  | Revert => vsl e0 (ia ++ ib ++ fin) = VRevert
  | _ => True
  end.
Proof.
  intros (L1 & _ & A) HB. destruct (seval rho a) as [x| | |] eqn:Sa.
  - destruct A as (e1 & S1 & V1 & X1 & O1). destruct (HB e1 X1) as (L2 & _ & B). split; [lia|].
    destruct (seval rho b) as [y| | |]; try exact I.
    + destruct B as (e2 & S2 & V2 & X2 & O2). exists e2. rewrite vsl_app, S1, vsl_app, S2.
      split; [reflexivity|]. split; [rewrite (vval_ext n1 e1 e2 ra X2 O1); exact V1|]. split; [exact V2|].
      split; [eapply ext_trans; eassumption|]. split; [eapply op_old_mono; eassumption | exact O2].
    + rewrite vsl_app, S1, vsl_app, B. reflexivity.
  - destruct (HB e0 (ext_refl n e0)) as (L2 & _ & _). split; [lia | exact I].
  - destruct (HB e0 (ext_refl n e0)) as (L2 & _ & _). split; [lia|]. rewrite vsl_app, A. reflexivity.
  - destruct (HB e0 (ext_refl n e0)) as (L2 & _ & _). split; [lia | exact I].
Qed.

Local Opaque int_ok sty_ok.

Theorem vcs_correct : forall e rho, sl e = true -> vwt e = true -> env_ok rho e = true ->
  forall n e0, venv rho e0 -> Res rho e0 n e (vcs e n).
Proof.
  induction e as [T v | b | s t | op T ia ib i1 i2 a IHa b IHb | op T a IHa b IHb | op t a IHa b IHb
                 | a IHa b IHb | a IHa b IHb | a IHa | T ic a IHa | c IHc a IHa b IHb];
    intros rho SL W E n e0 VE; cbn [sl vwt env_ok] in SL, W, E; try discriminate SL; unfold Res; cbn [vcs ty_of seval].
  - (* XInt *)
    apply andb_true_iff in W. destruct W as [_ Hr]. split; [lia|]. split; [exact Hr|].
    exists e0. split; [reflexivity|]. split; [reflexivity|]. split; [apply ext_refl | exact I].
  - (* XBool *)
    split; [lia|]. split; [destruct b; reflexivity|].
    exists e0. split; [reflexivity|]. split; [reflexivity|]. split; [apply ext_refl | exact I].
  - (* XVar *)
    apply andb_true_iff in W. destruct W as [Hl _].
    destruct (lookup rho s) as [v|] eqn:L; [|discriminate]. split; [lia|]. split; [exact E|].
    eexists. cbn [vsl vstep vval]. rewrite (VE s v Hl L). split; [reflexivity|].
    split; [cbn [lookup]; rewrite String.eqb_refl; reflexivity|]. split; [apply ext_cons; lia | apply old_nm; lia].
  - (* XBin *)
    repeat (apply andb_true_iff in W; destruct W as [W ?]).
    apply andb_true_iff in E. destruct E as [Ea Eb]. apply andb_true_iff in SL. destruct SL as [Sa Sb].
    match goal with H : sty_eqb (ty_of a) _ = true |- _ => apply sty_eqb_eq in H; rename H into Ta end.
    match goal with H : sty_eqb (ty_of b) _ = true |- _ => apply sty_eqb_eq in H; rename H into Tb end.
    assert (Ht : int_ok T = true) by assumption. destruct (int_ok_ty_ok T Ht) as (_ & _ & Hd).
    pose proof (IHa rho Sa ltac:(assumption) Ea n e0 VE) as RA.
    destruct (vcs a n) as [[isa ra] n1] eqn:Ca.
    assert (RB : forall e1, ext n e0 e1 -> Res rho e1 n1 b (vcs b n1))
      by (intros e1 X1; apply IHb; try assumption; eapply venv_ext; eassumption).
    destruct (vcs b n1) as [[isb rb] n2] eqn:Cb.
    pose proof RA as (_ & Ga & _). pose proof (RB e0 (ext_refl n e0)) as (_ & Gb & _). rewrite Ta in Ga. rewrite Tb in Gb.
    destruct (inst_tmpl (vtmpl op T) ra rb n2) as [[it r] k] eqn:IT.
    destruct (two_operands rho e0 n a b isa ra n1 isb rb n2 it RA RB) as [L2 HT].
    split; [lia|].
    destruct (seval rho a) as [x| | |] eqn:Sea; try contradiction; [|split; [exact I | exact HT]].
    destruct (seval rho b) as [y| | |] eqn:Seb; try contradiction; [|split; [exact I | exact HT]].
    pose proof (val_ok_int _ _ Ga) as Rx. pose proof (val_ok_int _ _ Gb) as Ry.
    pose proof (arith_spec_good T (aop_of op) x y Hd ltac:(destruct op; discriminate)) as G.
    destruct HT as (e2 & S2 & Va & Vb & X2 & Oa & Ob).
    pose proof (tmpl_inst_exact (vtmpl op T) x y _ ra rb n2 e2 (vtmpl_closed op T) (vtmpl_exact op T x y Ht Rx Ry) Oa Ob Va Vb) as TE.
    rewrite IT in TE.
    destruct (arith_spec T (aop_of op) x y) as [v| | |]; try contradiction.
    + split; [exact G|]. destruct TE as (e3 & S3 & V3 & X3 & O3). exists e3. rewrite S2.
      split; [exact S3|]. split; [exact V3|]. split; [exact (ext_trans n n2 e0 e2 e3 L2 X2 X3) | exact O3].
    + split; [exact I|]. rewrite S2. exact TE.
  - (* XBit *)
    repeat (apply andb_true_iff in W; destruct W as [W ?]).
    apply andb_true_iff in E. destruct E as [Ea Eb]. apply andb_true_iff in SL. destruct SL as [Sa Sb].
    match goal with H : sty_eqb (ty_of a) _ = true |- _ => apply sty_eqb_eq in H; rename H into Ta end.
    match goal with H : sty_eqb (ty_of b) _ = true |- _ => apply sty_eqb_eq in H; rename H into Tb end.
    match goal with H : negb (nsigned T) = true |- _ => apply negb_true_iff in H; rename H into Hs end.
    pose proof (IHa rho Sa ltac:(assumption) Ea n e0 VE) as RA.
    destruct (vcs a n) as [[isa ra] n1] eqn:Ca.
    assert (RB : forall e1, ext n e0 e1 -> Res rho e1 n1 b (vcs b n1))
      by (intros e1 X1; apply IHb; try assumption; eapply venv_ext; eassumption).
    destruct (vcs b n1) as [[isb rb] n2] eqn:Cb.
    pose proof RA as (_ & Ga & _). pose proof (RB e0 (ext_refl n e0)) as (_ & Gb & _). rewrite Ta in Ga. rewrite Tb in Gb.
    destruct (two_operands rho e0 n a b isa ra n1 isb rb n2 [V2 (nm n2) (bit_op2 op) rb ra] RA RB) as [L2 HT].
    split; [lia|].
    destruct (seval rho a) as [x| | |] eqn:Sea; try contradiction; [|split; [exact I | exact HT]].
    destruct (seval rho b) as [y| | |] eqn:Seb; try contradiction; [|split; [exact I | exact HT]].
    destruct (bit_word op T y x ltac:(assumption) Hs (val_ok_int _ _ Gb) (val_ok_int _ _ Ga)) as [Hw Hr].
    rewrite (bit_fun_comm op y x) in Hw, Hr.
    split; [exact Hr|]. destruct HT as (e2 & S2 & Va & Vb & X2 & Oa & Ob).
    eexists. rewrite S2. cbn [vsl vstep]. rewrite Va, Vb. split; [reflexivity|].
    split; [cbn [vval lookup]; rewrite String.eqb_refl, bit_op2_eq, Hw; reflexivity|].
    split; [apply (ext_trans n n2 e0 e2 _ L2 X2); apply ext_cons; lia | apply old_nm; lia].
  - (* XCmp *)
    repeat (apply andb_true_iff in W; destruct W as [W ?]).
    apply andb_true_iff in E. destruct E as [Ea Eb]. apply andb_true_iff in SL. destruct SL as [Sa Sb].
    match goal with H : sty_eqb (ty_of a) _ = true |- _ => apply sty_eqb_eq in H; rename H into Ta end.
    match goal with H : sty_eqb (ty_of b) _ = true |- _ => apply sty_eqb_eq in H; rename H into Tb end.
    pose proof (IHa rho Sa ltac:(assumption) Ea n e0 VE) as RA.
    destruct (vcs a n) as [[isa ra] n1] eqn:Ca.
    assert (RB : forall e1, ext n e0 e1 -> Res rho e1 n1 b (vcs b n1))
      by (intros e1 X1; apply IHb; try assumption; eapply venv_ext; eassumption).
    destruct (vcs b n1) as [[isb rb] n2] eqn:Cb.
    pose proof RA as (_ & Ga & _). pose proof (RB e0 (ext_refl n e0)) as (_ & Gb & _). rewrite Ta in Ga. rewrite Tb in Gb.
    pose proof (vcmp_word op t) as CW. destruct (vcmp op t) as [o neg] eqn:VC.
    assert (GOOD : forall x y, good SBool (Val (b2z (cmp_fun op x y)))) by (intros; cbn; destruct (cmp_fun op x y); reflexivity).
    destruct neg.
    + destruct (two_operands rho e0 n a b isa ra n1 isb rb n2 [V2 (nm n2) o rb ra; V1 (nm (S n2)) OIszero (VVar (nm n2))] RA RB) as [L2 HT].
      split; [lia|].
      destruct (seval rho a) as [x| | |] eqn:Sea; try contradiction; [|split; [exact I | exact HT]].
      destruct (seval rho b) as [y| | |] eqn:Seb; try contradiction; [|split; [exact I | exact HT]].
      split; [apply GOOD|]. destruct HT as (e2 & S2 & Va & Vb & X2 & Oa & Ob).
      eexists. rewrite S2. cbn [vsl vstep]. rewrite Va, Vb. cbn [vval lookup]. rewrite String.eqb_refl. cbn [vsl].
      split; [reflexivity|]. split.
      * cbn [vval lookup]. rewrite String.eqb_refl. cbn [ev1]. rewrite (CW (wrap x) (wrap y)).
        rewrite (cmp_word op t x y) by assumption. rewrite b2z_wrap. reflexivity.
      * split; [| apply old_nm; lia]. apply (ext_trans n n2 e0 e2 _ L2 X2).
        eapply (ext_trans n2 n2); [lia | apply (ext_cons n2 n2); lia | apply (ext_cons n2 (S n2)); lia].
    + destruct (two_operands rho e0 n a b isa ra n1 isb rb n2 [V2 (nm n2) o rb ra] RA RB) as [L2 HT].
      split; [lia|].
      destruct (seval rho a) as [x| | |] eqn:Sea; try contradiction; [|split; [exact I | exact HT]].
      destruct (seval rho b) as [y| | |] eqn:Seb; try contradiction; [|split; [exact I | exact HT]].
      split; [apply GOOD|]. destruct HT as (e2 & S2 & Va & Vb & X2 & Oa & Ob).
      eexists. rewrite S2. cbn [vsl vstep]. rewrite Va, Vb. split; [reflexivity|]. split.
      * cbn [vval lookup]. rewrite String.eqb_refl. rewrite (CW (wrap x) (wrap y)).
        rewrite (cmp_word op t x y) by assumption. rewrite b2z_wrap. reflexivity.
      * split; [| apply old_nm; lia]. apply (ext_trans n n2 e0 e2 _ L2 X2). apply ext_cons. lia.
  - (* XNot *)
    apply andb_true_iff in W. destruct W as [Wa Ta]. apply sty_eqb_eq in Ta.
    pose proof (IHa rho SL Wa E n e0 VE) as RA. destruct (vcs a n) as [[isa ra] n1] eqn:Ca.
    destruct RA as (L1 & Ga & A). rewrite Ta in Ga. split; [lia|].
    destruct (seval rho a) as [x| | |] eqn:Sea; try contradiction.
    + split; [cbn; destruct (x =? 0); reflexivity|]. destruct A as (e1 & S1 & V1 & X1 & O1).
      eexists. rewrite vsl_app, S1. cbn [vsl vstep]. rewrite V1. split; [reflexivity|]. split.
      * cbn [vval lookup]. rewrite String.eqb_refl. cbn [ev1]. rewrite (not_word x (val_ok_bool _ Ga)), b2z_wrap. reflexivity.
      * split; [apply (ext_trans n n1 e0 e1 _ L1 X1); apply ext_cons; lia | apply old_nm; lia].
    + split; [exact I|]. rewrite vsl_app, A. reflexivity.
  - (* XNeg *)
    repeat (apply andb_true_iff in W; destruct W as [W ?]).
    match goal with H : sty_eqb (ty_of a) _ = true |- _ => apply sty_eqb_eq in H; rename H into Ta end.
    assert (Ht : int_ok T = true) by assumption. assert (Hs : nsigned T = true) by assumption.
    destruct (int_ok_ty_ok T Ht) as (_ & Hk & Hd).
    pose proof (IHa rho SL ltac:(assumption) E n e0 VE) as RA. destruct (vcs a n) as [[isa ra] n1] eqn:Ca.
    destruct RA as (L1 & Ga & A). rewrite Ta in Ga. split; [lia|].
    destruct (seval rho a) as [x| | |] eqn:Sea; try contradiction.
    + pose proof (val_ok_int _ _ Ga) as Rx. destruct T as [k s d]. cbn [nsigned nbytes ndec] in *. subst s d.
      destruct (neg_word k x Hk Rx) as [N1 N2]. cbn [arith_spec]. unfold chk.
      destruct A as (e1 & S1 & V1 & X1 & O1).
      split; [destruct (in_rangeb (Build_nty k true false) (- x)) eqn:R; [exact R | exact I]|].
      rewrite vsl_app, S1. cbn [vsl vstep vval]. rewrite V1. cbn [ev2]. rewrite N1.
      cbn [lookup]. rewrite String.eqb_refl.
      destruct (in_rangeb (Build_nty k true false) (- x)); cbn [b2z Z.eqb]; [|reflexivity].
      rewrite (vval_ext n1 e1 _ ra (ext_cons n1 n1 _ e1 ltac:(lia)) O1), V1. cbn [ev2].
      eexists. split; [reflexivity|]. split; [cbn [vval lookup]; rewrite String.eqb_refl; change (wrap 0) with (wrap 0); rewrite N2; reflexivity|].
      split; [| apply old_nm; lia]. apply (ext_trans n n1 e0 e1 _ L1 X1).
      eapply (ext_trans n1 n1); [lia | apply (ext_cons n1 n1); lia | apply (ext_cons n1 (S n1)); lia].
    + split; [exact I|]. rewrite vsl_app, A. reflexivity.
Qed.

(* ---------------- the builder model on the fragment ---------------- *)
Definition set_var (n : nat) (s : bstate) : bstate := mkS n (s_lab s) (s_cur s) (s_blocks s).

Lemma upd_app l is1 is2 bs :
  upd_block l (fun b => mkB (b_lab b) (b_body b ++ is2) (b_term b)) (upd_block l (fun b => mkB (b_lab b) (b_body b ++ is1) (b_term b)) bs)
  = upd_block l (fun b => mkB (b_lab b) (b_body b ++ is1 ++ is2) (b_term b)) bs.
Proof.
  unfold upd_block. rewrite map_map. apply map_ext. intros b. destruct (Nat.eqb (b_lab b) l) eqn:E.
  - cbn [b_lab b_body b_term]. rewrite E, app_assoc. reflexivity.
  - rewrite E. reflexivity.
Qed.
Lemma upd_nil l bs : upd_block l (fun b => mkB (b_lab b) (b_body b ++ []) (b_term b)) bs = bs.
Proof.
  unfold upd_block. rewrite <- (map_id bs) at 2. apply map_ext. intros [lb bd tm]. cbn. rewrite app_nil_r.
  destruct (Nat.eqb lb l); reflexivity.
Qed.
Lemma emit_emit is1 is2 s : emit is2 (emit is1 s) = emit (is1 ++ is2) s.
Proof. unfold emit. cbn [s_var s_lab s_cur s_blocks]. rewrite upd_app. reflexivity. Qed.
Lemma emit_nil s : emit [] s = s.
Proof. unfold emit. rewrite upd_nil. destruct s; reflexivity. Qed.
Lemma emit_set_var is n s : emit is (set_var n s) = set_var n (emit is s).
Proof. reflexivity. Qed.
Lemma set_var_set_var n m s : set_var n (set_var m s) = set_var n s. Proof. reflexivity. Qed.
Lemma set_var_id s : set_var (s_var s) s = s. Proof. destruct s; reflexivity. Qed.

Lemma vcompile_sl e : sl e = true -> forall s,
  let '(is, r, n') := vcs e (s_var s) in vcompile e s = (r, emit is (set_var n' s)).
Proof.
  induction e as [T v | b | x t | op T ia ib i1 i2 a IHa b IHb | op T a IHa b IHb | op t a IHa b IHb
                 | a IHa b IHb | a IHa b IHb | a IHa | T ic a IHa | c IHc a IHa b IHb];
    intros SL s; cbn [sl] in SL; try discriminate SL; cbn [vcs vcompile].
  - rewrite set_var_id, emit_nil. reflexivity.
  - rewrite set_var_id, emit_nil. reflexivity.
  - reflexivity.
  - apply andb_true_iff in SL. destruct SL as [Sa Sb]. specialize (IHa Sa s).
    destruct (vcs a (s_var s)) as [[isa ra] n1]. rewrite IHa.
    specialize (IHb Sb (emit isa (set_var n1 s))). cbn [s_var emit set_var] in IHb.
    destruct (vcs b n1) as [[isb rb] n2]. rewrite IHb. cbn [s_var emit set_var].
    destruct (inst_tmpl (vtmpl op T) ra rb n2) as [[it r] k]. f_equal.
    unfold fresh_n, emit, set_var. cbn [s_var s_lab s_cur s_blocks]. rewrite !upd_app. reflexivity.
  - apply andb_true_iff in SL. destruct SL as [Sa Sb]. specialize (IHa Sa s).
    destruct (vcs a (s_var s)) as [[isa ra] n1]. rewrite IHa.
    specialize (IHb Sb (emit isa (set_var n1 s))). cbn [s_var emit set_var] in IHb.
    destruct (vcs b n1) as [[isb rb] n2]. rewrite IHb. cbn [s_var emit set_var fresh]. f_equal.
    unfold emit, set_var. cbn [s_var s_lab s_cur s_blocks]. rewrite !upd_app. reflexivity.
  - apply andb_true_iff in SL. destruct SL as [Sa Sb]. specialize (IHa Sa s).
    destruct (vcs a (s_var s)) as [[isa ra] n1]. rewrite IHa.
    specialize (IHb Sb (emit isa (set_var n1 s))). cbn [s_var emit set_var] in IHb.
    destruct (vcs b n1) as [[isb rb] n2]. rewrite IHb. cbn [s_var emit set_var fresh].
    destruct (vcmp op t) as [o [|]]; cbn [fresh s_var]; f_equal;
      unfold emit, set_var; cbn [s_var s_lab s_cur s_blocks]; rewrite !upd_app; reflexivity.
  - specialize (IHa SL s). destruct (vcs a (s_var s)) as [[isa ra] n1]. rewrite IHa. cbn [s_var emit set_var fresh]. f_equal.
    unfold emit, set_var. cbn [s_var s_lab s_cur s_blocks]. rewrite !upd_app. reflexivity.
  - specialize (IHa SL s). destruct (vcs a (s_var s)) as [[isa ra] n1]. rewrite IHa. cbn [s_var emit set_var fresh]. f_equal.
    unfold emit, set_var. cbn [s_var s_lab s_cur s_blocks]. rewrite !upd_app. reflexivity.
Qed.

(* the real front end's instructions (= vlower e, by the per-run tie) for a straight-line expression form one block
   whose execution yields the source meaning *)
Theorem vexpr_sl_correct : forall e rho e0, sl e = true -> vwt e = true -> env_ok rho e = true -> venv rho e0 ->
  exists is r, vlower e = (r, [mkB 0 is TNone]) /\ vrun e0 (is, r) = enc_out (seval rho e).
Proof.
  intros e rho e0 SL W E VE. pose proof (vcompile_sl e SL init_state) as VC. cbn [s_var init_state] in VC.
  pose proof (vcs_correct e rho SL W E 0%nat e0 VE) as RC.
  destruct (vcs e 0) as [[is r] n']. exists is, r. split.
  - unfold vlower. change init_state with (mkS 0 1 0 [mkB 0 [] TNone]) in *. rewrite VC. reflexivity.
  - destruct RC as (_ & G & C). unfold vrun. cbn [fst snd].
    destruct (seval rho e) as [v| | |]; try contradiction.
    + destruct C as (e1 & -> & -> & _). reflexivity.
    + rewrite C. reflexivity.
Qed.
